(* Proofs for property C03 (printed text says exactly what the dictionary says). *)
From MF Require Import Lib.Base Lib.PyDict Lib.Json Gen.Tokens Gen.Schemas Model.Case Model.SchemaStore
  Model.Quoter Model.PPrint Spec.Layout Spec.Reader Proofs.PPrintFacts Proofs.C16 Proofs.C16Breaks.
Open Scope nat_scope.

(* ------------------------------------------------------------ what format_value looks at *)
Inductive pshape :=
| PSEnum                       (* "enum" is one of the keys of the slot schema *)
| PSString (expr : bool)       (* type == "string"; expr: description == "expression" *)
| PSOneOf (options : list json)
| PSFall.                      (* anything else: allOf, number, integer, boolean, array, object, {} *)

Definition is_string_type (props : json) : bool :=
  match jget (Str "type") props with Some (JStr t) => str_eqb t (Str "string") | _ => false end.

Definition pshape_of (props : json) : pshape :=
  if mem_str (Str "enum") (jkeys props) then PSEnum
  else if is_string_type props then PSString (is_expression props)
  else if mem_str (Str "oneOf") (jkeys props) || mem_str (Str "anyOf") (jkeys props)
  then PSOneOf (options_of props)
  else PSFall.

Definition shape_of_slot (slot : str * str * json) : option pshape :=
  match get_attribute_properties (fst (fst slot)) (snd (fst slot)) with
  | Ok props => Some (pshape_of props)
  | Err _ => None
  end.

(* enumerated words the printer recognises in a oneOf / anyOf slot: those of the top-level options *)
Definition option_words (options : list json) : list str :=
  flat_map (fun op => enum_words (deref op)) options.

Definition no_special_pattern (o : offers) : bool :=
  negb (offers_pattern binding_prefix o) && negb (offers_pattern paren_prefix o)
  && negb (offers_pattern regex_prefix o).

Definition offers_string (o : offers) : bool :=
  o_free o || match o_patterns o with [] => false | _ => true end.

(* the printer's view of the slot agrees with what the schema offers to strings *)
Definition consistent (slot : str * str * json) : bool :=
  let o := slot_offers slot in
  let attr := snd (fst slot) in
  match shape_of_slot slot with
  | Some PSEnum =>
      negb (offers_string o) && negb (mem_str (Str "end") (o_words o)) && negb (str_eqb attr (Str "expression"))
  | Some (PSString false) =>
      match o_words o with [] => true | _ => false end && offers_string o && no_special_pattern o
      && negb (str_eqb attr (Str "expression"))
  | Some (PSString true) => false
  | Some (PSOneOf options) =>
      forallb (fun w => mem_str w (option_words options)) (o_words o)
      && forallb (fun w => mem_str w (o_words o)) (option_words options)
      && negb (str_eqb attr (Str "compop"))
  | Some PSFall =>
      match o_words o with [] => true | _ => false end && negb (offers_string o)
      && negb (str_eqb attr (Str "expression"))
  | None => false
  end.

Definition slot_name (slot : str * str * json) : str * str := fst slot.

Definition inconsistent_slots : list (str * str) :=
  map slot_name (filter (fun s => negb (consistent s)) all_slots).

(* ------------------------------------------------------------ format_value by shape *)
Section Shapes.
  Variable o : opts.
  Notation q := (quote o).

  (* the text chosen for a string under a oneOf / anyOf keyword, before escape_quotes *)
  Definition oneof_text (attr : str) (options : list json) (s : str) : str :=
    if in_parenthesis s then s
    else if str_eqb attr (Str "expression") && in_braces s then s
    else if negb (str_eqb attr (Str "text")) && in_brackets s then s
    else if startswith s (Str "NOT ") && in_parenthesis (skipn 4 s) then Str "NOT " ++ skipn 4 s
    else check_options_list o options s.

  Lemma format_value_str attr props s :
    format_value o attr props (VStr s) =
    match pshape_of props with
    | PSEnum => Ok (VStr (if str_eqb attr (Str "compop") then add_quotes q s else upper s))
    | PSString true =>
        if in_slashes s then Ok (VStr s) else if ends_ci_flag s then Ok (VStr s) else Ok (VStr (add_quotes q s))
    | PSString false => Ok (VStr (add_quotes q s))
    | PSOneOf options => Ok (VStr (escape_quotes_s q (oneof_text attr options s)))
    | PSFall => Ok (VStr (escape_quotes_s q s))
    end.
  Proof.
    unfold format_value, pshape_of, is_string_type, oneof_text.
    destruct (mem_str (Str "enum") (jkeys props)).
    { cbn [is_number]. destruct (str_eqb attr (Str "compop")); reflexivity. }
    destruct (match jget (Str "type") props with Some (JStr t) => str_eqb t (Str "string") | _ => false end).
    { destruct (is_expression props); reflexivity. }
    destruct (mem_str (Str "oneOf") (jkeys props) || mem_str (Str "anyOf") (jkeys props)); [|reflexivity].
    destruct (in_parenthesis s); [reflexivity|].
    destruct (str_eqb attr (Str "expression") && in_braces s); [reflexivity|].
    destruct (negb (str_eqb attr (Str "text")) && in_brackets s); [reflexivity|].
    destruct (startswith s (Str "NOT ") && in_parenthesis (skipn 4 s)); reflexivity.
  Qed.

  Definition number_value (v : value) : bool := match v with VInt _ | VFloat _ _ => true | _ => false end.

  Lemma format_value_num attr props v :
    number_value v = true ->
    format_value o attr props v =
    match pshape_of props with
    | PSString true => Err PyAttributeError
    | PSString false => Ok (VStr (add_quotes q (py_str v)))
    | _ => Ok v
    end.
  Proof.
    intros Hn. unfold format_value, pshape_of, is_string_type.
    destruct v; try discriminate Hn;
      (destruct (mem_str (Str "enum") (jkeys props)); [reflexivity|];
       destruct (match jget (Str "type") props with Some (JStr t) => str_eqb t (Str "string") | _ => false end);
       [destruct (is_expression props); reflexivity|];
       destruct (mem_str (Str "oneOf") (jkeys props) || mem_str (Str "anyOf") (jkeys props)); reflexivity).
  Qed.

  Lemma format_value_bool attr props b :
    format_value o attr props (VBool b) = Ok (VStr (if b then Str "TRUE" else Str "FALSE")).
  Proof. destruct b; reflexivity. Qed.

  (* lists: elements are joined by one space; numbers as they are, everything
     else quoted unless the keyword is offset / polaroffset *)
  Lemma format_value_list attr props l :
    format_value o attr props (VList l) =
    match pshape_of props with
    | PSEnum => Ok (VStr (if str_eqb attr (Str "compop") then add_quotes_v q (VList l) else upper (py_str (VList l))))
    | PSString true => Err PyAttributeError
    | PSString false => Ok (VStr (add_quotes_v q (VList l)))
    | _ => Ok (VStr (join [c_sp] (map (quote_list_element o attr) l)))
    end.
  Proof.
    unfold format_value, pshape_of, is_string_type.
    destruct (mem_str (Str "enum") (jkeys props)).
    { cbn [is_number]. destruct (str_eqb attr (Str "compop")); reflexivity. }
    destruct (match jget (Str "type") props with Some (JStr t) => str_eqb t (Str "string") | _ => false end).
    { destruct (is_expression props); reflexivity. }
    destruct (mem_str (Str "oneOf") (jkeys props) || mem_str (Str "anyOf") (jkeys props)); reflexivity.
  Qed.

  (* an empty dict: refused only under an enum keyword *)
  Lemma format_value_empty_dict attr props c :
    format_value o attr props (VDict c []) =
    match pshape_of props with
    | PSEnum => Err PyValueError
    | PSString true => Err PyAttributeError
    | PSString false => Ok (VStr (add_quotes_v q (VDict c [])))
    | _ => Ok (VDict c [])
    end.
  Proof.
    unfold format_value, pshape_of, is_string_type.
    destruct (mem_str (Str "enum") (jkeys props)); [reflexivity|].
    destruct (match jget (Str "type") props with Some (JStr t) => str_eqb t (Str "string") | _ => false end).
    { destruct (is_expression props); reflexivity. }
    destruct (mem_str (Str "oneOf") (jkeys props) || mem_str (Str "anyOf") (jkeys props)); reflexivity.
  Qed.
End Shapes.

(* ------------------------------------------------------------ the reader on quoted strings, words and numerals *)
Lemma opt_id {A} (x : option (list A)) : match x with Some r => Some ([] ++ r) | None => None end = x.
Proof. destruct x; reflexivity. Qed.

Definition plain_char (q : N) (c : N) : bool := negb (N.eqb c q) && negb (N.eqb c 92).

Lemma scan_quote_body q content acc rest :
  forallb (plain_char q) content = true ->
  scan (MQuote q acc) (content ++ q :: rest) = scan (MAfterQuote (rev acc ++ content)) rest.
Proof.
  revert acc; induction content as [|c content IH]; intros acc H; cbn [app].
  - cbn [scan step]. rewrite N.eqb_refl. rewrite opt_id, app_nil_r. reflexivity.
  - cbn [forallb] in H. apply andb_true_iff in H. destruct H as [Hc H].
    unfold plain_char in Hc. apply andb_true_iff in Hc. destruct Hc as [H1 H2].
    apply negb_true_iff in H1, H2.
    cbn [scan step]. rewrite H1, H2. rewrite opt_id, (IH (c :: acc) H). cbn [rev].
    rewrite <- app_assoc. reflexivity.
Qed.

Lemma start_quote q : is_quote q = true -> start q = MQuote q [].
Proof.
  unfold is_quote, start, is_blank. intros H. apply orb_true_iff in H.
  destruct H as [H|H]; apply N.eqb_eq in H; subst q; reflexivity.
Qed.

(* a quoted string is read back as one TQuoted token with the content *)
Lemma tokenize_quoted q s :
  is_quote q = true -> forallb (plain_char q) s = true ->
  tokenize (add_quotes q s) = Some [(TQuoted, s)].
Proof.
  intros Hq Hs. unfold tokenize, add_quotes, _add_quotes. cbn [scan step].
  rewrite (start_quote q Hq), opt_id, (scan_quote_body q s [] [] Hs). reflexivity.
Qed.

Definition word_start_char (c : N) : bool :=
  negb (is_blank c) && negb (is_quote c) && negb (N.eqb c 35) && negb (N.eqb c 47)
  && negb (N.eqb c 91) && negb (N.eqb c 40) && negb (N.eqb c 123).
Definition word_char (c : N) : bool := negb (is_blank c) && negb (is_quote c).

Definition clean_word (w : str) : bool :=
  match w with c :: w' => word_start_char c && forallb word_char w' | [] => false end.

Lemma scan_word_body acc w :
  forallb word_char w = true -> scan (MWord acc) w = Some [word_token (rev acc ++ w)].
Proof.
  revert acc; induction w as [|c w IH]; intros acc H.
  - cbn [scan finish]. rewrite app_nil_r. reflexivity.
  - cbn [forallb] in H. apply andb_true_iff in H. destruct H as [Hc H].
    unfold word_char in Hc. apply andb_true_iff in Hc. destruct Hc as [H1 H2]. apply negb_true_iff in H1, H2.
    cbn [scan step]. rewrite H1, H2, opt_id, (IH (c :: acc) H). cbn [rev]. rewrite <- app_assoc. reflexivity.
Qed.

Lemma start_word c : word_start_char c = true -> start c = MWord [c].
Proof.
  unfold word_start_char, start. intros H.
  apply andb_true_iff in H. destruct H as [H H7]. apply andb_true_iff in H. destruct H as [H H6].
  apply andb_true_iff in H. destruct H as [H H5]. apply andb_true_iff in H. destruct H as [H H4].
  apply andb_true_iff in H. destruct H as [H H3]. apply andb_true_iff in H. destruct H as [H1 H2].
  apply negb_true_iff in H1, H2, H3, H4, H5, H6, H7.
  rewrite H1, H2, H3, H4, H5, H6, H7. reflexivity.
Qed.

(* a clean word is read back as one token *)
Lemma tokenize_word w : clean_word w = true -> tokenize w = Some [word_token w].
Proof.
  destruct w as [|c w]; [discriminate|]. cbn [clean_word]. intros H. apply andb_true_iff in H. destruct H as [Hc Hw].
  unfold tokenize. cbn [scan step]. rewrite (start_word c Hc), opt_id, (scan_word_body [c] w Hw). reflexivity.
Qed.

(* decimal integers *)
Lemma digit_is_digit c : digit c -> is_digit c = true.
Proof. unfold digit, is_digit. intros [H1 H2]. apply andb_true_iff. split; apply N.leb_le; assumption. Qed.

Lemma numeral_tail_digits ds b : Forall digit ds -> numeral_tail ds b = (b || match ds with [] => false | _ => true end).
Proof.
  intros HF. revert b; induction HF as [|d ds Hd _ IH]; intros b; cbn [numeral_tail]; [rewrite orb_false_r; reflexivity|].
  rewrite (digit_is_digit d Hd), IH. cbn [orb]. rewrite orb_true_r. reflexivity.
Qed.

Lemma digit_word_char c : digit c -> word_char c = true /\ word_start_char c = true.
Proof.
  unfold digit. intros [H1 H2].
  assert (E : forall x, (x < 48 \/ 57 < x)%N -> N.eqb c x = false)
    by (intros x Hx; apply N.eqb_neq; lia).
  unfold word_char, word_start_char, is_blank, is_quote.
  rewrite !E by lia.
  destruct (N.leb_spec 9 c); cbn [andb orb negb]; [|tauto].
  destruct (N.leb_spec c 13); [lia|]. cbn. tauto.
Qed.

Lemma int_text_is_number z :
  tokenize (py_str_int z) = Some [(TNumber, py_str_int z)].
Proof.
  assert (G : forall n, clean_word (digits_N n) = true /\ is_numeral (digits_N n) = true
                        /\ forallb word_char (digits_N n) = true /\ numeral_tail (digits_N n) false = true).
  { intros n. pose proof (digits_N_digits n) as HF. destruct (digits_N_head n) as (d & rest & E & Hd).
    rewrite E in *. inversion HF as [|? ? _ HF']; subst.
    assert (Hw : forallb word_char rest = true).
    { apply forallb_forall. intros x Hx. rewrite Forall_forall in HF'. apply (digit_word_char x (HF' x Hx)). }
    destruct (digit_word_char d Hd) as [W1 W2].
    split; [cbn [clean_word]; rewrite W2, Hw; reflexivity|].
    assert (Hnt : numeral_tail (d :: rest) false = true).
    { rewrite numeral_tail_digits by (constructor; assumption). reflexivity. }
    split; [|split; [cbn [forallb]; rewrite W1, Hw; reflexivity|exact Hnt]].
    unfold is_numeral. unfold digit in Hd.
    destruct (N.eqb_spec d 43); [lia|]. destruct (N.eqb_spec d 45); [lia|]. exact Hnt. }
  destruct z as [|p|p]; cbn [py_str_int].
  - reflexivity.
  - destruct (G (Npos p)) as (C & Nm & _ & _). rewrite (tokenize_word _ C). unfold word_token. rewrite Nm. reflexivity.
  - destruct (G (Npos p)) as (_ & _ & Wc & Nt).
    assert (C : clean_word (45%N :: digits_N (Npos p)) = true) by (cbn [clean_word]; rewrite Wc; reflexivity).
    rewrite (tokenize_word _ C). unfold word_token, is_numeral. cbn [N.eqb orb]. rewrite Nt. reflexivity.
Qed.

(* ------------------------------------------------------------ quoter facts *)
Lemma unescape_noq q s : forallb (fun c => negb (N.eqb c q)) s = true -> unescape_q q s = s.
Proof.
  assert (G : forall n s, length s <= n -> forallb (fun c => negb (N.eqb c q)) s = true -> unescape_q q s = s).
  { induction n as [|n IH]; intros s0 Hl H0.
    - destruct s0; [reflexivity|cbn in Hl; lia].
    - destruct s0 as [|c [|d s2]]; [reflexivity|reflexivity|].
      change (unescape_q q (c :: d :: s2))
        with (if ((c =? c_bs) && (d =? q))%N then q :: unescape_q q s2 else c :: unescape_q q (d :: s2)).
      cbn [forallb] in H0. apply andb_true_iff in H0. destruct H0 as [Hc H0].
      pose proof H0 as H0'. cbn [forallb] in H0'. apply andb_true_iff in H0'. destruct H0' as [Hd _].
      apply negb_true_iff in Hd. rewrite Hd, andb_false_r.
      cbn [length] in Hl. rewrite (IH (d :: s2)); [reflexivity|cbn [length]; lia|exact H0]. }
  intros H. apply (G (length s) s (le_n _) H).
Qed.

Lemma escape_noq q s : forallb (fun c => negb (N.eqb c q)) s = true -> escape_q q s = s.
Proof.
  induction s as [|c s IH]; [reflexivity|]. cbn [forallb escape_q]. intros H.
  apply andb_true_iff in H. destruct H as [Hc Hs]. apply negb_true_iff in Hc. rewrite Hc, (IH Hs). reflexivity.
Qed.

Lemma startswith_nil s : startswith s [] = true.
Proof. destruct s; reflexivity. Qed.

Lemma in_quotes_add q s : _in_quotes (add_quotes q s) q = true.
Proof.
  unfold _in_quotes, add_quotes, _add_quotes, endswith. cbn [startswith]. rewrite N.eqb_refl, startswith_nil.
  cbn [andb rev]. rewrite rev_app_distr. cbn [rev app startswith]. rewrite N.eqb_refl, startswith_nil. reflexivity.
Qed.

Lemma strip_ends_add q s : strip_ends (add_quotes q s) = s.
Proof. unfold strip_ends, add_quotes, _add_quotes. cbn [tl]. apply removelast_last. Qed.

Lemma escape_quotes_add q s :
  forallb (fun c => negb (N.eqb c q)) s = true ->
  escape_quotes_s q (add_quotes q s) = add_quotes q s.
Proof.
  intros H. unfold escape_quotes_s. rewrite in_quotes_add.
  unfold remove_quotes_s, in_quotes. rewrite in_quotes_add. cbn [orb]. rewrite strip_ends_add.
  rewrite (unescape_noq q s H), (escape_noq q s H). reflexivity.
Qed.

Lemma escape_quotes_other q s : _in_quotes s q = false -> escape_quotes_s q s = s.
Proof. intros H. unfold escape_quotes_s. rewrite H. reflexivity. Qed.

Lemma not_in_quotes_head q c s : N.eqb c q = false -> _in_quotes (c :: s) q = false.
Proof. intros H. unfold _in_quotes. cbn [startswith]. rewrite H. reflexivity. Qed.

(* ------------------------------------------------------------ str.strip and the delimited forms *)
Lemma lstrip_snoc l c : is_space c = false -> exists u, lstrip (l ++ [c]) = u ++ [c].
Proof.
  intros Hc. induction l as [|x l IH]; cbn [app lstrip].
  - rewrite Hc. exists []. reflexivity.
  - destruct (is_space x); [exact IH|]. exists (x :: l). reflexivity.
Qed.

Lemma py_strip_head c s : is_space c = false -> exists t, py_strip (c :: s) = c :: t.
Proof.
  intros Hc. unfold py_strip. cbn [lstrip]. rewrite Hc. cbn [rev].
  destruct (lstrip_snoc (rev s) c Hc) as (u & ->). rewrite rev_app_distr. cbn [rev app]. eauto.
Qed.

Lemma delimited_not_quoted a b s q :
  delimited a b s = true -> is_space q = false -> N.eqb q a = false -> _in_quotes s q = false.
Proof.
  intros Hd Hq Hne. destruct s as [|c s]; [reflexivity|].
  destruct (N.eqb_spec c q) as [->|Hcq]; [|apply not_in_quotes_head; apply N.eqb_neq; exact Hcq].
  unfold delimited in Hd. destruct (py_strip_head q s Hq) as (t & E). rewrite E in Hd.
  cbn [startswith] in Hd. rewrite Hne in Hd. discriminate Hd.
Qed.

Lemma delimited_exclusive a b a' b' s : delimited a b s = true -> N.eqb a a' = false -> delimited a' b' s = false.
Proof.
  unfold delimited. intros H Hne. destruct (py_strip s) as [|c t]; [discriminate|].
  cbn [startswith] in *. apply andb_true_iff in H. destruct H as [H _]. apply andb_true_iff in H.
  destruct H as [H _]. apply N.eqb_eq in H. subst c. rewrite Hne. reflexivity.
Qed.

Lemma delimited_not_prefixed a b s p c0 :
  delimited a b s = true -> is_space c0 = false -> N.eqb c0 a = false -> startswith s (c0 :: p) = false.
Proof.
  intros Hd Hs Hne. destruct s as [|c s]; [reflexivity|]. cbn [startswith].
  destruct (N.eqb_spec c c0) as [->|]; [|reflexivity].
  unfold delimited in Hd. destruct (py_strip_head c0 s Hs) as (t & E). rewrite E in Hd.
  cbn [startswith] in Hd. rewrite Hne in Hd. discriminate Hd.
Qed.

(* plain words *)
Lemma word_ch_facts c : word_ch c = true ->
  is_space c = false /\ (forall x, In x [34; 39; 40; 47; 91; 123; 32]%N -> N.eqb c x = false).
Proof.
  unfold word_ch. intros H.
  assert (R : (48 <= c <= 57 \/ 65 <= c <= 90 \/ 97 <= c <= 122 \/ c = 45 \/ c = 95)%N).
  { repeat (apply orb_true_iff in H; destruct H as [H|H]);
      try (apply andb_true_iff in H; destruct H as [H1 H2]; apply N.leb_le in H1, H2; lia);
      apply N.eqb_eq in H; lia. }
  split.
  - unfold is_space.
    replace (c <=? 13)%N with false by (symmetry; apply N.leb_gt; lia).
    replace (c <=? 32)%N with false by (symmetry; apply N.leb_gt; lia).
    replace (8192 <=? c)%N with false by (symmetry; apply N.leb_gt; lia).
    replace (c =? 133)%N with false by (symmetry; apply N.eqb_neq; lia).
    replace (c =? 160)%N with false by (symmetry; apply N.eqb_neq; lia).
    replace (c =? 5760)%N with false by (symmetry; apply N.eqb_neq; lia).
    replace (c =? 8232)%N with false by (symmetry; apply N.eqb_neq; lia).
    replace (c =? 8233)%N with false by (symmetry; apply N.eqb_neq; lia).
    replace (c =? 8239)%N with false by (symmetry; apply N.eqb_neq; lia).
    replace (c =? 8287)%N with false by (symmetry; apply N.eqb_neq; lia).
    replace (c =? 12288)%N with false by (symmetry; apply N.eqb_neq; lia).
    rewrite !andb_false_r. reflexivity.
  - intros x Hx. apply N.eqb_neq. cbn [In] in Hx. intuition lia.
Qed.

Lemma plain_word_strip s : plain_word s = true -> py_strip s = s.
Proof.
  destruct s as [|c s]; [discriminate|]. cbn [plain_word]. intros H.
  assert (Hrev : forallb word_ch (rev (c :: s)) = true).
  { apply forallb_forall. intros x Hx. apply in_rev in Hx. rewrite forallb_forall in H. apply H. exact Hx. }
  unfold py_strip.
  assert (L1 : lstrip (c :: s) = c :: s).
  { cbn [lstrip forallb] in *. apply andb_true_iff in H. destruct H as [Hc _].
    destruct (word_ch_facts c Hc) as [Hs _]. rewrite Hs. reflexivity. }
  rewrite L1. destruct (rev (c :: s)) as [|d r] eqn:E.
  - apply (f_equal (@length N)) in E. rewrite rev_length in E. discriminate E.
  - cbn [forallb] in Hrev. apply andb_true_iff in Hrev. destruct Hrev as [Hd _].
    destruct (word_ch_facts d Hd) as [Hs _]. cbn [lstrip]. rewrite Hs. rewrite <- E. apply rev_involutive.
Qed.

Lemma plain_word_head s : plain_word s = true -> exists c t, s = c :: t /\ word_ch c = true.
Proof.
  destruct s as [|c s]; [discriminate|]. cbn [plain_word forallb]. intros H.
  apply andb_true_iff in H. destruct H as [Hc _]. eauto.
Qed.

Lemma plain_word_not_delimited a b s :
  plain_word s = true -> In a [40; 47; 91; 123]%N -> delimited a b s = false.
Proof.
  intros H Ha. unfold delimited. rewrite (plain_word_strip s H).
  destruct (plain_word_head s H) as (c & t & -> & Hc). cbn [startswith].
  destruct (word_ch_facts c Hc) as [_ F].
  rewrite (F a) by (cbn [In] in *; intuition). reflexivity.
Qed.

Lemma endswith2_In s a b : endswith s [a; b] = true -> In a s.
Proof.
  unfold endswith. cbn [rev app]. intros H. apply in_rev.
  destruct (rev s) as [|x [|y r]]; cbn [startswith] in H; try discriminate.
  - rewrite andb_false_r in H. discriminate.
  - apply andb_true_iff in H. destruct H as [_ H]. apply andb_true_iff in H. destruct H as [H _].
    apply N.eqb_eq in H. subst y. right. left. reflexivity.
Qed.

Lemma plain_word_no_char s c : plain_word s = true -> word_ch c = false -> ~ In c s.
Proof.
  destruct s as [|x s]; [discriminate|]. cbn [plain_word]. intros H Hc Hin.
  rewrite forallb_forall in H. rewrite (H _ Hin) in Hc. discriminate.
Qed.

Lemma plain_word_no_ci s : plain_word s = true -> ends_ci_flag s = false.
Proof.
  intros H. unfold ends_ci_flag.
  destruct (endswith s (Str "'i")) eqn:E1.
  { apply endswith2_In in E1. exfalso. apply (plain_word_no_char s 39%N H); [reflexivity|exact E1]. }
  destruct (endswith s [c_dq; 105%N]) eqn:E2; [|reflexivity].
  apply endswith2_In in E2. exfalso. apply (plain_word_no_char s c_dq H); [reflexivity|exact E2].
Qed.

(* ------------------------------------------------------------ check_options_list *)
Lemma jenum_has_words a s : jenum_has a s = mem_str s (enum_words a).
Proof.
  unfold jenum_has, enum_words, jarr_of. destruct (jget (Str "enum") a) as [[| | | | |l|]|]; try reflexivity.
  induction l as [|e l IH]; [reflexivity|]. cbn [existsb flat_map].
  destruct e; cbn [app mem_str]; try exact IH. rewrite IH, str_eqb_sym. reflexivity.
Qed.

Lemma enum_words_nil a : jhas (Str "enum") a = false -> enum_words a = [].
Proof.
  unfold jhas, enum_words, jarr_of. destruct (jget (Str "enum") a); [discriminate|reflexivity].
Qed.

Lemma mem_str_app s l1 l2 : mem_str s (l1 ++ l2) = mem_str s l1 || mem_str s l2.
Proof. induction l1 as [|x l1 IH]; [reflexivity|]. cbn [app mem_str]. rewrite IH, orb_assoc. reflexivity. Qed.

Section Options.
  Variable o : opts.
  Notation q := (quote o).

  Definition word_text (s : str) : str :=
    if str_eqb (lower s) (Str "end") then add_quotes q s else upper s.

  Lemma loop_word options s :
    mem_str (lower s) (option_words options) = true -> ends_ci_flag s = false ->
    check_options_loop o options s = Some (word_text s).
  Proof.
    intros Hm Hci. induction options as [|op rest IH]; [discriminate|].
    cbn [check_options_loop]. unfold option_words in Hm. cbn [flat_map] in Hm. rewrite mem_str_app in Hm.
    rewrite jenum_has_words, Hci, andb_false_r.
    destruct (jhas (Str "enum") (deref op)) eqn:Eh.
    - destruct (mem_str (lower s) (enum_words (deref op))) eqn:Em; cbn [andb].
      + unfold word_text. destruct (str_eqb (lower s) (Str "end")); reflexivity.
      + cbn [orb] in Hm. apply IH. exact Hm.
    - rewrite (enum_words_nil _ Eh) in Hm. cbn [mem_str orb andb] in *. apply IH. exact Hm.
  Qed.

  Lemma loop_not_word options s :
    mem_str (lower s) (option_words options) = false ->
    check_options_loop o options s = None \/ check_options_loop o options s = Some s.
  Proof.
    intros Hm. induction options as [|op rest IH]; [left; reflexivity|].
    cbn [check_options_loop]. unfold option_words in Hm. cbn [flat_map] in Hm. rewrite mem_str_app in Hm.
    apply orb_false_iff in Hm. destruct Hm as [Hm1 Hm2].
    rewrite jenum_has_words, Hm1, andb_false_r.
    destruct (is_expression (deref op) && ends_ci_flag s); [right; reflexivity|apply IH; exact Hm2].
  Qed.

  Lemma loop_plain options s :
    mem_str (lower s) (option_words options) = false -> ends_ci_flag s = false ->
    check_options_loop o options s = None.
  Proof.
    intros Hm Hci. induction options as [|op rest IH]; [reflexivity|].
    cbn [check_options_loop]. unfold option_words in Hm. cbn [flat_map] in Hm. rewrite mem_str_app in Hm.
    apply orb_false_iff in Hm. destruct Hm as [Hm1 Hm2].
    rewrite jenum_has_words, Hm1, Hci, !andb_false_r. apply IH. exact Hm2.
  Qed.
End Options.

(* ------------------------------------------------------------ the lexical class of string values, slot by slot *)
Definition string_ok (q : N) (s : str) : bool := forallb (plain_char q) s.

Lemma string_ok_noq q s : string_ok q s = true -> forallb (fun c => negb (N.eqb c q)) s = true.
Proof.
  unfold string_ok, plain_char. intros H. apply forallb_forall. intros x Hx. rewrite forallb_forall in H.
  specialize (H x Hx). apply andb_true_iff in H. tauto.
Qed.

Lemma upper_plain_word_head s : plain_word s = true ->
  exists c t, upper s = c :: t /\ N.eqb c 34 = false /\ N.eqb c 39 = false.
Proof.
  intros H. destruct (plain_word_head s H) as (c & t & -> & Hc).
  destruct (word_ch_facts c Hc) as [_ F].
  assert (Hlt : (c <? 128)%N = true).
  { unfold word_ch in Hc. apply N.ltb_lt.
    repeat (apply orb_true_iff in Hc; destruct Hc as [Hc|Hc]);
      try (apply andb_true_iff in Hc; destruct Hc as [H1 H2]; apply N.leb_le in H1, H2; lia);
      apply N.eqb_eq in Hc; lia. }
  unfold upper. cbn [flat_map]. unfold upper_cp, case_cp. rewrite Hlt. unfold upper_ascii.
  destruct ((97 <=? c) && (c <=? 122))%N eqn:E.
  - apply andb_true_iff in E. destruct E as [E1 E2]. apply N.leb_le in E1, E2.
    eexists (c - 32)%N, _. split; [reflexivity|]. split; apply N.eqb_neq; lia.
  - eexists c, _. split; [reflexivity|]. split; apply F; cbn [In]; tauto.
Qed.

Definition required_met (q : N) (r : req) (s : str) (out : str) : Prop :=
  match r with
  | RWord w => plain_word s = true -> out = w
  | RQuoted s' => no_form s = true -> out = add_quotes q s'
  | RVerbatim _ s' => out = s'
  | RNone => True
  end.

Lemma startswith_incl s p : startswith s p = true -> forall c, In c p -> In c s.
Proof.
  revert s; induction p as [|y p IH]; intros s H c Hc; [contradiction|].
  destruct s as [|x s]; [discriminate|]. cbn [startswith] in H. apply andb_true_iff in H. destruct H as [H1 H2].
  apply N.eqb_eq in H1. subst y. destruct Hc as [->|Hc]; [left; reflexivity|right; apply (IH s H2 c Hc)].
Qed.

Section Strings.
  Variable o : opts.
  Hypothesis Hquote : quote_ok o = true.
  Notation q := (quote o).

  Lemma q_facts : is_space q = false /\ (forall a, In a [40; 47; 91; 123]%N -> N.eqb q a = false).
  Proof.
    destruct (quote_cases o Hquote) as [-> | ->]; split; try reflexivity;
      intros a Ha; cbn [In] in Ha; intuition subst; reflexivity.
  Qed.

  Lemma escape_verbatim a b s :
    delimited a b s = true -> In a [40; 47; 91; 123]%N -> escape_quotes_s q s = s.
  Proof.
    intros Hd Ha. apply escape_quotes_other. destruct q_facts as [Q1 Q2].
    apply (delimited_not_quoted a b s q Hd Q1 (Q2 a Ha)).
  Qed.

  Lemma no_form_facts s : no_form s = true ->
    paren_form s = false /\ binding_form s = false /\ brace_form s = false /\ regex_form s = false
    /\ startswith s (Str "NOT ") = false /\ ends_ci_flag s = false.
  Proof.
    unfold no_form, ends_ci_flag. intros H.
    apply andb_true_iff in H. destruct H as [H H7]. apply andb_true_iff in H. destruct H as [H H6].
    apply andb_true_iff in H. destruct H as [H H5]. apply andb_true_iff in H. destruct H as [H H4].
    apply andb_true_iff in H. destruct H as [H H3]. apply andb_true_iff in H. destruct H as [H1 H2].
    apply negb_true_iff in H1, H2, H3, H4, H5, H6, H7.
    unfold c_dq. rewrite H6, H7. repeat split; assumption.
  Qed.

  Lemma plain_word_no_forms s : plain_word s = true ->
    paren_form s = false /\ binding_form s = false /\ brace_form s = false /\ regex_form s = false
    /\ startswith s (Str "NOT ") && in_parenthesis (skipn 4 s) = false /\ ends_ci_flag s = false.
  Proof.
    intros H.
    repeat split; try (apply plain_word_not_delimited; [exact H|cbn [In]; tauto]).
    - destruct (startswith s (Str "NOT ")) eqn:E; [|reflexivity]. exfalso.
      apply (plain_word_no_char s 32%N H); [reflexivity|].
      apply (startswith_incl _ _ E). right; right; right; left; reflexivity.
    - apply plain_word_no_ci. exact H.
  Qed.

  (* the theorem: for a slot whose printer shape agrees with its schema, the text
     of every string value is what the property requires *)
  Theorem lexical_class_strings slot props s :
    consistent slot = true ->
    get_attribute_properties (fst (fst slot)) (snd (fst slot)) = Ok props ->
    string_ok q s = true ->
    exists out, format_value o (snd (fst slot)) props (VStr s) = Ok (VStr out)
                /\ required_met q (required_string (snd (fst slot)) (slot_offers slot) s) s out.
  Proof.
    intros Hc Hp Hs. unfold consistent, shape_of_slot in Hc. rewrite Hp in Hc.
    set (attr := snd (fst slot)) in *. set (off := slot_offers slot) in *.
    rewrite format_value_str. pose proof (string_ok_noq q s Hs) as Hnq.
    destruct (pshape_of props) as [|[|]|options|] eqn:Sh; try discriminate Hc.
    - (* enum keyword *)
      apply andb_true_iff in Hc. destruct Hc as [Hc Hex]. apply andb_true_iff in Hc. destruct Hc as [Hno Hend].
      apply negb_true_iff in Hno, Hend, Hex. unfold offers_string in Hno. apply orb_false_iff in Hno.
      destruct Hno as [Hfree Hpat]. destruct (o_patterns off) eqn:Ep; [|discriminate].
      eexists. split; [reflexivity|]. unfold required_string. fold off. rewrite Hex, Hfree, Ep.
      unfold offers_pattern. rewrite Ep. cbn [existsb]. rewrite !andb_false_r.
      destruct (mem_str (lower s) (o_words off)) eqn:Em; [|cbn; exact I].
      destruct (str_eqb_spec attr (Str "compop")) as [E|E]; cbn [orb].
      + intros _. reflexivity.
      + destruct (str_eqb_spec (lower s) (Str "end")) as [E2|E2]; [rewrite E2 in Em; congruence|].
        intros _. reflexivity.
    - (* string keyword *)
      apply andb_true_iff in Hc. destruct Hc as [Hc Hex]. apply andb_true_iff in Hc. destruct Hc as [Hc Hsp].
      apply andb_true_iff in Hc. destruct Hc as [Hw Hoff]. apply negb_true_iff in Hex.
      destruct (o_words off) eqn:Ew; [|discriminate].
      eexists. split; [reflexivity|]. unfold required_string. fold off. rewrite Ew, Hex. cbn [mem_str].
      unfold no_special_pattern in Hsp. apply andb_true_iff in Hsp. destruct Hsp as [Hsp H3].
      apply andb_true_iff in Hsp. destruct Hsp as [H1 H2]. apply negb_true_iff in H1, H2, H3.
      rewrite H1, H2, H3, !andb_false_r. cbn [andb]. unfold offers_string in Hoff. rewrite Hoff.
      intros _. reflexivity.
    - (* oneOf / anyOf keyword *)
      apply andb_true_iff in Hc. destruct Hc as [Hc Hcompop]. apply andb_true_iff in Hc. destruct Hc as [Hsub1 Hsub2].
      apply negb_true_iff in Hcompop.
      assert (Hw : mem_str (lower s) (option_words options) = mem_str (lower s) (o_words off)).
      { destruct (mem_str (lower s) (o_words off)) eqn:E.
        - apply mem_str_In in E. rewrite forallb_forall in Hsub1. apply (Hsub1 _ E).
        - destruct (mem_str (lower s) (option_words options)) eqn:E2; [|reflexivity].
          apply mem_str_In in E2. rewrite forallb_forall in Hsub2. rewrite (Hsub2 _ E2) in E. discriminate. }
      eexists. split; [reflexivity|]. unfold required_string. fold off. fold attr.
      destruct (mem_str (lower s) (o_words off)) eqn:Em.
      + (* enumerated word *)
        assert (G : plain_word s = true -> escape_quotes_s q (oneof_text o attr options s) = word_text o s).
        { intros Hpw. destruct (plain_word_no_forms s Hpw) as (F1 & F2 & F3 & F4 & F5 & F6).
          unfold oneof_text. change (in_parenthesis s) with (paren_form s). change (in_braces s) with (brace_form s).
          change (in_brackets s) with (binding_form s). rewrite F1, F2, F3, F5, !andb_false_r.
          unfold check_options_list. rewrite (loop_word o options s); [|exact Hw|exact F6].
          unfold word_text. destruct (str_eqb (lower s) (Str "end")).
          - apply escape_quotes_add. exact Hnq.
          - apply escape_quotes_other. destruct (upper_plain_word_head s Hpw) as (c & t & -> & N1 & N2).
            apply not_in_quotes_head. destruct (quote_cases o Hquote) as [-> | ->]; assumption. }
        rewrite Hcompop. cbn [orb].
        * destruct (str_eqb (lower s) (Str "end")) eqn:Ee.
          -- unfold required_met. intros Hnf. destruct (no_form_facts s Hnf) as (F1 & F2 & F3 & F4 & F5 & F6).
             unfold oneof_text. change (in_parenthesis s) with (paren_form s). change (in_braces s) with (brace_form s).
             change (in_brackets s) with (binding_form s). rewrite F1, F2, F3, F5, !andb_false_r. cbn [andb].
             unfold check_options_list. rewrite (loop_word o options s); [|exact Hw|exact F6].
             unfold word_text. rewrite Ee. apply escape_quotes_add. exact Hnq.
          -- unfold required_met. intros Hpw. rewrite (G Hpw). unfold word_text. rewrite Ee. reflexivity.
      + (* not an enumerated word *)
        unfold oneof_text. change (in_parenthesis s) with (delimited 40 41 s).
        change (in_brackets s) with (delimited 91 93 s). change (in_braces s) with (delimited 123 125 s).
        unfold check_options_list. change (in_slashes s) with (delimited 47 47 s).
        unfold paren_form, binding_form, brace_form, regex_form.
        destruct (delimited 40 41 s && offers_pattern paren_prefix off) eqn:E1.
        { apply andb_true_iff in E1. destruct E1 as [E1 _]. cbn [required_met]. rewrite E1.
          apply (escape_verbatim 40%N 41%N); [exact E1|cbn [In]; tauto]. }
        destruct (delimited 91 93 s && offers_pattern binding_prefix off && negb (str_eqb attr (Str "text"))) eqn:E2.
        { apply andb_true_iff in E2. destruct E2 as [E2 E2t]. apply andb_true_iff in E2. destruct E2 as [E2 _].
          cbn [required_met].
          rewrite (delimited_exclusive 91%N 93%N 40%N 41%N s E2 eq_refl).
          rewrite (delimited_exclusive 91%N 93%N 123%N 125%N s E2 eq_refl), andb_false_r, E2t, E2. cbn [andb].
          apply (escape_verbatim 91%N 93%N); [exact E2|cbn [In]; tauto]. }
        destruct (delimited 47 47 s && offers_pattern regex_prefix off) eqn:E3.
        { apply andb_true_iff in E3. destruct E3 as [E3 _]. cbn [required_met].
          rewrite (delimited_exclusive 47%N 47%N 40%N 41%N s E3 eq_refl).
          rewrite (delimited_exclusive 47%N 47%N 123%N 125%N s E3 eq_refl).
          rewrite (delimited_exclusive 47%N 47%N 91%N 93%N s E3 eq_refl), !andb_false_r.
          assert (Hnot : startswith s (Str "NOT ") = false)
            by exact (delimited_not_prefixed 47%N 47%N s (Str "OT ") 78%N E3 eq_refl eq_refl).
          rewrite Hnot. cbn [andb].
          destruct (loop_not_word o options s) as [-> | ->]; [exact Hw|rewrite E3|];
            apply (escape_verbatim 47%N 47%N); try exact E3; cbn [In]; tauto. }
        destruct (delimited 123 125 s && str_eqb attr (Str "expression")) eqn:E4.
        { apply andb_true_iff in E4. destruct E4 as [E4 E4a]. cbn [required_met].
          rewrite (delimited_exclusive 123%N 125%N 40%N 41%N s E4 eq_refl), E4a, E4. cbn [andb].
          apply (escape_verbatim 123%N 125%N); [exact E4|cbn [In]; tauto]. }
        destruct (o_free off || match o_patterns off with [] => false | _ => true end); [|exact I].
        unfold required_met. intros Hnf. destruct (no_form_facts s Hnf) as (F1 & F2 & F3 & F4 & F5 & F6).
        unfold paren_form, binding_form, brace_form, regex_form in *.
        rewrite F1, F2, F3, F5, !andb_false_r. cbn [andb].
        rewrite (loop_plain o options s); [|exact Hw|exact F6].
        rewrite F4. apply escape_quotes_add. exact Hnq.
    - (* fall-through keyword: the schema offers nothing to strings *)
      apply andb_true_iff in Hc. destruct Hc as [Hc Hex]. apply andb_true_iff in Hc. destruct Hc as [Hw Hno].
      apply negb_true_iff in Hno, Hex. unfold offers_string in Hno. apply orb_false_iff in Hno.
      destruct Hno as [Hfree Hpat]. destruct (o_patterns off) eqn:Ep; [|discriminate].
      destruct (o_words off) eqn:Ew; [|discriminate].
      eexists. split; [reflexivity|]. unfold required_string. fold off. fold attr. rewrite Ew, Hex, Hfree, Ep.
      unfold offers_pattern. rewrite Ep. cbn. rewrite !andb_false_r. exact I.
  Qed.
End Strings.

