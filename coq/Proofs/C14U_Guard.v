(* C14: the guard of the printer theorem (Proofs/C14U_Print.v, [pguard]) holds of
   every dictionary the transformer returns with include_comments=True, for
   EVERY tree whose leaves are lexer tokens:
   - in every dict the printer visits, the keys it prints (those not of the
     form __xxx__) are pairwise different;
   - the __comments__ entry of such a dict, when it is a dict, is a plain dict
     whose values are lists of strings.
   Same method as Proofs/C14U_Trans.v: a predicate PG kept by all callbacks and
   by the comments pass. *)
From Coq Require Import Permutation.
From MF Require Import Lib.Base Lib.PyDict Lib.PyNum Model.GrammarTypes Model.Case Gen.Tokens Gen.Grammar.
From MF Require Import Model.PPrint Proofs.PrintU_Pure Proofs.C14U_Print.
From MF Require Import Model.Lexer Model.LR Model.Transformer Model.Api
  Proofs.CaseFacts Proofs.C13U Proofs.C14 Proofs.C14U_Trans.
Open Scope N_scope.

(* ================================================================ small facts *)
Lemma k_comments_eq : k_comments = s_comments. Proof. reflexivity. Qed.

Lemma meta_position : is_metadata s_position = true. Proof. vm_compute. reflexivity. Qed.
Lemma meta_tokens : is_metadata s_tokens = true. Proof. vm_compute. reflexivity. Qed.
Lemma meta_s_type : is_metadata s_type = true. Proof. vm_compute. reflexivity. Qed.
Lemma meta_s_comments : is_metadata s_comments = true. Proof. vm_compute. reflexivity. Qed.
Lemma nonmeta_config : is_metadata s_config = false. Proof. vm_compute. reflexivity. Qed.
Lemma nonmeta_points : is_metadata s_points = false. Proof. vm_compute. reflexivity. Qed.
Lemma pos_not_comments : str_eqb s_position k_comments = false. Proof. reflexivity. Qed.
Lemma tokens_not_comments : str_eqb s_tokens k_comments = false. Proof. reflexivity. Qed.
Lemma type_not_comments : str_eqb s_type k_comments = false. Proof. reflexivity. Qed.

Lemma singleton_nonmeta :
  forallb (fun k => negb (is_metadata (lower k))) SINGLETON_COMPOSITE_NAMES = true.
Proof. vm_compute. reflexivity. Qed.

Lemma NoDup_nodupb l : NoDup l -> nodupb l = true.
Proof.
  induction 1 as [|x l Hx _ IH]; [reflexivity|]. cbn [nodupb]. rewrite IH, andb_true_r.
  apply negb_true_iff. destruct (mem_str x l) eqn:E; [|reflexivity]. apply mem_str_In in E. contradiction.
Qed.

Lemma nd_pguard : forall v, nd v = true -> pguard v = true.
Proof.
  induction v as [| | | | |l IH|c items IH] using value_ind'; try reflexivity; [|discriminate].
  cbn [nd pguard]. intros H. induction IH as [|x l Hx _ IHl]; [reflexivity|].
  cbn [forallb] in *. apply andb_true_iff in H. destruct H as [H1 H2]. rewrite (Hx H1), (IHl H2). reflexivity.
Qed.

Lemma nd_cmgood v : nd v = true -> cmgood v = true.
Proof. destruct v; try reflexivity. discriminate. Qed.

Lemma all_str_map_VStr c : all_str (map VStr c) = true.
Proof. induction c as [|s c IH]; [reflexivity|exact IH]. Qed.

(* ================================================================ the predicate *)
Definition pge (P : tv -> Prop) (kv : str * tv) : Prop :=
  if is_metadata (fst kv) then (str_eqb (fst kv) k_comments = true -> cmgood (tvv (snd kv)) = true)
  else P (snd kv).

Fixpoint PG (x : tv) : Prop :=
  match x with
  | TVal v => pguard v = true
  | TTok _ => True
  | TSeq l => (fix go (l : list tv) : Prop := match l with [] => True | y :: l' => PG y /\ go l' end) l
  | TDict c items =>
      NoDup (filter nonmeta (keys items))
      /\ (fix go (l : titems) : Prop :=
            match l with
            | [] => True
            | (k, y) :: l' =>
                (if is_metadata k then (str_eqb k k_comments = true -> cmgood (tvv y) = true) else PG y) /\ go l'
            end) items
  end.

Definition PGE (kv : str * tv) : Prop := pge PG kv.
Definition nmk (items : titems) : Prop := NoDup (filter nonmeta (keys items)).

Lemma PG_seq l : PG (TSeq l) <-> Forall PG l.
Proof.
  cbn [PG]. induction l as [|y l IH]; [split; [constructor|exact (fun _ => I)]|].
  rewrite IH. split; [intros [H1 H2]; constructor; assumption|intros H; inversion H; subst; tauto].
Qed.

Lemma PG_dict c items : PG (TDict c items) <-> nmk items /\ Forall PGE items.
Proof.
  cbn [PG]. unfold nmk.
  assert (H : (fix go (l : titems) : Prop :=
                 match l with
                 | [] => True
                 | (k, y) :: l' =>
                     (if is_metadata k then (str_eqb k k_comments = true -> cmgood (tvv y) = true) else PG y) /\ go l'
                 end) items <-> Forall PGE items).
  { induction items as [|[k y] l IH]; [split; [constructor|exact (fun _ => I)]|].
    rewrite IH. unfold PGE at 1, pge. cbn [fst snd].
    split; [intros [H1 H2]; constructor; assumption|intros H; inversion H; subst; tauto]. }
  rewrite H. tauto.
Qed.

Theorem PG_pguard : forall x, PG x -> pguard (tvv x) = true.
Proof.
  induction x as [v|t|l IH|c items IH] using tv_ind'; intros H.
  - exact H.
  - reflexivity.
  - apply PG_seq in H. cbn [tvv pguard]. rewrite forallb_forall. intros y Hy.
    apply in_map_iff in Hy. destruct Hy as (x & <- & Hx).
    rewrite Forall_forall in IH, H. apply IH; [exact Hx|apply H; exact Hx].
  - apply PG_dict in H. destruct H as [H1 H2]. cbn [tvv pguard]. apply andb_true_iff. split.
    + apply NoDup_nodupb. unfold keys. rewrite map_map. cbn [fst]. exact H1.
    + rewrite forallb_forall. intros kv Hkv. apply in_map_iff in Hkv. destruct Hkv as ([k y] & <- & Hin).
      cbn [fst snd]. rewrite Forall_forall in IH, H2. specialize (H2 _ Hin). specialize (IH _ Hin).
      unfold PGE, pge in H2. cbn [fst snd] in H2, IH.
      destruct (is_metadata k); [|apply IH; exact H2].
      destruct (str_eqb k k_comments) eqn:E; [apply H2; reflexivity|reflexivity].
Qed.

(* ---------------------------------------------------------------- updates *)
Lemma nmk_set k (v : tv) items : nmk items -> nmk (od_set k v items).
Proof.
  unfold nmk. intros H. rewrite keys_set. destruct (od_mem k items) eqn:Em; [exact H|].
  rewrite filter_app. cbn [filter]. destruct (nonmeta k); [|rewrite app_nil_r; exact H].
  apply NoDup_snoc; [exact H|]. intros Hin. apply filter_In in Hin. destruct Hin as [Hin _].
  apply od_mem_In in Hin. congruence.
Qed.

Lemma PG_set c k v items : PG (TDict c items) -> PGE (k, v) -> PG (TDict c (od_set k v items)).
Proof.
  intros H Hv. apply PG_dict in H. destruct H as [H1 H2]. apply PG_dict.
  split; [apply nmk_set; exact H1|apply Forall_od_set; assumption].
Qed.

Lemma PGE_get k v items : Forall PGE items -> assoc k items = Some v -> PGE (k, v).
Proof. intros HF Ha. rewrite Forall_forall in HF. exact (HF _ (assoc_Some_in _ _ _ Ha)). Qed.

Lemma PGE_meta k v : is_metadata k = true -> str_eqb k k_comments = false -> PGE (k, v).
Proof. intros H1 H2. unfold PGE, pge. cbn [fst snd]. rewrite H1, H2. discriminate. Qed.

Lemma PGE_nd k v : nd v = true -> PGE (k, TVal v).
Proof.
  intros H. unfold PGE, pge. cbn [fst snd tvv]. destruct (is_metadata k).
  - intros _. apply nd_cmgood. exact H.
  - apply nd_pguard. exact H.
Qed.

Lemma PGE_list k y l : tvv y = VList l -> PG y -> PGE (k, y).
Proof.
  intros E H. unfold PGE, pge. cbn [fst snd]. destruct (is_metadata k); [|exact H]. intros _. rewrite E. reflexivity.
Qed.

(* ================================================================ attr() results carry a list of strings as comments *)
(* what composite() hoists out of an attribute dict (cf. ams in C14U_Trans) is a list of strings *)
Definition strl (kv : str * value) : Prop := strlist (snd kv) = true.

Definition ucm (items : titems) : Prop :=
  match items2_of items with
  | [_] => forall l, assoc s_comments (items1_of items) = Some (TVal (VList l)) -> all_str l = true
  | _ => True
  end.

Fixpoint UC (x : tv) : Prop :=
  match x with
  | TDict c items => typed items = true \/ ucm items
  | TSeq l => (fix go (l : list tv) : Prop := match l with [] => True | y :: l' => UC y /\ go l' end) l
  | _ => True
  end.

Lemma UC_seq l : UC (TSeq l) <-> Forall UC l.
Proof.
  cbn [UC]. induction l as [|y l IH]; [split; [constructor|exact (fun _ => I)]|].
  rewrite IH. split; [intros [H1 H2]; constructor; assumption|intros H; inversion H; subst; tauto].
Qed.

Lemma ucm_none items : assoc s_comments (items1_of items) = None -> ucm items.
Proof. intros Ha. unfold ucm. rewrite Ha. destruct (items2_of items) as [|? [|? ?]]; try exact I. intros l E. discriminate E. Qed.

Lemma ucm_attr1 kn V pd : ucm (od_set kn V (base1 pd)).
Proof.
  destruct (str_eqb_spec kn s_comments) as [->|Hne].
  - unfold ucm. change (items2_of (od_set s_comments V (base1 pd))) with (@nil (str * tv)). exact I.
  - apply ucm_none. unfold items1_of. rewrite !get_del_other by discriminate.
    rewrite get_set_other by congruence. reflexivity.
Qed.

Lemma ucm_attr2 kn V pd X : ucm (od_set kn V (base2 pd X)).
Proof.
  destruct (str_eqb_spec kn s_comments) as [->|Hne].
  - unfold ucm. change (items2_of (od_set s_comments V (base2 pd X))) with (@nil (str * tv)). exact I.
  - apply ucm_none. unfold items1_of. rewrite !get_del_other by discriminate.
    rewrite get_set_other by congruence. reflexivity.
Qed.

Lemma ucm_set_comments c0 items : ucm (od_set s_comments (TVal (VList (map VStr c0))) items).
Proof.
  unfold ucm.
  assert (Ha : assoc s_comments (items1_of (od_set s_comments (TVal (VList (map VStr c0))) items))
               = Some (TVal (VList (map VStr c0)))).
  { unfold items1_of. rewrite !get_del_other by discriminate. apply get_set_same. }
  rewrite Ha. destruct (items2_of _) as [|? [|? ?]]; try exact I.
  intros l E. injection E as <-. apply all_str_map_VStr.
Qed.

Lemma attr_body_UC key kn vts x : attr_body key kn vts = Ok x -> UC x.
Proof.
  intros H. unfold attr_body in H.
  destruct (create_position_dict key (Some vts)) as [pd|e]; cbn [bind] in H; [|discriminate].
  destruct vts as [|a [|b rest]]; [discriminate| |].
  - destruct (tok_of a) as [t|e]; cbn [bind] in H; [|discriminate]. injection H as <-.
    right. apply (ucm_attr2 kn _ pd).
  - destruct (str_eqb kn s_config).
    + destruct rest; [|discriminate].
      destruct (tok_of a) as [ta|e]; cbn [bind] in H; [|discriminate].
      destruct (tok_of b) as [tb|e]; cbn [bind] in H; [|discriminate].
      destruct (pk_val ta) as [| | | |ka| |]; try discriminate. cbn [bind] in H. injection H as <-.
      right. apply (ucm_attr1 kn _ pd).
    + destruct (mapM tv_dot_value (a :: b :: rest)) as [vals|e]; cbn [bind] in H; [|discriminate].
      injection H as <-. right. apply (ucm_attr2 kn _ pd).
Qed.

Lemma cb_attr_UC tokens x : cb_attr tokens = Ok x -> UC x.
Proof.
  rewrite cb_attr_stages. intros H. destruct tokens as [|k0 vt0]; [discriminate|].
  destruct (attr_key k0) as [key|e]; cbn [bind] in H; [|discriminate].
  destruct (key_name key) as [kn|e]; cbn [bind] in H; [|discriminate].
  destruct (attr_vtoks vt0) as [vts|e]; cbn [bind] in H; [|discriminate].
  eapply attr_body_UC; exact H.
Qed.

Lemma cb_config_UC t x : cb_config t = Ok x -> UC x.
Proof.
  unfold cb_config. intros H. destruct t as [|k [|a [|b [|? ?]]]]; try discriminate.
  destruct (tok_of a) as [ta|e]; cbn [bind] in H; [|discriminate].
  destruct (tok_of b) as [tb|e]; cbn [bind] in H; [|discriminate].
  destruct (tok_str ta) as [ks|e]; cbn [bind] in H; [|discriminate].
  eapply cb_attr_UC; exact H.
Qed.

Lemma cb_projection_UC t x : cb_projection t = Ok x -> UC x.
Proof.
  unfold cb_projection. intros H.
  destruct (check_composite_tokens (Str "projection") t) as [[key body]|e]; cbn [bind] in H; [|discriminate].
  match type of H with bind (mapM ?f ?l) _ = _ => destruct (mapM f l) as [strs|e] end;
    cbn [bind] in H; [|discriminate].
  destruct t as [|k [|v1 rest]]; try discriminate.
  destruct (tok_of v1) as [vt|e]; cbn [bind] in H; [|discriminate].
  eapply cb_attr_UC; exact H.
Qed.

Lemma process_pair_lists_UC name t x : process_pair_lists name t = Ok x -> UC x.
Proof.
  unfold process_pair_lists. intros H.
  destruct (check_composite_tokens name t) as [[key body]|e]; cbn [bind] in H; [|discriminate].
  match type of H with bind (mapM ?f ?l) _ = _ => destruct (mapM f l) as [pairs|e] end;
    cbn [bind] in H; [|discriminate].
  destruct t as [|k [|[| |[|[|vt| |] l0]|] rest]]; try discriminate.
  eapply cb_attr_UC; exact H.
Qed.

Lemma process_value_pairs_UC ip t ty x : process_value_pairs ip t ty = Ok x -> UC x.
Proof.
  rewrite process_value_pairs_stages. intros H.
  destruct (check_composite_tokens ty t) as [[key body]|e]; cbn [bind] in H; [|discriminate].
  destruct (key_name _) as [kn|e]; cbn [bind] in H; [|discriminate].
  destruct (fold_left pvp_step _ _) as [d|e]; cbn [bind] in H; [|discriminate].
  destruct (pvp_pos ip _ _ d) as [d1|e]; cbn [bind] in H; [|discriminate].
  injection H as <-. left. apply typed_ci_set_type.
Qed.

Lemma comp_finish_UC ic st x : hk (cs_dict st) = Some s_type -> comp_finish ic st = Ok x -> UC x.
Proof.
  unfold comp_finish. cbv zeta. intros Hk H.
  destruct (cs_dict st) as [|[k1 v1] r1]; [discriminate|]. cbn [hk] in Hk. injection Hk as ->.
  injection H as <-. left. unfold typed. cbn [od_mem]. rewrite str_eqb_refl. reflexivity.
Qed.

Lemma cb_composite_UC ip ic t x : Forall UC t -> cb_composite ip ic t = Ok x -> UC x.
Proof.
  rewrite cb_composite_stages. intros HF H.
  destruct t as [|a [|b r]]; [discriminate| |].
  - injection H as <-. exact (Forall_inv HF).
  - destruct a as [| |[|[|key| |] l]|]; try discriminate.
    unfold comp_main in H.
    destruct (key_name key) as [kn|e]; cbn [bind] in H; [|discriminate].
    destruct (comp_pd ip key) as [pd|e]; cbn [bind] in H; [|discriminate].
    destruct (comp_fold ic _ _) as [st|e] eqn:F1; cbn [bind] in H; [|discriminate].
    eapply comp_finish_UC; [|exact H]. eapply comp_fold_hk; [exact F1|apply comp_init_hk].
Qed.

Ltac utok H := wcrush H; exact I.

Lemma callback_UC ip ic d t x : Forall UC t -> callback ip ic d t = Ok x -> UC x.
Proof.
  intros HP H. unfold callback in H.
  repeat match type of H with
         | (if ?c then _ else _) = _ => destruct c
         end.
  all: try discriminate.
  all: first
    [ eapply cb_composite_UC; eassumption
    | eapply cb_attr_UC; eassumption
    | eapply cb_projection_UC; eassumption
    | eapply cb_config_UC; eassumption
    | eapply process_pair_lists_UC; eassumption
    | eapply process_value_pairs_UC; eassumption
    | (injection H as <-; apply UC_seq; exact HP)
    | (unfold cb_start in H; destruct t as [|a0 [|b0 r0]]; injection H as <-;
       first [apply UC_seq; exact HP|exact (Forall_inv HP)])
    | (unfold cb_first in H; destruct t; [discriminate|]; injection H as <-; exact (Forall_inv HP))
    | (unfold cb_len in H; destruct (Nat.eqb _ _); [|discriminate]; injection H as <-; apply UC_seq; exact HP)
    | (unfold cb_comparison, set_first in H; utok H)
    | (unfold cb_binary, set_first in H; utok H)
    | (unfold cb_prefix, set_first in H; utok H)
    | (unfold cb_expression in H; utok H)
    | (unfold cb_func_call in H; utok H)
    | (unfold cb_func_params in H; utok H)
    | (unfold cb_attr_bind in H; utok H)
    | (unfold cb_bool in H; utok H)
    | (unfold cb_int in H; utok H)
    | (unfold cb_float in H; utok H)
    | (unfold cb_hexcolor in H; utok H)
    | (unfold cb_list in H; utok H) ].
Qed.

Fixpoint GUC (g : gtree) : Prop :=
  match g with
  | GTok _ => True
  | GVal x => UC x
  | GNode _ cs _ => (fix go (l : list gtree) : Prop := match l with [] => True | c :: l' => GUC c /\ go l' end) cs
  end.

Lemma GUC_node d cs m : GUC (GNode d cs m) <-> Forall GUC cs.
Proof.
  cbn [GUC]. induction cs as [|c cs IH]; [split; [constructor|exact (fun _ => I)]|].
  rewrite IH. split; [intros [H1 H2]; constructor; assumption|intros H; inversion H; subst; tauto].
Qed.

Theorem tr_main_UC ip ic : forall g x, GUC g -> tr_main ip ic g = Ok x -> UC x.
Proof.
  fix IH 1. intros g x HP H. destruct g as [t|d cs m|v].
  - cbn in H. injection H as <-. exact I.
  - rewrite tr_main_node in H. apply GUC_node in HP.
    destruct (tr_list ip ic cs) as [xs|e] eqn:L; cbn [bind] in H; [|discriminate].
    eapply callback_UC; [|exact H]. clear H. revert xs L.
    induction cs as [|c cs IHcs]; intros xs L.
    + cbn in L. injection L as <-. constructor.
    + cbn [tr_list] in L.
      destruct (tr_main ip ic c) as [x1|e] eqn:T1; cbn [bind] in L; [|discriminate].
      fold (tr_list ip ic cs) in L.
      destruct (tr_list ip ic cs) as [xs1|e] eqn:L1; cbn [bind] in L; [|discriminate].
      injection L as <-. constructor; [exact (IH c x1 (Forall_inv HP) T1)|].
      apply (IHcs (Forall_inv_tail HP)). reflexivity.
  - cbn in H. injection H as <-. exact HP.
Qed.

Lemma UC_set_comments c items c0 :
  UC (TDict c items) -> UC (TDict c (od_set s_comments (TVal (VList (map VStr c0))) items)).
Proof. intros _. right. apply ucm_set_comments. Qed.

Lemma comments_callback_UC ip g h : GUC g -> comments_callback ip g = Ok h -> GUC h.
Proof.
  intros HP H. rewrite comments_callback_stages in H.
  destruct g as [t|d cs m|v]; try (injection H as <-; exact HP).
  destruct (d =? CB_attr).
  { destruct (tr_main ip true _) as [r|e] eqn:T; cbn [bind] in H; [|discriminate].
    unfold cc_attr in H. destruct r as [| | |c items]; try discriminate. injection H as <-.
    rewrite get_comments_mc. right. apply ucm_set_comments. }
  destruct (d =? CB_projection).
  { destruct (tr_main ip true _) as [r|e] eqn:T; cbn [bind] in H; [|discriminate].
    pose proof (tr_main_UC ip true _ r HP T) as Hr.
    unfold cc_projection in H. destruct r as [| | |c items]; try discriminate.
    destruct (has_comments m); injection H as <-; [|exact Hr].
    rewrite get_comments_mc. right. apply ucm_set_comments. }
  destruct (d =? CB_composite); [|injection H as <-; exact HP].
  destruct (tr_main ip true _) as [r|e] eqn:T; cbn [bind] in H; [|discriminate].
  pose proof (tr_main_UC ip true _ r HP T) as Hr.
  unfold cc_composite in H. destruct r as [| | |c items]; try discriminate.
  destruct (cc_dictlike _).
  - unfold cc_dict in H. cbv zeta in H.
    destruct (cc_cm2 cs items _) as [cm2|e] eqn:E2; cbn [bind] in H; [|discriminate].
    injection H as <-. rewrite cc_setk_eq. left. rewrite typed_set_comments.
    unfold cc_cm2 in E2. rewrite typed_assoc. destruct (assoc s_type items); [reflexivity|discriminate].
  - apply cc_nondict_inv in H. subst h. exact Hr.
Qed.

Theorem ctr_UC ip : forall g h, GUC g -> ctr ip g = Ok h -> GUC h.
Proof.
  fix IH 1. intros g h HP H. destruct g as [t|d cs m|v]; try (cbn in H; injection H as <-; exact HP).
  rewrite ctr_node in H. destruct (ctr_list ip cs) as [cs'|e] eqn:L; cbn [bind] in H; [|discriminate].
  injection H as <-. apply GUC_node in HP. apply GUC_node.
  revert cs' L. induction cs as [|c cs IHcs]; intros cs' L.
  - cbn in L. injection L as <-. constructor.
  - cbn [ctr_list] in L.
    destruct (ctr ip c) as [c1|e] eqn:T1; cbn [bind] in L; [|discriminate].
    destruct (comments_callback ip c1) as [c2|e] eqn:K1; cbn [bind] in L; [|discriminate].
    fold (ctr_list ip cs) in L. destruct (ctr_list ip cs) as [r|e]; cbn [bind] in L; [|discriminate].
    injection L as <-.
    constructor; [exact (comments_callback_UC ip c1 c2 (IH c c1 (Forall_inv HP) T1) K1)|].
    apply (IHcs (Forall_inv_tail HP)). reflexivity.
Qed.

Lemma gtree_of_GUC : forall t, GUC (gtree_of t).
Proof.
  fix IH 1. intros [tk|d cs m]; [exact I|]. cbn [gtree_of]. apply GUC_node.
  induction cs as [|c cs IHcs]; [constructor|]. cbn [map]. constructor; [apply IH|exact IHcs].
Qed.

Lemma canonize_GUC g : GUC g -> GUC (canonize g).
Proof.
  intros HG. destruct g as [t|d cs m|v]; try exact HG. cbn [canonize].
  destruct (d =? CB_symbolset); [|exact HG].
  apply GUC_node in HG. apply GUC_node. constructor; [|exact HG]. apply GUC_node. constructor; [exact I|constructor].
Qed.

(* ================================================================ token callbacks *)
Lemma set_first_PG t s x : set_first t s = Ok x -> PG x.
Proof. unfold set_first. intros H. wcrush H. exact I. Qed.
Lemma cb_binary_PG t a b c x : cb_binary t a b c = Ok x -> PG x.
Proof. unfold cb_binary. intros H. wcrush H. eapply set_first_PG; eassumption. Qed.
Lemma cb_comparison_PG t x : cb_comparison t = Ok x -> PG x.
Proof. unfold cb_comparison. intros H. wcrush H. eapply set_first_PG; eassumption. Qed.
Lemma cb_prefix_PG t p b x : cb_prefix t p b = Ok x -> PG x.
Proof. unfold cb_prefix. intros H. wcrush H; eapply set_first_PG; eassumption. Qed.
Lemma cb_expression_PG t x : cb_expression t = Ok x -> PG x.
Proof. unfold cb_expression. intros H. wcrush H; exact I. Qed.
Lemma cb_func_call_PG t x : cb_func_call t = Ok x -> PG x.
Proof. unfold cb_func_call. intros H. wcrush H. exact I. Qed.
Lemma cb_func_params_PG t x : cb_func_params t = Ok x -> PG x.
Proof. unfold cb_func_params. intros H. wcrush H. reflexivity. Qed.
Lemma cb_attr_bind_PG t x : cb_attr_bind t = Ok x -> PG x.
Proof. unfold cb_attr_bind. intros H. wcrush H. exact I. Qed.
Lemma cb_list_PG t x : cb_list t = Ok x -> PG x.
Proof. unfold cb_list. intros H. wcrush H. exact I. Qed.
Lemma cb_first_PG t x : Forall PG t -> cb_first t = Ok x -> PG x.
Proof. unfold cb_first. intros HF H. wcrush H. exact (Forall_inv HF). Qed.
Lemma cb_int_PG t x : cb_int t = Ok x -> PG x.
Proof. unfold cb_int. intros H. wcrush H. exact I. Qed.
Lemma cb_float_PG t x : cb_float t = Ok x -> PG x.
Proof. unfold cb_float. intros H. wcrush H. exact I. Qed.
Lemma cb_bool_PG b t x : cb_bool b t = Ok x -> PG x.
Proof. unfold cb_bool. intros H. wcrush H. exact I. Qed.
Lemma cb_hexcolor_PG t x : cb_hexcolor t = Ok x -> PG x.
Proof. unfold cb_hexcolor. intros H. wcrush H. exact I. Qed.
Lemma cb_len_PG n t x : Forall PG t -> cb_len n t = Ok x -> PG x.
Proof. unfold cb_len. intros HF H. wcrush H. apply PG_seq. exact HF. Qed.
Lemma cb_start_PG t x : Forall PG t -> cb_start t = Ok x -> PG x.
Proof.
  unfold cb_start. intros HF H. destruct t as [|a [|b r]]; injection H as <-; try (apply PG_seq; exact HF).
  exact (Forall_inv HF).
Qed.

(* ================================================================ attr *)
Lemma nmk_base1 pd : nmk (base1 pd).
Proof. unfold nmk, base1. cbn [keys map fst filter]. unfold nonmeta. rewrite meta_position. constructor. Qed.

Lemma nmk_base2 pd X : nmk (base2 pd X).
Proof.
  unfold nmk, base2. cbn [keys map fst filter]. unfold nonmeta. rewrite meta_position, meta_tokens. constructor.
Qed.

Lemma pguard_single c ka vb : nd vb = true -> pguard (VDict c [(ka, vb)]) = true.
Proof.
  intros H. cbn [pguard keys map fst filter forallb snd]. rewrite andb_true_r.
  apply andb_true_iff. split; [destruct (nonmeta ka); reflexivity|].
  destruct (is_metadata ka); [|apply nd_pguard; exact H].
  destruct (str_eqb ka k_comments); [apply nd_cmgood; exact H|reflexivity].
Qed.

Lemma attr_body_PG key kn vts x : Forall WF vts -> attr_body key kn vts = Ok x -> PG x.
Proof.
  intros HF H. unfold attr_body in H.
  destruct (create_position_dict key (Some vts)) as [pd|e]; cbn [bind] in H; [|discriminate].
  destruct vts as [|a [|b rest]]; [discriminate| |].
  - destruct a as [v|t|l|c items]; try discriminate. cbn [tok_of bind] in H. injection H as <-.
    assert (Ht : tokOK t) by exact (Forall_inv HF). destruct Ht as (Hn & _).
    change (od_set s_tokens (TSeq [TTok key; TTok t]) [(s_position, TVal pd)])
      with (base2 pd (TSeq [TTok key; TTok t])).
    apply PG_set; [|apply PGE_nd; rewrite nd_clean_top; exact Hn].
    apply PG_dict. split; [apply nmk_base2|].
    constructor; [apply PGE_meta; [apply meta_position|apply pos_not_comments]|].
    constructor; [apply PGE_meta; [apply meta_tokens|apply tokens_not_comments]|constructor].
  - destruct (str_eqb kn s_config) eqn:Ec.
    + destruct rest; [|discriminate].
      destruct (tok_of a) as [ta|e] eqn:Ea; cbn [bind] in H; [|discriminate].
      destruct (tok_of b) as [tb|e] eqn:Eb; cbn [bind] in H; [|discriminate].
      destruct (pk_val ta) as [| | | |ka| |]; try discriminate. cbn [bind] in H. injection H as <-.
      destruct b as [|tb'| |]; try discriminate. injection Eb as ->.
      assert (Htb : tokOK tb) by exact (Forall_inv (Forall_inv_tail HF)). destruct Htb as (Hn & _).
      change [(s_position, TVal pd)] with (base1 pd).
      apply PG_set.
      * apply PG_dict. split; [apply nmk_base1|].
        constructor; [apply PGE_meta; [apply meta_position|apply pos_not_comments]|constructor].
      * apply str_eqb_eq in Ec. subst kn. unfold PGE, pge. cbn [fst snd]. rewrite nonmeta_config.
        cbn [PG]. apply pguard_single. exact Hn.
    + destruct (mapM tv_dot_value (a :: b :: rest)) as [vals|e] eqn:Em; cbn [bind] in H; [|discriminate].
      injection H as <-. destruct (mapM_dot_value _ _ HF Em) as [_ Hnv].
      change (od_set s_tokens (TSeq (TTok key :: a :: b :: rest)) [(s_position, TVal pd)])
        with (base2 pd (TSeq (TTok key :: a :: b :: rest))).
      apply PG_set; [|apply PGE_nd; exact Hnv].
      apply PG_dict. split; [apply nmk_base2|].
      constructor; [apply PGE_meta; [apply meta_position|apply pos_not_comments]|].
      constructor; [apply PGE_meta; [apply meta_tokens|apply tokens_not_comments]|constructor].
Qed.

Lemma cb_attr_PG tokens x : Forall WF tokens -> cb_attr tokens = Ok x -> PG x.
Proof.
  rewrite cb_attr_stages. intros HF H. destruct tokens as [|k0 vt0]; [discriminate|].
  destruct (attr_key k0) as [key|e]; cbn [bind] in H; [|discriminate].
  destruct (key_name key) as [kn|e]; cbn [bind] in H; [|discriminate].
  destruct (attr_vtoks vt0) as [vts|e] eqn:Ev; cbn [bind] in H; [|discriminate].
  eapply attr_body_PG; [|exact H]. eapply attr_vtoks_WF; [exact (Forall_inv_tail HF)|exact Ev].
Qed.

Lemma cb_config_PG t x : Forall WF t -> cb_config t = Ok x -> PG x.
Proof.
  unfold cb_config. intros HF H. destruct t as [|k [|a [|b [|? ?]]]]; try discriminate.
  destruct (tok_of a) as [ta|e] eqn:Ea; cbn [bind] in H; [|discriminate].
  destruct (tok_of b) as [tb|e] eqn:Eb; cbn [bind] in H; [|discriminate].
  destruct (tok_str ta) as [ks|e]; cbn [bind] in H; [|discriminate].
  pose proof (tok_of_WF _ _ (Forall_inv (Forall_inv_tail HF)) Ea) as Hta.
  pose proof (tok_of_WF _ _ (Forall_inv (Forall_inv_tail (Forall_inv_tail HF))) Eb) as Htb.
  eapply cb_attr_PG; [|exact H].
  constructor; [exact (Forall_inv HF)|]. constructor; [apply tokOK_set; [exact Hta|reflexivity]|].
  constructor; [|constructor]. apply tokOK_set; [exact Htb|]. rewrite nd_clean_top. apply Htb.
Qed.

Lemma cb_projection_PG t x : Forall WF t -> cb_projection t = Ok x -> PG x.
Proof.
  intros HF H. unfold cb_projection in H.
  destruct (check_composite_tokens (Str "projection") t) as [[key body]|e] eqn:Ec; cbn [bind] in H; [|discriminate].
  destruct (cct_WF _ _ _ _ HF Ec) as [_ Hb].
  match type of H with bind (mapM ?f ?l) _ = _ => destruct (mapM f l) as [strs|e] eqn:Em end;
    cbn [bind] in H; [|discriminate].
  destruct t as [|k [|v1 rest]]; try discriminate.
  destruct (tok_of v1) as [vt|e] eqn:Ev; cbn [bind] in H; [|discriminate].
  eapply cb_attr_PG; [|exact H].
  constructor; [exact (Forall_inv HF)|]. constructor; [|constructor].
  apply tokOK_set; [exact (tok_of_WF _ _ (Forall_inv (Forall_inv_tail HF)) Ev)|].
  cbn [nd]. eapply (mapM_nd _ WF); [|exact Hb|exact Em].
  intros v y Hv Hy. cbn beta in Hy. destruct (tv_dot_value v) as [w|e] eqn:Ew; cbn [bind] in Hy; [|discriminate].
  injection Hy as <-. rewrite nd_clean_string. eapply tv_dot_value_nd; eassumption.
Qed.

Lemma process_pair_lists_PG name t x : Forall WF t -> process_pair_lists name t = Ok x -> PG x.
Proof.
  unfold process_pair_lists. intros HF H.
  destruct (check_composite_tokens name t) as [[key body]|e] eqn:Ec; cbn [bind] in H; [|discriminate].
  destruct (cct_WF _ _ _ _ HF Ec) as [_ Hb].
  match type of H with bind (mapM ?f ?l) _ = _ => destruct (mapM f l) as [pairs|e] eqn:Em end;
    cbn [bind] in H; [|discriminate].
  destruct t as [|k [|[| |[|[|vt| |] l0]|] rest]]; try discriminate.
  eapply cb_attr_PG; [|exact H].
  constructor; [exact (Forall_inv HF)|]. constructor; [|constructor].
  pose proof (Forall_inv (Forall_inv_tail HF)) as Hs. apply WF_seq in Hs.
  apply tokOK_set; [exact (Forall_inv Hs)|].
  cbn [nd]. eapply (mapM_nd _ WF); [|exact Hb|exact Em].
  intros v y Hv Hy. cbn beta in Hy.
  destruct (seq_item_value v 0) as [a|e] eqn:Ea; cbn [bind] in Hy; [|discriminate].
  destruct (seq_item_value v 1) as [b|e] eqn:Eb; cbn [bind] in Hy; [|discriminate].
  injection Hy as <-. cbn [nd forallb].
  rewrite (seq_item_value_nd _ _ _ Hv Ea), (seq_item_value_nd _ _ _ Hv Eb). reflexivity.
Qed.

(* ================================================================ key-value blocks *)
Lemma pvp_fold_PG body : Forall WF body -> forall d0 d,
  nmk d0 -> Forall PGE d0 -> fold_left pvp_step body (Ok d0) = Ok d -> nmk d /\ Forall PGE d.
Proof.
  induction 1 as [|t body Ht _ IH]; intros d0 d Hn Hm H.
  - cbn in H. injection H as <-. auto.
  - cbn [fold_left] in H. unfold pvp_step at 2 in H. cbn [bind] in H.
    destruct (seq_item_value t 0) as [kv|e] eqn:E0; cbn [bind] in H; [|rewrite pvp_fold_err in H; discriminate].
    destruct (seq_item_value t 1) as [vv|e] eqn:E1; cbn [bind] in H; [|rewrite pvp_fold_err in H; discriminate].
    destruct (value_as_str (clean_top kv)) as [ks|e]; cbn [bind] in H; [|rewrite pvp_fold_err in H; discriminate].
    apply (IH _ _) in H; [exact H| |].
    + apply nmk_set. exact Hn.
    + apply Forall_od_set; [exact Hm|]. apply PGE_nd. rewrite nd_clean_top. eapply seq_item_value_nd; eassumption.
Qed.

Lemma process_value_pairs_PG ip t ty x : Forall WF t -> process_value_pairs ip t ty = Ok x -> PG x.
Proof.
  rewrite process_value_pairs_stages. intros HF H.
  destruct (check_composite_tokens ty t) as [[key body]|e] eqn:Ec; cbn [bind fst snd] in H; [|discriminate].
  destruct (cct_WF _ _ _ _ HF Ec) as [Hkey Hb].
  destruct (key_name key) as [kn|e]; cbn [bind] in H; [|discriminate].
  destruct (fold_left pvp_step body (Ok [])) as [d|e] eqn:Ef; cbn [bind] in H; [|discriminate].
  destruct (pvp_fold_PG body Hb [] d (NoDup_nil _) (Forall_nil _) Ef) as [D1 D2].
  destruct (pvp_pos ip key body d) as [d1|e] eqn:Ep; cbn [bind] in H; [|discriminate].
  injection H as <-.
  assert (D : nmk d1 /\ Forall PGE d1).
  { unfold pvp_pos in Ep. destruct ip; [|injection Ep as <-; auto].
    destruct (create_position_dict key (Some body)) as [pd|e]; cbn [bind] in Ep; [|discriminate].
    injection Ep as <-. split; [apply nmk_set; exact D1|]. unfold ci_set. rewrite lower_position.
    apply Forall_od_set; [exact D2|]. apply PGE_meta; [apply meta_position|apply pos_not_comments]. }
  destruct D as [D3 D4]. apply PG_dict. split; [apply nmk_set; exact D3|].
  unfold ci_set. rewrite lower_type. apply Forall_od_set; [exact D4|].
  apply PGE_meta; [apply meta_s_type|apply type_not_comments].
Qed.

(* ================================================================ composite *)
Definition SPG (st : cstate) : Prop :=
  nmk (cs_dict st) /\ Forall PGE (cs_dict st) /\ Forall strl (cs_comments st).

Lemma tla_PG cur e cur' : PG cur -> PG e -> tv_list_append cur e = Ok cur' -> PG cur'.
Proof.
  unfold tv_list_append. intros Hc He H. destruct cur as [[| | | | |l|]| |l|]; try discriminate.
  - cbn [PG pguard] in Hc. rewrite forallb_forall in Hc.
    destruct e as [v| | |]; injection H as <-;
      try (apply PG_seq; apply Forall_app; split;
           [apply Forall_forall; intros x Hx; apply in_map_iff in Hx; destruct Hx as (v0 & <- & Hv0);
            cbn [PG]; apply Hc; exact Hv0
           |constructor; [exact He|constructor]]).
    cbn [PG pguard]. rewrite forallb_app. cbn [forallb]. cbn [PG] in He. rewrite He, andb_true_r.
    apply forallb_forall. exact Hc.
  - injection H as <-. apply PG_seq. apply Forall_app. split; [apply PG_seq; exact Hc|constructor; [exact He|constructor]].
Qed.

(* appending under a key *)
Lemma append_under_PG k (dict : titems) e cur' :
  nmk dict -> Forall PGE dict -> PG e ->
  tv_list_append (match assoc k dict with Some x => x | None => TSeq [] end) e = Ok cur' ->
  nmk (od_set k cur' dict) /\ Forall PGE (od_set k cur' dict).
Proof.
  intros Hn Hd He H. split; [apply nmk_set; exact Hn|]. apply Forall_od_set; [exact Hd|].
  destruct (tla_tvv _ _ _ H) as (l & E1 & E2).
  unfold PGE, pge. cbn [fst snd]. destruct (is_metadata k) eqn:Em.
  - intros _. rewrite E2. reflexivity.
  - eapply tla_PG; [|exact He|exact H].
    destruct (assoc k dict) as [x|] eqn:Ea; [|exact I].
    pose proof (PGE_get _ _ _ Hd Ea) as Hx. unfold PGE, pge in Hx. cbn [fst snd] in Hx. rewrite Em in Hx. exact Hx.
Qed.

Lemma ci_typed_PG st d ty st' : SPG st -> PG d -> ci_typed st d ty = Ok st' -> SPG st'.
Proof.
  intros (Hn & Hd & Hcm) Hw H. unfold ci_typed in H.
  destruct ty as [[| | | |k| |]| | |]; try discriminate. cbn [bind] in H.
  destruct (mem_str k SINGLETON_COMPOSITE_NAMES) eqn:Es.
  - injection H as <-. split; [|split]; cbn [cs_dict cs_comments]; [apply nmk_set; exact Hn| |exact Hcm].
    unfold ci_set. apply Forall_od_set; [exact Hd|].
    pose proof singleton_nonmeta as Hs. rewrite forallb_forall in Hs.
    specialize (Hs k (proj1 (mem_str_In _ _) Es)). apply negb_true_iff in Hs.
    unfold PGE, pge. cbn [fst snd]. rewrite Hs. exact Hw.
  - unfold ci_get in H.
    destruct (tv_list_append _ d) as [cur'|e] eqn:Ea; cbn [bind] in H; [|discriminate].
    injection H as <-. destruct (append_under_PG _ _ _ _ Hn Hd Hw Ea) as [A1 A2].
    split; [exact A1|split; [exact A2|exact Hcm]].
Qed.

Lemma cfg_fold_PG cfg : Forall (fun kv => nd (snd kv) = true) cfg -> forall cur,
  nmk cur -> Forall PGE cur -> nmk (cfg_fold cfg cur) /\ Forall PGE (cfg_fold cfg cur).
Proof.
  induction 1 as [|[k v] cfg Hv _ IH]; intros cur Hn Hd; [auto|].
  cbn [snd] in Hv. unfold cfg_fold. cbn [fold_left fst snd]. fold (cfg_fold cfg (ci_set k (TVal v) cur)).
  apply IH; [apply nmk_set; exact Hn|]. apply Forall_od_set; [exact Hd|apply PGE_nd; exact Hv].
Qed.

Lemma PGE_nonmeta k y : is_metadata k = false -> PGE (k, y) -> PG y.
Proof. intros Hm H. unfold PGE, pge in H. cbn [fst snd] in H. rewrite Hm in H. exact H. Qed.

Lemma cfg_cur_PG dict : Forall PGE dict -> nmk (cfg_cur dict) /\ Forall PGE (cfg_cur dict).
Proof.
  intros Hd. unfold cfg_cur, ci_get. rewrite lower_config.
  destruct (assoc s_config dict) as [[| | |c items]|] eqn:Ea; try (split; constructor).
  pose proof (PGE_nonmeta _ _ nonmeta_config (PGE_get _ _ _ Hd Ea)) as Hx. apply PG_dict in Hx. exact Hx.
Qed.

Lemma process_config_PG st v pos st' :
  SPG st -> cfgok v -> process_config st [(s_config, v)] pos = Ok st' -> SPG st'.
Proof.
  intros (Hn & Hd & Hcm) Hc H. unfold process_config in H.
  destruct (assoc s_config [(s_config, v)]) as [a|] eqn:Ea; [|discriminate].
  cbn [assoc] in Ea. rewrite str_eqb_refl in Ea. injection Ea as <-.
  destruct v as [[| | | | | |c cfg]| | |]; try discriminate.
  specialize (Hc c cfg eq_refl).
  match type of H with bind ?r _ = _ => destruct r as [p'|e] end; cbn [bind] in H; [|discriminate].
  injection H as <-.
  change (match ci_get s_config (cs_dict st) with Some (TDict _ items) => items | _ => [] end)
    with (cfg_cur (cs_dict st)).
  change (fold_left (fun (d : titems) (kv : str * value) => ci_set (fst kv) (TVal (snd kv)) d) cfg (cfg_cur (cs_dict st)))
    with (cfg_fold cfg (cfg_cur (cs_dict st))).
  destruct (cfg_cur_PG _ Hd) as [C1 C2]. destruct (cfg_fold_PG cfg Hc _ C1 C2) as [F1 F2].
  split; [|split]; cbn [cs_dict cs_comments]; [apply nmk_set; exact Hn| |exact Hcm]. unfold ci_set. rewrite lower_config.
  apply Forall_od_set; [exact Hd|]. unfold PGE, pge. cbn [fst snd]. rewrite nonmeta_config.
  apply PG_dict. split; assumption.
Qed.

Lemma points_new_PG dict newv dict' :
  nmk dict -> Forall PGE dict -> pguard newv = true -> points_new dict newv = Ok dict' ->
  nmk dict' /\ Forall PGE dict'.
Proof.
  intros Hn Hd Hv H. unfold points_new, ci_get in H. rewrite lower_points in H.
  destruct (assoc s_points dict) as [[existing| | |]|] eqn:Ea; try discriminate.
  - destruct (calculate_depth existing) as [dep|e]; cbn [bind] in H; [|discriminate].
    pose proof (PGE_nonmeta _ _ nonmeta_points (PGE_get _ _ _ Hd Ea)) as Hx. cbn [PG] in Hx.
    assert (G : forall l, forallb pguard l = true ->
                Ok (ci_set s_points (TVal (VList (l ++ [newv]))) dict) = Ok dict' ->
                nmk dict' /\ Forall PGE dict').
    { intros l Hl Hr. injection Hr as <-. split; [apply nmk_set; exact Hn|].
      unfold ci_set. rewrite lower_points. apply Forall_od_set; [exact Hd|].
      unfold PGE, pge. cbn [fst snd]. rewrite nonmeta_points. cbn [PG pguard].
      rewrite forallb_app, Hl. cbn [forallb]. rewrite Hv. reflexivity. }
    destruct (dep =? 2)%Z.
    + apply (G [existing]); [cbn [forallb]; rewrite Hx; reflexivity|exact H].
    + destruct existing as [| | | | |l|]; try discriminate. apply (G l); [exact Hx|exact H].
  - injection H as <-. split; [apply nmk_set; exact Hn|].
    unfold ci_set. rewrite lower_points. apply Forall_od_set; [exact Hd|].
    unfold PGE, pge. cbn [fst snd]. rewrite nonmeta_points. exact Hv.
Qed.

Lemma process_points_PG st v pos st' :
  SPG st -> PGE (s_points, v) -> process_points st [(s_points, v)] pos = Ok st' -> SPG st'.
Proof.
  intros (Hn & Hd & Hcm) Hv H. unfold process_points in H.
  destruct (assoc s_points [(s_points, v)]) as [a|] eqn:Ea; [|discriminate].
  cbn [assoc] in Ea. rewrite str_eqb_refl in Ea. injection Ea as <-.
  destruct v as [newv| | |]; try discriminate.
  fold (points_new (cs_dict st) newv) in H.
  destruct (points_new (cs_dict st) newv) as [d'|e] eqn:En; cbn [bind] in H; [|discriminate].
  injection H as <-. unfold SPG. cbn [cs_dict cs_comments].
  destruct (points_new_PG _ _ _ Hn Hd (PGE_nonmeta _ _ nonmeta_points Hv) En) as [A1 A2].
  split; [exact A1|split; [exact A2|exact Hcm]].
Qed.

Lemma cm_new_strl ic comments kn cm :
  (forall l, comments = Some (TVal (VList l)) -> all_str l = true) ->
  Forall strl cm -> Forall strl (cm_new ic comments kn cm).
Proof.
  intros Hc Hcm. unfold cm_new.
  destruct comments as [[[| | | | |[|c0 l]|]| | |]|]; try exact Hcm.
  destruct ic; [|exact Hcm]. apply Forall_od_set; [exact Hcm|].
  unfold strl. cbn [snd strlist]. apply Hc. reflexivity.
Qed.

Lemma ci_untyped_PG ic st pos comments kn v st' :
  SPG st -> uentry kn v -> PGE (kn, v) ->
  (forall l, comments = Some (TVal (VList l)) -> all_str l = true) ->
  ci_untyped ic st pos comments [(kn, v)] = Ok st' -> SPG st'.
Proof.
  intros HS [Hl Hu] Hv Hcs H. unfold ci_untyped in H.
  destruct (str_eqb kn s_config) eqn:Ec.
  { apply str_eqb_eq in Ec. subst kn. eapply process_config_PG; eassumption. }
  destruct (str_eqb kn s_points) eqn:Ept.
  { apply str_eqb_eq in Ept. subst kn. eapply process_points_PG; eassumption. }
  destruct HS as (Hn & Hd & Hcm).
  destruct (mem_str kn REPEATED_KEYS).
  - unfold ci_get in H. rewrite Hl in H.
    destruct (tv_list_append _ v) as [cur'|e] eqn:Ea; cbn [bind] in H; [|discriminate].
    injection H as <-. unfold SPG. cbn [cs_dict cs_comments]. unfold ci_set. rewrite Hl.
    destruct (is_metadata kn) eqn:Em.
    + split; [apply nmk_set; exact Hn|split; [|exact Hcm]]. apply Forall_od_set; [exact Hd|].
      destruct (tla_tvv _ _ _ Ea) as (l & _ & E2).
      unfold PGE, pge. cbn [fst snd]. rewrite Em. intros _. rewrite E2. reflexivity.
    + destruct (append_under_PG _ _ _ _ Hn Hd (PGE_nonmeta _ _ Em Hv) Ea) as [A1 A2].
      split; [exact A1|split; [exact A2|exact Hcm]].
  - injection H as <-. unfold SPG. cbn [cs_dict cs_comments]. unfold ci_set. rewrite Hl.
    split; [apply nmk_set; exact Hn|split; [apply Forall_od_set; assumption|]].
    apply cm_new_strl; assumption.
Qed.

Lemma composite_item_PG ic st d st' :
  SPG st -> WF d -> PG d -> UC d -> composite_item ic st d = Ok st' -> SPG st'.
Proof.
  intros HS Hw Hp Hc H. rewrite composite_item_stages in H. destruct d as [| | |c items]; try discriminate.
  destruct (assoc s_type items) as [ty|] eqn:Et.
  - eapply ci_typed_PG; eassumption.
  - apply WF_dict in Hw. destruct Hw as [He [Hty|Hu]]; [rewrite typed_assoc, Et in Hty; discriminate|].
    cbn [UC] in Hc. destruct Hc as [Hc|Hc]; [rewrite typed_assoc, Et in Hc; discriminate|].
    destruct (assoc s_position items) as [[p| | |]|] eqn:Ep; try discriminate. cbn [bind] in H.
    unfold ucm in Hc.
    destruct (items2_of items) as [|[kn v] [|? ?]] eqn:E2; try discriminate.
    assert (Hin : In (kn, v) items).
    { assert (Hi : In (kn, v) (items2_of items)) by (rewrite E2; left; reflexivity).
      unfold items2_of, items1_of in Hi. repeat apply In_od_del in Hi. exact Hi. }
    unfold WFu in Hu. rewrite Forall_forall in Hu.
    apply PG_dict in Hp. destruct Hp as [_ Hp]. rewrite Forall_forall in Hp.
    eapply ci_untyped_PG; [exact HS|exact (Hu _ Hin)|exact (Hp _ Hin)|exact Hc|exact H].
Qed.

Lemma comp_fold_PG ic l : Forall WF l -> Forall PG l -> Forall UC l -> forall st s,
  SPG st -> comp_fold ic l (Ok st) = Ok s -> SPG s.
Proof.
  induction 1 as [|d l Hd _ IH]; intros HP HU st s HS H.
  - cbn in H. injection H as <-. exact HS.
  - cbn [comp_fold fold_left comp_step bind] in H.
    destruct (composite_item ic st d) as [s1|e] eqn:E1;
      [|fold (comp_fold ic l (Err e)) in H; rewrite comp_fold_err in H; discriminate].
    eapply (IH (Forall_inv_tail HP) (Forall_inv_tail HU)); [|exact H].
    eapply composite_item_PG; [exact HS|exact Hd|exact (Forall_inv HP)|exact (Forall_inv HU)|exact E1].
Qed.

Lemma filter_nonmeta_finish (ty : str * tv) (wp wc rest : titems) :
  Forall (fun kv => is_metadata (fst kv) = true) wp -> Forall (fun kv => is_metadata (fst kv) = true) wc ->
  filter nonmeta (keys (ty :: wp ++ wc ++ rest)) = filter nonmeta (keys (ty :: rest)).
Proof.
  intros H1 H2.
  assert (G : forall l : titems, Forall (fun kv => is_metadata (fst kv) = true) l -> filter nonmeta (keys l) = []).
  { induction 1 as [|[k y] l Hk _ IHl]; [reflexivity|]. cbn [keys map fst filter]. unfold nonmeta at 1.
    cbn [fst] in Hk. rewrite Hk. exact IHl. }
  unfold keys. cbn [map]. rewrite !map_app. cbn [filter]. rewrite !filter_app.
  fold (keys wp) (keys wc). rewrite (G wp H1), (G wc H2). reflexivity.
Qed.

Lemma strl_cmgood cm : Forall strl cm -> cmgood (VDict DPlain cm) = true.
Proof. intros H. cbn [cmgood]. apply forallb_forall. rewrite Forall_forall in H. exact H. Qed.

Lemma comp_finish_PG ic st x : SPG st -> comp_finish ic st = Ok x -> PG x.
Proof.
  intros (Hn & Hd & Hcm) H. unfold comp_finish in H. cbv zeta in H.
  destruct (cs_dict st) as [|ty rest]; [discriminate|]. injection H as <-.
  apply PG_dict. split.
  - unfold nmk in *. rewrite filter_nonmeta_finish; [exact Hn| |].
    + destruct (cs_pos st); constructor; [apply meta_position|constructor].
    + destruct ic; constructor; [apply meta_s_comments|constructor].
  - constructor; [exact (Forall_inv Hd)|]. apply Forall_app. split.
    + destruct (cs_pos st); constructor; [|constructor].
      apply PGE_meta; [apply meta_position|apply pos_not_comments].
    + apply Forall_app. split; [|exact (Forall_inv_tail Hd)].
      destruct ic; constructor; [|constructor].
      unfold PGE, pge. cbn [fst snd tvv]. rewrite meta_s_comments. intros _. apply strl_cmgood. exact Hcm.
Qed.

Lemma attrs_of_PG x : PG x -> Forall PG (attrs_of x).
Proof. destruct x; cbn [attrs_of]; intros H; try (constructor; [exact H|constructor]). apply PG_seq. exact H. Qed.

Lemma attrs_of_UC x : UC x -> Forall UC (attrs_of x).
Proof. destruct x; cbn [attrs_of]; intros H; try (constructor; [exact H|constructor]). apply UC_seq. exact H. Qed.

Lemma comp_init_SPG kn pd : SPG (comp_init kn pd).
Proof.
  unfold SPG, comp_init, ci_set. cbn [cs_dict cs_comments]. rewrite lower_type. cbn [od_set od_mem app].
  split; [|split; [|constructor]].
  - unfold nmk. cbn [keys map fst filter]. unfold nonmeta. rewrite meta_s_type. constructor.
  - constructor; [|constructor]. apply PGE_meta; [apply meta_s_type|apply type_not_comments].
Qed.

Lemma cb_composite_PG ip ic t x :
  Forall WF t -> Forall PG t -> Forall UC t -> cb_composite ip ic t = Ok x -> PG x.
Proof.
  rewrite cb_composite_stages. intros HF HP HU H.
  destruct t as [|a [|b r]]; [discriminate| |].
  - injection H as <-. exact (Forall_inv HP).
  - destruct a as [| |[|[|key| |] l]|]; try discriminate.
    pose proof (Forall_inv (Forall_inv_tail HF)) as Hb. pose proof (Forall_inv (Forall_inv_tail HP)) as Pb.
    pose proof (Forall_inv (Forall_inv_tail HU)) as Ub.
    unfold comp_main in H.
    destruct (key_name key) as [kn|e]; cbn [bind] in H; [|discriminate].
    destruct (comp_pd ip key) as [pd|e]; cbn [bind] in H; [|discriminate].
    destruct (comp_fold ic _ _) as [st|e] eqn:F1; cbn [bind] in H; [|discriminate].
    eapply comp_finish_PG; [|exact H].
    eapply comp_fold_PG; [exact (attrs_of_WF b Hb)|exact (attrs_of_PG b Pb)|exact (attrs_of_UC b Ub)
                         |apply comp_init_SPG|exact F1].
Qed.

(* ================================================================ every callback *)
Lemma callback_PG ip ic d t x :
  Forall WF t -> Forall PG t -> Forall UC t -> callback ip ic d t = Ok x -> PG x.
Proof.
  intros HW HP HU H. unfold callback in H.
  repeat match type of H with
         | (if ?c then _ else _) = _ => destruct c
         end.
  all: try discriminate.
  all: first
    [ eapply cb_start_PG; eassumption
    | eapply cb_composite_PG; eassumption
    | eapply cb_attr_PG; eassumption
    | eapply cb_projection_PG; eassumption
    | eapply cb_config_PG; eassumption
    | eapply process_pair_lists_PG; eassumption
    | eapply process_value_pairs_PG; eassumption
    | eapply cb_comparison_PG; eassumption
    | eapply cb_binary_PG; eassumption
    | eapply cb_first_PG; eassumption
    | eapply cb_prefix_PG; eassumption
    | eapply cb_expression_PG; eassumption
    | eapply cb_func_call_PG; eassumption
    | eapply cb_func_params_PG; eassumption
    | eapply cb_attr_bind_PG; eassumption
    | eapply cb_len_PG; eassumption
    | eapply cb_bool_PG; eassumption
    | eapply cb_int_PG; eassumption
    | eapply cb_float_PG; eassumption
    | eapply cb_hexcolor_PG; eassumption
    | eapply cb_list_PG; eassumption
    | (injection H as <-; apply PG_seq; exact HP) ].
Qed.

(* ================================================================ trees *)
Fixpoint GPG (g : gtree) : Prop :=
  match g with
  | GTok _ => True
  | GVal x => PG x
  | GNode _ cs _ => (fix go (l : list gtree) : Prop := match l with [] => True | c :: l' => GPG c /\ go l' end) cs
  end.

Lemma GPG_node d cs m : GPG (GNode d cs m) <-> Forall GPG cs.
Proof.
  cbn [GPG]. induction cs as [|c cs IH]; [split; [constructor|exact (fun _ => I)]|].
  rewrite IH. split; [intros [H1 H2]; constructor; assumption|intros H; inversion H; subst; tauto].
Qed.

Theorem tr_main_PG ip ic : forall g x, GWF g -> GPG g -> GUC g -> tr_main ip ic g = Ok x -> PG x.
Proof.
  fix IH 1. intros g x HG HP HU H. destruct g as [t|d cs m|v].
  - cbn in H. injection H as <-. exact I.
  - rewrite tr_main_node in H. apply GWF_node in HG. apply GPG_node in HP. apply GUC_node in HU.
    destruct (tr_list ip ic cs) as [xs|e] eqn:L; cbn [bind] in H; [|discriminate].
    assert (HL : Forall WF xs /\ Forall PG xs /\ Forall UC xs).
    { clear H. revert xs L. induction cs as [|c cs IHcs]; intros xs L.
      - cbn in L. injection L as <-. repeat split; constructor.
      - cbn [tr_list] in L.
        destruct (tr_main ip ic c) as [x1|e] eqn:T1; cbn [bind] in L; [|discriminate].
        fold (tr_list ip ic cs) in L.
        destruct (tr_list ip ic cs) as [xs1|e] eqn:L1; cbn [bind] in L; [|discriminate].
        injection L as <-. destruct (tr_main_J ip ic c x1 (Forall_inv HG) T1) as [A1 _].
        pose proof (IH c x1 (Forall_inv HG) (Forall_inv HP) (Forall_inv HU) T1) as A2.
        pose proof (tr_main_UC ip ic c x1 (Forall_inv HU) T1) as A3.
        destruct (IHcs (Forall_inv_tail HG) (Forall_inv_tail HP) (Forall_inv_tail HU) xs1 eq_refl) as (B1 & B2 & B3).
        repeat split; constructor; assumption. }
    destruct HL as (L1 & L2 & L3). eapply callback_PG; eassumption.
  - cbn in H. injection H as <-. exact HP.
Qed.

(* ================================================================ the comments pass *)
Lemma set_comments_PG c items v :
  cmgood v = true -> PG (TDict c items) -> PG (TDict c (od_set s_comments (TVal v) items)).
Proof.
  intros Hv H. apply PG_set; [exact H|]. unfold PGE, pge. cbn [fst snd tvv]. rewrite meta_s_comments.
  intros _. exact Hv.
Qed.

Lemma strl_get_comments k m : strl (k, get_comments m).
Proof. unfold strl. rewrite get_comments_mc. cbn [snd strlist]. apply all_str_map_VStr. Qed.

Lemma amc_fold_strl items l : forall c r,
  Forall strl c -> fold_left (amc_step items) l (Ok c) = Ok r -> Forall strl r.
Proof.
  induction l as [|sp l IH]; intros c r Hc H.
  - cbn in H. injection H as <-. exact Hc.
  - cbn [fold_left] in H. unfold amc_step at 2 in H. cbn [bind] in H.
    destruct (metadata_comment_key sp) as [[key m']|e]; cbn [bind] in H;
      [|rewrite amc_fold_err in H; discriminate].
    destruct (assoc key items); [|unfold vfail in H; rewrite amc_fold_err in H; discriminate].
    eapply IH; [|exact H]. apply Forall_od_set; [exact Hc|apply strl_get_comments].
Qed.

Lemma cc_cm0_strl c items : Forall PGE items -> Forall strl (cc_cm0 c items).
Proof.
  intros Hd. rewrite cc_cm0_eq.
  destruct (assoc s_comments items) as [[[| | | | | |c0 x]| | |]|] eqn:Ea; try constructor.
  pose proof (PGE_get _ _ _ Hd Ea) as Hx. unfold PGE, pge in Hx. cbn [fst snd tvv] in Hx.
  rewrite meta_s_comments in Hx. specialize (Hx eq_refl).
  destruct c0; try discriminate Hx. cbn [cmgood] in Hx. rewrite forallb_forall in Hx.
  apply Forall_forall. exact Hx.
Qed.

Lemma cc_cm2_strl cs items cm1 cm2 : Forall strl cm1 -> cc_cm2 cs items cm1 = Ok cm2 -> Forall strl cm2.
Proof.
  intros H1 E2. unfold cc_cm2 in E2. destruct (assoc s_type items) as [[[| | | |ty| |]| | |]|]; try discriminate.
  destruct (str_eqb ty s_metadata); [|injection E2 as <-; exact H1].
  destruct cs as [|[|d0 mdkids m0|] cs]; try discriminate.
  rewrite add_metadata_comments_stages in E2.
  destruct mdkids as [|a [|b [|c0 l]]]; try (injection E2 as <-; exact H1).
  eapply amc_fold_strl; [exact H1|exact E2].
Qed.

Lemma comments_callback_PG ip g h :
  GWF g -> GPG g -> GUC g -> comments_callback ip g = Ok h -> GPG h.
Proof.
  intros HG HP HU H. rewrite comments_callback_stages in H.
  destruct g as [t|d cs m|v]; try (injection H as <-; exact HP).
  destruct (d =? CB_attr).
  { destruct (tr_main ip true _) as [r|e] eqn:T; cbn [bind] in H; [|discriminate].
    pose proof (tr_main_PG ip true _ r HG HP HU T) as Hr.
    unfold cc_attr in H. destruct r as [| | |c items]; try discriminate. injection H as <-.
    cbn [GPG]. apply set_comments_PG; [reflexivity|exact Hr]. }
  destruct (d =? CB_projection).
  { destruct (tr_main ip true _) as [r|e] eqn:T; cbn [bind] in H; [|discriminate].
    pose proof (tr_main_PG ip true _ r HG HP HU T) as Hr.
    unfold cc_projection in H. destruct r as [| | |c items]; try discriminate.
    destruct (has_comments m); injection H as <-; cbn [GPG]; [apply set_comments_PG; [reflexivity|exact Hr]|exact Hr]. }
  destruct (d =? CB_composite); [|injection H as <-; exact HP].
  destruct (tr_main ip true _) as [r|e] eqn:T; cbn [bind] in H; [|discriminate].
  pose proof (tr_main_PG ip true _ r HG HP HU T) as Hr.
  unfold cc_composite in H. destruct r as [| | |c items]; try discriminate.
  destruct (cc_dictlike _).
  - unfold cc_dict in H. cbv zeta in H.
    destruct (cc_cm2 cs items _) as [cm2|e] eqn:E2; cbn [bind] in H; [|discriminate].
    injection H as <-. rewrite cc_setk_eq. cbn [GPG]. apply set_comments_PG; [|exact Hr].
    apply strl_cmgood. eapply cc_cm2_strl; [|exact E2].
    pose proof Hr as Hr'. apply PG_dict in Hr'. destruct Hr' as [_ Hd].
    destruct (has_comments m); [apply Forall_od_set; [|apply strl_get_comments]|]; apply cc_cm0_strl; exact Hd.
  - apply cc_nondict_inv in H. subst h. exact Hr.
Qed.

Theorem ctr_PG ip : forall g h, GWF g -> GPG g -> GUC g -> ctr ip g = Ok h -> GPG h.
Proof.
  fix IH 1. intros g h HG HP HU H. destruct g as [t|d cs m|v]; try (cbn in H; injection H as <-; exact HP).
  rewrite ctr_node in H. destruct (ctr_list ip cs) as [cs'|e] eqn:L; cbn [bind] in H; [|discriminate].
  injection H as <-. apply GWF_node in HG. apply GPG_node in HP. apply GUC_node in HU. apply GPG_node.
  revert cs' L. induction cs as [|c cs IHcs]; intros cs' L.
  - cbn in L. injection L as <-. constructor.
  - cbn [ctr_list] in L.
    destruct (ctr ip c) as [c1|e] eqn:T1; cbn [bind] in L; [|discriminate].
    destruct (comments_callback ip c1) as [c2|e] eqn:K1; cbn [bind] in L; [|discriminate].
    fold (ctr_list ip cs) in L. destruct (ctr_list ip cs) as [r|e]; cbn [bind] in L; [|discriminate].
    injection L as <-. destruct (ctr_J ip c c1 (Forall_inv HG) T1) as [A1 _].
    pose proof (IH c c1 (Forall_inv HG) (Forall_inv HP) (Forall_inv HU) T1) as A2.
    pose proof (ctr_UC ip c c1 (Forall_inv HU) T1) as A3.
    constructor; [exact (comments_callback_PG ip c1 c2 A1 A2 A3 K1)|].
    apply (IHcs (Forall_inv_tail HG) (Forall_inv_tail HP) (Forall_inv_tail HU)). reflexivity.
Qed.

Lemma gtree_of_GPG : forall t, GPG (gtree_of t).
Proof.
  fix IH 1. intros [tk|d cs m]; [exact I|]. cbn [gtree_of]. apply GPG_node.
  induction cs as [|c cs IHcs]; [constructor|]. cbn [map]. constructor; [apply IH|exact IHcs].
Qed.

Lemma canonize_GPG g : GPG g -> GPG (canonize g).
Proof.
  intros HG. destruct g as [t|d cs m|v]; try exact HG. cbn [canonize].
  destruct (d =? CB_symbolset); [|exact HG].
  apply GPG_node in HG. apply GPG_node. constructor; [|exact HG]. apply GPG_node. constructor; [exact I|constructor].
Qed.

(* the dictionary the transformer returns satisfies the printer's guard *)
Theorem transform_pguard ip t x : transform ip true t = Ok x -> pguard (tvv x) = true.
Proof.
  unfold transform. intros H.
  destruct (gtree_of_facts t) as (G1 & _ & _). destruct (canonize_facts _ G1) as (K1 & _ & _).
  pose proof (canonize_GPG _ (gtree_of_GPG t)) as P1.
  pose proof (canonize_GUC _ (gtree_of_GUC t)) as U1.
  set (g := canonize (gtree_of t)) in *.
  destruct (ctr ip g) as [g1|e] eqn:C1; cbn [bind] in H; [|discriminate].
  destruct (comments_callback ip g1) as [g2|e] eqn:C2; cbn [bind] in H; [|discriminate].
  destruct (ctr_J ip g g1 K1 C1) as [A1 _]. pose proof (ctr_PG ip g g1 K1 P1 U1 C1) as A2.
  pose proof (ctr_UC ip g g1 U1 C1) as A3.
  destruct (comments_callback_J ip g1 g2 A1 C2) as [B1 _].
  pose proof (comments_callback_PG ip g1 g2 A1 A2 A3 C2) as B2.
  pose proof (comments_callback_UC ip g1 g2 A3 C2) as B3.
  apply PG_pguard. eapply tr_main_PG; eassumption.
Qed.
