(* C13 (position part), universal: loading with include_position=True gives the
   same content as loading with it off once the hidden __position__ entries are
   removed at every depth.  Proved over the transformer model for EVERY gtree
   (no bound on size or depth) by a logical-relation argument over tr_main, then
   lifted to transform (both comment modes), tv_to_value and Api.loads.

   Main statements (all closed under the global context):
     position_transparent_tr_main      both runs succeed => results equal after erasure (every gtree, every ic)
     tr_main_E / ctr_G / comments_callback_G   the same for related trees (comments pass included)
     position_transparent_transform    ... for transform, include_comments on or off
     position_transparent_loads        ... for loads: strip_pos v = strip_pos w
     position_erasure_loads_guarded    one-sided form strip_pos v = w when w holds no __position__ key
     position_erasure_loads_one_sided_refuted / position_erasure_tr_main_one_sided_refuted
                                       the one-sided form is false in general (concrete witnesses)
     position_alignment_tr_main_on_to_off          on succeeds => off succeeds (leaf condition gwf)
     position_alignment_tr_main_off_to_on_guarded  off succeeds => on succeeds (gwf and shape guard gkv)
     position_alignment_off_to_on_unguarded_refuted  the shape guard is needed on arbitrary trees
     position_alignment_parser_tree_*              gwf holds of gtree_of t for every tree t
     position_alignment_{transform,loads}_*_partial  lifted, include_comments=False only
   (include_comments=True: Proofs/C13U_Comments.v, under the extra guard gnp) *)
From MF Require Import Lib.Base Lib.PyDict Lib.PyNum Model.GrammarTypes Model.Lexer Model.LR
  Model.Case Model.Transformer Model.Api Gen.Tokens Gen.Grammar Proofs.C11.
Open Scope N_scope.

(* ================================================================ erasure *)
Definition is_pos (k : str) : bool := str_eqb k s_position.

(* drop every entry keyed __position__, apply f to the remaining values *)
Definition strip_with {A} (f : A -> A) : list (str * A) -> list (str * A) :=
  fix go (l : list (str * A)) : list (str * A) :=
    match l with
    | [] => []
    | (k, y) :: l' => if is_pos k then go l' else (k, f y) :: go l'
    end.

(* On transformer values: every TDict, at every depth, loses its __position__
   entries.  Plain Python data (TVal) and tokens are left alone: in the
   transformer every dict that can carry a position entry is a TDict. *)
Fixpoint strip_pos_tv (x : tv) : tv :=
  match x with
  | TVal v => TVal v
  | TTok t => TTok t
  | TSeq l => TSeq (map strip_pos_tv l)
  | TDict c items => TDict c (strip_with strip_pos_tv items)
  end.

(* On final Python data: every dict, at every depth (through lists and dict
   values), loses its __position__ entries. *)
Fixpoint strip_pos (v : value) : value :=
  match v with
  | VList l => VList (map strip_pos l)
  | VDict c items => VDict c (strip_with strip_pos items)
  | _ => v
  end.

Notation SI := (strip_with strip_pos_tv).

(* the relation: equal once positions are erased *)
Definition E (x y : tv) : Prop := strip_pos_tv x = strip_pos_tv y.

Lemma E_refl x : E x x.
Proof. reflexivity. Qed.
Lemma E_sym x y : E x y -> E y x.
Proof. unfold E; congruence. Qed.
Lemma E_trans x y z : E x y -> E y z -> E x z.
Proof. unfold E; congruence. Qed.

(* ---------------------------------------------------------------- induction on tv *)
Section tv_ind'.
  Variable P : tv -> Prop.
  Hypothesis HVal : forall v, P (TVal v).
  Hypothesis HTok : forall t, P (TTok t).
  Hypothesis HSeq : forall l, Forall P l -> P (TSeq l).
  Hypothesis HDict : forall c items, Forall (fun kv => P (snd kv)) items -> P (TDict c items).

  Fixpoint tv_ind' (x : tv) : P x :=
    match x with
    | TVal v => HVal v
    | TTok t => HTok t
    | TSeq l =>
        HSeq l ((fix go (l : list tv) : Forall P l :=
                   match l with
                   | [] => Forall_nil _
                   | y :: l' => Forall_cons _ (tv_ind' y) (go l')
                   end) l)
    | TDict c items =>
        HDict c items
          ((fix go (l : list (str * tv)) : Forall (fun kv => P (snd kv)) l :=
              match l with
              | [] => Forall_nil _
              | kv :: l' => Forall_cons _ (tv_ind' (snd kv)) (go l')
              end) items)
    end.
End tv_ind'.

(* ---------------------------------------------------------------- inversion of E *)
Lemma E_val_l v y : E (TVal v) y -> y = TVal v.
Proof. unfold E. destruct y; cbn [strip_pos_tv]; congruence. Qed.
Lemma E_tok_l t y : E (TTok t) y -> y = TTok t.
Proof. unfold E. destruct y; cbn [strip_pos_tv]; congruence. Qed.

Lemma map_strip_Forall2 l l' : map strip_pos_tv l = map strip_pos_tv l' -> Forall2 E l l'.
Proof.
  revert l'; induction l as [|a l IH]; intros [|b l'] H; cbn [map] in H; try discriminate; [constructor|].
  injection H as H1 H2. constructor; [exact H1|apply IH; exact H2].
Qed.

Lemma Forall2_map_strip l l' : Forall2 E l l' -> map strip_pos_tv l = map strip_pos_tv l'.
Proof. induction 1 as [|a b l l' H1 _ IH]; cbn [map]; [reflexivity|]. rewrite H1, IH. reflexivity. Qed.

Lemma E_seq_l l y : E (TSeq l) y -> exists l', y = TSeq l' /\ Forall2 E l l'.
Proof.
  unfold E. destruct y as [| |l'|]; cbn [strip_pos_tv]; try discriminate.
  intros [= H]. exists l'. split; [reflexivity|apply map_strip_Forall2; exact H].
Qed.

Lemma E_dict_l c items y : E (TDict c items) y -> exists items', y = TDict c items' /\ SI items = SI items'.
Proof.
  unfold E. destruct y as [| | |c' items']; cbn [strip_pos_tv]; try discriminate.
  intros [= -> H]. exists items'. split; [reflexivity|exact H].
Qed.

Lemma E_seq l l' : Forall2 E l l' -> E (TSeq l) (TSeq l').
Proof. intros H. unfold E. cbn [strip_pos_tv]. f_equal. apply Forall2_map_strip. exact H. Qed.

Lemma E_dict c items items' : SI items = SI items' -> E (TDict c items) (TDict c items').
Proof. intros H. unfold E. cbn [strip_pos_tv]. f_equal. exact H. Qed.

Lemma Forall2_E_refl l : Forall2 E l l.
Proof. induction l; constructor; [reflexivity|assumption]. Qed.

Lemma Forall2_E_sym l l' : Forall2 E l l' -> Forall2 E l' l.
Proof. induction 1; constructor; [apply E_sym|]; assumption. Qed.

(* invert every hypothesis E (constructor ..) y / E x (constructor ..) in the context *)
Ltac einv1 :=
  match goal with
  | H : E (TVal _) ?y |- _ => apply E_val_l in H; try subst y
  | H : E (TTok _) ?y |- _ => apply E_tok_l in H; try subst y
  | H : E (TSeq _) ?y |- _ =>
      let l' := fresh "l'" in let H1 := fresh "Heq" in let H2 := fresh "HF" in
      apply E_seq_l in H; destruct H as (l' & H1 & H2); try subst y
  | H : E (TDict _ _) ?y |- _ =>
      let i' := fresh "items'" in let H1 := fresh "Heq" in let H2 := fresh "HS" in
      apply E_dict_l in H; destruct H as (i' & H1 & H2); try subst y
  | H : Forall2 E [] ?l |- _ => inversion H; clear H; try subst l
  | H : Forall2 E (_ :: _) ?l |- _ =>
      let b := fresh "b" in let l' := fresh "l'" in let H1 := fresh "HE" in let H2 := fresh "HF" in
      inversion H as [|? b ? l' H1 H2]; clear H; try subst
  end.
Ltac einv := repeat einv1.

(* ---------------------------------------------------------------- strip_with and the ordered-dict operations *)
Lemma is_pos_eq k : is_pos k = true -> k = s_position.
Proof. unfold is_pos. apply str_eqb_eq. Qed.

Lemma SI_app (a b : titems) : SI (a ++ b) = SI a ++ SI b.
Proof.
  induction a as [|[k v] a IH]; cbn [app strip_with]; [reflexivity|].
  destruct (is_pos k); [exact IH|]. cbn [app]. rewrite IH. reflexivity.
Qed.

Lemma SI_cons_pos k v (l : titems) : is_pos k = true -> SI ((k, v) :: l) = SI l.
Proof. intros H. cbn [strip_with]. rewrite H. reflexivity. Qed.

Lemma SI_cons_nonpos k v (l : titems) : is_pos k = false -> SI ((k, v) :: l) = (k, strip_pos_tv v) :: SI l.
Proof. intros H. cbn [strip_with]. rewrite H. reflexivity. Qed.

Lemma is_pos_neq k k' : is_pos k = false -> is_pos k' = true -> str_eqb k k' = false.
Proof.
  intros H1 H2. apply is_pos_eq in H2. subst k'. exact H1.
Qed.

Lemma SI_assoc k (l : titems) :
  is_pos k = false -> assoc k (SI l) = option_map strip_pos_tv (assoc k l).
Proof.
  intros Hk. induction l as [|[k' v] l IH]; cbn [strip_with assoc]; [reflexivity|].
  destruct (is_pos k') eqn:Ep.
  - rewrite (is_pos_neq _ _ Hk Ep). exact IH.
  - cbn [assoc]. destruct (str_eqb k k'); [reflexivity|exact IH].
Qed.

Lemma SI_od_mem k (l : titems) : is_pos k = false -> od_mem k (SI l) = od_mem k l.
Proof.
  intros Hk. rewrite !od_mem_assoc, SI_assoc by assumption. destruct (assoc k l); reflexivity.
Qed.

Lemma SI_od_replace k v (l : titems) :
  is_pos k = false -> SI (od_replace k v l) = od_replace k (strip_pos_tv v) (SI l).
Proof.
  intros Hk. induction l as [|[k' v'] l IH]; cbn [od_replace strip_with]; [reflexivity|].
  destruct (str_eqb k k') eqn:Ek.
  - apply str_eqb_eq in Ek. subst k'. cbn [strip_with]. rewrite Hk. cbn [od_replace].
    rewrite str_eqb_refl. reflexivity.
  - cbn [strip_with]. destruct (is_pos k'); [exact IH|]. cbn [od_replace]. rewrite Ek, IH. reflexivity.
Qed.

Lemma SI_od_replace_pos k v (l : titems) : is_pos k = true -> SI (od_replace k v l) = SI l.
Proof.
  intros Hk. induction l as [|[k' v'] l IH]; cbn [od_replace strip_with]; [reflexivity|].
  destruct (str_eqb k k') eqn:Ek.
  - apply str_eqb_eq in Ek. subst k'. cbn [strip_with]. rewrite Hk. reflexivity.
  - cbn [strip_with]. destruct (is_pos k'); [exact IH|]. rewrite IH. reflexivity.
Qed.

Lemma SI_od_set k v (l : titems) :
  is_pos k = false -> SI (od_set k v l) = od_set k (strip_pos_tv v) (SI l).
Proof.
  intros Hk. unfold od_set. rewrite SI_od_mem by assumption. destruct (od_mem k l).
  - apply SI_od_replace; assumption.
  - rewrite SI_app. cbn [strip_with]. rewrite Hk. reflexivity.
Qed.

Lemma SI_od_set_pos k v (l : titems) : is_pos k = true -> SI (od_set k v l) = SI l.
Proof.
  intros Hk. unfold od_set. destruct (od_mem k l).
  - apply SI_od_replace_pos; assumption.
  - rewrite SI_app. cbn [strip_with]. rewrite Hk. apply app_nil_r.
Qed.

(* setting the same key to related values keeps dicts related *)
Lemma SI_od_set_E k v v' (l l' : titems) :
  SI l = SI l' -> E v v' -> SI (od_set k v l) = SI (od_set k v' l').
Proof.
  intros Hl Hv. destruct (is_pos k) eqn:Ek.
  - rewrite !SI_od_set_pos by assumption. exact Hl.
  - rewrite !SI_od_set by assumption. rewrite Hl, Hv. reflexivity.
Qed.

(* ... and on a position key the values need not be related at all *)
Lemma SI_od_set_posE k v v' (l l' : titems) :
  is_pos k = true -> SI l = SI l' -> SI (od_set k v l) = SI (od_set k v' l').
Proof. intros Hk Hl. rewrite !SI_od_set_pos by assumption. exact Hl. Qed.

Lemma SI_od_del k (l : titems) : is_pos k = false -> SI (od_del k l) = od_del k (SI l).
Proof.
  intros Hk. induction l as [|[k' v'] l IH]; cbn [od_del strip_with]; [reflexivity|].
  destruct (str_eqb k k') eqn:Ek.
  - apply str_eqb_eq in Ek. subst k'. rewrite Hk. cbn [od_del]. rewrite str_eqb_refl. reflexivity.
  - cbn [strip_with]. destruct (is_pos k'); [exact IH|]. cbn [od_del]. rewrite Ek, IH. reflexivity.
Qed.

Lemma SI_od_del_pos k (l : titems) : is_pos k = true -> SI (od_del k l) = SI l.
Proof.
  intros Hk. induction l as [|[k' v'] l IH]; cbn [od_del strip_with]; [reflexivity|].
  destruct (str_eqb k k') eqn:Ek.
  - apply str_eqb_eq in Ek. subst k'. rewrite Hk. reflexivity.
  - cbn [strip_with]. destruct (is_pos k'); [exact IH|]. rewrite IH. reflexivity.
Qed.

(* lookups of a non-position key in related dicts *)
Definition optE (a b : option tv) : Prop :=
  match a, b with
  | Some x, Some y => E x y
  | None, None => True
  | _, _ => False
  end.

Lemma SI_assoc_E k (l l' : titems) : is_pos k = false -> SI l = SI l' -> optE (assoc k l) (assoc k l').
Proof.
  intros Hk Hl. pose proof (SI_assoc k l Hk) as H1. pose proof (SI_assoc k l' Hk) as H2.
  rewrite Hl, H2 in H1. unfold optE. destruct (assoc k l), (assoc k l'); cbn [option_map] in H1; try discriminate; auto.
  injection H1 as H1. unfold E. congruence.
Qed.

(* ================================================================ results related *)
Definition rrel {A B} (P : A -> B -> Prop) (r : res A) (r' : res B) : Prop :=
  match r, r' with
  | Ok a, Ok b => P a b
  | Err e, Err e' => e = e'
  | _, _ => False
  end.

Lemma rrel_bind {A B A' B'} (P : A -> A' -> Prop) (Q : B -> B' -> Prop) r r' f f' :
  rrel P r r' -> (forall a a', P a a' -> rrel Q (f a) (f' a')) -> rrel Q (bind r f) (bind r' f').
Proof.
  intros Hr Hf. destruct r as [a|e], r' as [a'|e']; cbn [rrel bind] in *; try tauto. apply Hf. exact Hr.
Qed.

Lemma rrel_eq_refl {A} (r : res A) : rrel eq r r.
Proof. destruct r; cbn [rrel]; auto. Qed.

Lemma rrel_vfail {A B} (P : A -> B -> Prop) : rrel P vfail vfail.
Proof. reflexivity. Qed.

Lemma rrel_eq {A} (r r' : res A) : rrel eq r r' -> r = r'.
Proof. destruct r, r'; cbn [rrel]; intros H; congruence || tauto. Qed.

Lemma rrel_mapM {A B A' B'} (P : A -> A' -> Prop) (Q : B -> B' -> Prop) f f' l l' :
  Forall2 P l l' -> (forall a a', P a a' -> rrel Q (f a) (f' a')) ->
  rrel (Forall2 Q) (mapM f l) (mapM f' l').
Proof.
  intros Hl Hf. induction Hl as [|a a' l l' Ha _ IH]; cbn [mapM]; [constructor|].
  eapply rrel_bind; [apply Hf; exact Ha|]. intros b b' Hb.
  eapply rrel_bind; [exact IH|]. intros bs bs' Hbs. cbn [rrel]. constructor; assumption.
Qed.

(* when f looks at tokens only, E-related arguments give the very same result *)
Lemma mapM_eq {B} (f : tv -> res B) l l' :
  Forall2 E l l' -> (forall a a', E a a' -> f a' = f a) -> mapM f l' = mapM f l.
Proof.
  intros Hl Hf. induction Hl as [|a a' l l' Ha _ IH]; cbn [mapM]; [reflexivity|].
  rewrite (Hf _ _ Ha), IH. reflexivity.
Qed.

Definition ER : res tv -> res tv -> Prop := rrel E.

Lemma ER_refl r : ER r r.
Proof. destruct r; cbn; auto. reflexivity. Qed.

Lemma ER_vfail : ER vfail vfail.
Proof. reflexivity. Qed.

Lemma ER_of_eq r r' : r' = r -> ER r r'.
Proof. intros ->. apply ER_refl. Qed.

(* ---------------------------------------------------------------- token-level helpers *)
Lemma tok_of_E x y : E x y -> tok_of y = tok_of x.
Proof. intros H. destruct x; einv; reflexivity. Qed.

Lemma tv_dot_value_E x y : E x y -> tv_dot_value y = tv_dot_value x.
Proof. intros H. destruct x; einv; reflexivity. Qed.

Lemma tok_pystr_E x y : E x y -> tok_pystr y = tok_pystr x.
Proof. intros H. unfold tok_pystr. rewrite (tv_dot_value_E _ _ H). reflexivity. Qed.

Lemma pos_pair_E x y : E x y -> pos_pair y = pos_pair x.
Proof. intros H. destruct x; einv; reflexivity. Qed.

Lemma nth_error_E l l' n : Forall2 E l l' -> optE (nth_error l n) (nth_error l' n).
Proof.
  intros H. revert n. induction H as [|a b l l' Hab _ IH]; intros [|n]; cbn [nth_error optE]; auto.
Qed.

Lemma seq_item_value_E x y i : E x y -> seq_item_value y i = seq_item_value x i.
Proof.
  intros H. destruct x as [v|t|l|c items]; einv; try reflexivity.
  cbn [seq_item_value]. unfold nth_tv.
  pose proof (nth_error_E l l' i HF) as Hn.
  destruct (nth_error l i), (nth_error l' i); cbn [optE] in Hn; try tauto; cbn [bind].
  apply tv_dot_value_E. exact Hn.
Qed.

Lemma first_tok_E xs ys : Forall2 E xs ys -> first_tok ys = first_tok xs.
Proof. intros H. destruct H as [|x y xs ys Hxy H]; [reflexivity|]. destruct x; einv; reflexivity. Qed.

Lemma set_first_E xs ys s : Forall2 E xs ys -> set_first ys s = set_first xs s.
Proof. intros H. destruct H as [|x y xs ys Hxy H]; [reflexivity|]. destruct x; einv; reflexivity. Qed.

Lemma last_opt_E l l' : Forall2 E l l' -> optE (last_opt l) (last_opt l').
Proof.
  induction 1 as [|a b l l' Hab Hl IH]; [exact I|].
  destruct Hl as [|a2 b2 l l' H2 Hl]; [exact Hab|]. exact IH.
Qed.

Lemma removelast_E l l' : Forall2 E l l' -> Forall2 E (removelast l) (removelast l').
Proof.
  induction 1 as [|a b l l' Hab Hl IH]; [constructor|].
  destruct Hl as [|a2 b2 l l' H2 Hl]; [constructor|]. 
  change (Forall2 E (a :: removelast (a2 :: l)) (b :: removelast (b2 :: l'))). constructor; assumption.
Qed.

Lemma Forall2_app_E l1 l1' l2 l2' : Forall2 E l1 l1' -> Forall2 E l2 l2' -> Forall2 E (l1 ++ l2) (l1' ++ l2').
Proof. intros H1 H2. apply Forall2_app; assumption. Qed.

(* flatten: tokens kept, sequences spliced, dicts through __tokens__ *)
Lemma is_pos_tokens : is_pos s_tokens = false.
Proof. reflexivity. Qed.
Lemma is_pos_type : is_pos s_type = false.
Proof. reflexivity. Qed.
Lemma is_pos_comments : is_pos s_comments = false.
Proof. reflexivity. Qed.
Lemma is_pos_config : is_pos s_config = false.
Proof. reflexivity. Qed.
Lemma is_pos_points : is_pos s_points = false.
Proof. reflexivity. Qed.

Lemma flatten_E vs vs' : Forall2 E vs vs' -> rrel (Forall2 E) (flatten vs) (flatten vs').
Proof.
  induction 1 as [|v v' vs vs' Hv _ IH]; cbn [flatten]; [constructor|].
  eapply rrel_bind; [exact IH|]. intros rest rest' Hrest.
  destruct v as [x|t|l|c items]; einv; cbn [rrel]; try apply rrel_vfail.
  - constructor; [reflexivity|assumption].
  - apply Forall2_app_E; assumption.
  - pose proof (SI_assoc_E s_tokens items items' is_pos_tokens HS) as Ha.
    destruct (assoc s_tokens items) as [a|], (assoc s_tokens items') as [a'|]; cbn [optE] in Ha; try tauto;
      [|apply rrel_vfail].
    destruct a; einv; cbn [rrel]; try apply rrel_vfail. apply Forall2_app_E; assumption.
Qed.

Lemma create_position_dict_E key vs vs' :
  Forall2 E vs vs' -> create_position_dict key (Some vs') = create_position_dict key (Some vs).
Proof.
  intros H. unfold create_position_dict.
  destruct H as [|v v' vs vs' Hv H]; [reflexivity|].
  assert (HH : Forall2 E (v :: vs) (v' :: vs')) by (constructor; assumption).
  pose proof (flatten_E _ _ HH) as Hf.
  destruct (flatten (v :: vs)) as [fl|e], (flatten (v' :: vs')) as [fl'|e']; cbn [rrel] in Hf; try tauto; cbn [bind].
  - rewrite (mapM_eq pos_pair fl fl' Hf pos_pair_E). reflexivity.
  - congruence.
Qed.

(* ================================================================ callbacks that never consult include_position *)
(* cb_attr, cut into its three stages *)
Definition attr_key (k0 : tv) : res ptok :=
  match k0 with
  | TSeq (TTok t :: _) =>
      do kn <- key_name t;
      if str_eqb kn s_style || str_eqb kn s_symbol then Ok t else vfail
  | TTok t => Ok t
  | _ => vfail
  end.

Definition attr_vtoks (value_tokens0 : list tv) : res (list tv) :=
  match value_tokens0 with
  | [] => vfail
  | TSeq l :: rest => match rest with [] => Ok l | _ => vfail end
  | _ => Ok value_tokens0
  end.

Definition attr_body (key_token : ptok) (kn : str) (value_tokens : list tv) : res tv :=
  do pd <- create_position_dict key_token (Some value_tokens);
  let d0 : titems := [(s_position, TVal pd)] in
  match value_tokens with
  | [] => vfail
  | [vt] =>
      do t <- tok_of vt;
      let d1 := od_set s_tokens (TSeq [TTok key_token; vt]) d0 in
      Ok (TDict DPlain (od_set kn (TVal (clean_top (pk_val t))) d1))
  | a :: b :: rest =>
      if str_eqb kn s_config then
        match rest with
        | [] =>
            do ta <- tok_of a; do tb <- tok_of b;
            do ka <- match pk_val ta with VStr s => Ok s | _ => vfail end;
            Ok (TDict DPlain (od_set kn (TVal (VDict DPlain [(ka, pk_val tb)])) d0))
        | _ => vfail
        end
      else
        do vals <- mapM tv_dot_value value_tokens;
        let d1 := od_set s_tokens (TSeq (TTok key_token :: value_tokens)) d0 in
        Ok (TDict DPlain (od_set kn (TVal (VList vals)) d1))
  end.

Lemma cb_attr_stages tokens :
  cb_attr tokens =
  match tokens with
  | [] => vfail
  | k0 :: vt0 =>
      do key_token <- attr_key k0; do kn <- key_name key_token;
      do vts <- attr_vtoks vt0; attr_body key_token kn vts
  end.
Proof. reflexivity. Qed.

Lemma attr_key_E x y : E x y -> attr_key y = attr_key x.
Proof.
  intros H. destruct x as [v|t|l|c items]; einv; try reflexivity.
  destruct l as [|a l]; einv; [reflexivity|]. destruct a; einv; reflexivity.
Qed.

Lemma attr_vtoks_E xs ys : Forall2 E xs ys -> rrel (Forall2 E) (attr_vtoks xs) (attr_vtoks ys).
Proof.
  intros H. destruct H as [|x y xs ys Hxy H]; [reflexivity|].
  destruct x as [v|t|l|c items]; einv; cbn [attr_vtoks rrel];
    try (constructor; [first [reflexivity|apply E_dict; assumption]|assumption]).
  destruct H; [assumption|reflexivity].
Qed.

Lemma E_dict_set2 c k1 v1 v1' k2 v2 v2' (d d' : titems) :
  SI d = SI d' -> E v1 v1' -> E v2 v2' ->
  E (TDict c (od_set k2 v2 (od_set k1 v1 d))) (TDict c (od_set k2 v2' (od_set k1 v1' d'))).
Proof. intros Hd H1 H2. apply E_dict. apply SI_od_set_E; [apply SI_od_set_E|]; assumption. Qed.

Lemma attr_body_E key kn vts vts' : Forall2 E vts vts' -> ER (attr_body key kn vts) (attr_body key kn vts').
Proof.
  intros H. unfold attr_body. rewrite (create_position_dict_E key vts vts' H).
  destruct (create_position_dict key (Some vts)) as [pd|e]; cbn [bind]; [|reflexivity].
  destruct H as [|a a' vts vts' Ha H]; [reflexivity|].
  destruct H as [|b b' vts vts' Hb H].
  - rewrite (tok_of_E _ _ Ha). destruct (tok_of a) as [t|e]; cbn [bind]; [|reflexivity].
    cbn [ER rrel]. apply E_dict_set2; [reflexivity| |reflexivity].
    apply E_seq. constructor; [reflexivity|]. constructor; [assumption|constructor].
  - destruct (str_eqb kn s_config).
    + destruct H; [|reflexivity].
      rewrite (tok_of_E _ _ Ha), (tok_of_E _ _ Hb). apply ER_refl.
    + assert (HH : Forall2 E (a :: b :: vts) (a' :: b' :: vts')) by (repeat constructor; assumption).
      rewrite (mapM_eq tv_dot_value _ _ HH tv_dot_value_E).
      destruct (mapM tv_dot_value (a :: b :: vts)) as [vals|e]; cbn [bind]; [|reflexivity].
      cbn [ER rrel]. apply E_dict_set2; [reflexivity| |reflexivity].
      apply E_seq. constructor; [reflexivity|exact HH].
Qed.

Lemma cb_attr_E xs ys : Forall2 E xs ys -> ER (cb_attr xs) (cb_attr ys).
Proof.
  intros H. rewrite !cb_attr_stages. destruct H as [|x y xs ys Hxy H]; [reflexivity|].
  rewrite (attr_key_E _ _ Hxy). destruct (attr_key x) as [key|e]; cbn [bind]; [|reflexivity].
  destruct (key_name key) as [kn|e]; cbn [bind]; [|reflexivity].
  eapply rrel_bind; [apply attr_vtoks_E; exact H|]. intros vts vts' Hv. apply attr_body_E. exact Hv.
Qed.

(* check_composite_tokens *)
Definition cct_rel (a b : ptok * list tv) : Prop := fst a = fst b /\ Forall2 E (snd a) (snd b).

Lemma cct_body_E l l' :
  Forall2 E l l' ->
  rrel (Forall2 E)
    (mapM (fun t => match t with
                    | TDict _ items => match assoc s_tokens items with Some x => Ok x | None => vfail end
                    | _ => Ok t
                    end) l)
    (mapM (fun t => match t with
                    | TDict _ items => match assoc s_tokens items with Some x => Ok x | None => vfail end
                    | _ => Ok t
                    end) l').
Proof.
  intros H. eapply rrel_mapM; [exact H|]. intros a a' Ha.
  destruct a as [v|t|l0|c items]; einv; cbn [rrel]; try reflexivity.
  - apply E_seq. assumption.
  - pose proof (SI_assoc_E s_tokens items items' is_pos_tokens HS) as Hx.
    destruct (assoc s_tokens items), (assoc s_tokens items'); cbn [optE] in Hx; try tauto. reflexivity.
Qed.

Lemma check_composite_tokens_E name xs ys :
  Forall2 E xs ys -> rrel cct_rel (check_composite_tokens name xs) (check_composite_tokens name ys).
Proof.
  intros H. unfold check_composite_tokens.
  destruct H as [|k k' xs ys Hk H]; [reflexivity|].
  destruct H as [|r r' xs ys Hr H]; [reflexivity|].
  assert (HH : Forall2 E (r :: xs) (r' :: ys)) by (constructor; assumption).
  rewrite (tok_of_E _ _ Hk). destruct (tok_of k) as [key|e]; cbn [bind]; [|reflexivity].
  destruct (tok_str key) as [ks|e]; cbn [bind]; [|reflexivity].
  pose proof (last_opt_E _ _ HH) as Hl.
  destruct (last_opt (r :: xs)) as [la|], (last_opt (r' :: ys)) as [la'|]; cbn [optE] in Hl; try tauto;
    [|reflexivity].
  rewrite (tok_of_E _ _ Hl). destruct (tok_of la) as [lastt|e]; cbn [bind]; [|reflexivity].
  destruct (tok_str lastt) as [ls|e]; cbn [bind]; [|reflexivity].
  destruct (_ && _); [|reflexivity].
  eapply rrel_bind; [apply cct_body_E; apply removelast_E; exact HH|].
  intros b b' Hb. cbn [rrel]. split; [reflexivity|exact Hb].
Qed.

Lemma cb_config_E xs ys : Forall2 E xs ys -> ER (cb_config xs) (cb_config ys).
Proof.
  intros H. unfold cb_config.
  destruct H as [|k k' xs ys Hk H]; [reflexivity|].
  destruct H as [|a a' xs ys Ha H]; [reflexivity|].
  destruct H as [|b b' xs ys Hb H]; [reflexivity|].
  destruct H as [|c c' xs ys Hc H]; [|reflexivity].
  rewrite (tok_of_E _ _ Ha), (tok_of_E _ _ Hb).
  destruct (tok_of a) as [ta|e]; cbn [bind]; [|reflexivity].
  destruct (tok_of b) as [tb|e]; cbn [bind]; [|reflexivity].
  destruct (tok_str ta) as [ks|e]; cbn [bind]; [|reflexivity].
  apply cb_attr_E. constructor; [exact Hk|]. apply Forall2_E_refl.
Qed.

Lemma cb_projection_E xs ys : Forall2 E xs ys -> ER (cb_projection xs) (cb_projection ys).
Proof.
  intros H. unfold cb_projection.
  eapply rrel_bind; [apply check_composite_tokens_E; exact H|].
  intros [k1 b1] [k2 b2] [Hk Hb]. cbn [fst snd] in Hk, Hb.
  rewrite (mapM_eq (fun v => do x <- tv_dot_value v; Ok (clean_string x)) b1 b2 Hb).
  2:{ intros a a' Ha. rewrite (tv_dot_value_E _ _ Ha). reflexivity. }
  destruct (mapM _ b1) as [strs|e]; cbn [bind]; [|reflexivity].
  destruct H as [|k k' xs ys Hk0 H]; [reflexivity|].
  destruct H as [|v1 v1' xs ys Hv1 H]; [reflexivity|].
  rewrite (tok_of_E _ _ Hv1). destruct (tok_of v1) as [vt|e]; cbn [bind]; [|reflexivity].
  apply cb_attr_E. constructor; [exact Hk0|]. apply Forall2_E_refl.
Qed.

Lemma process_pair_lists_E name xs ys : Forall2 E xs ys -> ER (process_pair_lists name xs) (process_pair_lists name ys).
Proof.
  intros H. unfold process_pair_lists.
  eapply rrel_bind; [apply check_composite_tokens_E; exact H|].
  intros [k1 b1] [k2 b2] [Hk Hb]. cbn [fst snd] in Hk, Hb.
  rewrite (mapM_eq (fun v => do a <- seq_item_value v 0; do b <- seq_item_value v 1; Ok (VList [a; b])) b1 b2 Hb).
  2:{ intros a a' Ha. rewrite !(seq_item_value_E _ _ _ Ha). reflexivity. }
  destruct (mapM _ b1) as [pairs|e]; cbn [bind]; [|reflexivity].
  destruct H as [|k k' xs ys Hk0 H]; [reflexivity|].
  destruct H as [|v1 v1' xs ys Hv1 H]; [reflexivity|].
  destruct v1 as [v|t|l|c items]; einv; try reflexivity.
  destruct l as [|a l]; einv; [reflexivity|]. destruct a; einv; try reflexivity.
  apply cb_attr_E. constructor; [exact Hk0|]. apply Forall2_E_refl.
Qed.

(* expressions: equal results *)
Lemma cb_binary_E xs ys a b c : Forall2 E xs ys -> cb_binary ys a b c = cb_binary xs a b c.
Proof.
  intros H. unfold cb_binary.
  pose proof (fun s => set_first_E xs ys s H) as Hs.
  destruct H as [|x x' xs ys Hx H]; [reflexivity|].
  destruct H as [|y y' xs ys Hy H]; [reflexivity|].
  destruct H as [|z z' xs ys Hz H]; [|reflexivity].
  rewrite (tok_pystr_E _ _ Hx), (tok_pystr_E _ _ Hy).
  destruct (tok_pystr x); cbn [bind]; [|reflexivity].
  destruct (tok_pystr y); cbn [bind]; [|reflexivity]. apply Hs.
Qed.

Lemma cb_comparison_E xs ys : Forall2 E xs ys -> cb_comparison ys = cb_comparison xs.
Proof.
  intros H. unfold cb_comparison.
  pose proof (fun s => set_first_E xs ys s H) as Hs.
  destruct H as [|x x' xs ys Hx H]; [reflexivity|].
  destruct H as [|y y' xs ys Hy H]; [reflexivity|].
  destruct H as [|z z' xs ys Hz H]; [reflexivity|].
  destruct H as [|w w' xs ys Hw H]; [|reflexivity].
  rewrite (tok_pystr_E _ _ Hx), (tok_pystr_E _ _ Hy), (tok_pystr_E _ _ Hz).
  destruct (tok_pystr x); cbn [bind]; [|reflexivity].
  destruct (tok_pystr y); cbn [bind]; [|reflexivity].
  destruct (tok_pystr z); cbn [bind]; [|reflexivity]. apply Hs.
Qed.

Lemma cb_expression_E xs ys : Forall2 E xs ys -> cb_expression ys = cb_expression xs.
Proof.
  intros H. unfold cb_expression. rewrite (mapM_eq tok_pystr xs ys H tok_pystr_E).
  destruct (mapM tok_pystr xs) as [parts|e]; cbn [bind]; [|reflexivity].
  destruct H as [|x x' xs ys Hx H]; [reflexivity|]. destruct x; einv; reflexivity.
Qed.

Lemma cb_prefix_E xs ys p b : Forall2 E xs ys -> cb_prefix ys p b = cb_prefix xs p b.
Proof.
  intros H. unfold cb_prefix.
  pose proof (fun s => set_first_E xs ys s H) as Hs.
  destruct H as [|x x' xs ys Hx H]; [reflexivity|].
  rewrite (tok_pystr_E _ _ Hx).
  destruct H; (destruct (_ && _); [reflexivity|]); (destruct (tok_pystr x); cbn [bind]; [apply Hs|reflexivity]).
Qed.

Lemma cb_func_call_E xs ys : Forall2 E xs ys -> cb_func_call ys = cb_func_call xs.
Proof.
  intros H. unfold cb_func_call.
  destruct H as [|x x' xs ys Hx H]; [reflexivity|].
  destruct H as [|y y' xs ys Hy H]; [destruct x; einv; reflexivity|].
  destruct H as [|z z' xs ys Hz H].
  - destruct x; einv; try reflexivity. destruct y; einv; reflexivity.
  - destruct x; einv; try reflexivity. destruct y as [[]| | |]; einv; reflexivity.
Qed.

Lemma cb_func_params_E xs ys : Forall2 E xs ys -> cb_func_params ys = cb_func_params xs.
Proof. intros H. unfold cb_func_params. rewrite (mapM_eq tok_pystr xs ys H tok_pystr_E). reflexivity. Qed.

Lemma cb_attr_bind_E xs ys : Forall2 E xs ys -> cb_attr_bind ys = cb_attr_bind xs.
Proof.
  intros H. unfold cb_attr_bind.
  destruct H as [|x x' xs ys Hx H]; [reflexivity|].
  destruct H as [|y y' xs ys Hy H]; destruct x; einv; reflexivity.
Qed.

Lemma cb_list_E xs ys : Forall2 E xs ys -> cb_list ys = cb_list xs.
Proof.
  intros H. unfold cb_list.
  pose proof (mapM_eq (fun x => match x with TTok a => Ok (pk_orig a) | _ => vfail end) xs ys H) as Hm.
  rewrite Hm. 2:{ intros a a' Ha. destruct a; einv; reflexivity. }
  destruct H as [|x x' xs ys Hx H]; [reflexivity|]. destruct x; einv; reflexivity.
Qed.

Lemma cb_first_E xs ys : Forall2 E xs ys -> ER (cb_first xs) (cb_first ys).
Proof. intros H. destruct H; [reflexivity|]. cbn. assumption. Qed.

Lemma cb_int_E xs ys : Forall2 E xs ys -> cb_int ys = cb_int xs.
Proof. intros H. unfold cb_int. rewrite (first_tok_E _ _ H). reflexivity. Qed.
Lemma cb_float_E xs ys : Forall2 E xs ys -> cb_float ys = cb_float xs.
Proof. intros H. unfold cb_float. rewrite (first_tok_E _ _ H). reflexivity. Qed.
Lemma cb_bool_E b xs ys : Forall2 E xs ys -> cb_bool b ys = cb_bool b xs.
Proof. intros H. unfold cb_bool. rewrite (first_tok_E _ _ H). reflexivity. Qed.
Lemma cb_hexcolor_E xs ys : Forall2 E xs ys -> cb_hexcolor ys = cb_hexcolor xs.
Proof. intros H. unfold cb_hexcolor. rewrite (first_tok_E _ _ H). reflexivity. Qed.

Lemma Forall2_length_E xs ys : Forall2 E xs ys -> length ys = length xs.
Proof. induction 1; cbn [length]; congruence. Qed.

Lemma cb_len_E n xs ys : Forall2 E xs ys -> ER (cb_len n xs) (cb_len n ys).
Proof.
  intros H. unfold cb_len. rewrite (Forall2_length_E _ _ H).
  destruct (Nat.eqb _ _); [|reflexivity]. cbn. apply E_seq. exact H.
Qed.

Lemma cb_start_E xs ys : Forall2 E xs ys -> ER (cb_start xs) (cb_start ys).
Proof.
  intros H. unfold cb_start.
  assert (HS : E (TSeq xs) (TSeq ys)) by (apply E_seq; exact H).
  destruct H as [|x x' xs ys Hx H]; [exact HS|]. destruct H; [exact Hx|exact HS].
Qed.

(* ================================================================ composite: the fold over attribute dicts *)
(* the state relation: dict related, comments equal, position component ignored *)
Definition SR (st st' : cstate) : Prop :=
  SI (cs_dict st) = SI (cs_dict st') /\ cs_comments st = cs_comments st'.

Lemma tv_list_append_E x x' e e' : E x x' -> E e e' -> ER (tv_list_append x e) (tv_list_append x' e').
Proof.
  intros Hx He. destruct x as [v|t|l|c items]; einv; try reflexivity.
  - destruct v; try reflexivity. destruct e; einv; cbn [tv_list_append ER rrel].
    + reflexivity.
    + apply E_seq. apply Forall2_app_E; [apply Forall2_E_refl|]. repeat constructor.
    + apply E_seq. apply Forall2_app_E; [apply Forall2_E_refl|]. constructor; [apply E_seq; assumption|constructor].
    + apply E_seq. apply Forall2_app_E; [apply Forall2_E_refl|]. constructor; [apply E_dict; assumption|constructor].
  - cbn [tv_list_append ER rrel]. apply E_seq. apply Forall2_app_E; [assumption|]. constructor; [assumption|constructor].
Qed.

Lemma lower_position : lower s_position = s_position.
Proof. vm_compute. reflexivity. Qed.
Lemma lower_type : lower s_type = s_type.
Proof. vm_compute. reflexivity. Qed.
Lemma lower_config : lower s_config = s_config.
Proof. vm_compute. reflexivity. Qed.
Lemma lower_points : lower s_points = s_points.
Proof. vm_compute. reflexivity. Qed.

(* process_config, as seen from cs_dict / cs_comments *)
Definition cfg_cur (d : titems) : titems :=
  match ci_get s_config d with Some (TDict _ items) => items | _ => [] end.
Definition cfg_fold (cfg : list (str * value)) (cur : titems) : titems :=
  fold_left (fun d kv => ci_set (fst kv) (TVal (snd kv)) d) cfg cur.

Lemma process_config_inv st a pos s :
  process_config st a pos = Ok s ->
  exists c cfg, assoc s_config a = Some (TVal (VDict c cfg)) /\
    cs_dict s = ci_set s_config (TDict (DCI true) (cfg_fold cfg (cfg_cur (cs_dict st)))) (cs_dict st) /\
    cs_comments s = cs_comments st.
Proof.
  unfold process_config. intros H.
  destruct (assoc s_config a) as [[[| | | | | |c cfg]| | |]|]; try discriminate.
  exists c, cfg. split; [reflexivity|].
  match type of H with bind ?r _ = _ => destruct r as [p'|e] end; cbn [bind] in H; [|discriminate].
  injection H as <-. cbn [cs_dict cs_comments]. split; reflexivity.
Qed.

Lemma cfg_cur_E d d' : SI d = SI d' -> SI (cfg_cur d) = SI (cfg_cur d').
Proof.
  intros H. unfold cfg_cur, ci_get. rewrite lower_config.
  pose proof (SI_assoc_E s_config d d' is_pos_config H) as Ha.
  destruct (assoc s_config d) as [x|], (assoc s_config d') as [x'|]; cbn [optE] in Ha; try contradiction; [|reflexivity].
  destruct x; einv; try reflexivity. assumption.
Qed.

Lemma cfg_fold_E cfg : forall cur cur', SI cur = SI cur' -> SI (cfg_fold cfg cur) = SI (cfg_fold cfg cur').
Proof.
  induction cfg as [|kv cfg IH]; intros cur cur' H; cbn [cfg_fold fold_left]; [exact H|].
  apply IH. unfold ci_set. apply SI_od_set_E; [exact H|reflexivity].
Qed.

Lemma process_config_E st st' a a' pos pos' s s' :
  SR st st' -> SI a = SI a' ->
  process_config st a pos = Ok s -> process_config st' a' pos' = Ok s' -> SR s s'.
Proof.
  intros [Hd Hc] Ha H1 H2.
  apply process_config_inv in H1. destruct H1 as (c & cfg & A1 & D1 & C1).
  apply process_config_inv in H2. destruct H2 as (c' & cfg' & A2 & D2 & C2).
  pose proof (SI_assoc_E s_config a a' is_pos_config Ha) as Hx. rewrite A1, A2 in Hx. cbn [optE] in Hx.
  apply E_val_l in Hx. injection Hx as -> ->.
  split; [|congruence]. rewrite D1, D2. unfold ci_set. apply SI_od_set_E; [exact Hd|].
  apply E_dict. apply cfg_fold_E. apply cfg_cur_E. exact Hd.
Qed.

(* process_points *)
Definition points_new (d : titems) (newv : value) : res titems :=
  match ci_get s_points d with
  | None => Ok (ci_set s_points (TVal newv) d)
  | Some (TVal existing) =>
      do dep <- calculate_depth existing;
      let base := if (dep =? 2)%Z then VList [existing] else existing in
      match base with
      | VList l => Ok (ci_set s_points (TVal (VList (l ++ [newv]))) d)
      | _ => vfail
      end
  | Some _ => vfail
  end.

Lemma process_points_inv st a pos s :
  process_points st a pos = Ok s ->
  exists newv, assoc s_points a = Some (TVal newv) /\
    points_new (cs_dict st) newv = Ok (cs_dict s) /\ cs_comments s = cs_comments st.
Proof.
  unfold process_points. intros H.
  destruct (assoc s_points a) as [[newv| | |]|]; try discriminate.
  exists newv. split; [reflexivity|].
  fold (points_new (cs_dict st) newv) in H.
  destruct (points_new (cs_dict st) newv) as [d'|e]; cbn [bind] in H; [|discriminate].
  injection H as <-. cbn [cs_dict cs_comments]. split; reflexivity.
Qed.

Lemma points_new_E d d' newv r r' :
  SI d = SI d' -> points_new d newv = Ok r -> points_new d' newv = Ok r' -> SI r = SI r'.
Proof.
  intros H H1 H2. unfold points_new, ci_get in H1, H2. rewrite lower_points in H1, H2.
  pose proof (SI_assoc_E s_points d d' is_pos_points H) as Ha.
  destruct (assoc s_points d) as [x|], (assoc s_points d') as [x'|]; cbn [optE] in Ha; try contradiction.
  - destruct x as [ex| | |]; try discriminate. einv.
    destruct (calculate_depth ex) as [dep|e]; cbn [bind] in H1, H2; [|discriminate].
    destruct (if (dep =? 2)%Z then VList [ex] else ex); try discriminate.
    injection H1 as <-. injection H2 as <-. unfold ci_set. apply SI_od_set_E; [exact H|reflexivity].
  - injection H1 as <-. injection H2 as <-. unfold ci_set. apply SI_od_set_E; [exact H|reflexivity].
Qed.

Lemma process_points_E st st' a a' pos pos' s s' :
  SR st st' -> SI a = SI a' ->
  process_points st a pos = Ok s -> process_points st' a' pos' = Ok s' -> SR s s'.
Proof.
  intros [Hd Hc] Ha H1 H2.
  apply process_points_inv in H1. destruct H1 as (nv & A1 & D1 & C1).
  apply process_points_inv in H2. destruct H2 as (nv' & A2 & D2 & C2).
  pose proof (SI_assoc_E s_points a a' is_pos_points Ha) as Hx. rewrite A1, A2 in Hx. cbn [optE] in Hx.
  apply E_val_l in Hx. injection Hx as ->.
  split; [|congruence]. eapply points_new_E; [exact Hd|exact D1|exact D2].
Qed.

(* composite_item, cut into its typed and untyped branches *)
Definition ci_typed (st : cstate) (d : tv) (ty : tv) : res cstate :=
  do k <- match ty with TVal (VStr k) => Ok k | _ => vfail end;
  if mem_str k SINGLETON_COMPOSITE_NAMES then
    Ok (mk_cs (ci_set k d (cs_dict st)) (cs_pos st) (cs_comments st))
  else
    let pk := plural k in
    let cur := match ci_get pk (cs_dict st) with Some x => x | None => TSeq [] end in
    do cur' <- tv_list_append cur d;
    Ok (mk_cs (ci_set pk cur' (cs_dict st)) (cs_pos st) (cs_comments st)).

Definition cm_new (ic : bool) (comments : option tv) (kn : str) (cm : list (str * value)) : list (str * value) :=
  match comments with
  | Some (TVal ((VList (_ :: _)) as cv)) => if ic then od_set kn cv cm else cm
  | _ => cm
  end.

Definition ci_untyped (ic : bool) (st : cstate) (pos : value) (comments : option tv) (items2 : titems) : res cstate :=
  match items2 with
  | [(kn, v)] =>
      if str_eqb kn s_config then process_config st items2 pos
      else if str_eqb kn s_points then process_points st items2 pos
      else if mem_str kn REPEATED_KEYS then
        let cur := match ci_get kn (cs_dict st) with Some x => x | None => TSeq [] end in
        do cur' <- tv_list_append cur v;
        let p' := match cs_pos st with
                  | Some pitems =>
                      let curp := match assoc kn pitems with Some (VList l) => l | _ => [] end in
                      Some (od_set kn (VList (curp ++ [pos])) pitems)
                  | None => None
                  end in
        Ok (mk_cs (ci_set kn cur' (cs_dict st)) p' (cs_comments st))
      else
        let p' := match cs_pos st with
                  | Some pitems => Some (od_set kn pos pitems)
                  | None => None
                  end in
        Ok (mk_cs (ci_set kn v (cs_dict st)) p' (cm_new ic comments kn (cs_comments st)))
  | _ => vfail
  end.

Definition items1_of (items : titems) : titems := od_del s_tokens (od_del s_position items).
Definition items2_of (items : titems) : titems := od_del s_comments (items1_of items).

Lemma composite_item_stages ic st d :
  composite_item ic st d =
  match d with
  | TDict c items =>
      match assoc s_type items with
      | Some ty => ci_typed st d ty
      | None =>
          do pos <- match assoc s_position items with Some (TVal p) => Ok p | _ => vfail end;
          ci_untyped ic st pos (assoc s_comments (items1_of items)) (items2_of items)
      end
  | _ => vfail
  end.
Proof. destruct d; reflexivity. Qed.

Lemma SI_items1 items items' : SI items = SI items' -> SI (items1_of items) = SI (items1_of items').
Proof.
  intros H. unfold items1_of. rewrite !(SI_od_del s_tokens) by reflexivity.
  rewrite !(SI_od_del_pos s_position) by reflexivity. rewrite H. reflexivity.
Qed.

Lemma SI_items2 items items' : SI items = SI items' -> SI (items2_of items) = SI (items2_of items').
Proof.
  intros H. unfold items2_of. rewrite !(SI_od_del s_comments) by reflexivity.
  rewrite (SI_items1 _ _ H). reflexivity.
Qed.

Lemma ci_get_E k d d' : is_pos (lower k) = false -> SI d = SI d' ->
  E (match ci_get k d with Some x => x | None => TSeq [] end)
    (match ci_get k d' with Some x => x | None => TSeq [] end).
Proof.
  intros Hk H. unfold ci_get. pose proof (SI_assoc_E (lower k) d d' Hk H) as Ha.
  destruct (assoc (lower k) d), (assoc (lower k) d'); cbn [optE] in Ha; try contradiction; [exact Ha|reflexivity].
Qed.

(* appending to the list stored under key k (object lists, repeated keys) *)
Lemma append_under_E k (d d' : titems) v v' cur1 cur1' :
  SI d = SI d' -> E v v' ->
  tv_list_append (match ci_get k d with Some x => x | None => TSeq [] end) v = Ok cur1 ->
  tv_list_append (match ci_get k d' with Some x => x | None => TSeq [] end) v' = Ok cur1' ->
  SI (ci_set k cur1 d) = SI (ci_set k cur1' d').
Proof.
  intros H Hv H1 H2. unfold ci_set. destruct (is_pos (lower k)) eqn:Ek.
  - apply SI_od_set_posE; assumption.
  - apply SI_od_set_E; [exact H|].
    pose proof (tv_list_append_E _ _ _ _ (ci_get_E k d d' Ek H) Hv) as Hr.
    rewrite H1, H2 in Hr. exact Hr.
Qed.

Lemma ci_typed_E st st' d d' ty ty' s s' :
  SR st st' -> E d d' -> E ty ty' ->
  ci_typed st d ty = Ok s -> ci_typed st' d' ty' = Ok s' -> SR s s'.
Proof.
  intros [Hd Hc] He Ht H1 H2. unfold ci_typed in H1, H2.
  destruct ty as [[| | | |k| |]| | |]; try discriminate. einv. cbn [bind] in H1, H2.
  destruct (mem_str k SINGLETON_COMPOSITE_NAMES).
  - injection H1 as <-. injection H2 as <-. split; cbn [cs_dict cs_comments]; [|exact Hc].
    unfold ci_set. apply SI_od_set_E; assumption.
  - cbv zeta in H1, H2.
    destruct (tv_list_append _ d) as [c1|e] eqn:A1; cbn [bind] in H1; [|discriminate].
    destruct (tv_list_append _ d') as [c1'|e] eqn:A2; cbn [bind] in H2; [|discriminate].
    injection H1 as <-. injection H2 as <-. split; cbn [cs_dict cs_comments]; [|exact Hc].
    eapply append_under_E; eassumption.
Qed.

Lemma cm_new_E ic cm cm' kn c : optE cm cm' -> cm_new ic cm' kn c = cm_new ic cm kn c.
Proof.
  intros H. destruct cm as [x|], cm' as [x'|]; cbn [optE] in H; try contradiction; [|reflexivity].
  destruct x; einv; reflexivity.
Qed.

Lemma ci_untyped_E ic st st' pos pos' cm cm' i2 i2' s s' :
  SR st st' -> SI i2 = SI i2' -> optE cm cm' ->
  ci_untyped ic st pos cm i2 = Ok s -> ci_untyped ic st' pos' cm' i2' = Ok s' -> SR s s'.
Proof.
  intros HSR Hi Hcm H1 H2.
  destruct i2 as [|[kn v] [|? ?]]; try discriminate.
  destruct i2' as [|[kn' v'] [|? ?]]; try discriminate.
  assert (Hkv : (is_pos kn = true /\ kn' = kn) \/ (is_pos kn = false /\ kn' = kn /\ E v v')).
  { cbn [strip_with] in Hi. destruct (is_pos kn) eqn:E1, (is_pos kn') eqn:E2; try discriminate.
    - left. split; [reflexivity|]. apply is_pos_eq in E1, E2. congruence.
    - right. injection Hi as -> Hv. auto. }
  unfold ci_untyped in H1, H2.
  destruct Hkv as [[Ep ->]|[Ep [-> Hv]]].
  - apply is_pos_eq in Ep. subst kn.
    change (str_eqb s_position s_config) with false in H1, H2.
    change (str_eqb s_position s_points) with false in H1, H2.
    change (mem_str s_position REPEATED_KEYS) with false in H1, H2. cbv iota zeta in H1, H2.
    injection H1 as <-. injection H2 as <-. destruct HSR as [Hd Hc].
    split; cbn [cs_dict cs_comments].
    + unfold ci_set. apply SI_od_set_posE; [rewrite lower_position; reflexivity|exact Hd].
    + rewrite (cm_new_E ic cm cm' _ _ Hcm), Hc. reflexivity.
  - destruct (str_eqb kn s_config); [eapply process_config_E; eassumption|].
    destruct (str_eqb kn s_points); [eapply process_points_E; eassumption|].
    destruct HSR as [Hd Hc].
    destruct (mem_str kn REPEATED_KEYS).
    + cbv zeta in H1, H2.
      destruct (tv_list_append _ v) as [c1|e] eqn:A1; cbn [bind] in H1; [|discriminate].
      destruct (tv_list_append _ v') as [c1'|e] eqn:A2; cbn [bind] in H2; [|discriminate].
      injection H1 as <-. injection H2 as <-. split; cbn [cs_dict cs_comments]; [|exact Hc].
      eapply append_under_E; eassumption.
    + cbv zeta in H1, H2. injection H1 as <-. injection H2 as <-. split; cbn [cs_dict cs_comments].
      * unfold ci_set. apply SI_od_set_E; assumption.
      * rewrite (cm_new_E ic cm cm' _ _ Hcm), Hc. reflexivity.
Qed.

Lemma composite_item_E ic st st' d d' s s' :
  SR st st' -> E d d' ->
  composite_item ic st d = Ok s -> composite_item ic st' d' = Ok s' -> SR s s'.
Proof.
  intros HSR He H1 H2. rewrite composite_item_stages in H1, H2.
  destruct d as [| | |c items]; try discriminate. einv.
  pose proof (SI_assoc_E s_type items items' is_pos_type HS) as Ht.
  destruct (assoc s_type items) as [ty|], (assoc s_type items') as [ty'|]; cbn [optE] in Ht; try contradiction.
  - eapply ci_typed_E; [exact HSR|apply E_dict; exact HS|exact Ht|exact H1|exact H2].
  - destruct (assoc s_position items) as [[p| | |]|]; try discriminate.
    destruct (assoc s_position items') as [[p'| | |]|]; try discriminate. cbn [bind] in H1, H2.
    eapply ci_untyped_E; [exact HSR|apply SI_items2; exact HS| |exact H1|exact H2].
    apply SI_assoc_E; [reflexivity|apply SI_items1; exact HS].
Qed.

(* the first key of cs_dict (always __type__) is never disturbed *)
Definition hk (l : titems) : option str := match l with (k, _) :: _ => Some k | [] => None end.

Lemma hk_od_set k v (l : titems) k0 : hk l = Some k0 -> hk (od_set k v l) = Some k0.
Proof.
  destruct l as [|[k1 v1] l]; [discriminate|]. cbn [hk]. intros [= ->].
  unfold od_set. destruct (od_mem k ((k0, v1) :: l)); [|reflexivity].
  cbn [od_replace]. destruct (str_eqb k k0); reflexivity.
Qed.

Lemma hk_ci_set k v (l : titems) k0 : hk l = Some k0 -> hk (ci_set k v l) = Some k0.
Proof. apply hk_od_set. Qed.

Lemma points_new_hk d nv r k0 : points_new d nv = Ok r -> hk d = Some k0 -> hk r = Some k0.
Proof.
  unfold points_new. intros H Hk.
  destruct (ci_get s_points d) as [[ex| | |]|]; try discriminate.
  - destruct (calculate_depth ex) as [dep|e]; cbn [bind] in H; [|discriminate].
    destruct (if (dep =? 2)%Z then VList [ex] else ex); try discriminate.
    injection H as <-. apply hk_ci_set. exact Hk.
  - injection H as <-. apply hk_ci_set. exact Hk.
Qed.

Lemma ci_typed_hk st d ty s k0 : ci_typed st d ty = Ok s -> hk (cs_dict st) = Some k0 -> hk (cs_dict s) = Some k0.
Proof.
  unfold ci_typed. intros H Hk.
  destruct ty as [[| | | |k| |]| | |]; try discriminate. cbn [bind] in H.
  destruct (mem_str k SINGLETON_COMPOSITE_NAMES).
  - injection H as <-. apply hk_ci_set. exact Hk.
  - cbv zeta in H. destruct (tv_list_append _ d) as [c1|e]; cbn [bind] in H; [|discriminate].
    injection H as <-. apply hk_ci_set. exact Hk.
Qed.

Lemma ci_untyped_hk ic st pos cm i2 s k0 :
  ci_untyped ic st pos cm i2 = Ok s -> hk (cs_dict st) = Some k0 -> hk (cs_dict s) = Some k0.
Proof.
  unfold ci_untyped. intros H Hk.
  destruct i2 as [|[kn v] [|? ?]]; try discriminate.
  destruct (str_eqb kn s_config).
  { apply process_config_inv in H. destruct H as (c & cfg & _ & -> & _). apply hk_ci_set. exact Hk. }
  destruct (str_eqb kn s_points).
  { apply process_points_inv in H. destruct H as (nv & _ & D & _). eapply points_new_hk; eassumption. }
  destruct (mem_str kn REPEATED_KEYS).
  - cbv zeta in H. destruct (tv_list_append _ v) as [c1|e]; cbn [bind] in H; [|discriminate].
    injection H as <-. apply hk_ci_set. exact Hk.
  - cbv zeta in H. injection H as <-. apply hk_ci_set. exact Hk.
Qed.

Lemma composite_item_hk ic st d s k0 :
  composite_item ic st d = Ok s -> hk (cs_dict st) = Some k0 -> hk (cs_dict s) = Some k0.
Proof.
  rewrite composite_item_stages. intros H Hk.
  destruct d as [| | |c items]; try discriminate.
  destruct (assoc s_type items) as [ty|]; [eapply ci_typed_hk; eassumption|].
  destruct (assoc s_position items) as [[p| | |]|]; try discriminate. cbn [bind] in H.
  eapply ci_untyped_hk; eassumption.
Qed.

(* cb_composite, cut into stages *)
Definition comp_step (ic : bool) (acc : res cstate) (d : tv) : res cstate :=
  do st <- acc; composite_item ic st d.

Definition comp_fold (ic : bool) (attrs : list tv) (init : res cstate) : res cstate :=
  fold_left (comp_step ic) attrs init.

Definition comp_finish (ic : bool) (st : cstate) : res tv :=
  let with_pos := match cs_pos st with
                  | Some p => [(s_position, TVal (VDict DPlain p))]
                  | None => []
                  end in
  let with_cm := if ic then [(s_comments, TVal (VDict DPlain (cs_comments st)))] else [] in
  match cs_dict st with
  | ty :: rest => Ok (TDict (DCI true) (ty :: with_pos ++ with_cm ++ rest))
  | [] => vfail
  end.

Definition attrs_of (second : tv) : list tv := match second with TSeq l => l | other => [other] end.

Definition comp_pd (ip : bool) (key_token : ptok) : res (option value) :=
  if ip then do p <- create_position_dict key_token None; Ok (Some p) else Ok None.

Definition comp_init (kn : str) (pd : option value) : cstate :=
  mk_cs (ci_set s_type (TVal (VStr kn)) []) (pos_get pd) [].

Definition comp_main (ip ic : bool) (key_token : ptok) (second : tv) : res tv :=
  do kn <- key_name key_token;
  do pd <- comp_pd ip key_token;
  do st <- comp_fold ic (attrs_of second) (Ok (comp_init kn pd));
  comp_finish ic st.

Lemma cb_composite_stages ip ic t :
  cb_composite ip ic t =
  match t with
  | [] => vfail
  | [x] => Ok x
  | a :: second :: _ =>
      match a with
      | TSeq (TTok key_token :: _) => comp_main ip ic key_token second
      | _ => vfail
      end
  end.
Proof.
  destruct t as [|a [|b r]]; try reflexivity.
  destruct a as [| |[|[| | |] ?]|]; reflexivity.
Qed.

Lemma comp_fold_err ic l e : comp_fold ic l (Err e) = Err e.
Proof. induction l as [|d l IH]; [reflexivity|]. exact IH. Qed.

Lemma comp_fold_E ic l l' : Forall2 E l l' -> forall st st' s s',
  SR st st' -> comp_fold ic l (Ok st) = Ok s -> comp_fold ic l' (Ok st') = Ok s' -> SR s s'.
Proof.
  induction 1 as [|d d' l l' Hd _ IH]; intros st st' s s' HSR H1 H2.
  - cbn in H1, H2. injection H1 as <-. injection H2 as <-. exact HSR.
  - cbn [comp_fold fold_left comp_step bind] in H1, H2.
    destruct (composite_item ic st d) as [s1|e] eqn:E1; [|fold (comp_fold ic l (Err e)) in H1; rewrite comp_fold_err in H1; discriminate].
    destruct (composite_item ic st' d') as [s1'|e] eqn:E2; [|fold (comp_fold ic l' (Err e)) in H2; rewrite comp_fold_err in H2; discriminate].
    eapply IH; [|exact H1|exact H2]. eapply composite_item_E; eassumption.
Qed.

Lemma comp_fold_hk ic l k0 : forall st s,
  comp_fold ic l (Ok st) = Ok s -> hk (cs_dict st) = Some k0 -> hk (cs_dict s) = Some k0.
Proof.
  induction l as [|d l IH]; intros st s H Hk.
  - cbn in H. injection H as <-. exact Hk.
  - cbn [comp_fold fold_left comp_step bind] in H.
    destruct (composite_item ic st d) as [s1|e] eqn:E1; [|fold (comp_fold ic l (Err e)) in H; rewrite comp_fold_err in H; discriminate].
    eapply IH; [exact H|]. eapply composite_item_hk; eassumption.
Qed.

Lemma attrs_of_E x y : E x y -> Forall2 E (attrs_of x) (attrs_of y).
Proof.
  intros H. destruct x as [v|t|l|c items]; einv; cbn [attrs_of]; try assumption.
  - repeat constructor.
  - repeat constructor.
  - constructor; [apply E_dict; assumption|constructor].
Qed.

Lemma comp_finish_E ic st st' x y :
  SR st st' -> hk (cs_dict st) = Some s_type -> hk (cs_dict st') = Some s_type ->
  comp_finish ic st = Ok x -> comp_finish ic st' = Ok y -> E x y.
Proof.
  intros [Hd Hc] K1 K2 H1 H2. unfold comp_finish in H1, H2. cbv zeta in H1, H2.
  destruct (cs_dict st) as [|[k1 v1] r1]; [discriminate|].
  destruct (cs_dict st') as [|[k2 v2] r2]; [discriminate|].
  cbn [hk] in K1, K2. injection K1 as ->. injection K2 as ->.
  injection H1 as <-. injection H2 as <-.
  rewrite !SI_cons_nonpos in Hd by reflexivity. injection Hd as Hv Hr.
  apply E_dict. rewrite !SI_cons_nonpos by reflexivity. rewrite !SI_app, Hv, Hr, Hc.
  assert (P1 : forall o : option (list (str * value)),
             SI (match o with Some p => [(s_position, TVal (VDict DPlain p))] | None => [] end) = []).
  { intros [p|]; reflexivity. }
  rewrite !P1. reflexivity.
Qed.

Lemma comp_main_E ip ip' ic key second second' x y :
  E second second' -> comp_main ip ic key second = Ok x -> comp_main ip' ic key second' = Ok y -> E x y.
Proof.
  intros Hs H1 H2. unfold comp_main in H1, H2.
  destruct (key_name key) as [kn|e]; cbn [bind] in H1, H2; [|discriminate].
  destruct (comp_pd ip key) as [pd|e]; cbn [bind] in H1; [|discriminate].
  destruct (comp_pd ip' key) as [pd'|e]; cbn [bind] in H2; [|discriminate].
  destruct (comp_fold ic (attrs_of second) _) as [st|e] eqn:F1; cbn [bind] in H1; [|discriminate].
  destruct (comp_fold ic (attrs_of second') _) as [st'|e] eqn:F2; cbn [bind] in H2; [|discriminate].
  assert (K0 : forall p, hk (cs_dict (comp_init kn p)) = Some s_type).
  { intros p. cbn [comp_init cs_dict]. unfold ci_set. rewrite lower_type. reflexivity. }
  eapply comp_finish_E; [| | |exact H1|exact H2].
  - eapply comp_fold_E; [apply attrs_of_E; exact Hs| |exact F1|exact F2]. split; reflexivity.
  - eapply comp_fold_hk; [exact F1|apply K0].
  - eapply comp_fold_hk; [exact F2|apply K0].
Qed.

Lemma cb_composite_E ip ip' ic xs ys x y :
  Forall2 E xs ys -> cb_composite ip ic xs = Ok x -> cb_composite ip' ic ys = Ok y -> E x y.
Proof.
  intros H H1 H2. rewrite cb_composite_stages in H1, H2.
  destruct H as [|a a' xs ys Ha H]; [discriminate|].
  destruct H as [|b b' xs ys Hb H].
  - injection H1 as <-. injection H2 as <-. exact Ha.
  - destruct a as [| |l|]; try discriminate. einv.
    destruct l as [|k l]; [discriminate|]. einv. destruct k as [|key| |]; try discriminate. einv.
    eapply comp_main_E; eassumption.
Qed.

(* ================================================================ key-value blocks *)
Definition pvp_step (acc : res titems) (t : tv) : res titems :=
  do d <- acc;
  do kv <- seq_item_value t 0; do vv <- seq_item_value t 1;
  do ks <- value_as_str (clean_top kv);
  Ok (ci_set (lower ks) (TVal (clean_top vv)) d).

Definition pvp_pos (ip : bool) (key : ptok) (body : list tv) (d : titems) : res titems :=
  if ip then do pd <- create_position_dict key (Some body); Ok (ci_set s_position (TVal pd) d) else Ok d.

Lemma process_value_pairs_stages ip tokens type_ :
  process_value_pairs ip tokens type_ =
  (do kb <- check_composite_tokens type_ tokens;
   do kn <- key_name (fst kb);
   do d <- fold_left pvp_step (snd kb) (Ok []);
   do d1 <- pvp_pos ip (fst kb) (snd kb) d;
   Ok (TDict (DCI true) (ci_set s_type (TVal (VStr kn)) d1))).
Proof.
  unfold process_value_pairs. destruct (check_composite_tokens type_ tokens) as [[key body]|e]; reflexivity.
Qed.

Lemma pvp_fold_E b b' : Forall2 E b b' -> forall acc, fold_left pvp_step b' acc = fold_left pvp_step b acc.
Proof.
  induction 1 as [|t t' b b' Ht _ IH]; intros acc; [reflexivity|].
  cbn [fold_left]. rewrite IH. f_equal. unfold pvp_step. rewrite !(seq_item_value_E _ _ _ Ht). reflexivity.
Qed.

Lemma pvp_pos_SI ip key body d d1 : pvp_pos ip key body d = Ok d1 -> SI d1 = SI d.
Proof.
  unfold pvp_pos. destruct ip.
  - destruct (create_position_dict key (Some body)) as [pd|e]; cbn [bind]; [|discriminate].
    intros [= <-]. unfold ci_set. apply SI_od_set_pos. rewrite lower_position. reflexivity.
  - intros [= <-]. reflexivity.
Qed.

Lemma process_value_pairs_E ip ip' ty xs ys x y :
  Forall2 E xs ys -> process_value_pairs ip xs ty = Ok x -> process_value_pairs ip' ys ty = Ok y -> E x y.
Proof.
  intros H H1 H2. rewrite process_value_pairs_stages in H1, H2.
  pose proof (check_composite_tokens_E ty xs ys H) as Hc.
  destruct (check_composite_tokens ty xs) as [[key body]|e]; cbn [bind] in H1; [|discriminate].
  destruct (check_composite_tokens ty ys) as [[key' body']|e]; cbn [bind] in H2; [|discriminate].
  cbn [rrel] in Hc. destruct Hc as [Hk Hb]. cbn [fst snd] in *. subst key'.
  destruct (key_name key) as [kn|e]; cbn [bind] in H1, H2; [|discriminate].
  rewrite (pvp_fold_E _ _ Hb) in H2.
  destruct (fold_left pvp_step body (Ok [])) as [d|e]; cbn [bind] in H1, H2; [|discriminate].
  destruct (pvp_pos ip key body d) as [d1|e] eqn:P1; cbn [bind] in H1; [|discriminate].
  destruct (pvp_pos ip' key body' d) as [d1'|e] eqn:P2; cbn [bind] in H2; [|discriminate].
  injection H1 as <-. injection H2 as <-. apply E_dict. unfold ci_set.
  apply SI_od_set_E; [|reflexivity].
  rewrite (pvp_pos_SI _ _ _ _ _ P1), (pvp_pos_SI _ _ _ _ _ P2). reflexivity.
Qed.

(* ================================================================ every callback *)
Lemma callback_E ip ip' ic d xs ys x y :
  Forall2 E xs ys -> callback ip ic d xs = Ok x -> callback ip' ic d ys = Ok y -> E x y.
Proof.
  intros H H1 H2.
  assert (G : forall f, (ER (f xs) (f ys)) -> f xs = Ok x -> f ys = Ok y -> E x y).
  { intros f HR A B. rewrite A, B in HR. exact HR. }
  assert (G2 : forall f, f ys = f xs -> f xs = Ok x -> f ys = Ok y -> E x y).
  { intros f HR A B. rewrite HR, A in B. injection B as <-. reflexivity. }
  unfold callback in H1, H2.
  repeat match type of H1 with
         | (if ?c then _ else _) = _ => destruct c
         end.
  all: try discriminate.
  all: try (eapply cb_composite_E; eassumption).
  all: try (eapply process_value_pairs_E; eassumption).
  all: try (revert H1 H2; first
    [ apply (G cb_start), cb_start_E, H
    | apply (G cb_attr), cb_attr_E, H
    | apply (G cb_projection), cb_projection_E, H
    | apply (G cb_config), cb_config_E, H
    | apply (G (process_pair_lists _)), process_pair_lists_E, H
    | apply (G cb_first), cb_first_E, H
    | apply (G (cb_len _)), cb_len_E, H
    | apply (G2 cb_comparison), cb_comparison_E, H
    | apply (G2 (fun t => cb_binary t _ _ _)), cb_binary_E, H
    | apply (G2 (fun t => cb_prefix t _ _)), cb_prefix_E, H
    | apply (G2 cb_expression), cb_expression_E, H
    | apply (G2 cb_func_call), cb_func_call_E, H
    | apply (G2 cb_func_params), cb_func_params_E, H
    | apply (G2 cb_attr_bind), cb_attr_bind_E, H
    | apply (G2 (cb_bool _)), cb_bool_E, H
    | apply (G2 cb_int), cb_int_E, H
    | apply (G2 cb_float), cb_float_E, H
    | apply (G2 cb_hexcolor), cb_hexcolor_E, H
    | apply (G2 cb_list), cb_list_E, H ]).
  all: injection H1 as <-; injection H2 as <-; apply E_seq; exact H.
Qed.

(* ================================================================ the driver *)
(* trees related: same shape, tokens and meta; already-transformed children
   (GVal, left behind by the comments pass) related by E *)
Fixpoint Grel (g g' : gtree) {struct g} : Prop :=
  match g, g' with
  | GTok t, GTok t' => t = t'
  | GVal v, GVal v' => E v v'
  | GNode d cs m, GNode d' cs' m' =>
      d = d' /\ m = m' /\
      (fix go (l l' : list gtree) {struct l} : Prop :=
         match l, l' with
         | [], [] => True
         | c :: l1, c' :: l1' => Grel c c' /\ go l1 l1'
         | _, _ => False
         end) cs cs'
  | _, _ => False
  end.

Definition Grel_list : list gtree -> list gtree -> Prop :=
  fix go (l l' : list gtree) {struct l} : Prop :=
    match l, l' with
    | [] , [] => True
    | c :: l1, c' :: l1' => Grel c c' /\ go l1 l1'
    | _, _ => False
    end.

Lemma Grel_node d cs m d' cs' m' :
  Grel (GNode d cs m) (GNode d' cs' m') = (d = d' /\ m = m' /\ Grel_list cs cs').
Proof. reflexivity. Qed.

Lemma Grel_refl : forall g, Grel g g.
Proof.
  fix IH 1. intros [t|d cs m|v]; [reflexivity| |apply E_refl].
  rewrite Grel_node. split; [reflexivity|]. split; [reflexivity|].
  induction cs as [|c cs IHcs]; [exact I|]. split; [apply IH|exact IHcs].
Qed.

Definition tr_list (ip ic : bool) : list gtree -> res (list tv) :=
  fix go (l : list gtree) : res (list tv) :=
    match l with
    | [] => Ok []
    | c :: l' => do x <- tr_main ip ic c; do xs <- go l'; Ok (x :: xs)
    end.

Lemma tr_main_node ip ic d cs m :
  tr_main ip ic (GNode d cs m) = (do cs' <- tr_list ip ic cs; callback ip ic d cs').
Proof. reflexivity. Qed.

Theorem tr_main_E ip ip' ic : forall g g' x y,
  Grel g g' -> tr_main ip ic g = Ok x -> tr_main ip' ic g' = Ok y -> E x y.
Proof.
  fix IH 1. intros g g' x y HG H1 H2.
  destruct g as [t|d cs m|v], g' as [t'|d' cs' m'|v']; try contradiction.
  - cbn in HG, H1, H2. congruence.
  - rewrite Grel_node in HG. destruct HG as (<- & <- & HL).
    rewrite tr_main_node in H1, H2.
    destruct (tr_list ip ic cs) as [xs|e] eqn:L1; cbn [bind] in H1; [|discriminate].
    destruct (tr_list ip' ic cs') as [ys|e] eqn:L2; cbn [bind] in H2; [|discriminate].
    eapply callback_E; [|exact H1|exact H2].
    clear H1 H2. revert cs' xs ys HL L1 L2.
    induction cs as [|c cs IHcs]; intros [|c' cs'] xs ys HL L1 L2; try contradiction.
    + cbn in L1, L2. injection L1 as <-. injection L2 as <-. constructor.
    + destruct HL as [Hc HL]. cbn [tr_list] in L1, L2.
      destruct (tr_main ip ic c) as [x1|e] eqn:T1; cbn [bind] in L1; [|discriminate].
      destruct (tr_main ip' ic c') as [y1|e] eqn:T2; cbn [bind] in L2; [|discriminate].
      fold (tr_list ip ic cs) in L1. fold (tr_list ip' ic cs') in L2.
      destruct (tr_list ip ic cs) as [xs1|e] eqn:L1'; cbn [bind] in L1; [|discriminate].
      destruct (tr_list ip' ic cs') as [ys1|e] eqn:L2'; cbn [bind] in L2; [|discriminate].
      injection L1 as <-. injection L2 as <-. constructor.
      * eapply IH; eassumption.
      * eapply IHcs; [exact HL|reflexivity|exact L2'].
  - cbn in HG, H1, H2. injection H1 as <-. injection H2 as <-. exact HG.
Qed.

(* the requested statement: for EVERY gtree, the plain result is the positioned
   result with the positions erased (both sides erased: see below for why the
   one-sided form is false) *)
Theorem position_transparent_tr_main :
  forall ic g x y, tr_main true ic g = Ok x -> tr_main false ic g = Ok y ->
  strip_pos_tv x = strip_pos_tv y.
Proof. intros ic g x y H1 H2. exact (tr_main_E true false ic g g x y (Grel_refl g) H1 H2). Qed.

(* ================================================================ the comments pass (include_comments=True) *)
Lemma lower_comments : lower s_comments = s_comments.
Proof. vm_compute. reflexivity. Qed.

Lemma metadata_comment_key_G sp sp' : Grel sp sp' -> metadata_comment_key sp' = metadata_comment_key sp.
Proof.
  intros H. destruct sp as [t|d cs m|v], sp' as [t'|d' cs' m'|v']; try contradiction; try reflexivity.
  rewrite Grel_node in H. destruct H as (<- & <- & HL).
  destruct cs as [|c cs], cs' as [|c' cs']; try contradiction; [reflexivity|].
  destruct HL as [Hc _].
  destruct c as [t|d2 cs2 m2|v], c' as [t'|d2' cs2' m2'|v']; try contradiction; try reflexivity.
  - cbn in Hc. subst t'. reflexivity.
  - rewrite Grel_node in Hc. destruct Hc as (<- & <- & HL2).
    destruct cs2 as [|c2 cs2], cs2' as [|c2' cs2']; try contradiction; [reflexivity|].
    destruct HL2 as [Hc2 _].
    destruct c2 as [t|d3 cs3 m3|v], c2' as [t'|d3' cs3' m3'|v']; try contradiction; try reflexivity.
    cbn in Hc2. subst t'. reflexivity.
Qed.

Definition amc_step (items : titems) (acc : res (list (str * value))) (sp : gtree) : res (list (str * value)) :=
  do c <- acc;
  do (key, m) <- metadata_comment_key sp;
  match assoc key items with
  | Some _ => Ok (od_set key (get_comments m) c)
  | None => vfail
  end.

Definition amc_pure (acc : res (list (str * value))) (sp : gtree) : res (list (str * value)) :=
  do c <- acc;
  do (key, m) <- metadata_comment_key sp;
  Ok (od_set key (get_comments m) c).

Lemma add_metadata_comments_stages items cm md :
  add_metadata_comments items cm md =
  match md with
  | _ :: ((_ :: _ :: _) as rest) => fold_left (amc_step items) (removelast rest) (Ok cm)
  | _ => Ok cm
  end.
Proof. reflexivity. Qed.

Lemma amc_fold_err items l e : fold_left (amc_step items) l (Err e) = Err e.
Proof. induction l as [|sp l IH]; [reflexivity|exact IH]. Qed.

Lemma amc_fold_pure items l : forall acc r,
  fold_left (amc_step items) l acc = Ok r -> fold_left amc_pure l acc = Ok r.
Proof.
  induction l as [|sp l IH]; intros acc r H; [exact H|].
  cbn [fold_left] in *. 
  destruct acc as [c|e]; [|cbn [amc_step bind] in H; rewrite amc_fold_err in H; discriminate].
  assert (Hs : amc_step items (Ok c) sp = amc_pure (Ok c) sp \/ exists e, amc_step items (Ok c) sp = Err e).
  { unfold amc_step, amc_pure. cbn [bind]. destruct (metadata_comment_key sp) as [[key m]|e]; cbn [bind]; [|left; reflexivity].
    destruct (assoc key items); [left; reflexivity|right; eexists; reflexivity]. }
  destruct Hs as [Hs|[e Hs]]; rewrite Hs in H.
  - apply IH. exact H.
  - rewrite amc_fold_err in H. discriminate.
Qed.

Lemma amc_pure_G l l' : Grel_list l l' -> forall acc, fold_left amc_pure l' acc = fold_left amc_pure l acc.
Proof.
  revert l'. induction l as [|sp l IH]; intros [|sp' l'] H acc; try contradiction; [reflexivity|].
  destruct H as [Hs Hl]. cbn [fold_left]. rewrite (IH _ Hl). f_equal.
  unfold amc_pure. rewrite (metadata_comment_key_G _ _ Hs). reflexivity.
Qed.

Lemma Grel_list_removelast l l' : Grel_list l l' -> Grel_list (removelast l) (removelast l').
Proof.
  revert l'. induction l as [|a l IH]; intros [|a' l'] H; try contradiction; [exact I|].
  destruct H as [Ha Hl]. destruct l as [|b l], l' as [|b' l']; try contradiction; [exact I|].
  change (Grel_list (a :: removelast (b :: l)) (a' :: removelast (b' :: l'))).
  split; [exact Ha|apply IH; exact Hl].
Qed.

Lemma add_metadata_comments_G items items' cm md md' r r' :
  Grel_list md md' ->
  add_metadata_comments items cm md = Ok r -> add_metadata_comments items' cm md' = Ok r' -> r = r'.
Proof.
  intros H H1 H2. rewrite add_metadata_comments_stages in H1, H2.
  destruct md as [|a [|b [|c l]]], md' as [|a' [|b' [|c' l']]]; cbn [Grel_list] in H; try tauto; try congruence.
  apply amc_fold_pure in H1. apply amc_fold_pure in H2.
  rewrite (amc_pure_G (removelast (b :: c :: l)) (removelast (b' :: c' :: l'))) in H2; [congruence|].
  apply Grel_list_removelast. cbn [Grel_list]. tauto.
Qed.

Definition cc_attr (m : meta) (r : tv) : res gtree :=
  match r with
  | TDict c items => Ok (GVal (TDict c (od_set s_comments (TVal (get_comments m)) items)))
  | _ => vfail
  end.

Definition cc_projection (m : meta) (r : tv) : res gtree :=
  match r with
  | TDict c items =>
      if has_comments m then Ok (GVal (TDict c (od_set s_comments (TVal (get_comments m)) items)))
      else Ok (GVal r)
  | _ => vfail
  end.

Definition cc_setk (c : dcls) : str -> tv -> titems -> titems :=
  match c with DCI _ | DDef _ => ci_set | DPlain => od_set end.

Definition cc_cm0 (c : dcls) (items : titems) : list (str * value) :=
  match (match c with DPlain => assoc s_comments items | _ => ci_get s_comments items end) with
  | Some (TVal (VDict _ x)) => x
  | _ => []
  end.

Definition cc_cm2 (cs : list gtree) (items : titems) (cm1 : list (str * value)) : res (list (str * value)) :=
  match assoc s_type items with
  | Some (TVal (VStr ty)) =>
      if str_eqb ty s_metadata then
        match cs with
        | GNode _ mdkids _ :: _ => add_metadata_comments items cm1 mdkids
        | _ => vfail
        end
      else Ok cm1
  | _ => vfail
  end.

(* the branch taken when the current __comments__ entry is a dict or absent *)
Definition cc_dict (cs : list gtree) (m : meta) (c : dcls) (items : titems) : res gtree :=
  let cm0 := cc_cm0 c items in
  let cm1 := if has_comments m then od_set s_type (get_comments m) cm0 else cm0 in
  do cm2 <- cc_cm2 cs items cm1;
  Ok (GVal (TDict c (cc_setk c s_comments (TVal (VDict DPlain cm2)) items))).

Definition cc_existing (c : dcls) (items : titems) : option tv :=
  match c with DPlain => assoc s_comments items | _ => ci_get s_comments items end.

Definition cc_dictlike (e : option tv) : bool :=
  match e with
  | Some (TVal (VDict _ _)) | None => true
  | Some _ => false
  end.

(* the branch taken when a key-value entry spelled __comments__ holds a non-dict *)
Definition cc_nondict (cs : list gtree) (m : meta) (items : titems) (r : tv) : res gtree :=
  if has_comments m then vfail
  else
    match assoc s_type items with
    | Some (TVal (VStr ty)) =>
        if str_eqb ty s_metadata then
          match cs with
          | GNode _ (_ :: _ :: _ :: _) _ :: _ => vfail
          | GNode _ _ _ :: _ => Ok (GVal r)
          | _ => vfail
          end
        else Ok (GVal r)
    | _ => vfail
    end.

Definition cc_composite (cs : list gtree) (m : meta) (r : tv) : res gtree :=
  match r with
  | TDict c items =>
      if cc_dictlike (cc_existing c items) then cc_dict cs m c items else cc_nondict cs m items r
  | _ => vfail
  end.

Lemma comments_callback_stages ip g :
  comments_callback ip g =
  match g with
  | GNode d cs m =>
      if d =? CB_attr then do r <- tr_main ip true g; cc_attr m r
      else if d =? CB_projection then do r <- tr_main ip true g; cc_projection m r
      else if d =? CB_composite then do r <- tr_main ip true g; cc_composite cs m r
      else Ok g
  | _ => Ok g
  end.
Proof.
  destruct g as [t|d cs m|v]; try reflexivity. unfold comments_callback.
  destruct (d =? CB_attr); [reflexivity|]. destruct (d =? CB_projection); [reflexivity|].
  destruct (d =? CB_composite); [|reflexivity].
  destruct (tr_main ip true (GNode d cs m)) as [r|e]; [|reflexivity]. cbn [bind].
  destruct r as [| | |c items]; try reflexivity. cbn [cc_composite]. unfold cc_existing, cc_dict, cc_cm0.
  destruct c.
  - destruct (assoc s_comments items) as [[[]| | |]|]; reflexivity.
  - destruct (ci_get s_comments items) as [[[]| | |]|]; reflexivity.
  - destruct (ci_get s_comments items) as [[[]| | |]|]; reflexivity.
Qed.

Lemma cc_attr_G m r r' h h' : E r r' -> cc_attr m r = Ok h -> cc_attr m r' = Ok h' -> Grel h h'.
Proof.
  intros He H1 H2. destruct r as [| | |c items]; try discriminate. einv.
  cbn [cc_attr] in H1, H2. injection H1 as <-. injection H2 as <-. cbn [Grel].
  apply E_dict. apply SI_od_set_E; [assumption|reflexivity].
Qed.

Lemma cc_projection_G m r r' h h' : E r r' -> cc_projection m r = Ok h -> cc_projection m r' = Ok h' -> Grel h h'.
Proof.
  intros He H1 H2. destruct r as [| | |c items]; try discriminate. einv.
  cbn [cc_projection] in H1, H2. destruct (has_comments m); injection H1 as <-; injection H2 as <-; cbn [Grel].
  - apply E_dict. apply SI_od_set_E; [assumption|reflexivity].
  - apply E_dict. assumption.
Qed.

Lemma cc_cm0_E c items items' : SI items = SI items' -> cc_cm0 c items' = cc_cm0 c items.
Proof.
  intros H. unfold cc_cm0, ci_get. rewrite lower_comments.
  pose proof (SI_assoc_E s_comments items items' is_pos_comments H) as Ha.
  assert (Hx : match assoc s_comments items' with Some (TVal (VDict _ x)) => x | _ => [] end =
               match assoc s_comments items with Some (TVal (VDict _ x)) => x | _ => [] end).
  { destruct (assoc s_comments items) as [a|], (assoc s_comments items') as [a'|]; cbn [optE] in Ha;
      try contradiction; [|reflexivity]. destruct a; einv; reflexivity. }
  destruct c; exact Hx.
Qed.

Lemma cc_cm2_G cs cs' items items' cm1 r r' :
  Grel_list cs cs' -> SI items = SI items' ->
  cc_cm2 cs items cm1 = Ok r -> cc_cm2 cs' items' cm1 = Ok r' -> r = r'.
Proof.
  intros HL HS H1 H2. unfold cc_cm2 in H1, H2.
  pose proof (SI_assoc_E s_type items items' is_pos_type HS) as Ht.
  destruct (assoc s_type items) as [ty|]; [|discriminate].
  destruct (assoc s_type items') as [ty'|]; [|discriminate]. cbn [optE] in Ht.
  destruct ty as [[| | | |k| |]| | |]; try discriminate. einv.
  destruct (str_eqb k s_metadata); [|congruence].
  destruct cs as [|[t|d mdkids m|v] cs]; try discriminate.
  destruct cs' as [|[t'|d' mdkids' m'|v'] cs']; try discriminate.
  destruct HL as [Hc _]. rewrite Grel_node in Hc. destruct Hc as (_ & _ & Hk).
  eapply add_metadata_comments_G; eassumption.
Qed.

Lemma cc_dict_G cs cs' m c items items' h h' :
  Grel_list cs cs' -> SI items = SI items' ->
  cc_dict cs m c items = Ok h -> cc_dict cs' m c items' = Ok h' -> Grel h h'.
Proof.
  intros HL HS H1 H2.
  unfold cc_dict in H1, H2. cbv zeta in H1, H2. rewrite (cc_cm0_E c items items' HS) in H2.
  destruct (cc_cm2 cs items _) as [cm2|e] eqn:C1; cbn [bind] in H1; [|discriminate].
  destruct (cc_cm2 cs' items' _) as [cm2'|e] eqn:C2; cbn [bind] in H2; [|discriminate].
  assert (cm2 = cm2') by (eapply cc_cm2_G; eassumption). subst cm2'.
  injection H1 as <-. injection H2 as <-. cbn [Grel]. apply E_dict.
  destruct c; cbn [cc_setk]; unfold ci_set; apply SI_od_set_E; try assumption; reflexivity.
Qed.

(* which branch is taken does not depend on the positions *)
Lemma cc_existing_E c items items' :
  SI items = SI items' -> optE (cc_existing c items) (cc_existing c items').
Proof.
  intros H. unfold cc_existing, ci_get. rewrite lower_comments.
  destruct c; apply SI_assoc_E; (reflexivity || exact H).
Qed.

Lemma cc_dictlike_E e e' : optE e e' -> cc_dictlike e' = cc_dictlike e.
Proof.
  intros H. destruct e as [x|], e' as [x'|]; cbn [optE] in H; try contradiction; [|reflexivity].
  destruct x; einv; reflexivity.
Qed.

Lemma cc_nondict_inv cs m items r h : cc_nondict cs m items r = Ok h -> h = GVal r.
Proof.
  unfold cc_nondict. intros H. destruct (has_comments m); [discriminate|].
  destruct (assoc s_type items) as [[[| | | |ty| |]| | |]|]; try discriminate.
  destruct (str_eqb ty s_metadata); [|injection H as <-; reflexivity].
  destruct cs as [|[t|d [|a [|b [|c r0]]] m0|v] cs]; try discriminate; injection H as <-; reflexivity.
Qed.

Lemma cc_composite_G cs cs' m r r' h h' :
  Grel_list cs cs' -> E r r' -> cc_composite cs m r = Ok h -> cc_composite cs' m r' = Ok h' -> Grel h h'.
Proof.
  intros HL He H1 H2. destruct r as [| | |c items]; try discriminate. einv.
  cbn [cc_composite] in H1, H2.
  rewrite (cc_dictlike_E _ _ (cc_existing_E c items items' HS)) in H2.
  destruct (cc_dictlike (cc_existing c items)).
  - eapply cc_dict_G; eassumption.
  - apply cc_nondict_inv in H1, H2. subst h h'. cbn [Grel]. apply E_dict. exact HS.
Qed.

Lemma comments_callback_G ip ip' g g' h h' :
  Grel g g' -> comments_callback ip g = Ok h -> comments_callback ip' g' = Ok h' -> Grel h h'.
Proof.
  intros HG H1 H2. rewrite comments_callback_stages in H1, H2.
  destruct g as [t|d cs m|v], g' as [t'|d' cs' m'|v']; try contradiction;
    try (injection H1 as <-; injection H2 as <-; exact HG).
  pose proof HG as HG0. rewrite Grel_node in HG. destruct HG as (<- & <- & HL).
  destruct (d =? CB_attr).
  { destruct (tr_main ip true _) as [r|e] eqn:T1; cbn [bind] in H1; [|discriminate].
    destruct (tr_main ip' true _) as [r'|e] eqn:T2; cbn [bind] in H2; [|discriminate].
    eapply cc_attr_G; [|exact H1|exact H2]. eapply tr_main_E; [exact HG0|exact T1|exact T2]. }
  destruct (d =? CB_projection).
  { destruct (tr_main ip true _) as [r|e] eqn:T1; cbn [bind] in H1; [|discriminate].
    destruct (tr_main ip' true _) as [r'|e] eqn:T2; cbn [bind] in H2; [|discriminate].
    eapply cc_projection_G; [|exact H1|exact H2]. eapply tr_main_E; [exact HG0|exact T1|exact T2]. }
  destruct (d =? CB_composite).
  { destruct (tr_main ip true _) as [r|e] eqn:T1; cbn [bind] in H1; [|discriminate].
    destruct (tr_main ip' true _) as [r'|e] eqn:T2; cbn [bind] in H2; [|discriminate].
    eapply cc_composite_G; [exact HL| |exact H1|exact H2]. eapply tr_main_E; [exact HG0|exact T1|exact T2]. }
  injection H1 as <-. injection H2 as <-. exact HG0.
Qed.

Definition ctr_list (ip : bool) : list gtree -> res (list gtree) :=
  fix go (l : list gtree) : res (list gtree) :=
    match l with
    | [] => Ok []
    | c :: l' => do c1 <- ctr ip c; do c2 <- comments_callback ip c1; do r <- go l'; Ok (c2 :: r)
    end.

Lemma ctr_node ip d cs m : ctr ip (GNode d cs m) = (do cs' <- ctr_list ip cs; Ok (GNode d cs' m)).
Proof. reflexivity. Qed.

Theorem ctr_G ip ip' : forall g g' h h',
  Grel g g' -> ctr ip g = Ok h -> ctr ip' g' = Ok h' -> Grel h h'.
Proof.
  fix IH 1. intros g g' h h' HG H1 H2.
  destruct g as [t|d cs m|v], g' as [t'|d' cs' m'|v']; try contradiction;
    try (cbn in H1, H2; injection H1 as <-; injection H2 as <-; exact HG).
  rewrite Grel_node in HG. destruct HG as (<- & <- & HL). rewrite ctr_node in H1, H2.
  destruct (ctr_list ip cs) as [xs|e] eqn:L1; cbn [bind] in H1; [|discriminate].
  destruct (ctr_list ip' cs') as [ys|e] eqn:L2; cbn [bind] in H2; [|discriminate].
  injection H1 as <-. injection H2 as <-. rewrite Grel_node. split; [reflexivity|]. split; [reflexivity|].
  revert cs' xs ys HL L1 L2.
  induction cs as [|c cs IHcs]; intros [|c' cs'] xs ys HL L1 L2; try contradiction.
  - cbn in L1, L2. injection L1 as <-. injection L2 as <-. exact I.
  - destruct HL as [Hc HL]. cbn [ctr_list] in L1, L2.
    destruct (ctr ip c) as [c1|e] eqn:T1; cbn [bind] in L1; [|discriminate].
    destruct (ctr ip' c') as [c1'|e] eqn:T2; cbn [bind] in L2; [|discriminate].
    destruct (comments_callback ip c1) as [c2|e] eqn:K1; cbn [bind] in L1; [|discriminate].
    destruct (comments_callback ip' c1') as [c2'|e] eqn:K2; cbn [bind] in L2; [|discriminate].
    fold (ctr_list ip cs) in L1. fold (ctr_list ip' cs') in L2.
    destruct (ctr_list ip cs) as [xs1|e] eqn:L1'; cbn [bind] in L1; [|discriminate].
    destruct (ctr_list ip' cs') as [ys1|e] eqn:L2'; cbn [bind] in L2; [|discriminate].
    injection L1 as <-. injection L2 as <-. split.
    + eapply comments_callback_G; [|exact K1|exact K2]. eapply IH; eassumption.
    + eapply IHcs; [exact HL|reflexivity|exact L2'].
Qed.

(* ================================================================ transform *)
Theorem position_transparent_transform :
  forall ic t x y, transform true ic t = Ok x -> transform false ic t = Ok y ->
  strip_pos_tv x = strip_pos_tv y.
Proof.
  intros ic t x y H1 H2. unfold transform in H1, H2.
  pose proof (Grel_refl (canonize (gtree_of t))) as HG.
  destruct ic; [|exact (tr_main_E true false false _ _ x y HG H1 H2)].
  destruct (ctr true _) as [g1|e] eqn:C1; cbn [bind] in H1; [|discriminate].
  destruct (ctr false _) as [g1'|e] eqn:C2; cbn [bind] in H2; [|discriminate].
  destruct (comments_callback true g1) as [g2|e] eqn:K1; cbn [bind] in H1; [|discriminate].
  destruct (comments_callback false g1') as [g2'|e] eqn:K2; cbn [bind] in H2; [|discriminate].
  eapply tr_main_E; [|exact H1|exact H2].
  eapply comments_callback_G; [|exact K1|exact K2].
  eapply ctr_G; [exact HG|exact C1|exact C2].
Qed.

(* ================================================================ final Python data *)
Fixpoint tvv (x : tv) : value :=
  match x with
  | TVal v => v
  | TTok t => VStr (pk_orig t)
  | TSeq l => VList (map tvv l)
  | TDict c items => VDict c (map (fun kv => (fst kv, tvv (snd kv))) items)
  end.

Lemma tv_to_value_tvv : forall x, tv_to_value x = Ok (tvv x).
Proof.
  induction x as [v|t|l IH|c items IH] using tv_ind'; try reflexivity.
  - cbn [tv_to_value tvv].
    assert (H : (fix go (l : list tv) : res (list value) :=
                   match l with
                   | [] => Ok []
                   | y :: l' => do v <- tv_to_value y; do r <- go l'; Ok (v :: r)
                   end) l = Ok (map tvv l)).
    { induction IH as [|y l Hy _ IHl]; [reflexivity|]. rewrite Hy, IHl. reflexivity. }
    rewrite H. reflexivity.
  - cbn [tv_to_value tvv].
    assert (H : (fix go (l : list (str * tv)) : res (list (str * value)) :=
                   match l with
                   | [] => Ok []
                   | (k, y) :: l' => do v <- tv_to_value y; do r <- go l'; Ok ((k, v) :: r)
                   end) items = Ok (map (fun kv => (fst kv, tvv (snd kv))) items)).
    { induction IH as [|[k y] l Hy _ IHl]; [reflexivity|]. cbn [snd] in Hy. rewrite Hy, IHl. reflexivity. }
    rewrite H. reflexivity.
Qed.

(* erasing on the transformer value first changes nothing once the final data is erased *)
Lemma strip_tvv : forall x, strip_pos (tvv (strip_pos_tv x)) = strip_pos (tvv x).
Proof.
  induction x as [v|t|l IH|c items IH] using tv_ind'; try reflexivity.
  - cbn [strip_pos_tv tvv strip_pos]. f_equal. rewrite !map_map.
    induction IH as [|y l Hy _ IHl]; [reflexivity|]. cbn [map]. rewrite Hy, IHl. reflexivity.
  - cbn [strip_pos_tv tvv strip_pos]. f_equal.
    induction IH as [|[k y] l Hy _ IHl]; [reflexivity|]. cbn [snd] in Hy.
    cbn [strip_with map fst snd]. destruct (is_pos k) eqn:Ek.
    + exact IHl.
    + cbn [map fst snd strip_with]. rewrite Ek, Hy, IHl. reflexivity.
Qed.

Theorem strip_tv_to_value x y v w :
  strip_pos_tv x = strip_pos_tv y -> tv_to_value x = Ok v -> tv_to_value y = Ok w ->
  strip_pos v = strip_pos w.
Proof.
  intros He H1 H2. rewrite tv_to_value_tvv in H1, H2. injection H1 as <-. injection H2 as <-.
  rewrite <- (strip_tvv x), <- (strip_tvv y), He. reflexivity.
Qed.

(* ================================================================ loads *)
Theorem position_transparent_loads :
  forall ic text v w, loads true ic text = Ok v -> loads false ic text = Ok w ->
  strip_pos v = strip_pos w.
Proof.
  intros ic text v w H1 H2. unfold loads in H1, H2.
  destruct (parse_tree ic text) as [t|e]; cbn [bind] in H1, H2; [|discriminate].
  destruct (transform true ic t) as [x|e] eqn:T1; cbn [bind] in H1; [|discriminate].
  destruct (transform false ic t) as [y|e] eqn:T2; cbn [bind] in H2; [|discriminate].
  eapply strip_tv_to_value; [|exact H1|exact H2].
  eapply position_transparent_transform; eassumption.
Qed.

(* a value without any __position__ key is untouched by the erasure *)
Definition no_pos_with {A} (f : A -> bool) : list (str * A) -> bool :=
  fix go (l : list (str * A)) : bool :=
    match l with
    | [] => true
    | (k, y) :: l' => negb (is_pos k) && f y && go l'
    end.

Fixpoint no_pos (v : value) : bool :=
  match v with
  | VList l => forallb no_pos l
  | VDict c items => no_pos_with no_pos items
  | _ => true
  end.

Lemma no_pos_strip : forall v, no_pos v = true -> strip_pos v = v.
Proof.
  induction v as [| | | | |l IH|c items IH] using value_ind'; try reflexivity.
  - cbn [no_pos strip_pos]. intros H. f_equal.
    induction IH as [|y l Hy _ IHl]; [reflexivity|]. cbn [forallb] in H. apply andb_true_iff in H.
    destruct H as [H1 H2]. cbn [map]. rewrite Hy, IHl by assumption. reflexivity.
  - cbn [no_pos strip_pos]. intros H. f_equal.
    induction IH as [|[k y] l Hy _ IHl]; [reflexivity|]. cbn [snd] in Hy.
    cbn [no_pos_with] in H. apply andb_true_iff in H. destruct H as [H H3].
    apply andb_true_iff in H. destruct H as [H1 H2]. apply negb_true_iff in H1.
    cbn [strip_with]. rewrite H1, Hy, IHl by assumption. reflexivity.
Qed.

(* one-sided form, under the guard that the plain result itself holds no
   __position__ key (i.e. the document does not use that string as a key of a
   METADATA/VALIDATION/VALUES/CONNECTIONOPTIONS/CONFIG entry) *)
Theorem position_erasure_loads_guarded :
  forall ic text v w, loads true ic text = Ok v -> loads false ic text = Ok w ->
  no_pos w = true -> strip_pos v = w.
Proof.
  intros ic text v w H1 H2 Hn. rewrite <- (no_pos_strip w Hn).
  eapply position_transparent_loads; eassumption.
Qed.

(* The one-sided form is FALSE of the model, and of the implementation: a
   METADATA (or VALIDATION/VALUES/CONNECTIONOPTIONS) item whose key is the
   string __position__ is overwritten by the position record when
   include_position=True, so the plain result cannot be recovered from the
   positioned one.  Replayed on mappyfile.loads: same two results. *)
Definition cex_text : str := Str "MAP METADATA ""__position__"" ""x"" END END".

Theorem position_erasure_loads_one_sided_refuted :
  exists text v w, loads true false text = Ok v /\ loads false false text = Ok w /\ strip_pos v <> w.
Proof.
  exists cex_text. eexists. eexists. split; [vm_compute; reflexivity|]. split; [vm_compute; reflexivity|].
  vm_compute. intros H. discriminate H.
Qed.

(* at the level of tr_main the one-sided form fails already on a single attr
   node: cb_attr builds its __position__ entry whatever the flag *)
Definition cex_attr : gtree :=
  GNode CB_attr [GTok (mk_ptok T_UNQUOTED_STRING (Str "NAME") (VStr (Str "NAME")) (VInt 1) (VInt 1));
                 GTok (mk_ptok T_UNQUOTED_STRING (Str "x") (VStr (Str "x")) (VInt 1) (VInt 6))] meta0.

Theorem position_erasure_tr_main_one_sided_refuted :
  exists ic g x y, tr_main true ic g = Ok x /\ tr_main false ic g = Ok y /\ strip_pos_tv x <> y.
Proof.
  exists false, cex_attr. eexists. eexists. split; [vm_compute; reflexivity|]. split; [vm_compute; reflexivity|].
  vm_compute. intros H. discriminate H.
Qed.

(* ================================================================ failure alignment *)
(* The two runs do not only agree when both succeed: they fail together.  This
   needs to know a little about the values that flow between callbacks:
   - tokens never carry a dict as .value (true of every lexer token, kept by every callback);
   - a dict that reaches composite() as an attribute is either a block result
     (has __type__) or an attr() result: its first entry is the __position__
     record, no other entry is keyed __position__, and a config entry holds
     exactly one pair. *)
Definition is_vdict (v : value) : bool := match v with VDict _ _ => true | _ => false end.
Definition tok_ok (t : ptok) : bool := negb (is_vdict (pk_val t)).
Definition nopos_keys (l : titems) : bool := forallb (fun kv => negb (is_pos (fst kv))) l.
Definition cfg_ok (l : titems) : bool :=
  match assoc s_config l with
  | Some (TVal (VDict _ cfg)) => match cfg with [_] => true | _ => false end
  | _ => true
  end.
Definition attr_shaped (items : titems) : bool :=
  match items with
  | (k, TVal _) :: rest => is_pos k && nopos_keys rest && cfg_ok rest
  | _ => false
  end.
Definition typed (items : titems) : bool := od_mem s_type items.

Fixpoint W (x : tv) : bool :=
  match x with
  | TVal _ => true
  | TTok t => tok_ok t
  | TSeq l => forallb W l
  | TDict c items => typed items || attr_shaped items
  end.

Definition Ws (l : list tv) : bool := forallb W l.

Lemma Ws_cons x l : Ws (x :: l) = W x && Ws l.
Proof. reflexivity. Qed.

Lemma W_tok_set a v : is_vdict v = false -> W (TTok (set_val a v)) = true.
Proof. intros H. cbn [W]. unfold tok_ok, set_val. cbn [pk_val]. rewrite H. reflexivity. Qed.

Lemma clean_top_vdict v : is_vdict (clean_top v) = is_vdict v.
Proof. destruct v; reflexivity. Qed.

(* ---------------------------------------------------------------- W is kept by every callback *)
(* brute force over the small token callbacks *)
Ltac wcrush H :=
  repeat first
    [ progress cbn [bind] in H
    | match type of H with
      | Ok _ = Ok _ => fail 1
      | match ?x with _ => _ end = Ok _ => destruct x eqn:?; try discriminate H
      | bind ?r _ = Ok _ => destruct r eqn:?; try discriminate H
      | (if ?c then _ else _) = Ok _ => destruct c eqn:?; try discriminate H
      end ];
  try (injection H as <-).

Lemma set_first_W t s x : set_first t s = Ok x -> W x = true.
Proof. unfold set_first. intros H. wcrush H. apply W_tok_set. reflexivity. Qed.

Lemma cb_binary_W t a b c x : cb_binary t a b c = Ok x -> W x = true.
Proof. unfold cb_binary. intros H. wcrush H. eapply set_first_W; eassumption. Qed.

Lemma cb_comparison_W t x : cb_comparison t = Ok x -> W x = true.
Proof. unfold cb_comparison. intros H. wcrush H. eapply set_first_W; eassumption. Qed.

Lemma cb_prefix_W t p b x : cb_prefix t p b = Ok x -> W x = true.
Proof. unfold cb_prefix. intros H. wcrush H; eapply set_first_W; eassumption. Qed.

Lemma cb_expression_W t x : Ws t = true -> cb_expression t = Ok x -> W x = true.
Proof.
  unfold cb_expression. intros HW H. wcrush H.
  - rewrite Ws_cons in HW. apply andb_true_iff in HW. apply HW.
  - apply W_tok_set. reflexivity.
Qed.

Lemma cb_func_call_W t x : cb_func_call t = Ok x -> W x = true.
Proof. unfold cb_func_call. intros H. wcrush H. apply W_tok_set. reflexivity. Qed.

Lemma cb_func_params_W t x : cb_func_params t = Ok x -> W x = true.
Proof. unfold cb_func_params. intros H. wcrush H. reflexivity. Qed.

Lemma cb_attr_bind_W t x : cb_attr_bind t = Ok x -> W x = true.
Proof. unfold cb_attr_bind. intros H. wcrush H. apply W_tok_set. reflexivity. Qed.

Lemma cb_list_W t x : cb_list t = Ok x -> W x = true.
Proof. unfold cb_list. intros H. wcrush H. apply W_tok_set. reflexivity. Qed.

Lemma cb_first_W t x : Ws t = true -> cb_first t = Ok x -> W x = true.
Proof.
  unfold cb_first. intros HW H. wcrush H. rewrite Ws_cons in HW. apply andb_true_iff in HW. apply HW.
Qed.

Lemma cb_int_W t x : cb_int t = Ok x -> W x = true.
Proof. unfold cb_int. intros H. wcrush H. apply W_tok_set. reflexivity. Qed.
Lemma cb_float_W t x : cb_float t = Ok x -> W x = true.
Proof. unfold cb_float. intros H. wcrush H. apply W_tok_set. reflexivity. Qed.
Lemma cb_bool_W b t x : cb_bool b t = Ok x -> W x = true.
Proof. unfold cb_bool. intros H. wcrush H. apply W_tok_set. reflexivity. Qed.
Lemma cb_hexcolor_W t x : cb_hexcolor t = Ok x -> W x = true.
Proof. unfold cb_hexcolor. intros H. wcrush H. apply W_tok_set. reflexivity. Qed.

Lemma cb_len_W n t x : Ws t = true -> cb_len n t = Ok x -> W x = true.
Proof. unfold cb_len. intros HW H. wcrush H. exact HW. Qed.

Lemma cb_start_W t x : Ws t = true -> cb_start t = Ok x -> W x = true.
Proof.
  unfold cb_start. intros HW H. destruct t as [|a [|b r]]; injection H as <-; try exact HW.
  rewrite Ws_cons in HW. apply andb_true_iff in HW. apply HW.
Qed.

Lemma attr_out kn V X pd :
  str_eqb kn s_config = false \/ is_vdict V = false ->
  attr_shaped (od_set kn (TVal V) (od_set s_tokens X [(s_position, TVal pd)])) = true.
Proof.
  intros Hc. change (od_set s_tokens X [(s_position, TVal pd)]) with [(s_position, TVal pd); (s_tokens, X)].
  unfold od_set. cbn [od_mem od_replace orb].
  destruct (str_eqb kn s_position) eqn:E1; cbn [orb app]; [reflexivity|].
  destruct (str_eqb kn s_tokens) eqn:E2; cbn [orb app]; [reflexivity|].
  cbn [attr_shaped nopos_keys forallb fst]. unfold is_pos at 2 3. rewrite E1.
  change (is_pos s_position) with true. change (is_pos s_tokens) with false. cbn [negb andb].
  unfold cfg_ok. cbn [assoc]. change (str_eqb s_config s_tokens) with false. cbv iota.
  rewrite (str_eqb_sym s_config kn).
  destruct (str_eqb kn s_config) eqn:E3; [|reflexivity].
  destruct Hc as [Hc|Hc]; [discriminate|]. destruct V; try reflexivity. discriminate.
Qed.

Lemma attr_vtoks_W vt0 vts : Ws vt0 = true -> attr_vtoks vt0 = Ok vts -> Ws vts = true.
Proof.
  unfold attr_vtoks. intros HW H. destruct vt0 as [|a r]; [discriminate|].
  destruct a as [v|t|l|c items]; try (injection H as <-; exact HW).
  destruct r; [|discriminate]. injection H as <-. rewrite Ws_cons in HW. apply andb_true_iff in HW. apply HW.
Qed.

Lemma attr_body_W key kn vts x : Ws vts = true -> attr_body key kn vts = Ok x -> W x = true.
Proof.
  unfold attr_body. intros HW H.
  destruct (create_position_dict key (Some vts)) as [pd|e]; cbn [bind] in H; [|discriminate].
  destruct vts as [|a [|b rest]]; [discriminate| |].
  - destruct a as [v|t|l|c items]; try discriminate. cbn [tok_of bind] in H. injection H as <-.
    cbn [W]. rewrite attr_out; [apply orb_true_r|]. right. rewrite clean_top_vdict.
    rewrite Ws_cons in HW. apply andb_true_iff in HW. destruct HW as [HW _]. cbn [W] in HW.
    unfold tok_ok in HW. apply negb_true_iff in HW. exact HW.
  - destruct (str_eqb kn s_config) eqn:Ec.
    + destruct rest; [|discriminate].
      destruct (tok_of a) as [ta|e]; cbn [bind] in H; [|discriminate].
      destruct (tok_of b) as [tb|e]; cbn [bind] in H; [|discriminate].
      destruct (pk_val ta) as [| | | |ka| |]; try discriminate. cbn [bind] in H. injection H as <-.
      apply str_eqb_eq in Ec. subst kn. reflexivity.
    + destruct (mapM tv_dot_value (a :: b :: rest)) as [vals|e]; cbn [bind] in H; [|discriminate].
      injection H as <-. cbn [W]. rewrite attr_out; [apply orb_true_r|]. left. exact Ec.
Qed.

Lemma cb_attr_W tokens x : Ws tokens = true -> cb_attr tokens = Ok x -> W x = true.
Proof.
  rewrite cb_attr_stages. intros HW H. destruct tokens as [|k0 vt0]; [discriminate|].
  destruct (attr_key k0) as [key|e]; cbn [bind] in H; [|discriminate].
  destruct (key_name key) as [kn|e]; cbn [bind] in H; [|discriminate].
  destruct (attr_vtoks vt0) as [vts|e] eqn:Ev; cbn [bind] in H; [|discriminate].
  eapply attr_body_W; [|exact H]. eapply attr_vtoks_W; [|exact Ev].
  rewrite Ws_cons in HW. apply andb_true_iff in HW. apply HW.
Qed.

Lemma tok_of_W x t : W x = true -> tok_of x = Ok t -> tok_ok t = true.
Proof. destruct x; try discriminate. cbn. intros H [= <-]. exact H. Qed.

Lemma cb_config_W t x : Ws t = true -> cb_config t = Ok x -> W x = true.
Proof.
  unfold cb_config. intros HW H. destruct t as [|k [|a [|b [|c r]]]]; try discriminate.
  destruct (tok_of a) as [ta|e] eqn:Ea; cbn [bind] in H; [|discriminate].
  destruct (tok_of b) as [tb|e] eqn:Eb; cbn [bind] in H; [|discriminate].
  destruct (tok_str ta) as [ks|e]; cbn [bind] in H; [|discriminate].
  eapply cb_attr_W; [|exact H].
  rewrite !Ws_cons in HW. apply andb_true_iff in HW. destruct HW as [Hk HW].
  apply andb_true_iff in HW. destruct HW as [Ha HW]. apply andb_true_iff in HW. destruct HW as [Hb _].
  rewrite !Ws_cons. rewrite Hk. rewrite W_tok_set by reflexivity. rewrite W_tok_set; [reflexivity|].
  rewrite clean_top_vdict. pose proof (tok_of_W _ _ Hb Eb) as Ht. unfold tok_ok in Ht.
  apply negb_true_iff in Ht. exact Ht.
Qed.

Lemma cb_projection_W t x : Ws t = true -> cb_projection t = Ok x -> W x = true.
Proof.
  unfold cb_projection. intros HW H.
  destruct (check_composite_tokens _ t) as [[k0 body]|e]; cbn [bind] in H; [|discriminate].
  destruct (mapM _ body) as [strs|e]; cbn [bind] in H; [|discriminate].
  destruct t as [|k [|v1 r]]; try discriminate.
  destruct (tok_of v1) as [vt|e]; cbn [bind] in H; [|discriminate].
  eapply cb_attr_W; [|exact H].
  rewrite Ws_cons in HW. apply andb_true_iff in HW. destruct HW as [Hk _].
  rewrite !Ws_cons, Hk, W_tok_set by reflexivity. reflexivity.
Qed.

Lemma process_pair_lists_W name t x : Ws t = true -> process_pair_lists name t = Ok x -> W x = true.
Proof.
  unfold process_pair_lists. intros HW H.
  destruct (check_composite_tokens _ t) as [[k0 body]|e]; cbn [bind] in H; [|discriminate].
  destruct (mapM _ body) as [pairs|e]; cbn [bind] in H; [|discriminate].
  destruct t as [|k [|v1 r]]; try discriminate.
  destruct v1 as [v|tk|[|[v|vt|l2|c2 i2] l]|c items]; try discriminate.
  eapply cb_attr_W; [|exact H].
  rewrite Ws_cons in HW. apply andb_true_iff in HW. destruct HW as [Hk _].
  rewrite !Ws_cons, Hk, W_tok_set by reflexivity. reflexivity.
Qed.

Lemma typed_ci_set_type v (d : titems) : typed (ci_set s_type v d) = true.
Proof. unfold typed, ci_set. rewrite lower_type, od_mem_set, str_eqb_refl. reflexivity. Qed.

Lemma process_value_pairs_W ip t ty x : process_value_pairs ip t ty = Ok x -> W x = true.
Proof.
  rewrite process_value_pairs_stages. intros H.
  destruct (check_composite_tokens ty t) as [[key body]|e]; cbn [bind] in H; [|discriminate].
  destruct (key_name _) as [kn|e]; cbn [bind] in H; [|discriminate].
  destruct (fold_left pvp_step _ _) as [d|e]; cbn [bind] in H; [|discriminate].
  destruct (pvp_pos ip _ _ d) as [d1|e]; cbn [bind] in H; [|discriminate].
  injection H as <-. cbn [W]. rewrite typed_ci_set_type. reflexivity.
Qed.

Lemma comp_finish_W ic st x : hk (cs_dict st) = Some s_type -> comp_finish ic st = Ok x -> W x = true.
Proof.
  unfold comp_finish. cbv zeta. intros Hk H.
  destruct (cs_dict st) as [|[k1 v1] r1]; [discriminate|]. cbn [hk] in Hk. injection Hk as ->.
  injection H as <-. cbn [W typed od_mem]. rewrite str_eqb_refl. reflexivity.
Qed.

Lemma comp_init_hk kn p : hk (cs_dict (comp_init kn p)) = Some s_type.
Proof. cbn [comp_init cs_dict]. unfold ci_set. rewrite lower_type. reflexivity. Qed.

Lemma cb_composite_W ip ic t x : Ws t = true -> cb_composite ip ic t = Ok x -> W x = true.
Proof.
  rewrite cb_composite_stages. intros HW H.
  destruct t as [|a [|b r]]; [discriminate| |].
  - injection H as <-. rewrite Ws_cons in HW. apply andb_true_iff in HW. apply HW.
  - destruct a as [| |[|[|key| |] l]|]; try discriminate.
    unfold comp_main in H.
    destruct (key_name key) as [kn|e]; cbn [bind] in H; [|discriminate].
    destruct (comp_pd ip key) as [pd|e]; cbn [bind] in H; [|discriminate].
    destruct (comp_fold ic _ _) as [st|e] eqn:F1; cbn [bind] in H; [|discriminate].
    eapply comp_finish_W; [|exact H]. eapply comp_fold_hk; [exact F1|apply comp_init_hk].
Qed.

Lemma callback_W ip ic d t x : Ws t = true -> callback ip ic d t = Ok x -> W x = true.
Proof.
  intros HW H. unfold callback in H.
  repeat match type of H with
         | (if ?c then _ else _) = _ => destruct c
         end.
  all: try discriminate.
  all: first
    [ eapply cb_start_W; eassumption
    | eapply cb_composite_W; eassumption
    | eapply cb_attr_W; eassumption
    | eapply cb_projection_W; eassumption
    | eapply cb_config_W; eassumption
    | eapply process_pair_lists_W; eassumption
    | eapply process_value_pairs_W; eassumption
    | eapply cb_comparison_W; eassumption
    | eapply cb_binary_W; eassumption
    | eapply cb_first_W; eassumption
    | eapply cb_prefix_W; eassumption
    | eapply cb_expression_W; eassumption
    | eapply cb_func_call_W; eassumption
    | eapply cb_func_params_W; eassumption
    | eapply cb_attr_bind_W; eassumption
    | eapply cb_len_W; eassumption
    | eapply cb_bool_W; eassumption
    | eapply cb_int_W; eassumption
    | eapply cb_float_W; eassumption
    | eapply cb_hexcolor_W; eassumption
    | eapply cb_list_W; eassumption
    | (injection H as <-; exact HW) ].
Qed.

(* trees whose leaves are fine: lexer tokens always are; GVal leaves must be *)
Fixpoint gwf (g : gtree) : bool :=
  match g with
  | GTok t => tok_ok t
  | GVal v => W v
  | GNode d cs m => forallb gwf cs
  end.

Theorem tr_main_W ip ic : forall g x, gwf g = true -> tr_main ip ic g = Ok x -> W x = true.
Proof.
  fix IH 1. intros g x HG H. destruct g as [t|d cs m|v].
  - cbn in H. injection H as <-. exact HG.
  - rewrite tr_main_node in H. cbn [gwf] in HG.
    destruct (tr_list ip ic cs) as [xs|e] eqn:L; cbn [bind] in H; [|discriminate].
    eapply callback_W; [|exact H]. clear H. revert xs L.
    induction cs as [|c cs IHcs]; intros xs L.
    + cbn in L. injection L as <-. reflexivity.
    + cbn [forallb] in HG. apply andb_true_iff in HG. destruct HG as [Hc HG].
      cbn [tr_list] in L.
      destruct (tr_main ip ic c) as [x1|e] eqn:T1; cbn [bind] in L; [|discriminate].
      fold (tr_list ip ic cs) in L.
      destruct (tr_list ip ic cs) as [xs1|e] eqn:L1; cbn [bind] in L; [|discriminate].
      injection L as <-. rewrite Ws_cons. rewrite (IH c x1 Hc T1). apply IHcs; [exact HG|reflexivity].
  - cbn in H. injection H as <-. exact HG.
Qed.

Lemma gwf_gtree_of : forall t, gwf (gtree_of t) = true.
Proof.
  fix IH 1. intros [tk|d cs m]; [reflexivity|].
  cbn [gtree_of gwf]. induction cs as [|c cs IHcs]; [reflexivity|].
  cbn [map forallb]. rewrite IH, IHcs. reflexivity.
Qed.

Lemma gwf_canonize g : gwf g = true -> gwf (canonize g) = true.
Proof.
  intros H. destruct g as [t|d cs m|v]; try exact H. cbn [canonize].
  destruct (d =? CB_symbolset); [|exact H]. cbn [gwf forallb] in *. rewrite H. reflexivity.
Qed.

(* ---------------------------------------------------------------- composite_item fails on both sides or on none *)
Lemma ends_s_nonpos (X : str) : is_pos (X ++ [115]) = false.
Proof.
  unfold is_pos. destruct (str_eqb_spec (X ++ [115]) s_position) as [Heq|]; [exfalso|reflexivity].
  apply (f_equal (@rev N)) in Heq. rewrite rev_app_distr in Heq. cbn [rev app] in Heq.
  vm_compute in Heq. discriminate Heq.
Qed.

Lemma lower_app a b : lower (a ++ b) = lower a ++ lower b.
Proof. unfold lower. apply flat_map_app. Qed.

Lemma lower_plural_nonpos k : is_pos (lower (plural k)) = false.
Proof.
  assert (H : plural k = k ++ Str "es" \/ plural k = k ++ Str "s").
  { unfold plural. destruct (last_opt k) as [c|]; [|right; reflexivity].
    destruct c as [|p]; [right; reflexivity|].
    repeat (first [left; reflexivity | right; reflexivity | destruct p as [p|p|]]). }
  destruct H as [-> | ->]; rewrite lower_app.
  - change (lower (Str "es")) with ([101] ++ [115]). rewrite app_assoc. apply ends_s_nonpos.
  - change (lower (Str "s")) with [115]. apply ends_s_nonpos.
Qed.

Lemma repeated_nonpos kn : mem_str kn REPEATED_KEYS = true -> is_pos (lower kn) = false.
Proof.
  intros H. apply mem_str_In in H. unfold REPEATED_KEYS in H. cbn [In] in H.
  repeat (destruct H as [<-|H]; [vm_compute; reflexivity|]). contradiction.
Qed.

Lemma tv_list_append_align x x' e e' r :
  E x x' -> E e e' -> tv_list_append x e = Ok r -> exists r', tv_list_append x' e' = Ok r'.
Proof.
  intros Hx He H. pose proof (tv_list_append_E _ _ _ _ Hx He) as HR. rewrite H in HR.
  destruct (tv_list_append x' e') as [r'|]; [eexists; reflexivity|contradiction].
Qed.

Lemma append_under_align k (d d' : titems) v v' r :
  is_pos (lower k) = false -> SI d = SI d' -> E v v' ->
  tv_list_append (match ci_get k d with Some x => x | None => TSeq [] end) v = Ok r ->
  exists r', tv_list_append (match ci_get k d' with Some x => x | None => TSeq [] end) v' = Ok r'.
Proof.
  intros Hk Hd Hv H. eapply tv_list_append_align; [|exact Hv|exact H]. apply ci_get_E; assumption.
Qed.

Lemma ci_typed_align st st' d d' ty ty' s :
  SR st st' -> E d d' -> E ty ty' -> ci_typed st d ty = Ok s -> exists s', ci_typed st' d' ty' = Ok s'.
Proof.
  intros [Hd Hc] He Ht H. unfold ci_typed in *.
  destruct ty as [[| | | |k| |]| | |]; try discriminate. einv. cbn [bind] in *.
  destruct (mem_str k SINGLETON_COMPOSITE_NAMES); [eexists; reflexivity|]. cbv zeta in *.
  destruct (tv_list_append _ d) as [c1|e] eqn:A1; cbn [bind] in H; [|discriminate].
  destruct (append_under_align (plural k) _ _ _ _ _ (lower_plural_nonpos k) Hd He A1) as [r' ->].
  cbn [bind]. eexists; reflexivity.
Qed.

Lemma process_config_align st st' a a' pos pos' s :
  SI a = SI a' -> cfg_ok a' = true ->
  process_config st a pos = Ok s -> exists s', process_config st' a' pos' = Ok s'.
Proof.
  intros Ha Hc H. apply process_config_inv in H. destruct H as (c & cfg & A1 & _ & _).
  pose proof (SI_assoc_E s_config a a' is_pos_config Ha) as Hx. rewrite A1 in Hx.
  destruct (assoc s_config a') as [x'|] eqn:A2; cbn [optE] in Hx; [|contradiction].
  apply E_val_l in Hx. subst x'.
  unfold process_config. rewrite A2. unfold cfg_ok in Hc. rewrite A2 in Hc.
  destruct (cs_pos st'); [|eexists; reflexivity].
  destruct cfg as [|[sub v0] [|? ?]]; try discriminate. eexists; reflexivity.
Qed.

Lemma points_new_align d d' nv r : SI d = SI d' -> points_new d nv = Ok r -> exists r', points_new d' nv = Ok r'.
Proof.
  intros H H1. unfold points_new, ci_get in *. rewrite lower_points in *.
  pose proof (SI_assoc_E s_points d d' is_pos_points H) as Ha.
  destruct (assoc s_points d) as [x|], (assoc s_points d') as [x'|]; cbn [optE] in Ha; try contradiction.
  - destruct x as [ex| | |]; try discriminate. einv.
    destruct (calculate_depth ex) as [dep|e]; cbn [bind] in *; [|discriminate].
    destruct (if (dep =? 2)%Z then VList [ex] else ex); try discriminate. eexists; reflexivity.
  - eexists; reflexivity.
Qed.

Lemma process_points_align st st' a a' pos pos' s :
  SR st st' -> SI a = SI a' ->
  process_points st a pos = Ok s -> exists s', process_points st' a' pos' = Ok s'.
Proof.
  intros [Hd Hc] Ha H. apply process_points_inv in H. destruct H as (nv & A1 & D1 & _).
  pose proof (SI_assoc_E s_points a a' is_pos_points Ha) as Hx. rewrite A1 in Hx.
  destruct (assoc s_points a') as [x'|] eqn:A2; cbn [optE] in Hx; [|contradiction].
  apply E_val_l in Hx. subst x'.
  destruct (points_new_align _ _ _ _ Hd D1) as [r' Hr].
  unfold process_points. rewrite A2. fold (points_new (cs_dict st') nv). rewrite Hr. cbn [bind].
  eexists; reflexivity.
Qed.

Lemma nopos_single (l : titems) k sv :
  nopos_keys l = true -> SI l = [(k, sv)] -> exists v, l = [(k, v)] /\ strip_pos_tv v = sv.
Proof.
  intros Hn H. destruct l as [|[k1 v1] [|[k2 v2] r]]; cbn [nopos_keys forallb fst] in Hn.
  - discriminate.
  - rewrite andb_true_r in Hn. apply negb_true_iff in Hn. rewrite SI_cons_nonpos in H by exact Hn.
    injection H as -> <-. eexists; split; reflexivity.
  - apply andb_true_iff in Hn. destruct Hn as [H1 Hn]. apply andb_true_iff in Hn. destruct Hn as [H2 _].
    apply negb_true_iff in H1, H2. rewrite !SI_cons_nonpos in H by assumption. discriminate.
Qed.

Lemma ci_untyped_align ic st st' pos pos' cm cm' i2 i2' s :
  SR st st' -> SI i2 = SI i2' -> nopos_keys i2 = true -> nopos_keys i2' = true -> cfg_ok i2' = true ->
  ci_untyped ic st pos cm i2 = Ok s -> exists s', ci_untyped ic st' pos' cm' i2' = Ok s'.
Proof.
  intros HSR Hi Hn Hn' Hc H.
  destruct i2 as [|[kn v] [|? ?]]; try discriminate.
  assert (Hk : is_pos kn = false).
  { cbn [nopos_keys forallb fst] in Hn. rewrite andb_true_r in Hn. apply negb_true_iff in Hn. exact Hn. }
  rewrite SI_cons_nonpos in Hi by exact Hk. symmetry in Hi.
  destruct (nopos_single _ _ _ Hn' Hi) as (v' & -> & Hv). symmetry in Hv. change (E v v') in Hv.
  assert (Hi2 : SI [(kn, v)] = SI [(kn, v')]).
  { rewrite !SI_cons_nonpos by exact Hk. rewrite Hv. reflexivity. }
  unfold ci_untyped in *.
  destruct (str_eqb kn s_config); [eapply process_config_align; eassumption|].
  destruct (str_eqb kn s_points); [eapply process_points_align; eassumption|].
  destruct (mem_str kn REPEATED_KEYS) eqn:Er; [|eexists; reflexivity].
  cbv zeta in *. destruct HSR as [Hd _].
  destruct (tv_list_append _ v) as [c1|e] eqn:A1; cbn [bind] in H; [|discriminate].
  destruct (append_under_align kn _ _ _ _ _ (repeated_nonpos kn Er) Hd Hv A1) as [r' ->].
  cbn [bind]. eexists; reflexivity.
Qed.

Lemma nopos_del k (l : titems) : nopos_keys l = true -> nopos_keys (od_del k l) = true.
Proof.
  induction l as [|[k1 v1] l IH]; [reflexivity|]. cbn [nopos_keys forallb fst od_del].
  intros H. apply andb_true_iff in H. destruct H as [H1 H2].
  destruct (str_eqb k k1); [exact H2|]. cbn [forallb fst]. rewrite H1. apply IH. exact H2.
Qed.

(* what attr_shaped gives on the untyped branch *)
Lemma attr_shaped_inv items :
  attr_shaped items = true ->
  exists p rest, items = (s_position, TVal p) :: rest /\ nopos_keys rest = true /\ cfg_ok rest = true.
Proof.
  unfold attr_shaped. destruct items as [|[k [p| | |]] rest]; try discriminate.
  intros H. apply andb_true_iff in H. destruct H as [H H3]. apply andb_true_iff in H. destruct H as [H1 H2].
  apply is_pos_eq in H1. subst k. exists p, rest. auto.
Qed.

Lemma items_of_attr p (rest : titems) :
  items1_of ((s_position, TVal p) :: rest) = od_del s_tokens rest /\
  items2_of ((s_position, TVal p) :: rest) = od_del s_comments (od_del s_tokens rest).
Proof. unfold items2_of, items1_of. cbn [od_del]. rewrite str_eqb_refl. split; reflexivity. Qed.

Lemma cfg_ok_items2 (rest : titems) : cfg_ok rest = true -> cfg_ok (od_del s_comments (od_del s_tokens rest)) = true.
Proof.
  unfold cfg_ok. rewrite !get_del_other by discriminate. auto.
Qed.

Lemma composite_item_align ic st st' d d' s :
  SR st st' -> E d d' -> W d = true -> W d' = true ->
  composite_item ic st d = Ok s -> exists s', composite_item ic st' d' = Ok s'.
Proof.
  intros HSR He HW HW' H. rewrite composite_item_stages in *.
  destruct d as [| | |c items]; try discriminate. einv.
  pose proof (SI_assoc_E s_type items items' is_pos_type HS) as Ht.
  destruct (assoc s_type items) as [ty|] eqn:T1, (assoc s_type items') as [ty'|] eqn:T2; cbn [optE] in Ht;
    try contradiction.
  - eapply ci_typed_align; [exact HSR|apply E_dict; exact HS|exact Ht|exact H].
  - cbn [W] in HW, HW'. unfold typed in HW, HW'. rewrite od_mem_assoc in HW, HW'. rewrite T1 in HW. rewrite T2 in HW'.
    cbn [orb] in HW, HW'.
    destruct (attr_shaped_inv _ HW) as (p & rest & -> & N1 & C1).
    destruct (attr_shaped_inv _ HW') as (p' & rest' & -> & N2 & C2).
    cbn [assoc] in *. rewrite str_eqb_refl in *. cbn [bind] in *.
    destruct (items_of_attr p rest) as [I1 I2]. destruct (items_of_attr p' rest') as [I1' I2'].
    pose proof (SI_items2 _ _ HS) as HS2. rewrite I1, I2 in H. rewrite I1', I2'. rewrite I2, I2' in HS2.
    eapply ci_untyped_align; [exact HSR|exact HS2| | | |exact H].
    + apply nopos_del, nopos_del. exact N1.
    + apply nopos_del, nopos_del. exact N2.
    + apply cfg_ok_items2. exact C2.
Qed.

Lemma comp_fold_align ic l l' : Forall2 E l l' -> Ws l = true -> Ws l' = true -> forall st st' s,
  SR st st' -> comp_fold ic l (Ok st) = Ok s -> exists s', comp_fold ic l' (Ok st') = Ok s'.
Proof.
  induction 1 as [|d d' l l' Hd _ IH]; intros HW HW' st st' s HSR H.
  - eexists; reflexivity.
  - rewrite Ws_cons in HW, HW'. apply andb_true_iff in HW, HW'. destruct HW as [W1 W2], HW' as [W1' W2'].
    cbn [comp_fold fold_left comp_step bind] in *.
    destruct (composite_item ic st d) as [s1|e] eqn:E1;
      [|fold (comp_fold ic l (Err e)) in H; rewrite comp_fold_err in H; discriminate].
    destruct (composite_item_align ic st st' d d' s1 HSR Hd W1 W1' E1) as [s1' E2]. rewrite E2.
    eapply IH; [exact W2|exact W2'| |exact H]. eapply composite_item_E; eassumption.
Qed.

Lemma attrs_of_W x : W x = true -> Ws (attrs_of x) = true.
Proof. destruct x; cbn [attrs_of Ws forallb W]; intros H; rewrite ?H; auto. Qed.

Lemma comp_pd_ok ip key : exists pd, comp_pd ip key = Ok pd.
Proof. destruct ip; eexists; reflexivity. Qed.

Lemma comp_main_align ip ip' ic key second second' x :
  E second second' -> W second = true -> W second' = true ->
  comp_main ip ic key second = Ok x -> exists y, comp_main ip' ic key second' = Ok y.
Proof.
  intros Hs HW HW' H. unfold comp_main in *.
  destruct (key_name key) as [kn|e]; cbn [bind] in *; [|discriminate].
  destruct (comp_pd ip key) as [pd|e]; cbn [bind] in H; [|discriminate].
  destruct (comp_pd_ok ip' key) as [pd' ->]. cbn [bind].
  destruct (comp_fold ic (attrs_of second) _) as [st|e] eqn:F1; cbn [bind] in H; [|discriminate].
  destruct (comp_fold_align ic _ _ (attrs_of_E _ _ Hs) (attrs_of_W _ HW) (attrs_of_W _ HW')
              (comp_init kn pd) (comp_init kn pd') st) as [st' F2]; [split; reflexivity|exact F1|].
  rewrite F2. cbn [bind].
  pose proof (comp_fold_hk ic _ s_type _ _ F2 (comp_init_hk kn pd')) as K.
  unfold comp_finish. cbv zeta. destruct (cs_dict st'); [discriminate|]. eexists; reflexivity.
Qed.

Lemma cb_composite_align ip ip' ic xs ys x :
  Forall2 E xs ys -> Ws xs = true -> Ws ys = true ->
  cb_composite ip ic xs = Ok x -> exists y, cb_composite ip' ic ys = Ok y.
Proof.
  intros H HW HW' H1. rewrite cb_composite_stages in *.
  destruct H as [|a a' xs ys Ha H]; [discriminate|].
  destruct H as [|b b' xs ys Hb H]; [eexists; reflexivity|].
  destruct a as [| |l|]; try discriminate. einv.
  destruct l as [|k l]; [discriminate|]. einv. destruct k as [|key| |]; try discriminate. einv.
  rewrite !Ws_cons in HW, HW'. apply andb_true_iff in HW, HW'. destruct HW as [_ HW], HW' as [_ HW'].
  apply andb_true_iff in HW, HW'. destruct HW as [HW _], HW' as [HW' _].
  eapply comp_main_align; eassumption.
Qed.

(* ---------------------------------------------------------------- key-value blocks *)
Definition kv_child_ok (x : tv) : bool :=
  match x with
  | TTok _ => true
  | TSeq [_; _] => true
  | _ => false
  end.
Definition kvshape (l : list tv) : bool := forallb kv_child_ok l.

Definition pairtok (t : tv) : Prop := exists a b, t = TSeq [TTok a; TTok b].

Lemma pvp_fold_err l e : fold_left pvp_step l (Err e) = Err e.
Proof. induction l as [|t l IH]; [reflexivity|exact IH]. Qed.

Lemma pvp_fold_pairs body : kvshape body = true -> forall acc d,
  fold_left pvp_step body acc = Ok d -> Forall pairtok body.
Proof.
  induction body as [|t body IH]; intros HK acc d H; [constructor|].
  cbn [kvshape forallb] in HK. apply andb_true_iff in HK. destruct HK as [K1 K2].
  cbn [fold_left] in H.
  destruct (pvp_step acc t) as [d1|e] eqn:S; [|rewrite pvp_fold_err in H; discriminate].
  constructor; [|eapply IH; [exact K2|exact H]].
  unfold pvp_step in S. destruct acc as [d0|e]; cbn [bind] in S; [|discriminate].
  destruct t as [|tk|l|]; try discriminate.
  destruct l as [|a [|b [|c r]]]; try discriminate.
  cbn [seq_item_value nth_tv nth_error bind] in S.
  destruct a as [|ta| |]; try discriminate. destruct b as [|tb| |]; try discriminate.
  exists ta, tb. reflexivity.
Qed.

Lemma flatten_pairs body : Forall pairtok body ->
  exists fl, flatten body = Ok fl /\ Forall (fun x => exists t, x = TTok t) fl.
Proof.
  induction 1 as [|t body (a & b & ->) _ (fl & Hf & Ht)]; [exists []; split; [reflexivity|constructor]|].
  cbn [flatten]. rewrite Hf. cbn [bind]. eexists. split; [reflexivity|].
  cbn [app]. constructor; [eexists; reflexivity|]. constructor; [eexists; reflexivity|]. exact Ht.
Qed.

Lemma mapM_pos_pair_toks fl : Forall (fun x => exists t, x = TTok t) fl -> exists ps, mapM pos_pair fl = Ok ps.
Proof.
  induction 1 as [|x fl (t & ->) _ (ps & IH)]; [eexists; reflexivity|].
  cbn [mapM pos_pair bind]. rewrite IH. eexists; reflexivity.
Qed.

Lemma create_position_dict_pairs key body : Forall pairtok body -> exists pd, create_position_dict key (Some body) = Ok pd.
Proof.
  intros H. unfold create_position_dict. destruct body as [|t body]; [eexists; reflexivity|].
  destruct (flatten_pairs _ H) as (fl & -> & Ht). cbn [bind].
  destruct (mapM_pos_pair_toks _ Ht) as [ps ->]. eexists; reflexivity.
Qed.

Lemma kvshape_removelast l : kvshape l = true -> kvshape (removelast l) = true.
Proof.
  induction l as [|a l IH]; [reflexivity|]. intros H. cbn [kvshape forallb] in H.
  apply andb_true_iff in H. destruct H as [H1 H2]. destruct l as [|b l]; [reflexivity|].
  change (kvshape (a :: removelast (b :: l)) = true). cbn [kvshape forallb]. rewrite H1. apply IH. exact H2.
Qed.

Lemma cct_body_kv l : kvshape l = true ->
  mapM (fun t => match t with
                 | TDict _ items => match assoc s_tokens items with Some x => Ok x | None => vfail end
                 | _ => Ok t
                 end) l = Ok l.
Proof.
  induction l as [|a l IH]; [reflexivity|]. intros H. cbn [kvshape forallb] in H.
  apply andb_true_iff in H. destruct H as [H1 H2]. cbn [mapM]. rewrite (IH H2).
  destruct a; try discriminate; reflexivity.
Qed.

Lemma check_composite_tokens_kv ty ys key body :
  kvshape ys = true -> check_composite_tokens ty ys = Ok (key, body) -> kvshape body = true.
Proof.
  unfold check_composite_tokens. intros HK H.
  destruct ys as [|k [|r0 rest]]; try discriminate.
  destruct (tok_of k) as [key0|e]; cbn [bind] in H; [|discriminate].
  destruct (tok_str key0) as [ks|e]; cbn [bind] in H; [|discriminate].
  destruct (match last_opt (r0 :: rest) with Some x => tok_of x | None => vfail end) as [lastt|e];
    cbn [bind] in H; [|discriminate].
  destruct (tok_str lastt) as [ls|e]; cbn [bind] in H; [|discriminate].
  destruct (_ && _); [|discriminate].
  cbn [kvshape forallb] in HK. apply andb_true_iff in HK. destruct HK as [_ HK].
  pose proof (kvshape_removelast (r0 :: rest) HK) as HR.
  rewrite (cct_body_kv _ HR) in H. cbn [bind] in H. injection H as _ <-. exact HR.
Qed.

Lemma process_value_pairs_align ip ip' ty xs ys x :
  Forall2 E xs ys -> ip' = false \/ kvshape ys = true ->
  process_value_pairs ip xs ty = Ok x -> exists y, process_value_pairs ip' ys ty = Ok y.
Proof.
  intros H Hg H1. rewrite process_value_pairs_stages in *.
  pose proof (check_composite_tokens_E ty xs ys H) as Hc.
  destruct (check_composite_tokens ty xs) as [[key body]|e]; cbn [bind] in H1; [|discriminate].
  destruct (check_composite_tokens ty ys) as [[key' body']|e] eqn:C2; cbn [rrel] in Hc; [|contradiction].
  destruct Hc as [Hk Hb]. cbn [fst snd bind] in *. subst key'.
  destruct (key_name key) as [kn|e]; cbn [bind] in *; [|discriminate].
  rewrite (pvp_fold_E _ _ Hb).
  destruct (fold_left pvp_step body (Ok [])) as [d|e] eqn:F; cbn [bind] in *; [|discriminate].
  assert (Hp : exists d1, pvp_pos ip' key body' d = Ok d1).
  { unfold pvp_pos. destruct ip'; [|eexists; reflexivity].
    destruct Hg as [Hg|Hg]; [discriminate|].
    pose proof (check_composite_tokens_kv _ _ _ _ Hg C2) as HK.
    rewrite <- (pvp_fold_E _ _ Hb) in F.
    destruct (create_position_dict_pairs key body' (pvp_fold_pairs _ HK _ _ F)) as [pd ->].
    cbn [bind]. eexists; reflexivity. }
  destruct Hp as [d1 ->]. cbn [bind]. eexists; reflexivity.
Qed.

(* ---------------------------------------------------------------- every callback *)
Definition is_kv (d : N) : bool :=
  (d =? CB_values) || (d =? CB_metadata) || (d =? CB_validation) || (d =? CB_connectionoptions).

Lemma callback_align ip ip' ic d xs ys x :
  Forall2 E xs ys -> Ws xs = true -> Ws ys = true ->
  ip' = false \/ kvshape ys = true \/ is_kv d = false ->
  callback ip ic d xs = Ok x -> exists y, callback ip' ic d ys = Ok y.
Proof.
  intros H HW HW' Hg H1.
  assert (G : forall f, ER (f xs) (f ys) -> f xs = Ok x -> exists y, f ys = Ok y).
  { intros f HR A. rewrite A in HR. destruct (f ys); [eexists; reflexivity|contradiction]. }
  assert (G2 : forall f, f ys = f xs -> f xs = Ok x -> exists y, f ys = Ok y).
  { intros f HR A. rewrite HR, A. eexists; reflexivity. }
  unfold is_kv in Hg. unfold callback in *.
  repeat match type of H1 with
         | (if ?c then _ else _) = _ => destruct c
         end.
  all: try discriminate.
  all: try (eapply cb_composite_align; eassumption).
  all: try (eapply process_value_pairs_align; [exact H| |exact H1];
            destruct Hg as [Hg|[Hg|Hg]]; [left; exact Hg|right; exact Hg|cbn in Hg; discriminate Hg]).
  all: try (revert H1; first
    [ apply (G cb_start), cb_start_E, H
    | apply (G cb_attr), cb_attr_E, H
    | apply (G cb_projection), cb_projection_E, H
    | apply (G cb_config), cb_config_E, H
    | apply (G (process_pair_lists _)), process_pair_lists_E, H
    | apply (G cb_first), cb_first_E, H
    | apply (G (cb_len _)), cb_len_E, H
    | apply (G2 cb_comparison), cb_comparison_E, H
    | apply (G2 (fun t => cb_binary t _ _ _)), cb_binary_E, H
    | apply (G2 (fun t => cb_prefix t _ _)), cb_prefix_E, H
    | apply (G2 cb_expression), cb_expression_E, H
    | apply (G2 cb_func_call), cb_func_call_E, H
    | apply (G2 cb_func_params), cb_func_params_E, H
    | apply (G2 cb_attr_bind), cb_attr_bind_E, H
    | apply (G2 (cb_bool _)), cb_bool_E, H
    | apply (G2 cb_int), cb_int_E, H
    | apply (G2 cb_float), cb_float_E, H
    | apply (G2 cb_hexcolor), cb_hexcolor_E, H
    | apply (G2 cb_list), cb_list_E, H ]).
  all: eexists; reflexivity.
Qed.

(* ---------------------------------------------------------------- the driver *)
Lemma tr_list_E ip ip' ic cs : forall xs ys,
  tr_list ip ic cs = Ok xs -> tr_list ip' ic cs = Ok ys -> Forall2 E xs ys.
Proof.
  induction cs as [|c cs IH]; intros xs ys L1 L2.
  - cbn in L1, L2. injection L1 as <-. injection L2 as <-. constructor.
  - cbn [tr_list] in L1, L2.
    destruct (tr_main ip ic c) as [x1|e] eqn:T1; cbn [bind] in L1; [|discriminate].
    destruct (tr_main ip' ic c) as [y1|e] eqn:T2; cbn [bind] in L2; [|discriminate].
    fold (tr_list ip ic cs) in L1. fold (tr_list ip' ic cs) in L2.
    destruct (tr_list ip ic cs) as [xs1|e]; cbn [bind] in L1; [|discriminate].
    destruct (tr_list ip' ic cs) as [ys1|e]; cbn [bind] in L2; [|discriminate].
    injection L1 as <-. injection L2 as <-. constructor; [|apply IH; reflexivity].
    exact (tr_main_E ip ip' ic c c x1 y1 (Grel_refl c) T1 T2).
Qed.

Lemma tr_list_W ip ic cs : forall xs, forallb gwf cs = true -> tr_list ip ic cs = Ok xs -> Ws xs = true.
Proof.
  induction cs as [|c cs IH]; intros xs HG L.
  - cbn in L. injection L as <-. reflexivity.
  - cbn [forallb] in HG. apply andb_true_iff in HG. destruct HG as [Hc HG]. cbn [tr_list] in L.
    destruct (tr_main ip ic c) as [x1|e] eqn:T1; cbn [bind] in L; [|discriminate].
    fold (tr_list ip ic cs) in L.
    destruct (tr_list ip ic cs) as [xs1|e]; cbn [bind] in L; [|discriminate].
    injection L as <-. rewrite Ws_cons, (tr_main_W ip ic c x1 Hc T1). apply IH; [exact HG|reflexivity].
Qed.

(* shape guard for the other direction: the children of a key-value block are
   tokens (the keyword, END) and pair nodes - what the grammar produces *)
Definition len2 (d : N) : bool :=
  (d =? CB_string_pair) || (d =? CB_attr_bind_pair) || (d =? CB_attr_mixed_pair) || (d =? CB_num_pair)
  || (d =? CB_hexcolorrange).

Definition kv_node (c : gtree) : bool :=
  match c with
  | GTok _ => true
  | GNode d _ _ => len2 d
  | GVal _ => false
  end.

Fixpoint gkv (g : gtree) : bool :=
  match g with
  | GNode d cs m => (if is_kv d then forallb kv_node cs else true) && forallb gkv cs
  | _ => true
  end.

Lemma len2_callback ip ic d t : len2 d = true -> callback ip ic d t = cb_len 2 t.
Proof.
  unfold len2. intros H.
  repeat (apply orb_true_iff in H; destruct H as [H|H]); apply N.eqb_eq in H; subst d; reflexivity.
Qed.

Lemma tr_list_kv ip ic cs : forall ys, forallb kv_node cs = true -> tr_list ip ic cs = Ok ys -> kvshape ys = true.
Proof.
  induction cs as [|c cs IH]; intros ys HK L.
  - cbn in L. injection L as <-. reflexivity.
  - cbn [forallb] in HK. apply andb_true_iff in HK. destruct HK as [Hc HK]. cbn [tr_list] in L.
    destruct (tr_main ip ic c) as [y1|e] eqn:T1; cbn [bind] in L; [|discriminate].
    fold (tr_list ip ic cs) in L.
    destruct (tr_list ip ic cs) as [ys1|e]; cbn [bind] in L; [|discriminate].
    injection L as <-. pose proof (IH ys1 HK eq_refl) as Hr. unfold kvshape in *. cbn [forallb]. rewrite Hr, andb_true_r.
    destruct c as [t|d cs' m|v]; [| |discriminate].
    + cbn in T1. injection T1 as <-. reflexivity.
    + cbn [kv_node] in Hc. rewrite tr_main_node in T1.
      destruct (tr_list ip ic cs') as [zs|e]; cbn [bind] in T1; [|discriminate].
      rewrite (len2_callback ip ic d zs Hc) in T1. unfold cb_len in T1.
      destruct zs as [|a [|b [|c r]]]; try discriminate. injection T1 as <-. reflexivity.
Qed.

Theorem tr_main_align ip ip' ic : forall g x,
  gwf g = true -> ip' = false \/ gkv g = true ->
  tr_main ip ic g = Ok x -> exists y, tr_main ip' ic g = Ok y.
Proof.
  fix IH 1. intros g x HG HK H. destruct g as [t|d cs m|v]; try (eexists; reflexivity).
  rewrite tr_main_node in *. cbn [gwf] in HG.
  destruct (tr_list ip ic cs) as [xs|e] eqn:L1; cbn [bind] in H; [|discriminate].
  assert (HL : exists ys, tr_list ip' ic cs = Ok ys).
  { assert (HK' : ip' = false \/ forallb gkv cs = true).
    { destruct HK as [HK|HK]; [left; exact HK|right]. cbn [gkv] in HK. apply andb_true_iff in HK. apply HK. }
    clear H HK. revert xs L1.
    induction cs as [|c cs IHcs]; intros xs L1; [eexists; reflexivity|].
    cbn [forallb] in HG. apply andb_true_iff in HG. destruct HG as [Hc HG].
    assert (HKc : ip' = false \/ gkv c = true).
    { destruct HK' as [HK'|HK']; [left; exact HK'|right]. cbn [forallb] in HK'. apply andb_true_iff in HK'. apply HK'. }
    assert (HKs : ip' = false \/ forallb gkv cs = true).
    { destruct HK' as [HK'|HK']; [left; exact HK'|right]. cbn [forallb] in HK'. apply andb_true_iff in HK'. apply HK'. }
    cbn [tr_list] in *.
    destruct (tr_main ip ic c) as [x1|e] eqn:T1; cbn [bind] in L1; [|discriminate].
    destruct (IH c x1 Hc HKc T1) as [y1 ->]. cbn [bind].
    fold (tr_list ip ic cs) in L1. fold (tr_list ip' ic cs).
    destruct (tr_list ip ic cs) as [xs1|e] eqn:L1'; cbn [bind] in L1; [|discriminate].
    destruct (IHcs HG HKs xs1 eq_refl) as [ys1 ->]. cbn [bind]. eexists; reflexivity. }
  destruct HL as [ys L2]. rewrite L2. cbn [bind].
  eapply callback_align; [exact (tr_list_E ip ip' ic cs xs ys L1 L2)| | | |exact H].
  - eapply tr_list_W; eassumption.
  - eapply tr_list_W; eassumption.
  - destruct HK as [HK|HK]; [left; exact HK|right]. cbn [gkv] in HK. apply andb_true_iff in HK. destruct HK as [HK _].
    destruct (is_kv d); [left|right; reflexivity]. eapply tr_list_kv; eassumption.
Qed.

(* ================================================================ failure alignment: statements *)
(* positions on succeeds => positions off succeeds *)
Theorem position_alignment_tr_main_on_to_off :
  forall ic g x, gwf g = true -> tr_main true ic g = Ok x -> exists y, tr_main false ic g = Ok y.
Proof. intros ic g x HG H. eapply tr_main_align; [exact HG|left; reflexivity|exact H]. Qed.

(* positions off succeeds => positions on succeeds, for trees whose key-value
   blocks have the shape the grammar gives them (gkv) *)
Theorem position_alignment_tr_main_off_to_on_guarded :
  forall ic g y, gwf g = true -> gkv g = true -> tr_main false ic g = Ok y -> exists x, tr_main true ic g = Ok x.
Proof. intros ic g y HG HK H. eapply tr_main_align; [exact HG|right; exact HK|exact H]. Qed.

(* every parser tree satisfies the leaf condition *)
Theorem position_alignment_parser_tree_on_to_off :
  forall ic (t : tree) x, tr_main true ic (gtree_of t) = Ok x -> exists y, tr_main false ic (gtree_of t) = Ok y.
Proof. intros ic t x. apply position_alignment_tr_main_on_to_off. apply gwf_gtree_of. Qed.

Theorem position_alignment_parser_tree_off_to_on_guarded :
  forall ic (t : tree) y, gkv (gtree_of t) = true ->
  tr_main false ic (gtree_of t) = Ok y -> exists x, tr_main true ic (gtree_of t) = Ok x.
Proof. intros ic t y HK. apply position_alignment_tr_main_off_to_on_guarded; [apply gwf_gtree_of|exact HK]. Qed.

(* without the shape guard the second direction is FALSE on arbitrary trees (not
   on grammar-shaped ones): a METADATA block whose pair node has a third child
   that is not a token; create_position_dict flattens the whole pair and asks
   every element for .line *)
Definition cex_tok (ty : N) (s : String.string) : token := mk_token ty (Str s) 0 1 1 1 1 0.
Arguments cex_tok ty s%string.
Definition cex_kv_tree : tree :=
  Node CB_metadata
    [Tok (cex_tok T_UNQUOTED_STRING "METADATA");
     Node CB_colorrange
       [Tok (cex_tok T_UNQUOTED_STRING "a"); Tok (cex_tok T_UNQUOTED_STRING "b");
        Node CB_func_params [] meta0;
        Tok (cex_tok T_UNQUOTED_STRING "c"); Tok (cex_tok T_UNQUOTED_STRING "d");
        Tok (cex_tok T_UNQUOTED_STRING "e")] meta0;
     Tok (cex_tok T_UNQUOTED_STRING "END")] meta0.

Theorem position_alignment_off_to_on_unguarded_refuted :
  exists ic (t : tree),
    (exists y, tr_main false ic (gtree_of t) = Ok y) /\ tr_main true ic (gtree_of t) = Err LarkVisitError.
Proof.
  exists false, cex_kv_tree. split; [eexists; vm_compute; reflexivity|vm_compute; reflexivity].
Qed.

(* ---------------------------------------------------------------- lifted to transform / loads, comments off *)
Lemma transform_nocomments ip t : transform ip false t = tr_main ip false (canonize (gtree_of t)).
Proof. reflexivity. Qed.

(* PARTIAL: include_comments=False only.  For include_comments=True the
   alignment of the comments pass (ctr / comments_callback) is proved in
   Proofs/C13U_Comments.v under one more explicit guard (gnp); the both-succeed
   theorems above cover both comment modes without any guard. *)
Theorem position_alignment_transform_on_to_off_partial :
  forall t x, transform true false t = Ok x -> exists y, transform false false t = Ok y.
Proof.
  intros t x. rewrite !transform_nocomments. apply position_alignment_tr_main_on_to_off.
  apply gwf_canonize, gwf_gtree_of.
Qed.

Theorem position_alignment_loads_on_to_off_partial :
  forall text v, loads true false text = Ok v -> exists w, loads false false text = Ok w.
Proof.
  intros text v H. unfold loads in *.
  destruct (parse_tree false text) as [t|e]; cbn [bind] in *; [|discriminate].
  destruct (transform true false t) as [x|e] eqn:T1; cbn [bind] in H; [|discriminate].
  destruct (position_alignment_transform_on_to_off_partial t x T1) as [y ->]. cbn [bind].
  apply tv_to_value_total.
Qed.

(* PARTIAL: include_comments=False only, and under the shape guard on the tree
   the parser returned (not proved here for every parse: no grammar-conformance
   theorem for parse_text is available to this file) *)
Theorem position_alignment_loads_off_to_on_partial :
  forall text w,
  (forall t, parse_tree false text = Ok t -> gkv (canonize (gtree_of t)) = true) ->
  loads false false text = Ok w -> exists v, loads true false text = Ok v.
Proof.
  intros text w HK H. unfold loads in *.
  destruct (parse_tree false text) as [t|e]; cbn [bind] in *; [|discriminate].
  destruct (transform false false t) as [y|e] eqn:T1; cbn [bind] in H; [|discriminate].
  rewrite transform_nocomments in *.
  destruct (position_alignment_tr_main_off_to_on_guarded false _ y
              (gwf_canonize _ (gwf_gtree_of t)) (HK t eq_refl) T1) as [x ->].
  cbn [bind]. apply tv_to_value_total.
Qed.

(* the guard is not vacuous: it holds of a real parse with a METADATA block *)
Example gkv_holds_on_a_parse :
  match parse_tree false (Str "MAP NAME 'x' METADATA 'a' 'b' ""c"" ""d"" END LAYER TYPE POINT END END") with
  | Ok t => gkv (canonize (gtree_of t))
  | Err _ => false
  end = true.
Proof. vm_compute. reflexivity. Qed.
