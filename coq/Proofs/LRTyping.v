(* Symbol typing for the LR driver (Model/LR.v), in the validator style of
   Proofs/LRFacts.v.

   LRFacts shows that on a table passing [table_ok] the driver never fails
   internally.  This file shows that the values it builds CONFORM TO THE
   GRAMMAR:

   1. [has_sym g x v] : the value v "has symbol" x, i.e. it is a token of the
      terminal type x, or it was produced by reducing a rule with origin x
      from values that have the symbols of the rule's expansion.  The two
      ways Lark's tree builder (LR.build) can produce a value are mirrored
      exactly:
        - a Node named [r_name r] whose children are [filtered r vals]
          (ChildFilterLALR_NoPlaceholders: kept children, children of inlined
          _rules spliced in) - this is also how an inlined [_rule] itself is
          represented on the value stack: as a Node that the parent's filter
          later splices;
        - for a [?rule] (ExpandSingleChild) whose filtered list is a singleton
          [c]: the child c itself, possibly with its top meta rewritten by
          PropagatePositions ([remeta]).
   2. [wft g ss vs] : the stack-typing invariant - the value above every edge
      s --x--> s' of the state stack has symbol x.  [feed_typed] /
      [parse_loop_typed] : preserved by the driver on every table passing
      LRFacts.table_ok (whose [walk_back] check already establishes that
      every backward path of length |alpha| from a state reducing A -> alpha
      spells alpha; it is re-used here, not duplicated).  [acc_ok] adds the
      "unique accessing symbol" check for ALL states and [wft_acc] restates
      the invariant with [acc].
   3. [conforms g t] : every Node d cs m of t, at every depth, was built by a
      rule r of g with callback name d from values whose symbols are r's
      expansion, cs being r's filter applied to these values
      ([conforms_subtree] says it node by node).
      [parse_text_conforms] : every tree returned by parse_text conforms.
      [conforms_arity] : a callback name all of whose rules keep n children
      only labels Nodes with n children ([fixed_arity], boolean).
   4. A shape analysis (abstract interpretation of the rules, [infer], checked
      by the boolean [closed]) bounds, per symbol, the root shapes of its
      values and, per callback name, the shapes of the children of its nodes.
      Its soundness theorem [has_sym_shaped] is generic in the grammar.
   5. On the generated grammar: [parse_text_root_typed] (the returned tree has
      the start symbol), [parse_tree_conforms] / [parse_tree_strip_conforms]
      (Api.parse_tree; with include_comments the comment pass rewrites metas,
      so the statement about the returned tree itself is made on the tree with
      metas erased, [strip]; typing is insensitive to metas: [has_sym_strip]),
      [parse_tree_shaped], [parse_text_pair_arity].
   6. First application: [parse_tree_gkv_copy], the guard needed by
      Proofs/C13U.v, proved for a verbatim copy of C13U's definition (Module
      GkvCopy) so that this file does not depend on C13U;
      Proofs/LRTyping_Gkv.v identifies the copy with C13U.gkv
      ([parse_tree_gkv]).

   The validator consists of LRFacts.table_ok + LRFacts.types_ok (existing),
   [acc_ok] and [closed] (new).  Every computation on the generated grammar is
   a separate small Lemma closed by vm_compute (named the_grammar_...):
     GrammarFacts.the_grammar_table_ok, GrammarFacts.the_grammar_types_ok,
     the_grammar_acc_ok, the_grammar_root_symbol, the_grammar_shapes_closed,
     the_grammar_kv_children, the_grammar_pair_arity. *)
From MF Require Import Lib.Base Lib.Regex Model.GrammarTypes Model.Lexer Model.LR Proofs.LRFacts.
Open Scope N_scope.

(* ================================================================ has_sym *)
(* the child list the tree builder hands to the callback of rule r *)
Definition filtered (r : rule_info) (children : list tree) : res (list tree) :=
  match r_filter r with
  | Some inc => apply_filter inc children
  | None => Ok children
  end.

(* ExpandSingleChild fires *)
Definition collapses (r : rule_info) (cs : list tree) : bool :=
  r_expand1 r && match cs with [_] => true | _ => false end.

(* same value up to the meta of the root (PropagatePositions rewrites it) *)
Inductive remeta : tree -> tree -> Prop :=
| rm_tok t : remeta (Tok t) (Tok t)
| rm_node d cs m m' : remeta (Node d cs m) (Node d cs m').

Inductive has_sym (g : grammar) : N -> tree -> Prop :=
| hs_tok t : is_term g (ttype t) = true -> has_sym g (ttype t) (Tok t)
| hs_node r vals cs m :
    In r (g_rules g) -> Forall2 (has_sym g) (r_expansion r) vals ->
    filtered r vals = Ok cs -> collapses r cs = false ->
    has_sym g (r_origin r) (Node (r_name r) cs m)
| hs_collapse r vals c c' :
    In r (g_rules g) -> Forall2 (has_sym g) (r_expansion r) vals ->
    filtered r vals = Ok [c] -> r_expand1 r = true -> remeta c c' ->
    has_sym g (r_origin r) c'.

(* induction principle giving the hypothesis for the nested values *)
Section has_sym_ind'.
  Variable g : grammar.
  Variable P : N -> tree -> Prop.
  Hypothesis Htok : forall t, is_term g (ttype t) = true -> P (ttype t) (Tok t).
  Hypothesis Hnode : forall r vals cs m,
    In r (g_rules g) -> Forall2 (has_sym g) (r_expansion r) vals -> Forall2 P (r_expansion r) vals ->
    filtered r vals = Ok cs -> collapses r cs = false -> P (r_origin r) (Node (r_name r) cs m).
  Hypothesis Hcollapse : forall r vals c c',
    In r (g_rules g) -> Forall2 (has_sym g) (r_expansion r) vals -> Forall2 P (r_expansion r) vals ->
    filtered r vals = Ok [c] -> r_expand1 r = true -> remeta c c' -> P (r_origin r) c'.

  Fixpoint has_sym_ind' (x : N) (v : tree) (H : has_sym g x v) {struct H} : P x v :=
    match H in has_sym _ x0 v0 return P x0 v0 with
    | hs_tok _ t Ht => Htok t Ht
    | hs_node _ r vals cs m Hin HF Hf Hc =>
        Hnode r vals cs m Hin HF
          ((fix go (l : list N) (l' : list tree) (F : Forall2 (has_sym g) l l') {struct F} : Forall2 P l l' :=
              match F in Forall2 _ l0 l0' return Forall2 P l0 l0' with
              | Forall2_nil _ => Forall2_nil _
              | Forall2_cons _ _ h t => Forall2_cons _ _ (has_sym_ind' _ _ h) (go _ _ t)
              end) _ _ HF) Hf Hc
    | hs_collapse _ r vals c c' Hin HF Hf He Hr =>
        Hcollapse r vals c c' Hin HF
          ((fix go (l : list N) (l' : list tree) (F : Forall2 (has_sym g) l l') {struct F} : Forall2 P l l' :=
              match F in Forall2 _ l0 l0' return Forall2 P l0 l0' with
              | Forall2_nil _ => Forall2_nil _
              | Forall2_cons _ _ h t => Forall2_cons _ _ (has_sym_ind' _ _ h) (go _ _ t)
              end) _ _ HF) Hf He Hr
    end.
End has_sym_ind'.

Lemma remeta_refl v : remeta v v.
Proof. destruct v; constructor. Qed.

Lemma remeta_trans a b c : remeta a b -> remeta b c -> remeta a c.
Proof. intros H1 H2. inversion H1; subst; inversion H2; subst; constructor. Qed.

Lemma propagate_remeta children v : remeta v (propagate children v).
Proof. destruct v as [t|d cs m]; cbn [propagate]; constructor. Qed.

Lemma has_sym_remeta g x v v' : has_sym g x v -> remeta v v' -> has_sym g x v'.
Proof.
  intros H Hr. destruct H as [t Ht|r vals cs m Hin HF Hf Hc|r vals c c' Hin HF Hf He Hr0].
  - inversion Hr; subst. constructor. exact Ht.
  - inversion Hr; subst. eapply hs_node; eassumption.
  - eapply hs_collapse; try eassumption. eapply remeta_trans; eassumption.
Qed.

(* what LR.build returns has the symbol of the rule's origin *)
Lemma build_typed g pp r children v :
  In r (g_rules g) -> Forall2 (has_sym g) (r_expansion r) children ->
  build pp r children = Ok v -> has_sym g (r_origin r) v.
Proof.
  intros Hin HF H. unfold build in H.
  change (match r_filter r with Some inc => apply_filter inc children | None => Ok children end)
    with (filtered r children) in H.
  destruct (filtered r children) as [f|e] eqn:Ef; cbn [bind] in H; [|discriminate].
  injection H as <-.
  assert (Hr : forall n, remeta n (if pp then propagate children n else n))
    by (intros n; destruct pp; [apply propagate_remeta|apply remeta_refl]).
  destruct (r_expand1 r) eqn:Ex.
  - destruct f as [|c [|c2 f']].
    + eapply has_sym_remeta; [|apply Hr]. eapply hs_node; try eassumption.
      unfold collapses. rewrite Ex. reflexivity.
    + eapply hs_collapse; try eassumption. apply Hr.
    + eapply has_sym_remeta; [|apply Hr]. eapply hs_node; try eassumption.
      unfold collapses. rewrite Ex. reflexivity.
  - eapply has_sym_remeta; [|apply Hr]. eapply hs_node; try eassumption.
    unfold collapses. rewrite Ex. reflexivity.
Qed.

(* ================================================================ the stack-typing invariant *)
(* the value above every edge s --x--> s' of the state stack has symbol x *)
Inductive wft (g : grammar) : list N -> list tree -> Prop :=
| wft_start : wft g [g_start g] []
| wft_push s ss vs x s' v :
    wft g (s :: ss) vs -> goto g s x = Some s' -> has_sym g x v -> wft g (s' :: s :: ss) (v :: vs).

(* typed values satisfy the weaker predicate of LRFacts: wft refines wf *)
Lemma has_sym_val_ok g x v : has_sym g x v -> val_ok g x v.
Proof.
  intros H Ht Ha. destruct H as [t Hterm|r vals cs m Hin HF Hf Hc|r vals c c' Hin HF Hf He Hr].
  - congruence.
  - exact I.
  - pose proof (always_node_rule g r Hin Ha). congruence.
Qed.

Lemma wft_wf g ss vs : wft g ss vs -> wf g ss vs.
Proof.
  induction 1 as [|s ss vs x s' v H IH Hg Hv]; [constructor|].
  eapply wf_push; [exact IH|exact Hg|apply has_sym_val_ok; exact Hv].
Qed.

(* popping the right-hand side of a reduce action checked by LRFacts.walk_back:
   the popped values have the symbols of the right-hand side *)
Lemma walk_back_pops_typed g : forall rhs_rev cur tops s ss vs,
  walk_back g rhs_rev cur = Some tops -> In s cur -> wft g (s :: ss) vs ->
  exists ps pv top ss1 vs1,
    pop_n (length rhs_rev) (s :: ss) = Some (ps, top :: ss1) /\
    pop_n (length rhs_rev) vs = Some (pv, vs1) /\
    In top tops /\ wft g (top :: ss1) vs1 /\
    Forall2 (has_sym g) rhs_rev pv.
Proof.
  induction rhs_rev as [|x rest IH]; intros cur tops s ss vs Hw Hin Hwf; cbn [walk_back] in Hw.
  - injection Hw as <-. exists [], [], s, ss, vs. cbn [pop_n length]. repeat split; auto.
  - destruct (forallb (fun s0 => label_is g s0 x && negb (s0 =? g_start g)) cur) eqn:Ef; [|discriminate].
    rewrite forallb_forall in Ef. specialize (Ef s Hin). apply andb_true_iff in Ef. destruct Ef as [Hl Hns].
    apply negb_true_iff, N.eqb_neq in Hns.
    inversion Hwf as [|s0 ss0 vs0 x' s' v Hwf0 Hg Hv]; subst; [congruence|].
    assert (x' = x) by (eapply label_unique; eassumption). subst x'.
    destruct (IH (back1 g cur) tops s0 ss0 vs0 Hw (pred_in_back1 g s0 x s cur Hg Hin) Hwf0)
      as (ps & pv & top & ss1 & vs1 & P1 & P2 & P3 & P4 & P5).
    exists (s :: ps), (v :: pv), top, ss1, vs1. cbn [pop_n length]. rewrite P1, P2.
    split; [reflexivity|]. split; [reflexivity|]. split; [exact P3|]. split; [exact P4|].
    constructor; assumption.
Qed.

(* ParserState.feed_token preserves the typing; the value it returns at the
   end of input sits above an edge into the end state *)
Theorem feed_typed g pp tok is_end :
  table_ok g = true ->
  is_term g (ttype tok) = true ->
  forall fuel ss vs,
    wft g ss vs ->
    match feed g pp fuel tok is_end ss vs with
    | FShift ss' vs' => wft g ss' vs'
    | FDone v => exists top x, goto g top x = Some (g_end g) /\ has_sym g x v
    | FErr _ => True
    end.
Proof.
  intros Htab Hterm. induction fuel as [|fuel IH]; intros ss vs Hwf; cbn [feed]; [exact I|].
  destruct ss as [|state ss']; [exact I|].
  destruct (lookup_action g state (ttype tok)) as [[ns|ri]|] eqn:Ela; [| |exact I].
  - (* shift *)
    destruct is_end; [exact I|].
    eapply wft_push; [exact Hwf| |constructor; exact Hterm].
    unfold goto. rewrite Ela. reflexivity.
  - (* reduce *)
    unfold lookup_action in Ela. destruct (nth_N (g_table g) state) as [row|] eqn:Er; [|discriminate].
    pose proof (table_row g state row Htab Er) as Hrow. unfold row_ok in Hrow.
    apply andb_true_iff in Hrow. destruct Hrow as [_ Hrow]. rewrite forallb_forall in Hrow.
    assert (Hri : In ri (dedup (reduce_rules row))).
    { apply In_dedup. unfold reduce_rules. apply in_flat_map. exists (ttype tok, Reduce ri).
      split; [apply assocN_In; exact Ela|left; reflexivity]. }
    specialize (Hrow _ Hri). unfold reduce_ok in Hrow.
    destruct (nth_N (g_rules g) ri) as [r|] eqn:Erule; [|discriminate].
    apply andb_true_iff in Hrow. destruct Hrow as [_ Hwalk].
    destruct (walk_back g (rev (r_expansion r)) [state]) as [tops|] eqn:Ew; [|discriminate].
    destruct (walk_back_pops_typed g _ _ _ state ss' vs Ew (or_introl eq_refl) Hwf)
      as (ps & pv & top & ss1 & vs1 & P1 & P2 & P3 & P4 & P5).
    rewrite rev_length in P1, P2. rewrite P1, P2.
    assert (Hch : Forall2 (has_sym g) (r_expansion r) (rev pv)).
    { apply Forall2_rev in P5. rewrite rev_involutive in P5. exact P5. }
    destruct (build pp r (rev pv)) as [value|e] eqn:Eb; [|exact I].
    pose proof (build_typed g pp r (rev pv) value (nth_N_In' _ _ _ Erule) Hch Eb) as Hval.
    destruct (lookup_action g top (r_origin r)) as [[ns|?]|] eqn:Eg; try exact I.
    assert (Hgo : goto g top (r_origin r) = Some ns) by (unfold goto; rewrite Eg; reflexivity).
    destruct (is_end && (ns =? g_end g)) eqn:Ee.
    + apply andb_true_iff in Ee. destruct Ee as [_ Ee]. apply N.eqb_eq in Ee. subst ns.
      exists top, (r_origin r). split; assumption.
    + apply IH. eapply wft_push; eassumption.
Qed.

(* the whole parse loop: the tree it returns has the symbol entering the end state *)
Theorem parse_loop_typed g h wc :
  table_ok g = true -> types_ok g h = true ->
  forall fuel st ss vs acc po,
    wft g ss vs ->
    snd (parse_loop g h wc fuel st ss vs acc) = Ok po ->
    exists top x, goto g top x = Some (g_end g) /\ has_sym g x (po_tree po).
Proof.
  intros Htab Hty. unfold types_ok in Hty. apply andb_true_iff in Hty. destruct Hty as [Hty Hend].
  apply andb_true_iff in Hty. destruct Hty as [Hlex Hval]. rewrite forallb_forall in Hlex.
  induction fuel as [|fuel IH]; intros st ss vs acc po Hwf H; cbn [parse_loop] in H; [discriminate|].
  destruct ss as [|state ss']; [discriminate|].
  unfold ctx_next in H.
  destruct (nth_N (g_lexer_of_state g) state) as [li|]; [|discriminate].
  destruct (nth_N (g_lexers g) li) as [lx|] eqn:Elx; [|discriminate].
  destruct (next_token g wc lx (S fuel) st) as [t st'|st'|stb] eqn:Ent.
  - destruct (hook h t vs) as [t'|e0] eqn:Eh; [|discriminate].
    assert (Hterm : is_term g (ttype t') = true).
    { destruct (hook_type h t vs t' Eh) as [-> | ->]; [|exact Hval].
      specialize (Hlex lx (or_intror (nth_N_In' _ _ _ Elx))). rewrite forallb_forall in Hlex.
      apply Hlex. eapply next_token_type. exact Ent. }
    pose proof (feed_typed g wc t' false Htab Hterm
                           (reduce_fuel g (state :: ss')) (state :: ss') vs Hwf) as Hf.
    destruct (feed g wc (reduce_fuel g (state :: ss')) t' false (state :: ss') vs) as [ss2 vs2|v|e0] eqn:Ef;
      try discriminate.
    eapply IH; [exact Hf|exact H].
  - match type of H with context [feed g wc ?F ?T true ?SS vs] =>
      assert (Hterm : is_term g (ttype T) = true) by (destruct (ls_last st'); exact Hend);
      pose proof (feed_typed g wc T true Htab Hterm F SS vs Hwf) as Hf;
      destruct (feed g wc F T true SS vs) as [ss2 vs2|v|e0] eqn:Ef
    end; try discriminate.
    injection H as <-. cbn [po_tree]. exact Hf.
  - destruct (next_token g wc (g_root_lexer g) (S fuel) stb); discriminate.
Qed.

Theorem parse_text_typed g h wc text po :
  table_ok g = true -> types_ok g h = true ->
  parse_text g h wc text = Ok po ->
  exists top x, goto g top x = Some (g_end g) /\ has_sym g x (po_tree po).
Proof.
  intros Htab Hty H. unfold parse_text, parse_text_tr in H.
  eapply parse_loop_typed; [exact Htab|exact Hty|apply wft_start|exact H].
Qed.

(* ================================================================ accessing symbols *)
(* the symbol on the first edge found into s; [acc_ok] checks that EVERY edge
   into s carries it (LRFacts.table_ok checks this only for the states met
   when walking back from a reduce action) *)
Definition acc (g : grammar) (s : N) : N :=
  match preds g s with
  | (_, x) :: _ => x
  | [] => 0
  end.

Definition acc_ok (g : grammar) : bool := forallb (fun s => label_is g s (acc g s)) (n_states g).

Lemma goto_target_lt g s x s' :
  table_ok g = true -> goto g s x = Some s' -> s' < N.of_nat (length (g_table g)).
Proof.
  intros Htab Hg. unfold goto, lookup_action in Hg.
  destruct (nth_N (g_table g) s) as [row|] eqn:Er; [|discriminate].
  destruct (assocN x row) as [[t|r]|] eqn:Ea; try discriminate. injection Hg as ->.
  pose proof (table_row g s row Htab Er) as Hrow. unfold row_ok in Hrow.
  apply andb_true_iff in Hrow. destruct Hrow as [Hrow _]. rewrite forallb_forall in Hrow.
  specialize (Hrow _ (assocN_In _ _ _ Ea)). cbn [snd fst] in Hrow.
  apply andb_true_iff in Hrow. destruct Hrow as [_ Hlt]. apply N.ltb_lt in Hlt. exact Hlt.
Qed.

Lemma goto_acc g s x s' :
  table_ok g = true -> acc_ok g = true -> goto g s x = Some s' -> x = acc g s'.
Proof.
  intros Htab Hacc Hg. unfold acc_ok in Hacc. rewrite forallb_forall in Hacc.
  eapply label_unique; [exact Hg|]. apply Hacc. apply in_n_states. eapply goto_target_lt; eassumption.
Qed.

(* the invariant stated with accessing symbols: the i-th value has the
   accessing symbol of the i-th state (the bottom state carries no value) *)
Theorem wft_acc g ss vs :
  table_ok g = true -> acc_ok g = true -> wft g ss vs ->
  length ss = S (length vs) /\
  Forall2 (fun s v => has_sym g (acc g s) v) (firstn (length vs) ss) vs.
Proof.
  intros Htab Hacc. induction 1 as [|s ss vs x s' v H [IHl IH] Hg Hv].
  - split; [reflexivity|constructor].
  - split; [cbn [length]; rewrite <- IHl; reflexivity|].
    cbn [length firstn]. constructor; [|exact IH].
    rewrite <- (goto_acc g s x s' Htab Hacc Hg). exact Hv.
Qed.

(* ================================================================ conformance of trees *)
(* every Node, at every depth, was built by a rule carrying the Node's name
   from values typed by the rule's expansion; its children are what the
   rule's filter keeps of these values *)
Inductive conforms (g : grammar) : tree -> Prop :=
| cf_tok t : conforms g (Tok t)
| cf_node r vals cs m :
    In r (g_rules g) -> Forall2 (has_sym g) (r_expansion r) vals ->
    filtered r vals = Ok cs -> Forall (conforms g) cs ->
    conforms g (Node (r_name r) cs m).

Lemma nth_error_Forall {A} (P : A -> Prop) l i x : Forall P l -> nth_error l i = Some x -> P x.
Proof. intros H E. rewrite Forall_forall in H. apply H. eapply nth_error_In. exact E. Qed.

(* the filter only re-arranges: kept values and children of inlined values *)
Lemma apply_filter_Forall (P : tree -> Prop) children :
  Forall P children -> (forall d cs m, P (Node d cs m) -> Forall P cs) ->
  forall inc out, apply_filter inc children = Ok out -> Forall P out.
Proof.
  intros Hc Hn. induction inc as [|[i ex] inc IH]; intros out H; cbn [apply_filter] in H.
  - injection H as <-. constructor.
  - destruct (nth_error children i) as [c|] eqn:E; [|discriminate].
    destruct (apply_filter inc children) as [rest|e]; cbn [bind] in H; [|discriminate].
    specialize (IH rest eq_refl). pose proof (nth_error_Forall P children i c Hc E) as Hp.
    destruct ex.
    + destruct c as [tk|d kids m]; [discriminate|]. injection H as <-.
      apply Forall_app. split; [eapply Hn; exact Hp|exact IH].
    + injection H as <-. constructor; assumption.
Qed.

Lemma filtered_Forall (P : tree -> Prop) r children out :
  Forall P children -> (forall d cs m, P (Node d cs m) -> Forall P cs) ->
  filtered r children = Ok out -> Forall P out.
Proof.
  intros Hc Hn H. unfold filtered in H. destruct (r_filter r) as [inc|].
  - eapply apply_filter_Forall; eassumption.
  - injection H as <-. exact Hc.
Qed.

Lemma Forall2_Forall_r {A B} (Q : B -> Prop) (l : list A) (l' : list B) :
  Forall2 (fun _ b => Q b) l l' -> Forall Q l'.
Proof. induction 1; constructor; assumption. Qed.

Lemma conforms_remeta g v v' : conforms g v -> remeta v v' -> conforms g v'.
Proof.
  intros H Hr. inversion Hr; subst; [exact H|].
  inversion H; subst. eapply cf_node; eassumption.
Qed.

Lemma conforms_children g d cs m : conforms g (Node d cs m) -> Forall (conforms g) cs.
Proof. intros H. inversion H; subst. assumption. Qed.

Theorem has_sym_conforms g x v : has_sym g x v -> conforms g v.
Proof.
  intros H. induction H as [t Ht|r vals cs m Hin HF IH Hf Hc|r vals c c' Hin HF IH Hf He Hr]
    using has_sym_ind'.
  - constructor.
  - eapply cf_node; try eassumption.
    eapply filtered_Forall; [eapply Forall2_Forall_r; exact IH|apply conforms_children|exact Hf].
  - assert (Hl : Forall (conforms g) [c]).
    { eapply filtered_Forall; [eapply Forall2_Forall_r; exact IH|apply conforms_children|exact Hf]. }
    inversion Hl; subst. eapply conforms_remeta; eassumption.
Qed.

Theorem parse_text_conforms g h wc text po :
  table_ok g = true -> types_ok g h = true ->
  parse_text g h wc text = Ok po -> conforms g (po_tree po).
Proof.
  intros Htab Hty H. destruct (parse_text_typed g h wc text po Htab Hty H) as (top & x & _ & Hs).
  eapply has_sym_conforms. exact Hs.
Qed.

(* the same, said of every node occurring in the tree *)
Inductive subtree : tree -> tree -> Prop :=
| sub_refl t : subtree t t
| sub_child s d cs m c : In c cs -> subtree s c -> subtree s (Node d cs m).

Theorem conforms_subtree g t : conforms g t ->
  forall d cs m, subtree (Node d cs m) t ->
  exists r vals, In r (g_rules g) /\ r_name r = d /\
                 Forall2 (has_sym g) (r_expansion r) vals /\ filtered r vals = Ok cs.
Proof.
  intros Hc d cs m Hs. remember (Node d cs m) as n eqn:En. revert Hc.
  induction Hs as [t|s d' cs' m' c Hin Hs IH]; intros Hc.
  - subst t. inversion Hc; subst. exists r, vals. repeat split; assumption.
  - apply IH; [exact En|]. apply conforms_children in Hc. rewrite Forall_forall in Hc. apply Hc. exact Hin.
Qed.

Lemma conforms_sub g t s : conforms g t -> subtree s t -> conforms g s.
Proof.
  intros Hc Hs. induction Hs as [t|s d cs m c Hin Hs IH]; [exact Hc|].
  apply IH. apply conforms_children in Hc. rewrite Forall_forall in Hc. apply Hc. exact Hin.
Qed.

(* ================================================================ shape analysis *)
(* the root of a value: a token of a given type, or a Node of a given name *)
Inductive shape := STok (ty : N) | SNode (d : N).

Definition shape_eqb (a b : shape) : bool :=
  match a, b with
  | STok x, STok y => x =? y
  | SNode x, SNode y => x =? y
  | _, _ => false
  end.

Lemma shape_eqb_eq a b : shape_eqb a b = true <-> a = b.
Proof.
  destruct a, b; cbn [shape_eqb]; try (split; [discriminate|congruence]);
    rewrite N.eqb_eq; split; congruence.
Qed.

Fixpoint mem_shape (s : shape) (l : list shape) : bool :=
  match l with [] => false | x :: l' => shape_eqb s x || mem_shape s l' end.

Lemma mem_shape_In s l : mem_shape s l = true <-> In s l.
Proof.
  induction l as [|x l IH]; cbn [mem_shape In]; [split; [discriminate|tauto]|].
  rewrite orb_true_iff, IH, shape_eqb_eq. split; intros [H|H]; auto.
Qed.

Definition subset (l1 l2 : list shape) : bool := forallb (fun s => mem_shape s l2) l1.

Lemma subset_In l1 l2 s : subset l1 l2 = true -> In s l1 -> In s l2.
Proof.
  unfold subset. rewrite forallb_forall. intros H Hin. apply mem_shape_In. apply H. exact Hin.
Qed.

Definition shape_of (t : tree) : shape :=
  match t with Tok tk => STok (ttype tk) | Node d _ _ => SNode d end.

(* tables: a list of shape sets indexed by symbol id / by callback id *)
Definition tbl := list (list shape).
Definition get (T : tbl) (i : N) : list shape := match nth_N T i with Some l => l | None => [] end.

(* shapes of what one filter item contributes to the child list *)
Definition abs_item (A C : tbl) (rhs : list N) (p : nat * bool) : list shape :=
  match nth_error rhs (fst p) with
  | None => []
  | Some x =>
      if snd p then flat_map (fun s => match s with SNode d => get C d | STok _ => [] end) (get A x)
      else get A x
  end.

Definition abs_filtered (A C : tbl) (r : rule_info) : list shape :=
  match r_filter r with
  | Some inc => flat_map (abs_item A C (r_expansion r)) inc
  | None => flat_map (get A) (r_expansion r)
  end.

Definition no_inline (inc : list (nat * bool)) : bool := forallb (fun p => negb (snd p)) inc.

(* the filtered list can / must have exactly one element *)
Definition may_single (r : rule_info) : bool :=
  match r_filter r with
  | None => Nat.eqb (length (r_expansion r)) 1
  | Some inc => negb (no_inline inc) || Nat.eqb (length inc) 1
  end.

Definition always_single (r : rule_info) : bool :=
  match r_filter r with
  | None => Nat.eqb (length (r_expansion r)) 1
  | Some inc => no_inline inc && Nat.eqb (length inc) 1
  end.

(* A (per symbol: root shapes of its values) and C (per callback name: shapes
   of the children of its Nodes) are closed under rule r *)
Definition rule_closed (A C : tbl) (r : rule_info) : bool :=
  let F := abs_filtered A C r in
  ((r_expand1 r && always_single r)
   || (mem_shape (SNode (r_name r)) (get A (r_origin r)) && subset F (get C (r_name r))))
  && (negb (r_expand1 r && may_single r) || subset F (get A (r_origin r))).

Definition terminals (g : grammar) : list N := map N.of_nat (seq 0 (length (g_term_names g))).

Definition closed (g : grammar) (A C : tbl) : bool :=
  forallb (rule_closed A C) (g_rules g)
  && forallb (fun x => mem_shape (STok x) (get A x)) (terminals g).

(* every Node of the value, at every depth, has children of the shapes C allows *)
Fixpoint shaped (C : tbl) (v : tree) : bool :=
  match v with
  | Tok _ => true
  | Node d cs _ => forallb (fun c => mem_shape (shape_of c) (get C d)) cs && forallb (shaped C) cs
  end.

Lemma Forall2_nth_r {A B} (R : A -> B -> Prop) l l' i b :
  Forall2 R l l' -> nth_error l' i = Some b -> exists a, nth_error l i = Some a /\ R a b.
Proof.
  intros H. revert i; induction H as [|x y l l' Hxy _ IH]; intros [|i] E; cbn in E; try discriminate.
  - injection E as <-. exists x. split; [reflexivity|exact Hxy].
  - apply IH. exact E.
Qed.

Lemma Forall2_imp {A B} (R R' : A -> B -> Prop) l l' :
  (forall a b, R a b -> R' a b) -> Forall2 R l l' -> Forall2 R' l l'.
Proof. intros H. induction 1; constructor; auto. Qed.

Definition top_shaped (C : tbl) (v : tree) : Prop :=
  match v with
  | Tok _ => True
  | Node d cs _ => Forall (fun c => In (shape_of c) (get C d)) cs
  end.

Lemma shaped_top C v : shaped C v = true -> top_shaped C v.
Proof.
  destruct v as [t|d cs m]; cbn [shaped top_shaped]; [auto|].
  intros H. apply andb_true_iff in H. destruct H as [H _]. rewrite forallb_forall in H.
  apply Forall_forall. intros c Hc. apply mem_shape_In. apply H. exact Hc.
Qed.

Lemma apply_filter_shapes (A C : tbl) rhs vals :
  Forall2 (fun x v => In (shape_of v) (get A x) /\ top_shaped C v) rhs vals ->
  forall inc out, apply_filter inc vals = Ok out ->
  Forall (fun c => In (shape_of c) (flat_map (abs_item A C rhs) inc)) out.
Proof.
  intros HF. induction inc as [|[i ex] inc IH]; intros out H; cbn [apply_filter] in H.
  - injection H as <-. constructor.
  - destruct (nth_error vals i) as [c|] eqn:E; [|discriminate].
    destruct (apply_filter inc vals) as [rest|e]; cbn [bind] in H; [|discriminate].
    specialize (IH rest eq_refl).
    destruct (Forall2_nth_r _ _ _ _ _ HF E) as (x & Ex & Hx & Htop).
    assert (Hrest : Forall (fun c0 => In (shape_of c0) (flat_map (abs_item A C rhs) ((i, ex) :: inc))) rest).
    { eapply Forall_impl; [|exact IH]. cbn beta. intros a Ha. cbn [flat_map]. apply in_or_app. right. exact Ha. }
    destruct ex.
    + destruct c as [tk|d kids m]; [discriminate|]. injection H as <-.
      apply Forall_app. split; [|exact Hrest].
      cbn [top_shaped] in Htop. eapply Forall_impl; [|exact Htop]. cbn beta. intros a Ha.
      cbn [flat_map]. apply in_or_app. left. unfold abs_item. cbn [fst snd]. rewrite Ex.
      apply in_flat_map. exists (SNode d). split; [exact Hx|exact Ha].
    + injection H as <-. constructor; [|exact Hrest].
      cbn [flat_map]. apply in_or_app. left. unfold abs_item. cbn [fst snd]. rewrite Ex. exact Hx.
Qed.

Lemma filtered_shapes (A C : tbl) r vals out :
  Forall2 (fun x v => In (shape_of v) (get A x) /\ top_shaped C v) (r_expansion r) vals ->
  filtered r vals = Ok out ->
  Forall (fun c => In (shape_of c) (abs_filtered A C r)) out.
Proof.
  intros HF H. unfold filtered in H. unfold abs_filtered. destruct (r_filter r) as [inc|].
  - eapply apply_filter_shapes; eassumption.
  - injection H as <-. revert HF. generalize (r_expansion r). intros rhs HF.
    induction HF as [|x v l l' [Hxv _] _ IH]; [constructor|].
    constructor.
    + cbn [flat_map]. apply in_or_app. left. exact Hxv.
    + eapply Forall_impl; [|exact IH]. cbn beta. intros a Ha. cbn [flat_map]. apply in_or_app. right. exact Ha.
Qed.

Lemma apply_filter_length children : forall inc out,
  no_inline inc = true -> apply_filter inc children = Ok out -> length out = length inc.
Proof.
  induction inc as [|[i ex] inc IH]; intros out Hn H; cbn [apply_filter] in H.
  - injection H as <-. reflexivity.
  - unfold no_inline in Hn. cbn [forallb snd] in Hn. apply andb_true_iff in Hn. destruct Hn as [He Hn].
    destruct ex; [discriminate|].
    destruct (nth_error children i) as [c|]; [|discriminate].
    destruct (apply_filter inc children) as [rest|e]; cbn [bind] in H; [|discriminate].
    injection H as <-. cbn [length]. f_equal. apply IH; [exact Hn|reflexivity].
Qed.

Lemma Forall2_length' {A B} (R : A -> B -> Prop) l l' : Forall2 R l l' -> length l = length l'.
Proof. induction 1; cbn [length]; congruence. Qed.

Lemma filtered_single_may {R : N -> tree -> Prop} r vals c :
  Forall2 R (r_expansion r) vals -> filtered r vals = Ok [c] -> may_single r = true.
Proof.
  intros HF H. unfold filtered in H. unfold may_single. destruct (r_filter r) as [inc|].
  - destruct (no_inline inc) eqn:En; [|reflexivity]. cbn [negb orb].
    rewrite <- (apply_filter_length vals inc [c] En H). reflexivity.
  - injection H as ->. rewrite (Forall2_length' _ _ _ HF). reflexivity.
Qed.

Lemma filtered_always_single {R : N -> tree -> Prop} r vals cs :
  Forall2 R (r_expansion r) vals -> always_single r = true -> filtered r vals = Ok cs ->
  exists c, cs = [c].
Proof.
  intros HF Ha H. unfold filtered in H. unfold always_single in Ha.
  assert (L : length cs = 1%nat).
  { destruct (r_filter r) as [inc|].
    - apply andb_true_iff in Ha. destruct Ha as [En El]. apply Nat.eqb_eq in El.
      rewrite (apply_filter_length vals inc cs En H). exact El.
    - injection H as <-. apply Nat.eqb_eq in Ha. rewrite <- (Forall2_length' _ _ _ HF). exact Ha. }
  destruct cs as [|c [|c2 cs']]; try discriminate. exists c. reflexivity.
Qed.

(* all rules named d keep exactly n children: Nodes named d have n children *)
Definition fixed_arity (g : grammar) (d : N) (n : nat) : bool :=
  forallb (fun r => negb (r_name r =? d)
                    || match r_filter r with
                       | None => Nat.eqb (length (r_expansion r)) n
                       | Some inc => no_inline inc && Nat.eqb (length inc) n
                       end) (g_rules g).

Theorem conforms_arity g d n cs m :
  fixed_arity g d n = true -> conforms g (Node d cs m) -> length cs = n.
Proof.
  intros Hfa Hc. inversion Hc as [|r vals cs' m' Hin HF Hf Hcs]; subst.
  unfold fixed_arity in Hfa. rewrite forallb_forall in Hfa. specialize (Hfa r Hin).
  rewrite N.eqb_refl in Hfa. cbn [negb orb] in Hfa. unfold filtered in Hf.
  destruct (r_filter r) as [inc|].
  - apply andb_true_iff in Hfa. destruct Hfa as [En El]. apply Nat.eqb_eq in El.
    rewrite (apply_filter_length vals inc cs En Hf). exact El.
  - injection Hf as <-. apply Nat.eqb_eq in Hfa. rewrite <- (Forall2_length' _ _ _ HF). exact Hfa.
Qed.

Lemma in_terminals g x : is_term g x = true -> In x (terminals g).
Proof.
  unfold is_term, terminals. intros H. apply N.ltb_lt in H.
  apply in_map_iff. exists (N.to_nat x). split; [apply N2Nat.id|]. apply in_seq. lia.
Qed.

Lemma shaped_remeta C v v' : remeta v v' -> shaped C v' = shaped C v /\ shape_of v' = shape_of v.
Proof. intros H. inversion H; subst; split; reflexivity. Qed.

Lemma shaped_node_children C d cs m : shaped C (Node d cs m) = true -> Forall (fun c => shaped C c = true) cs.
Proof.
  cbn [shaped]. intros H. apply andb_true_iff in H. destruct H as [_ H].
  rewrite forallb_forall in H. apply Forall_forall. exact H.
Qed.

(* soundness of the analysis, for every grammar: on closed tables the root of a
   value of symbol x is one of A[x], and all its Nodes have children allowed by C *)
Theorem has_sym_shaped g A C :
  closed g A C = true ->
  forall x v, has_sym g x v -> In (shape_of v) (get A x) /\ shaped C v = true.
Proof.
  intros Hcl. unfold closed in Hcl. apply andb_true_iff in Hcl. destruct Hcl as [Hrules Hterms].
  rewrite forallb_forall in Hrules, Hterms.
  intros x v H.
  induction H as [t Ht|r vals cs m Hin HF IH Hf Hc|r vals c c' Hin HF IH Hf He Hr] using has_sym_ind'.
  - split; [|reflexivity]. cbn [shape_of]. apply mem_shape_In. apply Hterms. apply in_terminals. exact Ht.
  - assert (IHtop : Forall2 (fun x v => In (shape_of v) (get A x) /\ top_shaped C v) (r_expansion r) vals).
    { eapply Forall2_imp; [|exact IH]. cbn beta. intros a b [H1 H2]. split; [exact H1|apply shaped_top; exact H2]. }
    pose proof (filtered_shapes A C r vals cs IHtop Hf) as HshF.
    assert (Hsh : Forall (fun c => shaped C c = true) cs).
    { eapply filtered_Forall; [|apply shaped_node_children|exact Hf].
      eapply Forall2_Forall_r. eapply Forall2_imp; [|exact IH]. cbn beta. intros a b [_ H2]. exact H2. }
    specialize (Hrules r Hin). unfold rule_closed in Hrules.
    apply andb_true_iff in Hrules. destruct Hrules as [Hnode _].
    apply orb_true_iff in Hnode. destruct Hnode as [Hnode|Hnode].
    + exfalso. apply andb_true_iff in Hnode. destruct Hnode as [Hex Has].
      destruct (filtered_always_single r vals cs HF Has Hf) as [c ->].
      unfold collapses in Hc. rewrite Hex in Hc. discriminate.
    + apply andb_true_iff in Hnode. destruct Hnode as [Hmem Hsub].
      split; [cbn [shape_of]; apply mem_shape_In; exact Hmem|].
      cbn [shaped]. apply andb_true_iff. split; apply forallb_forall; intros c Hc'.
      * apply mem_shape_In. eapply subset_In; [exact Hsub|].
        rewrite Forall_forall in HshF. apply HshF. exact Hc'.
      * rewrite Forall_forall in Hsh. apply Hsh. exact Hc'.
  - assert (IHtop : Forall2 (fun x v => In (shape_of v) (get A x) /\ top_shaped C v) (r_expansion r) vals).
    { eapply Forall2_imp; [|exact IH]. cbn beta. intros a b [H1 H2]. split; [exact H1|apply shaped_top; exact H2]. }
    pose proof (filtered_shapes A C r vals [c] IHtop Hf) as HshF.
    assert (Hsh : Forall (fun c => shaped C c = true) [c]).
    { eapply filtered_Forall; [|apply shaped_node_children|exact Hf].
      eapply Forall2_Forall_r. eapply Forall2_imp; [|exact IH]. cbn beta. intros a b [_ H2]. exact H2. }
    inversion HshF as [|? ? Hc1 _]; subst. inversion Hsh as [|? ? Hc2 _]; subst.
    destruct (shaped_remeta C c c' Hr) as [E1 E2]. rewrite E1, E2.
    split; [|exact Hc2].
    specialize (Hrules r Hin). unfold rule_closed in Hrules.
    apply andb_true_iff in Hrules. destruct Hrules as [_ Hcol].
    rewrite He, (filtered_single_may r vals c HF Hf) in Hcol. cbn [andb negb orb] in Hcol.
    eapply subset_In; eassumption.
Qed.

(* ---------------------------------------------------------------- computing closed tables *)
Definition union (add l : list shape) : list shape :=
  fold_right (fun s acc => if mem_shape s acc then acc else s :: acc) l add.

Fixpoint upd (T : tbl) (i : nat) (add : list shape) : tbl :=
  match T, i with
  | [], _ => []
  | l :: T', O => union add l :: T'
  | l :: T', S i' => l :: upd T' i' add
  end.

Definition step_rule (AC : tbl * tbl) (r : rule_info) : tbl * tbl :=
  let A := fst AC in
  let C := snd AC in
  let F := abs_filtered A C r in
  let node := negb (r_expand1 r && always_single r) in
  let A1 := if node then upd A (N.to_nat (r_origin r)) [SNode (r_name r)] else A in
  let C1 := if node then upd C (N.to_nat (r_name r)) F else C in
  let A2 := if r_expand1 r && may_single r then upd A1 (N.to_nat (r_origin r)) F else A1 in
  (A2, C1).

Definition init_tables (g : grammar) : tbl * tbl :=
  (map (fun x => [STok x]) (terminals g) ++ repeat [] (length (g_nonterm_names g)),
   repeat [] (length (g_callback_names g))).

Fixpoint infer_loop (g : grammar) (fuel : nat) (AC : tbl * tbl) : tbl * tbl :=
  match fuel with
  | O => AC
  | S f => if closed g (fst AC) (snd AC) then AC else infer_loop g f (fold_left step_rule (g_rules g) AC)
  end.

(* least tables closed under the rules (no proof is needed about this
   function: its result is checked by [closed]) *)
Definition infer (g : grammar) : tbl * tbl := infer_loop g (S (length (g_rules g))) (init_tables g).

(* ================================================================ the generated grammar *)
From MF Require Import Model.Case Model.Transformer Model.Api Gen.Tokens Gen.Grammar
  Proofs.RegexFacts Proofs.LexFacts Proofs.ParseFacts Proofs.GrammarFacts.

(* -- checks on the generated table / rules, one vm_compute each -- *)

(* (LRFacts.table_ok the_grammar and LRFacts.types_ok the_grammar the_hook are
   GrammarFacts.the_grammar_table_ok / the_grammar_types_ok) *)

(* every state of the table has a unique accessing symbol *)
Lemma the_grammar_acc_ok : acc_ok the_grammar = true.
Proof. vm_compute. reflexivity. Qed.

Definition sym_name (g : grammar) (x : N) : option str :=
  if is_term g x then nth_N (g_term_names g) x
  else nth_N (g_nonterm_names g) (x - N.of_nat (length (g_term_names g))).

(* the accessing symbol of the end state is the grammar's start symbol *)
Lemma the_grammar_root_symbol : sym_name the_grammar (acc the_grammar (g_end the_grammar)) = Some (Str "start").
Proof. vm_compute. reflexivity. Qed.

(* the shape tables of the generated grammar *)
Definition the_shapes : tbl * tbl := infer the_grammar.

Lemma the_grammar_shapes_closed : closed the_grammar (fst the_shapes) (snd the_shapes) = true.
Proof. vm_compute. reflexivity. Qed.

(* ---------------------------------------------------------------- typing of Api.parse_tree *)
Section tree_ind'.
  Variable P : tree -> Prop.
  Hypothesis Htok : forall t, P (Tok t).
  Hypothesis Hnode : forall d cs m, Forall P cs -> P (Node d cs m).
  Fixpoint tree_ind' (t : tree) : P t :=
    match t with
    | Tok tk => Htok tk
    | Node d cs m =>
        Hnode d cs m ((fix go (l : list tree) : Forall P l :=
                         match l with
                         | [] => Forall_nil _
                         | x :: l' => Forall_cons _ (tree_ind' x) (go l')
                         end) cs)
    end.
End tree_ind'.

(* a tree with every meta erased: parser.py's _assign_comments only writes
   metas, so its result is compared with the driver's tree through [strip] *)
Fixpoint strip (t : tree) : tree :=
  match t with
  | Tok tk => Tok tk
  | Node d cs _ => Node d (map strip cs) meta0
  end.

Lemma assign_children_strip : forall fuel cd cs,
  map strip (snd (assign_children fuel cd cs)) = map strip cs.
Proof.
  induction fuel as [|f IH]; intros cd cs; cbn [assign_children]; [reflexivity|].
  destruct cs as [|[t|d kids m] cs']; [reflexivity| |].
  - pose proof (IH cd cs') as H. destruct (assign_children f cd cs') as [cd' r]. cbn [snd] in *.
    cbn [map]. rewrite H. reflexivity.
  - destruct (m_line m) as [line0|].
    + match goal with |- context [let '(cd1, m1) := ?X in _] => destruct X as [cd1 m1] end.
      pose proof (IH cd1 kids) as H1. destruct (assign_children f cd1 kids) as [cd2 kids']. cbn [snd] in H1.
      pose proof (IH cd2 cs') as H2. destruct (assign_children f cd2 cs') as [cd3 r]. cbn [snd] in *.
      cbn [map strip]. rewrite H1, H2. reflexivity.
    + pose proof (IH cd cs') as H. destruct (assign_children f cd cs') as [cd' r]. cbn [snd] in *.
      cbn [map strip]. rewrite H. reflexivity.
Qed.

Lemma assign_comments_strip comments t : strip (assign_comments comments t) = strip t.
Proof.
  destruct t as [tk|d cs m]; [reflexivity|]. unfold assign_comments. cbn [strip].
  rewrite assign_children_strip. reflexivity.
Qed.

Lemma forallb_map_ext {A B} (f : B -> bool) (h : A -> B) (k : A -> bool) l :
  Forall (fun c => f (h c) = k c) l -> forallb f (map h l) = forallb k l.
Proof. induction 1 as [|x l Hx _ IH]; cbn [map forallb]; [reflexivity|]. rewrite Hx, IH. reflexivity. Qed.

Lemma shape_of_strip t : shape_of (strip t) = shape_of t.
Proof. destruct t; reflexivity. Qed.

Lemma shaped_strip C t : shaped C (strip t) = shaped C t.
Proof.
  induction t as [tk|d cs m IH] using tree_ind'; [reflexivity|].
  cbn [strip shaped]. f_equal.
  - apply forallb_map_ext. apply Forall_forall. intros c _. rewrite shape_of_strip. reflexivity.
  - apply forallb_map_ext. exact IH.
Qed.

(* The tree the driver returns has the start symbol, hence conforms to the
   grammar; what parse_tree returns is that tree, with comments written into
   some metas when include_comments is on. *)
Theorem parse_text_root_typed wc text po :
  parse_text the_grammar the_hook wc text = Ok po ->
  has_sym the_grammar (acc the_grammar (g_end the_grammar)) (po_tree po).
Proof.
  intros H.
  destruct (parse_text_typed the_grammar the_hook wc text po the_grammar_table_ok the_grammar_types_ok H)
    as (top & x & Hg & Hs).
  rewrite <- (goto_acc the_grammar top x _ the_grammar_table_ok the_grammar_acc_ok Hg). exact Hs.
Qed.

Theorem parse_tree_conforms ic text t :
  parse_tree ic text = Ok t ->
  exists t0, has_sym the_grammar (acc the_grammar (g_end the_grammar)) t0 /\
             conforms the_grammar t0 /\ strip t = strip t0 /\ (ic = false -> t = t0).
Proof.
  unfold parse_tree. intros H.
  destruct (parse_text the_grammar the_hook ic text) as [po|e] eqn:E; cbn [bind] in H; [|discriminate].
  injection H as <-. pose proof (parse_text_root_typed ic text po E) as Hs.
  exists (po_tree po). split; [exact Hs|]. split; [eapply has_sym_conforms; exact Hs|].
  destruct ic; [split; [apply assign_comments_strip|discriminate]|split; reflexivity].
Qed.

(* typing does not depend on metas: the erased value has the same symbol *)
Lemma apply_filter_strip vals : forall inc out,
  apply_filter inc vals = Ok out -> apply_filter inc (map strip vals) = Ok (map strip out).
Proof.
  induction inc as [|[i ex] inc IH]; intros out H; cbn [apply_filter] in *.
  - injection H as <-. reflexivity.
  - destruct (nth_error vals i) as [c|] eqn:E; [|discriminate].
    rewrite (map_nth_error strip i vals E).
    destruct (apply_filter inc vals) as [rest|e]; cbn [bind] in H; [|discriminate].
    rewrite (IH rest eq_refl). cbn [bind].
    destruct ex.
    + destruct c as [tk|d kids m]; [discriminate|]. injection H as <-.
      cbn [strip]. rewrite map_app. reflexivity.
    + injection H as <-. reflexivity.
Qed.

Lemma filtered_strip r vals out :
  filtered r vals = Ok out -> filtered r (map strip vals) = Ok (map strip out).
Proof.
  unfold filtered. destruct (r_filter r) as [inc|]; [apply apply_filter_strip|].
  intros H. injection H as <-. reflexivity.
Qed.

Lemma remeta_strip c c' : remeta c c' -> strip c' = strip c.
Proof. intros H. inversion H; subst; reflexivity. Qed.

Lemma Forall2_map_r {A B C} (R : A -> C -> Prop) (f : B -> C) l l' :
  Forall2 (fun a b => R a (f b)) l l' -> Forall2 R l (map f l').
Proof. induction 1; cbn [map]; constructor; assumption. Qed.

Theorem has_sym_strip g x v : has_sym g x v -> has_sym g x (strip v).
Proof.
  intros H. induction H as [t Ht|r vals cs m Hin HF IH Hf Hc|r vals c c' Hin HF IH Hf He Hr]
    using has_sym_ind'.
  - constructor. exact Ht.
  - cbn [strip]. eapply hs_node; [exact Hin|apply (Forall2_map_r (has_sym g) strip); exact IH|apply filtered_strip; exact Hf|].
    unfold collapses in *. destruct (r_expand1 r); [|reflexivity].
    destruct cs as [|c1 [|c2 cs']]; try reflexivity. discriminate.
  - rewrite (remeta_strip c c' Hr).
    eapply hs_collapse; [exact Hin|apply (Forall2_map_r (has_sym g) strip); exact IH| |exact He|apply remeta_refl].
    apply (filtered_strip r vals [c] Hf).
Qed.

(* stated of the returned tree itself, in both comment modes: with its metas
   erased it has the start symbol and conforms to the grammar *)
Theorem parse_tree_strip_conforms ic text t :
  parse_tree ic text = Ok t ->
  has_sym the_grammar (acc the_grammar (g_end the_grammar)) (strip t) /\ conforms the_grammar (strip t).
Proof.
  intros H. destruct (parse_tree_conforms ic text t H) as (t0 & Hs & _ & Hst & _).
  rewrite Hst. pose proof (has_sym_strip _ _ _ Hs) as Hs'.
  split; [exact Hs'|eapply has_sym_conforms; exact Hs'].
Qed.

(* every Node of a parsed tree has children of the shapes the analysis allows *)
Theorem parse_tree_shaped ic text t :
  parse_tree ic text = Ok t -> shaped (snd the_shapes) t = true.
Proof.
  intros H. destruct (parse_tree_conforms ic text t H) as (t0 & Hs & _ & Hst & _).
  rewrite <- shaped_strip, Hst, shaped_strip.
  eapply has_sym_shaped; [exact the_grammar_shapes_closed|exact Hs].
Qed.

(* ================================================================ application: the guard of Proofs/C13U.v *)
(* Verbatim copy of the definitions is_kv, len2, kv_node, gkv of Proofs/C13U.v,
   so that this file does not depend on C13U; Proofs/LRTyping_Gkv.v identifies
   the copy with the original and closes C13U's guarded theorem. *)
Module GkvCopy.
  Definition is_kv (d : N) : bool :=
    (d =? CB_values) || (d =? CB_metadata) || (d =? CB_validation) || (d =? CB_connectionoptions).

  Definition len2 (d : N) : bool :=
    (d =? CB_string_pair) || (d =? CB_attr_bind_pair) || (d =? CB_attr_mixed_pair) || (d =? CB_num_pair)
    || (d =? CB_hexcolorrange).

  Definition kv_node (c : gtree) : bool :=
    match c with
    | GTok _ => true
    | GNode d _ _ => len2 d
    | GVal _ => false
    end.

  Fixpoint gkv (g : gtree) : bool :=
    match g with
    | GNode d cs m => (if is_kv d then forallb kv_node cs else true) && forallb gkv cs
    | _ => true
    end.
End GkvCopy.

Definition kv_shape (s : shape) : bool :=
  match s with STok _ => true | SNode d => GkvCopy.len2 d end.

(* gkv, on parse trees *)
Fixpoint kvt (t : tree) : bool :=
  match t with
  | Tok _ => true
  | Node d cs _ =>
      (if GkvCopy.is_kv d then forallb (fun c => kv_shape (shape_of c)) cs else true) && forallb kvt cs
  end.

Lemma gkv_gtree_of t : GkvCopy.gkv (gtree_of t) = kvt t.
Proof.
  induction t as [tk|d cs m IH] using tree_ind'; [reflexivity|].
  cbn [gtree_of GkvCopy.gkv kvt]. f_equal.
  - destruct (GkvCopy.is_kv d); [|reflexivity].
    apply forallb_map_ext. apply Forall_forall. intros c _. destruct c; reflexivity.
  - apply forallb_map_ext. exact IH.
Qed.

Lemma kvt_strip t : kvt (strip t) = kvt t.
Proof.
  induction t as [tk|d cs m IH] using tree_ind'; [reflexivity|].
  cbn [strip kvt]. f_equal.
  - destruct (GkvCopy.is_kv d); [|reflexivity].
    apply forallb_map_ext. apply Forall_forall. intros c _. rewrite shape_of_strip. reflexivity.
  - apply forallb_map_ext. exact IH.
Qed.

Lemma shaped_kvt C :
  (forall d, GkvCopy.is_kv d = true -> forallb kv_shape (get C d) = true) ->
  forall t, shaped C t = true -> kvt t = true.
Proof.
  intros HC t. induction t as [tk|d cs m IH] using tree_ind'; [reflexivity|].
  cbn [shaped kvt]. intros H. apply andb_true_iff in H. destruct H as [H1 H2].
  rewrite forallb_forall in H1, H2. rewrite Forall_forall in IH.
  apply andb_true_iff. split.
  - destruct (GkvCopy.is_kv d) eqn:Ek; [|reflexivity].
    specialize (HC d Ek). rewrite forallb_forall in HC.
    apply forallb_forall. intros c Hc. apply HC. apply mem_shape_In. apply H1. exact Hc.
  - apply forallb_forall. intros c Hc. apply IH; [exact Hc|apply H2; exact Hc].
Qed.

Lemma gkv_canonize g : GkvCopy.gkv g = true -> GkvCopy.gkv (canonize g) = true.
Proof.
  intros H. destruct g as [t|d cs m|v]; cbn [canonize]; try exact H.
  destruct (d =? CB_symbolset); [|exact H].
  cbn [GkvCopy.gkv] in H. apply andb_true_iff in H. destruct H as [_ H].
  cbn [GkvCopy.gkv forallb]. rewrite H. reflexivity.
Qed.

(* in the generated grammar the children of VALUES / METADATA / VALIDATION /
   CONNECTIONOPTIONS nodes are tokens or pair nodes *)
Definition kv_children_ok (d : N) : bool := forallb kv_shape (get (snd the_shapes) d).

Lemma the_grammar_kv_children :
  kv_children_ok CB_values = true /\ kv_children_ok CB_metadata = true /\
  kv_children_ok CB_validation = true /\ kv_children_ok CB_connectionoptions = true.
Proof. vm_compute. repeat split; reflexivity. Qed.

Lemma the_shapes_kv d : GkvCopy.is_kv d = true -> kv_children_ok d = true.
Proof.
  destruct the_grammar_kv_children as (H1 & H2 & H3 & H4).
  unfold GkvCopy.is_kv. intros H.
  apply orb_true_iff in H. destruct H as [H|H]; [|apply N.eqb_eq in H; subst d; exact H4].
  apply orb_true_iff in H. destruct H as [H|H]; [|apply N.eqb_eq in H; subst d; exact H3].
  apply orb_true_iff in H. destruct H as [H|H]; [|apply N.eqb_eq in H; subst d; exact H2].
  apply N.eqb_eq in H. subst d. exact H1.
Qed.

Theorem parse_tree_kvt ic text t : parse_tree ic text = Ok t -> kvt t = true.
Proof.
  intros H. eapply shaped_kvt; [exact the_shapes_kv|]. eapply parse_tree_shaped. exact H.
Qed.

Theorem parse_tree_gkv_copy : forall ic text t,
  parse_tree ic text = Ok t -> GkvCopy.gkv (canonize (gtree_of t)) = true.
Proof.
  intros ic text t H. apply gkv_canonize. rewrite gkv_gtree_of. eapply parse_tree_kvt. exact H.
Qed.

(* the pair nodes have exactly two children (what the transformer's pair
   callbacks rely on) *)
Lemma the_grammar_pair_arity :
  forallb (fun d => fixed_arity the_grammar d 2)
          [CB_string_pair; CB_attr_bind_pair; CB_attr_mixed_pair; CB_num_pair; CB_hexcolorrange] = true.
Proof. vm_compute. reflexivity. Qed.

Theorem parse_text_pair_arity wc text po d cs m :
  parse_text the_grammar the_hook wc text = Ok po ->
  subtree (Node d cs m) (po_tree po) -> GkvCopy.len2 d = true -> length cs = 2%nat.
Proof.
  intros H Hs Hd.
  assert (Hc : conforms the_grammar (Node d cs m)).
  { eapply conforms_sub; [|exact Hs]. eapply has_sym_conforms. eapply parse_text_root_typed. exact H. }
  assert (Hfa : fixed_arity the_grammar d 2 = true).
  { pose proof the_grammar_pair_arity as Hp. rewrite forallb_forall in Hp. apply Hp.
    unfold GkvCopy.len2 in Hd.
    repeat (apply orb_true_iff in Hd; destruct Hd as [Hd|Hd]); apply N.eqb_eq in Hd; subst d;
      cbn [In]; tauto. }
  eapply conforms_arity; eassumption.
Qed.

(* the theorems are not vacuous: a text with a key-value block parses, in both
   comment modes *)
Example parse_tree_typing_inhabited :
  (exists t, parse_tree false (Str "MAP NAME 'x' METADATA 'a' 'b' END LAYER TYPE POINT END END") = Ok t) /\
  (exists t, parse_tree true (Str "MAP # c
 METADATA 'a' 'b' END END") = Ok t).
Proof. split; eexists; vm_compute; reflexivity. Qed.
