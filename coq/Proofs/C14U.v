(* C14, universal statements for Api.loads and the printer (entry point).

   Proofs/C14.v            (parser side) the comments attached to tree nodes plus the leftovers are a
                           permutation of the line-indexed comment dictionary; every dictionary entry
                           is the stripped text of a source comment token
   Proofs/C14U_Multiset.v  multiset inclusion [sub] and flat_map over ordered-dict updates
   Proofs/C14U_Trans.v     (transformer side) a measure / well-formedness invariant over all 48
                           callbacks and the comments pass: transform_linear
   Proofs/C14U_Print.v     (printer side) pprint factors through a TRACED document that says which
                           comment items each line contains (pprint_traced); the items written are a
                           sub-multiset of the items stored in the printed value (written_sub_stored,
                           guard pguard); under the guard every such item is a string
   Proofs/C14U_Guard.v     pguard holds of every dictionary the transformer returns (transform_pguard)
   this file               loads and dumps, for EVERY text, both include_position modes, all printer options

   Vocabulary
     cstored v             the comment strings stored in a final value: in every dict at every depth, the
                           string elements of the list values (and the string values) of a dict-valued
                           __comments__ entry (a multiset, as a list)
     comments_from src v   every such string is an element of src
     sub a b               multiset inclusion: exists r, Permutation (a ++ r) b
     attached t            (Proofs/C14.v) the comment strings in the metas of a tree
     written T             the comment items a traced document contains
     pstored v             the comment items stored where the printer can see them

   Theorems
     loaded_comments_are_source_comments   goal 1: never invented (comments_from, every depth)
     loads_linear                          goal 2: stored comments are a sub-multiset of the comments attached
                                           to tree nodes (never copied into two places)
     loads_comments_sub_source             ... and of the stripped texts of the source comment tokens
     comments_entry_is_always_a_dict_refuted   the strict reading "the __comments__ entry IS a dict" is false
     loads_pguard                          the loaded dictionary satisfies the printer's guard
     dumped_comments_are_source_comments   goal 3, end to end: the comment items dumps writes are strings and,
                                           with multiplicity, stripped texts of source comment tokens *)
From Coq Require Import Permutation.
From MF Require Import Lib.Base Lib.PyDict.
From MF Require Import Model.PPrint Proofs.PrintU_Abs.
From MF Require Export Proofs.C14U_Print.
From MF Require Import Model.GrammarTypes Model.Lexer Model.LR
  Model.Case Model.Transformer Model.Api Gen.Tokens Gen.Grammar Proofs.C13U Proofs.C14.
From MF Require Export Proofs.C14U_Trans Proofs.C14U_Guard.
Open Scope N_scope.

(* ================================================================ the predicate of goal 1 *)
Definition comments_from (src : list str) (v : value) : Prop := Forall (fun s => In s src) (cstored v).

(* reading the predicate: it descends through lists and dict values ... *)
Lemma comments_from_list src l w : comments_from src (VList l) -> In w l -> comments_from src w.
Proof.
  unfold comments_from. cbn [cstored]. rewrite !Forall_forall. intros H Hin s Hs.
  apply H. apply in_flat_map. exists w. split; assumption.
Qed.

Lemma comments_from_dict src c items k w :
  comments_from src (VDict c items) -> In (k, w) items -> k <> s_comments -> comments_from src w.
Proof.
  unfold comments_from. rewrite cstored_dict, !Forall_forall. intros H Hin Hk s Hs.
  apply H. apply in_flat_map. exists (k, w). split; [exact Hin|]. cbn [fst snd]. unfold emeasv.
  destruct (str_eqb_spec k s_comments); [contradiction|exact Hs].
Qed.

(* ... and at every dict, every string of every list of a dict-valued __comments__ entry
   (under an attribute key or under __type__ alike) is a source string *)
Lemma comments_from_entry src c items c' cm k l s :
  comments_from src (VDict c items) -> In (s_comments, VDict c' cm) items ->
  In (k, VList l) cm -> In (VStr s) l -> In s src.
Proof.
  unfold comments_from. rewrite cstored_dict, Forall_forall. intros H Hin Hk Hs.
  apply H. apply in_flat_map. exists (s_comments, VDict c' cm). split; [exact Hin|].
  cbn [fst snd]. unfold emeasv. rewrite E_comments. cbn [centry]. unfold cdm.
  apply in_flat_map. exists (k, VList l). split; [exact Hk|]. cbn [snd cl]. unfold strs_of.
  apply in_flat_map. exists (VStr s). split; [exact Hs|left; reflexivity].
Qed.

(* ================================================================ goal 2: no duplication *)
(* the comment strings stored anywhere in the loaded dictionary are a
   sub-multiset of the comment strings attached to tree nodes by assign_comments *)
Theorem loads_linear :
  forall ip text v po,
    parse_text the_grammar the_hook true text = Ok po -> loads ip true text = Ok v ->
    exists rest, Permutation (cstored v ++ rest) (attached (assign_comments (po_comments po) (po_tree po))).
Proof.
  intros ip text v po Hp H. unfold loads, parse_tree in H. rewrite Hp in H. cbn [bind] in H.
  destruct (transform ip true _) as [x|e] eqn:Ex; cbn [bind] in H; [|discriminate].
  rewrite tv_to_value_tvv in H. injection H as <-.
  exact (transform_linear ip _ x Ex).
Qed.

(* the line-indexed comment dictionary is itself a sub-multiset of the stripped
   texts of the source comment tokens (one entry per line, the last comment of a line wins) *)
Lemma assocN_None_notin {A} k (l : list (N * A)) : assocN k l = None -> ~ In k (map fst l).
Proof.
  induction l as [|[k' v] l IH]; cbn [assocN map fst In]; [tauto|].
  destruct (N.eqb_spec k k') as [->|Hne]; [discriminate|]. intros H [E|Hin]; [congruence|tauto].
Qed.

Lemma replace_line_id line v (d : list (N * str)) :
  ~ In line (map fst d) -> map (fun kv => if fst kv =? line then (fst kv, v) else kv) d = d.
Proof.
  induction d as [|[k w] d IH]; cbn [map fst In]; [reflexivity|]. intros Hn.
  destruct (N.eqb_spec k line) as [->|Hne]; [tauto|]. f_equal. apply IH. tauto.
Qed.

Lemma replace_line_sub line v (d : list (N * str)) :
  NoDup (map fst d) ->
  sub (map snd (map (fun kv => if fst kv =? line then (fst kv, v) else kv) d)) (map snd d ++ [v]).
Proof.
  induction d as [|[k w] d IH]; cbn [map fst snd]; intros Hn; [apply sub_nil_l|].
  inversion Hn as [|? ? Hk Hd]; subst.
  destruct (N.eqb_spec k line) as [->|Hne]; cbn [snd].
  - rewrite replace_line_id by exact Hk.
    eapply sub_trans; [apply sub_perm, Permutation_cons_append|].
    apply (sub_app_r [w] (map snd d ++ [v])).
  - apply (sub_app [w] [w]); [apply sub_refl|apply IH; exact Hd].
Qed.

Lemma replace_line_keys line v (d : list (N * str)) :
  map fst (map (fun kv => if fst kv =? line then (fst kv, v) else kv) d) = map fst d.
Proof.
  induction d as [|[k w] d IH]; cbn [map fst]; [reflexivity|].
  destruct (k =? line); cbn [fst]; rewrite IH; reflexivity.
Qed.

Lemma cd_step_sub d c :
  NoDup (map fst d) ->
  NoDup (map fst (cd_step d c)) /\ sub (map snd (cd_step d c)) (map snd d ++ [strip (tval c)]).
Proof.
  intros Hn. unfold cd_step. destruct (assocN (tline c) d) eqn:Ea.
  - split; [rewrite replace_line_keys; exact Hn|apply replace_line_sub; exact Hn].
  - split.
    + rewrite map_app. cbn [map fst].
      eapply Permutation_NoDup; [apply Permutation_cons_append|].
      constructor; [apply assocN_None_notin; exact Ea|exact Hn].
    + rewrite map_app. apply sub_refl.
Qed.

Lemma cd_fold_sub cs : forall d,
  NoDup (map fst d) ->
  sub (map snd (fold_left cd_step cs d)) (map snd d ++ map (fun c => strip (tval c)) cs).
Proof.
  induction cs as [|c cs IH]; intros d Hn; cbn [fold_left map]; [rewrite app_nil_r; apply sub_refl|].
  destruct (cd_step_sub d c Hn) as [N1 S1].
  eapply sub_trans; [apply IH; exact N1|].
  change (strip (tval c) :: map (fun c0 => strip (tval c0)) cs)
    with ([strip (tval c)] ++ map (fun c0 => strip (tval c0)) cs).
  rewrite app_assoc. apply sub_app; [exact S1|apply sub_refl].
Qed.

Theorem comments_dict_sub_tokens cs :
  sub (map snd (comments_dict cs)) (map (fun c => strip (tval c)) cs).
Proof. rewrite comments_dict_fold. apply (cd_fold_sub cs []). constructor. Qed.

(* no source comment is stored more often than it occurs in the source: the
   stored comment strings are a sub-multiset of the stripped texts of the
   source comment tokens *)
Theorem loads_comments_sub_source :
  forall ip text v po,
    parse_text the_grammar the_hook true text = Ok po -> loads ip true text = Ok v ->
    exists rest, Permutation (cstored v ++ rest) (map (fun c => strip (tval c)) (po_comments po)).
Proof.
  intros ip text v po Hp H.
  pose proof (loads_linear ip text v po Hp H) as H1.
  destruct (assigned_comments_are_source_comments the_grammar the_hook text po Hp) as [leftover H2].
  eapply sub_trans; [exact H1|]. eapply sub_trans; [|apply comments_dict_sub_tokens].
  eapply sub_trans; [apply sub_app_r|]. apply sub_perm. apply Permutation_sym. exact H2.
Qed.

(* ================================================================ goal 1: provenance *)
Theorem loaded_comments_are_source_comments :
  forall ip text v po,
    parse_text the_grammar the_hook true text = Ok po -> loads ip true text = Ok v ->
    comments_from (map (fun c => strip (tval c)) (po_comments po)) v.
Proof.
  intros ip text v po Hp H. unfold comments_from. apply Forall_forall. intros s Hs.
  exact (sub_In _ _ s (loads_comments_sub_source ip text v po Hp H) Hs).
Qed.

(* with the line of the source token: every stored string is the stripped text
   of a comment token of the source *)
Corollary loaded_comment_is_a_source_token :
  forall ip text v po s,
    parse_text the_grammar the_hook true text = Ok po -> loads ip true text = Ok v ->
    In s (cstored v) -> exists c, In c (po_comments po) /\ s = strip (tval c).
Proof.
  intros ip text v po s Hp H Hs.
  pose proof (loaded_comments_are_source_comments ip text v po Hp H) as HF.
  unfold comments_from in HF. rewrite Forall_forall in HF. specialize (HF s Hs).
  apply in_map_iff in HF. destruct HF as (c & <- & Hc). exists c. auto.
Qed.

(* a string stored as such (not in a list) under a key of a dict-valued __comments__ entry *)
Lemma comments_from_entry_str src c items c' cm k s :
  comments_from src (VDict c items) -> In (s_comments, VDict c' cm) items -> In (k, VStr s) cm -> In s src.
Proof.
  unfold comments_from. rewrite cstored_dict, Forall_forall. intros H Hin Hk.
  apply H. apply in_flat_map. exists (s_comments, VDict c' cm). split; [exact Hin|].
  cbn [fst snd]. unfold emeasv. rewrite E_comments. cbn [centry]. unfold cdm.
  apply in_flat_map. exists (k, VStr s). split; [exact Hk|left; reflexivity].
Qed.

(* ================================================================ the strict reading is false *)
(* "in every dict at every depth the __comments__ entry IS a dict whose values
   are lists of source strings" is false: the keys of a CONFIG / METADATA entry
   are free text, so __comments__ can be an ordinary string entry.  comments_from
   is the strongest true reading: it constrains the dict-valued entries. *)
Definition is_vdict_b (v : value) : bool := match v with VDict _ _ => true | _ => false end.

Fixpoint comments_entries_are_dicts (v : value) : bool :=
  match v with
  | VList l => forallb comments_entries_are_dicts l
  | VDict _ items =>
      forallb (fun kv => (if str_eqb (fst kv) s_comments then is_vdict_b (snd kv) else true)
                         && comments_entries_are_dicts (snd kv)) items
  | _ => true
  end.

Definition cex_config_comments_text : str := Str "MAP CONFIG ""__comments__"" ""x"" END".

Lemma cex_config_comments_loads :
  exists v, loads false true cex_config_comments_text = Ok v /\ comments_entries_are_dicts v = false.
Proof. eexists. split; [vm_compute; reflexivity|]. vm_compute. reflexivity. Qed.

Theorem comments_entry_is_always_a_dict_refuted :
  exists text v, loads false true text = Ok v /\ comments_entries_are_dicts v = false.
Proof. exists cex_config_comments_text. exact cex_config_comments_loads. Qed.

(* ================================================================ goal 3: composition with the printer *)
Lemma strs_of_flat_map {A} (f : A -> list value) l : strs_of (flat_map f l) = flat_map (fun x => strs_of (f x)) l.
Proof. induction l as [|x l IH]; [reflexivity|]. cbn [flat_map]. rewrite strs_of_app, IH. reflexivity. Qed.

Lemma strs_of_citems w : strs_of (citems w) = cl w.
Proof. destruct w; try reflexivity. Qed.

Lemma strs_of_pcentry v : strs_of (pcentry v) = centry v.
Proof.
  destruct v as [| | | | | |c cm]; try reflexivity. cbn [pcentry centry]. unfold pcd, cdm.
  rewrite strs_of_flat_map. apply flat_map_ext. intros kv. apply strs_of_citems.
Qed.

(* the comment strings among the items the printer can read are stored comment strings *)
Lemma strs_of_pstored : forall v, sub (strs_of (pstored v)) (cstored v).
Proof.
  induction v as [| | | | |l IH|c items IH] using value_ind'; try apply sub_nil_l.
  - cbn [pstored cstored]. rewrite strs_of_flat_map. apply sub_flat_map. exact IH.
  - rewrite pstored_dict, cstored_dict, strs_of_flat_map. apply sub_flat_map.
    eapply Forall_impl; [|exact IH]. intros [k w] Hw. cbn [fst snd] in *.
    unfold pcontrib, emeasv. cbn [fst snd]. change k_comments with s_comments.
    destruct (str_eqb k s_comments); [rewrite strs_of_pcentry; apply sub_refl|].
    destruct (is_metadata k); [apply sub_nil_l|exact Hw].
Qed.

Lemma sub_strs_of a b : sub a b -> sub (strs_of a) (strs_of b).
Proof.
  intros [r Hr]. exists (strs_of r). rewrite <- strs_of_app. unfold strs_of. apply Permutation_flat_map. exact Hr.
Qed.

Lemma vstr_list l : Forall (fun e => is_vstr e = true) l -> l = map VStr (strs_of l).
Proof.
  induction 1 as [|e l He _ IH]; [reflexivity|]. destruct e; try discriminate He.
  cbn [strs_of flat_map app map]. f_equal. exact IH.
Qed.

Lemma sub_map {A B} (f : A -> B) a b : sub a b -> sub (map f a) (map f b).
Proof. intros [r Hr]. exists (map f r). rewrite <- map_app. apply Permutation_map. exact Hr. Qed.

Lemma sub_Forall {A} (P : A -> Prop) a b : sub a b -> Forall P b -> Forall P a.
Proof. intros Hs Hb. rewrite Forall_forall in *. intros x Hx. apply Hb. eapply sub_In; eassumption. Qed.

(* the loaded dictionary satisfies the printer's guard *)
Theorem loads_pguard : forall ip text v, loads ip true text = Ok v -> pguard v = true.
Proof.
  intros ip text v H. unfold loads in H.
  destruct (parse_tree true text) as [t|e]; cbn [bind] in H; [|discriminate].
  destruct (transform ip true t) as [x|e] eqn:Ex; cbn [bind] in H; [|discriminate].
  rewrite tv_to_value_tvv in H. injection H as <-. exact (transform_pguard ip t x Ex).
Qed.

(* END TO END, for every text, both include_position modes and all printer
   options: the text dumps returns is the rendering of a traced document T; the
   comment items T contains are strings and, WITH MULTIPLICITY, stripped texts
   of comment tokens of the source - no comment is invented, none is written
   more often than it occurs in the source *)
Theorem dumped_comments_are_source_comments :
  forall ip text v po o s v',
    parse_text the_grammar the_hook true text = Ok po -> loads ip true text = Ok v ->
    pprint o v = Ok (s, v') ->
    exists T, t_pprint (quote o) (separate_complex_types o) v = Ok (T, v')
              /\ s = render o (untrace T)
              /\ (exists rest, Permutation (written T ++ rest) (pstored v))
              /\ (exists rest, Permutation (written T ++ rest)
                                           (map VStr (map (fun c => strip (tval c)) (po_comments po)))).
Proof.
  intros ip text v po o s v' Hp Hl Hpp.
  pose proof (loads_pguard ip text v Hl) as Hg.
  destruct (pprint_writes_stored_comments o v s v' Hg Hpp) as (T & Ht & Hs & Hw).
  exists T. split; [exact Ht|split; [exact Hs|split; [exact Hw|]]].
  assert (Hstr : Forall (fun e => is_vstr e = true) (written T)).
  { eapply sub_Forall; [exact Hw|]. apply pguard_items_are_strings. exact Hg. }
  rewrite (vstr_list _ Hstr). apply sub_map.
  eapply sub_trans; [apply sub_strs_of; exact Hw|]. eapply sub_trans; [apply strs_of_pstored|].
  exact (loads_comments_sub_source ip text v po Hp Hl).
Qed.

(* every single comment item the printer writes is the text of a source comment token *)
Corollary dumped_comment_is_a_source_token :
  forall ip text v po o s v' T e,
    parse_text the_grammar the_hook true text = Ok po -> loads ip true text = Ok v ->
    pprint o v = Ok (s, v') -> t_pprint (quote o) (separate_complex_types o) v = Ok (T, v') ->
    In e (written T) -> exists c, In c (po_comments po) /\ e = VStr (strip (tval c)).
Proof.
  intros ip text v po o s v' T e Hp Hl Hpp Ht He.
  destruct (dumped_comments_are_source_comments ip text v po o s v' Hp Hl Hpp) as (T' & Ht' & _ & _ & Hsrc).
  rewrite Ht in Ht'. injection Ht' as <-.
  pose proof (sub_In _ _ e Hsrc He) as Hin. apply in_map_iff in Hin. destruct Hin as (s0 & <- & Hin).
  apply in_map_iff in Hin. destruct Hin as (c & <- & Hc). exists c. auto.
Qed.

(* ================================================================ non-vacuity *)
Definition c14u_text : str := Str "# above
MAP # m
  NAME 'x' # trailing
  METADATA # md
    'a' 'b' # kv
    'a' 'c' # kv2
  END
  PROJECTION # p1
   'init=epsg:4326' # p2
  END
  LAYER NAME 'l' # ln
  END
END".

(* nine comment tokens in the source *)
Lemma c14u_text_comments :
  exists po, parse_text the_grammar the_hook true c14u_text = Ok po /\ length (po_comments po) = 9%nat.
Proof. eexists. split; [vm_compute; reflexivity|]. vm_compute. reflexivity. Qed.

(* eight of them are stored (the comment of the first 'a' pair is overwritten by
   the second one: comments may be dropped, never duplicated) ... *)
Lemma c14u_text_stored :
  exists v, loads false true c14u_text = Ok v /\ length (cstored v) = 8%nat.
Proof. eexists. split; [vm_compute; reflexivity|]. vm_compute. reflexivity. Qed.

(* ... and all eight are written by the printer *)
Lemma c14u_text_written :
  exists v T v', loads false true c14u_text = Ok v
                 /\ t_pprint (quote default_opts) (separate_complex_types default_opts) v = Ok (T, v')
                 /\ length (written T) = 8%nat.
Proof.
  eexists _, _, _. split; [vm_compute; reflexivity|]. split; [vm_compute; reflexivity|]. vm_compute. reflexivity.
Qed.

Lemma c14u_text_pprint : exists v s v', loads false true c14u_text = Ok v /\ pprint default_opts v = Ok (s, v').
Proof. eexists _, _, _. split; [vm_compute; reflexivity|]. vm_compute. reflexivity. Qed.
