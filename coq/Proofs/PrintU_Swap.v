(* The two quote characters are interchangeable for the reader of
   Spec/Reader.v: exchanging the double and the single quote everywhere in a text exchanges them in the
   token texts and changes nothing else (universal, no hypothesis).  Rendering
   an abstract document commutes with the exchange when the layout strings are
   blank. *)
From MF Require Import Lib.Base Model.Quoter Model.PPrint Spec.Reader
  Proofs.PPrintFacts Proofs.PrintU_Abs Proofs.PrintU_Read.
Open Scope nat_scope.

Definition sw (c : N) : N := if N.eqb c 34 then 39%N else if N.eqb c 39 then 34%N else c.
Definition sws (s : str) : str := map sw s.
Definition swt (t : token) : token := (fst t, sws (snd t)).

Lemma sw_cases c : (c = 34%N /\ sw c = 39%N) \/ (c = 39%N /\ sw c = 34%N) \/ (c <> 34%N /\ c <> 39%N /\ sw c = c).
Proof.
  unfold sw. destruct (N.eqb_spec c 34) as [->|H1]; [left; split; reflexivity|].
  destruct (N.eqb_spec c 39) as [->|H2]; [right; left; split; reflexivity|].
  right; right. repeat split; assumption.
Qed.

Lemma sw_invol c : sw (sw c) = c.
Proof. destruct (sw_cases c) as [[-> ->]|[[-> ->]|(H1 & H2 & ->)]]; try reflexivity.
  unfold sw. destruct (N.eqb_spec c 34); [congruence|]. destruct (N.eqb_spec c 39); [congruence|]. reflexivity.
Qed.

Lemma sws_invol s : sws (sws s) = s.
Proof. unfold sws. rewrite map_map. induction s as [|c s IH]; cbn [map]; [reflexivity|]. rewrite sw_invol, IH. reflexivity. Qed.

Lemma sw_eqb c d : N.eqb (sw c) (sw d) = N.eqb c d.
Proof.
  destruct (N.eqb_spec c d) as [->|Hne]; [apply N.eqb_refl|].
  apply N.eqb_neq. intros E. apply Hne. rewrite <- (sw_invol c), <- (sw_invol d), E. reflexivity.
Qed.

Lemma sw_eqb_const c k : k <> 34%N -> k <> 39%N -> N.eqb (sw c) k = N.eqb c k.
Proof.
  intros K1 K2. destruct (sw_cases c) as [[-> ->]|[[-> ->]|(H1 & H2 & ->)]]; [| |reflexivity].
  - transitivity false; [|symmetry]; apply N.eqb_neq; congruence.
  - transitivity false; [|symmetry]; apply N.eqb_neq; congruence.
Qed.

Lemma sw_leb_lo c k : (k <= 33)%N -> N.leb k (sw c) = N.leb k c.
Proof.
  intros K. destruct (sw_cases c) as [[-> ->]|[[-> ->]|(H1 & H2 & ->)]]; [| |reflexivity];
    (transitivity true; [|symmetry]; apply N.leb_le; lia).
Qed.

Lemma sw_leb_hi c k : (k <= 33)%N -> N.leb (sw c) k = N.leb c k.
Proof.
  intros K. destruct (sw_cases c) as [[-> ->]|[[-> ->]|(H1 & H2 & ->)]]; [| |reflexivity];
    (transitivity false; [|symmetry]; apply N.leb_gt; lia).
Qed.

Lemma is_blank_sw c : is_blank (sw c) = is_blank c.
Proof.
  unfold is_blank. rewrite (sw_eqb_const c 32), (sw_leb_lo c 9), (sw_leb_hi c 13) by lia. reflexivity.
Qed.

Lemma is_quote_sw c : is_quote (sw c) = is_quote c.
Proof.
  unfold is_quote. destruct (sw_cases c) as [[-> ->]|[[-> ->]|(H1 & H2 & ->)]]; reflexivity.
Qed.

Lemma is_eol_sw c : is_eol (sw c) = is_eol c.
Proof. unfold is_eol. rewrite (sw_eqb_const c 10), (sw_eqb_const c 13) by lia. reflexivity. Qed.

Lemma is_digit_sw c : is_digit (sw c) = is_digit c.
Proof.
  unfold is_digit. destruct (sw_cases c) as [[-> ->]|[[-> ->]|(H1 & H2 & ->)]]; reflexivity.
Qed.

Lemma rev_sws s : rev (sws s) = sws (rev s).
Proof. unfold sws. symmetry. apply map_rev. Qed.

Lemma sws_app a b : sws (a ++ b) = sws a ++ sws b.
Proof. apply map_app. Qed.

Lemma length_sws s : length (sws s) = length s.
Proof. apply map_length. Qed.

(* numerals have no quote *)
Lemma numeral_tail_sw s : forall b, numeral_tail (sws s) b = numeral_tail s b.
Proof.
  assert (G : forall n s, length s <= n -> forall b, numeral_tail (sws s) b = numeral_tail s b).
  { induction n as [|n IH]; intros s0 Hl b.
    - destruct s0; [reflexivity|cbn in Hl; lia].
    - destruct s0 as [|c s1]; [reflexivity|]. cbn [sws map numeral_tail]. fold (sws s1).
      rewrite is_digit_sw, (sw_eqb_const c 46), (sw_eqb_const c 101), (sw_eqb_const c 69) by lia.
      cbn [length] in Hl.
      destruct (is_digit c); [apply IH; lia|].
      destruct (N.eqb c 46); [apply IH; lia|].
      destruct ((N.eqb c 101 || N.eqb c 69) && b); [|reflexivity].
      destruct s1 as [|d s2]; [reflexivity|]. cbn [sws map]. fold (sws s2).
      rewrite (sw_eqb_const d 43), (sw_eqb_const d 45) by lia.
      destruct (N.eqb d 43 || N.eqb d 45).
      + apply IH. cbn [length] in Hl. lia.
      + apply (IH (d :: s2)). lia. }
  intros b. apply (G (length s) s (le_n _)).
Qed.

Lemma is_numeral_sw s : is_numeral (sws s) = is_numeral s.
Proof.
  destruct s as [|c s]; [reflexivity|]. cbn [sws map is_numeral]. fold (sws s).
  rewrite (sw_eqb_const c 43), (sw_eqb_const c 45) by lia.
  destruct (N.eqb c 43 || N.eqb c 45); [apply numeral_tail_sw|].
  apply (numeral_tail_sw (c :: s)).
Qed.

Lemma word_token_sw w : word_token (sws w) = swt (word_token w).
Proof. unfold word_token, swt. rewrite is_numeral_sw. reflexivity. Qed.

(* ------------------------------------------------------------ the scanner *)
Definition swm (m : mode) : mode :=
  match m with
  | MQuote q acc => MQuote (sw q) (sws acc)
  | MQuoteEsc q acc => MQuoteEsc (sw q) (sws acc)
  | MAfterQuote c => MAfterQuote (sws c)
  | MAfterQuoteI c => MAfterQuoteI (sws c)
  | MWord acc => MWord (sws acc)
  | MBracket acc => MBracket (sws acc)
  | MParen d q acc => MParen d (option_map sw q) (sws acc)
  | MBrace acc => MBrace (sws acc)
  | MRegex e acc => MRegex e (sws acc)
  | MAfterRegex acc => MAfterRegex (sws acc)
  | other => other
  end.

Definition sw_out (r : option (list token * mode)) : option (list token * mode) :=
  match r with Some (out, m) => Some (map swt out, swm m) | None => None end.

Lemma start_sw c : start (sw c) = swm (start c).
Proof.
  unfold start. rewrite is_blank_sw, is_quote_sw.
  rewrite (sw_eqb_const c 35), (sw_eqb_const c 47), (sw_eqb_const c 91), (sw_eqb_const c 40),
    (sw_eqb_const c 123) by lia.
  destruct (is_blank c); [reflexivity|]. destruct (N.eqb c 35); [reflexivity|].
  destruct (N.eqb c 47); [reflexivity|]. destruct (is_quote c); [reflexivity|].
  destruct (N.eqb c 91); [reflexivity|]. destruct (N.eqb c 40); [reflexivity|].
  destruct (N.eqb c 123); reflexivity.
Qed.

Lemma rev_cons_sws c acc : rev (sw c :: sws acc) = sws (rev (c :: acc)).
Proof. change (sw c :: sws acc) with (sws (c :: acc)). apply rev_sws. Qed.

Lemma step_sw m c : step (swm m) (sw c) = sw_out (step m c).
Proof.
  destruct m; cbn [swm step].
  - (* MBlank *) rewrite start_sw. reflexivity.
  - (* MLineComment *) rewrite is_eol_sw. destruct (is_eol c); reflexivity.
  - (* MCComment *) rewrite (sw_eqb_const c 47), (sw_eqb_const c 42) by lia.
    destruct (star && N.eqb c 47); reflexivity.
  - (* MSlash *) rewrite (sw_eqb_const c 47), (sw_eqb_const c 42), (sw_eqb_const c 92), is_eol_sw by lia.
    destruct (N.eqb c 42); [reflexivity|]. destruct (N.eqb c 47); [reflexivity|].
    destruct (is_eol c); reflexivity.
  - (* MQuote *) rewrite sw_eqb, (sw_eqb_const c 92) by lia.
    destruct (N.eqb c q); [cbn [sw_out map swm]; rewrite rev_sws; reflexivity|].
    destruct (N.eqb c 92); reflexivity.
  - (* MQuoteEsc *) rewrite sw_eqb. destruct (N.eqb c q); reflexivity.
  - (* MAfterQuote *) rewrite (sw_eqb_const c 105) by lia. destruct (N.eqb c 105); [reflexivity|].
    rewrite start_sw. reflexivity.
  - (* MAfterQuoteI *) rewrite is_blank_sw. destruct (is_blank c); reflexivity.
  - (* MWord *) rewrite is_blank_sw, is_quote_sw, rev_sws, word_token_sw.
    destruct (is_blank c); [reflexivity|]. destruct (is_quote c); reflexivity.
  - (* MBracket *) rewrite (sw_eqb_const c 93) by lia. destruct (N.eqb c 93); [|reflexivity].
    rewrite rev_cons_sws. reflexivity.
  - (* MParen *) destruct q as [qc|]; cbn [option_map].
    + rewrite sw_eqb. destruct (N.eqb c qc); reflexivity.
    + rewrite is_quote_sw, (sw_eqb_const c 40), (sw_eqb_const c 41) by lia.
      destruct (is_quote c); [reflexivity|]. destruct (N.eqb c 40); [reflexivity|].
      destruct (N.eqb c 41); [|reflexivity].
      destruct depth as [|[|d]]; try reflexivity. rewrite rev_cons_sws. reflexivity.
  - (* MBrace *) rewrite (sw_eqb_const c 125) by lia. destruct (N.eqb c 125); [|reflexivity].
    rewrite rev_cons_sws. reflexivity.
  - (* MRegex *) rewrite is_eol_sw, (sw_eqb_const c 47), (sw_eqb_const c 92) by lia.
    destruct (is_eol c); [reflexivity|]. destruct esc; [reflexivity|].
    destruct (N.eqb c 47); reflexivity.
  - (* MAfterRegex *) rewrite (sw_eqb_const c 105) by lia. destruct (N.eqb c 105).
    + rewrite rev_cons_sws. reflexivity.
    + rewrite start_sw, rev_sws. reflexivity.
Qed.

Lemma finish_sw m : finish (swm m) = option_map (map swt) (finish m).
Proof.
  destruct m; cbn [swm finish option_map map]; try reflexivity.
  - rewrite rev_sws, word_token_sw. reflexivity.
  - rewrite rev_sws. reflexivity.
Qed.

Lemma scan_sw s : forall m, scan (swm m) (sws s) = option_map (map swt) (scan m s).
Proof.
  induction s as [|c s IH]; intros m; cbn [sws map scan]; [apply finish_sw|]. fold (sws s).
  rewrite step_sw. destruct (step m c) as [[out m']|]; cbn [sw_out]; [|reflexivity].
  rewrite IH. destruct (scan m' s) as [rest|]; cbn [option_map]; [|reflexivity].
  rewrite map_app. reflexivity.
Qed.

(* the reader does not care which of the two quotes is which *)
Theorem tokenize_swap_quotes :
  forall text, tokenize (sws text) = option_map (map swt) (tokenize text).
Proof. intros text. apply (scan_sw text MBlank). Qed.

(* ------------------------------------------------------------ rendering *)
Definition qf (s : str) : bool := forallb (fun c => negb (is_quote c)) s.

Lemma sw_qf c : is_quote c = false -> sw c = c.
Proof.
  unfold is_quote, sw. intros H. apply orb_false_iff in H. destruct H as [H1 H2]. rewrite H1, H2. reflexivity.
Qed.

Lemma sws_qf s : qf s = true -> sws s = s.
Proof.
  induction s as [|c s IH]; [reflexivity|]. unfold qf. cbn [forallb sws map]. intros H.
  apply andb_true_iff in H. destruct H as [Hc Hs]. apply negb_true_iff in Hc.
  rewrite (sw_qf c Hc). f_equal. apply IH. exact Hs.
Qed.

Lemma blank_qf s : forallb is_blank s = true -> qf s = true.
Proof.
  unfold qf. intros H. apply forallb_forall. intros c Hc. rewrite forallb_forall in H. specialize (H c Hc).
  apply negb_true_iff. unfold is_quote.
  destruct (N.eqb_spec c 34) as [->|]; [discriminate H|]. destruct (N.eqb_spec c 39) as [->|]; [discriminate H|].
  reflexivity.
Qed.

Definition swap_aline (al : aline) : aline :=
  match al with
  | ALine d b => ALine d (sws b)
  | AKV d L k v => AKV d L (sws k) (sws v)
  | AEnd d n => AEnd d (sws n)
  | AComments d parts => AComments d (map sws parts)
  end.

Definition swap_doc (A : list aline) : list aline := map swap_aline A.

Lemma sws_join sep l : sws (join sep l) = join (sws sep) (map sws l).
Proof.
  induction l as [|x l IH]; [reflexivity|]. destruct l as [|y l]; [reflexivity|].
  change (join sep (x :: y :: l)) with (x ++ sep ++ join sep (y :: l)).
  cbn [map]. change (join (sws sep) (sws x :: sws y :: map sws l))
    with (sws x ++ sws sep ++ join (sws sep) (sws y :: map sws l)).
  rewrite !sws_app, IH. reflexivity.
Qed.

Lemma sws_concat l : sws (concat l) = concat (map sws l).
Proof. unfold sws. apply concat_map. Qed.

Section RenderSwap.
  Variable o : opts.
  Hypothesis Hlay : layout_ok o = true.

  Lemma margin_sws d : sws (margin o d) = margin o d.
  Proof. apply sws_qf, blank_qf, margin_blank. exact Hlay. Qed.

  Lemma newline_sws : sws (newlinechar o) = newlinechar o.
  Proof.
    apply sws_qf, blank_qf. pose proof (newline_ok o Hlay) as H. unfold nl_ok in H.
    destruct (newlinechar o) as [|c r]; [discriminate|]. apply andb_true_iff in H. destruct H as [Hc Hr].
    cbn [forallb]. rewrite (eol_blank c Hc), Hr. reflexivity.
  Qed.

  Lemma spaces_sws n : sws (repeat_str [c_sp] n) = repeat_str [c_sp] n.
  Proof. apply sws_qf, blank_qf, forallb_repeat_str. reflexivity. Qed.

  Lemma render_line_swap al : render_line o (swap_aline al) = map sws (render_line o al).
  Proof.
    destruct al as [d b|d L k v|d n|d parts]; cbn [swap_aline render_line map].
    - rewrite sws_app, margin_sws. reflexivity.
    - unfold format_line. rewrite !sws_app, margin_sws, spaces_sws, length_sws. reflexivity.
    - rewrite !sws_app, margin_sws. destruct (end_comment o); [rewrite sws_app|]; reflexivity.
    - assert (E : join (newlinechar o) (map (fun p => margin o d ++ p) (map sws parts))
                  = sws (join (newlinechar o) (map (fun p => margin o d ++ p) parts))).
      { rewrite sws_join, newline_sws, !map_map. f_equal. apply map_ext. intros p.
        rewrite sws_app, margin_sws. reflexivity. }
      rewrite E. destruct (join (newlinechar o) (map (fun p => margin o d ++ p) parts)); reflexivity.
  Qed.

  Lemma render_doc_swap A : render_doc o (swap_doc A) = map sws (render_doc o A).
  Proof.
    induction A as [|al A IH]; [reflexivity|]. cbn [swap_doc map]. fold (swap_doc A).
    rewrite !render_doc_cons, render_line_swap, IH, map_app. reflexivity.
  Qed.

  Lemma render_swap A : render o (swap_doc A) = sws (render o A).
  Proof. unfold render. rewrite render_doc_swap, sws_join, newline_sws. reflexivity. Qed.
End RenderSwap.

(* rendering reads the layout options only *)
Lemma render_layout_only o o' A :
  indent o = indent o' -> spacer o = spacer o' -> newlinechar o = newlinechar o' ->
  end_comment o = end_comment o' -> align_values o = align_values o' ->
  render o A = render o' A.
Proof.
  destruct o, o'. cbn. intros -> -> -> -> ->. reflexivity.
Qed.
