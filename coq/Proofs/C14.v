(* C14: the comment-assignment pass (parser._assign_comments) treats source
   comments as a linear resource: every comment of the line-indexed comment
   dictionary is attached to at most one node, none is invented. *)
From Coq Require Import Permutation.
From MF Require Import Lib.Base Model.GrammarTypes Model.Transformer Gen.Grammar.
Open Scope N_scope.

(* all comment texts attached to the nodes of a forest, in document order *)
Fixpoint attached (t : tree) : list str :=
  match t with
  | Tok _ => []
  | Node _ cs m => (match m_comments m with Some c => c | None => [] end) ++ flat_map attached cs
  end.

Definition attached_l (l : list tree) : list str := flat_map attached l.

Lemma filter_partition {A} (f : A -> bool) (l : list A) :
  Permutation l (filter f l ++ filter (fun x => negb (f x)) l).
Proof.
  induction l as [|x l IH]; cbn [filter]; [constructor|].
  destruct (f x); cbn [negb app].
  - constructor. exact IH.
  - eapply perm_trans; [constructor; exact IH|]. apply Permutation_middle.
Qed.

Lemma insert_sorted_perm kv l : Permutation (kv :: l) (insert_sorted kv l).
Proof.
  induction l as [|x l IH]; cbn [insert_sorted]; [reflexivity|].
  destruct (fst kv <=? fst x); [reflexivity|].
  eapply perm_trans; [apply perm_swap|]. constructor. exact IH.
Qed.

Lemma sort_by_line_perm l : Permutation l (sort_by_line l).
Proof.
  unfold sort_by_line. induction l as [|x l IH]; cbn [fold_right]; [constructor|].
  eapply perm_trans; [constructor; exact IH|]. apply insert_sorted_perm.
Qed.

Lemma filter_perm {A} (f : A -> bool) (l l' : list A) : Permutation l l' -> Permutation (filter f l) (filter f l').
Proof.
  induction 1 as [|x l l' H IH|x y l|l l' l'' H1 IH1 H2 IH2]; cbn [filter].
  - constructor.
  - destruct (f x); [constructor; exact IH|exact IH].
  - destruct (f x), (f y); try reflexivity. apply perm_swap.
  - eapply perm_trans; eassumption.
Qed.

(* one node takes its comments: what it takes plus what it leaves is what was there *)
Lemma take_is_partition (cd : list (N * str)) line :
  Permutation (map snd cd)
              (map snd (filter (fun kv => fst kv <=? line) (sort_by_line cd))
               ++ map snd (filter (fun kv => negb (fst kv <=? line)) cd)).
Proof.
  rewrite <- map_app. apply Permutation_map.
  eapply perm_trans; [apply (filter_partition (fun kv => fst kv <=? line))|].
  apply Permutation_app_tail. apply filter_perm. apply sort_by_line_perm.
Qed.

(* a forest the pass has not touched yet *)
Fixpoint no_comments (t : tree) : Prop :=
  match t with
  | Tok _ => True
  | Node _ cs m => m_comments m = None /\
                   (fix all (l : list tree) : Prop := match l with [] => True | x :: l' => no_comments x /\ all l' end) cs
  end.

Fixpoint no_comments_l (l : list tree) : Prop :=
  match l with [] => True | x :: l' => no_comments x /\ no_comments_l l' end.

Lemma no_comments_node d cs m : no_comments (Node d cs m) <-> m_comments m = None /\ no_comments_l cs.
Proof.
  cbn [no_comments].
  assert (E : forall l, (fix all (l : list tree) : Prop :=
                           match l with [] => True | x :: l' => no_comments x /\ all l' end) l <-> no_comments_l l).
  { induction l as [|x l IH]; cbn [no_comments_l]; [tauto|]. rewrite IH. tauto. }
  rewrite E. tauto.
Qed.

Lemma no_comments_attached : forall t, no_comments t -> attached t = [].
Proof.
  fix IH 1. intros [tk|d cs m] H; [reflexivity|].
  destruct (proj1 (no_comments_node d cs m) H) as [Hm Hcs]. cbn [attached]. rewrite Hm. cbn [app].
  clear H. induction cs as [|x cs IHcs]; [reflexivity|]. cbn [flat_map]. destruct Hcs as [Hx Hr].
  rewrite (IH x Hx), (IHcs Hr). reflexivity.
Qed.

Lemma no_comments_attached_l l : no_comments_l l -> attached_l l = [].
Proof.
  induction l as [|x l IH]; [reflexivity|]. intros [Hx Hr]. unfold attached_l in *. cbn [flat_map].
  rewrite (no_comments_attached x Hx), (IH Hr). reflexivity.
Qed.

Lemma perm4 {A} (a r k c : list A) : Permutation (((a ++ r) ++ k) ++ c) (a ++ (c ++ k) ++ r).
Proof.
  rewrite <- !app_assoc. apply Permutation_app_head.
  eapply perm_trans; [apply Permutation_app_comm|]. rewrite <- app_assoc.
  eapply perm_trans; [apply Permutation_app_comm|]. rewrite <- app_assoc.
  apply Permutation_app_head. apply Permutation_app_comm.
Qed.

(* the comments the pass attaches plus the comments it leaves over are exactly
   the comments of the dictionary: none invented, none duplicated *)
Theorem assign_children_linear : forall fuel cd cs,
  no_comments_l cs ->
  Permutation (map snd cd)
              (map snd (fst (assign_children fuel cd cs)) ++ attached_l (snd (assign_children fuel cd cs))).
Proof.
  induction fuel as [|fuel IH]; intros cd cs Hnc; cbn [assign_children].
  { cbn [fst snd]. rewrite (no_comments_attached_l cs Hnc), app_nil_r. reflexivity. }
  destruct cs as [|[t|d kids m] cs'].
  - cbn [fst snd attached_l flat_map]. rewrite app_nil_r. reflexivity.
  - destruct Hnc as [_ Hr]. specialize (IH cd cs' Hr). destruct (assign_children fuel cd cs') as [cd' r]. exact IH.
  - destruct Hnc as [Hn Hr]. destruct (proj1 (no_comments_node d kids m) Hn) as [Hm Hk].
    destruct (m_line m) as [line0|].
    2:{ specialize (IH cd cs' Hr). destruct (assign_children fuel cd cs') as [cd' r].
        cbn [fst snd] in *. unfold attached_l in *. cbn [flat_map attached]. rewrite Hm. cbn [app].
        fold (attached_l kids). rewrite (no_comments_attached_l kids Hk). cbn [app]. exact IH. }
    set (line := if d =? CB_projection then match m_end_line m with Some l => l | None => line0 end else line0).
    set (step := if takes_comments d
                 then match filter (fun kv => fst kv <=? line) (sort_by_line cd) with
                      | [] => (cd, m)
                      | _ :: _ => (filter (fun kv => negb (fst kv <=? line)) cd,
                                   set_comments m (map snd (filter (fun kv => fst kv <=? line) (sort_by_line cd))))
                      end
                 else (cd, m)).
    assert (Hstep : Permutation (map snd cd)
                      (map snd (fst step) ++ match m_comments (snd step) with Some c => c | None => [] end)).
    { unfold step. destruct (takes_comments d); cbn [fst snd].
      - destruct (filter (fun kv => fst kv <=? line) (sort_by_line cd)) eqn:Ef; cbn [fst snd].
        + rewrite Hm, app_nil_r. reflexivity.
        + cbn [set_comments m_comments]. rewrite <- Ef.
          eapply perm_trans; [apply (take_is_partition cd line)|]. apply Permutation_app_comm.
      - rewrite Hm, app_nil_r. reflexivity. }
    change (let '(cd1, m1) := step in
            let '(cd2, kids') := assign_children fuel cd1 kids in
            let '(cd3, r) := assign_children fuel cd2 cs' in (cd3, Node d kids' m1 :: r))
      with (let '(cd1, m1) := step in
            let '(cd2, kids') := assign_children fuel cd1 kids in
            let '(cd3, r) := assign_children fuel cd2 cs' in (cd3, Node d kids' m1 :: r)).
    destruct step as [cd1 m1]. cbn [fst snd] in Hstep.
    pose proof (IH cd1 kids Hk) as IHk. destruct (assign_children fuel cd1 kids) as [cd2 kids'].
    pose proof (IH cd2 cs' Hr) as IHr. destruct (assign_children fuel cd2 cs') as [cd3 r].
    cbn [fst snd] in *. unfold attached_l in *. cbn [flat_map attached].
    eapply perm_trans; [exact Hstep|].
    eapply perm_trans; [apply Permutation_app_tail; exact IHk|].
    eapply perm_trans; [apply Permutation_app_tail; apply Permutation_app_tail; exact IHr|].
    apply perm4.
Qed.

(* ---------------------------------------------------------------- the parser's trees carry no comments yet *)
From MF Require Import Model.Lexer Model.LR.

Lemma no_comments_l_app a b : no_comments_l (a ++ b) <-> no_comments_l a /\ no_comments_l b.
Proof. induction a as [|x a IH]; cbn [app no_comments_l]; [tauto|]. rewrite IH. tauto. Qed.

Lemma no_comments_l_nth cs i c : no_comments_l cs -> nth_error cs i = Some c -> no_comments c.
Proof.
  revert i; induction cs as [|x cs IH]; intros [|i] H E; cbn in E; try discriminate.
  - injection E as <-. exact (proj1 H).
  - eapply IH; [exact (proj2 H)|exact E].
Qed.

Lemma apply_filter_no_comments inc cs out :
  no_comments_l cs -> apply_filter inc cs = Ok out -> no_comments_l out.
Proof.
  intros Hcs. revert out; induction inc as [|[i ex] inc IH]; intros out H; cbn [apply_filter] in H.
  - injection H as <-. exact I.
  - destruct (nth_error cs i) as [c|] eqn:E; [|discriminate].
    destruct (apply_filter inc cs) as [rest|e]; cbn [bind] in H; [|discriminate].
    pose proof (no_comments_l_nth cs i c Hcs E) as Hc. specialize (IH rest eq_refl).
    destruct ex.
    + destruct c as [tk|d kids m]; [discriminate|]. injection H as <-.
      apply no_comments_l_app. split; [|exact IH]. exact (proj2 (proj1 (no_comments_node d kids m) Hc)).
    + injection H as <-. split; assumption.
Qed.

Lemma propagate_no_comments cs t : no_comments t -> no_comments (propagate cs t).
Proof.
  destruct t as [tk|d kids m]; [auto|]. intros H.
  destruct (proj1 (no_comments_node d kids m) H) as [Hm Hk].
  cbn [propagate]. apply no_comments_node. split; [|exact Hk].
  destruct (first_meta_start cs); destruct (first_meta_end (rev cs)); cbn [m_comments]; exact Hm.
Qed.

Lemma build_no_comments pp r cs v : no_comments_l cs -> build pp r cs = Ok v -> no_comments v.
Proof.
  intros Hcs. unfold build. intros H.
  destruct (match r_filter r with Some inc => apply_filter inc cs | None => Ok cs end) as [f|e] eqn:E;
    cbn [bind] in H; [|discriminate].
  assert (Hf : no_comments_l f).
  { destruct (r_filter r); [eapply apply_filter_no_comments; eassumption|]. injection E as <-. exact Hcs. }
  injection H as <-.
  assert (Hn : no_comments (match r_expand1 r, f with
                            | true, [c] => c
                            | _, _ => Node (r_name r) f meta0
                            end)).
  { destruct (r_expand1 r); [destruct f as [|c [|c2 f']]|];
      try (apply no_comments_node; split; [reflexivity|exact Hf]). exact (proj1 Hf). }
  destruct pp; [apply propagate_no_comments|]; exact Hn.
Qed.

Lemma no_comments_l_rev l : no_comments_l l -> no_comments_l (rev l).
Proof.
  induction l as [|x l IH]; [auto|]. intros [Hx Hl]. cbn [rev]. apply no_comments_l_app.
  split; [apply IH; exact Hl|split; [exact Hx|exact I]].
Qed.

Lemma pop_n_split' {A} n (l p r : list A) : pop_n n l = Some (p, r) -> l = p ++ r.
Proof.
  revert l p r; induction n as [|n IH]; intros l p r H; cbn [pop_n] in H.
  - injection H as <- <-. reflexivity.
  - destruct l as [|x l]; [discriminate|].
    destruct (pop_n n l) as [[p' r']|] eqn:E; [|discriminate]. injection H as <- <-.
    cbn [app]. f_equal. apply IH. exact E.
Qed.

Lemma feed_no_comments g pp tok is_end : forall fuel ss vs,
  no_comments_l vs ->
  match feed g pp fuel tok is_end ss vs with
  | FShift _ vs' => no_comments_l vs'
  | FDone v => no_comments v
  | FErr _ => True
  end.
Proof.
  induction fuel as [|fuel IH]; intros ss vs Hs; cbn [feed]; [exact I|].
  destruct ss as [|state ss']; [exact I|].
  destruct (lookup_action g state (ttype tok)) as [[ns|ri]|]; [| |exact I].
  - destruct is_end; [exact I|]. split; [exact I|exact Hs].
  - destruct (nth_N (g_rules g) ri) as [r|]; [|exact I].
    destruct (pop_n (length (r_expansion r)) (state :: ss')) as [[p1 ss1]|]; [|exact I].
    destruct (pop_n (length (r_expansion r)) vs) as [[popped vs1]|] eqn:Ep; [|exact I].
    apply pop_n_split' in Ep. subst vs. apply no_comments_l_app in Hs. destruct Hs as [Hp Hv].
    destruct (build pp r (rev popped)) as [value|e] eqn:Eb; [|exact I].
    pose proof (build_no_comments pp r (rev popped) value (no_comments_l_rev _ Hp) Eb) as Hval.
    destruct ss1 as [|top ss1']; [exact I|].
    destruct (lookup_action g top (r_origin r)) as [[ns|?]|]; try exact I.
    destruct (is_end && (ns =? g_end g)); [exact Hval|].
    apply IH. split; assumption.
Qed.

Theorem parse_tree_no_comments g h wc : forall fuel st ss vs acc po,
  no_comments_l vs ->
  snd (parse_loop g h wc fuel st ss vs acc) = Ok po -> no_comments (po_tree po).
Proof.
  induction fuel as [|fuel IH]; intros st ss vs acc po Hs H; cbn [parse_loop] in H; [discriminate|].
  destruct ss as [|state ss']; [discriminate|].
  destruct (ctx_next g wc state (S fuel) st) as [t st'|st'|l c|t]; try discriminate.
  - destruct (hook h t vs) as [t'|e]; [|discriminate].
    pose proof (feed_no_comments g wc t' false (reduce_fuel g (state :: ss')) (state :: ss') vs Hs) as Hf.
    destruct (feed g wc (reduce_fuel g (state :: ss')) t' false (state :: ss') vs) as [ss2 vs2|v|e];
      try discriminate.
    eapply IH; [exact Hf|exact H].
  - match type of H with context [feed g wc ?F ?T true ?SS vs] =>
      pose proof (feed_no_comments g wc T true F SS vs Hs) as Hf;
      destruct (feed g wc F T true SS vs) as [ss2 vs2|v|e]; try discriminate
    end.
    injection H as <-. exact Hf.
Qed.

(* ---------------------------------------------------------------- the comment dictionary comes from the source *)
Definition cd_step (d : list (N * str)) (c : token) : list (N * str) :=
  let v := strip (tval c) in
  if match assocN (tline c) d with Some _ => true | None => false end
  then map (fun kv => if fst kv =? tline c then (fst kv, v) else kv) d
  else d ++ [(tline c, v)].

Lemma comments_dict_fold cs : comments_dict cs = fold_left cd_step cs [].
Proof. reflexivity. Qed.

Lemma cd_fold_from_tokens (all : list token) : forall cs0 d0,
  (forall line v, In (line, v) d0 -> exists c, In c all /\ tline c = line /\ v = strip (tval c)) ->
  (forall c, In c cs0 -> In c all) ->
  forall line v, In (line, v) (fold_left cd_step cs0 d0) ->
                 exists c, In c all /\ tline c = line /\ v = strip (tval c).
Proof.
  induction cs0 as [|c0 cs0 IH]; intros d0 Hd Hsub line v Hin; cbn [fold_left] in Hin; [apply Hd; exact Hin|].
  eapply IH; [| |exact Hin].
  - clear Hin line v. intros line v Hin. unfold cd_step in Hin.
    destruct (match assocN (tline c0) d0 with Some _ => true | None => false end).
    + apply in_map_iff in Hin. destruct Hin as ([l0 v0] & E & Hin0). cbn [fst] in E.
      destruct (N.eqb_spec l0 (tline c0)) as [->|Hne].
      * injection E as <- <-. exists c0. split; [apply Hsub; left; reflexivity|auto].
      * injection E as <- <-. apply Hd. exact Hin0.
    + apply in_app_or in Hin. destruct Hin as [Hin|[E|[]]]; [apply Hd; exact Hin|].
      injection E as <- <-. exists c0. split; [apply Hsub; left; reflexivity|auto].
  - intros c1 Hc1. apply Hsub. right. exact Hc1.
Qed.

(* every entry of the comment dictionary is the stripped text of a comment token
   of the source, on that token's line *)
Theorem comments_dict_from_tokens cs :
  forall line v, In (line, v) (comments_dict cs) -> exists c, In c cs /\ tline c = line /\ v = strip (tval c).
Proof.
  intros line v Hin. rewrite comments_dict_fold in Hin.
  eapply (cd_fold_from_tokens cs cs []); [intros ? ? []|auto|exact Hin].
Qed.

(* ---------------------------------------------------------------- end to end on the parser's output *)
Theorem assigned_comments_are_source_comments g h text po :
  parse_text g h true text = Ok po ->
  exists leftover,
    Permutation (map snd (comments_dict (po_comments po)))
                (leftover ++ attached (assign_comments (po_comments po) (po_tree po))).
Proof.
  intros H. unfold parse_text, parse_text_tr in H.
  pose proof (parse_tree_no_comments g h true (S (length text)) (ls0 text) [g_start g] [] [] po I H) as Hn.
  destruct (po_tree po) as [tk|d cs m] eqn:E.
  - exists (map snd (comments_dict (po_comments po))). cbn [assign_comments attached]. rewrite app_nil_r. reflexivity.
  - destruct (proj1 (no_comments_node d cs m) Hn) as [Hm Hcs].
    cbn [assign_comments attached]. rewrite Hm. cbn [app].
    exists (map snd (fst (assign_children (S (tree_size (Node d cs m))) (comments_dict (po_comments po)) cs))).
    apply assign_children_linear. exact Hcs.
Qed.
