(* C02 (documented text-to-dict contract), universal part 1: SPECIFICATION.

   What a value returned by Api.loads looks like, stated on final Python data
   ([value]) and generic in five leaf predicates so that one statement serves
   both as the SHAPE contract (leaves are ints/floats/bools/strings) and as the
   PROVENANCE contract (every leaf is derived from one source token by the
   documented conversion):

     LF  a scalar attribute value                (NAME "x", STATUS ON, SIZE 5 ...)
     LM  one element of a multi-token attribute  (EXTENT 1 2 3 4, COLOR 1 2 3 ...)
     LN  a number of a POINTS / PATTERN pair
     LS  a string of a key-value block, of CONFIG or of PROJECTION
     LK  a key of a key-value block or of CONFIG

   Keys are classified by the computable function [family]; the entry stored
   under a key of a block dict has the form [entry_ok] prescribes for the
   key's family.  Definitions, the finite checks on the token tables (one
   vm_compute each) and monotonicity only; no reference to the transformer's
   internals beyond the names of its bookkeeping keys. *)
From MF Require Import Lib.Base Lib.PyDict Lib.PyNum Model.GrammarTypes Model.Case Model.Transformer
  Gen.Tokens Gen.Grammar Proofs.CaseFacts.
Open Scope N_scope.

(* ================================================================ keys *)
Definition s_pattern : str := Str "pattern".
Definition s_projection : str := Str "projection".
Definition s_validation : str := Str "validation".
Definition s_connectionoptions : str := Str "connectionoptions".

(* bookkeeping keys: their values are not part of the contract (C08 / C13 / C14 speak about them) *)
Definition bk (k : str) : bool := str_eqb k s_position || str_eqb k s_comments || str_eqb k s_tokens.

(* the block types: the 19 composite_type keywords of the grammar, the synthetic
   "symbolset" root, and the four key-value blocks *)
Definition CTYPES : list str :=
  [Str "class"; Str "cluster"; Str "composite"; Str "feature"; Str "grid"; Str "join"; Str "label";
   Str "layer"; Str "leader"; Str "legend"; Str "map"; Str "outputformat"; Str "querymap";
   Str "reference"; Str "scalebar"; Str "scaletoken"; Str "style"; Str "web"; Str "symbol"; s_symbolset].
Definition KVTYPES : list str := [s_values; s_metadata; s_validation; s_connectionoptions].
Definition BTYPES : list str := CTYPES ++ KVTYPES.

Definition SINGLE_KEYS : list str := filter (fun k => mem_str k SINGLETON_COMPOSITE_NAMES) BTYPES.
Definition PLURAL_KEYS : list str :=
  map plural (filter (fun k => negb (mem_str k SINGLETON_COMPOSITE_NAMES)) BTYPES).

Inductive fam := FType | FBook | FConfig | FPoints | FRep | FSingle | FPlural | FPattern | FProjection | FAttr.

Definition fam_eqb (a b : fam) : bool :=
  match a, b with
  | FType, FType | FBook, FBook | FConfig, FConfig | FPoints, FPoints | FRep, FRep | FSingle, FSingle
  | FPlural, FPlural | FPattern, FPattern | FProjection, FProjection | FAttr, FAttr => true
  | _, _ => false
  end.

Lemma fam_eqb_eq a b : fam_eqb a b = true <-> a = b.
Proof. destruct a, b; cbn; split; congruence. Qed.

Definition family (k : str) : fam :=
  if str_eqb k s_type then FType
  else if bk k then FBook
  else if str_eqb k s_config then FConfig
  else if str_eqb k s_points then FPoints
  else if mem_str k REPEATED_KEYS then FRep
  else if mem_str k SINGLE_KEYS then FSingle
  else if mem_str k PLURAL_KEYS then FPlural
  else if str_eqb k s_pattern then FPattern
  else if str_eqb k s_projection then FProjection
  else FAttr.

(* ---------------------------------------------------------------- finite checks on the tables *)
Lemma btypes_are_complex_types : forallb (fun k => mem_str k COMPLEX_TYPES) BTYPES = true.
Proof. vm_compute. reflexivity. Qed.

Lemma btypes_lower_check : forallb (fun k => str_eqb (lower k) k) BTYPES = true.
Proof. vm_compute. reflexivity. Qed.

Lemma btypes_family_check :
  forallb (fun k => if mem_str k SINGLETON_COMPOSITE_NAMES then fam_eqb (family k) FSingle
                    else fam_eqb (family (plural k)) FPlural && str_eqb (lower (plural k)) (plural k))
          BTYPES = true.
Proof. vm_compute. reflexivity. Qed.

Lemma kvtypes_check :
  forallb (fun k => mem_str k BTYPES && mem_str k SINGLETON_COMPOSITE_NAMES) KVTYPES = true.
Proof. vm_compute. reflexivity. Qed.

Lemma style_symbol_family :
  family s_style = FAttr /\ family s_symbol = FAttr.
Proof. vm_compute. split; reflexivity. Qed.

Lemma family_consts :
  family s_type = FType /\ family s_config = FConfig /\ family s_points = FPoints /\
  family s_pattern = FPattern /\ family s_projection = FProjection /\
  family s_position = FBook /\ family s_comments = FBook /\ family s_tokens = FBook.
Proof. vm_compute. repeat split; reflexivity. Qed.

Lemma bk_consts_lower :
  lower s_position = s_position /\ lower s_comments = s_comments /\ lower s_tokens = s_tokens /\
  lower s_type = s_type /\ lower s_config = s_config /\ lower s_points = s_points /\
  lower s_pattern = s_pattern /\ lower s_projection = s_projection.
Proof. vm_compute. repeat split; reflexivity. Qed.

Lemma btype_lower k : mem_str k BTYPES = true -> lower k = k.
Proof.
  intros H. apply mem_str_In in H. pose proof btypes_lower_check as Hc.
  rewrite forallb_forall in Hc. apply str_eqb_eq. apply Hc. exact H.
Qed.

Lemma btype_single k :
  mem_str k BTYPES = true -> mem_str k SINGLETON_COMPOSITE_NAMES = true -> family k = FSingle.
Proof.
  intros H Hs. apply mem_str_In in H. pose proof btypes_family_check as Hc.
  rewrite forallb_forall in Hc. specialize (Hc k H). rewrite Hs in Hc. apply fam_eqb_eq. exact Hc.
Qed.

Lemma btype_plural k :
  mem_str k BTYPES = true -> mem_str k SINGLETON_COMPOSITE_NAMES = false ->
  family (plural k) = FPlural /\ lower (plural k) = plural k.
Proof.
  intros H Hs. apply mem_str_In in H. pose proof btypes_family_check as Hc.
  rewrite forallb_forall in Hc. specialize (Hc k H). rewrite Hs in Hc.
  apply andb_true_iff in Hc. destruct Hc as [H1 H2]. split; [apply fam_eqb_eq; exact H1|apply str_eqb_eq; exact H2].
Qed.

Lemma kvtype_btype k : In k KVTYPES -> mem_str k BTYPES = true /\ mem_str k SINGLETON_COMPOSITE_NAMES = true.
Proof.
  intros H. pose proof kvtypes_check as Hc. rewrite forallb_forall in Hc. specialize (Hc k H).
  apply andb_true_iff in Hc. exact Hc.
Qed.

Lemma ctype_btype k : mem_str k CTYPES = true -> mem_str k BTYPES = true.
Proof. intros H. apply mem_str_In. apply mem_str_In in H. unfold BTYPES. apply in_or_app. left. exact H. Qed.

(* reading [family] backwards *)
Lemma family_type k : family k = FType <-> k = s_type.
Proof.
  unfold family. destruct (str_eqb_spec k s_type) as [->|Hne]; [split; reflexivity|].
  split; [|congruence]. repeat match goal with |- context [if ?c then _ else _] => destruct c end; discriminate.
Qed.

Lemma family_not_type k : k <> s_type -> family k <> FType.
Proof. intros H Hf. apply H. apply family_type. exact Hf. Qed.

Lemma family_book k : family k = FBook -> bk k = true.
Proof.
  unfold family. destruct (str_eqb k s_type); [discriminate|]. destruct (bk k); [reflexivity|].
  repeat match goal with |- context [if ?c then _ else _] => destruct c end; discriminate.
Qed.

Lemma family_bk k : bk k = true -> family k = FBook.
Proof.
  intros H. unfold family. destruct (str_eqb_spec k s_type) as [->|Hne]; [discriminate H|]. rewrite H. reflexivity.
Qed.

Lemma family_config k : k = s_config -> family k = FConfig.
Proof. intros ->. apply family_consts. Qed.

Lemma family_points k : k = s_points -> family k = FPoints.
Proof. intros ->. apply family_consts. Qed.

Lemma family_rep k : family k = FRep -> mem_str k REPEATED_KEYS = true.
Proof.
  unfold family.
  destruct (str_eqb k s_type); [discriminate|]. destruct (bk k); [discriminate|].
  destruct (str_eqb k s_config); [discriminate|]. destruct (str_eqb k s_points); [discriminate|].
  destruct (mem_str k REPEATED_KEYS); [reflexivity|].
  repeat match goal with |- context [if ?c then _ else _] => destruct c end; discriminate.
Qed.

(* the branch tests of composite(): what is left when a key is none of the special ones *)
Lemma family_plain k :
  str_eqb k s_config = false -> str_eqb k s_points = false -> mem_str k REPEATED_KEYS = false ->
  family k <> FConfig /\ family k <> FPoints /\ family k <> FRep.
Proof.
  intros H1 H2 H3. unfold family. rewrite H1, H2, H3.
  repeat match goal with |- context [if ?c then _ else _] => destruct c end; repeat split; discriminate.
Qed.

Lemma family_is_config k : family k = FConfig -> k = s_config.
Proof.
  unfold family. destruct (str_eqb k s_type); [discriminate|]. destruct (bk k); [discriminate|].
  destruct (str_eqb_spec k s_config) as [->|]; [reflexivity|].
  repeat match goal with |- context [if ?c then _ else _] => destruct c end; discriminate.
Qed.

Lemma family_is_points k : family k = FPoints -> k = s_points.
Proof.
  unfold family. destruct (str_eqb k s_type); [discriminate|]. destruct (bk k); [discriminate|].
  destruct (str_eqb k s_config); [discriminate|].
  destruct (str_eqb_spec k s_points) as [->|]; [reflexivity|].
  repeat match goal with |- context [if ?c then _ else _] => destruct c end; discriminate.
Qed.

(* ================================================================ final data: the contract *)
Definition number (v : value) : Prop := match v with VInt _ | VFloat _ _ => True | _ => False end.
Definition is_str (v : value) : Prop := match v with VStr _ => True | _ => False end.
Definition scalar (v : value) : Prop :=
  match v with VInt _ | VFloat _ _ | VBool _ | VStr _ => True | _ => False end.
Definition lower_key (k : str) : Prop := lower k = k.

(* image of a transformer dict in final data is built with this map *)
Definition skipk (k : str) : bool := bk k || str_eqb k s_config.

Section Spec.
  Variables (LF LM LN LS : value -> Prop) (LK : str -> Prop).

  (* an ordinary attribute: one scalar, or the list of its (two or more) value tokens *)
  Definition gattrv (v : value) : Prop :=
    LF v \/ exists l, v = VList l /\ Forall LM l /\ (2 <= length l)%nat.

  Definition pairv (v : value) : Prop := exists a b, v = VList [a; b] /\ LN a /\ LN b.
  Definition pairsv (v : value) : Prop := exists l, v = VList l /\ Forall pairv l.
  (* POINTS: the pairs of one POINTS block, or (several POINTS blocks in one FEATURE) a list of such lists *)
  Definition ptsv (v : value) : Prop := pairsv v \/ exists ll, v = VList ll /\ Forall pairsv ll.
  Definition strsv (v : value) : Prop := exists l, v = VList l /\ Forall LS l.
  Definition kventry (kv : str * value) : Prop := LK (fst kv) /\ LS (snd kv).
  Definition cfgv (v : value) : Prop := exists items, v = VDict (DCI true) items /\ Forall kventry items.

  Definition isblock (ty : str) (v : value) : Prop :=
    exists items, v = VDict (DCI true) items /\ assoc s_type items = Some (VStr ty).

  (* what is stored under key k of a block dict *)
  Definition entry_ok (k : str) (v : value) : Prop :=
    match family k with
    | FType => exists ty, v = VStr ty /\ mem_str ty BTYPES = true
    | FBook => True
    | FConfig => cfgv v
    | FPoints => ptsv v
    | FRep => exists l, v = VList l /\ l <> [] /\ Forall gattrv l
    | FSingle => isblock k v
    | FPlural => exists l, v = VList l /\ l <> [] /\
                   Forall (fun d => exists ty, isblock ty d /\ plural ty = k /\
                                               mem_str ty SINGLETON_COMPOSITE_NAMES = false) l
    | FPattern => pairsv v
    | FProjection => strsv v
    | FAttr => gattrv v
    end.

  (* a block: __type__ first, every key lower-case, every entry of the form its key prescribes *)
  Definition blockv (items : list (str * value)) : Prop :=
    (exists ty rest, items = (s_type, VStr ty) :: rest) /\
    NoDup (keys items) /\
    Forall (fun kv => lower_key (fst kv) /\ entry_ok (fst kv) (snd kv)) items.

  (* a key-value block (METADATA, VALIDATION, VALUES, CONNECTIONOPTIONS): lower-case keys, string values *)
  Definition kvblockv (items : list (str * value)) : Prop :=
    (exists ty, assoc s_type items = Some (VStr ty) /\ In ty KVTYPES) /\
    NoDup (keys items) /\
    Forall (fun kv => lower_key (fst kv) /\ (fst kv = s_type \/ bk (fst kv) = true \/ kventry kv)) items.

  Definition dict_ok (c : dcls) (items : list (str * value)) : Prop :=
    c = DCI true /\ (blockv items \/ kvblockv items).

  (* every dict, at every depth (through lists and dict values, except below
     the bookkeeping keys and below config, which [cfgv] describes completely) *)
  Fixpoint CS (v : value) : Prop :=
    match v with
    | VList l => (fix go (l : list value) : Prop := match l with [] => True | y :: l' => CS y /\ go l' end) l
    | VDict c items =>
        (fix go (l : list (str * value)) : Prop :=
           match l with
           | [] => True
           | (k, y) :: l' => (skipk k = true \/ CS y) /\ go l'
           end) items
        /\ dict_ok c items
    | _ => True
    end.

  Lemma CS_list l : CS (VList l) <-> Forall CS l.
  Proof.
    cbn [CS]. induction l as [|y l IH]; [split; [constructor|exact (fun _ => I)]|].
    rewrite IH. split; [intros [H1 H2]; constructor; assumption|intros H; inversion H; subst; tauto].
  Qed.

  Lemma CS_dict c items :
    CS (VDict c items) <->
    Forall (fun kv => skipk (fst kv) = true \/ CS (snd kv)) items /\ dict_ok c items.
  Proof.
    cbn [CS].
    assert (H : (fix go (l : list (str * value)) : Prop :=
                   match l with
                   | [] => True
                   | (k, y) :: l' => (skipk k = true \/ CS y) /\ go l'
                   end) items <-> Forall (fun kv => skipk (fst kv) = true \/ CS (snd kv)) items).
    { induction items as [|[k y] l IH]; [split; [constructor|exact (fun _ => I)]|].
      rewrite IH. split; [intros [H1 H2]; constructor; assumption|intros H; inversion H; subst; tauto]. }
    rewrite H. tauto.
  Qed.

  Definition is_block_dict (v : value) : Prop := exists items, v = VDict (DCI true) items.

  (* the whole result: one block, or the list of the file's root blocks *)
  Definition contract (v : value) : Prop :=
    CS v /\ (is_block_dict v \/ exists l, v = VList l /\ Forall is_block_dict l).
End Spec.

(* ---------------------------------------------------------------- monotonicity in the leaf predicates *)
Section Mono.
  Variables (LF LM LN LS : value -> Prop) (LK : str -> Prop).
  Variables (LF' LM' LN' LS' : value -> Prop) (LK' : str -> Prop).
  Hypothesis HF : forall v, LF v -> LF' v.
  Hypothesis HM : forall v, LM v -> LM' v.
  Hypothesis HN : forall v, LN v -> LN' v.
  Hypothesis HS : forall v, LS v -> LS' v.
  Hypothesis HK : forall k, LK k -> LK' k.

  Lemma gattrv_mono v : gattrv LF LM v -> gattrv LF' LM' v.
  Proof.
    intros [H|(l & -> & Hl & Hn)]; [left; auto|right]. exists l. split; [reflexivity|]. split; [|exact Hn].
    eapply Forall_impl; [|exact Hl]. exact HM.
  Qed.

  Lemma pairv_mono v : pairv LN v -> pairv LN' v.
  Proof. intros (a & b & -> & Ha & Hb). exists a, b. auto. Qed.

  Lemma pairsv_mono v : pairsv LN v -> pairsv LN' v.
  Proof.
    intros (l & -> & Hl). exists l. split; [reflexivity|]. eapply Forall_impl; [|exact Hl]. exact pairv_mono.
  Qed.

  Lemma ptsv_mono v : ptsv LN v -> ptsv LN' v.
  Proof.
    intros [H|(ll & -> & Hl)]; [left; apply pairsv_mono; exact H|right]. exists ll. split; [reflexivity|].
    eapply Forall_impl; [|exact Hl]. exact pairsv_mono.
  Qed.

  Lemma strsv_mono v : strsv LS v -> strsv LS' v.
  Proof. intros (l & -> & Hl). exists l. split; [reflexivity|]. eapply Forall_impl; [|exact Hl]. exact HS. Qed.

  Lemma kventry_mono kv : kventry LS LK kv -> kventry LS' LK' kv.
  Proof. intros [H1 H2]. split; auto. Qed.

  Lemma cfgv_mono v : cfgv LS LK v -> cfgv LS' LK' v.
  Proof.
    intros (items & -> & Hi). exists items. split; [reflexivity|]. eapply Forall_impl; [|exact Hi]. exact kventry_mono.
  Qed.

  Lemma entry_ok_mono k v : entry_ok LF LM LN LS LK k v -> entry_ok LF' LM' LN' LS' LK' k v.
  Proof.
    unfold entry_ok. destruct (family k); try (intros H; exact H).
    - apply cfgv_mono.
    - apply ptsv_mono.
    - intros (l & -> & Hn & Hl). exists l. split; [reflexivity|]. split; [exact Hn|].
      eapply Forall_impl; [|exact Hl]. exact gattrv_mono.
    - apply pairsv_mono.
    - apply strsv_mono.
    - apply gattrv_mono.
  Qed.

  Lemma blockv_mono items : blockv LF LM LN LS LK items -> blockv LF' LM' LN' LS' LK' items.
  Proof.
    intros (H1 & H2 & H3). split; [exact H1|]. split; [exact H2|]. eapply Forall_impl; [|exact H3].
    intros kv [Ha Hb]. split; [exact Ha|apply entry_ok_mono; exact Hb].
  Qed.

  Lemma kvblockv_mono items : kvblockv LS LK items -> kvblockv LS' LK' items.
  Proof.
    intros (H1 & H2 & H3). split; [exact H1|]. split; [exact H2|]. eapply Forall_impl; [|exact H3].
    intros kv [Ha [Hb|[Hb|Hb]]]; (split; [exact Ha|]); [left; exact Hb|right; left; exact Hb|right; right; apply kventry_mono; exact Hb].
  Qed.

  Lemma CS_mono : forall v, CS LF LM LN LS LK v -> CS LF' LM' LN' LS' LK' v.
  Proof.
    induction v as [| | | | |l IH|c items IH] using value_ind'; try (intros; exact I).
    - rewrite !CS_list. intros H. rewrite Forall_forall in *. intros y Hy. apply IH; auto.
    - rewrite !CS_dict. intros [H1 (Hc & H2)]. split.
      + rewrite Forall_forall in *. intros kv Hkv. destruct (H1 kv Hkv) as [Hs|Hp]; [left; exact Hs|right].
        apply IH; assumption.
      + split; [exact Hc|]. destruct H2 as [H2|H2]; [left; apply blockv_mono; exact H2|right; apply kvblockv_mono; exact H2].
  Qed.

  Lemma contract_mono v : contract LF LM LN LS LK v -> contract LF' LM' LN' LS' LK' v.
  Proof. intros [H1 H2]. split; [apply CS_mono; exact H1|exact H2]. Qed.
End Mono.

(* ================================================================ the two instances *)
(* 1. SHAPE (strict form): leaves are typed Python scalars *)
Definition contract_strict : value -> Prop := contract scalar scalar number is_str lower_key.

(* 2. PROVENANCE: every leaf is derived from one token of [toks] *)
Section Leaf.
  Variable toks : list token.
  Variable synth : bool.      (* the root is the SYMBOLSET form (Canonize adds a synthetic token "symbolset") *)

  (* the .value of a transformer token *)
  Inductive pl0 : value -> Prop :=
  | P_raw tk : In tk toks -> pl0 (VStr (tval tk))
  | P_synth : synth = true -> pl0 (VStr s_symbolset)
  | P_int tk z : In tk toks -> parse_int (tval tk) = Some z -> pl0 (VInt z)
  | P_float tk m e : In tk toks -> parse_float (tval tk) = Some (m, e) -> pl0 (VFloat m e)
  | P_bool tk (b : bool) : In tk toks -> ttype tk = (if b then TM_TRUE else TM_FALSE) -> pl0 (VBool b)
  | P_hex tk : In tk toks -> pl0 (VStr (lower (clean_string_s (tval tk))))
  | P_cfgkey tk : In tk toks -> pl0 (VStr (clean_string_s (lower (tval tk))))
  | P_clean tk : In tk toks -> pl0 (VStr (clean_string_s (tval tk))).

  Definition binops : list (str * str * str) :=
    [(Str "( ", Str " AND ", Str " )"); (Str "( ", Str " OR ", Str " )");
     ([], Str " + ", []); ([], Str " - ", []); ([], Str " / ", []); ([], Str " * ", []); ([], Str " ^ ", [])].

  Definition orig_text (p : str) : Prop :=
    (exists tk, In tk toks /\ p = tval tk) \/ (synth = true /\ p = s_symbolset).

  (* the strings the expression callbacks build: atoms are str() of token
     values, combined exactly as comparison / and_test / or_test / add / sub /
     mul / div / power / neg / not_expression / expression / func_call /
     attr_bind / list do *)
  Inductive estr : str -> Prop :=
  | E_atom w s : pl0 w -> py_str w = Ok s -> estr s
  | E_bin pre mid post a b : In (pre, mid, post) binops -> estr a -> estr b -> estr (pre ++ a ++ mid ++ b ++ post)
  | E_cmp a b c : estr a -> estr b -> estr c -> estr (Str "( " ++ join sp [a; b; c] ++ Str " )")
  | E_par parts : Forall estr parts -> estr ([40] ++ join sp parts ++ [41])
  | E_pre pre a : (pre = Str "NOT " \/ pre = [45]) -> estr a -> estr (pre ++ a)
  | E_call f ps : estr f -> Forall estr ps -> estr ([40] ++ f ++ [40] ++ join [44] ps ++ [41; 41])
  | E_bind a : estr a -> estr ([91] ++ a ++ [93])
  | E_list parts : Forall orig_text parts -> estr ([123] ++ join [44] parts ++ [125]).

  Definition eparams (s : str) : Prop := exists ps, Forall estr ps /\ s = join [44] ps.

  Definition pl (v : value) : Prop := pl0 v \/ exists s, v = VStr s /\ estr s.

  (* a scalar attribute value: attr() applies clean_string to the single value token *)
  Definition leaf (v : value) : Prop := exists w, pl w /\ v = clean_top w.

  Definition numv (v : value) : Prop :=
    (exists tk z, In tk toks /\ parse_int (tval tk) = Some z /\ v = VInt z) \/
    (exists tk m e, In tk toks /\ parse_float (tval tk) = Some (m, e) /\ v = VFloat m e).

  Definition cleanv (v : value) : Prop := exists tk, In tk toks /\ v = VStr (clean_string_s (tval tk)).

  Definition kvkey (k : str) : Prop :=
    exists tk, In tk toks /\ (k = lower (clean_string_s (tval tk)) \/ k = lower (clean_string_s (lower (tval tk)))).

  Definition contract_from : value -> Prop := contract leaf pl numv cleanv kvkey.

  Lemma pl0_scalar v : pl0 v -> scalar v.
  Proof. intros H. destruct H; exact I. Qed.

  Lemma pl_scalar v : pl v -> scalar v.
  Proof. intros [H|(s & -> & _)]; [apply pl0_scalar; exact H|exact I]. Qed.

  Lemma clean_top_scalar v : scalar v -> scalar (clean_top v).
  Proof. destruct v; cbn; auto. Qed.

  Lemma leaf_scalar v : leaf v -> scalar v.
  Proof. intros (w & Hw & ->). apply clean_top_scalar. apply pl_scalar. exact Hw. Qed.

  Lemma numv_number v : numv v -> number v.
  Proof. intros [(tk & z & _ & _ & ->)|(tk & m & e & _ & _ & ->)]; exact I. Qed.

  Lemma cleanv_str v : cleanv v -> is_str v.
  Proof. intros (tk & _ & ->). exact I. Qed.

  Lemma kvkey_lower k : kvkey k -> lower_key k.
  Proof. intros (tk & Hin & [H | H]); subst k; apply lower_idem. Qed.

  Lemma numv_pl v : numv v -> pl v.
  Proof.
    intros [(tk & z & H1 & H2 & ->)|(tk & m & e & H1 & H2 & ->)]; left; [eapply P_int|eapply P_float]; eassumption.
  Qed.

  Lemma pl_pystr v s : pl v -> py_str v = Ok s -> estr s.
  Proof.
    intros [H|(s' & -> & H)] Hp; [eapply E_atom; eassumption|]. cbn in Hp. injection Hp as <-. exact H.
  Qed.

  (* provenance implies shape *)
  Theorem contract_from_strict v : contract_from v -> contract_strict v.
  Proof.
    apply contract_mono; [exact leaf_scalar|exact pl_scalar|exact numv_number|exact cleanv_str|exact kvkey_lower].
  Qed.
End Leaf.

(* ================================================================ the unguarded shape *)
(* What holds of EVERY loaded value, whatever the spelling of its key tokens
   (the strict contract needs the lexical guard of Proofs/C02U_Guard.v):
   - data are ints, floats, booleans, strings, lists and dicts (no None), at every
     depth outside the bookkeeping keys __position__ / __comments__ and config;
   - every key of every dict is lower-case;
   - every dict of the block class (CaseInsensitiveOrderedDict) carries a
     __type__ entry which is a lower-case string. *)
Fixpoint sv (v : value) : bool :=
  match v with
  | VNone | VDict _ _ => false
  | VList l => forallb sv l
  | _ => true
  end.

Definition skipw (k : str) : bool := str_eqb k s_position || str_eqb k s_comments || str_eqb k s_config.

Definition typed_lower (items : list (str * value)) : Prop :=
  exists ty, assoc s_type items = Some (VStr ty) /\ lower ty = ty.

Fixpoint WS (v : value) : Prop :=
  match v with
  | VNone => False
  | VList l => (fix go (l : list value) : Prop := match l with [] => True | y :: l' => WS y /\ go l' end) l
  | VDict c items =>
      (fix go (l : list (str * value)) : Prop :=
         match l with
         | [] => True
         | (k, y) :: l' => (skipw k = true \/ WS y) /\ go l'
         end) items
      /\ Forall lower_key (keys items) /\ (c = DCI true -> typed_lower items)
  | _ => True
  end.

Lemma WS_list l : WS (VList l) <-> Forall WS l.
Proof.
  cbn [WS]. induction l as [|y l IH]; [split; [constructor|exact (fun _ => I)]|].
  rewrite IH. split; [intros [H1 H2]; constructor; assumption|intros H; inversion H; subst; tauto].
Qed.

Lemma WS_dict c items :
  WS (VDict c items) <->
  Forall (fun kv => skipw (fst kv) = true \/ WS (snd kv)) items /\
  Forall lower_key (keys items) /\ (c = DCI true -> typed_lower items).
Proof.
  cbn [WS].
  assert (H : (fix go (l : list (str * value)) : Prop :=
                 match l with
                 | [] => True
                 | (k, y) :: l' => (skipw k = true \/ WS y) /\ go l'
                 end) items <-> Forall (fun kv => skipw (fst kv) = true \/ WS (snd kv)) items).
  { induction items as [|[k y] l IH]; [split; [constructor|exact (fun _ => I)]|].
    rewrite IH. split; [intros [H1 H2]; constructor; assumption|intros H; inversion H; subst; tauto]. }
  rewrite H. tauto.
Qed.

(* the root: one block dict, or the list of the file's root blocks *)
Definition contract_shape (v : value) : Prop :=
  WS v /\ (is_block_dict v \/ exists l, v = VList l /\ Forall is_block_dict l).
