(* C05, separators, lifted through the transformer (include_position=False,
   include_comments=False): parse trees equal up to positions give the same
   dictionary up to the values stored under the key __position__.

   The transformer reads a token's line and column at one place only:
   create_position_dict, whose result attr() stores under __position__ in the
   attribute record WHATEVER the flag; composite() drops that entry when
   include_position is off.  [Z] normalises what can differ: the line / column
   of tokens and the plain value under a __position__ key.  Every callback
   commutes with [Z] up to [Z] ([callback_Z]); hence so does the driver.

   The normalisation cannot be removed from the final statement: an attribute
   whose key is the string __type__ is taken for a block by composite() and its
   record - __position__ entry included - lands in the result
   ([loads_leading_separator_refuted]). *)
From MF Require Import Lib.Base Lib.PyDict Lib.PyNum Lib.Regex Model.GrammarTypes Model.Lexer Model.LR
  Model.Case Model.Transformer Model.Api Gen.Tokens Gen.Grammar Proofs.SepFacts Proofs.SepSkip Proofs.C11 Proofs.C05U.
Open Scope N_scope.

(* ================================================================ normalisation *)
Definition is_pos (k : str) : bool := str_eqb k s_position.

Definition zap (t : ptok) : ptok := mk_ptok (pk_type t) (pk_orig t) (pk_val t) VNone VNone.

(* the value stored under key k *)
Definition zpos (f : tv -> tv) (k : str) (y : tv) : tv :=
  if is_pos k then match y with TVal _ => TVal VNone | _ => f y end else f y.

Definition zitems_with (f : tv -> tv) : list (str * tv) -> list (str * tv) :=
  fix go (l : list (str * tv)) : list (str * tv) :=
    match l with
    | [] => []
    | (k, y) :: l' => (k, zpos f k y) :: go l'
    end.

Fixpoint Z (x : tv) : tv :=
  match x with
  | TVal v => TVal v
  | TTok t => TTok (zap t)
  | TSeq l => TSeq (map Z l)
  | TDict c items => TDict c (zitems_with Z items)
  end.

Notation ZI := (zitems_with Z).

Definition rmap {A B} (f : A -> B) (r : res A) : res B :=
  match r with Ok a => Ok (f a) | Err e => Err e end.

Notation rz := (rmap Z).

Lemma rmap_bind {A B C} (f : B -> C) (r : res A) (k : A -> res B) :
  rmap f (bind r k) = bind r (fun a => rmap f (k a)).
Proof. destruct r; reflexivity. Qed.

Lemma zap_idem t : zap (zap t) = zap t.
Proof. reflexivity. Qed.

Lemma Z_idem : forall x, Z (Z x) = Z x.
Proof.
  fix IH 1. intros [v|t|l|c items]; cbn [Z]; try reflexivity.
  - f_equal. induction l as [|y l IHl]; [reflexivity|]. cbn [map]. rewrite IH, IHl. reflexivity.
  - f_equal. induction items as [|[k y] items IHi]; [reflexivity|]. cbn [zitems_with]. rewrite IHi.
    f_equal. f_equal. unfold zpos. destruct (is_pos k); [|apply IH].
    pose proof (IH y) as Hy. destruct y as [v|t|l|c' it]; [reflexivity| | |]; exact Hy.
Qed.

Lemma map_Z_idem l : map Z (map Z l) = map Z l.
Proof. induction l as [|y l IH]; [reflexivity|]. cbn [map]. rewrite Z_idem, IH. reflexivity. Qed.

Lemma zpos_Z k y : zpos Z k (Z y) = zpos Z k y.
Proof.
  unfold zpos. destruct (is_pos k); [|apply Z_idem].
  destruct y as [v|t|l|c it]; [reflexivity| | |]; apply (Z_idem _).
Qed.

Lemma zpos_idem k y : zpos Z k (zpos Z k y) = zpos Z k y.
Proof.
  unfold zpos. destruct (is_pos k); [|apply Z_idem].
  destruct y as [v|t|l|c it]; [reflexivity| | |]; apply (Z_idem _).
Qed.

Lemma is_pos_eq k : is_pos k = true -> k = s_position.
Proof. unfold is_pos. apply str_eqb_eq. Qed.

Lemma lower_position : lower s_position = s_position.
Proof. vm_compute. reflexivity. Qed.

(* a value normalised under one key, stored under the lower-cased key *)
Lemma zpos_lower k y : zpos Z (lower k) (zpos Z k y) = zpos Z (lower k) y.
Proof.
  destruct (is_pos k) eqn:Hk.
  - apply is_pos_eq in Hk. subst k. rewrite lower_position. apply zpos_idem.
  - unfold zpos at 2. rewrite Hk. apply zpos_Z.
Qed.

Lemma ZI_idem l : ZI (ZI l) = ZI l.
Proof. induction l as [|[k y] l IH]; [reflexivity|]. cbn [zitems_with]. rewrite zpos_idem, IH. reflexivity. Qed.

Lemma ZI_app a b : ZI (a ++ b) = ZI a ++ ZI b.
Proof. induction a as [|[k y] a IH]; [reflexivity|]. cbn [zitems_with app]. rewrite IH. reflexivity. Qed.

Lemma ZI_assoc k l : assoc k (ZI l) = option_map (zpos Z k) (assoc k l).
Proof.
  induction l as [|[k' y] l IH]; [reflexivity|]. cbn [zitems_with assoc].
  destruct (str_eqb_spec k k') as [->|Hne]; [reflexivity|exact IH].
Qed.

Lemma ZI_od_mem k l : od_mem k (ZI l) = od_mem k l.
Proof. induction l as [|[k' y] l IH]; [reflexivity|]. cbn [zitems_with od_mem]. rewrite IH. reflexivity. Qed.

Lemma ZI_od_replace k v l : ZI (od_replace k v l) = od_replace k (zpos Z k v) (ZI l).
Proof.
  induction l as [|[k' y] l IH]; [reflexivity|]. cbn [zitems_with od_replace].
  destruct (str_eqb_spec k k') as [->|Hne]; cbn [zitems_with]; [reflexivity|rewrite IH; reflexivity].
Qed.

Lemma ZI_od_set k v l : ZI (od_set k v l) = od_set k (zpos Z k v) (ZI l).
Proof.
  unfold od_set. rewrite ZI_od_mem. destruct (od_mem k l); [apply ZI_od_replace|].
  rewrite ZI_app. reflexivity.
Qed.

Lemma ZI_od_del k l : ZI (od_del k l) = od_del k (ZI l).
Proof.
  induction l as [|[k' y] l IH]; [reflexivity|]. cbn [zitems_with od_del].
  destruct (str_eqb k k'); cbn [zitems_with]; [reflexivity|rewrite IH; reflexivity].
Qed.

Lemma ZI_ci_set k v l : ZI (ci_set k v l) = ci_set k (zpos Z (lower k) v) (ZI l).
Proof. unfold ci_set. apply ZI_od_set. Qed.

Lemma ZI_ci_get k l : ci_get k (ZI l) = option_map (zpos Z (lower k)) (ci_get k l).
Proof. unfold ci_get. apply ZI_assoc. Qed.

(* two stores that agree after normalisation *)
Lemma ZI_od_set_cong k v v' l l' :
  zpos Z k v = zpos Z k v' -> ZI l = ZI l' -> ZI (od_set k v l) = ZI (od_set k v' l').
Proof. intros Hv Hl. rewrite !ZI_od_set, Hv, Hl. reflexivity. Qed.

Lemma nonpos_zpos k y : is_pos k = false -> zpos Z k y = Z y.
Proof. intros H. unfold zpos. rewrite H. reflexivity. Qed.

Lemma is_pos_tokens : is_pos s_tokens = false. Proof. reflexivity. Qed.
Lemma is_pos_type : is_pos s_type = false. Proof. reflexivity. Qed.
Lemma is_pos_comments : is_pos s_comments = false. Proof. reflexivity. Qed.
Lemma is_pos_config : is_pos s_config = false. Proof. reflexivity. Qed.
Lemma is_pos_points : is_pos s_points = false. Proof. reflexivity. Qed.
Lemma is_pos_position : is_pos s_position = true. Proof. reflexivity. Qed.
Lemma lower_type : lower s_type = s_type. Proof. vm_compute. reflexivity. Qed.
Lemma lower_config : lower s_config = s_config. Proof. vm_compute. reflexivity. Qed.
Lemma lower_points : lower s_points = s_points. Proof. vm_compute. reflexivity. Qed.
(* for a key that is not __position__ (decided by computation) *)
Ltac zp k := repeat match goal with |- context [zpos Z k ?y] => change (zpos Z k y) with (Z y) end.
Lemma zpos_tokens y : zpos Z s_tokens y = Z y. Proof. reflexivity. Qed.
Lemma zpos_type y : zpos Z s_type y = Z y. Proof. reflexivity. Qed.
Lemma zpos_comments y : zpos Z s_comments y = Z y. Proof. reflexivity. Qed.
Lemma zpos_config y : zpos Z s_config y = Z y. Proof. reflexivity. Qed.
Lemma zpos_points y : zpos Z s_points y = Z y. Proof. reflexivity. Qed.

(* ================================================================ small helpers *)
Lemma rz_idem r : rz (rz r) = rz r.
Proof. destruct r; cbn [rmap]; [rewrite Z_idem|]; reflexivity. Qed.

(* a callback that commutes exactly commutes up to normalisation *)
Lemma exact_H (cb : list tv -> res tv) xs : cb (map Z xs) = rz (cb xs) -> rz (cb (map Z xs)) = rz (cb xs).
Proof. intros ->. apply rz_idem. Qed.

Lemma mapM_map {A B C} (f : B -> res C) (g : A -> B) l : mapM f (map g l) = mapM (fun x => f (g x)) l.
Proof. induction l as [|x l IH]; [reflexivity|]. cbn [map mapM]. rewrite IH. reflexivity. Qed.

Lemma mapM_ext_all {A B} (f f' : A -> res B) l : (forall x, f x = f' x) -> mapM f l = mapM f' l.
Proof. intros H. induction l as [|x l IH]; [reflexivity|]. cbn [mapM]. rewrite H, IH. reflexivity. Qed.

Lemma mapM_rmap {A B C} (f : A -> res B) (g : B -> C) l :
  mapM (fun x => rmap g (f x)) l = rmap (map g) (mapM f l).
Proof.
  induction l as [|x l IH]; [reflexivity|]. cbn [mapM]. rewrite IH.
  destruct (f x); cbn [rmap bind]; [|reflexivity]. destruct (mapM f l); reflexivity.
Qed.

Lemma last_opt_map {A B} (f : A -> B) l : last_opt (map f l) = option_map f (last_opt l).
Proof.
  induction l as [|x l IH]; [reflexivity|]. destruct l as [|y l]; [reflexivity|].
  change (last_opt (map f (x :: y :: l))) with (last_opt (map f (y :: l))). rewrite IH. reflexivity.
Qed.

Lemma removelast_map {A B} (f : A -> B) l : removelast (map f l) = map f (removelast l).
Proof.
  induction l as [|x l IH]; [reflexivity|]. destruct l as [|y l]; [reflexivity|].
  cbn [map removelast] in *. rewrite IH. reflexivity.
Qed.

Lemma tok_of_Z x : tok_of (Z x) = rmap zap (tok_of x).
Proof. destruct x; reflexivity. Qed.

Lemma tok_str_zap t : tok_str (zap t) = tok_str t.
Proof. reflexivity. Qed.

Lemma key_name_zap t : key_name (zap t) = key_name t.
Proof. reflexivity. Qed.

Lemma set_val_zap t v : zap (set_val t v) = set_val (zap t) v.
Proof. reflexivity. Qed.

Lemma tv_dot_value_Z x : tv_dot_value (Z x) = tv_dot_value x.
Proof. destruct x; reflexivity. Qed.

Lemma tok_pystr_Z x : tok_pystr (Z x) = tok_pystr x.
Proof. unfold tok_pystr. rewrite tv_dot_value_Z. reflexivity. Qed.

Lemma mapM_tok_pystr_Z l : mapM tok_pystr (map Z l) = mapM tok_pystr l.
Proof. rewrite mapM_map. apply mapM_ext_all. exact tok_pystr_Z. Qed.

Lemma mapM_dot_value_Z l : mapM tv_dot_value (map Z l) = mapM tv_dot_value l.
Proof. rewrite mapM_map. apply mapM_ext_all. exact tv_dot_value_Z. Qed.

Lemma nth_tv_Z l n : nth_tv (map Z l) n = rz (nth_tv l n).
Proof. unfold nth_tv. rewrite nth_error_map. destruct (nth_error l n); reflexivity. Qed.

Lemma seq_item_value_Z x i : seq_item_value (Z x) i = seq_item_value x i.
Proof.
  destruct x as [v|t|l|c it]; try reflexivity. cbn [Z seq_item_value]. rewrite nth_tv_Z.
  destruct (nth_tv l i); cbn [rmap bind]; [apply tv_dot_value_Z|reflexivity].
Qed.

Lemma first_tok_Z t : first_tok (map Z t) = rmap zap (first_tok t).
Proof. destruct t as [|[v|a|l|c it] t]; reflexivity. Qed.

Lemma set_first_Z t s : set_first (map Z t) s = rz (set_first t s).
Proof. destruct t as [|[v|a|l|c it] t]; reflexivity. Qed.

(* ================================================================ callbacks that never touch a position: exact *)
Lemma cb_first_Z t : cb_first (map Z t) = rz (cb_first t).
Proof. destruct t; reflexivity. Qed.

Lemma cb_start_Z t : cb_start (map Z t) = rz (cb_start t).
Proof. destruct t as [|x [|y t]]; reflexivity. Qed.

Lemma cb_len_Z n t : cb_len n (map Z t) = rz (cb_len n t).
Proof. unfold cb_len. rewrite map_length. destruct (Nat.eqb (length t) n); reflexivity. Qed.

Lemma cb_int_Z t : cb_int (map Z t) = rz (cb_int t).
Proof.
  unfold cb_int. rewrite first_tok_Z. destruct (first_tok t) as [a|e]; cbn [rmap bind]; [|reflexivity].
  rewrite tok_str_zap. destruct (tok_str a) as [s|e]; cbn [bind rmap]; [|reflexivity].
  destruct (parse_int s); reflexivity.
Qed.

Lemma cb_float_Z t : cb_float (map Z t) = rz (cb_float t).
Proof.
  unfold cb_float. rewrite first_tok_Z. destruct (first_tok t) as [a|e]; cbn [rmap bind]; [|reflexivity].
  rewrite tok_str_zap. destruct (tok_str a) as [s|e]; cbn [bind rmap]; [|reflexivity].
  destruct (parse_float s) as [[m e]|]; reflexivity.
Qed.

Lemma cb_bool_Z b t : cb_bool b (map Z t) = rz (cb_bool b t).
Proof. unfold cb_bool. rewrite first_tok_Z. destruct (first_tok t); reflexivity. Qed.

Lemma cb_hexcolor_Z t : cb_hexcolor (map Z t) = rz (cb_hexcolor t).
Proof.
  unfold cb_hexcolor. rewrite first_tok_Z. destruct (first_tok t) as [a|e]; cbn [rmap bind]; [|reflexivity].
  rewrite tok_str_zap. destruct (tok_str a); reflexivity.
Qed.

Lemma cb_binary_Z t a b c : cb_binary (map Z t) a b c = rz (cb_binary t a b c).
Proof.
  destruct t as [|x [|y [|z t]]]; try reflexivity. cbn [map cb_binary]. rewrite !tok_pystr_Z.
  destruct (tok_pystr x); cbn [bind rmap]; [|reflexivity].
  destruct (tok_pystr y); cbn [bind rmap]; [|reflexivity].
  apply (set_first_Z [x; y]).
Qed.

Lemma cb_comparison_Z t : cb_comparison (map Z t) = rz (cb_comparison t).
Proof.
  destruct t as [|x [|y [|z [|w t]]]]; try reflexivity. cbn [map cb_comparison]. rewrite !tok_pystr_Z.
  destruct (tok_pystr x); cbn [bind rmap]; [|reflexivity].
  destruct (tok_pystr y); cbn [bind rmap]; [|reflexivity].
  destruct (tok_pystr z); cbn [bind rmap]; [|reflexivity].
  apply (set_first_Z [x; y; z]).
Qed.

Lemma cb_expression_Z t : cb_expression (map Z t) = rz (cb_expression t).
Proof.
  unfold cb_expression. rewrite mapM_tok_pystr_Z.
  destruct (mapM tok_pystr t) as [parts|e]; cbn [bind rmap]; [|reflexivity].
  destruct t as [|[v|a|l|c it] t]; try reflexivity. cbn [map Z].
  destruct (in_parenthesis (join sp parts)); reflexivity.
Qed.

Lemma cb_prefix_Z t p b : cb_prefix (map Z t) p b = rz (cb_prefix t p b).
Proof.
  destruct t as [|x t]; [reflexivity|]. cbn [map cb_prefix].
  assert (E : match map Z t with [] => true | _ => false end = match t with [] => true | _ => false end)
    by (destruct t; reflexivity).
  rewrite E. destruct (b && negb _); [reflexivity|]. rewrite tok_pystr_Z.
  destruct (tok_pystr x); cbn [bind rmap]; [|reflexivity]. apply (set_first_Z (x :: t)).
Qed.

Lemma cb_func_call_Z t : cb_func_call (map Z t) = rz (cb_func_call t).
Proof.
  destruct t as [|[v|f|l|c it] [|p [|q t]]]; try reflexivity;
    try (destruct p as [pv|pt|pl|pc pit]; try reflexivity; destruct pv; reflexivity).
  destruct p as [pv|pt|pl|pc pit]; try reflexivity.
  destruct pv; try reflexivity. cbn [map Z cb_func_call zap pk_val].
  destruct (py_str (pk_val f)); reflexivity.
Qed.

Lemma cb_func_params_Z t : cb_func_params (map Z t) = rz (cb_func_params t).
Proof. unfold cb_func_params. rewrite mapM_tok_pystr_Z. destruct (mapM tok_pystr t); reflexivity. Qed.

Lemma cb_attr_bind_Z t : cb_attr_bind (map Z t) = rz (cb_attr_bind t).
Proof.
  destruct t as [|[v|a|l|c it] [|y t]]; try reflexivity. cbn [map Z cb_attr_bind zap pk_val].
  destruct (py_str (pk_val a)); reflexivity.
Qed.

Lemma cb_list_Z t : cb_list (map Z t) = rz (cb_list t).
Proof.
  assert (E : forall l, mapM (fun x => match x with TTok a => Ok (pk_orig a) | _ => vfail end) (map Z l) =
                        mapM (fun x => match x with TTok a => Ok (pk_orig a) | _ => vfail end) l).
  { intros l. rewrite mapM_map. apply mapM_ext_all. intros [v|a|l0|c it]; reflexivity. }
  destruct t as [|[v|a|l|c it] t]; try reflexivity.
  pose proof (E (TTok a :: t)) as E1. cbn [map Z] in E1 |- *. unfold cb_list. rewrite E1.
  destruct (mapM _ (TTok a :: t)); reflexivity.
Qed.

(* ================================================================ attr: the position record *)
Definition same_ok {A B} (r : res A) (r' : res B) : Prop :=
  match r, r' with Ok _, Ok _ => True | Err e, Err e' => e = e' | _, _ => False end.

Lemma flatten_Z vs : flatten (map Z vs) = rmap (map Z) (flatten vs).
Proof.
  induction vs as [|v vs IH]; [reflexivity|]. cbn [map flatten]. rewrite IH.
  destruct (flatten vs) as [rest|e]; cbn [rmap bind]; [|reflexivity].
  destruct v as [v|t|l|c it]; cbn [Z]; try reflexivity.
  - cbn [rmap]. rewrite map_app. reflexivity.
  - rewrite ZI_assoc. destruct (assoc s_tokens it) as [[v|t|l|c' it']|]; cbn [option_map];
      zp s_tokens; cbn [Z rmap]; try reflexivity.
    rewrite map_app. reflexivity.
Qed.

Lemma pos_pair_same x : same_ok (pos_pair (Z x)) (pos_pair x).
Proof. destruct x; cbn; try reflexivity; exact I. Qed.

Lemma mapM_same {A B C} (f : A -> res B) (f' : A -> res C) l :
  (forall x, same_ok (f x) (f' x)) -> same_ok (mapM f l) (mapM f' l).
Proof.
  intros H. induction l as [|x l IH]; [exact I|]. cbn [mapM]. specialize (H x).
  destruct (f x), (f' x); cbn [same_ok] in H; try contradiction; cbn [bind]; [|exact H].
  destruct (mapM f l), (mapM f' l); cbn [same_ok] in IH; try contradiction; cbn [bind]; [exact I|exact IH].
Qed.

Lemma cpd_same key vs :
  same_ok (create_position_dict (zap key) (Some (map Z vs))) (create_position_dict key (Some vs)).
Proof.
  destruct vs as [|v vs]; [exact I|]. unfold create_position_dict.
  change (map Z (v :: vs)) with (Z v :: map Z vs). cbv iota beta.
  change (Z v :: map Z vs) with (map Z (v :: vs)). rewrite flatten_Z.
  destruct (flatten (v :: vs)) as [flat|e]; cbn [rmap bind]; [|reflexivity].
  rewrite mapM_map.
  pose proof (mapM_same (fun x => pos_pair (Z x)) pos_pair flat pos_pair_same) as H.
  destruct (mapM (fun x => pos_pair (Z x)) flat), (mapM pos_pair flat); cbn [same_ok] in H; try contradiction;
    cbn [bind]; [exact I|exact H].
Qed.

(* cb_attr in three stages *)
Definition attr_key (k0 : tv) : res ptok :=
  match k0 with
  | TSeq (TTok t :: _) =>
      do kn <- key_name t;
      if str_eqb kn s_style || str_eqb kn s_symbol then Ok t else vfail
  | TTok t => Ok t
  | _ => vfail
  end.

Definition attr_vtoks (value_tokens0 : list tv) : res (list tv) :=
  match value_tokens0 with
  | [] => vfail
  | TSeq l :: rest => match rest with [] => Ok l | _ => vfail end
  | _ => Ok value_tokens0
  end.

Definition attr_body (key_token : ptok) (kn : str) (value_tokens : list tv) : res tv :=
  do pd <- create_position_dict key_token (Some value_tokens);
  let d0 : titems := [(s_position, TVal pd)] in
  match value_tokens with
  | [] => vfail
  | [vt] =>
      do t <- tok_of vt;
      let d1 := od_set s_tokens (TSeq [TTok key_token; vt]) d0 in
      Ok (TDict DPlain (od_set kn (TVal (clean_top (pk_val t))) d1))
  | a :: b :: rest =>
      if str_eqb kn s_config then
        match rest with
        | [] =>
            do ta <- tok_of a; do tb <- tok_of b;
            do ka <- match pk_val ta with VStr s => Ok s | _ => vfail end;
            Ok (TDict DPlain (od_set kn (TVal (VDict DPlain [(ka, pk_val tb)])) d0))
        | _ => vfail
        end
      else
        do vals <- mapM tv_dot_value value_tokens;
        let d1 := od_set s_tokens (TSeq (TTok key_token :: value_tokens)) d0 in
        Ok (TDict DPlain (od_set kn (TVal (VList vals)) d1))
  end.

Lemma cb_attr_stages tokens :
  cb_attr tokens =
  match tokens with
  | [] => vfail
  | k0 :: vt0 =>
      do key_token <- attr_key k0; do kn <- key_name key_token;
      do vts <- attr_vtoks vt0; attr_body key_token kn vts
  end.
Proof. reflexivity. Qed.

Lemma attr_key_Z x : attr_key (Z x) = rmap zap (attr_key x).
Proof.
  destruct x as [v|t|l|c it]; try reflexivity. destruct l as [|[v|t|l0|c it] l]; try reflexivity.
  cbn [Z map attr_key]. rewrite key_name_zap. destruct (key_name t) as [kn|e]; cbn [bind rmap]; [|reflexivity].
  destruct (str_eqb kn s_style || str_eqb kn s_symbol); reflexivity.
Qed.

Lemma attr_vtoks_Z l : attr_vtoks (map Z l) = rmap (map Z) (attr_vtoks l).
Proof.
  destruct l as [|[v|t|l0|c it] l]; try reflexivity. cbn [map Z attr_vtoks]. destruct l; reflexivity.
Qed.

Lemma ZI_pos1 pd : ZI [(s_position, TVal pd)] = [(s_position, TVal VNone)].
Proof. reflexivity. Qed.

Lemma zpos_TVal_eq k v : zpos Z k (TVal v) = if is_pos k then TVal VNone else TVal v.
Proof. unfold zpos. destruct (is_pos k); reflexivity. Qed.

Lemma attr_body_Z key kn vts : rz (attr_body (zap key) kn (map Z vts)) = rz (attr_body key kn vts).
Proof.
  unfold attr_body. pose proof (cpd_same key vts) as Hp.
  destruct (create_position_dict (zap key) (Some (map Z vts))) as [pd'|e'],
           (create_position_dict key (Some vts)) as [pd|e]; cbn [same_ok] in Hp; try contradiction;
    cbn [bind]; [|subst; reflexivity].
  cbv zeta. destruct vts as [|a [|b rest]]; [reflexivity| |].
  - cbn [map]. rewrite tok_of_Z. destruct (tok_of a) as [t|e]; cbn [rmap bind]; [|reflexivity].
    cbn [Z]. f_equal. f_equal. rewrite !ZI_od_set, !ZI_pos1; zp s_tokens.
    cbn [Z map zap pk_val]. rewrite Z_idem. reflexivity.
  - cbn [map]. destruct (str_eqb kn s_config).
    + destruct rest as [|c rest]; [|reflexivity]. cbn [map]. rewrite !tok_of_Z.
      destruct (tok_of a) as [ta|e]; cbn [rmap bind]; [|reflexivity].
      destruct (tok_of b) as [tb|e]; cbn [rmap bind]; [|reflexivity].
      cbn [zap pk_val]. destruct (pk_val ta); cbn [bind rmap]; try reflexivity.
      cbn [Z]. f_equal. f_equal. rewrite !ZI_od_set, !ZI_pos1. reflexivity.
    + change (Z a :: Z b :: map Z rest) with (map Z (a :: b :: rest)). rewrite mapM_dot_value_Z.
      destruct (mapM tv_dot_value (a :: b :: rest)) as [vals|e]; cbn [bind rmap]; [|reflexivity].
      cbn [Z]. f_equal. f_equal. rewrite !ZI_od_set, !ZI_pos1; zp s_tokens.
      cbn [Z]. change (TTok (zap key) :: map Z (a :: b :: rest)) with (map Z (TTok key :: a :: b :: rest)).
      rewrite map_Z_idem. reflexivity.
Qed.

Theorem cb_attr_Z tokens : rz (cb_attr (map Z tokens)) = rz (cb_attr tokens).
Proof.
  rewrite !cb_attr_stages. destruct tokens as [|k0 vt0]; [reflexivity|]. cbn [map].
  rewrite attr_key_Z. destruct (attr_key k0) as [key|e]; cbn [rmap bind]; [|reflexivity].
  rewrite key_name_zap. destruct (key_name key) as [kn|e]; cbn [bind]; [|reflexivity].
  rewrite attr_vtoks_Z. destruct (attr_vtoks vt0) as [vts|e]; cbn [rmap bind]; [|reflexivity].
  apply attr_body_Z.
Qed.

(* ---- callbacks that end in attr() *)
Lemma cb_config_Z t : rz (cb_config (map Z t)) = rz (cb_config t).
Proof.
  destruct t as [|k [|a [|b [|c t]]]]; try reflexivity. cbn [map cb_config]. rewrite !tok_of_Z.
  destruct (tok_of a) as [ta|e]; cbn [rmap bind]; [|reflexivity].
  destruct (tok_of b) as [tb|e]; cbn [rmap bind]; [|reflexivity].
  rewrite tok_str_zap. destruct (tok_str ta) as [ks|e]; cbn [bind]; [|reflexivity].
  cbv zeta. exact (cb_attr_Z [k; TTok (set_val ta (VStr (clean_string_s (lower ks)))); TTok (set_val tb (clean_top (pk_val tb)))]).
Qed.

Lemma check_composite_tokens_Z name tokens :
  check_composite_tokens name (map Z tokens) =
  rmap (fun kb => (zap (fst kb), map Z (snd kb))) (check_composite_tokens name tokens).
Proof.
  destruct tokens as [|k [|r0 rest]]; try reflexivity.
  unfold check_composite_tokens. change (map Z (k :: r0 :: rest)) with (Z k :: map Z (r0 :: rest)).
  change (map Z (r0 :: rest)) with (Z r0 :: map Z rest) at 1. cbv iota beta.
  change (Z r0 :: map Z rest) with (map Z (r0 :: rest)).
  rewrite tok_of_Z. destruct (tok_of k) as [key|e]; cbn [rmap bind]; [|reflexivity].
  rewrite tok_str_zap. destruct (tok_str key) as [ks|e]; cbn [bind]; [|reflexivity].
  rewrite last_opt_map. destruct (last_opt (r0 :: rest)) as [lt|]; cbn [option_map]; [|reflexivity].
  rewrite tok_of_Z. destruct (tok_of lt) as [lastt|e]; cbn [rmap bind]; [|reflexivity].
  rewrite tok_str_zap. destruct (tok_str lastt) as [ls|e]; cbn [bind]; [|reflexivity].
  destruct (str_eqb (lower ks) name && str_eqb (lower ls) s_end); [|reflexivity].
  rewrite removelast_map, mapM_map.
  set (F := fun t : tv => match t with
                          | TDict _ items => match assoc s_tokens items with Some x => Ok x | None => vfail end
                          | _ => Ok t end).
  assert (E : forall x, F (Z x) = rz (F x)).
  { intros [v|t|l|c it]; try reflexivity. cbn [Z F]. rewrite ZI_assoc.
    destruct (assoc s_tokens it); cbn [option_map rmap]; [|reflexivity].
    rewrite zpos_tokens. reflexivity. }
  rewrite (mapM_ext_all (fun x => F (Z x)) (fun x => rz (F x)) _ E), mapM_rmap.
  destruct (mapM F (removelast (r0 :: rest))); reflexivity.
Qed.

Lemma cb_projection_Z tokens : rz (cb_projection (map Z tokens)) = rz (cb_projection tokens).
Proof.
  unfold cb_projection. rewrite check_composite_tokens_Z.
  destruct (check_composite_tokens (Str "projection") tokens) as [[key body]|e]; cbn [rmap bind fst snd]; [|reflexivity].
  rewrite mapM_map.
  rewrite (mapM_ext_all (fun x => do x0 <- tv_dot_value (Z x); Ok (clean_string x0))
                        (fun v => do x <- tv_dot_value v; Ok (clean_string x)))
    by (intros x; rewrite tv_dot_value_Z; reflexivity).
  destruct (mapM _ body) as [strs|e]; cbn [bind]; [|reflexivity].
  destruct tokens as [|k [|v1 rest]]; try reflexivity. cbn [map]. rewrite tok_of_Z.
  destruct (tok_of v1) as [vt|e]; cbn [rmap bind]; [|reflexivity].
  exact (cb_attr_Z [k; TTok (set_val vt (VList strs))]).
Qed.

Lemma process_pair_lists_Z name tokens :
  rz (process_pair_lists name (map Z tokens)) = rz (process_pair_lists name tokens).
Proof.
  unfold process_pair_lists. rewrite check_composite_tokens_Z.
  destruct (check_composite_tokens name tokens) as [[key body]|e]; cbn [rmap bind fst snd]; [|reflexivity].
  rewrite mapM_map.
  rewrite (mapM_ext_all (fun x => do a <- seq_item_value (Z x) 0; do b <- seq_item_value (Z x) 1; Ok (VList [a; b]))
                        (fun v => do a <- seq_item_value v 0; do b <- seq_item_value v 1; Ok (VList [a; b])))
    by (intros x; rewrite !seq_item_value_Z; reflexivity).
  destruct (mapM _ body) as [pairs|e]; cbn [bind]; [|reflexivity].
  destruct tokens as [|k [|[v|t|l|c it] rest]]; try reflexivity.
  destruct l as [|[v|vt|l0|c it] l]; try reflexivity.
  exact (cb_attr_Z [k; TTok (set_val vt (VList pairs))]).
Qed.

(* ---- METADATA / VALUES / VALIDATION / CONNECTIONOPTIONS without positions *)
Lemma process_value_pairs_Z tokens ty :
  rz (process_value_pairs false (map Z tokens) ty) = rz (process_value_pairs false tokens ty).
Proof.
  unfold process_value_pairs. rewrite check_composite_tokens_Z.
  destruct (check_composite_tokens ty tokens) as [[key body]|e]; cbn [rmap bind fst snd]; [|reflexivity].
  rewrite key_name_zap. destruct (key_name key) as [kn|e]; cbn [bind]; [|reflexivity].
  match goal with |- rz (bind (fold_left ?F (map Z body) ?I) ?K) = _ =>
    assert (E : forall acc, fold_left F (map Z body) acc = fold_left F body acc) end.
  { induction body as [|b body IH]; intros acc; [reflexivity|]. cbn [map fold_left].
    rewrite !seq_item_value_Z. apply IH. }
  rewrite E. reflexivity.
Qed.

(* ================================================================ composite *)
Lemma lower_app a b : lower (a ++ b) = lower a ++ lower b.
Proof. unfold lower. apply flat_map_app. Qed.

Lemma ends_s_not_pos X : is_pos (X ++ [115]) = false.
Proof.
  unfold is_pos. apply str_eqb_neq. intros H. apply (f_equal (@rev N)) in H.
  rewrite rev_app_distr in H. vm_compute in H. discriminate H.
Qed.

Lemma plural_not_pos k : is_pos (lower (plural k)) = false.
Proof.
  assert (P1 : is_pos (lower (k ++ Str "es")) = false).
  { rewrite lower_app. change (lower (Str "es")) with ([101] ++ [115]). rewrite app_assoc. apply ends_s_not_pos. }
  assert (P2 : is_pos (lower (k ++ Str "s")) = false).
  { rewrite lower_app. change (lower (Str "s")) with [115]. apply ends_s_not_pos. }
  unfold plural. destruct (last_opt k) as [c|]; [|exact P2].
  destruct c as [|p]; [exact P2|].
  do 7 (destruct p as [p|p|]; try exact P2; try exact P1).
Qed.

Lemma zpos_plural k y : zpos Z (lower (plural k)) y = Z y.
Proof. apply nonpos_zpos, plural_not_pos. Qed.

Lemma repeated_keys_not_pos :
  forallb (fun k => negb (is_pos k) && negb (is_pos (lower k))) REPEATED_KEYS = true.
Proof. vm_compute. reflexivity. Qed.

Lemma repeated_not_pos kn : mem_str kn REPEATED_KEYS = true -> is_pos kn = false /\ is_pos (lower kn) = false.
Proof.
  intros H. apply mem_str_In in H. pose proof repeated_keys_not_pos as A. rewrite forallb_forall in A.
  specialize (A kn H). apply andb_true_iff in A. destruct A as [A1 A2].
  apply negb_true_iff in A1. apply negb_true_iff in A2. split; assumption.
Qed.

Lemma tv_list_append_Z x e : rz (tv_list_append (Z x) (Z e)) = rz (tv_list_append x e).
Proof.
  destruct x as [v|t|l|c it]; try reflexivity.
  - destruct v; try reflexivity. destruct e as [v'|t|l0|c it]; [reflexivity| | |].
    + cbn [Z tv_list_append rmap]. rewrite !map_app. reflexivity.
    + cbn [Z tv_list_append rmap]. rewrite !map_app. cbn [map Z]. rewrite map_Z_idem. reflexivity.
    + cbn [Z tv_list_append rmap]. rewrite !map_app. cbn [map Z]. rewrite ZI_idem. reflexivity.
  - cbn [Z tv_list_append rmap]. rewrite !map_app, map_Z_idem. cbn [map]. rewrite Z_idem. reflexivity.
Qed.

Definition Zst (st : cstate) : cstate := mk_cs (ZI (cs_dict st)) (cs_pos st) (cs_comments st).
Notation rzs := (rmap Zst).

(* composite_item in stages *)
Definition ci_typed (st : cstate) (d : tv) (ty : tv) : res cstate :=
  do k <- match ty with TVal (VStr k) => Ok k | _ => vfail end;
  if mem_str k SINGLETON_COMPOSITE_NAMES then
    Ok (mk_cs (ci_set k d (cs_dict st)) (cs_pos st) (cs_comments st))
  else
    let pk := plural k in
    let cur := match ci_get pk (cs_dict st) with Some x => x | None => TSeq [] end in
    do cur' <- tv_list_append cur d;
    Ok (mk_cs (ci_set pk cur' (cs_dict st)) (cs_pos st) (cs_comments st)).

Definition cm_new (ic : bool) (comments : option tv) (kn : str) (cm : list (str * value)) : list (str * value) :=
  match comments with
  | Some (TVal ((VList (_ :: _)) as cv)) => if ic then od_set kn cv cm else cm
  | _ => cm
  end.

Definition ci_untyped (ic : bool) (st : cstate) (pos : value) (comments : option tv) (items2 : titems) : res cstate :=
  match items2 with
  | [(kn, v)] =>
      if str_eqb kn s_config then process_config st items2 pos
      else if str_eqb kn s_points then process_points st items2 pos
      else if mem_str kn REPEATED_KEYS then
        let cur := match ci_get kn (cs_dict st) with Some x => x | None => TSeq [] end in
        do cur' <- tv_list_append cur v;
        let p' := match cs_pos st with
                  | Some pitems =>
                      let curp := match assoc kn pitems with Some (VList l) => l | _ => [] end in
                      Some (od_set kn (VList (curp ++ [pos])) pitems)
                  | None => None
                  end in
        Ok (mk_cs (ci_set kn cur' (cs_dict st)) p' (cs_comments st))
      else
        let p' := match cs_pos st with
                  | Some pitems => Some (od_set kn pos pitems)
                  | None => None
                  end in
        Ok (mk_cs (ci_set kn v (cs_dict st)) p' (cm_new ic comments kn (cs_comments st)))
  | _ => vfail
  end.

Definition items1_of (items : titems) : titems := od_del s_tokens (od_del s_position items).
Definition items2_of (items : titems) : titems := od_del s_comments (items1_of items).

Lemma composite_item_stages ic st d :
  composite_item ic st d =
  match d with
  | TDict c items =>
      match assoc s_type items with
      | Some ty => ci_typed st d ty
      | None =>
          do pos <- match assoc s_position items with Some (TVal p) => Ok p | _ => vfail end;
          ci_untyped ic st pos (assoc s_comments (items1_of items)) (items2_of items)
      end
  | _ => vfail
  end.
Proof. destruct d; reflexivity. Qed.

(* from agreement up to normalisation of an intermediate result *)
Lemma rz_cases (r r' : res tv) :
  rz r = rz r' ->
  match r, r' with Ok a, Ok b => Z a = Z b | Err e, Err e' => e = e' | _, _ => False end.
Proof. destruct r, r'; cbn [rmap]; intros H; try discriminate; injection H as H; exact H. Qed.

Lemma ci_typed_Z st d ty : rzs (ci_typed (Zst st) (Z d) (Z ty)) = rzs (ci_typed st d ty).
Proof.
  unfold ci_typed.
  assert (E : match Z ty with TVal (VStr k) => Ok k | _ => @vfail str end =
              match ty with TVal (VStr k) => Ok k | _ => vfail end) by (destruct ty; reflexivity).
  rewrite E. destruct (match ty with TVal (VStr k) => Ok k | _ => vfail end) as [k|e]; cbn [bind]; [|reflexivity].
  unfold Zst; cbn [cs_dict cs_pos cs_comments].
  destruct (mem_str k SINGLETON_COMPOSITE_NAMES).
  - cbn [rmap]; unfold Zst; cbn [cs_dict cs_pos cs_comments]. rewrite !ZI_ci_set, zpos_Z, ZI_idem. reflexivity.
  - cbv zeta. rewrite ZI_ci_get.
    assert (Ec : match option_map (zpos Z (lower (plural k))) (ci_get (plural k) (cs_dict st)) with
                 | Some x => x | None => TSeq [] end =
                 Z (match ci_get (plural k) (cs_dict st) with Some x => x | None => TSeq [] end)).
    { destruct (ci_get (plural k) (cs_dict st)); cbn [option_map]; [|reflexivity].
      apply nonpos_zpos, plural_not_pos. }
    rewrite Ec.
    pose proof (rz_cases _ _ (tv_list_append_Z (match ci_get (plural k) (cs_dict st) with Some x => x | None => TSeq [] end) d)) as Hc.
    destruct (tv_list_append (Z _) (Z d)) as [c'|e'], (tv_list_append _ d) as [c|e]; try contradiction;
      cbn [bind rmap]; [|subst; reflexivity].
    unfold Zst; cbn [cs_dict cs_pos cs_comments]. rewrite !ZI_ci_set, ZI_idem, !zpos_plural, Hc.
    reflexivity.
Qed.

Lemma cfg_fold_cong (cfg : list (str * value)) : forall X Y : titems, ZI X = ZI Y ->
  ZI (fold_left (fun d kv => ci_set (fst kv) (TVal (snd kv)) d) cfg X) =
  ZI (fold_left (fun d kv => ci_set (fst kv) (TVal (snd kv)) d) cfg Y).
Proof.
  induction cfg as [|kv cfg IH]; intros X Y H; [exact H|]. cbn [fold_left]. apply IH.
  rewrite !ZI_ci_set, H. reflexivity.
Qed.

Lemma process_config_Z st items pos pos' :
  cs_pos st = None ->
  rzs (process_config (Zst st) (ZI items) pos') = rzs (process_config st items pos).
Proof.
  intros Hp. unfold process_config. unfold Zst; cbn [cs_dict cs_pos cs_comments].
  rewrite ZI_assoc, (ZI_ci_get s_config), Hp, lower_config.
  destruct (assoc s_config items) as [[v|t|l|c it]|]; cbn [option_map]; zp s_config;
    cbn [Z]; try reflexivity.
  destruct v as [| | | | | |c cfg]; try reflexivity. cbn [bind rmap]; unfold Zst; cbn [cs_dict cs_pos cs_comments].
  f_equal. f_equal. rewrite !ZI_ci_set, ZI_idem, lower_config; zp s_config. cbn [Z].
  f_equal. f_equal. apply cfg_fold_cong.
  unfold ci_get. rewrite lower_config.
  destruct (assoc s_config (cs_dict st)) as [[v|t|l|c' it]|]; cbn [option_map];
    zp s_config; cbn [Z]; try reflexivity.
  apply ZI_idem.
Qed.

Lemma process_points_Z st items pos pos' :
  cs_pos st = None ->
  rzs (process_points (Zst st) (ZI items) pos') = rzs (process_points st items pos).
Proof.
  intros Hp. unfold process_points. unfold Zst; cbn [cs_dict cs_pos cs_comments].
  rewrite ZI_assoc, (ZI_ci_get s_points), Hp, lower_points.
  destruct (assoc s_points items) as [[newv|t|l|c it]|]; cbn [option_map]; zp s_points;
    cbn [Z]; try reflexivity.
  destruct (ci_get s_points (cs_dict st)) as [[ex|t|l|c it]|]; cbn [option_map];
    zp s_points; cbn [Z bind rmap]; try reflexivity.
  - destruct (calculate_depth ex) as [dep|e]; cbn [bind rmap]; [|reflexivity].
    destruct (if (dep =? 2)%Z then VList [ex] else ex); try reflexivity.
    cbn [bind rmap]; unfold Zst; cbn [cs_dict cs_pos cs_comments]. rewrite !ZI_ci_set, ZI_idem. reflexivity.
  - unfold Zst; cbn [cs_dict cs_pos cs_comments]. rewrite !ZI_ci_set, ZI_idem. reflexivity.
Qed.

Lemma cm_new_Z ic comments kn cm : cm_new ic (option_map Z comments) kn cm = cm_new ic comments kn cm.
Proof. destruct comments as [[v|t|l|c it]|]; reflexivity. Qed.

Lemma ci_untyped_Z ic st pos pos' comments items2 :
  cs_pos st = None ->
  rzs (ci_untyped ic (Zst st) pos' (option_map Z comments) (ZI items2)) = rzs (ci_untyped ic st pos comments items2).
Proof.
  intros Hp. destruct items2 as [|[kn v] [|kv2 r]]; try reflexivity; [|destruct kv2; reflexivity].
  unfold ci_untyped. change (ZI [(kn, v)]) with [(kn, zpos Z kn v)]. cbv beta iota.
  destruct (str_eqb kn s_config); [exact (process_config_Z st [(kn, v)] pos pos' Hp)|].
  destruct (str_eqb kn s_points); [exact (process_points_Z st [(kn, v)] pos pos' Hp)|].
  unfold Zst; cbn [cs_dict cs_pos cs_comments]. rewrite Hp.
  destruct (mem_str kn REPEATED_KEYS) eqn:Hrep.
  - destruct (repeated_not_pos kn Hrep) as [N1 N2]. cbv zeta.
    assert (ZN2 : forall y, zpos Z (lower kn) y = Z y) by (intros y; apply nonpos_zpos, N2).
    rewrite ZI_ci_get, (nonpos_zpos _ _ N1).
    assert (Ec : match option_map (zpos Z (lower kn)) (ci_get kn (cs_dict st)) with
                 | Some x => x | None => TSeq [] end =
                 Z (match ci_get kn (cs_dict st) with Some x => x | None => TSeq [] end)).
    { destruct (ci_get kn (cs_dict st)); cbn [option_map]; [|reflexivity]. apply nonpos_zpos, N2. }
    rewrite Ec.
    pose proof (rz_cases _ _ (tv_list_append_Z (match ci_get kn (cs_dict st) with Some x => x | None => TSeq [] end) v)) as Hc.
    destruct (tv_list_append (Z _) (Z v)) as [c'|e'], (tv_list_append _ v) as [c|e]; try contradiction;
      cbn [bind rmap]; [|subst; reflexivity].
    unfold Zst; cbn [cs_dict cs_pos cs_comments]. rewrite !ZI_ci_set, ZI_idem, !ZN2, Hc. reflexivity.
  - cbn [rmap]; unfold Zst; cbn [cs_dict cs_pos cs_comments]. rewrite cm_new_Z, !ZI_ci_set, ZI_idem, zpos_lower. reflexivity.
Qed.

Lemma ZI_items1 items : items1_of (ZI items) = ZI (items1_of items).
Proof. unfold items1_of. rewrite !ZI_od_del. reflexivity. Qed.

Lemma ZI_items2 items : items2_of (ZI items) = ZI (items2_of items).
Proof. unfold items2_of. rewrite ZI_items1, ZI_od_del. reflexivity. Qed.

Theorem composite_item_Z ic st d :
  cs_pos st = None ->
  rzs (composite_item ic (Zst st) (Z d)) = rzs (composite_item ic st d).
Proof.
  intros Hp. rewrite !composite_item_stages. destruct d as [v|t|l|c items]; try reflexivity. cbn [Z].
  rewrite ZI_assoc. destruct (assoc s_type items) as [ty|]; cbn [option_map].
  - rewrite zpos_type. exact (ci_typed_Z st (TDict c items) ty).
  - rewrite ZI_assoc, ZI_items1, ZI_items2, ZI_assoc.
    assert (Ec : option_map (zpos Z s_comments) (assoc s_comments (items1_of items)) =
                 option_map Z (assoc s_comments (items1_of items))).
    { destruct (assoc s_comments (items1_of items)); cbn [option_map]; [|reflexivity].
      rewrite zpos_comments. reflexivity. }
    rewrite Ec.
    destruct (assoc s_position items) as [[p|t|l|c' it]|]; cbn [option_map]; try reflexivity.
    rewrite zpos_TVal_eq, is_pos_position. cbn [bind]. apply ci_untyped_Z. exact Hp.
Qed.

Lemma composite_item_pos_none ic st d s :
  cs_pos st = None -> composite_item ic st d = Ok s -> cs_pos s = None.
Proof.
  intros Hp H. rewrite composite_item_stages in H. destruct d as [v|t|l|c items]; try discriminate.
  destruct (assoc s_type items) as [ty|].
  - unfold ci_typed in H. destruct (match ty with TVal (VStr k) => Ok k | _ => vfail end) as [k|e]; cbn [bind] in H; [|discriminate].
    destruct (mem_str k SINGLETON_COMPOSITE_NAMES).
    + injection H as <-. exact Hp.
    + cbv zeta in H. destruct (tv_list_append _ _); cbn [bind] in H; [|discriminate]. injection H as <-. exact Hp.
  - destruct (match assoc s_position items with Some (TVal p) => Ok p | _ => vfail end) as [pos|e]; cbn [bind] in H; [|discriminate].
    unfold ci_untyped in H. destruct (items2_of items) as [|[kn v] [|kv2 r]]; try discriminate.
    destruct (str_eqb kn s_config).
    { unfold process_config in H. rewrite Hp in H.
      destruct (assoc s_config [(kn, v)]) as [[[| | | | | |c0 cfg]| | |]|]; try discriminate.
      cbn [bind] in H. injection H as <-. reflexivity. }
    destruct (str_eqb kn s_points).
    { unfold process_points in H. rewrite Hp in H.
      destruct (assoc s_points [(kn, v)]) as [[newv| | |]|]; try discriminate.
      match type of H with bind ?X _ = _ => destruct X end; cbn [bind] in H; [|discriminate].
      injection H as <-. reflexivity. }
    rewrite Hp in H. destruct (mem_str kn REPEATED_KEYS).
    + cbv zeta in H. destruct (tv_list_append _ _); cbn [bind] in H; [|discriminate]. injection H as <-. reflexivity.
    + injection H as <-. reflexivity.
Qed.

(* cb_composite in stages *)
Definition comp_step (ic : bool) (acc : res cstate) (d : tv) : res cstate :=
  do st <- acc; composite_item ic st d.

Definition comp_fold (ic : bool) (attrs : list tv) (init : res cstate) : res cstate :=
  fold_left (comp_step ic) attrs init.

Definition comp_finish (ic : bool) (st : cstate) : res tv :=
  let with_pos := match cs_pos st with
                  | Some p => [(s_position, TVal (VDict DPlain p))]
                  | None => []
                  end in
  let with_cm := if ic then [(s_comments, TVal (VDict DPlain (cs_comments st)))] else [] in
  match cs_dict st with
  | ty :: rest => Ok (TDict (DCI true) (ty :: with_pos ++ with_cm ++ rest))
  | [] => vfail
  end.

Definition attrs_of (second : tv) : list tv := match second with TSeq l => l | other => [other] end.

Definition comp_main (ic : bool) (key_token : ptok) (second : tv) : res tv :=
  do kn <- key_name key_token;
  do st <- comp_fold ic (attrs_of second) (Ok (mk_cs (ci_set s_type (TVal (VStr kn)) []) None []));
  comp_finish ic st.

Lemma cb_composite_stages ic t :
  cb_composite false ic t =
  match t with
  | [] => vfail
  | [x] => Ok x
  | a :: second :: _ =>
      match a with
      | TSeq (TTok key_token :: _) => comp_main ic key_token second
      | _ => vfail
      end
  end.
Proof.
  destruct t as [|a [|b r]]; try reflexivity.
  destruct a as [| |[|[| | |] ?]|]; reflexivity.
Qed.

Lemma comp_fold_err ic l e : comp_fold ic l (Err e) = Err e.
Proof. induction l as [|d l IH]; [reflexivity|]. exact IH. Qed.

Lemma comp_fold_cons ic d l st : comp_fold ic (d :: l) (Ok st) = comp_fold ic l (composite_item ic st d).
Proof. reflexivity. Qed.

Lemma comp_fold_Z ic attrs : forall st' st,
  Zst st' = Zst st -> cs_pos st = None ->
  rzs (comp_fold ic (map Z attrs) (Ok st')) = rzs (comp_fold ic attrs (Ok st)).
Proof.
  induction attrs as [|d attrs IH]; intros st' st Hs Hp; [cbn; rewrite Hs; reflexivity|].
  assert (Hp' : cs_pos st' = None) by (apply (f_equal cs_pos) in Hs; cbn in Hs; congruence).
  cbn [map]. rewrite !comp_fold_cons.
  assert (E : rzs (composite_item ic st' (Z d)) = rzs (composite_item ic st d)).
  { rewrite <- (composite_item_Z ic st' (Z d) Hp'), Z_idem, Hs. apply composite_item_Z. exact Hp. }
  destruct (composite_item ic st' (Z d)) as [a|e'] eqn:EA, (composite_item ic st d) as [b|e] eqn:EB;
    cbn [rmap] in E; try discriminate.
  - assert (E2 : Zst a = Zst b) by congruence. apply IH; [exact E2|]. eapply composite_item_pos_none; [exact Hp|exact EB].
  - injection E as ->. rewrite !comp_fold_err. reflexivity.
Qed.

Theorem cb_composite_Z ic t : rz (cb_composite false ic (map Z t)) = rz (cb_composite false ic t).
Proof.
  rewrite !cb_composite_stages. destruct t as [|a [|second r]]; [reflexivity| |].
  - cbn [map rmap]. rewrite Z_idem. reflexivity.
  - cbn [map]. destruct a as [v|t|l|c it]; try reflexivity.
    destruct l as [|[v|key|l0|c it] l]; try reflexivity. cbn [Z map].
    unfold comp_main. rewrite key_name_zap. destruct (key_name key) as [kn|e]; cbn [bind]; [|reflexivity].
    assert (Ea : attrs_of (Z second) = map Z (attrs_of second)) by (destruct second; reflexivity).
    rewrite Ea.
    pose proof (comp_fold_Z ic (attrs_of second) _ _ (eq_refl (Zst (mk_cs (ci_set s_type (TVal (VStr kn)) []) None []))) eq_refl) as Hf.
    destruct (comp_fold ic (map Z (attrs_of second)) _) as [s'|e'], (comp_fold ic (attrs_of second) _) as [s|e];
      cbn [rmap] in Hf; try discriminate; cbn [bind]; [|injection Hf as ->; reflexivity].
    injection Hf as Hd Hpos Hcm. unfold comp_finish. rewrite Hpos, Hcm.
    destruct (cs_dict s') as [|[k1 v1] rest'], (cs_dict s) as [|[k2 v2] rest]; cbn [zitems_with] in Hd;
      try discriminate; [reflexivity|].
    injection Hd as -> Hv Hr. cbn [rmap Z]. f_equal. f_equal. cbn [zitems_with]. rewrite Hv. f_equal.
    rewrite !ZI_app, Hr. reflexivity.
Qed.

(* ================================================================ dispatch and driver *)
Ltac exact_cb :=
  first [rewrite cb_start_Z | rewrite cb_first_Z | rewrite cb_len_Z | rewrite cb_int_Z | rewrite cb_float_Z
        | rewrite cb_bool_Z | rewrite cb_hexcolor_Z | rewrite cb_binary_Z | rewrite cb_comparison_Z
        | rewrite cb_expression_Z | rewrite cb_prefix_Z | rewrite cb_func_call_Z | rewrite cb_func_params_Z
        | rewrite cb_attr_bind_Z | rewrite cb_list_Z];
  apply rz_idem.

Ltac solve_cb :=
  first [ apply cb_attr_Z | apply cb_composite_Z | apply cb_config_Z | apply cb_projection_Z
        | apply process_pair_lists_Z | apply process_value_pairs_Z
        | exact_cb
        | cbn [rmap Z]; rewrite map_Z_idem; reflexivity
        | reflexivity ].

(* every callback of the transformer, include_position off *)
Theorem callback_Z ic d xs : rz (callback false ic d (map Z xs)) = rz (callback false ic d xs).
Proof.
  unfold callback.
  repeat match goal with
         | |- rz (if ?c then _ else _) = rz (if ?c then _ else _) => destruct c; [solve_cb|]
         end.
  reflexivity.
Qed.

Fixpoint Zg (g : gtree) : gtree :=
  match g with
  | GTok t => GTok (zap t)
  | GNode d cs _ => GNode d (map Zg cs) meta0
  | GVal v => GVal (Z v)
  end.

Definition tr_list (ip ic : bool) : list gtree -> res (list tv) :=
  fix go (l : list gtree) : res (list tv) :=
    match l with
    | [] => Ok []
    | c :: l' => do x <- tr_main ip ic c; do xs <- go l'; Ok (x :: xs)
    end.

Lemma tr_main_node ip ic d cs m :
  tr_main ip ic (GNode d cs m) = (do cs' <- tr_list ip ic cs; callback ip ic d cs').
Proof. reflexivity. Qed.

Lemma tr_list_cons ip ic c l :
  tr_list ip ic (c :: l) = (do x <- tr_main ip ic c; do xs <- tr_list ip ic l; Ok (x :: xs)).
Proof. reflexivity. Qed.

(* MapfileTransformer over a tree and over the same tree with positions (and metas) normalised *)
Theorem tr_main_Z ic : forall g, rz (tr_main false ic (Zg g)) = rz (tr_main false ic g).
Proof.
  fix IH 1. intros [t|d cs m|v].
  - reflexivity.
  - cbn [Zg]. rewrite !tr_main_node.
    assert (HL : rmap (map Z) (tr_list false ic (map Zg cs)) = rmap (map Z) (tr_list false ic cs)).
    { induction cs as [|c cs IHcs]; [reflexivity|]. cbn [map]. rewrite !tr_list_cons.
      pose proof (IH c) as Hc.
      destruct (tr_main false ic (Zg c)) as [x'|e'], (tr_main false ic c) as [x|e]; cbn [rmap] in Hc;
        try discriminate; cbn [bind]; [|cbn [rmap]; congruence].
      assert (Hx : Z x' = Z x) by congruence.
      destruct (tr_list false ic (map Zg cs)) as [xs'|e'], (tr_list false ic cs) as [xs|e]; cbn [rmap] in IHcs;
        try discriminate; cbn [bind rmap]; [|cbn [rmap]; congruence].
      assert (Hxs : map Z xs' = map Z xs) by congruence. cbn [map]. rewrite Hx, Hxs. reflexivity. }
    destruct (tr_list false ic (map Zg cs)) as [xs'|e'], (tr_list false ic cs) as [xs|e]; cbn [rmap] in HL;
      try discriminate; cbn [bind]; [|cbn [rmap]; congruence].
    assert (Hxs : map Z xs' = map Z xs) by congruence.
    rewrite <- (callback_Z ic d xs'), Hxs. apply callback_Z.
  - cbn [Zg tr_main rmap]. rewrite Z_idem. reflexivity.
Qed.

Lemma Zg_gtree_of_erase : forall t, Zg (gtree_of t) = Zg (gtree_of (erase_tree t)).
Proof.
  fix IH 1. intros [tk|d cs m]; [reflexivity|]. cbn [erase_tree gtree_of Zg]. f_equal.
  induction cs as [|c cs IHcs]; [reflexivity|]. cbn [map]. rewrite IH, IHcs. reflexivity.
Qed.

Lemma canonize_Zg g : Zg (canonize g) = canonize (Zg g).
Proof.
  destruct g as [t|d cs m|v]; try reflexivity. cbn [canonize Zg].
  destruct (d =? CB_symbolset); reflexivity.
Qed.

(* MapfileToDict.transform, positions and comments off: trees equal up to
   positions give results equal up to [Z] *)
Theorem transform_erase t t' :
  erase_tree t = erase_tree t' -> rz (transform false false t) = rz (transform false false t').
Proof.
  intros H. unfold transform.
  rewrite <- (tr_main_Z false (canonize (gtree_of t))), <- (tr_main_Z false (canonize (gtree_of t'))).
  rewrite !canonize_Zg, (Zg_gtree_of_erase t), (Zg_gtree_of_erase t'), H. reflexivity.
Qed.

(* ================================================================ final Python data *)
Definition zval_items_with (f : value -> value) : list (str * value) -> list (str * value) :=
  fix go (l : list (str * value)) : list (str * value) :=
    match l with
    | [] => []
    | (k, y) :: l' => (k, if is_pos k then VNone else f y) :: go l'
    end.

(* whatever is stored under a key __position__ is forgotten, at every depth *)
Fixpoint Zval (v : value) : value :=
  match v with
  | VList l => VList (map Zval l)
  | VDict c items => VDict c (zval_items_with Zval items)
  | _ => v
  end.

Notation rzv := (rmap Zval).

Theorem tv_to_value_Z : forall x, rzv (tv_to_value (Z x)) = rzv (tv_to_value x).
Proof.
  fix IH 1. intros [v|t|l|c items]; try reflexivity.
  - cbn [Z tv_to_value].
    set (GO := fix go (l : list tv) : res (list value) :=
                 match l with
                 | [] => Ok []
                 | y :: l' => do v <- tv_to_value y; do r <- go l'; Ok (v :: r)
                 end).
    assert (H : rmap (map Zval) (GO (map Z l)) = rmap (map Zval) (GO l)).
    { induction l as [|y l IHl]; [reflexivity|]. cbn [map GO]. fold GO.
      pose proof (IH y) as Hy.
      destruct (tv_to_value (Z y)) as [a'|e'], (tv_to_value y) as [a|e]; cbn [rmap] in Hy; try discriminate;
        cbn [bind]; [|cbn [rmap]; congruence].
      assert (Ha : Zval a' = Zval a) by congruence.
      destruct (GO (map Z l)) as [r'|e'], (GO l) as [r|e]; cbn [rmap] in IHl; try discriminate;
        cbn [bind rmap]; [|cbn [rmap]; congruence].
      assert (Hr : map Zval r' = map Zval r) by congruence. cbn [map]. rewrite Ha, Hr. reflexivity. }
    destruct (GO (map Z l)) as [r'|e'], (GO l) as [r|e]; cbn [rmap] in H; try discriminate; cbn [bind rmap];
      [|cbn [rmap]; congruence].
    assert (Hr : map Zval r' = map Zval r) by congruence. cbn [Zval]. rewrite Hr. reflexivity.
  - cbn [Z tv_to_value].
    set (GO := fix go (l : list (str * tv)) : res (list (str * value)) :=
                 match l with
                 | [] => Ok []
                 | (k, y) :: l' => do v <- tv_to_value y; do r <- go l'; Ok ((k, v) :: r)
                 end).
    assert (H : rmap (zval_items_with Zval) (GO (ZI items)) = rmap (zval_items_with Zval) (GO items)).
    { induction items as [|[k y] l IHl]; [reflexivity|]. cbn [zitems_with GO]. fold GO.
      assert (Hy : match tv_to_value (zpos Z k y), tv_to_value y with
                   | Ok a', Ok a => (if is_pos k then VNone else Zval a') = (if is_pos k then VNone else Zval a)
                   | Err e', Err e => e' = e
                   | _, _ => False
                   end).
      { unfold zpos. destruct (is_pos k).
        - pose proof (IH y) as Hy. destruct (tv_to_value_total y) as [a Ea].
          destruct y as [v|t|l0|c0 it0].
          + cbn [tv_to_value]. reflexivity.
          + destruct (tv_to_value_total (Z (TTok t))) as [a' Ea']. rewrite Ea', Ea. reflexivity.
          + destruct (tv_to_value_total (Z (TSeq l0))) as [a' Ea']. rewrite Ea', Ea. reflexivity.
          + destruct (tv_to_value_total (Z (TDict c0 it0))) as [a' Ea']. rewrite Ea', Ea. reflexivity.
        - pose proof (IH y) as Hy.
          destruct (tv_to_value (Z y)) as [a'|e'], (tv_to_value y) as [a|e]; cbn [rmap] in Hy; try discriminate;
            congruence. }
      destruct (tv_to_value (zpos Z k y)) as [a'|e'], (tv_to_value y) as [a|e]; try contradiction;
        cbn [bind]; [|subst; reflexivity].
      destruct (GO (ZI l)) as [r'|e'], (GO l) as [r|e]; cbn [rmap] in IHl; try discriminate;
        cbn [bind rmap]; [|cbn [rmap]; congruence].
      assert (Hr : zval_items_with Zval r' = zval_items_with Zval r) by congruence.
      cbn [zval_items_with]. rewrite Hy, Hr. reflexivity. }
    destruct (GO (ZI items)) as [r'|e'], (GO items) as [r|e]; cbn [rmap] in H; try discriminate; cbn [bind rmap];
      [|cbn [rmap]; congruence].
    assert (Hr : zval_items_with Zval r' = zval_items_with Zval r) by congruence. cbn [Zval]. rewrite Hr. reflexivity.
Qed.

(* ================================================================ loads *)
Definition erase_lres (r : res value) : res value :=
  match r with Ok v => Ok (Zval v) | Err e => Err (erase_exn e) end.

(* texts whose parse trees agree up to positions load to the same dictionary
   up to the values under __position__ keys, or fail with the same error class *)
Theorem loads_of_parse text text' :
  erase_pres (parse_text the_grammar the_hook false text) = erase_pres (parse_text the_grammar the_hook false text') ->
  erase_lres (loads false false text) = erase_lres (loads false false text').
Proof.
  intros H. unfold loads, parse_tree.
  destruct (parse_text the_grammar the_hook false text) as [po|e],
           (parse_text the_grammar the_hook false text') as [po'|e']; cbn [erase_pres] in H; try discriminate;
    cbn [bind].
  2:{ cbn [erase_lres]. congruence. }
  assert (Ht : erase_tree (po_tree po) = erase_tree (po_tree po')) by congruence.
  pose proof (transform_erase _ _ Ht) as Hr.
  destruct (transform false false (po_tree po)) as [r|e], (transform false false (po_tree po')) as [r'|e'];
    cbn [rmap] in Hr; try discriminate; cbn [bind].
  2:{ cbn [erase_lres]. congruence. }
  assert (Hz : Z r = Z r') by congruence.
  pose proof (tv_to_value_Z r) as A. pose proof (tv_to_value_Z r') as B. rewrite Hz in A. rewrite A in B.
  destruct (tv_to_value r) as [v|e], (tv_to_value r') as [v'|e']; cbn [rmap] in B; try discriminate;
    cbn [erase_lres]; congruence.
Qed.

(* ---- the guard under which nothing is forgotten: no key __position__ in the result *)
Definition no_pos_items_with (f : value -> bool) : list (str * value) -> bool :=
  fix go (l : list (str * value)) : bool :=
    match l with
    | [] => true
    | (k, y) :: l' => negb (is_pos k) && f y && go l'
    end.

Fixpoint no_pos_key (v : value) : bool :=
  match v with
  | VList l => forallb no_pos_key l
  | VDict c items => no_pos_items_with no_pos_key items
  | _ => true
  end.

Lemma Zval_guard : forall v w, Zval v = w -> no_pos_key w = true -> v = w.
Proof.
  induction v as [| | | | |l IH|c items IH] using value_ind'; intros w H Hn; cbn [Zval] in H; try exact H.
  - subst w. cbn [no_pos_key] in Hn. f_equal.
    induction IH as [|y l Hy _ IHl]; [reflexivity|]. cbn [map forallb] in *.
    apply andb_true_iff in Hn. destruct Hn as [H1 H2].
    rewrite <- (Hy _ eq_refl H1) at 1. rewrite <- (IHl H2) at 1. reflexivity.
  - subst w. cbn [no_pos_key] in Hn. f_equal.
    induction IH as [|[k y] l Hy _ IHl]; [reflexivity|]. cbn [snd] in Hy. cbn [zval_items_with no_pos_items_with] in *.
    apply andb_true_iff in Hn. destruct Hn as [Hn H3]. apply andb_true_iff in Hn. destruct Hn as [H1 H2].
    apply negb_true_iff in H1. rewrite H1 in *.
    rewrite <- (Hy _ eq_refl H2) at 1. rewrite <- (IHl H3) at 1. reflexivity.
Qed.

Lemma Zval_id : forall w, no_pos_key w = true -> Zval w = w.
Proof.
  induction w as [| | | | |l IH|c items IH] using value_ind'; intros Hn; try reflexivity.
  - cbn [no_pos_key Zval] in *. f_equal.
    induction IH as [|y l Hy _ IHl]; [reflexivity|]. cbn [map forallb] in *.
    apply andb_true_iff in Hn. destruct Hn as [H1 H2]. rewrite (Hy H1), (IHl H2). reflexivity.
  - cbn [no_pos_key Zval] in *. f_equal.
    induction IH as [|[k y] l Hy _ IHl]; [reflexivity|]. cbn [snd] in Hy. cbn [zval_items_with no_pos_items_with] in *.
    apply andb_true_iff in Hn. destruct Hn as [Hn H3]. apply andb_true_iff in Hn. destruct Hn as [H1 H2].
    apply negb_true_iff in H1. rewrite H1, (Hy H2), (IHl H3). reflexivity.
Qed.

Corollary erase_lres_guard r r' w :
  erase_lres r = erase_lres r' -> r' = Ok w -> no_pos_key w = true -> r = Ok w.
Proof.
  intros H -> Hn. destruct r as [v|e]; cbn [erase_lres] in H; [|discriminate].
  f_equal. apply Zval_guard; [|exact Hn]. rewrite <- (Zval_id w Hn). congruence.
Qed.

(* ================================================================ C05: separators and the dictionary *)
(* [U] leading separators, any number, in front of any text *)
Theorem C05U_loads_leading_separators :
  forall cs text, seps_ok false cs text ->
    erase_lres (loads false false (concat cs ++ text)) = erase_lres (loads false false text).
Proof.
  intros cs text H. apply loads_of_parse. apply C05U_leading_separators_parse_text. exact H.
Qed.

(* ... literally the same dictionary when it holds no key __position__ *)
Corollary C05U_loads_leading_separators_guarded :
  forall cs text w, seps_ok false cs text ->
    loads false false text = Ok w -> no_pos_key w = true ->
    loads false false (concat cs ++ text) = Ok w.
Proof.
  intros cs text w H Hl Hn. eapply erase_lres_guard; [apply C05U_loads_leading_separators; exact H|exact Hl|exact Hn].
Qed.

(* [U] any two sequences of separators between the same two tokens.
   PARTIAL: (1) the reachability hypotheses of Proofs/C05U.v (the lexer finishes
   the tokens of [pre] at the same place in both texts) are assumed - false in
   general, [separator_after_extensible_token_refuted]; (2) the dictionaries are
   equal up to [Zval] (the values under __position__ keys) - the unnormalised
   statement is false, [loads_leading_separator_refuted]; it holds literally
   when the result has no such key ([erase_lres_guard]); (3) include_comments
   and include_position off: with comments on, a comment is not a separator (its
   text is recorded) and assign_comments reads line numbers *)
Theorem C05U_loads_separators_between_tokens_partial :
  forall pre cs cs' post C C' state ss,
    reaches the_grammar the_hook false (init the_grammar (pre ++ concat cs ++ post)) C ->
    ls_rest (c_st C) = concat cs ++ post ->
    reaches the_grammar the_hook false (init the_grammar (pre ++ concat cs' ++ post)) C' ->
    ls_rest (c_st C') = concat cs' ++ post ->
    c_ss C = state :: ss -> c_ss C' = state :: ss ->
    map erase_tree (c_vs C) = map erase_tree (c_vs C') ->
    map erase_tok (c_acc C) = map erase_tok (c_acc C') ->
    seps_ok (state_uss the_grammar state) cs post -> seps_ok (state_uss the_grammar state) cs' post ->
    erase_lres (loads false false (pre ++ concat cs ++ post)) =
    erase_lres (loads false false (pre ++ concat cs' ++ post)).
Proof.
  intros pre cs cs' post C C' state ss R HC R' HC' Hss Hss' Hv Ha Hs Hs'.
  apply loads_of_parse. unfold parse_text.
  pose proof (C05U_separators_between_tokens_partial the_hook false false pre cs cs' post C C' state ss
                R HC R' HC' Hss Hss' Hv Ha Hs Hs') as E.
  unfold erase_run in E. injection E as _ E. exact E.
Qed.

(* REFUTED without the normalisation: an attribute whose key is the string
   __type__ is taken for a block by composite(); its record, with the
   __position__ entry attr() always builds, lands in the result although
   include_position is off - a leading line break then changes the dictionary.
       mappyfile.loads("MAP __type__ x END")  vs  mappyfile.loads("\nMAP __type__ x END")
   (replayed on the implementation: line 1 / line 2 in the two results) *)
Theorem loads_leading_separator_refuted :
  exists (c text : str) (v w : value),
    sep_ok false c text /\
    loads false false (c ++ text) = Ok v /\ loads false false text = Ok w /\ v <> w.
Proof.
  exists [10], (Str "MAP __type__ x END"). eexists. eexists.
  split; [|split; [vm_compute; reflexivity|split; [vm_compute; reflexivity|]]].
  - apply (sep_breaks false 10 []); [reflexivity|vm_compute; reflexivity].
  - vm_compute. intros H. discriminate H.
Qed.

(* non-vacuity of the guarded form *)
Example loads_leading_separators_example :
  loads false false (concat [Str "/* a * b */"; Str " "; Str "# note"; [10]; [9; 32]] ++ Str "MAP NAME 'x' END") =
  loads false false (Str "MAP NAME 'x' END").
Proof.
  assert (Hl : exists w, loads false false (Str "MAP NAME 'x' END") = Ok w /\ no_pos_key w = true).
  { eexists. split; vm_compute; reflexivity. }
  destruct Hl as (w & Hl & Hn). rewrite Hl.
  apply (C05U_loads_leading_separators_guarded _ _ w); [|exact Hl|exact Hn].
  cbn [seps_ok]. repeat split.
  - exact (sep_ccomment false (Str " a * b ") _ eq_refl).
  - apply (sep_blanks false 32 []); [reflexivity|reflexivity|vm_compute; reflexivity].
  - apply (sep_comment false (Str " note")); [reflexivity|vm_compute; reflexivity].
  - apply (sep_breaks false 10 []); [reflexivity|vm_compute; reflexivity].
  - apply (sep_blanks false 9 [32]); [discriminate|reflexivity|vm_compute; reflexivity].
Qed.

Print Assumptions callback_Z.
Print Assumptions transform_erase.
Print Assumptions C05U_loads_leading_separators.
Print Assumptions C05U_loads_leading_separators_guarded.
Print Assumptions C05U_loads_separators_between_tokens_partial.
Print Assumptions loads_leading_separator_refuted.
