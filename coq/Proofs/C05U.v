(* C05, separators, universal part: from "a separator standing at a token
   boundary is skipped" (Proofs/SepSkip.v) to "the rest of the parse is the same
   except for positions".

   1. the matcher does not see absolute offsets: [rmatch r fuel (o, s) k] is
      invariant under shifting [o] when [r] contains no [RBol]; no terminal
      pattern of any scanner of the generated grammar contains it;
   2. consequently the token types, token texts and the remaining text produced
      by [next_token] / [ctx_next] do not depend on the line counter of the
      lexer state (positions erased: [erase_tok]);
   3. the LR driver, the tree builder and mappyfile's hook commute with the
      erasure of positions ([erase_tree]): [parse_loop] from lexer states with
      the same remaining text and stacks equal up to positions gives the same
      token stream, the same tree and the same error class up to positions;
   4. separator insertion: a chunk of one of the four separator forms standing
      where the lexer is about to read is neutral; leading separators (any list
      of chunks) in front of a text; a chunk between two tokens of a text,
      given that the lexer reaches the boundary in both texts. *)
From MF Require Import Lib.Base Lib.Regex Model.GrammarTypes Model.Lexer Model.LR
  Proofs.RegexFacts Proofs.SepFacts Proofs.LRFacts Proofs.Fuel Proofs.SepSkip Gen.Tokens Gen.Grammar.
From MF Require Import Model.Case Model.Transformer Model.Api.
Open Scope N_scope.

(* ================================================================ 1. the matcher and absolute offsets *)
Fixpoint no_bol (r : rx) : bool :=
  match r with
  | RBol => false
  | REps | RSet _ _ | REol => true
  | RSeq a b | RAlt a b => no_bol a && no_bol b
  | RRep _ _ _ r1 | RNotAhead r1 => no_bol r1
  end.

(* the same remaining characters, offsets shifted from base o to base o' *)
Definition sh (o o' : N) (s s' : inp) : Prop := snd s = snd s' /\ fst s + o' = fst s' + o.

Definition orel {A B} (R : A -> B -> Prop) (x : option A) (y : option B) : Prop :=
  match x, y with
  | Some a, Some b => R a b
  | None, None => True
  | _, _ => False
  end.

Definition krel {A B} (o o' : N) (R : A -> B -> Prop) (k : inp -> option A) (k' : inp -> option B) : Prop :=
  forall s s', sh o o' s s' -> orel R (k s) (k' s').

Definition mrel {A B} (o o' : N) (R : A -> B -> Prop)
           (m : inp -> (inp -> option A) -> option A) (m' : inp -> (inp -> option B) -> option B) : Prop :=
  forall s s' k k', sh o o' s s' -> krel o o' R k k' -> orel R (m s k) (m' s' k').

Lemma rep_loop_shift {A B} o o' (R : A -> B -> Prop) m m' greedy mn mx :
  mrel o o' R m m' ->
  forall fuel cnt, mrel o o' R (rep_loop m greedy mn mx fuel cnt) (rep_loop m' greedy mn mx fuel cnt).
Proof.
  intros Hm. induction fuel as [|fuel IH]; intros cnt s s' k k' Hs Hk; [exact I|].
  rewrite !rep_loop_unfold. cbv zeta.
  match goal with
  | |- orel R (if _ then ?M1 else _) (if _ then ?M2 else _) => assert (Hmore : orel R M1 M2)
  end.
  { destruct (match mx with Some x => Nat.ltb cnt x | None => true end); [|exact I].
    apply Hm; [exact Hs|]. intros s1 s1' H1. cbv beta.
    assert (E : (fst s1 =? fst s) = (fst s1' =? fst s')).
    { destruct Hs as [_ Hs], H1 as [_ H1].
      destruct (N.eqb_spec (fst s1) (fst s)), (N.eqb_spec (fst s1') (fst s')); try reflexivity; lia. }
    rewrite E. destruct ((fst s1' =? fst s') && Nat.leb mn cnt); [exact I|].
    apply IH; assumption. }
  destruct (Nat.ltb cnt mn); [exact Hmore|].
  pose proof (Hk s s' Hs) as Hks.
  destruct greedy.
  - match goal with
    | |- orel R (match ?X with _ => _ end) (match ?Y with _ => _ end) => destruct X, Y
    end; cbn [orel] in Hmore; try contradiction; [exact Hmore|exact Hks].
  - destruct (k s), (k' s'); cbn [orel] in Hks; try contradiction; [exact Hks|exact Hmore].
Qed.

Theorem rmatch_shift r :
  no_bol r = true ->
  forall A B o o' (R : A -> B -> Prop) fuel, mrel o o' R (@rmatch r A fuel) (@rmatch r B fuel).
Proof.
  induction r as [|neg rg|a IHa b IHb|a IHa b IHb|g mn mx r1 IH|r1 IH| |];
    cbn [no_bol]; intros Hn A B o o' R fuel s s' k k' Hs Hk; cbn [rmatch].
  - apply Hk. exact Hs.
  - destruct Hs as [Hs1 Hs2]. rewrite <- Hs1.
    destruct (snd s) as [|c rest] eqn:Er; [exact I|].
    destruct (xorb neg (in_ranges c rg)); [|exact I].
    apply Hk. split; cbn [fst snd]; [reflexivity|lia].
  - apply andb_true_iff in Hn. destruct Hn as [Ha Hb].
    apply (IHa Ha A B o o' R fuel); [exact Hs|].
    intros s1 s1' H1. apply (IHb Hb A B o o' R fuel); assumption.
  - apply andb_true_iff in Hn. destruct Hn as [Ha Hb].
    pose proof (IHa Ha A B o o' R fuel s s' k k' Hs Hk) as H1.
    destruct (rmatch a fuel s k), (rmatch a fuel s' k'); cbn [orel] in H1; try contradiction; [exact H1|].
    apply (IHb Hb A B o o' R fuel); assumption.
  - apply (rep_loop_shift o o' R (fun s0 k0 => rmatch r1 fuel s0 k0) (fun s0 k0 => rmatch r1 fuel s0 k0));
      [|exact Hs|exact Hk].
    exact (IH Hn A B o o' R fuel).
  - pose proof (IH Hn unit unit o o' (fun _ _ => True) fuel s s' (fun _ => Some tt) (fun _ => Some tt) Hs
                   (fun _ _ _ => I)) as H1.
    destruct (rmatch r1 fuel s (fun _ => Some tt)), (rmatch r1 fuel s' (fun _ => Some tt));
      cbn [orel] in H1; try contradiction; [exact I|].
    apply Hk. exact Hs.
  - discriminate.
  - destruct Hs as [Hs1 Hs2]. rewrite <- Hs1.
    destruct (snd s) as [|c [|c2 rest]] eqn:Er; [|destruct (c =? 10); [|exact I]|exact I];
      apply Hk; (split; [congruence|exact Hs2]).
Qed.

Corollary rx_match_shift r fuel o o' s s' :
  no_bol r = true -> sh o o' s s' -> orel (sh o o') (rx_match r fuel s) (rx_match r fuel s').
Proof.
  intros Hn Hs. unfold rx_match.
  apply (rmatch_shift r Hn inp inp o o' (sh o o') fuel); [exact Hs|].
  intros s1 s1' H1. exact H1.
Qed.

(* ---------------------------------------------------------------- scanners *)
Definition lexer_no_bol (lx : lexer_info) : bool := forallb (fun p => no_bol (snd p)) (lx_terms lx).

Definition lexers_no_bol (g : grammar) : bool :=
  forallb lexer_no_bol (g_lexers g) && lexer_no_bol (g_root_lexer g).

Lemma scan_shift terms fuel o o' s s' :
  forallb (fun p => no_bol (snd p)) terms = true -> sh o o' s s' ->
  orel (fun a b => fst a = fst b /\ sh o o' (snd a) (snd b)) (scan terms fuel s) (scan terms fuel s').
Proof.
  intros Hall Hs. induction terms as [|[ty r] terms IH]; cbn [scan]; [exact I|].
  cbn [forallb snd] in Hall. apply andb_true_iff in Hall. destruct Hall as [Hr Hall].
  pose proof (rx_match_shift r fuel o o' s s' Hr Hs) as H1.
  destruct (rx_match r fuel s), (rx_match r fuel s'); cbn [orel] in H1; try contradiction.
  - split; [reflexivity|exact H1].
  - apply IH. exact Hall.
Qed.

(* ================================================================ 2. positions erased *)
Definition erase_tok (t : token) : token := mk_token (ttype t) (tval t) 0 0 0 0 0 0.

Lemma erase_tok_eq t t' : erase_tok t = erase_tok t' <-> ttype t = ttype t' /\ tval t = tval t'.
Proof.
  unfold erase_tok. split.
  - intros [= H1 H2]. split; assumption.
  - intros [H1 H2]. rewrite H1, H2. reflexivity.
Qed.

(* lexer states with the same remaining text: they may differ in the line
   counter, in the recorded comments and in the last token (of which the loop
   reads the positions only, for the end marker) *)
Definition ls_eqv (s s' : lexstate) : Prop := ls_rest s = ls_rest s'.

Definition lexres_eqv (r r' : lexres) : Prop :=
  match r, r' with
  | LTok t s, LTok t' s' => erase_tok t = erase_tok t' /\ ls_eqv s s'
  | LEof s, LEof s' => ls_eqv s s'
  | LBad s, LBad s' => ls_eqv s s'
  | _, _ => False
  end.

(* token types, token texts and the remaining text do not depend on the line
   counter (nor on the comment switch) *)
Theorem next_token_eqv g wc wc' lx :
  lexer_no_bol lx = true ->
  forall fuel st st', ls_eqv st st' ->
    lexres_eqv (next_token g wc lx fuel st) (next_token g wc' lx fuel st').
Proof.
  intros Hnb. unfold lexer_no_bol in Hnb.
  induction fuel as [|fuel IH]; intros st st' Hs; pose proof Hs as H1; unfold ls_eqv in H1; cbn [next_token]; [exact Hs|].
  rewrite <- H1.
  destruct (ls_rest st) as [|c0 rest0] eqn:Er; [exact Hs|]. rewrite <- Er.
  assert (Hsh : sh (lc_pos (ls_lc st)) (lc_pos (ls_lc st')) (lc_pos (ls_lc st), ls_rest st) (lc_pos (ls_lc st'), ls_rest st))
    by (split; cbn [fst snd]; [reflexivity|lia]).
  pose proof (scan_shift (lx_terms lx) (S fuel) _ _ _ _ Hnb Hsh) as Hsc.
  destruct (scan (lx_terms lx) (S fuel) (lc_pos (ls_lc st), ls_rest st)) as [[ty [endpos rest1]]|],
           (scan (lx_terms lx) (S fuel) (lc_pos (ls_lc st'), ls_rest st)) as [[ty' [endpos' rest1']]|];
    cbn [orel] in Hsc; try contradiction; [|exact Hs].
  destruct Hsc as [Ety [Erest Eoff]]. cbn [fst snd] in Ety, Erest, Eoff. subst ty' rest1'.
  replace (endpos' - lc_pos (ls_lc st')) with (endpos - lc_pos (ls_lc st)) by lia.
  cbv zeta. destruct (memN ty (lx_ignore lx)).
  - apply IH. reflexivity.
  - cbn [lexres_eqv]. split; reflexivity.
Qed.

Definition ctxres_eqv (r r' : ctxres) : Prop :=
  match r, r' with
  | CTok t s, CTok t' s' => erase_tok t = erase_tok t' /\ ls_eqv s s'
  | CEof s, CEof s' => ls_eqv s s'
  | CErrChars _ _, CErrChars _ _ => True        (* same error class, position free *)
  | CErrToken t, CErrToken t' => erase_tok t = erase_tok t'
  | _, _ => False
  end.

Lemma nth_N_In2 {A} (l : list A) n x : nth_N l n = Some x -> In x l.
Proof. unfold nth_N. apply nth_error_In. Qed.

Theorem ctx_next_eqv g wc wc' state fuel st st' :
  lexers_no_bol g = true -> ls_eqv st st' ->
  ctxres_eqv (ctx_next g wc state fuel st) (ctx_next g wc' state fuel st').
Proof.
  intros Hnb H. unfold lexers_no_bol in Hnb. apply andb_true_iff in Hnb. destruct Hnb as [Hall Hroot].
  rewrite forallb_forall in Hall. unfold ctx_next.
  destruct (nth_N (g_lexer_of_state g) state) as [li|]; [|exact I].
  destruct (nth_N (g_lexers g) li) as [lx|] eqn:Elx; [|exact I].
  pose proof (next_token_eqv g wc wc' lx (Hall lx (nth_N_In2 _ _ _ Elx)) fuel st st' H) as Hn.
  destruct (next_token g wc lx fuel st) as [t s|s|s], (next_token g wc' lx fuel st') as [t' s'|s'|s'];
    cbn [lexres_eqv] in Hn; try contradiction; try exact Hn.
  pose proof (next_token_eqv g wc wc' (g_root_lexer g) Hroot fuel s s' Hn) as Hr.
  destruct (next_token g wc (g_root_lexer g) fuel s) as [t r|r|r],
           (next_token g wc' (g_root_lexer g) fuel s') as [t' r'|r'|r'];
    cbn [lexres_eqv] in Hr; try contradiction; cbn [ctxres_eqv]; try exact I.
  apply Hr.
Qed.

(* ================================================================ 3. trees with positions erased *)
Fixpoint erase_tree (t : tree) : tree :=
  match t with
  | Tok a => Tok (erase_tok a)
  | Node d cs _ => Node d (map erase_tree cs) meta0
  end.

(* error class: the position carried by Lark's two syntax errors is dropped *)
Definition erase_exn (e : exn) : exn :=
  match e with
  | LarkUnexpectedCharacters _ _ => LarkUnexpectedCharacters 0 0
  | LarkUnexpectedToken _ _ => LarkUnexpectedToken 0 0
  | other => other
  end.

Definition erase_res (r : res tree) : res tree :=
  match r with Ok t => Ok (erase_tree t) | Err e => Err e end.

Lemma apply_filter_erase inc cs :
  apply_filter inc (map erase_tree cs) =
  match apply_filter inc cs with Ok l => Ok (map erase_tree l) | Err e => Err e end.
Proof.
  induction inc as [|[i ex] inc IH]; cbn [apply_filter]; [reflexivity|].
  rewrite nth_error_map. destruct (nth_error cs i) as [c|]; cbn [option_map]; [|reflexivity].
  rewrite IH. destruct (apply_filter inc cs) as [rest|e]; cbn [bind]; [|reflexivity].
  destruct ex; [|reflexivity].
  destruct c as [a|d k m]; cbn [erase_tree]; [reflexivity|]. rewrite map_app. reflexivity.
Qed.

Lemma propagate_erase cs t : erase_tree (propagate cs t) = erase_tree t.
Proof. destruct t as [a|d k m]; reflexivity. Qed.

(* the tree builder commutes with erasure; position propagation is invisible *)
Lemma build_erase pp r cs : erase_res (build pp r cs) = build false r (map erase_tree cs).
Proof.
  unfold build.
  assert (Hf : match r_filter r with Some inc => apply_filter inc (map erase_tree cs) | None => Ok (map erase_tree cs) end =
               match (match r_filter r with Some inc => apply_filter inc cs | None => Ok cs end) with
               | Ok l => Ok (map erase_tree l) | Err e => Err e end).
  { destruct (r_filter r); [apply apply_filter_erase|reflexivity]. }
  rewrite Hf.
  destruct (match r_filter r with Some inc => apply_filter inc cs | None => Ok cs end) as [f|e];
    cbn [bind erase_res]; [|reflexivity].
  f_equal.
  assert (Hn : erase_tree (match r_expand1 r, f with true, [c] => c | _, _ => Node (r_name r) f meta0 end) =
               match r_expand1 r, map erase_tree f with true, [c] => c | _, _ => Node (r_name r) (map erase_tree f) meta0 end).
  { destruct (r_expand1 r); [destruct f as [|c [|c2 f]]|]; reflexivity. }
  destruct pp; [rewrite propagate_erase|]; exact Hn.
Qed.

Corollary build_eqv pp pp' r cs cs' :
  map erase_tree cs = map erase_tree cs' -> erase_res (build pp r cs) = erase_res (build pp' r cs').
Proof. intros H. rewrite !build_erase, H. reflexivity. Qed.

Lemma pop_n_eqv n : forall vs vs', map erase_tree vs = map erase_tree vs' ->
  match pop_n n vs, pop_n n vs' with
  | Some (p, r), Some (p', r') => map erase_tree p = map erase_tree p' /\ map erase_tree r = map erase_tree r'
  | None, None => True
  | _, _ => False
  end.
Proof.
  induction n as [|n IH]; intros vs vs' H; cbn [pop_n]; [split; [reflexivity|exact H]|].
  destruct vs as [|x vs], vs' as [|x' vs']; try discriminate; [exact I|].
  cbn [map] in H. injection H as Hx H. specialize (IH vs vs' H).
  destruct (pop_n n vs) as [[p r]|], (pop_n n vs') as [[p' r']|]; try contradiction; [|exact I].
  destruct IH as [A B]. split; [cbn [map]; rewrite Hx, A; reflexivity|exact B].
Qed.

Definition erase_feedres (r : feedres) : feedres :=
  match r with
  | FShift ss vs => FShift ss (map erase_tree vs)
  | FDone v => FDone (erase_tree v)
  | FErr e => FErr (erase_exn e)
  end.

Lemma build_err_plain pp r cs e : build pp r cs = Err e -> erase_exn e = e.
Proof.
  unfold build. intros H.
  destruct (r_filter r) as [inc|]; [|discriminate].
  destruct (apply_filter inc cs) as [f|e0] eqn:E; cbn [bind] in H; [discriminate|]. injection H as <-.
  revert e0 E. induction inc as [|[i ex] inc IH]; intros e0 E; cbn [apply_filter] in E; [discriminate|].
  destruct (nth_error cs i) as [c|]; [|injection E as <-; reflexivity].
  destruct (apply_filter inc cs) as [rest|e1]; cbn [bind] in E; [|injection E as <-; apply IH; reflexivity].
  destruct ex; [|discriminate]. destruct c; [|discriminate]. injection E as <-. reflexivity.
Qed.

(* ParserState.feed_token reads the token's type only; positions travel into
   the trees and into the error *)
Theorem feed_eqv g pp pp' is_end : forall fuel tok tok' ss vs vs',
  erase_tok tok = erase_tok tok' -> map erase_tree vs = map erase_tree vs' ->
  erase_feedres (feed g pp fuel tok is_end ss vs) = erase_feedres (feed g pp' fuel tok' is_end ss vs').
Proof.
  induction fuel as [|fuel IH]; intros tok tok' ss vs vs' Ht H; cbn [feed]; [reflexivity|].
  pose proof (proj1 (erase_tok_eq _ _) Ht) as [Hty _].
  destruct ss as [|state ss0]; [reflexivity|]. rewrite <- Hty.
  destruct (lookup_action g state (ttype tok)) as [[ns|ri]|]; [| |reflexivity].
  - destruct is_end; [reflexivity|]. cbn [erase_feedres map erase_tree]. rewrite Ht, H. reflexivity.
  - destruct (nth_N (g_rules g) ri) as [r|]; [|reflexivity].
    destruct (pop_n (length (r_expansion r)) (state :: ss0)) as [[p1 ss1]|].
    2:{ destruct (pop_n (length (r_expansion r)) vs), (pop_n (length (r_expansion r)) vs'); reflexivity. }
    pose proof (pop_n_eqv (length (r_expansion r)) vs vs' H) as Hp.
    destruct (pop_n (length (r_expansion r)) vs) as [[popped vs1]|],
             (pop_n (length (r_expansion r)) vs') as [[popped' vs1']|]; try contradiction; [|reflexivity].
    destruct Hp as [Hp Hr].
    assert (Hrev : map erase_tree (rev popped) = map erase_tree (rev popped')) by (rewrite !map_rev, Hp; reflexivity).
    pose proof (build_eqv pp pp' r (rev popped) (rev popped') Hrev) as Hb.
    destruct (build pp r (rev popped)) as [v|e] eqn:Eb, (build pp' r (rev popped')) as [v'|e'] eqn:Eb';
      cbn [erase_res] in Hb; try discriminate.
    2:{ injection Hb as <-. reflexivity. }
    injection Hb as Hb.
    destruct ss1 as [|top ss1']; [reflexivity|].
    destruct (lookup_action g top (r_origin r)) as [[ns|?]|]; try reflexivity.
    destruct (is_end && (ns =? g_end g)); [cbn [erase_feedres]; rewrite Hb; reflexivity|].
    apply IH; [exact Ht|]. cbn [map]. rewrite Hb, Hr. reflexivity.
Qed.

(* mappyfile's hook reads the type and text of the token and the text of the
   token on top of the value stack *)
Definition erase_tokres (r : res token) : res token :=
  match r with Ok t => Ok (erase_tok t) | Err e => Err e end.

Lemma top_is_eqv up vs vs' s : map erase_tree vs = map erase_tree vs' -> top_is up vs s = top_is up vs' s.
Proof.
  intros H. destruct vs as [|[a|d k m] vs], vs' as [|[a'|d' k' m'] vs']; try discriminate; try reflexivity.
  cbn [map erase_tree] in H. assert (Ha : erase_tok a = erase_tok a') by congruence.
  apply erase_tok_eq in Ha. destruct Ha as [_ Hv]. cbn [top_is]. rewrite Hv. reflexivity.
Qed.

Theorem hook_eqv h t t' vs vs' :
  erase_tok t = erase_tok t' -> map erase_tree vs = map erase_tree vs' ->
  erase_tokres (hook h t vs) = erase_tokres (hook h t' vs').
Proof.
  intros Ht Hv. pose proof (proj1 (erase_tok_eq _ _) Ht) as [Hty Hval]. unfold hook.
  rewrite !(top_is_eqv (h_upper h) vs vs' _ Hv), <- Hty, <- Hval.
  assert (R : forall ty, erase_tok (retype t ty) = erase_tok (retype t' ty)).
  { intros ty. unfold retype, erase_tok. cbn [ttype tval]. rewrite Hval. reflexivity. }
  destruct (ttype t =? h_unquoted h).
  - destruct (top_is (h_upper h) vs' str_SYMBOL) as [b|e]; cbn [bind]; [|reflexivity].
    destruct (b && negb (mem_str (h_upper h (tval t)) (h_symbol_attrs h))); cbn [erase_tokres];
      [rewrite R|rewrite Ht]; reflexivity.
  - destruct (ttype t =? h_grid h); [|cbn [erase_tokres]; rewrite Ht; reflexivity].
    destruct (top_is (h_upper h) vs' str_NAME) as [b|e]; cbn [bind]; [|reflexivity].
    destruct b; cbn [erase_tokres]; [rewrite R|rewrite Ht]; reflexivity.
Qed.

(* ================================================================ the parse loop *)
Definition erase_pres (r : res parse_out) : res tree :=
  match r with Ok p => Ok (erase_tree (po_tree p)) | Err e => Err (erase_exn e) end.

(* what is observed of a run of the loop: the tokens fed (types and texts), the
   tree with positions erased, the error class *)
Definition erase_run (x : list token * res parse_out) : list token * res tree :=
  (map erase_tok (fst x), erase_pres (snd x)).

(* one iteration, after the lexer has answered *)
Definition loop_body (g : grammar) (h : hook_conf) (wc : bool)
           (rec : lexstate -> list N -> list tree -> list token -> list token * res parse_out)
           (c : ctxres) (ss : list N) (vs : list tree) (acc : list token) : list token * res parse_out :=
  match c with
  | CErrChars l c => (acc, Err (LarkUnexpectedCharacters l c))
  | CErrToken t => (acc, Err (LarkUnexpectedToken (tline t) (tcol t)))
  | CTok t st' =>
      match hook h t vs with
      | Err e => (acc, Err e)
      | Ok t' =>
          match feed g wc (reduce_fuel g ss) t' false ss vs with
          | FShift ss' vs' => rec st' ss' vs' (t' :: acc)
          | FDone _ => (t' :: acc, Err PyAssertionError)
          | FErr e => (t' :: acc, Err e)
          end
      end
  | CEof st' =>
      let endtok :=
        match ls_last st' with
        | Some lt => mk_token (g_end_term g) [] (tpos lt) (tline lt) (tcol lt)
                              (tend_line lt) (tend_col lt) (tend_pos lt)
        | None => mk_token (g_end_term g) [] 0 1 1 1 1 0
        end in
      match feed g wc (reduce_fuel g ss) endtok true ss vs with
      | FDone v => (acc, Ok (mk_pout v (rev (ls_comments st'))))
      | FShift _ _ => (acc, Err PyAssertionError)
      | FErr e => (acc, Err e)
      end
  end.

Lemma parse_loop_unfold g h wc fuel st state ss vs acc :
  parse_loop g h wc (S fuel) st (state :: ss) vs acc =
  loop_body g h wc (parse_loop g h wc fuel) (ctx_next g wc state (S fuel) st) (state :: ss) vs acc.
Proof. reflexivity. Qed.

Lemma hook_err_plain h t vs e : hook h t vs = Err e -> erase_exn e = e.
Proof. intros H. destruct (C11_hook_total_local h t vs) as [x Hx]. congruence. Qed.

Lemma loop_body_eqv g h wc wc' rec rec' c c' ss vs vs' acc acc' :
  ctxres_eqv c c' -> map erase_tree vs = map erase_tree vs' -> map erase_tok acc = map erase_tok acc' ->
  (forall t st1 t' st1', c = CTok t st1 -> c' = CTok t' st1' ->
     forall ss1 vs1 vs1' acc1 acc1',
       map erase_tree vs1 = map erase_tree vs1' -> map erase_tok acc1 = map erase_tok acc1' ->
       erase_run (rec st1 ss1 vs1 acc1) = erase_run (rec' st1' ss1 vs1' acc1')) ->
  erase_run (loop_body g h wc rec c ss vs acc) = erase_run (loop_body g h wc' rec' c' ss vs' acc').
Proof.
  intros Hc Hv Ha Hrec.
  destruct c as [t s|s|l0 c0|t], c' as [t' s'|s'|l0' c0'|t']; cbn [ctxres_eqv] in Hc; try contradiction;
    cbn [loop_body].
  - destruct Hc as [Ht Hs].
    pose proof (hook_eqv h t t' vs vs' Ht Hv) as Hh.
    destruct (hook h t vs) as [t2|e] eqn:E1, (hook h t' vs') as [t2'|e'] eqn:E2;
      cbn [erase_tokres] in Hh; try discriminate.
    2:{ injection Hh as <-. unfold erase_run. cbn [fst snd erase_pres]. rewrite Ha. reflexivity. }
    assert (Hh2 : erase_tok t2 = erase_tok t2') by congruence. clear Hh. rename Hh2 into Hh.
    pose proof (feed_eqv g wc wc' false (reduce_fuel g ss) t2 t2' ss vs vs' Hh Hv) as Hf.
    assert (Ha2 : map erase_tok (t2 :: acc) = map erase_tok (t2' :: acc')) by (cbn [map]; rewrite Hh, Ha; reflexivity).
    destruct (feed g wc (reduce_fuel g ss) t2 false ss vs) as [ss2 vs2|v|e],
             (feed g wc' (reduce_fuel g ss) t2' false ss vs') as [ss2' vs2'|v'|e'];
      cbn [erase_feedres] in Hf; try discriminate.
    + injection Hf as <- Hf. apply (Hrec t s t' s' eq_refl eq_refl); assumption.
    + unfold erase_run. cbn [fst snd erase_pres]. rewrite Ha2. reflexivity.
    + injection Hf as Hf. unfold erase_run. cbn [fst snd erase_pres]. rewrite Ha2, Hf. reflexivity.
  - match goal with
    | |- erase_run (match feed g wc ?F ?T true ss vs with _ => _ end) =
         erase_run (match feed g wc' ?F ?T' true ss vs' with _ => _ end) =>
        assert (Ht : erase_tok T = erase_tok T') by (destruct (ls_last s), (ls_last s'); reflexivity);
        pose proof (feed_eqv g wc wc' true F T T' ss vs vs' Ht Hv) as Hf;
        destruct (feed g wc F T true ss vs) as [ss2 vs2|v|e],
                 (feed g wc' F T' true ss vs') as [ss2' vs2'|v'|e']
    end; cbn [erase_feedres] in Hf; try discriminate; unfold erase_run; cbn [fst snd erase_pres po_tree].
    + rewrite Ha. reflexivity.
    + injection Hf as Hf. rewrite Ha, Hf. reflexivity.
    + injection Hf as Hf. rewrite Ha, Hf. reflexivity.
  - unfold erase_run. cbn [fst snd erase_pres erase_exn]. rewrite Ha. reflexivity.
  - unfold erase_run. cbn [fst snd erase_pres erase_exn]. rewrite Ha. reflexivity.
Qed.

(* the loop run from lexer states with the same remaining text, on stacks equal
   up to positions, with or without comment recording: same token stream, same
   tree, same error class *)
Theorem parse_loop_eqv g h wc wc' :
  lexers_no_bol g = true ->
  forall fuel st st' ss vs vs' acc acc',
    ls_eqv st st' -> map erase_tree vs = map erase_tree vs' -> map erase_tok acc = map erase_tok acc' ->
    erase_run (parse_loop g h wc fuel st ss vs acc) = erase_run (parse_loop g h wc' fuel st' ss vs' acc').
Proof.
  intros Hnb. induction fuel as [|fuel IH]; intros st st' ss vs vs' acc acc' Hs Hv Ha.
  - cbn [parse_loop]. unfold erase_run. cbn [fst snd erase_pres]. rewrite Ha. reflexivity.
  - destruct ss as [|state ss0].
    + cbn [parse_loop]. unfold erase_run. cbn [fst snd erase_pres]. rewrite Ha. reflexivity.
    + rewrite !parse_loop_unfold.
      apply loop_body_eqv; [apply ctx_next_eqv; assumption|exact Hv|exact Ha|].
      intros t st1 t' st1' E1 E2 ss1 vs1 vs1' acc1 acc1' Hv1 Ha1.
      apply IH; [|exact Hv1|exact Ha1].
      pose proof (ctx_next_eqv g wc wc' state (S fuel) st st' Hnb Hs) as Hc.
      rewrite E1, E2 in Hc. apply Hc.
Qed.

(* any two fuels above the remaining length *)
Corollary parse_loop_eqv_fuel g h wc wc' :
  lexers_no_bol g = true -> lexers_nonnull g = true ->
  forall f f' st st' ss vs vs' acc acc',
    ls_eqv st st' -> map erase_tree vs = map erase_tree vs' -> map erase_tok acc = map erase_tok acc' ->
    (length (ls_rest st) < f)%nat -> (length (ls_rest st) < f')%nat ->
    erase_run (parse_loop g h wc f st ss vs acc) = erase_run (parse_loop g h wc' f' st' ss vs' acc').
Proof.
  intros Hnb Hnn f f' st st' ss vs vs' acc acc' Hs Hv Ha H1 H2.
  rewrite (parse_loop_fuel_stable g h wc Hnn f f' st ss vs acc H1 H2).
  apply parse_loop_eqv; assumption.
Qed.

(* ================================================================ 4. separators *)
(* the four forms of Proofs/SepSkip.v with their side conditions; [post] is what
   follows the chunk (it must not extend it), [uss] says whether the scanner in
   charge knows UNQUOTED_STRING_SPACE (inside the braces of a list expression a
   leading space belongs to the item) *)
Inductive sep_ok (uss : bool) : str -> str -> Prop :=
| sep_ccomment body post :
    lazy_ok body = true -> sep_ok uss (47 :: 42 :: body ++ [42; 47]) post
| sep_comment line post :
    forallb (fun c => negb (c =? 10)) line = true ->
    match post with [] => True | c :: _ => c = 10 end ->
    sep_ok uss (35 :: line) post
| sep_blanks c run post :
    (c = 32 -> uss = false) -> forallb is_blank (c :: run) = true ->
    match post with [] => True | c' :: _ => is_blank c' = false end ->
    sep_ok uss (c :: run) post
| sep_breaks c run post :
    forallb is_break (c :: run) = true ->
    match post with [] => True | c' :: _ => is_break c' = false end ->
    sep_ok uss (c :: run) post.

Lemma sep_ok_nonempty uss chunk post : sep_ok uss chunk post -> (1 <= length chunk)%nat.
Proof. intros H. destruct H; cbn [length]; lia. Qed.

(* what Proofs/SepSkip.v proves of the generated grammar, as a property of a grammar *)
Definition seps_skipped (g : grammar) : Prop :=
  forall wc lx fuel st chunk post,
    In lx (all_lexers g) -> sep_ok (has_uss lx) chunk post ->
    ls_rest st = chunk ++ post -> (length (ls_rest st) <= fuel)%nat ->
    exists st1, ls_rest st1 = post /\
                next_token g wc lx (S fuel) st = next_token g wc lx fuel st1.

Definition state_uss (g : grammar) (state : N) : bool :=
  match nth_N (g_lexer_of_state g) state with
  | Some li => match nth_N (g_lexers g) li with Some lx => has_uss lx | None => false end
  | None => false
  end.

Section Separators.
  Variable g : grammar.
  Hypothesis Hnb : lexers_no_bol g = true.
  Hypothesis Hnn : lexers_nonnull g = true.
  Hypothesis Hskip : seps_skipped g.

  Lemma all_lexers_facts lx : In lx (all_lexers g) -> lexer_no_bol lx = true /\ lexer_nonnull lx = true.
  Proof.
    intros Hin. unfold lexers_no_bol in Hnb. unfold lexers_nonnull in Hnn.
    apply andb_true_iff in Hnb. destruct Hnb as [A1 A2].
    apply andb_true_iff in Hnn. destruct Hnn as [B1 B2].
    rewrite forallb_forall in A1, B1.
    destruct Hin as [<-|Hin]; [split; assumption|split; [apply A1|apply B1]; exact Hin].
  Qed.

  (* the scanner started in front of the chunk answers what it answers behind it *)
  Lemma next_token_sep_eqv wc wc' lx f f' st st0 chunk post :
    In lx (all_lexers g) -> sep_ok (has_uss lx) chunk post ->
    ls_rest st = chunk ++ post -> ls_rest st0 = post ->
    (length (ls_rest st) < f)%nat -> (length post < f')%nat ->
    lexres_eqv (next_token g wc lx f st) (next_token g wc' lx f' st0).
  Proof.
    intros Hin Hsep Hst Hst0 Hf Hf'. destruct (all_lexers_facts lx Hin) as [L1 L2].
    destruct f as [|f0]; [lia|].
    destruct (Hskip wc lx f0 st chunk post Hin Hsep Hst) as (st1 & R1 & E); [lia|]. rewrite E.
    pose proof (sep_ok_nonempty _ _ _ Hsep) as Hne.
    assert (Hlen : (length post < f0)%nat) by (rewrite Hst, app_length in Hf; lia).
    rewrite (next_token_fuel_stable g wc lx L2 f0 f' st1) by (rewrite R1; assumption).
    apply next_token_eqv; [exact L1|]. unfold ls_eqv. congruence.
  Qed.

  Lemma ctx_next_sep_eqv wc wc' state f f' st st0 chunk post :
    sep_ok (state_uss g state) chunk post ->
    ls_rest st = chunk ++ post -> ls_rest st0 = post ->
    (length (ls_rest st) < f)%nat -> (length post < f')%nat ->
    ctxres_eqv (ctx_next g wc state f st) (ctx_next g wc' state f' st0).
  Proof.
    intros Hsep Hst Hst0 Hf Hf'. unfold ctx_next. unfold state_uss in Hsep.
    destruct (nth_N (g_lexer_of_state g) state) as [li|]; [|exact I].
    destruct (nth_N (g_lexers g) li) as [lx|] eqn:Elx; [|exact I].
    assert (Hin : In lx (all_lexers g)) by (right; eapply nth_N_In2; exact Elx).
    destruct (all_lexers_facts lx Hin) as [L1 L2].
    pose proof (next_token_sep_eqv wc wc' lx f f' st st0 chunk post Hin Hsep Hst Hst0 Hf Hf') as Hn.
    pose proof (next_token_progress g wc lx L2 f st Hf) as P1.
    pose proof (next_token_progress g wc' lx L2 f' st0) as P2. rewrite Hst0 in P2. specialize (P2 Hf').
    destruct (next_token g wc lx f st) as [t s|s|s], (next_token g wc' lx f' st0) as [t' s'|s'|s'];
      cbn [lexres_eqv] in Hn; try contradiction; try exact Hn.
    unfold ls_eqv in Hn.
    assert (Hroot : In (g_root_lexer g) (all_lexers g)) by (left; reflexivity).
    destruct (all_lexers_facts _ Hroot) as [R1 R2].
    assert (Hl : length (ls_rest s) = length (ls_rest s')) by (rewrite Hn; reflexivity).
    rewrite (next_token_fuel_stable g wc (g_root_lexer g) R2 f f' s) by lia.
    pose proof (next_token_eqv g wc wc' (g_root_lexer g) R1 f' s s' Hn) as Hr.
    destruct (next_token g wc (g_root_lexer g) f' s) as [t r|r|r],
             (next_token g wc' (g_root_lexer g) f' s') as [t' r'|r'|r'];
      cbn [lexres_eqv] in Hr; try contradiction; cbn [ctxres_eqv]; try exact I.
    apply Hr.
  Qed.

  (* SEPARATOR INSERTION at the point the lexer is about to read: the loop
     started in front of the chunk (any line counter, any fuel above the
     remaining length) and the loop started behind it, on the same parser stack
     and value stacks equal up to positions, give the same token stream, the same
     tree and the same error class *)
  Theorem parse_loop_sep h wc wc' f f' st st0 state ss vs vs' acc acc' chunk post :
    sep_ok (state_uss g state) chunk post ->
    ls_rest st = chunk ++ post -> ls_rest st0 = post ->
    (length (ls_rest st) < f)%nat -> (length post < f')%nat ->
    map erase_tree vs = map erase_tree vs' -> map erase_tok acc = map erase_tok acc' ->
    erase_run (parse_loop g h wc f st (state :: ss) vs acc) =
    erase_run (parse_loop g h wc' f' st0 (state :: ss) vs' acc').
  Proof.
    intros Hsep Hst Hst0 Hf Hf' Hv Ha.
    destruct f as [|f0]; [lia|]. destruct f' as [|f0']; [lia|].
    rewrite !parse_loop_unfold.
    pose proof (ctx_next_sep_eqv wc wc' state (S f0) (S f0') st st0 chunk post Hsep Hst Hst0 Hf Hf') as Hc.
    apply loop_body_eqv; [exact Hc|exact Hv|exact Ha|].
    intros t st1 t' st1' E1 E2 ss1 vs1 vs1' acc1 acc1' Hv1 Ha1.
    pose proof (ctx_next_progress g wc state (S f0) st Hnn Hf) as P1. rewrite E1 in P1.
    pose proof (ctx_next_progress g wc' state (S f0') st0 Hnn) as P2. rewrite Hst0 in P2.
    specialize (P2 Hf'). rewrite E2 in P2.
    rewrite E1, E2 in Hc. destruct Hc as [_ Hc]. unfold ls_eqv in Hc.
    apply parse_loop_eqv_fuel; try assumption; [lia|rewrite Hc; lia].
  Qed.

  (* ---- leading separators *)
  Theorem leading_separator h wc wc' c text :
    sep_ok (state_uss g (g_start g)) c text ->
    erase_run (parse_text_tr g h wc (c ++ text)) = erase_run (parse_text_tr g h wc' text).
  Proof.
    intros Hsep. unfold parse_text_tr.
    apply (parse_loop_sep h wc wc' _ _ (ls0 (c ++ text)) (ls0 text) (g_start g) [] [] [] [] [] c text Hsep);
      try reflexivity; cbn [ls0 ls_rest]; lia.
  Qed.

  (* any number of them; each chunk must not be extended by what follows it *)
  Fixpoint seps_ok (uss : bool) (cs : list str) (text : str) : Prop :=
    match cs with
    | [] => True
    | c :: cs' => sep_ok uss c (concat cs' ++ text) /\ seps_ok uss cs' text
    end.

  (* ANY AMOUNT of separators where the lexer is about to read *)
  Theorem parse_loop_seps h wc' st0 state ss vs' acc' cs post :
    seps_ok (state_uss g state) cs post -> ls_rest st0 = post ->
    forall wc f f' st vs acc,
      ls_rest st = concat cs ++ post ->
      (length (ls_rest st) < f)%nat -> (length post < f')%nat ->
      map erase_tree vs = map erase_tree vs' -> map erase_tok acc = map erase_tok acc' ->
      erase_run (parse_loop g h wc f st (state :: ss) vs acc) =
      erase_run (parse_loop g h wc' f' st0 (state :: ss) vs' acc').
  Proof.
    intros Hseps Hst0. induction cs as [|c cs IH]; intros wc f f' st vs acc Hst Hf Hf' Hv Ha.
    - cbn [concat app] in Hst. apply parse_loop_eqv_fuel; try assumption.
      + unfold ls_eqv. congruence.
      + rewrite Hst. exact Hf'.
    - destruct Hseps as [H1 H2]. cbn [concat] in Hst. rewrite <- app_assoc in Hst.
      rewrite (parse_loop_sep h wc wc f (S (length (concat cs ++ post))) st
                 (mk_ls lc0 (concat cs ++ post) [] None) state ss vs vs acc acc c (concat cs ++ post) H1 Hst
                 eq_refl Hf (Nat.lt_succ_diag_r _) eq_refl eq_refl).
      apply (IH H2); try assumption; [reflexivity|apply Nat.lt_succ_diag_r].
  Qed.

  Theorem leading_separators h wc wc' cs text :
    seps_ok (state_uss g (g_start g)) cs text ->
    erase_run (parse_text_tr g h wc (concat cs ++ text)) = erase_run (parse_text_tr g h wc' text).
  Proof.
    intros H. unfold parse_text_tr.
    apply (parse_loop_seps h wc' (ls0 text) (g_start g) [] [] [] cs text H eq_refl wc _ _ (ls0 (concat cs ++ text)));
      try reflexivity; cbn [ls0 ls_rest]; lia.
  Qed.

  (* ---- a separator between two tokens of a text *)
  Record config := mk_cfg { c_st : lexstate; c_ss : list N; c_vs : list tree; c_acc : list token }.

  Definition run (h : hook_conf) (wc : bool) (fuel : nat) (c : config) : list token * res parse_out :=
    parse_loop g h wc fuel (c_st c) (c_ss c) (c_vs c) (c_acc c).

  (* one full iteration of the loop: a token is read, retyped, shifted *)
  Inductive step (h : hook_conf) (wc : bool) : config -> config -> Prop :=
  | step_intro st state ss vs acc t st' t' ss' vs' :
      ctx_next g wc state (S (length (ls_rest st))) st = CTok t st' ->
      hook h t vs = Ok t' ->
      feed g wc (reduce_fuel g (state :: ss)) t' false (state :: ss) vs = FShift ss' vs' ->
      step h wc (mk_cfg st (state :: ss) vs acc) (mk_cfg st' ss' vs' (t' :: acc)).

  Inductive reaches (h : hook_conf) (wc : bool) : config -> config -> Prop :=
  | reaches_refl c : reaches h wc c c
  | reaches_step c1 c2 c3 : step h wc c1 c2 -> reaches h wc c2 c3 -> reaches h wc c1 c3.

  Lemma step_run h wc c c' :
    step h wc c c' ->
    (length (ls_rest (c_st c')) < length (ls_rest (c_st c)))%nat /\
    forall f f', (length (ls_rest (c_st c)) < f)%nat -> (length (ls_rest (c_st c')) < f')%nat ->
      run h wc f c = run h wc f' c'.
  Proof.
    intros H. destruct H as [st state ss vs acc t st' t' ss' vs' Hc Hh Hfd]. cbn [c_st].
    pose proof (ctx_next_progress g wc state (S (length (ls_rest st))) st Hnn (Nat.lt_succ_diag_r _)) as P.
    rewrite Hc in P. split; [exact P|].
    intros f f' Hf Hf'. unfold run. cbn [c_st c_ss c_vs c_acc].
    destruct f as [|f0]; [lia|]. rewrite parse_loop_unfold.
    rewrite (ctx_next_fuel_stable g wc state (S f0) (S (length (ls_rest st))) st Hnn Hf (Nat.lt_succ_diag_r _)), Hc.
    cbn [loop_body]. rewrite Hh, Hfd.
    apply parse_loop_fuel_stable; [exact Hnn|lia|exact Hf'].
  Qed.

  Lemma reaches_run h wc c c' :
    reaches h wc c c' ->
    forall f f', (length (ls_rest (c_st c)) < f)%nat -> (length (ls_rest (c_st c')) < f')%nat ->
      run h wc f c = run h wc f' c'.
  Proof.
    intros H. induction H as [c|c1 c2 c3 Hs Hr IH]; intros f f' Hf Hf'.
    - unfold run. apply parse_loop_fuel_stable; [exact Hnn|exact Hf|exact Hf'].
    - destruct (step_run h wc c1 c2 Hs) as [_ E].
      rewrite (E f (S (length (ls_rest (c_st c2)))) Hf (Nat.lt_succ_diag_r _)).
      apply IH; [apply Nat.lt_succ_diag_r|exact Hf'].
  Qed.

  Definition init (text : str) : config := mk_cfg (ls0 text) [g_start g] [] [].

  (* if the loop on [pre ++ post] stands in front of [post] after some
     iterations, and the loop on [pre ++ chunk ++ post] stands in front of
     [chunk ++ post] with the same parser stack and the same values and tokens up
     to positions (that is: the tokens of [pre] end where they ended - the
     hypothesis that fails when the last token of [pre] can run into the chunk),
     then both texts give the same token stream, tree and error class *)
  Theorem separator_between_tokens h wc wc' pre chunk post C C' state ss :
    reaches h wc (init (pre ++ post)) C -> ls_rest (c_st C) = post ->
    reaches h wc' (init (pre ++ chunk ++ post)) C' -> ls_rest (c_st C') = chunk ++ post ->
    c_ss C = state :: ss -> c_ss C' = state :: ss ->
    map erase_tree (c_vs C') = map erase_tree (c_vs C) ->
    map erase_tok (c_acc C') = map erase_tok (c_acc C) ->
    sep_ok (state_uss g state) chunk post ->
    erase_run (parse_text_tr g h wc' (pre ++ chunk ++ post)) = erase_run (parse_text_tr g h wc (pre ++ post)).
  Proof.
    intros R HC R' HC' Hss Hss' Hv Ha Hsep.
    pose proof (reaches_run h wc _ _ R (S (length (pre ++ post))) (S (length post))) as E.
    pose proof (reaches_run h wc' _ _ R' (S (length (pre ++ chunk ++ post))) (S (length (chunk ++ post)))) as E'.
    unfold parse_text_tr. unfold run, init in E, E'. cbn [c_st c_ss c_vs c_acc ls0 ls_rest] in E, E'.
    rewrite E by (rewrite ?HC; lia). rewrite E' by (rewrite ?HC'; lia).
    rewrite Hss, Hss'.
    apply (parse_loop_sep h wc' wc _ _ (c_st C') (c_st C) state ss _ _ _ _ chunk post Hsep HC' HC);
      try assumption; rewrite ?HC'; lia.
  Qed.

  (* the general form: ANY two sequences of separators between the same two
     tokens.  [cs] and [cs'] may be empty where the tokens can stand side by
     side; the reachability hypotheses say that the lexer finishes the tokens of
     [pre] at the same place in both texts *)
  Theorem separators_between_tokens h wc wc' pre cs cs' post C C' state ss :
    reaches h wc (init (pre ++ concat cs ++ post)) C -> ls_rest (c_st C) = concat cs ++ post ->
    reaches h wc' (init (pre ++ concat cs' ++ post)) C' -> ls_rest (c_st C') = concat cs' ++ post ->
    c_ss C = state :: ss -> c_ss C' = state :: ss ->
    map erase_tree (c_vs C) = map erase_tree (c_vs C') ->
    map erase_tok (c_acc C) = map erase_tok (c_acc C') ->
    seps_ok (state_uss g state) cs post -> seps_ok (state_uss g state) cs' post ->
    erase_run (parse_text_tr g h wc (pre ++ concat cs ++ post)) =
    erase_run (parse_text_tr g h wc' (pre ++ concat cs' ++ post)).
  Proof.
    intros R HC R' HC' Hss Hss' Hv Ha Hs Hs'.
    pose proof (reaches_run h wc _ _ R (S (length (pre ++ concat cs ++ post))) (S (length (concat cs ++ post)))) as E.
    pose proof (reaches_run h wc' _ _ R' (S (length (pre ++ concat cs' ++ post))) (S (length (concat cs' ++ post)))) as E'.
    unfold parse_text_tr. unfold run, init in E, E'. cbn [c_st c_ss c_vs c_acc ls0 ls_rest] in E, E'.
    rewrite E by (rewrite ?HC; lia). rewrite E' by (rewrite ?HC'; lia).
    rewrite Hss, Hss'.
    (* both sides equal the loop standing in front of [post] *)
    set (mid := mk_ls lc0 post [] None).
    rewrite (parse_loop_seps h wc mid state ss (c_vs C) (c_acc C) cs post Hs eq_refl wc
               (S (length (concat cs ++ post))) (S (length post)) (c_st C) (c_vs C) (c_acc C) HC)
      by (rewrite ?HC; try reflexivity; lia).
    symmetry.
    rewrite (parse_loop_seps h wc mid state ss (c_vs C) (c_acc C) cs' post Hs' eq_refl wc'
               (S (length (concat cs' ++ post))) (S (length post)) (c_st C') (c_vs C') (c_acc C') HC')
      by (rewrite ?HC'; try (symmetry; assumption); lia).
    reflexivity.
  Qed.
End Separators.

(* ================================================================ 5. the generated grammar *)
(* [F] no terminal pattern of any scanner (56 contextual ones and the root
   lexer) contains the begin-of-text anchor *)
Lemma the_grammar_no_bol : lexers_no_bol the_grammar = true.
Proof. vm_compute. reflexivity. Qed.

(* [F] the scanner of the start state does not know UNQUOTED_STRING_SPACE *)
Lemma start_state_no_uss : state_uss the_grammar (g_start the_grammar) = false.
Proof. vm_compute. reflexivity. Qed.

(* Proofs/SepSkip.v, the four forms at once *)
Lemma the_grammar_seps_skipped : seps_skipped the_grammar.
Proof.
  intros wc lx fuel st chunk post Hin Hsep Hst Hf.
  destruct Hsep as [body post Hok|line post Hl Hp|c run post Hu Hb Hp|c run post Hb Hp].
  - eexists. split; [|apply (ccomment_skipped wc lx fuel st body post Hin Hok Hst Hf)]. reflexivity.
  - eexists. split; [|apply (comment_skipped wc lx fuel st line post Hin Hl Hp Hst Hf)]. reflexivity.
  - eexists. split; [|apply (blanks_skipped wc lx fuel st c run post Hin Hu Hb Hp Hst Hf)]. reflexivity.
  - eexists. split; [|apply (breaks_skipped wc lx fuel st c run post Hin Hb Hp Hst Hf)]. reflexivity.
Qed.

(* [U] lexing is position independent: any scanner of the grammar, any two
   lexer states with the same remaining text *)
Theorem C05U_next_token_position_independent :
  forall wc wc' lx fuel st st',
    In lx (all_lexers the_grammar) -> ls_rest st = ls_rest st' ->
    lexres_eqv (next_token the_grammar wc lx fuel st) (next_token the_grammar wc' lx fuel st').
Proof.
  intros wc wc' lx fuel st st' Hin H.
  destruct (all_lexers_facts the_grammar the_grammar_no_bol the_grammar_lexers_nonnull lx Hin) as [L _].
  apply next_token_eqv; [exact L|exact H].
Qed.

Theorem C05U_ctx_next_position_independent :
  forall wc wc' state fuel st st',
    ls_rest st = ls_rest st' ->
    ctxres_eqv (ctx_next the_grammar wc state fuel st) (ctx_next the_grammar wc' state fuel st').
Proof. intros. apply ctx_next_eqv; [exact the_grammar_no_bol|assumption]. Qed.

(* [U] the parse loop is position independent *)
Theorem C05U_parse_loop_position_independent :
  forall h wc wc' fuel st st' ss vs vs' acc acc',
    ls_rest st = ls_rest st' -> map erase_tree vs = map erase_tree vs' -> map erase_tok acc = map erase_tok acc' ->
    erase_run (parse_loop the_grammar h wc fuel st ss vs acc) =
    erase_run (parse_loop the_grammar h wc' fuel st' ss vs' acc').
Proof. intros. apply parse_loop_eqv; try assumption. exact the_grammar_no_bol. Qed.

(* [U] separator insertion where the lexer is about to read, one chunk *)
Theorem C05U_separator_at_boundary :
  forall h wc wc' f f' st st0 state ss vs vs' acc acc' chunk post,
    sep_ok (state_uss the_grammar state) chunk post ->
    ls_rest st = chunk ++ post -> ls_rest st0 = post ->
    (length (ls_rest st) < f)%nat -> (length post < f')%nat ->
    map erase_tree vs = map erase_tree vs' -> map erase_tok acc = map erase_tok acc' ->
    erase_run (parse_loop the_grammar h wc f st (state :: ss) vs acc) =
    erase_run (parse_loop the_grammar h wc' f' st0 (state :: ss) vs' acc').
Proof.
  exact (parse_loop_sep the_grammar the_grammar_no_bol the_grammar_lexers_nonnull the_grammar_seps_skipped).
Qed.

(* ... any number of chunks *)
Theorem C05U_separators_at_boundary :
  forall h wc wc' f f' st st0 state ss vs vs' acc acc' cs post,
    seps_ok (state_uss the_grammar state) cs post ->
    ls_rest st = concat cs ++ post -> ls_rest st0 = post ->
    (length (ls_rest st) < f)%nat -> (length post < f')%nat ->
    map erase_tree vs = map erase_tree vs' -> map erase_tok acc = map erase_tok acc' ->
    erase_run (parse_loop the_grammar h wc f st (state :: ss) vs acc) =
    erase_run (parse_loop the_grammar h wc' f' st0 (state :: ss) vs' acc').
Proof.
  intros h wc wc' f f' st st0 state ss vs vs' acc acc' cs post Hs Hst Hst0 Hf Hf' Hv Ha.
  exact (parse_loop_seps the_grammar the_grammar_no_bol the_grammar_lexers_nonnull the_grammar_seps_skipped
           h wc' st0 state ss vs' acc' cs post Hs Hst0 wc f f' st vs acc Hst Hf Hf' Hv Ha).
Qed.

(* [U] leading separators in front of ANY text (parsable or not) *)
Theorem C05U_leading_separators :
  forall h wc wc' cs text,
    seps_ok false cs text ->
    erase_run (parse_text_tr the_grammar h wc (concat cs ++ text)) = erase_run (parse_text_tr the_grammar h wc' text).
Proof.
  intros h wc wc' cs text H. rewrite <- start_state_no_uss in H.
  exact (leading_separators the_grammar the_grammar_no_bol the_grammar_lexers_nonnull the_grammar_seps_skipped
           h wc wc' cs text H).
Qed.

Corollary C05U_leading_separators_parse_text :
  forall wc wc' cs text,
    seps_ok false cs text ->
    erase_pres (parse_text the_grammar the_hook wc (concat cs ++ text)) =
    erase_pres (parse_text the_grammar the_hook wc' text).
Proof.
  intros wc wc' cs text H. unfold parse_text.
  pose proof (C05U_leading_separators the_hook wc wc' cs text H) as E. unfold erase_run in E.
  injection E as _ E. exact E.
Qed.

(* [U] separators between two tokens of a text.
   Full clause: "any amount of spaces, tabs, form feeds, line breaks, # comments
   and C-style comments between tokens leaves the result unchanged".
   PARTIAL: the two reachability hypotheses (the lexer finishes the tokens of
   [pre] at the same place, with the same stacks, in both texts) are assumed,
   not derived from the text - they are false in general, see
   [separator_after_extensible_token_refuted] below: the token in front of the
   separator may run into it (PATH, regex terminals) or a blank may belong to
   the item (inside the braces of a list expression, [state_uss]).  For LEADING
   separators nothing is assumed ([C05U_leading_separators]). *)
Theorem C05U_separators_between_tokens_partial :
  forall h wc wc' pre cs cs' post C C' state ss,
    reaches the_grammar h wc (init the_grammar (pre ++ concat cs ++ post)) C -> ls_rest (c_st C) = concat cs ++ post ->
    reaches the_grammar h wc' (init the_grammar (pre ++ concat cs' ++ post)) C' -> ls_rest (c_st C') = concat cs' ++ post ->
    c_ss C = state :: ss -> c_ss C' = state :: ss ->
    map erase_tree (c_vs C) = map erase_tree (c_vs C') ->
    map erase_tok (c_acc C) = map erase_tok (c_acc C') ->
    seps_ok (state_uss the_grammar state) cs post -> seps_ok (state_uss the_grammar state) cs' post ->
    erase_run (parse_text_tr the_grammar h wc (pre ++ concat cs ++ post)) =
    erase_run (parse_text_tr the_grammar h wc' (pre ++ concat cs' ++ post)).
Proof.
  exact (separators_between_tokens the_grammar the_grammar_no_bol the_grammar_lexers_nonnull the_grammar_seps_skipped).
Qed.

(* ================================================================ 6. the boundary hypothesis is needed; non-vacuity *)
(* REFUTED without the boundary hypothesis: a C comment written directly behind
   a token that can extend into it is not a separator.  In
       LAYER DATA a/b/* c */ END
   the PATH terminal swallows the slash of the comment opener (finding
   C05-path-swallows-c-comment); the chunk is a well-formed separator standing
   in front of " END", the text without it parses, the text with it does not *)
Theorem separator_after_extensible_token_refuted :
  exists pre chunk post,
    sep_ok false chunk post /\
    (exists t, erase_pres (parse_text the_grammar the_hook false (pre ++ post)) = Ok t) /\
    erase_pres (parse_text the_grammar the_hook false (pre ++ chunk ++ post)) = Err (LarkUnexpectedToken 0 0).
Proof.
  exists (Str "LAYER DATA a/b"), (Str "/* c */"), (Str " END"). split; [|split].
  - exact (sep_ccomment false (Str " c ") (Str " END") eq_refl).
  - eexists. vm_compute. reflexivity.
  - vm_compute. reflexivity.
Qed.

(* non-vacuity of the leading-separator theorem: all four forms in a row *)
Example leading_separators_example :
  seps_ok false [Str "/* a * b */"; Str " "; Str "# note"; [10]; [9; 32]] (Str "MAP END") /\
  concat [Str "/* a * b */"; Str " "; Str "# note"; [10]; [9; 32]] ++ Str "MAP END" =
    Str "/* a * b */ # note" ++ [10; 9; 32] ++ Str "MAP END".
Proof.
  split; [|reflexivity]. cbn [seps_ok]. repeat split.
  - exact (sep_ccomment false (Str " a * b ") _ eq_refl).
  - apply (sep_blanks false 32 []); [reflexivity|reflexivity|vm_compute; reflexivity].
  - apply (sep_comment false (Str " note")); [reflexivity|vm_compute; reflexivity].
  - apply (sep_breaks false 10 []); [reflexivity|vm_compute; reflexivity].
  - apply (sep_blanks false 9 [32]); [discriminate|reflexivity|vm_compute; reflexivity].
Qed.

(* non-vacuity of the between-tokens theorem: MAP/* c */END against MAP END;
   after one iteration both loops stand in front of the separators *)
Example between_tokens_example :
  erase_run (parse_text_tr the_grammar the_hook false (Str "MAP" ++ concat [Str "/* c */"] ++ Str "END")) =
  erase_run (parse_text_tr the_grammar the_hook true (Str "MAP" ++ concat [Str " "; [10]] ++ Str "END")).
Proof.
  eapply C05U_separators_between_tokens_partial.
  - eapply reaches_step; [|apply reaches_refl].
    eapply (step_intro the_grammar the_hook false); [vm_compute; reflexivity|vm_compute; reflexivity|vm_compute; reflexivity].
  - reflexivity.
  - eapply reaches_step; [|apply reaches_refl].
    eapply (step_intro the_grammar the_hook true); [vm_compute; reflexivity|vm_compute; reflexivity|vm_compute; reflexivity].
  - reflexivity.
  - reflexivity.
  - reflexivity.
  - reflexivity.
  - reflexivity.
  - cbn [seps_ok]. split; [|exact I]. exact (sep_ccomment _ (Str " c ") _ eq_refl).
  - cbn [seps_ok]. repeat split.
    + apply (sep_blanks _ 32 []); [intros _; vm_compute; reflexivity|reflexivity|vm_compute; reflexivity].
    + apply (sep_breaks _ 10 []); [reflexivity|vm_compute; reflexivity].
Qed.

Print Assumptions C05U_next_token_position_independent.
Print Assumptions C05U_parse_loop_position_independent.
Print Assumptions C05U_separators_at_boundary.
Print Assumptions C05U_leading_separators_parse_text.
Print Assumptions C05U_separators_between_tokens_partial.
Print Assumptions separator_after_extensible_token_refuted.
Print Assumptions between_tokens_example.
