(* Separators (C05, white space / line breaks / comments between tokens).
   Generic facts about the matcher used to show that a separator chunk standing
   at a token boundary is consumed as exactly one ignored token:

   - [starts] / [nullable]: a syntactic over-approximation of "this pattern can
     consume the character c first" / "can match the empty string", sound for
     the backtracking matcher ([no_start]);
   - [greedy_run]: a greedy repeat of a one-character class consumes the maximal
     run of class members when its continuation accepts everything;
   - [lazy_until_close]: the lazy any-character repeat followed by "*/" stops at
     the first "*/". *)
From MF Require Import Lib.Base Lib.Regex.
Open Scope N_scope.

Fixpoint nullable (r : rx) : bool :=
  match r with
  | REps => true
  | RSet _ _ => false
  | RSeq a b => nullable a && nullable b
  | RAlt a b => nullable a || nullable b
  | RRep _ mn _ r1 => match mn with O => true | S _ => nullable r1 end
  | RNotAhead _ | RBol | REol => true
  end.

Fixpoint starts (r : rx) (c : N) : bool :=
  match r with
  | REps => false
  | RSet neg rg => xorb neg (in_ranges c rg)
  | RSeq a b => starts a c || (nullable a && starts b c)
  | RAlt a b => starts a c || starts b c
  | RRep _ _ _ r1 => starts r1 c
  | RNotAhead _ | RBol | REol => false
  end.

(* a repeat whose item cannot move from s either fails or hands s to its continuation *)
Lemma rep_loop_stuck {A} (m : inp -> (inp -> option A) -> option A) greedy mn mx (s : inp) (k : inp -> option A) (nul : bool) :
  (forall k0, m s k0 = None \/ (nul = true /\ m s k0 = k0 s)) ->
  forall fuel cnt, (cnt = O \/ nul = true) ->
    rep_loop m greedy mn mx fuel cnt s k = None \/
    ((mn = O \/ nul = true) /\ rep_loop m greedy mn mx fuel cnt s k = k s).
Proof.
  intros Hm. induction fuel as [|fuel IH]; intros cnt Hc; cbn [rep_loop]; [left; reflexivity|].
  set (can_more := match mx with Some x => Nat.ltb cnt x | None => true end).
  set (k1 := fun s' : inp => if (fst s' =? fst s) && Nat.leb mn cnt then None
                             else rep_loop m greedy mn mx fuel (S cnt) s' k).
  assert (Hmore : (if can_more then m s k1 else None) = None \/
                  ((mn = O \/ nul = true) /\ (if can_more then m s k1 else None) = k s)).
  { destruct can_more; [|left; reflexivity].
    destruct (Hm k1) as [E|[Hn E]]; [left; exact E|].
    rewrite E. unfold k1. rewrite N.eqb_refl. cbn [andb].
    destruct (Nat.leb mn cnt); [left; reflexivity|].
    destruct (IH (S cnt) (or_intror Hn)) as [E1|[_ E1]]; [left; exact E1|].
    right. split; [right; exact Hn|exact E1]. }
  assert (HN : Nat.ltb cnt mn = false -> mn = O \/ nul = true).
  { intros Hlt. apply Nat.ltb_ge in Hlt. destruct Hc as [->|Hn]; [left; lia|right; exact Hn]. }
  destruct (Nat.ltb cnt mn) eqn:Hlt; [exact Hmore|].
  specialize (HN eq_refl).
  destruct greedy.
  - destruct Hmore as [E|[_ E]]; rewrite E.
    + right. split; [exact HN|reflexivity].
    + destruct (k s); [right; split; [exact HN|reflexivity]|right; split; [exact HN|reflexivity]].
  - destruct (k s) eqn:Ek.
    + right. split; [exact HN|reflexivity].
    + destruct Hmore as [E|[_ E]]; rewrite E; left; reflexivity.
Qed.

Lemma no_start (c : N) (r : rx) :
  starts r c = false ->
  forall A fuel o s (k : inp -> option A),
    rmatch r fuel (o, c :: s) k = None \/
    (nullable r = true /\ rmatch r fuel (o, c :: s) k = k (o, c :: s)).
Proof.
  induction r as [|neg rg|a IHa b IHb|a IHa b IHb|g mn mx r1 IH|r1 IH| |]; intros Hs A fuel o s k;
    cbn [starts] in Hs; cbn [rmatch nullable snd fst].
  - right. split; reflexivity.
  - rewrite Hs. left. reflexivity.
  - apply orb_false_iff in Hs. destruct Hs as [Hsa Hsb].
    destruct (IHa Hsa A fuel o s (fun s' => rmatch b fuel s' k)) as [E|[Hn E]]; [left; exact E|].
    rewrite E, Hn in *. cbn [andb] in *.
    destruct (IHb Hsb A fuel o s k) as [E1|[Hn1 E1]]; [left; exact E1|right; split; assumption].
  - apply orb_false_iff in Hs. destruct Hs as [Hsa Hsb].
    destruct (IHa Hsa A fuel o s k) as [Ea|[Hna Ea]]; rewrite Ea.
    + destruct (IHb Hsb A fuel o s k) as [Eb|[Hnb Eb]]; [left; exact Eb|].
      right. split; [rewrite Hnb; apply orb_true_r|exact Eb].
    + destruct (k (o, c :: s)) eqn:Ek.
      * right. split; [rewrite Hna; reflexivity|reflexivity].
      * destruct (IHb Hsb A fuel o s k) as [Eb|[_ Eb]]; [left; exact Eb|left; rewrite Eb; exact Ek].
  - destruct (rep_loop_stuck (fun s0 k0 => rmatch r1 fuel s0 k0) g mn mx (o, c :: s) k (nullable r1)
                (fun k0 => IH Hs A fuel o s k0) (S (mn + fuel)) O (or_introl eq_refl)) as [E|[HN E]].
    + left. exact E.
    + right. split; [|exact E]. destruct mn; [reflexivity|]. destruct HN as [HN|HN]; [discriminate|exact HN].
  - destruct (rmatch r1 fuel (o, c :: s) (fun _ => Some tt)); [left; reflexivity|right; split; reflexivity].
  - destruct (o =? 0); [right; split; reflexivity|left; reflexivity].
  - destruct s as [|c2 s2].
    + destruct (c =? 10); [right; split; reflexivity|left; reflexivity].
    + left. reflexivity.
Qed.

(* a pattern that neither starts with c nor matches the empty string does not match at c *)
Corollary cannot_match (c : N) (r : rx) fuel o s :
  starts r c = false -> nullable r = false -> rx_match r fuel (o, c :: s) = None.
Proof.
  intros Hs Hn. unfold rx_match.
  destruct (no_start c r Hs inp fuel o s (fun s' => Some s')) as [E|[Hn' _]]; [exact E|congruence].
Qed.

(* ---- greedy run of a one-character class, continuation accepts everything *)
Definition in_set (neg : bool) (rg : ranges) (c : N) : bool := xorb neg (in_ranges c rg).

Definition stops (neg : bool) (rg : ranges) (rest : str) : Prop :=
  match rest with [] => True | c :: _ => in_set neg rg c = false end.

Definition set_matcher {A} (neg : bool) (rg : ranges) (m : inp -> (inp -> option A) -> option A) : Prop :=
  forall o (l : str) k0,
    m (o, l) k0 = match l with
                  | c :: rest => if in_set neg rg c then k0 (o + 1, rest) else None
                  | [] => None
                  end.

Lemma rset_matcher {A} neg rg fuel0 : set_matcher neg rg (fun s0 k0 => rmatch (RSet neg rg) (A := A) fuel0 s0 k0).
Proof. intros o l k0. cbn [rmatch snd fst]. destruct l; reflexivity. Qed.

Lemma greedy_run_gen neg rg mn (m : inp -> (inp -> option inp) -> option inp) (run : str) :
  set_matcher neg rg m ->
  forall fuel cnt o rest,
    forallb (in_set neg rg) run = true -> stops neg rg rest ->
    (mn <= cnt + length run)%nat -> (length run < fuel)%nat ->
    rep_loop m true mn None fuel cnt (o, run ++ rest) (fun s' => Some s')
    = Some (o + N.of_nat (length run), rest).
Proof.
  intros Hm. induction run as [|c run IH]; intros fuel cnt o rest Hall Hstop Hmn Hf.
  - destruct fuel as [|fuel]; [cbn in Hf; lia|]. cbn [rep_loop app length] in *.
    assert (Hlt : Nat.ltb cnt mn = false) by (apply Nat.ltb_ge; lia).
    rewrite Hlt, Hm.
    replace (o + N.of_nat 0) with o by lia.
    destruct rest as [|c rest]; [reflexivity|].
    cbn [stops] in Hstop. rewrite Hstop. reflexivity.
  - destruct fuel as [|fuel]; [cbn in Hf; lia|].
    cbn [forallb] in Hall. apply andb_true_iff in Hall. destruct Hall as [Hc Hall].
    cbn [rep_loop app]. rewrite !Hm, !Hc. cbn [fst].
    assert (Hne : (o + 1 =? o) = false) by (apply N.eqb_neq; lia).
    rewrite Hne. cbn [andb].
    rewrite (IH fuel (S cnt) (o + 1) rest Hall Hstop) by (cbn [length] in *; lia).
    replace (o + 1 + N.of_nat (length run)) with (o + N.of_nat (length (c :: run))) by (cbn [length]; lia).
    destruct (Nat.ltb cnt mn); reflexivity.
Qed.

Lemma greedy_run neg rg mn (run : str) fuel0 o rest :
  forallb (in_set neg rg) run = true -> stops neg rg rest ->
  (mn <= length run)%nat -> (length run <= fuel0)%nat ->
  rmatch (RRep true mn None (RSet neg rg)) fuel0 (o, run ++ rest) (fun s' => Some s')
  = Some (o + N.of_nat (length run), rest).
Proof.
  intros Hall Hstop Hmn Hf. cbn [rmatch].
  apply (greedy_run_gen neg rg mn _ run (rset_matcher neg rg fuel0)); try assumption; cbn; lia.
Qed.

(* ---- lazy any-character run up to the first "*/" *)
Definition is_close (l : str) : bool :=
  match l with 42 :: 47 :: _ => true | _ => false end.

(* no "*/" begins inside the body (it may begin at its very end, using the
   closing delimiter's own characters, e.g. body "*" in "/***/") *)
Fixpoint lazy_ok (b : str) : bool :=
  match b with
  | [] => true
  | c :: b' => negb (is_close (c :: b' ++ [42; 47])) && lazy_ok b'
  end.

Definition close_rx : rx := RSeq (RSet false [(42,42)]) (RSet false [(47,47)]).

Lemma close_rx_spec fuel o (l : str) :
  rmatch close_rx (A := inp) fuel (o, l) (fun s' => Some s') =
  match l with 42 :: 47 :: rest => Some (o + 1 + 1, rest) | _ => None end.
Proof.
  unfold close_rx. cbn [rmatch snd fst in_ranges].
  destruct l as [|c1 l]; [reflexivity|].
  destruct (N.eqb_spec c1 42) as [->|H1].
  - cbn. destruct l as [|c2 l]; [reflexivity|].
    destruct (N.eqb_spec c2 47) as [->|H2]; [reflexivity|].
    assert (E : (47 <=? c2) && (c2 <=? 47) = false).
    { destruct (N.leb_spec 47 c2), (N.leb_spec c2 47); cbn; try reflexivity. lia. }
    cbn [xorb orb]. rewrite E. cbn.
    destruct c2 as [|p]; [reflexivity|].
    repeat (destruct p as [p|p|]; try reflexivity; try (exfalso; apply H2; reflexivity)).
  - assert (E : (42 <=? c1) && (c1 <=? 42) = false).
    { destruct (N.leb_spec 42 c1), (N.leb_spec c1 42); cbn; try reflexivity. lia. }
    rewrite E. cbn.
    destruct c1 as [|p]; [reflexivity|].
    repeat (destruct p as [p|p|]; try reflexivity; try (exfalso; apply H1; reflexivity)).
Qed.

Lemma is_close_app (l : str) rest : is_close (l ++ [42; 47]) = is_close (l ++ 42 :: 47 :: rest).
Proof.
  destruct l as [|c1 [|c2 l]]; cbn [app is_close]; reflexivity.
Qed.

Lemma lazy_until_close_gen (m : inp -> (inp -> option inp) -> option inp) fuel0 (body : str) :
  set_matcher true [] m ->
  forall fuel cnt o rest,
    lazy_ok body = true -> (length body < fuel)%nat ->
    rep_loop m false O None fuel cnt (o, body ++ 42 :: 47 :: rest)
             (fun s' => rmatch close_rx fuel0 s' (fun s'' => Some s''))
    = Some (o + N.of_nat (length body) + 1 + 1, rest).
Proof.
  intros Hm. induction body as [|c body IH]; intros fuel cnt o rest Hok Hf.
  - destruct fuel as [|fuel]; [cbn in Hf; lia|]. cbn [rep_loop app length Nat.ltb Nat.leb].
    rewrite close_rx_spec. replace (o + N.of_nat 0) with o by lia. reflexivity.
  - destruct fuel as [|fuel]; [cbn in Hf; lia|].
    cbn [lazy_ok] in Hok. apply andb_true_iff in Hok. destruct Hok as [Hnc Hok].
    apply negb_true_iff in Hnc.
    change (c :: body ++ [42; 47]) with ((c :: body) ++ [42; 47]) in Hnc.
    rewrite (is_close_app (c :: body) rest) in Hnc.
    cbn [rep_loop Nat.ltb Nat.leb].
    rewrite close_rx_spec.
    assert (Hk : match (c :: body) ++ 42 :: 47 :: rest with
                 | 42 :: 47 :: rest0 => Some (o + 1 + 1, rest0) | _ => @None inp end = None).
    { unfold is_close in Hnc. destruct ((c :: body) ++ 42 :: 47 :: rest) as [|c1 [|c2 l]]; try reflexivity.
      - destruct c1 as [|p]; [reflexivity|]. repeat (destruct p as [p|p|]; try reflexivity).
      - destruct c1 as [|p]; [reflexivity|].
        repeat (destruct p as [p|p|]; try reflexivity);
        destruct c2 as [|q]; try reflexivity;
        repeat (destruct q as [q|q|]; try reflexivity); discriminate. }
    rewrite Hk. cbn [app]. rewrite !Hm. unfold in_set. cbn [in_ranges xorb fst].
    assert (Hne : (o + 1 =? o) = false) by (apply N.eqb_neq; lia).
    rewrite Hne. cbn [andb].
    rewrite (IH fuel (S cnt) (o + 1) rest Hok) by (cbn [length] in *; lia).
    replace (o + 1 + N.of_nat (length body)) with (o + N.of_nat (length (c :: body))) by (cbn [length]; lia).
    reflexivity.
Qed.

Lemma lazy_until_close fuel0 (body : str) o rest :
  lazy_ok body = true -> (length body <= fuel0)%nat ->
  rmatch (RSeq (RRep false O None (RSet true [])) close_rx) fuel0 (o, body ++ 42 :: 47 :: rest) (fun s' => Some s')
  = Some (o + N.of_nat (length body) + 1 + 1, rest).
Proof.
  intros Hok Hf. cbn [rmatch].
  apply (lazy_until_close_gen _ fuel0 body (rset_matcher true [] fuel0)); [exact Hok|cbn; lia].
Qed.
