(* C02, universal part 5: the UNGUARDED shape.

   A second, coarse logical predicate [PW] over the transformer: values are
   scalars / lists / dicts without None, every key of every dict is lower-case,
   every dict of the block class has a lower-case string __type__.  It is kept
   by all 48 callbacks, the comments pass and transform for EVERY gtree whose
   leaf tokens carry strings (no guard at all: every parse tree qualifies), for
   every include_position / include_comments. *)
From MF Require Import Lib.Base Lib.PyDict Lib.PyNum Model.GrammarTypes Model.Lexer Model.LR
  Model.Case Model.Transformer Model.Api Gen.Tokens Gen.Grammar
  Proofs.CaseFacts Proofs.C11 Proofs.C13U Proofs.C08U Proofs.C02U_Spec Proofs.C02U_Rel.
Open Scope N_scope.

Lemma sv_clean_top v : sv (clean_top v) = sv v.
Proof. destruct v; reflexivity. Qed.

Lemma sv_clean_string : forall v, sv (clean_string v) = sv v.
Proof.
  induction v as [| | | | |l IH|c items IH] using value_ind'; try reflexivity.
  cbn [clean_string sv]. induction IH as [|y l Hy _ IHl]; [reflexivity|].
  cbn [map forallb]. rewrite Hy, IHl. reflexivity.
Qed.

Lemma skipw_consts :
  skipw s_position = true /\ skipw s_comments = true /\ skipw s_config = true /\
  skipw s_tokens = false /\ skipw s_type = false /\ skipw s_points = false.
Proof. vm_compute. repeat split; reflexivity. Qed.

Lemma skipw_lower k : skipw k = true -> lower k = k.
Proof.
  unfold skipw. intros H. destruct bk_consts_lower as (E1 & E2 & _ & _ & E5 & _).
  apply orb_true_iff in H. destruct H as [H|H]; [|apply str_eqb_eq in H; subst k; exact E5].
  apply orb_true_iff in H. destruct H as [H|H]; apply str_eqb_eq in H; subst k; assumption.
Qed.

Lemma Forall_keys_set {A} (P : str -> Prop) k (v : A) l :
  P k -> Forall P (keys l) -> Forall P (keys (od_set k v l)).
Proof.
  intros Hk Hl. rewrite keys_set. destruct (od_mem k l); [exact Hl|].
  apply Forall_app. split; [exact Hl|constructor; [exact Hk|constructor]].
Qed.

(* ================================================================ the predicate *)
Definition typed_tv (items : titems) : Prop :=
  exists ty, assoc s_type items = Some (TVal (VStr ty)) /\ lower ty = ty.

Fixpoint PW (x : tv) : Prop :=
  match x with
  | TVal v => sv v = true
  | TTok t => sv (pk_val t) = true
  | TSeq l => (fix go (l : list tv) : Prop := match l with [] => True | y :: l' => PW y /\ go l' end) l
  | TDict c items =>
      (fix go (l : list (str * tv)) : Prop :=
         match l with
         | [] => True
         | (k, y) :: l' => (skipw k = true \/ PW y) /\ go l'
         end) items
      /\ Forall lower_key (keys items) /\ (c = DCI true -> typed_tv items)
  end.

Definition kidsW (items : titems) : Prop := Forall (fun kv => skipw (fst kv) = true \/ PW (snd kv)) items.

Lemma PW_seq l : PW (TSeq l) <-> Forall PW l.
Proof.
  cbn [PW]. induction l as [|y l IH]; [split; [constructor|exact (fun _ => I)]|].
  rewrite IH. split; [intros [H1 H2]; constructor; assumption|intros H; inversion H; subst; tauto].
Qed.

Lemma PW_dict c items :
  PW (TDict c items) <-> kidsW items /\ Forall lower_key (keys items) /\ (c = DCI true -> typed_tv items).
Proof.
  cbn [PW]. unfold kidsW.
  assert (H : (fix go (l : list (str * tv)) : Prop :=
                 match l with
                 | [] => True
                 | (k, y) :: l' => (skipw k = true \/ PW y) /\ go l'
                 end) items <-> Forall (fun kv => skipw (fst kv) = true \/ PW (snd kv)) items).
  { induction items as [|[k y] l IH]; [split; [constructor|exact (fun _ => I)]|].
    rewrite IH. split; [intros [H1 H2]; constructor; assumption|intros H; inversion H; subst; tauto]. }
  rewrite H. tauto.
Qed.

Lemma kidsW_set k v items : skipw k = true \/ PW v -> kidsW items -> kidsW (od_set k v items).
Proof. intros Hv HF. apply Forall_od_set; assumption. Qed.

Lemma kidsW_get k v items : kidsW items -> assoc k items = Some v -> skipw k = true \/ PW v.
Proof. intros HF Ha. exact (assoc_Forall' (fun k v => skipw k = true \/ PW v) k v items HF Ha). Qed.

(* ---------------------------------------------------------------- token callbacks *)
Lemma set_first_PW t s x : set_first t s = Ok x -> PW x.
Proof. unfold set_first. intros H. wcrush H. reflexivity. Qed.

Lemma cb_binary_PW t a b c x : cb_binary t a b c = Ok x -> PW x.
Proof. unfold cb_binary. intros H. wcrush H. eapply set_first_PW; eassumption. Qed.

Lemma cb_comparison_PW t x : cb_comparison t = Ok x -> PW x.
Proof. unfold cb_comparison. intros H. wcrush H. eapply set_first_PW; eassumption. Qed.

Lemma cb_prefix_PW t p b x : cb_prefix t p b = Ok x -> PW x.
Proof. unfold cb_prefix. intros H. wcrush H; eapply set_first_PW; eassumption. Qed.

Lemma cb_expression_PW t x : Forall PW t -> cb_expression t = Ok x -> PW x.
Proof.
  unfold cb_expression. intros HF H. wcrush H.
  - exact (Forall_inv HF).
  - reflexivity.
Qed.

Lemma cb_func_call_PW t x : cb_func_call t = Ok x -> PW x.
Proof. unfold cb_func_call. intros H. wcrush H. reflexivity. Qed.

Lemma cb_func_params_PW t x : cb_func_params t = Ok x -> PW x.
Proof. unfold cb_func_params. intros H. wcrush H. reflexivity. Qed.

Lemma cb_attr_bind_PW t x : cb_attr_bind t = Ok x -> PW x.
Proof. unfold cb_attr_bind. intros H. wcrush H. reflexivity. Qed.

Lemma cb_list_PW t x : cb_list t = Ok x -> PW x.
Proof. unfold cb_list. intros H. wcrush H. reflexivity. Qed.

Lemma cb_first_PW t x : Forall PW t -> cb_first t = Ok x -> PW x.
Proof. unfold cb_first. intros HF H. wcrush H. exact (Forall_inv HF). Qed.

Lemma cb_int_PW t x : cb_int t = Ok x -> PW x.
Proof. unfold cb_int, first_tok. intros H. wcrush H. reflexivity. Qed.
Lemma cb_float_PW t x : cb_float t = Ok x -> PW x.
Proof. unfold cb_float, first_tok. intros H. wcrush H. reflexivity. Qed.
Lemma cb_bool_PW b t x : cb_bool b t = Ok x -> PW x.
Proof. unfold cb_bool, first_tok. intros H. wcrush H. reflexivity. Qed.
Lemma cb_hexcolor_PW t x : cb_hexcolor t = Ok x -> PW x.
Proof. unfold cb_hexcolor, first_tok. intros H. wcrush H. reflexivity. Qed.

Lemma cb_len_PW n t x : Forall PW t -> cb_len n t = Ok x -> PW x.
Proof. unfold cb_len. intros HF H. wcrush H. apply PW_seq. exact HF. Qed.

Lemma cb_start_PW t x : Forall PW t -> cb_start t = Ok x -> PW x.
Proof.
  unfold cb_start. intros HF H. destruct t as [|a [|b r]]; injection H as <-; try (apply PW_seq; exact HF).
  exact (Forall_inv HF).
Qed.

(* ---------------------------------------------------------------- attr *)
Lemma tok_of_PW x t : PW x -> tok_of x = Ok t -> PW (TTok t).
Proof. destruct x; try discriminate. intros H [= <-]. exact H. Qed.

Lemma tv_dot_value_PW x v : PW x -> tv_dot_value x = Ok v -> sv v = true.
Proof. destruct x; try discriminate. intros H [= <-]. exact H. Qed.

Lemma mapM_dot_value_PW l : forall vals, Forall PW l -> mapM tv_dot_value l = Ok vals -> forallb sv vals = true.
Proof.
  induction l as [|x l IH]; intros vals HF H; cbn [mapM] in H.
  - injection H as <-. reflexivity.
  - destruct (tv_dot_value x) as [v|e] eqn:Ev; cbn [bind] in H; [|discriminate].
    destruct (mapM tv_dot_value l) as [vs|e]; cbn [bind] in H; [|discriminate].
    injection H as <-. cbn [forallb]. rewrite (tv_dot_value_PW _ _ (Forall_inv HF) Ev).
    apply IH; [exact (Forall_inv_tail HF)|reflexivity].
Qed.

Lemma attr_vtoks_PW vt0 vts : Forall PW vt0 -> attr_vtoks vt0 = Ok vts -> Forall PW vts.
Proof.
  unfold attr_vtoks. intros HF H. destruct vt0 as [|a r]; [discriminate|].
  destruct a as [v|t|l|c items]; try (injection H as <-; exact HF).
  destruct r; [|discriminate]. injection H as <-. apply PW_seq. exact (Forall_inv HF).
Qed.

Lemma attr_key_PW k0 key : PW k0 -> attr_key k0 = Ok key -> PW (TTok key).
Proof.
  intros Hp H. destruct k0 as [v|t|l|c items]; try discriminate.
  - injection H as <-. exact Hp.
  - destruct l as [|[|t| |] l]; try discriminate. cbn [attr_key] in H.
    destruct (key_name t) as [kn|e]; cbn [bind] in H; [|discriminate].
    destruct (_ || _); [|discriminate]. injection H as <-. apply PW_seq in Hp. exact (Forall_inv Hp).
Qed.

(* the dict attr() returns, with its __tokens__ entry spelled out *)
Lemma attr_body_invW key kn vts x :
  attr_body key kn vts = Ok x ->
  exists V pd, attr_val kn vts V /\
    (x = TDict DPlain (od_set kn (TVal V) [(s_position, TVal pd)]) \/
     x = TDict DPlain (od_set kn (TVal V) [(s_position, TVal pd); (s_tokens, TSeq (TTok key :: vts))])).
Proof.
  unfold attr_body. intros H.
  destruct (create_position_dict key (Some vts)) as [pd|e]; cbn [bind] in H; [|discriminate].
  destruct vts as [|a [|b rest]]; [discriminate| |].
  - destruct (tok_of a) as [t|e] eqn:Et; cbn [bind] in H; [|discriminate]. injection H as <-.
    destruct a; try discriminate. injection Et as ->.
    eexists _, pd. split; [eapply av_single; reflexivity|]. right. reflexivity.
  - destruct (str_eqb_spec kn s_config) as [->|Hnc].
    + destruct rest; [|discriminate].
      destruct (tok_of a) as [ta|e] eqn:Ea; cbn [bind] in H; [|discriminate].
      destruct (tok_of b) as [tb|e] eqn:Eb; cbn [bind] in H; [|discriminate].
      destruct (pk_val ta) as [| | | |ka| |] eqn:Ev; try discriminate. cbn [bind] in H. injection H as <-.
      destruct a; try discriminate. injection Ea as ->. destruct b; try discriminate. injection Eb as ->.
      eexists _, pd. split; [eapply av_config; try reflexivity; exact Ev|]. left. reflexivity.
    + destruct (mapM tv_dot_value (a :: b :: rest)) as [vals|e] eqn:Em; cbn [bind] in H; [|discriminate].
      injection H as <-.
      eexists _, pd. split; [eapply av_multi; [exact Hnc| |exact Em|reflexivity]; cbn [length]; lia|].
      right. reflexivity.
Qed.

Lemma attr_val_kid kn vts V : Forall PW vts -> attr_val kn vts V -> skipw kn = true \/ PW (TVal V).
Proof.
  intros HF [t -> ->|ta tb ka -> _ _ _|vals _ _ Em ->].
  - right. cbn [PW]. rewrite sv_clean_top. exact (Forall_inv HF).
  - left. apply skipw_consts.
  - right. cbn [PW sv]. eapply mapM_dot_value_PW; eassumption.
Qed.

Lemma cb_attr_PW tokens x : Forall PW tokens -> cb_attr tokens = Ok x -> PW x.
Proof.
  rewrite cb_attr_stages. intros HF H. destruct tokens as [|k0 vt0]; [discriminate|].
  destruct (attr_key k0) as [key|e] eqn:Ek; cbn [bind] in H; [|discriminate].
  destruct (key_name key) as [kn|e] eqn:En; cbn [bind] in H; [|discriminate].
  destruct (attr_vtoks vt0) as [vts|e] eqn:Ev; cbn [bind] in H; [|discriminate].
  pose proof (attr_key_PW _ _ (Forall_inv HF) Ek) as Hkey.
  pose proof (attr_vtoks_PW _ _ (Forall_inv_tail HF) Ev) as Hvts.
  pose proof (key_name_lower _ _ En) as Hlow.
  destruct (attr_body_invW _ _ _ _ H) as (V & pd & Hv & Hx).
  pose proof (attr_val_kid _ _ _ Hvts Hv) as Hkid.
  destruct bk_consts_lower as (E1 & _ & E3 & _). destruct skipw_consts as (S1 & _).
  destruct Hx as [-> | ->]; apply PW_dict; (split; [|split; [|intros E; discriminate E]]).
  - apply kidsW_set; [exact Hkid|]. constructor; [left; exact S1|constructor].
  - apply Forall_keys_set; [exact Hlow|]. cbn [keys map fst]. constructor; [exact E1|constructor].
  - apply kidsW_set; [exact Hkid|]. constructor; [left; exact S1|].
    constructor; [right; apply PW_seq; constructor; assumption|constructor].
  - apply Forall_keys_set; [exact Hlow|]. cbn [keys map fst]. constructor; [exact E1|]. constructor; [exact E3|constructor].
Qed.

Lemma cb_config_PW t x : Forall PW t -> cb_config t = Ok x -> PW x.
Proof.
  unfold cb_config. intros HF H. destruct t as [|k [|a [|b [|c r]]]]; try discriminate.
  destruct (tok_of a) as [ta|e] eqn:Ea; cbn [bind] in H; [|discriminate].
  destruct (tok_of b) as [tb|e] eqn:Eb; cbn [bind] in H; [|discriminate].
  destruct (tok_str ta) as [ks|e]; cbn [bind] in H; [|discriminate].
  inversion HF as [|? ? Pk HF1]; subst. inversion HF1 as [|? ? Pa HF2]; subst. inversion HF2 as [|? ? Pb _]; subst.
  refine (cb_attr_PW _ x _ H).
  repeat apply Forall_cons; try apply Forall_nil; [exact Pk|reflexivity|].
  cbn [PW set_val pk_val]. rewrite sv_clean_top. exact (tok_of_PW _ _ Pb Eb).
Qed.

(* ---------------------------------------------------------------- check_composite_tokens and its users *)
Lemma cct_PW name tokens key body :
  Forall PW tokens -> check_composite_tokens name tokens = Ok (key, body) -> Forall PW body.
Proof.
  intros HF H. destruct (cct_inv _ _ _ _ H) as (rest & -> & _ & _ & Eb).
  pose proof (Forall_removelast _ _ (Forall_inv_tail HF)) as Hr. clear H. revert body Eb.
  induction (removelast rest) as [|t l IH]; intros body Eb; cbn [mapM] in Eb.
  - injection Eb as <-. constructor.
  - destruct (cctf t) as [y|e] eqn:Ey; cbn [bind] in Eb; [|discriminate].
    destruct (mapM cctf l) as [ys|e] eqn:Eys; cbn [bind] in Eb; [|discriminate].
    injection Eb as <-. constructor; [|apply IH; [exact (Forall_inv_tail Hr)|reflexivity]].
    pose proof (Forall_inv Hr) as Ht.
    destruct t as [v|tk|s|c items]; try (injection Ey as <-; exact Ht).
    cbn [cctf] in Ey. destruct (assoc s_tokens items) as [z|] eqn:Ea; [|discriminate]. injection Ey as <-.
    apply PW_dict in Ht. destruct Ht as [Hk _].
    destruct (kidsW_get _ _ _ Hk Ea) as [Hs|Hp]; [|exact Hp].
    destruct skipw_consts as (_ & _ & _ & E & _). rewrite E in Hs. discriminate Hs.
Qed.

Lemma cb_projection_PW t x : Forall PW t -> cb_projection t = Ok x -> PW x.
Proof.
  unfold cb_projection. intros HF H.
  destruct (check_composite_tokens _ t) as [[k0 body]|e] eqn:Ec; cbn [bind] in H; [|discriminate].
  pose proof (cct_PW _ _ _ _ HF Ec) as Hb.
  match type of H with bind ?r _ = _ => destruct r as [strs|e] eqn:Es end; cbn [bind] in H; [|discriminate].
  assert (Hs : forallb sv strs = true).
  { clear H Ec. revert strs Es. induction body as [|b body IH]; intros strs Es; cbn [mapM] in Es.
    - injection Es as <-. reflexivity.
    - destruct (tv_dot_value b) as [v|e] eqn:Ev; cbn [bind] in Es; [|discriminate].
      match type of Es with bind ?r _ = _ => destruct r as [ss|e] eqn:Ess end; cbn [bind] in Es; [|discriminate].
      injection Es as <-. cbn [forallb]. rewrite sv_clean_string.
      rewrite (tv_dot_value_PW _ _ (Forall_inv Hb) Ev). apply IH; [exact (Forall_inv_tail Hb)|reflexivity]. }
  destruct t as [|k [|v1 r]]; try discriminate.
  destruct (tok_of v1) as [vt|e] eqn:Ev; cbn [bind] in H; [|discriminate].
  refine (cb_attr_PW _ x _ H). constructor; [exact (Forall_inv HF)|]. constructor; [|constructor]. exact Hs.
Qed.

Lemma seq_item_value_PW x i v : PW x -> seq_item_value x i = Ok v -> sv v = true.
Proof.
  intros Hp H. destruct x as [|t|l|]; try discriminate. cbn [seq_item_value] in H.
  unfold nth_tv in H. destruct (nth_error l i) as [e|] eqn:En; cbn [bind] in H; [|discriminate].
  apply PW_seq in Hp. rewrite Forall_forall in Hp.
  eapply tv_dot_value_PW; [|exact H]. apply Hp. eapply nth_error_In. exact En.
Qed.

Lemma process_pair_lists_PW name t x : Forall PW t -> process_pair_lists name t = Ok x -> PW x.
Proof.
  unfold process_pair_lists. intros HF H.
  destruct (check_composite_tokens _ t) as [[k0 body]|e] eqn:Ec; cbn [bind] in H; [|discriminate].
  pose proof (cct_PW _ _ _ _ HF Ec) as Hb.
  match type of H with bind ?r _ = _ => destruct r as [pairs|e] eqn:Es end; cbn [bind] in H; [|discriminate].
  assert (Hs : forallb sv pairs = true).
  { clear H Ec. revert pairs Es. induction body as [|b body IH]; intros pairs Es; cbn [mapM] in Es.
    - injection Es as <-. reflexivity.
    - destruct (seq_item_value b 0) as [va|e] eqn:Ea; cbn [bind] in Es; [|discriminate].
      destruct (seq_item_value b 1) as [vb|e] eqn:Eb; cbn [bind] in Es; [|discriminate].
      match type of Es with bind ?r _ = _ => destruct r as [ss|e] eqn:Ess end; cbn [bind] in Es; [|discriminate].
      injection Es as <-. cbn [forallb sv].
      rewrite (seq_item_value_PW _ _ _ (Forall_inv Hb) Ea), (seq_item_value_PW _ _ _ (Forall_inv Hb) Eb).
      cbn [andb]. apply IH; [exact (Forall_inv_tail Hb)|reflexivity]. }
  destruct t as [|k [|v1 r]]; try discriminate.
  destruct v1 as [v|tk|[|[v|vt|l2|c2 i2] l]|c items]; try discriminate.
  refine (cb_attr_PW _ x _ H). constructor; [exact (Forall_inv HF)|]. constructor; [|constructor]. exact Hs.
Qed.

(* ---------------------------------------------------------------- key-value blocks *)
Definition kvW (d : titems) : Prop := kidsW d /\ Forall lower_key (keys d).

Lemma kvW_ci_set k v d : skipw (lower k) = true \/ PW v -> kvW d -> kvW (ci_set k v d).
Proof.
  intros Hv [H1 H2]. unfold ci_set. split; [apply kidsW_set; assumption|].
  apply Forall_keys_set; [apply lower_idem|exact H2].
Qed.

Lemma pvp_fold_PW body : forall acc d, Forall PW body -> kvW acc ->
  fold_left pvp_step body (Ok acc) = Ok d -> kvW d.
Proof.
  induction body as [|t body IH]; intros acc d HF Hacc H; cbn [fold_left] in H.
  - injection H as <-. exact Hacc.
  - destruct (pvp_step (Ok acc) t) as [acc'|e] eqn:Es; [|rewrite pvp_fold_err in H; discriminate].
    eapply IH; [exact (Forall_inv_tail HF)| |exact H].
    unfold pvp_step in Es. cbn [bind] in Es.
    destruct (seq_item_value t 0) as [kv|e]; cbn [bind] in Es; [|discriminate].
    destruct (seq_item_value t 1) as [vv|e] eqn:Ev; cbn [bind] in Es; [|discriminate].
    destruct (value_as_str _) as [ks|e]; cbn [bind] in Es; [|discriminate].
    injection Es as <-. apply kvW_ci_set; [|exact Hacc].
    right. cbn [PW]. rewrite sv_clean_top. eapply seq_item_value_PW; [exact (Forall_inv HF)|exact Ev].
Qed.

Lemma process_value_pairs_PW ip t ty x : Forall PW t -> process_value_pairs ip t ty = Ok x -> PW x.
Proof.
  rewrite process_value_pairs_stages. intros HF H.
  destruct (check_composite_tokens ty t) as [[key body]|e] eqn:Ec; cbn [bind fst snd] in H; [|discriminate].
  pose proof (cct_PW _ _ _ _ HF Ec) as Hb.
  destruct (key_name key) as [kn|e] eqn:En; cbn [bind] in H; [|discriminate].
  destruct (fold_left pvp_step body (Ok [])) as [d|e] eqn:Ef; cbn [bind] in H; [|discriminate].
  assert (Hd : kvW d) by (apply (pvp_fold_PW body [] d Hb); [split; constructor|exact Ef]).
  destruct (pvp_pos ip key body d) as [d1|e] eqn:Ep; cbn [bind] in H; [|discriminate]. injection H as <-.
  destruct bk_consts_lower as (E1 & _ & _ & E4 & _). destruct skipw_consts as (S1 & _).
  assert (Hd1 : kvW d1).
  { unfold pvp_pos in Ep. destruct ip; [|injection Ep as <-; exact Hd].
    destruct (create_position_dict key (Some body)) as [pd|e]; cbn [bind] in Ep; [|discriminate].
    injection Ep as <-. apply kvW_ci_set; [|exact Hd]. left. rewrite E1. exact S1. }
  destruct (kvW_ci_set s_type (TVal (VStr kn)) d1 (or_intror eq_refl) Hd1) as [K1 K2].
  apply PW_dict. split; [exact K1|]. split; [exact K2|]. intros _.
  exists kn. split; [unfold ci_set; rewrite E4; apply get_set_same|eapply key_name_lower; exact En].
Qed.

(* ---------------------------------------------------------------- composite *)
Definition stW (st : cstate) : Prop :=
  kidsW (cs_dict st) /\ Forall lower_key (keys (cs_dict st)) /\ typed_tv (cs_dict st).

Lemma stW_ci_set st k v :
  stW st -> skipw (lower k) = true \/ PW v -> s_type <> lower k ->
  stW (mk_cs (ci_set k v (cs_dict st)) (cs_pos st) (cs_comments st)).
Proof.
  intros (H1 & H2 & (ty & Ht & Hl)) Hv Hne. cbn [stW cs_dict]. unfold stW. cbn [cs_dict].
  destruct (kvW_ci_set k v (cs_dict st) Hv (conj H1 H2)) as [K1 K2].
  split; [exact K1|]. split; [exact K2|]. exists ty. split; [|exact Hl].
  rewrite ci_set_type_keep by exact Hne. exact Ht.
Qed.

Lemma tv_list_append_PW cur e r : PW cur -> PW e -> tv_list_append cur e = Ok r -> PW r.
Proof.
  intros Hc He H. destruct cur as [v|t|l|c items]; try discriminate.
  - destruct v as [| | | | |l|]; try discriminate. cbn [PW sv] in Hc.
    assert (Hl : Forall PW (map TVal l)).
    { apply Forall_forall. intros y Hy. apply in_map_iff in Hy. destruct Hy as (w & <- & Hw).
      cbn [PW]. rewrite forallb_forall in Hc. apply Hc. exact Hw. }
    destruct e as [w|t|l2|c2 i2]; injection H as <-.
    + cbn [PW sv]. apply forallb_app_true; [exact Hc|]. cbn [forallb]. cbn [PW] in He. rewrite He. reflexivity.
    + apply PW_seq. apply Forall_app. split; [exact Hl|constructor; [exact He|constructor]].
    + apply PW_seq. apply Forall_app. split; [exact Hl|constructor; [exact He|constructor]].
    + apply PW_seq. apply Forall_app. split; [exact Hl|constructor; [exact He|constructor]].
  - injection H as <-. apply PW_seq. apply Forall_app. split; [apply PW_seq; exact Hc|constructor; [exact He|constructor]].
Qed.

Lemma cur_PW k (d : titems) :
  kidsW d -> skipw (lower k) = true \/ PW (match ci_get k d with Some x => x | None => TSeq [] end).
Proof.
  intros Hd. unfold ci_get. destruct (assoc (lower k) d) as [x|] eqn:Eg.
  - eapply kidsW_get; eassumption.
  - right. exact I.
Qed.

Lemma append_under_PW k (d : titems) v r :
  kidsW d -> PW v ->
  tv_list_append (match ci_get k d with Some x => x | None => TSeq [] end) v = Ok r ->
  skipw (lower k) = true \/ PW r.
Proof.
  intros Hd Hv H. destruct (cur_PW k d Hd) as [Hs|Hc]; [left; exact Hs|right].
  exact (tv_list_append_PW _ _ _ Hc Hv H).
Qed.

Lemma ci_typed_W st d ty s : stW st -> PW d -> ci_typed st d ty = Ok s -> stW s.
Proof.
  intros HI Hpd H. unfold ci_typed in H.
  destruct ty as [[| | | |k| |]| | |]; try discriminate. cbn [bind] in H.
  destruct (mem_str k SINGLETON_COMPOSITE_NAMES) eqn:Es.
  - injection H as <-. apply stW_ci_set; [exact HI|right; exact Hpd|apply singleton_not_type; exact Es].
  - cbv zeta in H. destruct (tv_list_append _ d) as [c1|e] eqn:A1; cbn [bind] in H; [|discriminate].
    injection H as <-. apply stW_ci_set; [exact HI| |apply plural_not_type].
    eapply append_under_PW; [exact (proj1 HI)|exact Hpd|exact A1].
Qed.

Lemma points_new_W d nv r :
  kidsW d -> Forall lower_key (keys d) -> sv nv = true -> points_new d nv = Ok r ->
  kidsW r /\ Forall lower_key (keys r) /\ assoc s_type r = assoc s_type d.
Proof.
  unfold points_new. intros Hd Hk Hn H.
  destruct bk_consts_lower as (_ & _ & _ & _ & _ & Ep & _). destruct skipw_consts as (_ & _ & _ & _ & _ & Sp).
  assert (Hset : forall v, sv v = true ->
            kidsW (ci_set s_points (TVal v) d) /\ Forall lower_key (keys (ci_set s_points (TVal v) d)) /\
            assoc s_type (ci_set s_points (TVal v) d) = assoc s_type d).
  { intros v Hv. destruct (kvW_ci_set s_points (TVal v) d (or_intror Hv) (conj Hd Hk)) as [K1 K2].
    split; [exact K1|]. split; [exact K2|]. apply ci_set_type_keep. rewrite Ep. discriminate. }
  destruct (ci_get s_points d) as [[ex| | |]|] eqn:Eg; try discriminate.
  - destruct (calculate_depth ex) as [dep|e]; cbn [bind] in H; [|discriminate].
    unfold ci_get in Eg. destruct (kidsW_get _ _ _ Hd Eg) as [Hs|Hx]; [rewrite Ep, Sp in Hs; discriminate Hs|].
    cbn [PW] in Hx.
    destruct (if (dep =? 2)%Z then VList [ex] else ex) as [| | | | |l|] eqn:Eb; try discriminate.
    injection H as <-. apply Hset. cbn [sv].
    apply forallb_app_true; [|cbn [forallb]; rewrite Hn; reflexivity].
    destruct (dep =? 2)%Z.
    + injection Eb as <-. cbn [forallb]. rewrite Hx. reflexivity.
    + subst ex. exact Hx.
  - injection H as <-. apply Hset. exact Hn.
Qed.

Lemma ci_untyped_W ic st pos cm kn v s :
  stW st -> lower kn = kn -> s_type <> kn -> skipw kn = true \/ PW v ->
  ci_untyped ic st pos cm [(kn, v)] = Ok s -> stW s.
Proof.
  intros HI Hlow Hnt Hv H. unfold ci_untyped in H.
  destruct bk_consts_lower as (_ & _ & _ & _ & Ec & Ep & _). destruct skipw_consts as (_ & _ & Sc & _ & _ & Sp).
  destruct (str_eqb_spec kn s_config) as [->|Hnc].
  { apply process_config_inv in H. destruct H as (c & cfg & _ & D & _).
    destruct HI as (H1 & H2 & (ty & Ht & Hl)). unfold stW. rewrite D.
    destruct (kvW_ci_set s_config (TDict (DCI true) (cfg_fold cfg (cfg_cur (cs_dict st)))) (cs_dict st)
                (or_introl (eq_trans (f_equal skipw Ec) Sc)) (conj H1 H2)) as [K1 K2].
    split; [exact K1|]. split; [exact K2|]. exists ty. split; [|exact Hl].
    rewrite ci_set_type_keep; [exact Ht|rewrite Ec; discriminate]. }
  destruct (str_eqb_spec kn s_points) as [->|Hnp].
  { apply process_points_inv in H. destruct H as (nv & Ha & Hn & _).
    cbn [assoc] in Ha. rewrite str_eqb_refl in Ha. injection Ha as ->.
    destruct HI as (H1 & H2 & (ty & Ht & Hl)).
    destruct Hv as [Hv|Hv]; [rewrite Sp in Hv; discriminate Hv|].
    destruct (points_new_W _ _ _ H1 H2 Hv Hn) as (K1 & K2 & K3).
    split; [exact K1|]. split; [exact K2|]. exists ty. split; [rewrite K3; exact Ht|exact Hl]. }
  destruct (mem_str kn REPEATED_KEYS) eqn:Er.
  - cbv zeta in H. destruct (tv_list_append _ v) as [c1|e] eqn:A1; cbn [bind] in H; [|discriminate].
    injection H as <-. apply stW_ci_set; [exact HI| |rewrite Hlow; exact Hnt].
    destruct Hv as [Hv|Hv]; [left; rewrite Hlow; exact Hv|].
    eapply append_under_PW; [exact (proj1 HI)|exact Hv|exact A1].
  - cbv zeta in H. injection H as <-. apply stW_ci_set; [exact HI|rewrite Hlow; exact Hv|rewrite Hlow; exact Hnt].
Qed.

Lemma composite_item_W ic st d s : stW st -> PW d -> composite_item ic st d = Ok s -> stW s.
Proof.
  intros HI Hd H. rewrite composite_item_stages in H.
  destruct d as [| | |c items]; try discriminate.
  destruct (assoc s_type items) as [ty|] eqn:Et; [eapply ci_typed_W; eassumption|].
  destruct (assoc s_position items) as [[p| | |]|] eqn:Ep; try discriminate. cbn [bind] in H.
  apply PW_dict in Hd. destruct Hd as (Hk & Hkeys & _).
  destruct (items2_of items) as [|[kn v] [|? ?]] eqn:E2; try discriminate.
  assert (Hin : In (kn, v) items).
  { assert (Hin2 : In (kn, v) (items2_of items)) by (rewrite E2; left; reflexivity).
    unfold items2_of, items1_of in Hin2. do 3 apply In_od_del in Hin2. exact Hin2. }
  eapply ci_untyped_W; [exact HI| | | |exact H].
  - rewrite Forall_forall in Hkeys. apply Hkeys. eapply In_keys. exact Hin.
  - intros <-. apply (In_assoc_not_None _ _ _ Hin). exact Et.
  - unfold kidsW in Hk. rewrite Forall_forall in Hk. exact (Hk (kn, v) Hin).
Qed.

Lemma comp_fold_W ic l : forall st s, Forall PW l -> stW st -> comp_fold ic l (Ok st) = Ok s -> stW s.
Proof.
  induction l as [|d l IH]; intros st s HF HI H; cbn [comp_fold fold_left] in H.
  - injection H as <-. exact HI.
  - unfold comp_step at 2 in H. cbn [bind] in H.
    destruct (composite_item ic st d) as [st1|e] eqn:E1.
    + eapply IH; [exact (Forall_inv_tail HF)| |exact H].
      eapply composite_item_W; [exact HI|exact (Forall_inv HF)|exact E1].
    + fold (comp_fold ic l (Err e)) in H. rewrite comp_fold_err in H. discriminate.
Qed.

Lemma comp_finish_PW ic st x : stW st -> hk (cs_dict st) = Some s_type -> comp_finish ic st = Ok x -> PW x.
Proof.
  unfold comp_finish. cbv zeta. intros (Hd & Hkeys & (ty & Hty & Hl)) Hk H.
  destruct (cs_dict st) as [|[k1 v1] r1]; [discriminate|]. cbn [hk] in Hk. injection Hk as ->.
  injection H as <-. inversion Hd as [|? ? Hv1 Hr1]; subst.
  cbn [keys map fst] in Hkeys. inversion Hkeys as [|? ? L1 Lr]; subst.
  destruct bk_consts_lower as (E1 & E2 & _). destruct skipw_consts as (S1 & S2 & _).
  cbn [assoc] in Hty. rewrite str_eqb_refl in Hty.
  apply PW_dict. split; [|split].
  - constructor; [exact Hv1|]. apply Forall_app. split; [destruct (cs_pos st); repeat constructor; left; exact S1|].
    apply Forall_app. split; [destruct ic; repeat constructor; left; exact S2|exact Hr1].
  - unfold keys. cbn [map fst]. constructor; [exact L1|]. rewrite !map_app. apply Forall_app.
    split; [destruct (cs_pos st); repeat constructor; exact E1|].
    apply Forall_app. split; [destruct ic; repeat constructor; exact E2|exact Lr].
  - intros _. exists ty. split; [|exact Hl]. cbn [assoc]. rewrite str_eqb_refl. exact Hty.
Qed.

Lemma attrs_of_PW x : PW x -> Forall PW (attrs_of x).
Proof. intros H. unfold attrs_of. destruct x; try (constructor; [exact H|constructor]). apply PW_seq. exact H. Qed.

Lemma comp_init_W kn pd : lower kn = kn -> stW (comp_init kn pd).
Proof.
  intros Hl. destruct bk_consts_lower as (_ & _ & _ & E4 & _).
  unfold stW, comp_init. cbn [cs_dict]. unfold ci_set. rewrite E4. cbn [od_set od_mem app].
  split; [constructor; [right; reflexivity|constructor]|].
  split; [cbn [keys map fst]; constructor; [exact E4|constructor]|].
  exists kn. split; [cbn [assoc]; rewrite str_eqb_refl; reflexivity|exact Hl].
Qed.

Lemma cb_composite_PW ip ic t x : Forall PW t -> cb_composite ip ic t = Ok x -> PW x.
Proof.
  rewrite cb_composite_stages. intros HF H.
  destruct t as [|a [|b r]]; [discriminate| |].
  - injection H as <-. exact (Forall_inv HF).
  - destruct a as [| |[|[|key| |] l]|]; try discriminate. unfold comp_main in H.
    destruct (key_name key) as [kn|e] eqn:En; cbn [bind] in H; [|discriminate].
    destruct (comp_pd ip key) as [pd|e]; cbn [bind] in H; [|discriminate].
    destruct (comp_fold ic _ _) as [st|e] eqn:F1; cbn [bind] in H; [|discriminate].
    eapply comp_finish_PW; [| |exact H].
    + eapply comp_fold_W; [| |exact F1].
      * apply attrs_of_PW. exact (Forall_inv (Forall_inv_tail HF)).
      * apply comp_init_W. eapply key_name_lower. exact En.
    + eapply comp_fold_hk; [exact F1|apply comp_init_hk].
Qed.

(* ---------------------------------------------------------------- every callback *)
Lemma callback_PW ip ic d t x : Forall PW t -> callback ip ic d t = Ok x -> PW x.
Proof.
  intros HF H. unfold callback in H.
  repeat match type of H with
         | (if ?c then _ else _) = _ => destruct c
         end.
  all: try discriminate.
  all: first
    [ eapply cb_start_PW; eassumption
    | eapply cb_composite_PW; eassumption
    | eapply cb_attr_PW; eassumption
    | eapply cb_projection_PW; eassumption
    | eapply cb_config_PW; eassumption
    | eapply process_pair_lists_PW; eassumption
    | eapply process_value_pairs_PW; eassumption
    | eapply cb_comparison_PW; eassumption
    | eapply cb_binary_PW; eassumption
    | eapply cb_first_PW; eassumption
    | eapply cb_prefix_PW; eassumption
    | eapply cb_expression_PW; eassumption
    | eapply cb_func_call_PW; eassumption
    | eapply cb_func_params_PW; eassumption
    | eapply cb_attr_bind_PW; eassumption
    | eapply cb_len_PW; eassumption
    | eapply cb_bool_PW; eassumption
    | eapply cb_int_PW; eassumption
    | eapply cb_float_PW; eassumption
    | eapply cb_hexcolor_PW; eassumption
    | eapply cb_list_PW; eassumption
    | (injection H as <-; apply PW_seq; exact HF) ].
Qed.

(* ================================================================ trees *)
Fixpoint GW (g : gtree) : Prop :=
  match g with
  | GTok t => PW (TTok t)
  | GVal x => PW x
  | GNode d cs m => (fix go (l : list gtree) : Prop := match l with [] => True | c :: l' => GW c /\ go l' end) cs
  end.

Lemma GW_node d cs m : GW (GNode d cs m) <-> Forall GW cs.
Proof.
  cbn [GW]. induction cs as [|c l IH]; [split; [constructor|exact (fun _ => I)]|].
  rewrite IH. split; [intros [H1 H2]; constructor; assumption|intros H; inversion H; subst; tauto].
Qed.

Theorem tr_main_PW ip ic : forall g x, GW g -> tr_main ip ic g = Ok x -> PW x.
Proof.
  fix IH 1. intros g x HG H. destruct g as [t|d cs m|v].
  - cbn in H. injection H as <-. exact HG.
  - rewrite tr_main_node in H. apply GW_node in HG.
    destruct (tr_list ip ic cs) as [xs|e] eqn:L; cbn [bind] in H; [|discriminate].
    eapply callback_PW; [|exact H]. clear H. revert xs L.
    induction cs as [|c cs IHcs]; intros xs L.
    + cbn in L. injection L as <-. constructor.
    + cbn [tr_list] in L.
      destruct (tr_main ip ic c) as [x1|e] eqn:T1; cbn [bind] in L; [|discriminate].
      fold (tr_list ip ic cs) in L.
      destruct (tr_list ip ic cs) as [xs1|e] eqn:L1; cbn [bind] in L; [|discriminate].
      injection L as <-. constructor.
      * exact (IH c x1 (Forall_inv HG) T1).
      * apply IHcs; [exact (Forall_inv_tail HG)|reflexivity].
  - cbn in H. injection H as <-. exact HG.
Qed.

Lemma PW_set_comments c items v : PW (TDict c items) -> PW (TDict c (od_set s_comments (TVal v) items)).
Proof.
  intros H. apply PW_dict in H. destruct H as (Hk & Hl & Ht).
  destruct bk_consts_lower as (_ & E2 & _). destruct skipw_consts as (_ & S2 & _).
  apply PW_dict. split; [apply kidsW_set; [left; exact S2|exact Hk]|].
  split; [apply Forall_keys_set; [exact E2|exact Hl]|].
  intros Hc. destruct (Ht Hc) as (ty & Hty & Hlt). exists ty. split; [|exact Hlt].
  rewrite get_set_other by discriminate. exact Hty.
Qed.

Lemma comments_callback_GW ip g h : GW g -> comments_callback ip g = Ok h -> GW h.
Proof.
  intros HG H. rewrite comments_callback_stages in H.
  destruct g as [t|d cs m|v]; try (injection H as <-; exact HG).
  destruct (d =? CB_attr).
  { destruct (tr_main ip true _) as [r|e] eqn:T1; cbn [bind] in H; [|discriminate].
    pose proof (tr_main_PW ip true _ _ HG T1) as Hr.
    destruct r as [| | |c items]; try discriminate. injection H as <-. cbn [GW].
    apply PW_set_comments. exact Hr. }
  destruct (d =? CB_projection).
  { destruct (tr_main ip true _) as [r|e] eqn:T1; cbn [bind] in H; [|discriminate].
    pose proof (tr_main_PW ip true _ _ HG T1) as Hr.
    destruct r as [| | |c items]; try discriminate. cbn [cc_projection] in H.
    destruct (has_comments m); injection H as <-; cbn [GW]; [apply PW_set_comments|]; exact Hr. }
  destruct (d =? CB_composite).
  { destruct (tr_main ip true _) as [r|e] eqn:T1; cbn [bind] in H; [|discriminate].
    pose proof (tr_main_PW ip true _ _ HG T1) as Hr.
    destruct r as [| | |c items]; try discriminate. cbn [cc_composite] in H.
    destruct (cc_dictlike _).
    - unfold cc_dict in H. cbv zeta in H.
      destruct (cc_cm2 _ _ _) as [cm2|e]; cbn [bind] in H; [|discriminate].
      injection H as <-. cbn [GW]. rewrite cc_setk_comments. apply PW_set_comments. exact Hr.
    - apply cc_nondict_inv in H. subst h. exact Hr. }
  injection H as <-. exact HG.
Qed.

Theorem ctr_GW ip : forall g h, GW g -> ctr ip g = Ok h -> GW h.
Proof.
  fix IH 1. intros g h HG H.
  destruct g as [t|d cs m|v]; try (cbn in H; injection H as <-; exact HG).
  rewrite ctr_node in H. apply GW_node in HG.
  destruct (ctr_list ip cs) as [xs|e] eqn:L; cbn [bind] in H; [|discriminate].
  injection H as <-. apply GW_node.
  revert xs L. induction cs as [|c cs IHcs]; intros xs L.
  - cbn in L. injection L as <-. constructor.
  - cbn [ctr_list] in L.
    destruct (ctr ip c) as [c1|e] eqn:T1; cbn [bind] in L; [|discriminate].
    destruct (comments_callback ip c1) as [c2|e] eqn:K1; cbn [bind] in L; [|discriminate].
    fold (ctr_list ip cs) in L.
    destruct (ctr_list ip cs) as [xs1|e] eqn:L1; cbn [bind] in L; [|discriminate].
    injection L as <-. constructor.
    + eapply comments_callback_GW; [|exact K1]. eapply IH; [exact (Forall_inv HG)|exact T1].
    + apply IHcs; [exact (Forall_inv_tail HG)|reflexivity].
Qed.

Lemma GW_gtree_of : forall t, GW (gtree_of t).
Proof.
  fix IH 1. intros t. destruct t as [tk|d cs m]; [reflexivity|].
  cbn [gtree_of]. apply GW_node. induction cs as [|c cs IHcs]; [constructor|].
  cbn [map]. constructor; [apply IH|exact IHcs].
Qed.

Lemma GW_canonize g : GW g -> GW (canonize g).
Proof.
  intros HG. destruct g as [t|d cs m|v]; try exact HG. cbn [canonize].
  destruct (d =? CB_symbolset); [|exact HG]. apply GW_node in HG. apply GW_node.
  constructor; [|exact HG]. apply GW_node. constructor; [reflexivity|constructor].
Qed.

Theorem transform_PW ip ic t x : transform ip ic t = Ok x -> PW x.
Proof.
  intros H. unfold transform in H.
  pose proof (GW_canonize _ (GW_gtree_of t)) as HG.
  destruct ic; [|eapply tr_main_PW; eassumption].
  destruct (ctr ip _) as [g1|e] eqn:C1; cbn [bind] in H; [|discriminate].
  destruct (comments_callback ip g1) as [g2|e] eqn:K1; cbn [bind] in H; [|discriminate].
  eapply tr_main_PW; [|exact H]. eapply comments_callback_GW; [|exact K1]. eapply ctr_GW; [exact HG|exact C1].
Qed.

(* ================================================================ final data *)
Lemma sv_WS : forall v, sv v = true -> WS v.
Proof.
  induction v as [| | | | |l IH|c items IH] using value_ind'; try (intros; exact I); try discriminate.
  cbn [sv]. intros H. apply WS_list. rewrite forallb_forall in H. rewrite Forall_forall in *.
  intros y Hy. apply IH; [exact Hy|apply H; exact Hy].
Qed.

Theorem PW_WS : forall x, PW x -> WS (tvv x).
Proof.
  induction x as [v|t|l IH|c items IH] using tv_ind'.
  - cbn [PW tvv]. apply sv_WS.
  - intros _. exact I.
  - intros H. apply PW_seq in H. cbn [tvv]. apply WS_list.
    rewrite Forall_forall in *. intros y Hy. apply in_map_iff in Hy. destruct Hy as (w & <- & Hw).
    apply IH; [exact Hw|apply H; exact Hw].
  - intros H. apply PW_dict in H. destruct H as (Hk & Hl & Ht). cbn [tvv]. apply WS_dict. split; [|split].
    + unfold kidsW in Hk. rewrite Forall_forall in *. intros kv Hkv.
      apply in_map_iff in Hkv. destruct Hkv as (w & <- & Hw). cbn [fst snd].
      destruct (Hk w Hw) as [Hs|Hp]; [left; exact Hs|right; apply IH; assumption].
    + fold (tvi items). rewrite keys_tvi. exact Hl.
    + intros Hc. destruct (Ht Hc) as (ty & Hty & Hlt). exists ty. split; [|exact Hlt].
      fold (tvi items). rewrite assoc_tvi, Hty. reflexivity.
Qed.

(* every value loads returns, with any flags, has the unguarded shape [WS] *)
Theorem loads_WS : forall ip ic text v, loads ip ic text = Ok v -> WS v.
Proof.
  intros ip ic text v H. unfold loads in H.
  destruct (parse_tree ic text) as [t|e]; cbn [bind] in H; [|discriminate].
  destruct (transform ip ic t) as [x|e] eqn:Ex; cbn [bind] in H; [|discriminate].
  rewrite tv_to_value_tvv in H. injection H as <-. apply PW_WS. eapply transform_PW. exact Ex.
Qed.
