(* Proofs for property C16 (pretty-printer layout contract). *)
From MF Require Import Lib.Base Lib.PyDict Lib.Json Gen.Tokens Model.Case Model.Quoter Model.PPrint
  Spec.Layout Proofs.PPrintFacts.
Open Scope nat_scope.

(* ------------------------------------------------------------ arithmetic *)
Lemma first_multiple_past_formula i L : 1 <= i -> first_multiple_past i L ((L / i + 1) * i).
Proof.
  intros Hi. unfold first_multiple_past.
  assert (Hne : i <> 0) by lia.
  pose proof (Nat.div_mod L i Hne) as Hd.
  pose proof (Nat.mod_upper_bound L i Hne) as Hm.
  split; [apply Nat.mod_mul; exact Hne|]. nia.
Qed.

Lemma first_multiple_past_unique i L c1 c2 :
  1 <= i -> first_multiple_past i L c1 -> first_multiple_past i L c2 -> c1 = c2.
Proof.
  intros Hi (M1 & A1 & B1) (M2 & A2 & B2).
  assert (Hne : i <> 0) by lia.
  apply Nat.mod_divides in M1; [|exact Hne]. apply Nat.mod_divides in M2; [|exact Hne].
  destruct M1 as (q1 & ->), M2 as (q2 & ->).
  assert (q1 = q2) by nia. subst. reflexivity.
Qed.

Lemma compute_aligned_formula o L :
  compute_aligned_max_indent o L = (L / Nat.max 1 (indent o) + 1) * Nat.max 1 (indent o).
Proof. reflexivity. Qed.

Lemma compute_aligned_spec o L :
  first_multiple_past (Nat.max 1 (indent o)) L (compute_aligned_max_indent o L).
Proof. rewrite compute_aligned_formula. apply first_multiple_past_formula. lia. Qed.

(* ------------------------------------------------------------ model strings = spec strings *)
Lemma copies_repeat s n : copies s n = repeat_str s n.
Proof. induction n as [|n IH]; cbn [copies repeat_str]; [reflexivity|]. rewrite IH. reflexivity. Qed.

Lemma join_lines_join nl l : join_lines nl l = join nl l.
Proof.
  induction l as [|x l IH]; [reflexivity|]. cbn [join_lines join]. destruct l; [reflexivity|].
  rewrite IH. reflexivity.
Qed.

Lemma whitespace_margin o level ind :
  whitespace o level ind = margin (indent o) (spacer o) (level + ind).
Proof.
  unfold whitespace, self_spacer, margin.
  exact (repeat_repeat (spacer o) (indent o) (level + ind)).
Qed.

Lemma add_end_line_spec o level ind key :
  add_end_line o level ind key = end_line (indent o) (spacer o) (end_comment o) (level + ind) (upper key).
Proof.
  unfold add_end_line, end_line. rewrite whitespace_margin.
  destruct (end_comment o); [rewrite <- app_assoc|rewrite app_nil_r]; reflexivity.
Qed.

(* ------------------------------------------------------------ facts about words *)
Lemma starts_nonblank_app a b : starts_nonblank a = true -> starts_nonblank (a ++ b) = true.
Proof. destruct a; cbn; [discriminate|auto]. Qed.

Lemma startswith_prefix s p p' : startswith s (p ++ p') = true -> startswith s p = true.
Proof.
  revert s; induction p as [|c p IH]; intros s H; cbn [app startswith] in *; [destruct s; reflexivity|].
  destruct s as [|x s]; [discriminate|]. cbn [startswith] in *.
  apply andb_true_iff in H. destruct H as [H1 H2].
  rewrite H1, (IH _ H2). reflexivity.
Qed.

Lemma end_like_app u r : not_end_prefix u = true -> end_like (u ++ r) = false.
Proof.
  unfold not_end_prefix, end_like. intros H. apply andb_true_iff in H. destruct H as [H1 H2].
  apply negb_true_iff in H1. apply negb_true_iff in H2.
  apply orb_false_iff. split.
  - apply str_eqb_neq. intros E.
    assert (S1 : startswith (u ++ r) end_word = true) by (rewrite E; apply startswith_refl).
    apply startswith_app_cases in S1. destruct S1; congruence.
  - destruct (startswith (u ++ r) (Str "END #")) eqn:E; [|reflexivity].
    assert (S1 : startswith (u ++ r) end_word = true)
      by (apply (startswith_prefix _ end_word (Str " #")); exact E).
    apply startswith_app_cases in S1. destruct S1; congruence.
Qed.

Definition has_chr (c : N) (s : str) : bool := existsb (N.eqb c) s.

Lemma has_chr_app c a b : has_chr c (a ++ b) = has_chr c a || has_chr c b.
Proof. unfold has_chr. apply existsb_app. Qed.

Definition openers_clean : bool :=
  forallb (fun w => negb (has_chr 32 w) && negb (has_chr 34 w) && negb (has_chr 39 w)) openers.

Lemma openers_clean_ok : openers_clean = true.
Proof. vm_compute. reflexivity. Qed.

Lemma opener_like_false body c :
  (c = 32 \/ c = 34 \/ c = 39)%N -> has_chr c body = true -> opener_like body = false.
Proof.
  intros Hc Hb. unfold opener_like. destruct (mem_str body openers) eqn:E; [|reflexivity].
  apply mem_str_In in E. pose proof openers_clean_ok as Hk. unfold openers_clean in Hk.
  rewrite forallb_forall in Hk. specialize (Hk _ E).
  apply andb_true_iff in Hk. destruct Hk as [Hk H3]. apply andb_true_iff in Hk. destruct Hk as [H1 H2].
  apply negb_true_iff in H1, H2, H3.
  destruct Hc as [->|[->| ->]]; congruence.
Qed.

Lemma quote_cases o : quote_ok o = true -> (quote o = 34 \/ quote o = 39)%N.
Proof.
  unfold quote_ok, c_sq, c_dq. intros H. apply orb_true_iff in H.
  destruct H as [H|H]; apply N.eqb_eq in H; auto.
Qed.

(* a line that begins with the quote character *)
Lemma quoted_body_ok q rest :
  (q = 34 \/ q = 39)%N ->
  starts_nonblank (q :: rest) = true /\ end_like (q :: rest) = false /\ opener_like (q :: rest) = false.
Proof.
  intros Hq. split; [|split].
  - destruct Hq as [-> | ->]; reflexivity.
  - destruct Hq as [-> | ->]; reflexivity.
  - apply (opener_like_false _ q); [tauto|]. cbn. rewrite N.eqb_refl. reflexivity.
Qed.

(* ------------------------------------------------------------ numbers start with a digit, a sign or a bracket *)
Open Scope N_scope.
Definition digit (c : N) : Prop := 48 <= c <= 57.
Definition num_head (c : N) : Prop := c = 45 \/ c = 91 \/ digit c.

Lemma digit_mod10 n : digit (48 + n mod 10).
Proof.
  unfold digit. assert (H : n mod 10 < 10) by (apply N.mod_upper_bound; discriminate).
  revert H. generalize (n mod 10). intros. lia.
Qed.

Lemma digits_fuel_digits f n acc : Forall digit acc -> Forall digit (digits_fuel f n acc).
Proof.
  revert n acc; induction f as [|f IH]; intros n acc H; cbn [digits_fuel]; [exact H|].
  assert (H' : Forall digit ((48 + n mod 10) :: acc)).
  { constructor; [apply digit_mod10|exact H]. }
  destruct (n / 10 =? 0); [exact H'|apply IH; exact H'].
Qed.

Lemma digits_fuel_nonempty f n acc : acc <> [] -> digits_fuel f n acc <> [].
Proof.
  revert n acc; induction f as [|f IH]; intros n acc H; cbn [digits_fuel]; [exact H|].
  destruct (n / 10 =? 0); [discriminate|apply IH; discriminate].
Qed.

Lemma digits_N_head n : exists d rest, digits_N n = d :: rest /\ digit d.
Proof.
  unfold digits_N. cbn [digits_fuel].
  set (acc := [48 + n mod 10]).
  assert (Hd : Forall digit acc).
  { constructor; [apply digit_mod10|constructor]. }
  destruct (n / 10 =? 0).
  - exists (48 + n mod 10), []. split; [reflexivity|]. inversion Hd; assumption.
  - pose proof (digits_fuel_digits (N.size_nat n) (n / 10) acc Hd) as HF.
    pose proof (digits_fuel_nonempty (N.size_nat n) (n / 10) acc ltac:(discriminate)) as HN.
    destruct (digits_fuel (N.size_nat n) (n / 10) acc) as [|d rest]; [congruence|].
    exists d, rest. split; [reflexivity|]. inversion HF; assumption.
Qed.

Lemma py_str_int_head z : exists c rest, py_str_int z = c :: rest /\ num_head c.
Proof.
  destruct z as [|p|p]; cbn [py_str_int].
  - exists 48, []. split; [reflexivity|]. right; right. unfold digit. lia.
  - destruct (digits_N_head (Npos p)) as (d & rest & -> & Hd). exists d, rest. split; [reflexivity|]. right; right; exact Hd.
  - eexists 45, _. split; [reflexivity|]. left; reflexivity.
Qed.

Lemma py_float_repr_head m e : exists c rest, py_float_repr m e = c :: rest /\ num_head c.
Proof.
  unfold py_float_repr.
  destruct (digits_N_head (Z.abs_N m)) as (d & ds & -> & Hd).
  set (n := Z.of_nat (length (d :: ds))). set (decpt := (n + e)%Z).
  assert (Hdg : num_head d) by (right; right; exact Hd).
  assert (H0 : num_head 48) by (right; right; unfold digit; lia).
  assert (Hm : num_head 45) by (left; reflexivity).
  destruct (m =? 0)%Z; [exists 48, (Str ".0"); split; [reflexivity|exact H0]|].
  destruct ((decpt <=? -4)%Z || (16 <? decpt)%Z)%bool.
  - destruct (m <? 0)%Z; cbn [app]; [eexists 45, _|eexists d, _]; (split; [reflexivity|assumption]).
  - destruct (decpt <=? 0)%Z eqn:E0.
    + destruct (m <? 0)%Z; cbn [app]; [eexists 45, _|eexists 48, _]; (split; [reflexivity|assumption]).
    + destruct (n <=? decpt)%Z.
      * destruct (m <? 0)%Z; cbn [app]; [eexists 45, _|eexists d, _]; (split; [reflexivity|assumption]).
      * apply Z.leb_gt in E0.
        destruct (Z.to_nat decpt) as [|k] eqn:Ek; [lia|].
        destruct (m <? 0)%Z; cbn [firstn app]; [eexists 45, _|eexists d, _]; (split; [reflexivity|assumption]).
Qed.

Lemma py_str_num_head a : num_tree a = true -> exists c rest, py_str a = c :: rest /\ num_head c.
Proof.
  destruct a; cbn [num_tree]; try discriminate; intros _.
  - apply py_str_int_head.
  - apply py_float_repr_head.
  - eexists 91, _. split; [reflexivity|]. right; left; reflexivity.
Qed.

Lemma num_head_ok c rest :
  num_head c -> starts_nonblank (c :: rest) = true /\ end_like (c :: rest) = false.
Proof.
  unfold num_head, digit. intros H. split.
  - cbn [starts_nonblank]. unfold blank.
    destruct (N.eqb_spec c 32); [lia|]. cbn [orb].
    destruct (N.leb_spec 9 c); cbn [andb]; [|reflexivity].
    destruct (N.leb_spec c 13); [lia|reflexivity].
  - unfold end_like, end_word. cbn.
    destruct (N.eqb_spec c 69); [lia|]. reflexivity.
Qed.
Close Scope N_scope.

(* ------------------------------------------------------------ derivations of annotated lines *)
Section Structure.
  Variable o : opts.
  Hypothesis Hquote : quote_ok o = true.

  Notation item' := (item (indent o) (spacer o) (end_comment o)).
  Notation items' := (items (indent o) (spacer o) (end_comment o)).
  Notation block' := (block (indent o) (spacer o) (end_comment o)).
  Notation mg := (margin (indent o) (spacer o)).
  Notation endl := (end_line (indent o) (spacer o) (end_comment o)).

  Definition lay (P : list (nat * str) -> Prop) (lines : list str) : Prop :=
    exists al, P al /\ map snd al = lines.

  Lemma items_app d a b : items' d a -> items' d b -> items' d (a ++ b).
  Proof.
    intros Ha Hb. induction Ha as [d|d x y Hx Hy IH]; [exact Hb|].
    rewrite <- app_assoc. constructor; [exact Hx|apply IH; exact Hb].
  Qed.

  Lemma lay_nil d : lay (items' d) [].
  Proof. exists []. split; [constructor|reflexivity]. Qed.

  Lemma lay_app d a b : lay (items' d) a -> lay (items' d) b -> lay (items' d) (a ++ b).
  Proof.
    intros (x & Hx & <-) (y & Hy & <-). exists (x ++ y). split; [apply items_app; assumption|apply map_app].
  Qed.

  Lemma lay_concat d ls : Forall (lay (items' d)) ls -> lay (items' d) (concat ls).
  Proof.
    induction 1 as [|l ls Hl _ IH]; cbn [concat]; [apply lay_nil|apply lay_app; assumption].
  Qed.

  Lemma lay_item_items d a : lay (item' d) a -> lay (items' d) a.
  Proof.
    intros (x & Hx & <-). exists x. split; [|reflexivity].
    rewrite <- (app_nil_r x). constructor; [exact Hx|constructor].
  Qed.

  Lemma lay_block_item d b : lay (block' d) b -> lay (item' d) b.
  Proof. intros (x & Hx & <-). exists x. split; [constructor; exact Hx|reflexivity]. Qed.

  Lemma lay_line d body :
    starts_nonblank body = true -> end_like body = false -> opener_like body = false ->
    lay (item' d) [mg d ++ body].
  Proof. intros H1 H2 H3. exists [(d, mg d ++ body)]. split; [constructor; assumption|reflexivity]. Qed.

  Lemma lay_block d name body :
    starts_nonblank name = true -> end_like name = false -> lay (items' (S d)) body ->
    lay (block' d) ((mg d ++ name) :: body ++ [endl d name]).
  Proof.
    intros H1 H2 (x & Hx & <-).
    exists ((d, mg d ++ name) :: x ++ [(d, endl d name)]). split; [constructor; assumption|].
    cbn [map snd]. rewrite map_app. reflexivity.
  Qed.

  Lemma lay_lines d ls : Forall (fun l => lay (item' d) [l]) ls -> lay (items' d) ls.
  Proof.
    induction 1 as [|l ls Hl _ IH]; [apply lay_nil|].
    change (l :: ls) with ([l] ++ ls). apply lay_app; [apply lay_item_items; exact Hl|exact IH].
  Qed.

  (* ---------------------------------------------------------- block words *)
  Lemma block_word_ok t : block_word t = true ->
    starts_nonblank (upper t) = true /\ end_like (upper t) = false.
  Proof.
    unfold block_word. intros H. apply andb_true_iff in H. destruct H as [H1 H2].
    apply negb_true_iff in H2. tauto.
  Qed.

  Lemma start_line_spec key level : add_start_line o key level = mg (S level) ++ upper key.
  Proof. unfold add_start_line. rewrite whitespace_margin, Nat.add_1_r. reflexivity. Qed.

  Lemma end_line_spec1 key level : add_end_line o level 1 key = endl (S level) (upper key).
  Proof. rewrite add_end_line_spec, Nat.add_1_r. reflexivity. Qed.

  (* ---------------------------------------------------------- PATTERN / POINTS *)
  Lemma format_pair_lay d p line :
    format_pair (mg d) p = Ok line -> num_tree p = true -> lay (item' d) [line].
  Proof.
    unfold format_pair. intros H Hn.
    apply bind_Ok in H. destruct H as (a & Ha & H). apply bind_Ok in H. destruct H as (b & Hb & H).
    injection H as <-.
    assert (Hna : num_tree a = true).
    { destruct p; cbn [num_tree py_index] in *; try discriminate.
      destruct (nth_error l 0) eqn:E; [|discriminate]. injection Ha as ->.
      apply nth_error_In in E. rewrite forallb_forall in Hn. apply Hn. exact E. }
    destruct (py_str_num_head a Hna) as (c & rest & -> & Hc).
    destruct (num_head_ok c (rest ++ [c_sp] ++ py_str b) Hc) as [H1 H2].
    apply lay_line; cbn [app]; [exact H1|exact H2|].
    apply (opener_like_false _ 32%N); [tauto|].
    apply existsb_exists. exists 32%N. split; [|reflexivity].
    right. apply in_or_app. right. left. reflexivity.
  Qed.

  Lemma list_spacer_margin level : repeat_str (self_spacer o) (level + 2) = mg (S (S level)).
  Proof. change (repeat_str (self_spacer o) (level + 2)) with (whitespace o level 2).
         rewrite whitespace_margin. f_equal. lia. Qed.

  Lemma format_pair_list_lay key v level ls :
    format_pair_list o key v level = Ok ls -> num_tree v = true -> block_word key = true ->
    lay (block' (S level)) ls.
  Proof.
    unfold format_pair_list. intros H Hn Hk.
    apply bind_Ok in H. destruct H as (l & Hl & H). apply bind_Ok in H. destruct H as (pairs & Hp & H).
    injection H as <-. destruct (block_word_ok _ Hk) as [K1 K2].
    rewrite start_line_spec, end_line_spec1. cbn [app].
    apply lay_block; [exact K1|exact K2|].
    apply lay_lines. apply mapM_Ok in Hp. rewrite list_spacer_margin in Hp.
    assert (Hall : Forall (fun p => num_tree p = true) l).
    { destruct v; cbn [py_iter num_tree] in *; try discriminate.
      injection Hl as <-. apply Forall_forall. rewrite forallb_forall in Hn. exact Hn. }
    clear Hl. induction Hp as [|p line l' ls' Hpl _ IH]; [constructor|].
    inversion Hall; subst. constructor; [eapply format_pair_lay; eassumption|apply IH; assumption].
  Qed.

  Lemma format_repeated_pair_list_lay key v level ls :
    format_repeated_pair_list o key v level = Ok ls -> num_tree v = true -> block_word key = true ->
    lay (items' (S level)) ls.
  Proof.
    unfold format_repeated_pair_list. intros H Hn Hk.
    apply bind_Ok in H. destruct H as (dp & _ & H). apply bind_Ok in H. destruct H as (parts & Hp & H).
    apply bind_Ok in H. destruct H as (lss & Hl & H). injection H as <-.
    apply lay_concat. apply mapM_Ok in Hl.
    assert (Hall : Forall (fun p => num_tree p = true) parts).
    { destruct (dp =? 2).
      - injection Hp as <-. constructor; [exact Hn|constructor].
      - destruct v; cbn [py_iter num_tree] in *; try discriminate.
        injection Hp as <-. apply Forall_forall. rewrite forallb_forall in Hn. exact Hn. }
    clear Hp. induction Hl as [|p x l' ls' Hpx _ IH]; [constructor|].
    inversion Hall; subst. constructor; [|apply IH; assumption].
    apply lay_item_items, lay_block_item. eapply format_pair_list_lay; eassumption.
  Qed.

  (* ---------------------------------------------------------- no comments *)
  Lemma lower_comments_key : lower (Str "__comments__") = Str "__comments__".
  Proof. vm_compute. reflexivity. Qed.

  Lemma lower_type_key : lower (Str "__type__") = Str "__type__".
  Proof. vm_compute. reflexivity. Qed.

  Definition no_cm : value := VDict DPlain [].

  Lemma comments_of_none c its : no_comments its = true -> comments_of c its = no_cm.
  Proof.
    unfold no_comments, comments_of, dict_get. intros H. apply negb_true_iff in H.
    assert (E : kfold_in c (Str "__comments__") = Str "__comments__")
      by (destruct c; cbn [kfold_in]; [reflexivity|reflexivity|apply lower_comments_key]).
    rewrite E. rewrite od_mem_assoc in H. destruct (assoc _ its); [discriminate|reflexivity].
  Qed.

  Lemma attr_comment_none k : process_attribute_comment no_cm k = Ok [].
  Proof. reflexivity. Qed.

  Lemma type_comment_none level : _add_type_comment o level no_cm = Ok [].
  Proof. reflexivity. Qed.

  (* ---------------------------------------------------------- key-value blocks *)
  Lemma ws2_margin level : whitespace o level 2 = mg (S (S level)).
  Proof. rewrite whitespace_margin. f_equal. lia. Qed.

  Lemma ws1_margin level : whitespace o level 1 = mg (S level).
  Proof. rewrite whitespace_margin. f_equal. lia. Qed.

  Lemma process_dict_lines_lay level aligned l ls :
    process_dict_lines o level aligned no_cm l = Ok ls -> lay (items' (S (S level))) ls.
  Proof.
    revert ls; induction l as [|[k v] l IH]; intros ls H; cbn [process_dict_lines] in H.
    - injection H as <-. apply lay_nil.
    - destruct (is_metadata k); [apply IH; exact H|].
      rewrite attr_comment_none in H. cbn [bind] in H.
      apply bind_Ok in H. destruct H as (rest & Hr & H). injection H as <-.
      change (?x :: rest) with ([x] ++ rest). apply lay_app; [|apply IH; exact Hr].
      apply lay_item_items. rewrite app_nil_r. unfold format_line. rewrite ws2_margin.
      unfold add_quotes at 1, _add_quotes. cbn [app].
      destruct (quoted_body_ok (quote o)
                  ((k ++ [quote o]) ++ repeat_str [c_sp]
                     ((if aligned =? 0 then length (quote o :: k ++ [quote o]) + 1 else aligned)
                      - length (quote o :: k ++ [quote o])) ++ add_quotes_v (quote o) v)
                  (quote_cases o Hquote)) as (Q1 & Q2 & Q3).
      apply lay_line; assumption.
  Qed.

  Lemma process_key_dict_lay key v level ls :
    process_key_dict o key v level = Ok ls ->
    match v with VDict _ kvs => no_comments kvs = true | _ => True end ->
    block_word key = true ->
    lay (block' (S level)) ls.
  Proof.
    unfold process_key_dict. destruct v as [| | | | | |c kvs]; try discriminate. intros H Hn Hk.
    fold (comments_of c kvs) in H. rewrite (comments_of_none c kvs Hn) in H.
    rewrite type_comment_none in H. cbn [bind] in H.
    apply bind_Ok in H. destruct H as (body & Hb & H). injection H as <-.
    destruct (block_word_ok _ Hk) as [K1 K2].
    rewrite start_line_spec, end_line_spec1. cbn [app].
    apply lay_block; [exact K1|exact K2|].
    unfold process_dict in Hb. eapply process_dict_lines_lay; exact Hb.
  Qed.

  (* ---------------------------------------------------------- PROJECTION *)
  Lemma auto_not_opener : opener_like (Str "AUTO") = false.
  Proof. vm_compute. reflexivity. Qed.

  Lemma process_projection_lay key v level ls :
    process_projection o key v level [] = Ok ls -> block_word key = true ->
    lay (block' (S level)) ls.
  Proof.
    unfold process_projection. intros H Hk.
    apply bind_Ok in H. destruct H as (body & Hb & H). injection H as <-.
    destruct (block_word_ok _ Hk) as [K1 K2].
    rewrite start_line_spec, end_line_spec1. cbn [app].
    apply lay_block; [exact K1|exact K2|].
    rewrite ws2_margin in Hb.
    assert (Hq : forall rest, lay (item' (S (S level))) [mg (S (S level)) ++ quote o :: rest]).
    { intros rest. destruct (quoted_body_ok (quote o) rest (quote_cases o Hquote)) as (Q1 & Q2 & Q3).
      apply lay_line; assumption. }
    destruct v as [| | | |s| |].
    all: try (apply bind_Ok in Hb; destruct Hb as (n & Hn & _); discriminate Hn).
    { injection Hb as <-. apply lay_lines. constructor; [apply Hq|constructor]. }
    all: apply bind_Ok in Hb; destruct Hb as (n & Hn & Hb);
      apply bind_Ok in Hb; destruct Hb as (is_auto & Ha & Hb); destruct is_auto.
    all: try (injection Hb as <-; apply lay_lines; constructor; [|constructor];
              apply lay_line; [reflexivity|reflexivity|exact auto_not_opener]).
    all: apply bind_Ok in Hb; destruct Hb as (l0 & Hl & Hb); injection Hb as <-;
      apply lay_lines; apply Forall_forall; intros x Hx; apply in_map_iff in Hx;
      destruct Hx as (y & <- & _); apply Hq.
  Qed.

  (* ---------------------------------------------------------- keyword lines *)
  Lemma key_word_ok k : key_word k = true ->
    starts_nonblank (upper k) = true /\ not_end_prefix (upper k) = true /\ length (upper k) <= length k.
  Proof.
    unfold key_word. intros H. apply andb_true_iff in H. destruct H as [H H3].
    apply andb_true_iff in H. destruct H as [H1 H2]. apply Nat.leb_le in H3. tauto.
  Qed.

  Lemma repeated_keys_words : forallb key_word REPEATED_KEYS = true.
  Proof. vm_compute. reflexivity. Qed.

  Lemma key_value_block_words : forallb block_word key_value_blocks = true.
  Proof. vm_compute. reflexivity. Qed.

  Lemma process_repeated_list_lay key v level aligned ls :
    process_repeated_list o key v level aligned = Ok ls -> mem_str key REPEATED_KEYS = true ->
    lay (items' (S level)) ls.
  Proof.
    unfold process_repeated_list. intros H Hk.
    apply bind_Ok in H. destruct H as (l & _ & H). injection H as <-.
    pose proof repeated_keys_words as W. rewrite forallb_forall in W.
    apply mem_str_In in Hk. destruct (key_word_ok _ (W _ Hk)) as (K1 & K2 & _).
    apply lay_lines. apply Forall_forall. intros x Hx. apply in_map_iff in Hx.
    destruct Hx as (y & <- & _). unfold format_line. rewrite ws1_margin.
    apply lay_line.
    - apply starts_nonblank_app. exact K1.
    - apply end_like_app. exact K2.
    - apply (opener_like_false _ (quote o)); [destruct (quote_cases o Hquote); tauto|].
      unfold add_quotes_v, add_quotes, _add_quotes. apply existsb_exists. exists (quote o).
      split; [|apply N.eqb_refl]. apply in_or_app. right. apply in_or_app. right. left. reflexivity.
  Qed.

  Lemma process_config_dict_lay v level ls :
    process_config_dict o v level = Ok ls -> lay (items' (S level)) ls.
  Proof.
    unfold process_config_dict. destruct v; try discriminate. intros [= <-].
    apply lay_lines. apply Forall_forall. intros x Hx. apply in_map_iff in Hx.
    destruct Hx as (y & <- & _). unfold format_line. rewrite ws1_margin.
    apply lay_line; [reflexivity|reflexivity|].
    apply (opener_like_false _ 32%N); [tauto|]. reflexivity.
  Qed.

  Lemma keyword_line_lay type_ k v level aligned line :
    process_attribute o type_ k v level aligned = Ok line -> key_word k = true ->
    (aligned = 0 \/ length k < aligned) ->
    lay (items' (S level)) [line ++ []].
  Proof.
    unfold process_attribute. intros H Hk Hal.
    apply bind_Ok in H. destruct H as (props & _ & H). apply bind_Ok in H. destruct H as (v1 & _ & H).
    injection H as <-. destruct (key_word_ok _ Hk) as (K1 & K2 & K3).
    apply lay_item_items. rewrite app_nil_r. unfold format_line. rewrite ws1_margin.
    apply lay_line.
    - apply starts_nonblank_app. exact K1.
    - apply end_like_app. exact K2.
    - apply (opener_like_false _ 32%N); [tauto|].
      assert (Hpad : exists n, (if aligned =? 0 then length (upper k) + 1 else aligned) - length (upper k) = S n).
      { destruct (Nat.eqb_spec aligned 0) as [E|E].
        - exists 0. lia.
        - destruct Hal as [?|Hlt]; [congruence|].
          exists (aligned - length (upper k) - 1). lia. }
      destruct Hpad as (n & ->). cbn [repeat_str].
      apply existsb_exists. exists 32%N. split; [|reflexivity].
      apply in_or_app. right. left. reflexivity.
  Qed.
End Structure.

(* ------------------------------------------------------------ the loop of _format, by block kind *)
Lemma is_composite_has_type v : is_composite v = has_type v.
Proof.
  destruct v as [| | | | | |c its]; try reflexivity. unfold is_composite, has_type, dict_in.
  destruct c; cbn [kfold_in]; [reflexivity|reflexivity|rewrite lower_type_key; reflexivity].
Qed.

Lemma format_item_kind o rec type_ comments level aligned k v :
  format_item o rec type_ comments level aligned k v =
  match kind_of k v with
  | KHidden => Ok ([], v)
  | KChildren =>
      match v with
      | VList vs => do rs <- mapM rec vs; Ok (concat (map fst rs), VList (map snd rs))
      | _ => Ok ([], v)
      end
  | KPairs => do ls <- format_pair_list o k v level; Ok (ls, v)
  | KKeyValue => do ls <- process_key_dict o k v level; Ok (ls, v)
  | KProjection =>
      do pc <- process_attribute_comment comments k;
      do ls <- process_projection o k v level pc; Ok (ls, v)
  | KRepeated => do ls <- process_repeated_list o k v level aligned; Ok (ls, v)
  | KPoints => do ls <- format_repeated_pair_list o k v level; Ok (ls, v)
  | KConfig => do ls <- process_config_dict o v level; Ok (ls, v)
  | KChild => rec v
  | KKeyword =>
      match type_ with
      | [] => Err PyUnboundLocalError
      | _ =>
          do line <- process_attribute o type_ k v level aligned;
          do cm <- process_attribute_comment comments k;
          Ok ([line ++ cm], v)
      end
  end.
Proof.
  unfold format_item, kind_of. rewrite is_composite_has_type.
  change (is_metadata k) with (hidden_key k).
  change (is_hidden_container k v) with (mem_str k OBJECT_LIST_KEYS && is_list v).
  change key_dict_names with key_value_blocks.
  destruct (hidden_key k); [reflexivity|].
  destruct (mem_str k OBJECT_LIST_KEYS && is_list v); [reflexivity|].
  destruct (str_eqb k (Str "pattern")); [reflexivity|].
  destruct (mem_str k key_value_blocks); [reflexivity|].
  destruct (str_eqb k (Str "projection")); [reflexivity|].
  destruct (mem_str k REPEATED_KEYS); [reflexivity|].
  destruct (str_eqb k (Str "points")); [reflexivity|].
  destruct (str_eqb k (Str "config")); [reflexivity|].
  destruct (has_type v); reflexivity.
Qed.

(* the key of each block kind *)
Lemma kind_key k v :
  match kind_of k v with
  | KPairs => k = Str "pattern"
  | KKeyValue => mem_str k key_value_blocks = true
  | KProjection => k = Str "projection"
  | KRepeated => mem_str k REPEATED_KEYS = true
  | KPoints => k = Str "points"
  | KConfig => k = Str "config"
  | _ => True
  end.
Proof.
  unfold kind_of. destruct (hidden_key k); [exact I|].
  destruct (mem_str k OBJECT_LIST_KEYS && is_list v); [exact I|].
  destruct (str_eqb_spec k (Str "pattern")); [assumption|].
  destruct (mem_str k key_value_blocks) eqn:E; [reflexivity|].
  destruct (str_eqb_spec k (Str "projection")); [assumption|].
  destruct (mem_str k REPEATED_KEYS) eqn:E2; [reflexivity|].
  destruct (str_eqb_spec k (Str "points")); [assumption|].
  destruct (str_eqb_spec k (Str "config")); [assumption|].
  destruct (has_type v); exact I.
Qed.


(* the keys whose length the printer takes into account are at least the
   simple keywords *)
Lemma keyword_counts k v : kind_of k v = KKeyword -> counts_for_alignment k v = true.
Proof.
  unfold kind_of, counts_for_alignment. rewrite is_composite_has_type.
  change (is_metadata k) with (hidden_key k).
  change (is_hidden_container k v) with (mem_str k OBJECT_LIST_KEYS && is_list v).
  destruct (hidden_key k); [discriminate|].
  destruct (mem_str k OBJECT_LIST_KEYS && is_list v); [discriminate|].
  destruct (str_eqb_spec k (Str "pattern")) as [->|]; [discriminate|].
  destruct (mem_str k key_value_blocks) eqn:E1; [discriminate|].
  destruct (str_eqb_spec k (Str "projection")) as [->|]; [discriminate|].
  destruct (mem_str k REPEATED_KEYS); [discriminate|].
  destruct (str_eqb_spec k (Str "points")) as [->|]; [discriminate|].
  destruct (str_eqb_spec k (Str "config")) as [->|]; [discriminate|].
  destruct (has_type v); [discriminate|]. intros _.
  assert (Hig : mem_str k ignore_list = false).
  { unfold ignore_list. cbn [mem_str]. unfold key_value_blocks in E1. cbn [mem_str] in E1.
    rewrite !orb_false_r in E1. rewrite !orb_false_r.
    repeat (apply orb_false_iff in E1; destruct E1 as [? E1]).
    repeat (apply orb_false_iff; split); try assumption; apply str_eqb_neq; assumption. }
  rewrite Hig. reflexivity.
Qed.

Lemma max_key_length_ge items k v :
  In (k, v) items -> counts_for_alignment k v = true -> length k <= compute_max_key_length items.
Proof.
  induction items as [|[k' v'] items IH]; cbn [In compute_max_key_length]; [tauto|].
  intros [E|Hin] Hc.
  - injection E as -> ->. rewrite Hc. lia.
  - specialize (IH Hin Hc). destruct (counts_for_alignment k' v'); lia.
Qed.

Lemma aligned_past_keys o items k v :
  In (k, v) items -> counts_for_alignment k v = true ->
  aligned_of o items = 0 \/ length k < aligned_of o items.
Proof.
  intros Hin Hc. unfold aligned_of. destruct (align_values o); [right|left; reflexivity].
  pose proof (max_key_length_ge _ _ _ Hin Hc).
  destruct (compute_aligned_spec o (compute_max_key_length items)) as (_ & Hlt & _). lia.
Qed.

(* ------------------------------------------------------------ the block structure of _format *)
Section Main.
  Variable o : opts.
  Hypothesis Hquote : quote_ok o = true.

  Notation items' := (items (indent o) (spacer o) (end_comment o)).
  Notation block' := (block (indent o) (spacer o) (end_comment o)).

  Definition fmt_block (v : value) : Prop :=
    forall level lines v', _format o level v = Ok (lines, v') -> layout_doc v = true ->
                           lay (block' level) lines.

  Definition fmt_block_q (v : value) : Prop :=
    fmt_block v /\ match v with VList l => Forall fmt_block l | _ => True end.

  Lemma special_block_words :
    block_word (Str "pattern") = true /\ block_word (Str "points") = true /\ block_word (Str "projection") = true.
  Proof. vm_compute. repeat split. Qed.

  Lemma layout_doc_item c its k v :
    layout_doc (VDict c its) = true -> In (k, v) its ->
    match kind_of k v with
    | KHidden | KProjection | KConfig => True
    | KRepeated => is_list v = true
    | KChildren => match v with VList l => forallb layout_doc l = true | _ => False end
    | KPairs | KPoints => num_tree v = true
    | KKeyValue => match v with VDict _ kvs => no_comments kvs = true | _ => True end
    | KChild => layout_doc v = true
    | KKeyword => key_word k = true
    end.
  Proof.
    cbn [layout_doc]. intros H Hin. apply andb_true_iff in H. destruct H as [_ H].
    rewrite forallb_forall in H. specialize (H _ Hin). cbn [fst snd] in H.
    destruct (kind_of k v); try exact I; try exact H.
    - destruct v; try discriminate. exact H.
    - destruct v; try exact I. exact H.
  Qed.

  Lemma format_item_lay c its type_ level k v r :
    layout_doc (VDict c its) = true -> In (k, v) its -> fmt_block_q v -> type_ <> [] ->
    format_item o (fun x => _format o (S level) x) type_ no_cm level (aligned_of o its) k v = Ok r ->
    lay (items' (S level)) (fst r).
  Proof.
    intros Hdoc Hin [IHv IHl] Hty H. rewrite format_item_kind in H.
    pose proof (layout_doc_item _ _ _ _ Hdoc Hin) as G.
    destruct special_block_words as (W1 & W2 & W3).
    destruct (kind_of k v) eqn:K.
    - injection H as <-. apply lay_nil.
    - destruct v as [| | | | |vs|]; try contradiction.
      apply bind_Ok in H. destruct H as (rs & Hrs & H). injection H as <-. cbn [fst].
      apply lay_concat. apply mapM_Ok in Hrs. rewrite forallb_forall in G.
      clear Hin K IHv. induction Hrs as [|x y vs' rs' Hxy _ IH]; [constructor|].
      inversion IHl as [|? ? Hx IHl']; subst. cbn [map]. constructor.
      + apply (lay_item_items o), (lay_block_item o). destruct y as [ls y']. cbn [fst].
        apply (Hx _ _ _ Hxy). apply G. left; reflexivity.
      + apply IH; [exact IHl'|]. intros z Hz. apply G. right; exact Hz.
    - apply bind_Ok in H. destruct H as (ls & Hls & H). injection H as <-. cbn [fst].
      apply (lay_item_items o), (lay_block_item o).
      assert (Ek : k = Str "pattern").
      { unfold kind_of in K. destruct (hidden_key k); [discriminate|].
        destruct (mem_str k OBJECT_LIST_KEYS && is_list v); [discriminate|].
        destruct (str_eqb_spec k (Str "pattern")); [assumption|].
        destruct (mem_str k key_value_blocks); [discriminate|].
        destruct (str_eqb k (Str "projection")); [discriminate|].
        destruct (mem_str k REPEATED_KEYS); [discriminate|].
        destruct (str_eqb k (Str "points")); [discriminate|].
        destruct (str_eqb k (Str "config")); [discriminate|].
        destruct (has_type v); discriminate. }
      subst k. eapply format_pair_list_lay; eassumption.
    - apply bind_Ok in H. destruct H as (ls & Hls & H). injection H as <-. cbn [fst].
      apply (lay_item_items o), (lay_block_item o).
      assert (Ek : mem_str k key_value_blocks = true).
      { unfold kind_of in K. destruct (hidden_key k); [discriminate|].
        destruct (mem_str k OBJECT_LIST_KEYS && is_list v); [discriminate|].
        destruct (str_eqb k (Str "pattern")); [discriminate|].
        destruct (mem_str k key_value_blocks); [reflexivity|].
        destruct (str_eqb k (Str "projection")); [discriminate|].
        destruct (mem_str k REPEATED_KEYS); [discriminate|].
        destruct (str_eqb k (Str "points")); [discriminate|].
        destruct (str_eqb k (Str "config")); [discriminate|].
        destruct (has_type v); discriminate. }
      pose proof key_value_block_words as W. rewrite forallb_forall in W.
      apply mem_str_In in Ek.
      eapply process_key_dict_lay; [exact Hquote|exact Hls|exact G|apply W; exact Ek].
    - rewrite attr_comment_none in H. cbn [bind] in H.
      apply bind_Ok in H. destruct H as (ls & Hls & H). injection H as <-. cbn [fst].
      apply (lay_item_items o), (lay_block_item o).
      assert (Ek : k = Str "projection").
      { unfold kind_of in K. destruct (hidden_key k); [discriminate|].
        destruct (mem_str k OBJECT_LIST_KEYS && is_list v); [discriminate|].
        destruct (str_eqb k (Str "pattern")); [discriminate|].
        destruct (mem_str k key_value_blocks); [discriminate|].
        destruct (str_eqb_spec k (Str "projection")); [assumption|].
        destruct (mem_str k REPEATED_KEYS); [discriminate|].
        destruct (str_eqb k (Str "points")); [discriminate|].
        destruct (str_eqb k (Str "config")); [discriminate|].
        destruct (has_type v); discriminate. }
      subst k. eapply process_projection_lay; eassumption.
    - apply bind_Ok in H. destruct H as (ls & Hls & H). injection H as <-. cbn [fst].
      assert (Ek : mem_str k REPEATED_KEYS = true).
      { unfold kind_of in K. destruct (hidden_key k); [discriminate|].
        destruct (mem_str k OBJECT_LIST_KEYS && is_list v); [discriminate|].
        destruct (str_eqb k (Str "pattern")); [discriminate|].
        destruct (mem_str k key_value_blocks); [discriminate|].
        destruct (str_eqb k (Str "projection")); [discriminate|].
        destruct (mem_str k REPEATED_KEYS); [reflexivity|].
        destruct (str_eqb k (Str "points")); [discriminate|].
        destruct (str_eqb k (Str "config")); [discriminate|].
        destruct (has_type v); discriminate. }
      eapply process_repeated_list_lay; eassumption.
    - apply bind_Ok in H. destruct H as (ls & Hls & H). injection H as <-. cbn [fst].
      assert (Ek : k = Str "points").
      { unfold kind_of in K. destruct (hidden_key k); [discriminate|].
        destruct (mem_str k OBJECT_LIST_KEYS && is_list v); [discriminate|].
        destruct (str_eqb k (Str "pattern")); [discriminate|].
        destruct (mem_str k key_value_blocks); [discriminate|].
        destruct (str_eqb k (Str "projection")); [discriminate|].
        destruct (mem_str k REPEATED_KEYS); [discriminate|].
        destruct (str_eqb_spec k (Str "points")); [assumption|].
        destruct (str_eqb k (Str "config")); [discriminate|].
        destruct (has_type v); discriminate. }
      subst k. eapply format_repeated_pair_list_lay; eassumption.
    - apply bind_Ok in H. destruct H as (ls & Hls & H). injection H as <-. cbn [fst].
      eapply process_config_dict_lay; eassumption.
    - destruct r as [ls v'']. cbn [fst].
      apply (lay_item_items o), (lay_block_item o). apply (IHv _ _ _ H G).
    - destruct type_ as [|t0 type_]; [congruence|].
      apply bind_Ok in H. destruct H as (line & Hline & H).
      rewrite attr_comment_none in H. cbn [bind] in H. injection H as <-. cbn [fst].
      eapply keyword_line_lay; [exact Hline|exact G|].
      apply (aligned_past_keys o its k v Hin). apply keyword_counts. exact K.
  Qed.

  Lemma type_of_doc c its t :
    dict_getitem c (Str "__type__") its = Ok (VStr t) -> layout_doc (VDict c its) = true ->
    block_word t = true /\ assoc (Str "__type__") its = Some (VStr t).
  Proof.
    cbn [layout_doc]. intros Hg H. apply andb_true_iff in H. destruct H as [H _].
    apply andb_true_iff in H. destruct H as [_ H].
    unfold dict_getitem, dict_getitem_g in Hg.
    assert (E : kfold_item c (Str "__type__") = Str "__type__")
      by (destruct c; cbn [kfold_item]; [reflexivity|apply lower_type_key|apply lower_type_key]).
    rewrite E in Hg. destruct (assoc (Str "__type__") its) as [[| | | |s| |]|]; try discriminate.
    injection Hg as <-. split; [exact H|reflexivity].
  Qed.

  Lemma doc_no_comments c its : layout_doc (VDict c its) = true -> no_comments its = true.
  Proof.
    cbn [layout_doc]. intros H. apply andb_true_iff in H. destruct H as [H _].
    apply andb_true_iff in H. tauto.
  Qed.

  Lemma fmt_block_all v : fmt_block_q v.
  Proof.
    induction v as [| | | | |l IH|c its IH] using value_ind'; try (split; [intros level lines v' H; discriminate H|exact I]).
    - split; [intros level lines v' H; discriminate H|].
      eapply Forall_impl; [|exact IH]. intros a [Ha _]. exact Ha.
    - split; [|exact I]. intros level lines v' H Hdoc.
      destruct (_format_inv o level c its lines v' H) as (type_ & head & sorted & rs & Hh & Hty & Hin & HF & -> & _).
      rewrite (comments_of_none c its (doc_no_comments _ _ Hdoc)) in Hh, HF.
      destruct (format_header_inv o c its no_cm level type_ head Hh Hty) as (tc & Hg & _ & Htc & ->).
      rewrite type_comment_none in Htc. injection Htc as <-. cbn [app].
      destruct (type_of_doc _ _ _ Hg Hdoc) as [Hw _]. destruct (block_word_ok _ Hw) as [K1 K2].
      rewrite whitespace_margin, add_end_line_spec, Nat.add_0_r.
      apply (lay_block o); [exact K1|exact K2|].
      apply (lay_concat o). apply Forall_forall. intros ls Hls. apply in_map_iff in Hls.
      destruct Hls as (r & <- & Hr).
      assert (Hex : exists kv, In kv sorted /\
                format_item o (fun x => _format o (S level) x) type_ no_cm level (aligned_of o its) (fst kv) (snd kv) = Ok r).
      { clear -HF Hr. induction HF as [|kv r0 s' rs' Hkr _ IH2]; [contradiction|].
        destruct Hr as [->|Hr]; [exists kv; split; [left; reflexivity|exact Hkr]|].
        destruct (IH2 Hr) as (kv' & Hk1 & Hk2). exists kv'. split; [right; exact Hk1|exact Hk2]. }
      destruct Hex as ([k v] & Hks & Hfi). cbn [fst snd] in Hfi. apply Hin in Hks.
      eapply format_item_lay; [exact Hdoc|exact Hks| |exact Hty|exact Hfi].
      rewrite Forall_forall in IH. apply (IH (k, v) Hks).
  Qed.

  (* ---------------------------------------------------------- pprint *)
  Notation roots' := (roots (indent o) (spacer o) (end_comment o)).

  Lemma pprint_one_lay v lines v' :
    pprint_one o v = Ok (lines, v') -> root_ok v = true -> lay (block' 0) lines.
  Proof.
    unfold pprint_one, root_ok. destruct v as [| | | | | |c its]; try discriminate.
    intros H Hr. apply andb_true_iff in Hr. destruct Hr as [Hdoc Hr].
    assert (E : kfold_item c (Str "__type__") = Str "__type__")
      by (destruct c; cbn [kfold_item]; [reflexivity|apply lower_type_key|apply lower_type_key]).
    rewrite E in H. destruct (assoc (Str "__type__") its) as [[| | | |t| |]|]; try discriminate.
    change (mem_str t [Str "metadata"; Str "validation"; Str "connectionoptions"])
      with (mem_str t root_keyvalue_types) in H.
    apply negb_true_iff in Hr. rewrite Hr in H.
    destruct (fmt_block_all (VDict c its)) as [Hb _]. apply (Hb _ _ _ H Hdoc).
  Qed.

  Lemma roots_concat bs : Forall (lay (block' 0)) bs -> lay roots' (concat bs).
  Proof.
    induction 1 as [|b bs Hb _ IH]; cbn [concat].
    - exists []. split; [constructor|reflexivity].
    - destruct Hb as (x & Hx & <-). destruct IH as (y & Hy & <-).
      exists (x ++ y). split; [constructor; assumption|apply map_app].
  Qed.

  Theorem pprint_lines_laid_out v lines v' :
    pprint_lines o v = Ok (lines, v') -> roots_ok v = true ->
    laid_out (indent o) (spacer o) (end_comment o) lines.
  Proof.
    unfold pprint_lines, laid_out. rewrite Hquote. cbn [negb].
    intros H Hr.
    assert (Hone : forall x, (match x with VList _ => False | _ => True end) ->
                   (if truthy x then do r <- pprint_one o x; Ok r
                    else match x with VStr _ | VDict _ _ => Ok ([], x) | _ => Err PyTypeError end) = Ok (lines, v') ->
                   root_ok x = true -> exists al, roots' al /\ map snd al = lines).
    { intros x _ Hx Hrx. destruct (truthy x) eqn:T.
      - apply bind_Ok in Hx. destruct Hx as ([ls w] & Hp & Hx). injection Hx as <- <-.
        pose proof (pprint_one_lay _ _ _ Hp Hrx) as Hb.
        pose proof (roots_concat [ls] (Forall_cons _ Hb (Forall_nil _))) as Hc.
        cbn [concat] in Hc. rewrite app_nil_r in Hc. exact Hc.
      - unfold root_ok in Hrx. destruct x; try discriminate. cbn [truthy] in T.
        destruct items; [|discriminate]. cbn in Hrx. discriminate. }
    destruct v as [|b|z|m e|s|l|c its];
      [exact (Hone VNone I H Hr)|exact (Hone (VBool b) I H Hr)|exact (Hone (VInt z) I H Hr)
      |exact (Hone (VFloat m e) I H Hr)|exact (Hone (VStr s) I H Hr)| |exact (Hone (VDict c its) I H Hr)].
    apply bind_Ok in H. destruct H as (rs & Hrs & H). injection H as <- <-.
    apply roots_concat. apply mapM_Ok in Hrs. cbn [roots_ok] in Hr. rewrite forallb_forall in Hr.
    clear Hone. induction Hrs as [|x [ls w] l' rs' Hx _ IH]; [constructor|]. cbn [map fst].
    constructor; [eapply pprint_one_lay; [exact Hx|apply Hr; left; reflexivity]|].
    apply IH. intros z Hz. apply Hr. right; exact Hz.
  Qed.
End Main.

(* ------------------------------------------------------------ consequences of the block grammar *)
Scheme item_mut := Minimality for item Sort Prop
  with items_mut := Minimality for items Sort Prop
  with block_mut := Minimality for block Sort Prop.
Combined Scheme layout_mutind from item_mut, items_mut, block_mut.

Section Consequences.
  Variable indent_ : nat.
  Variable spacer_ : str.
  Variable end_comment_ : bool.

  Definition depth_ok (d : nat) (dl : nat * str) : Prop :=
    at_depth indent_ spacer_ (fst dl) (snd dl) /\ d <= fst dl.

  Lemma depth_ok_weaken d d' al : d' <= d -> Forall (depth_ok d) al -> Forall (depth_ok d') al.
  Proof.
    intros Hle H. eapply Forall_impl; [|exact H]. intros a [H1 H2]. split; [exact H1|lia].
  Qed.

  Lemma grammar_depths :
    (forall d al, item indent_ spacer_ end_comment_ d al -> Forall (depth_ok d) al)
    /\ (forall d al, items indent_ spacer_ end_comment_ d al -> Forall (depth_ok d) al)
    /\ (forall d al, block indent_ spacer_ end_comment_ d al -> Forall (depth_ok d) al).
  Proof.
    apply layout_mutind.
    - intros d body H1 _ _. constructor; [|constructor]. split; [|cbn; lia].
      exists body. split; [reflexivity|exact H1].
    - intros d b _ IH. exact IH.
    - intros d. constructor.
    - intros d a b _ IHa _ IHb. apply Forall_app. split; assumption.
    - intros d name body H1 _ _ IH. constructor.
      + split; [|cbn; lia]. exists name. split; [reflexivity|exact H1].
      + apply Forall_app. split; [apply (depth_ok_weaken (S d)); [lia|exact IH]|].
        constructor; [|constructor]. split; [|cbn; lia].
        exists (end_word ++ (if end_comment_ then Str " # " ++ name else [])).
        split; [reflexivity|reflexivity].
  Qed.

  Lemma roots_depths al :
    roots indent_ spacer_ end_comment_ al ->
    Forall (fun dl => at_depth indent_ spacer_ (fst dl) (snd dl)) al.
  Proof.
    induction 1 as [|b rest Hb _ IH]; [constructor|].
    apply Forall_app. split; [|exact IH].
    destruct grammar_depths as (_ & _ & Hblock).
    eapply Forall_impl; [|apply (Hblock _ _ Hb)]. intros a [Ha _]. exact Ha.
  Qed.
End Consequences.

(* ------------------------------------------------------------ witnesses *)
Definition root_metadata_doc : value :=
  VDict (DCI true) [(Str "__type__", VStr (Str "metadata")); (Str "wms_title", VStr (Str "x"))].

Lemma root_keyvalue_counterexample :
  exists v lines v',
    layout_doc v = true /\ pprint_lines default_opts v = Ok (lines, v')
    /\ ~ laid_out (indent default_opts) (spacer default_opts) (end_comment default_opts) lines.
Proof.
  exists root_metadata_doc. eexists _, _. split; [vm_compute; reflexivity|]. split; [vm_compute; reflexivity|].
  intros (al & Hr & Hm). inversion Hr as [|b rest Hb Hrest Eb]; subst.
  - discriminate Hm.
  - inversion Hb as [d name body Hn _ _]; subst. cbn in Hm. injection Hm as Hname _.
    subst name. discriminate Hn.
Qed.

Definition ex_style : value :=
  VDict (DCI true)
    [(Str "__type__", VStr (Str "style"));
     (Str "pattern", VList [VList [VInt 1; VFloat 25 (-1)]]);
     (Str "color", VList [VInt 255; VInt 0; VInt 0])].

Definition ex_class : value :=
  VDict (DCI true) [(Str "__type__", VStr (Str "class")); (Str "styles", VList [ex_style])].

Definition ex_layer : value :=
  VDict (DCI true)
    [(Str "__type__", VStr (Str "layer"));
     (Str "classes", VList [ex_class]);
     (Str "name", VStr (Str "l1"));
     (Str "processing", VList [VStr (Str "BANDS=1"); VStr (Str "SCALE=AUTO")]);
     (Str "projection", VList [VStr (Str "init=epsg:4326")]);
     (Str "metadata", VDict (DCI true) [(Str "__type__", VStr (Str "metadata")); (Str "wms_title", VStr (Str "t"))]);
     (Str "status", VStr (Str "on"))].

Definition example_doc : value :=
  VDict (DCI true)
    [(Str "__type__", VStr (Str "map"));
     (Str "name", VStr (Str "example"));
     (Str "layers", VList [ex_layer]);
     (Str "config", VDict (DCI true) [(Str "ms_errorfile", VStr (Str "stderr"))]);
     (Str "extent", VList [VInt 0; VInt 0; VFloat 105 (-1); VInt 10])].
