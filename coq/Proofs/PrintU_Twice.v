(* Printing twice in a row: the dictionary left behind by a first pprint call
   prints to the same text and is left unchanged by the second call (relevant
   with separate_complex_types, which reorders its argument).  Universal, under
   the representation invariant uniq_keys (Python dicts have no duplicate key). *)
From MF Require Import Lib.Base Lib.PyDict Lib.Json Gen.Tokens Model.Case Model.Quoter Model.PPrint
  Proofs.PPrintFacts Proofs.C06 Proofs.PrintU_Pure.
Open Scope nat_scope.

(* ------------------------------------------------------------ stable partitions *)
Section Part.
  Context {A : Type}.
  Variable p : str -> bool.
  Notation items := (list (str * A)).

  Lemma In_partition (l : items) x : In x (stable_partition p l) <-> In x l.
  Proof.
    unfold stable_partition, nm, mv. rewrite in_app_iff, !filter_In.
    destruct (p (fst x)); cbn [negb]; intuition congruence.
  Qed.

  Lemma keys_filter_In (f : str * A -> bool) (l : items) k : In k (keys (filter f l)) -> In k (keys l).
  Proof.
    unfold keys. rewrite !in_map_iff. intros (x & <- & Hx). apply filter_In in Hx. exists x. tauto.
  Qed.

  Lemma NoDup_keys_filter (f : str * A -> bool) (l : items) : NoDup (keys l) -> NoDup (keys (filter f l)).
  Proof.
    induction l as [|[k v] l IH]; cbn [filter keys map fst]; [auto|].
    intros H. inversion H as [|? ? Hn Hd]; subst. destruct (f (k, v)); [|apply IH; exact Hd].
    cbn [map fst]. constructor; [|apply IH; exact Hd]. intros Hin. apply Hn. apply (keys_filter_In f l k Hin).
  Qed.

  Lemma NoDup_partition (l : items) : NoDup (keys l) -> NoDup (keys (stable_partition p l)).
  Proof.
    intros Hn. unfold stable_partition, keys. rewrite map_app.
    assert (D : forall a b : list str, NoDup a -> NoDup b -> (forall k, In k a -> ~ In k b) -> NoDup (a ++ b)).
    { induction a as [|x a IHa]; intros b Ha Hb Hd; [exact Hb|]. inversion Ha as [|? ? Hx Ha']; subst.
      cbn [app]. constructor.
      - rewrite in_app_iff. intros [H|H]; [tauto|]. apply (Hd x); [left; reflexivity|exact H].
      - apply IHa; [exact Ha'|exact Hb|]. intros k Hk. apply Hd. right. exact Hk. }
    apply D.
    - apply (NoDup_keys_filter (nm p) l Hn).
    - apply (NoDup_keys_filter (mv p) l Hn).
    - intros k H1 H2. rewrite in_map_iff in H1, H2.
      destruct H1 as ([k1 v1] & E1 & F1). destruct H2 as ([k2 v2] & E2 & F2). cbn [fst] in *. subst k1 k2.
      apply filter_In in F1, F2. unfold nm, mv in *. cbn [fst] in *. destruct F1 as [_ F1], F2 as [_ F2].
      rewrite F2 in F1. discriminate F1.
  Qed.

  Lemma assoc_In_NoDup (l : items) k v : NoDup (keys l) -> In (k, v) l -> assoc k l = Some v.
  Proof.
    induction l as [|[k' v'] l IH]; cbn [keys map fst In assoc]; [tauto|].
    intros Hn [E|Hin]; inversion Hn as [|? ? Hx Hd]; subst.
    - injection E as -> ->. rewrite str_eqb_refl. reflexivity.
    - destruct (str_eqb_spec k k') as [->|Hne]; [|apply IH; assumption].
      exfalso. apply Hx. unfold keys. apply in_map_iff. exists (k', v). split; [reflexivity|exact Hin].
  Qed.

  Lemma assoc_partition (l : items) k : NoDup (keys l) -> assoc k (stable_partition p l) = assoc k l.
  Proof.
    intros Hn. destruct (assoc k l) as [v|] eqn:E.
    - apply assoc_In_NoDup; [apply NoDup_partition; exact Hn|]. apply In_partition. apply assoc_Some_in. exact E.
    - apply assoc_None_notin. intros Hin. apply (proj1 (assoc_None_notin k l) E).
      unfold keys in *. rewrite in_map_iff in *. destruct Hin as (x & Hx & Hin). exists x. split; [exact Hx|].
      apply In_partition. exact Hin.
  Qed.

  Lemma filter_filter_same (f : str * A -> bool) (l : items) : filter f (filter f l) = filter f l.
  Proof.
    induction l as [|x l IH]; cbn [filter]; [reflexivity|]. destruct (f x) eqn:E; [|exact IH].
    cbn [filter]. rewrite E, IH. reflexivity.
  Qed.

  Lemma filter_filter_none (f g : str * A -> bool) (l : items) :
    (forall x, g x = true -> f x = false) -> filter f (filter g l) = [].
  Proof.
    intros H. induction l as [|x l IH]; cbn [filter]; [reflexivity|]. destruct (g x) eqn:E; [|exact IH].
    cbn [filter]. rewrite (H x E). exact IH.
  Qed.

  Lemma partition_idem (l : items) : stable_partition p (stable_partition p l) = stable_partition p l.
  Proof.
    unfold stable_partition. rewrite !filter_app, !filter_filter_same.
    rewrite (filter_filter_none (nm p) (mv p)), (filter_filter_none (mv p) (nm p)).
    - rewrite app_nil_r. reflexivity.
    - intros x. unfold nm, mv. intros H. apply negb_true_iff in H. exact H.
    - intros x. unfold nm, mv. intros H. rewrite H. reflexivity.
  Qed.

  Lemma od_mem_app k (a b : items) : od_mem k (a ++ b) = od_mem k a || od_mem k b.
  Proof.
    induction a as [|[k' v'] a IH]; cbn [app od_mem]; [reflexivity|]. rewrite IH, orb_assoc. reflexivity.
  Qed.

  Lemma od_mem_partition k (l : items) : od_mem k (stable_partition p l) = od_mem k l.
  Proof.
    unfold stable_partition. rewrite od_mem_app. induction l as [|[k' v'] l IH]; [reflexivity|].
    cbn [filter od_mem]. unfold nm, mv. cbn [fst]. destruct (p k'); cbn [negb od_mem]; rewrite <- IH.
    - destruct (str_eqb k k'); cbn [orb]; [apply orb_true_r|reflexivity].
    - rewrite orb_assoc. reflexivity.
  Qed.
End Part.

Lemma partition_ext {A} (p p' : str -> bool) (l : list (str * A)) :
  (forall k, p k = p' k) -> stable_partition p l = stable_partition p' l.
Proof.
  intros H. unfold stable_partition, nm, mv. f_equal; apply filter_ext; intros x; rewrite H; reflexivity.
Qed.

Lemma partition_map {A B} (p : str -> bool) (h : str * A -> str * B) (l : list (str * A)) :
  (forall x, fst (h x) = fst x) ->
  stable_partition p (map h l) = map h (stable_partition p l).
Proof.
  intros Hh. unfold stable_partition, nm, mv. rewrite map_app.
  rewrite (map_filter_keyed (fun k => negb (p k)) h l Hh), (map_filter_keyed p h l Hh). reflexivity.
Qed.

Lemma od_mem_map_items {A B} (h : str -> A -> B) k (l : list (str * A)) :
  od_mem k (map (fun kv => (fst kv, h (fst kv) (snd kv))) l) = od_mem k l.
Proof. induction l as [|[k' v] l IH]; cbn [map od_mem fst snd]; [reflexivity|]. rewrite IH. reflexivity. Qed.

(* ------------------------------------------------------------ what sep_doc preserves *)
Definition is_vlist (v : value) : bool := match v with VList _ => true | _ => false end.

Lemma sep_doc_is_vlist s l v : is_vlist (sep_doc s l v) = is_vlist v.
Proof. destruct v; reflexivity. Qed.

Lemma sep_item_is_vlist (rec : value -> value) k v :
  (forall x, is_vlist (rec x) = is_vlist x) -> is_vlist (sep_item rec k v) = is_vlist v.
Proof.
  intros H. unfold sep_item. destruct (is_metadata k); [reflexivity|].
  destruct (is_hidden_container k v); [destruct v; reflexivity|].
  destruct (no_descend_key k); [reflexivity|]. destruct (is_composite v); [apply H|reflexivity].
Qed.

Lemma hidden_is_vlist k v : is_hidden_container k v = mem_str k OBJECT_LIST_KEYS && is_vlist v.
Proof. reflexivity. Qed.

Lemma sep_doc_composite s l v : is_composite (sep_doc s l v) = is_composite v.
Proof.
  destruct v as [| | | | | |c items]; try reflexivity. cbn [sep_doc is_composite]. unfold dict_in.
  destruct s; [rewrite od_mem_partition|]; apply (od_mem_map_items (fun k v => sep_item (sep_doc _ (S l)) k v)).
Qed.

Lemma sep_item_composite (rec : value -> value) k v :
  (forall x, is_composite (rec x) = is_composite x) -> is_composite (sep_item rec k v) = is_composite v.
Proof.
  intros H. unfold sep_item. destruct (is_metadata k); [reflexivity|].
  destruct (is_hidden_container k v) eqn:Eh.
  { destruct v; try reflexivity. }
  destruct (no_descend_key k); [reflexivity|]. destruct (is_composite v) eqn:Ec; [rewrite H; exact Ec|exact Ec].
Qed.

Lemma counts_sep_item s l k v :
  counts_for_alignment k (sep_item (sep_doc s l) k v) = counts_for_alignment k v.
Proof.
  unfold counts_for_alignment. rewrite !hidden_is_vlist.
  rewrite (sep_item_is_vlist _ k v (sep_doc_is_vlist s l)), (sep_item_composite _ k v (sep_doc_composite s l)).
  reflexivity.
Qed.

Lemma cmkl_app a b : compute_max_key_length (a ++ b) = Nat.max (compute_max_key_length a) (compute_max_key_length b).
Proof.
  induction a as [|[k v] a IH]; cbn [app compute_max_key_length]; [reflexivity|].
  rewrite IH. destruct (counts_for_alignment k v); [apply Nat.max_assoc|reflexivity].
Qed.

Lemma cmkl_cons k v l :
  compute_max_key_length ((k, v) :: l)
  = if counts_for_alignment k v then Nat.max (length k) (compute_max_key_length l) else compute_max_key_length l.
Proof. reflexivity. Qed.

Lemma cmkl_partition p l : compute_max_key_length (stable_partition p l) = compute_max_key_length l.
Proof.
  unfold stable_partition. rewrite cmkl_app. induction l as [|[k v] l IH]; [reflexivity|].
  cbn [filter]. unfold nm at 1, mv at 1. cbn [fst]. rewrite (cmkl_cons k v l).
  set (a := compute_max_key_length (filter (nm p) l)) in *.
  set (b := compute_max_key_length (filter (mv p) l)) in *.
  destruct (p k); cbn [negb]; rewrite cmkl_cons; fold a b; destruct (counts_for_alignment k v); lia.
Qed.

Lemma cmkl_sep_items s l items :
  compute_max_key_length (map (fun kv => (fst kv, sep_item (sep_doc s l) (fst kv) (snd kv))) items)
  = compute_max_key_length items.
Proof.
  induction items as [|[k v] items IH]; [reflexivity|]. cbn [map fst snd compute_max_key_length].
  rewrite counts_sep_item, IH. reflexivity.
Qed.

Lemma metadata_fold_comments c : is_metadata (kfold_in c (Str "__comments__")) = true.
Proof. destruct c; reflexivity. Qed.

Lemma metadata_fold_type_in c : is_metadata (kfold_in c (Str "__type__")) = true.
Proof. destruct c; reflexivity. Qed.

Lemma metadata_fold_type_item c : is_metadata (kfold_item c (Str "__type__")) = true.
Proof. destruct c; reflexivity. Qed.

Lemma sep_item_metadata rec k v : is_metadata k = true -> sep_item rec k v = v.
Proof. intros H. unfold sep_item. rewrite H. reflexivity. Qed.

(* ------------------------------------------------------------ success of the loop of separate_complex *)
Section Loop.
  Context {A : Type} (valof : A -> value).

  Definition key_fact (c : dcls) (orig : list (str * A)) (level : nat) (k : str) : Prop :=
    exists b, is_complex_type_g valof c orig k level = Ok b /\ (b = true -> c <> DPlain).

  Lemma separate_loop_facts c level (orig : list (str * A)) ks :
    forall cur res,
      NoDup (keys cur) -> (forall k, assoc k cur = assoc k orig) ->
      separate_loop valof c level ks cur = Ok res ->
      forall k, In k ks -> key_fact c orig level k.
  Proof.
    induction ks as [|k0 ks IH]; intros cur res Hn Ha H k Hin; [contradiction|].
    cbn [separate_loop] in H. apply bind_Ok in H. destruct H as (b & Hb & H).
    rewrite (is_complex_assoc valof c cur orig k0 level Ha) in Hb.
    destruct b.
    - apply bind_Ok in H. destruct H as (it1 & Hm & H).
      assert (Hc : c <> DPlain) by (intros ->; discriminate Hm).
      assert (E : it1 = od_move_to_end k0 cur).
      { unfold dict_move_to_end in Hm.
        destruct c; [discriminate| |]; destruct (assoc k0 cur); try discriminate; injection Hm as <-; reflexivity. }
      subst it1. destruct Hin as [<-|Hin]; [exists true; split; [exact Hb|intros _; exact Hc]|].
      apply (IH _ _ (NoDup_move_to_end k0 cur Hn)
                (fun k2 => eq_trans (assoc_move_to_end k0 k2 cur Hn) (Ha k2)) H k Hin).
    - destruct Hin as [<-|Hin]; [exists false; split; [exact Hb|discriminate]|].
      apply (IH _ _ Hn Ha H k Hin).
  Qed.

  Lemma keys_move_to_end_In k (cur : list (str * A)) k2 :
    In k2 (keys cur) -> In k2 (keys (od_move_to_end k cur)).
  Proof.
    unfold keys. rewrite !in_map_iff. intros (x & Hx & Hin). exists x. split; [exact Hx|].
    apply move_to_end_In. exact Hin.
  Qed.

  Lemma separate_loop_succeeds c level (orig : list (str * A)) ks :
    forall cur,
      NoDup (keys cur) -> (forall k, assoc k cur = assoc k orig) ->
      (forall k, In k ks -> In k (keys cur)) ->
      (forall k, In k ks -> key_fact c orig level k) ->
      separate_loop valof c level ks cur = Ok (move_all (moved_g valof c orig level) ks cur).
  Proof.
    unfold move_all.
    induction ks as [|k0 ks IH]; intros cur Hn Ha Hk Hf; [reflexivity|].
    cbn [separate_loop fold_left].
    destruct (Hf k0 (or_introl eq_refl)) as (b & Hb & Hc).
    rewrite (is_complex_assoc valof c cur orig k0 level Ha), Hb. cbn [bind].
    unfold moved_g at 2. rewrite Hb. destruct b.
    - assert (Hin : In k0 (keys cur)) by (apply Hk; left; reflexivity).
      destruct (assoc k0 cur) as [a|] eqn:E; [|exfalso; apply (proj1 (assoc_None_notin k0 cur) E Hin)].
      assert (Em : dict_move_to_end c k0 cur = Ok (od_move_to_end k0 cur)).
      { unfold dict_move_to_end. rewrite E. destruct c; [exfalso; apply (Hc eq_refl); reflexivity| |]; reflexivity. }
      rewrite Em. cbn [bind]. apply IH.
      + apply NoDup_move_to_end. exact Hn.
      + intros k2. rewrite assoc_move_to_end by exact Hn. apply Ha.
      + intros k Hk0. apply keys_move_to_end_In. apply Hk. right. exact Hk0.
      + intros k Hk0. apply Hf. right. exact Hk0.
    - apply IH; [exact Hn|exact Ha| |].
      + intros k Hk0. apply Hk. right. exact Hk0.
      + intros k Hk0. apply Hf. right. exact Hk0.
  Qed.
End Loop.

(* ------------------------------------------------------------ collect_items on the values left behind *)
Lemma collect_items_again (F : str -> value -> res (list str * value)) l ls its :
  collect_items l = Ok (ls, its) ->
  (forall x r, In x l -> snd (snd x) = Ok r -> F (fst x) (snd r) = Ok r) ->
  collect_items (map (fun kv => (fst kv, (snd kv, F (fst kv) (snd kv)))) its) = Ok (ls, its).
Proof.
  revert ls its; induction l as [|[k [v r]] l IH]; intros ls its H HF; cbn [collect_items] in H.
  - injection H as <- <-. reflexivity.
  - apply bind_Ok in H. destruct H as (lv & Hr & H).
    apply bind_Ok in H. destruct H as ([ls2 its2] & Hrest & H).
    injection H as <- <-. cbn [map fst snd collect_items].
    pose proof (HF (k, (v, r)) lv (or_introl eq_refl) Hr) as E. cbn [fst snd] in E. rewrite E. cbn [bind].
    rewrite (IH _ _ Hrest) by (intros x r0 Hx; apply HF; right; exact Hx). reflexivity.
Qed.

Lemma mapM_again (f : value -> res (list str * value)) vs rs :
  mapM f vs = Ok rs ->
  Forall (fun x => forall r, f x = Ok r -> f (snd r) = Ok r) vs ->
  mapM f (map snd rs) = Ok rs.
Proof.
  intros H HF. apply mapM_Ok in H. induction H as [|x r vs rs Hx _ IH]; [reflexivity|].
  inversion HF as [|? ? Hfx HF']; subst. cbn [map mapM]. rewrite (Hfx r Hx). cbn [bind]. rewrite (IH HF'). reflexivity.
Qed.

Section Twice.
  Variable o : opts.
  Hypothesis Hs : separate_complex_types o = true.

  Definition twice_claim (v : value) : Prop :=
    forall level lines v',
      _format o level v = Ok (lines, v') -> uniq_keys v = true -> _format o level v' = Ok (lines, v').

  Lemma format_item_twice type_ comments level aligned k v r :
    format_item o (fun x => _format o (S level) x) type_ comments level aligned k v = Ok r ->
    twice_claim v -> match v with VList l => Forall twice_claim l | _ => True end ->
    uniq_keys v = true ->
    format_item o (fun x => _format o (S level) x) type_ comments level aligned k (snd r) = Ok r.
  Proof.
    intros H HT HL Hu.
    assert (Hv : snd r = sep_item (sep_doc true (S level)) k v).
    { rewrite <- Hs. apply (format_item_value o type_ comments level aligned k v r H).
      - intros lv lines v' Hf Hu'. apply (_format_argument_after o lv v lines v' Hf Hu').
      - destruct v as [| | | | |l|]; try exact I. apply Forall_forall. intros x _ lv lines v' Hf Hu'.
        apply (_format_argument_after o lv x lines v' Hf Hu').
      - intros _. exact Hu. }
    pose proof (sep_item_is_vlist (sep_doc true (S level)) k v (sep_doc_is_vlist true (S level))) as Hvl.
    pose proof (sep_item_composite (sep_doc true (S level)) k v (sep_doc_composite true (S level))) as Hvc.
    rewrite <- Hv in Hvl, Hvc.
    unfold format_item in *. destruct (is_metadata k); [injection H as <-; reflexivity|].
    rewrite !hidden_is_vlist in *. rewrite Hvl.
    destruct (mem_str k OBJECT_LIST_KEYS && is_vlist v) eqn:Eh.
    { destruct v as [| | | | |vs|]; try (apply andb_true_iff in Eh; destruct Eh as [_ Eh]; discriminate Eh).
      apply bind_Ok in H. destruct H as (rs & Hrs & H). injection H as <-. cbn [snd].
      rewrite (mapM_again _ vs rs Hrs); [reflexivity|].
      cbn [uniq_keys] in Hu. rewrite forallb_forall in Hu. rewrite Forall_forall in *.
      intros x Hx [ls x'] Hr. cbn [snd]. apply (HL x Hx (S level) ls x' Hr (Hu x Hx)). }
    destruct (str_eqb k (Str "pattern")).
    { apply bind_Ok in H. destruct H as (ls & Hls & H). injection H as <-. cbn [snd]. rewrite Hls. reflexivity. }
    destruct (mem_str k key_dict_names).
    { apply bind_Ok in H. destruct H as (ls & Hls & H). injection H as <-. cbn [snd]. rewrite Hls. reflexivity. }
    destruct (str_eqb k (Str "projection")).
    { apply bind_Ok in H. destruct H as (pc & Hpc & H). apply bind_Ok in H. destruct H as (ls & Hls & H).
      injection H as <-. cbn [snd]. rewrite Hpc. cbn [bind]. rewrite Hls. reflexivity. }
    destruct (mem_str k REPEATED_KEYS).
    { apply bind_Ok in H. destruct H as (ls & Hls & H). injection H as <-. cbn [snd]. rewrite Hls. reflexivity. }
    destruct (str_eqb k (Str "points")).
    { apply bind_Ok in H. destruct H as (ls & Hls & H). injection H as <-. cbn [snd]. rewrite Hls. reflexivity. }
    destruct (str_eqb k (Str "config")).
    { apply bind_Ok in H. destruct H as (ls & Hls & H). injection H as <-. cbn [snd]. rewrite Hls. reflexivity. }
    rewrite Hvc. destruct (is_composite v).
    { destruct r as [ls x']. cbn [snd]. apply (HT (S level) ls x' H Hu). }
    destruct type_ as [|t0 type_]; [discriminate|].
    apply bind_Ok in H. destruct H as (line & Hline & H).
    apply bind_Ok in H. destruct H as (cm & Hcm & H). injection H as <-. cbn [snd].
    rewrite Hline. cbn [bind]. rewrite Hcm. reflexivity.
  Qed.

  Lemma is_complex_after c items level k :
    NoDup (keys items) ->
    is_complex_type c
      (stable_partition (moved_key c items level)
         (map (fun kv => (fst kv, sep_item (sep_doc true (S level)) (fst kv) (snd kv))) items)) k level
    = is_complex_type c items k level.
  Proof.
    intros Hn. unfold is_complex_type, is_complex_type_g, dict_getitem_g.
    rewrite assoc_partition by (rewrite (keys_map_items (fun k v => sep_item (sep_doc true (S level)) k v)); exact Hn).
    rewrite (assoc_map_items (fun k v => sep_item (sep_doc true (S level)) k v)).
    destruct (assoc (kfold_item c k) items) as [v|]; [|reflexivity]. cbn [bind].
    rewrite !hidden_is_vlist, (sep_item_is_vlist _ _ v (sep_doc_is_vlist true (S level))). reflexivity.
  Qed.

  Lemma format_twice v : twice_claim v /\ match v with VList l => Forall twice_claim l | _ => True end.
  Proof.
    induction v as [| | | | |l IH|c items IH] using value_ind';
      try (split; [intros level lines v' H; discriminate H|exact I]).
    - split; [intros level lines v' H; discriminate H|].
      eapply Forall_impl; [|exact IH]. intros x Hx. apply Hx.
    - split; [|exact I]. intros level lines v' H Hu.
      pose proof (_format_argument_after o level _ lines v' H (fun _ => Hu)) as Hv'. rewrite Hs in Hv'.
      cbn [sep_doc] in Hv'.
      assert (Hn : NoDup (keys items)).
      { apply nodupb_NoDup. cbn [uniq_keys] in Hu. apply andb_true_iff in Hu. tauto. }
      set (G := fun kv : str * value => (fst kv, sep_item (sep_doc true (S level)) (fst kv) (snd kv))) in *.
      set (items2 := stable_partition (moved_key c items level) (map G items)) in *.
      assert (Hn1 : NoDup (keys (map G items))).
      { unfold G. rewrite (keys_map_items (fun k v => sep_item (sep_doc true (S level)) k v)). exact Hn. }
      assert (Hlook : forall k, is_metadata k = true -> assoc k items2 = assoc k items).
      { intros k Hm. unfold items2. rewrite assoc_partition by exact Hn1. unfold G.
        rewrite (assoc_map_items (fun k v => sep_item (sep_doc true (S level)) k v)).
        destruct (assoc k items) as [v|]; [|reflexivity]. rewrite (sep_item_metadata _ k v Hm). reflexivity. }
      assert (Hcm : dict_get c (Str "__comments__") items2 (VDict DPlain [])
                    = dict_get c (Str "__comments__") items (VDict DPlain [])).
      { unfold dict_get. rewrite (Hlook _ (metadata_fold_comments c)). reflexivity. }
      assert (Hal : compute_max_key_length items2 = compute_max_key_length items).
      { unfold items2. rewrite cmkl_partition. apply cmkl_sep_items. }
      assert (Hhd : forall comments, format_header o c items2 comments level = format_header o c items comments level).
      { intros comments. unfold format_header, dict_in, dict_getitem, dict_getitem_g.
        unfold items2 at 1. rewrite od_mem_partition.
        unfold G at 1. rewrite (od_mem_map_items (fun k v => sep_item (sep_doc true (S level)) k v)).
        rewrite (Hlook _ (metadata_fold_type_item c)). reflexivity. }
      (* the first call *)
      cbn [_format] in H.
      apply bind_Ok in H. destruct H as ([type_ head] & Hh & H). cbn [fst snd] in H.
      apply bind_Ok in H. destruct H as (sres & Hsep & H).
      apply bind_Ok in H. destruct H as ([ls its] & Hc & H).
      destruct type_ as [|t0 type_]; [discriminate|]. injection H as <- Hv2. cbn [fst snd] in *.
      assert (Eits : its = items2) by (rewrite Hv' in Hv2; injection Hv2 as ->; reflexivity).
      set (comments := dict_get c (Str "__comments__") items (VDict DPlain [])) in *.
      set (al := if align_values o then compute_aligned_max_indent o (compute_max_key_length items) else 0) in *.
      set (F := fun (k : str) (v : value) =>
                  format_item o (fun x => _format o (S level) x) (t0 :: type_) comments level al k v) in *.
      set (results := map (fun kv => (fst kv, (snd kv, F (fst kv) (snd kv)))) items) in *.
      pose proof (separate_complex_g_In o (fun a : value * res (list str * value) => fst a) c level _ _ Hsep) as Hin.
      (* the second call *)
      rewrite Hv'. cbn [_format]. fold items2. rewrite Hcm, Hhd, Hal. fold comments. rewrite Hh. cbn [bind fst snd].
      fold al. fold F.
      set (results2 := map (fun kv => (fst kv, (snd kv, F (fst kv) (snd kv)))) items2).
      assert (Hn2 : NoDup (keys results2)).
      { unfold results2. rewrite (keys_map_items (fun k v => (v, F k v))). unfold items2.
        apply NoDup_partition. exact Hn1. }
      assert (Hnr : NoDup (keys results)).
      { unfold results. rewrite (keys_map_items (fun k v => (v, F k v))). exact Hn. }
      assert (Hsep2 : separate_complex_g o (fun a : value * res (list str * value) => fst a) c level results2 = Ok results2).
      { unfold separate_complex_g in *. rewrite Hs in *.
        pose proof (separate_loop_facts (fun a : value * res (list str * value) => fst a) c level results
                      (keys results) results sres Hnr (fun _ => eq_refl) Hsep) as Hfacts.
        assert (Hcx : forall k, is_complex_type_g (fun a : value * res (list str * value) => fst a) c results2 k level
                                = is_complex_type_g (fun a : value * res (list str * value) => fst a) c results k level).
        { intros k. unfold results2, results.
          transitivity (is_complex_type c items2 k level); [|transitivity (is_complex_type c items k level)].
          - unfold is_complex_type, is_complex_type_g, dict_getitem_g.
            rewrite (assoc_map_items (fun k v => (v, F k v))). destruct (assoc (kfold_item c k) items2); reflexivity.
          - unfold items2, G. apply (is_complex_after c items level k Hn).
          - unfold is_complex_type, is_complex_type_g, dict_getitem_g.
            rewrite (assoc_map_items (fun k v => (v, F k v))). destruct (assoc (kfold_item c k) items); reflexivity. }
        rewrite (separate_loop_succeeds (fun a : value * res (list str * value) => fst a) c level results2
                   (keys results2) results2 Hn2 (fun _ => eq_refl) (fun k Hk => Hk)).
        - f_equal. rewrite (move_all_partition _ results2 Hn2). fold (stable_partition (moved_g (fun a : value * res (list str * value) => fst a) c results2 level) results2).
          rewrite (partition_ext _ (moved_key c items level)).
          + unfold results2, items2.
            rewrite <- (partition_map (moved_key c items level)
                          (fun kv : str * value => (fst kv, (snd kv, F (fst kv) (snd kv)))) _ (fun _ => eq_refl)).
            apply partition_idem.
          + intros k. unfold moved_g. rewrite Hcx. fold (moved_g (fun a : value * res (list str * value) => fst a) c results level k).
            unfold results. apply (moved_results F).
        - intros k Hk. unfold key_fact. rewrite Hcx. apply Hfacts.
          unfold results2, results in *. rewrite (keys_map_items (fun k v => (v, F k v))) in *.
          unfold items2 in Hk. unfold keys in *. rewrite in_map_iff in *. destruct Hk as (x & Hx & Hk).
          apply In_partition in Hk. unfold G in Hk. apply in_map_iff in Hk. destruct Hk as (y & <- & Hy).
          exists y. split; [exact Hx|exact Hy]. }
      change (map _ items2) with results2. rewrite Hsep2. cbn [bind].
      assert (Hc2 : collect_items results2 = Ok (ls, items2)).
      { unfold results2. rewrite <- Eits. apply (collect_items_again F sres ls its Hc).
        intros x r Hx Hr. apply Hin in Hx. unfold results in Hx. apply in_map_iff in Hx.
        destruct Hx as ([k v] & <- & Hkv). cbn [fst snd] in *.
        rewrite Forall_forall in IH. specialize (IH (k, v) Hkv). cbn [snd] in IH. destruct IH as [HT HL].
        apply (format_item_twice (t0 :: type_) comments level al k v r Hr HT HL).
        apply (uniq_keys_item c items k v Hu Hkv). }
      rewrite Hc2. cbn [bind fst snd]. reflexivity.
  Qed.

  Lemma pprint_one_twice v lines v' :
    uniq_keys v = true -> pprint_one o v = Ok (lines, v') -> pprint_one o v' = Ok (lines, v').
  Proof.
    intros Hu H. pose proof (pprint_one_after o v lines v' H (fun _ => Hu)) as Hv'. rewrite Hs in Hv'.
    unfold pprint_one in H. destruct v as [| | | | | |c items]; try discriminate H.
    assert (Hn : NoDup (keys items)).
    { apply nodupb_NoDup. cbn [uniq_keys] in Hu. apply andb_true_iff in Hu. tauto. }
    destruct (assoc (kfold_item c (Str "__type__")) items) as [t|] eqn:Et; [|destruct (has_factory c); discriminate H].
    assert (Hfmt : _format o 0 (VDict c items) = Ok (lines, v') ->
                   v' = sep_doc true 0 (VDict c items) ->
                   match t with VStr type_ => mem_str type_ root_keydict_types = false | _ => True end ->
                   pprint_one o v' = Ok (lines, v')).
    { intros Hf Hv Hroot. pose proof (proj1 (format_twice (VDict c items)) 0 lines v' Hf Hu) as H2.
      rewrite Hv in *. cbn [sep_doc] in *. unfold pprint_one.
      rewrite assoc_partition
        by (rewrite (keys_map_items (fun k v => sep_item (sep_doc true 1) k v)); exact Hn).
      rewrite (assoc_map_items (fun k v => sep_item (sep_doc true 1) k v)), Et.
      rewrite (sep_item_metadata _ _ t (metadata_fold_type_item c)).
      destruct t as [| | | |type_| |]; try exact H2.
      change (mem_str type_ [Str "metadata"; Str "validation"; Str "connectionoptions"])
        with (mem_str type_ root_keydict_types). rewrite Hroot. exact H2. }
    unfold sep_root in Hv'. rewrite Et in Hv'.
    destruct t as [| | | |type_| |]; try (apply (Hfmt H Hv' I)).
    change (mem_str type_ [Str "metadata"; Str "validation"; Str "connectionoptions"])
      with (mem_str type_ root_keydict_types) in H.
    destruct (mem_str type_ root_keydict_types) eqn:Em.
    - subst v'. unfold pprint_one. rewrite Et.
      change (mem_str type_ [Str "metadata"; Str "validation"; Str "connectionoptions"])
        with (mem_str type_ root_keydict_types). rewrite Em. exact H.
    - apply (Hfmt H Hv' eq_refl).
  Qed.
End Twice.

Lemma pprint_one_truthy o v r : pprint_one o v = Ok r -> truthy v = true.
Proof.
  unfold pprint_one. destruct v as [| | | | | |c items]; try discriminate.
  destruct items as [|kv items]; [|reflexivity]. cbn [assoc]. destruct (has_factory c); discriminate.
Qed.

(* printing twice in a row: same text, and the second call leaves its argument as it is *)
Theorem pprint_twice :
  forall o d s d', uniq_keys d = true -> pprint o d = Ok (s, d') -> pprint o d' = Ok (s, d').
Proof.
  intros o d s d' Hu H. destruct (separate_complex_types o) eqn:Hs.
  2:{ pose proof (pprint_argument_unchanged o d s d' Hs H) as E. subst d'. exact H. }
  unfold pprint in *. apply bind_Ok in H. destruct H as ([lines x] & Hl & H). injection H as <- <-. cbn [fst snd].
  enough (E : pprint_lines o x = Ok (lines, x)) by (rewrite E; reflexivity).
  unfold pprint_lines in *. destruct (negb (quote_ok o)); [discriminate|].
  destruct d as [| | | | |l|c items].
  - destruct (truthy VNone); discriminate Hl.
  - destruct (truthy (VBool b)); [|discriminate Hl]. apply bind_Ok in Hl. destruct Hl as (r & Hr & _). discriminate Hr.
  - destruct (truthy (VInt z)); [|discriminate Hl]. apply bind_Ok in Hl. destruct Hl as (r & Hr & _). discriminate Hr.
  - destruct (truthy (VFloat m e)); [|discriminate Hl]. apply bind_Ok in Hl. destruct Hl as (r & Hr & _). discriminate Hr.
  - destruct (truthy (VStr s)) eqn:Et.
    + apply bind_Ok in Hl. destruct Hl as (r & Hr & _). discriminate Hr.
    + injection Hl as <- <-. rewrite Et. reflexivity.
  - apply bind_Ok in Hl. destruct Hl as (rs & Hrs & Hl). injection Hl as <- <-.
    rewrite (mapM_again (pprint_one o) l rs Hrs); [reflexivity|].
    cbn [uniq_keys] in Hu. rewrite forallb_forall in Hu. apply Forall_forall. intros v Hv [ls v'] Hr. cbn [snd].
    apply (pprint_one_twice o Hs v ls v' (Hu v Hv) Hr).
  - destruct (truthy (VDict c items)) eqn:Et.
    + apply bind_Ok in Hl. destruct Hl as ([ls v'] & Hr & Hl). injection Hl as <- <-.
      pose proof (pprint_one_twice o Hs _ ls v' Hu Hr) as H2.
      destruct v' as [| | | | |l2|c2 items2]; try discriminate H2.
      rewrite (pprint_one_truthy o _ _ H2), H2. reflexivity.
    + injection Hl as <- <-. rewrite Et. reflexivity.
Qed.
