(* Facts about the parse loop: every token handed to the LR driver sits in the
   text where its recorded position says, for every input text. *)
From MF Require Import Lib.Base Lib.Regex Model.GrammarTypes Model.Lexer Model.LR
  Proofs.RegexFacts Proofs.LexFacts.
Open Scope N_scope.

Definition token_at (text : str) (t : token) : Prop :=
  exists q rest, text = q ++ tval t ++ rest /\
                 tpos t = len q /\ tline t = line_of q /\ tcol t = col_of q /\
                 tend_line t = line_of (q ++ tval t) /\ tend_col t = col_of (q ++ tval t).

Lemma hook_keeps_position h t vs t' text :
  hook h t vs = Ok t' -> token_at text t -> token_at text t' /\ tval t' = tval t.
Proof.
  unfold hook. intros H Ht.
  assert (R : forall ty, token_at text (retype t ty)) by (intros ty; exact Ht).
  destruct (ttype t =? h_unquoted h).
  - destruct (top_is (h_upper h) vs str_SYMBOL) as [b|e]; cbn [bind] in H; [|discriminate].
    destruct (b && negb (mem_str (h_upper h (tval t)) (h_symbol_attrs h)));
      injection H as <-; split; auto.
  - destruct (ttype t =? h_grid h).
    + destruct (top_is (h_upper h) vs str_NAME) as [b|e]; cbn [bind] in H; [|discriminate].
      destruct b; injection H as <-; split; auto.
    + injection H as <-. split; auto.
Qed.

Definition lexers_ok (g : grammar) : bool :=
  forallb newline_ok (g_lexers g) && newline_ok (g_root_lexer g).

Lemma nth_N_In {A} (l : list A) n x : nth_N l n = Some x -> In x l.
Proof. unfold nth_N. apply nth_error_In. Qed.

Theorem parse_loop_positions g h wc :
  lexers_ok g = true ->
  forall fuel text p st ss vs acc,
    lex_inv text p st ->
    Forall (token_at text) acc ->
    Forall (token_at text) (fst (parse_loop g h wc fuel st ss vs acc)).
Proof.
  intros Hok. apply andb_true_iff in Hok. destruct Hok as [Hall Hroot].
  rewrite forallb_forall in Hall.
  induction fuel as [|fuel IH]; intros text p st ss vs acc Hinv Hacc; cbn [parse_loop]; [exact Hacc|].
  destruct ss as [|state ss']; [exact Hacc|].
  unfold ctx_next.
  destruct (nth_N (g_lexer_of_state g) state) as [li|]; [|exact Hacc].
  destruct (nth_N (g_lexers g) li) as [lx|] eqn:Elx; [|exact Hacc].
  destruct (next_token g wc lx (S fuel) st) as [t st'| st' | stb] eqn:Ent.
  - (* a token *)
    destruct (next_token_positions g wc lx (Hall lx (nth_N_In _ _ _ Elx)) _ _ _ _ _ _ Hinv Ent)
      as (q & E1 & E2 & E3 & E4 & E5 & E6 & E7 & _).
    assert (Ht : token_at text t) by (exists q, (ls_rest st'); repeat split; assumption).
    destruct (hook h t vs) as [t'|e] eqn:Eh; [|exact Hacc].
    destruct (hook_keeps_position h t vs t' text Eh Ht) as [Ht' Hv].
    destruct (feed g wc (reduce_fuel g (state :: ss')) t' false (state :: ss') vs) as [ss2 vs2| v | e].
    + apply (IH text (q ++ tval t) st' ss2 vs2 (t' :: acc) E7). constructor; assumption.
    + constructor; assumption.
    + constructor; assumption.
  - destruct (feed g wc (reduce_fuel g (state :: ss')) _ true (state :: ss') vs); exact Hacc.
  - destruct (next_token g wc (g_root_lexer g) (S fuel) stb); exact Hacc.
Qed.

Theorem parse_trace_positions g h wc text :
  lexers_ok g = true ->
  Forall (token_at text) (fst (parse_text_tr g h wc text)).
Proof.
  intros Hok. unfold parse_text_tr.
  apply (parse_loop_positions g h wc Hok _ text [] (ls0 text)); [|constructor].
  split; [reflexivity|exact lc_inv_init].
Qed.

(* ---------------------------------------------------------------- leaves *)
(* every token in the parse tree is one of the tokens fed to the driver, i.e.
   the tree builder never invents or alters a token *)
Fixpoint leaves (t : tree) : list token :=
  match t with
  | Tok tk => [tk]
  | Node _ cs _ => flat_map leaves cs
  end.

Definition leaves_l (l : list tree) : list token := flat_map leaves l.

Lemma leaves_l_app a b : leaves_l (a ++ b) = leaves_l a ++ leaves_l b.
Proof. unfold leaves_l. apply flat_map_app. Qed.

Lemma incl_nth_leaves cs i c : nth_error cs i = Some c -> incl (leaves c) (leaves_l cs).
Proof.
  revert i; induction cs as [|x cs IH]; intros [|i] H; cbn in H; try discriminate.
  - injection H as ->. unfold leaves_l. cbn [flat_map]. apply incl_appl, incl_refl.
  - unfold leaves_l. cbn [flat_map]. apply incl_appr. eapply IH. exact H.
Qed.

Lemma apply_filter_leaves inc cs out :
  apply_filter inc cs = Ok out -> incl (leaves_l out) (leaves_l cs).
Proof.
  revert out; induction inc as [|[i ex] inc IH]; intros out H; cbn [apply_filter] in H.
  - injection H as <-. intros x [].
  - destruct (nth_error cs i) as [c|] eqn:E; [|discriminate].
    destruct (apply_filter inc cs) as [rest|e]; cbn [bind] in H; [|discriminate].
    specialize (IH rest eq_refl). pose proof (incl_nth_leaves cs i c E) as Hc.
    destruct ex.
    + destruct c as [tk|d kids m]; [discriminate|]. injection H as <-.
      rewrite leaves_l_app. apply incl_app; [exact Hc|exact IH].
    + injection H as <-. unfold leaves_l in *. cbn [flat_map]. apply incl_app; [exact Hc|exact IH].
Qed.

Lemma propagate_leaves cs t : leaves (propagate cs t) = leaves t.
Proof.
  destruct t as [tk|d kids m]; [reflexivity|]. cbn [propagate].
  destruct (first_meta_start cs); destruct (first_meta_end (rev cs)); reflexivity.
Qed.

Lemma build_leaves pp r cs v : build pp r cs = Ok v -> incl (leaves v) (leaves_l cs).
Proof.
  unfold build. intros H.
  destruct (match r_filter r with Some inc => apply_filter inc cs | None => Ok cs end) as [f|e] eqn:E;
    cbn [bind] in H; [|discriminate].
  assert (Hf : incl (leaves_l f) (leaves_l cs)).
  { destruct (r_filter r); [eapply apply_filter_leaves; exact E|]. injection E as <-. apply incl_refl. }
  injection H as <-.
  assert (Hn : incl (leaves (match r_expand1 r, f with
                             | true, [c] => c
                             | _, _ => Node (r_name r) f meta0
                             end)) (leaves_l cs)).
  { destruct (r_expand1 r); [destruct f as [|c [|c2 f']]|]; cbn [leaves]; try exact Hf.
    unfold leaves_l in Hf. cbn [flat_map] in Hf. rewrite app_nil_r in Hf. exact Hf. }
  destruct pp; [rewrite propagate_leaves|]; exact Hn.
Qed.

Lemma pop_n_split {A} n (l p r : list A) : pop_n n l = Some (p, r) -> l = p ++ r.
Proof.
  revert l p r; induction n as [|n IH]; intros l p r H; cbn [pop_n] in H.
  - injection H as <- <-. reflexivity.
  - destruct l as [|x l]; [discriminate|].
    destruct (pop_n n l) as [[p' r']|] eqn:E; [|discriminate]. injection H as <- <-.
    cbn [app]. f_equal. apply IH. exact E.
Qed.

Lemma leaves_l_rev l x : In x (leaves_l (rev l)) -> In x (leaves_l l).
Proof.
  unfold leaves_l. rewrite !in_flat_map. intros (t & Ht & Hx). exists t. split; [|exact Hx].
  apply in_rev. exact Ht.
Qed.

Lemma feed_leaves g pp tok is_end : forall fuel ss vs (S : list token),
  incl (leaves_l vs) S ->
  match feed g pp fuel tok is_end ss vs with
  | FShift _ vs' => incl (leaves_l vs') (tok :: S)
  | FDone v => incl (leaves v) S
  | FErr _ => True
  end.
Proof.
  induction fuel as [|fuel IH]; intros ss vs S Hs; cbn [feed]; [exact I|].
  destruct ss as [|state ss']; [exact I|].
  destruct (lookup_action g state (ttype tok)) as [[ns|ri]|]; [| |exact I].
  - destruct is_end; [exact I|]. unfold leaves_l in *. cbn [flat_map leaves].
    intros x [<-|Hx]; [left; reflexivity|right; apply Hs; exact Hx].
  - destruct (nth_N (g_rules g) ri) as [r|]; [|exact I].
    destruct (pop_n (length (r_expansion r)) (state :: ss')) as [[p1 ss1]|]; [|exact I].
    destruct (pop_n (length (r_expansion r)) vs) as [[popped vs1]|] eqn:Ep; [|exact I].
    destruct (build pp r (rev popped)) as [value|e] eqn:Eb; [|exact I].
    destruct ss1 as [|top ss1']; [exact I|].
    destruct (lookup_action g top (r_origin r)) as [[ns|?]|]; try exact I.
    apply pop_n_split in Ep. subst vs. rewrite leaves_l_app in Hs.
    assert (Hv : incl (leaves value) S).
    { intros x Hx. apply Hs. apply in_or_app. left.
      apply leaves_l_rev. eapply build_leaves; eassumption. }
    destruct (is_end && (ns =? g_end g)); [exact Hv|].
    apply IH. unfold leaves_l in *. cbn [flat_map]. apply incl_app; [exact Hv|].
    intros x Hx. apply Hs. apply in_or_app. right. exact Hx.
Qed.

Theorem parse_loop_leaves g h wc : forall fuel st ss vs acc,
  incl (leaves_l vs) acc ->
  match snd (parse_loop g h wc fuel st ss vs acc) with
  | Ok po => incl (leaves (po_tree po)) (fst (parse_loop g h wc fuel st ss vs acc))
  | Err _ => True
  end.
Proof.
  induction fuel as [|fuel IH]; intros st ss vs acc Hs; cbn [parse_loop]; [exact I|].
  destruct ss as [|state ss']; [exact I|].
  destruct (ctx_next g wc state (S fuel) st) as [t st'|st'|l c|t]; try exact I.
  - destruct (hook h t vs) as [t'|e]; [|exact I].
    pose proof (feed_leaves g wc t' false (reduce_fuel g (state :: ss')) (state :: ss') vs acc Hs) as Hf.
    destruct (feed g wc (reduce_fuel g (state :: ss')) t' false (state :: ss') vs) as [ss2 vs2|v|e];
      [|exact I|exact I].
    apply IH. exact Hf.
  - match goal with |- context [feed g wc ?F ?T true ?SS vs] =>
      pose proof (feed_leaves g wc T true F SS vs acc Hs) as Hf;
      destruct (feed g wc F T true SS vs) as [ss2 vs2|v|e]; try exact I
    end.
    cbn [snd fst po_tree]. exact Hf.
Qed.

(* every token of the tree sits in the text at its recorded position *)
Theorem tree_tokens_positions g h wc text po :
  lexers_ok g = true ->
  parse_text g h wc text = Ok po ->
  Forall (token_at text) (leaves (po_tree po)).
Proof.
  intros Hok H. unfold parse_text in H.
  pose proof (parse_trace_positions g h wc text Hok) as Ht.
  pose proof (parse_loop_leaves g h wc (S (length text)) (ls0 text) [g_start g] [] []) as Hl.
  unfold parse_text_tr in *. rewrite H in Hl.
  rewrite Forall_forall in *. intros x Hx. apply Ht. apply Hl; [intros y []|exact Hx].
Qed.
