From MF Require Import Lib.Base Gen.Unicode Model.Case Model.Includes Spec.Subst Proofs.C15.
Open Scope N_scope.

(* ================================================================== *)
(* D. the model is textual substitution with the code's line reader    *)
(* ================================================================== *)

(* how the code reads a line: which lines it takes for INCLUDE lines and the
   name (or IndexError) it extracts *)
Definition code_reader (l : str) : option (res str) :=
  if starts_include l then Some (get_include_filename l) else None.

(* one line of Spec.subst_by *)
Definition subst_line (read : place -> option str) (reader : str -> option (res str)) (base : place)
           (budget : nat) (l : str) : res str :=
  match reader l with
  | None => Ok l
  | Some r =>
      match budget with
      | O => Err PyValueError
      | S b =>
          do name <- r;
          match read (locate base name) with
          | None => Err PyIOError
          | Some t => subst_by read reader base b t
          end
      end
  end.

Lemma subst_by_eq read reader base budget text :
  subst_by read reader base budget text =
    do ls <- mapM (subst_line read reader base budget) (lines_of text); Ok (unlines ls).
Proof. destruct budget; reflexivity. Qed.

Section Main.
  Variable fs : fsys.
  Variable cwd fn : str.
  Hypothesis Hcwd : isabs cwd = true.

  Lemma model_is_subst_by :
    forall budget text, (budget <= 5)%nat ->
      load_includes_fuel fs cwd fn (S budget) text (5 - budget) =
        subst_by (text_of fs) code_reader (locate (locate [] cwd) (folder_text fn)) budget text.
  Proof.
    induction budget as [|b IH]; intros text Hb;
      rewrite load_includes_fuel_step, subst_by_eq, lines_of_split.
    - rewrite (mapM_ext _ (subst_line (text_of fs) code_reader (locate (locate [] cwd) (folder_text fn)) 0)).
      + destruct (mapM _ _); cbn [bind]; [rewrite unlines_join|]; reflexivity.
      + intros l _. unfold expand_line, subst_line, code_reader.
        destruct (starts_include l); reflexivity.
    - rewrite (mapM_ext _ (subst_line (text_of fs) code_reader (locate (locate [] cwd) (folder_text fn)) (S b))).
      + destruct (mapM _ _); cbn [bind]; [rewrite unlines_join|]; reflexivity.
      + intros l _. unfold expand_line, subst_line, code_reader.
        destruct (starts_include l); [|reflexivity].
        destruct (Nat.eqb_spec (5 - S b) 5) as [E|_]; [lia|].
        destruct (get_include_filename l) as [inc|e]; cbn [bind]; [|reflexivity].
        unfold open_file. rewrite include_path_location by exact Hcwd.
        destruct (text_of fs _) as [t|]; cbn [bind]; [|reflexivity].
        replace (S (5 - S b)) with (5 - b)%nat by lia. apply IH. lia.
  Qed.
End Main.

Theorem includes_are_substitution_by_code_reader fs cwd text fn :
  isabs cwd = true ->
  load_includes fs cwd text fn =
    subst_by (text_of fs) code_reader (root_folder cwd fn) 5 text.
Proof.
  intros Hcwd. unfold load_includes. rewrite root_folder_default by exact Hcwd.
  apply (model_is_subst_by fs cwd (default_fn cwd fn) Hcwd 5%nat text). lia.
Qed.

(* at every nesting level the same base folder is used *)
Theorem root_relative_at_every_depth fs cwd fn nested text :
  isabs cwd = true -> (nested <= 5)%nat ->
  load_includes_fuel fs cwd (default_fn cwd fn) (6 - nested) text nested =
    subst_by (text_of fs) code_reader (root_folder cwd fn) (5 - nested) text.
Proof.
  intros Hcwd Hn. rewrite root_folder_default by exact Hcwd.
  replace (6 - nested)%nat with (S (5 - nested)) by lia.
  replace nested with (5 - (5 - nested))%nat at 2 by lia.
  apply model_is_subst_by; [exact Hcwd|lia].
Qed.

(* ================================================================== *)
(* E. totality, the depth bound, error kinds                           *)
(* ================================================================== *)

Lemma mapM_Err {A B} (f : A -> res B) l e :
  mapM f l = Err e -> exists x, In x l /\ f x = Err e.
Proof.
  induction l as [|x l IH]; cbn [mapM bind]; [discriminate|].
  destruct (f x) as [y|e'] eqn:E; cbn [bind].
  - destruct (mapM f l) as [ys|e'']; cbn [bind]; [discriminate|].
    intros [= ->]. destruct (IH eq_refl) as (x' & Hin & Hx). exists x'. split; [right|]; assumption.
  - intros [= ->]. exists x. split; [left; reflexivity|exact E].
Qed.

Lemma mapM_Ok_iff {A B} (f : A -> res B) l :
  (exists r, mapM f l = Ok r) <-> Forall (fun x => exists y, f x = Ok y) l.
Proof.
  induction l as [|x l IH]; cbn [mapM bind].
  - split; [constructor|exists []; reflexivity].
  - split.
    + intros (r & H). destruct (f x) as [y|e] eqn:E; cbn [bind] in H; [|discriminate].
      destruct (mapM f l) as [ys|e]; cbn [bind] in H; [|discriminate].
      constructor; [exists y; exact E|]. apply IH. exists ys. reflexivity.
    + intros H. inversion H as [|? ? (y & Hy) Hl]; subst. apply IH in Hl. destruct Hl as (ys & Hys).
      exists (y :: ys). rewrite Hy. cbn [bind]. rewrite Hys. reflexivity.
Qed.

Lemma mapM_Forall2 {A B} (f : A -> res B) l r :
  mapM f l = Ok r -> Forall2 (fun x y => f x = Ok y) l r.
Proof.
  revert r; induction l as [|x l IH]; intros r; cbn [mapM bind]; [intros [= <-]; constructor|].
  destruct (f x) as [y|e] eqn:E; cbn [bind]; [|discriminate].
  destruct (mapM f l) as [ys|e]; cbn [bind]; [|discriminate].
  intros [= <-]. constructor; [exact E|]. apply IH. reflexivity.
Qed.

(* the first failing line decides *)
Lemma mapM_first_Err {A B} (f : A -> res B) pre x post e :
  Forall (fun z => exists y, f z = Ok y) pre -> f x = Err e -> mapM f (pre ++ x :: post) = Err e.
Proof.
  induction pre as [|z pre IH]; intros Hpre Hx; cbn [app mapM bind].
  - rewrite Hx. reflexivity.
  - inversion Hpre as [|? ? (y & Hy) Hp]; subst. rewrite Hy. cbn [bind]. rewrite IH by assumption.
    reflexivity.
Qed.

Lemma Forall2_flat_map {A B C} (R : A -> B -> Prop) (P : C -> Prop) (g : B -> list C) xs ys :
  Forall2 R xs ys -> (forall x y, In x xs -> R x y -> Forall P (g y)) -> Forall P (flat_map g ys).
Proof.
  induction 1 as [|x y xs ys Hxy _ IH]; intros H; cbn [flat_map]; [constructor|].
  apply Forall_app. split.
  - apply (H x y); [left; reflexivity|exact Hxy].
  - apply IH. intros x' y' Hin. apply H. right. exact Hin.
Qed.

Lemma get_include_filename_Err l e : get_include_filename l = Err e -> e = PyIndexError.
Proof.
  unfold get_include_filename. destruct (nth_error _ 1); [discriminate|]. intros [= <-]. reflexivity.
Qed.

(* the fuel of the model is never exhausted, and the only exceptions are the
   three the code can raise *)
Lemma load_includes_fuel_errors fs cwd fn :
  forall fuel text nested e,
    (6 <= fuel + nested)%nat -> (nested <= 5)%nat ->
    load_includes_fuel fs cwd fn fuel text nested = Err e ->
    e = PyValueError \/ e = PyIOError \/ e = PyIndexError.
Proof.
  induction fuel as [|fuel IH]; intros text nested e H6 H5; [lia|].
  rewrite load_includes_fuel_step.
  destruct (mapM _ _) as [ls|e'] eqn:E; cbn [bind]; [discriminate|]. intros [= ->].
  apply mapM_Err in E. destruct E as (l & _ & Hl). unfold expand_line in Hl.
  destruct (starts_include l); [|discriminate].
  destruct (Nat.eqb_spec nested 5) as [->|Hn]; [left; congruence|].
  destruct (get_include_filename l) as [inc|e'] eqn:Eg; cbn [bind] in Hl.
  - unfold open_file in Hl. destruct (text_of fs _) as [t|]; cbn [bind] in Hl.
    + apply (IH t (S nested) e); [lia|lia|exact Hl].
    + right; left. congruence.
  - right; right. apply get_include_filename_Err in Eg. congruence.
Qed.

Theorem load_includes_never_out_of_fuel fs cwd text fn e :
  load_includes fs cwd text fn = Err e ->
  e = PyValueError \/ e = PyIOError \/ e = PyIndexError.
Proof. apply load_includes_fuel_errors; lia. Qed.

Section Depth.
  Variable read : place -> option str.
  Variable reader : str -> option (res str).
  Variable base : place.
  Notation sline := (subst_line read reader base).
  Notation sby := (subst_by read reader base).

  (* "the include tree below [text] is complete and at most [budget] files deep" *)
  Fixpoint depth_le (budget : nat) (text : str) {struct budget} : Prop :=
    Forall (fun l =>
              match reader l with
              | None => True
              | Some r =>
                  match budget with
                  | O => False
                  | S b => exists name t, r = Ok name /\ read (locate base name) = Some t /\ depth_le b t
                  end
              end) (lines_of text).

  Lemma depth_le_eq budget text :
    depth_le budget text =
    Forall (fun l =>
              match reader l with
              | None => True
              | Some r =>
                  match budget with
                  | O => False
                  | S b => exists name t, r = Ok name /\ read (locate base name) = Some t /\ depth_le b t
                  end
              end) (lines_of text).
  Proof. destruct budget; reflexivity. Qed.

  (* expansion succeeds exactly on complete include trees of depth <= budget *)
  Theorem subst_by_Ok_iff : forall budget text, (exists out, sby budget text = Ok out) <-> depth_le budget text.
  Proof.
    induction budget as [|b IH]; intros text; rewrite subst_by_eq, depth_le_eq.
    - split.
      + intros (out & H). destruct (mapM _ _) as [ls|e] eqn:E; cbn [bind] in H; [|discriminate].
        assert (HF : exists r, mapM (sline 0) (lines_of text) = Ok r) by (exists ls; exact E).
        apply mapM_Ok_iff in HF. eapply Forall_impl; [|exact HF].
        intros l (y & Hy). unfold subst_line in Hy. destruct (reader l); [discriminate|exact I].
      + intros H. assert (HF : exists r, mapM (sline 0) (lines_of text) = Ok r).
        { apply mapM_Ok_iff. eapply Forall_impl; [|exact H]. intros l. unfold subst_line.
          destruct (reader l); intros Hl; [contradiction|]. exists l. reflexivity. }
        destruct HF as (r & Hr). rewrite Hr. cbn [bind]. eexists. reflexivity.
    - split.
      + intros (out & H). destruct (mapM _ _) as [ls|e] eqn:E; cbn [bind] in H; [|discriminate].
        assert (HF : exists r, mapM (sline (S b)) (lines_of text) = Ok r) by (exists ls; exact E).
        apply mapM_Ok_iff in HF. eapply Forall_impl; [|exact HF].
        intros l (y & Hy). unfold subst_line in Hy. destruct (reader l) as [r|]; [|exact I].
        destruct r as [name|e]; cbn [bind] in Hy; [|discriminate].
        destruct (read (locate base name)) as [t|] eqn:Er; [|discriminate].
        exists name, t. split; [reflexivity|]. split; [exact Er|]. apply IH. exists y. exact Hy.
      + intros H. assert (HF : exists r, mapM (sline (S b)) (lines_of text) = Ok r).
        { apply mapM_Ok_iff. eapply Forall_impl; [|exact H]. intros l. unfold subst_line.
          destruct (reader l) as [r|]; intros Hl; [|exists l; reflexivity].
          destruct Hl as (name & t & -> & Hr & Hd). cbn [bind]. rewrite Hr. apply IH. exact Hd. }
        destruct HF as (r & Hr). rewrite Hr. cbn [bind]. eexists. reflexivity.
  Qed.

  (* which errors there are *)
  Theorem subst_by_errors : forall budget text e,
      sby budget text = Err e ->
      e = PyValueError \/ e = PyIOError \/ exists l, reader l = Some (Err e).
  Proof.
    induction budget as [|b IH]; intros text e; rewrite subst_by_eq;
      destruct (mapM _ _) as [ls|e'] eqn:E; cbn [bind]; try discriminate; intros [= ->];
      apply mapM_Err in E; destruct E as (l & _ & Hl); unfold subst_line in Hl;
      destruct (reader l) as [r|] eqn:Er; try discriminate.
    - left. congruence.
    - destruct r as [name|e']; cbn [bind] in Hl.
      + destruct (read (locate base name)) as [t|]; [apply (IH t e Hl)|]. right; left. congruence.
      + right; right. exists l. congruence.
  Qed.

  (* an I/O error means some directive named a location without a file *)
  Theorem subst_by_IOError : forall budget text,
      sby budget text = Err PyIOError ->
      (exists name, read (locate base name) = None) \/ exists l, reader l = Some (Err PyIOError).
  Proof.
    induction budget as [|b IH]; intros text; rewrite subst_by_eq;
      destruct (mapM _ _) as [ls|e'] eqn:E; cbn [bind]; try discriminate; intros [= ->];
      apply mapM_Err in E; destruct E as (l & _ & Hl); unfold subst_line in Hl;
      destruct (reader l) as [r|] eqn:Er; try discriminate.
    destruct r as [name|e']; cbn [bind] in Hl.
    - destruct (read (locate base name)) as [t|] eqn:Et; [apply (IH t Hl)|]. left. exists name. exact Et.
    - right. exists l. congruence.
  Qed.

  (* how each error arises: the first line that fails decides *)
  Definition line_fine (budget : nat) (l : str) : Prop := exists y, sline budget l = Ok y.

  Theorem directive_below_budget_is_ValueError text pre l post r :
    lines_of text = pre ++ l :: post -> Forall (line_fine 0) pre -> reader l = Some r ->
    sby 0 text = Err PyValueError.
  Proof.
    intros Hl Hpre Hr. rewrite subst_by_eq, Hl.
    rewrite (mapM_first_Err _ pre l post PyValueError); [reflexivity|exact Hpre|].
    unfold subst_line. rewrite Hr. reflexivity.
  Qed.

  Theorem missing_file_is_IOError b text pre l post name :
    lines_of text = pre ++ l :: post -> Forall (line_fine (S b)) pre ->
    reader l = Some (Ok name) -> read (locate base name) = None ->
    sby (S b) text = Err PyIOError.
  Proof.
    intros Hl Hpre Hr Hm. rewrite subst_by_eq, Hl.
    rewrite (mapM_first_Err _ pre l post PyIOError); [reflexivity|exact Hpre|].
    unfold subst_line. rewrite Hr. cbn [bind]. rewrite Hm. reflexivity.
  Qed.

  Theorem nested_error_propagates b text pre l post name t e :
    lines_of text = pre ++ l :: post -> Forall (line_fine (S b)) pre ->
    reader l = Some (Ok name) -> read (locate base name) = Some t -> sby b t = Err e ->
    sby (S b) text = Err e.
  Proof.
    intros Hl Hpre Hr Ht He. rewrite subst_by_eq, Hl.
    rewrite (mapM_first_Err _ pre l post e); [reflexivity|exact Hpre|].
    unfold subst_line. rewrite Hr. cbn [bind]. rewrite Ht. exact He.
  Qed.

  (* chains of directives: [has_chain k text] = some directive of text names a
     file that has a chain of k - 1, ... *)
  Fixpoint has_chain (k : nat) (text : str) {struct k} : Prop :=
    match k with
    | O => True
    | S k' => exists l r, In l (lines_of text) /\ reader l = Some r /\
                          forall name t, r = Ok name -> read (locate base name) = Some t -> has_chain k' t
    end.

  Theorem chain_exceeds_budget : forall budget text,
      has_chain (S budget) text -> forall out, sby budget text <> Ok out.
  Proof.
    induction budget as [|b IH]; intros text (l & r & Hin & Hr & Hnext) out Hout.
    - assert (Hd : depth_le 0 text) by (apply subst_by_Ok_iff; exists out; exact Hout).
      rewrite depth_le_eq, Forall_forall in Hd. specialize (Hd l Hin). rewrite Hr in Hd. exact Hd.
    - assert (Hd : depth_le (S b) text) by (apply subst_by_Ok_iff; exists out; exact Hout).
      rewrite depth_le_eq, Forall_forall in Hd. specialize (Hd l Hin). rewrite Hr in Hd.
      destruct Hd as (name & t & -> & Ht & Hdt).
      apply subst_by_Ok_iff in Hdt. destruct Hdt as (o & Ho).
      exact (IH t (Hnext name t eq_refl Ht) o Ho).
  Qed.

  (* cyclic inclusion: chains of every length *)
  Definition cyclic (text : str) : Prop := forall k, has_chain k text.

  Theorem cyclic_never_expands text : cyclic text -> forall budget out, sby budget text <> Ok out.
  Proof. intros Hc budget. apply chain_exceeds_budget. apply Hc. Qed.

  (* a file that includes itself is cyclic *)
  Theorem self_include_cyclic text l name :
    In l (lines_of text) -> reader l = Some (Ok name) -> read (locate base name) = Some text ->
    cyclic text.
  Proof.
    intros Hin Hr Ht k. induction k as [|k IH]; [exact I|].
    exists l, (Ok name). split; [exact Hin|]. split; [exact Hr|].
    intros name' t' [= <-] Ht'. rewrite Ht in Ht'. injection Ht' as <-. exact IH.
  Qed.

  (* two files that include each other are cyclic *)
  Theorem mutual_include_cyclic ta tb la lb na nb :
    In la (lines_of ta) -> reader la = Some (Ok nb) -> read (locate base nb) = Some tb ->
    In lb (lines_of tb) -> reader lb = Some (Ok na) -> read (locate base na) = Some ta ->
    cyclic ta.
  Proof.
    intros Ha Hra Htb Hb Hrb Hta.
    assert (H : forall k, has_chain k ta /\ has_chain k tb).
    { induction k as [|k [IHa IHb]]; [split; exact I|]. split.
      - exists la, (Ok nb). split; [exact Ha|]. split; [exact Hra|].
        intros n t [= <-] Ht. rewrite Htb in Ht. injection Ht as <-. exact IHb.
      - exists lb, (Ok na). split; [exact Hb|]. split; [exact Hrb|].
        intros n t [= <-] Ht. rewrite Hta in Ht. injection Ht as <-. exact IHa. }
    intros k. apply H.
  Qed.

  (* ---------------------------------------------------------------- *)
  (* F. the expansion contains no directive: expanding again changes    *)
  (*    nothing                                                         *)
  (* ---------------------------------------------------------------- *)
  Lemma mapM_lines_nonnil {B} (f : str -> res B) text ls : mapM f (lines_of text) = Ok ls -> ls <> [].
  Proof.
    intros E Hn. apply mapM_length in E. rewrite lines_of_split, Hn in E.
    destruct (split_char c_nl text) eqn:E2; [eapply split_char_nonnil; eassumption|discriminate].
  Qed.

  Lemma line_in_text_no_nl text x : In x (lines_of text) -> contains_char c_nl x = false.
  Proof.
    rewrite lines_of_split. intros Hin.
    pose proof (split_char_pieces_nosep c_nl text) as H. rewrite Forall_forall in H. exact (H x Hin).
  Qed.

  Theorem subst_by_output_directive_free : forall budget text out,
      sby budget text = Ok out -> Forall (fun l => reader l = None) (lines_of out).
  Proof.
    induction budget as [|b IH]; intros text out; rewrite subst_by_eq;
      destruct (mapM _ _) as [ls|e] eqn:E; cbn [bind]; try discriminate; intros [= <-];
      rewrite unlines_join, lines_of_split;
      rewrite split_char_join by exact (mapM_lines_nonnil _ _ _ E);
      apply mapM_Forall2 in E;
      (eapply Forall2_flat_map; [exact E|]); intros x y Hin Hxy; cbn beta in Hxy;
      apply line_in_text_no_nl in Hin; unfold subst_line in Hxy;
      destruct (reader x) as [r|] eqn:Er.
    - discriminate.
    - injection Hxy as <-. rewrite split_char_no_sep by exact Hin. constructor; [exact Er|constructor].
    - destruct r as [name|e]; cbn [bind] in Hxy; [|discriminate].
      destruct (read (locate base name)) as [t|]; [|discriminate].
      rewrite <- lines_of_split. exact (IH t y Hxy).
    - injection Hxy as <-. rewrite split_char_no_sep by exact Hin. constructor; [exact Er|constructor].
  Qed.

  Theorem subst_by_identity_on_directive_free budget text :
    Forall (fun l => reader l = None) (lines_of text) -> sby budget text = Ok text.
  Proof.
    intros H. rewrite subst_by_eq. rewrite mapM_id_on.
    - cbn [bind]. rewrite unlines_join, lines_of_split, join_split_char. reflexivity.
    - intros l Hl. rewrite Forall_forall in H. unfold subst_line. rewrite (H l Hl). reflexivity.
  Qed.
End Depth.

(* the model on a text without lines that start with include: untouched,
   whatever the file system, working directory and file name *)
Theorem load_includes_identity_on_directive_free fs cwd text fn :
  Forall (fun l => starts_include l = false) (split_char c_nl text) ->
  load_includes fs cwd text fn = Ok text.
Proof.
  intros H. unfold load_includes. rewrite load_includes_fuel_step, mapM_id_on.
  - cbn [bind]. rewrite join_split_char. reflexivity.
  - intros l Hl. rewrite Forall_forall in H. unfold expand_line. rewrite (H l Hl). reflexivity.
Qed.

Lemma code_reader_None l : code_reader l = None <-> starts_include l = false.
Proof. unfold code_reader. destruct (starts_include l); split; congruence. Qed.

(* open(root) and loads(flattened): the LALR parser receives the same text *)
Theorem expansion_is_fixed_point fs cwd text fn flat :
  isabs cwd = true ->
  load_includes fs cwd text fn = Ok flat ->
  forall fs' cwd' fn', load_includes fs' cwd' flat fn' = Ok flat.
Proof.
  intros Hcwd H fs' cwd' fn'. rewrite includes_are_substitution_by_code_reader in H by exact Hcwd.
  apply subst_by_output_directive_free in H. rewrite lines_of_split in H.
  apply load_includes_identity_on_directive_free.
  eapply Forall_impl; [|exact H]. intros l. apply code_reader_None.
Qed.
