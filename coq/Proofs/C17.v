(* C17: CaseInsensitiveOrderedDict refines the reference ordered dict keyed by
   folded keys, for every operation sequence. *)
From MF Require Import Lib.Base Lib.PyDict Model.OrderedDict Spec.RefDict.

Lemma value_eqb_refl v : value_eqb v v = true.
Proof.
  induction v as [| | | | |l IH|c items IH] using value_ind'; cbn [value_eqb];
    try reflexivity.
  - destruct b; reflexivity.
  - apply Z.eqb_refl.
  - rewrite !Z.eqb_refl. reflexivity.
  - apply str_eqb_refl.
  - induction IH as [|x l Hx _ IHl]; [reflexivity|]. rewrite Hx, IHl. reflexivity.
  - induction IH as [|[k x] l Hx _ IHl]; [reflexivity|].
    cbn [snd] in Hx. rewrite str_eqb_refl, Hx, IHl. reflexivity.
Qed.

Section Proofs.
  Variable fold : str -> str.
  Variable olk : list str.
  Hypothesis fold_idem : forall k, fold (fold k) = fold k.
  Notation items := (list (str * value)).
  Notation Inv := (Inv fold).
  Notation keys_folded := (keys_folded fold).

  (* ------------------------------------------------ invariant lemmas *)
  Lemma Inv_nil : Inv [].
  Proof. split; constructor. Qed.

  Lemma Inv_set m k v : fold k = k -> Inv m -> Inv (od_set k v m).
  Proof.
    intros Hk [Hf Hn]. split; [|apply NoDup_set; assumption].
    unfold keys_folded. rewrite keys_set. destruct (od_mem k m); [assumption|].
    apply Forall_app. split; [assumption|]. constructor; [assumption|constructor].
  Qed.

  Lemma Inv_del m k : Inv m -> Inv (od_del k m).
  Proof.
    intros [Hf Hn]. split; [|apply NoDup_del; assumption].
    unfold keys_folded in *. rewrite Forall_forall in *.
    intros x Hx. apply Hf. eapply In_keys_del; eassumption.
  Qed.

  Lemma Inv_in_folded m k : Inv m -> In k (keys m) -> fold k = k.
  Proof. intros [Hf _] Hin. unfold keys_folded in Hf. rewrite Forall_forall in Hf. auto. Qed.

  Lemma keys_snoc (m : items) k v : keys (m ++ [(k, v)]) = keys m ++ [k].
  Proof. unfold keys. rewrite map_app. reflexivity. Qed.

  Lemma Inv_snoc m k v : fold k = k -> ~ In k (keys m) -> Inv m -> Inv (m ++ [(k, v)]).
  Proof.
    intros Hk Hn [Hf Hd]. split.
    - unfold keys_folded. rewrite keys_snoc. apply Forall_app. split; [assumption|].
      constructor; [assumption|constructor].
    - rewrite keys_snoc. apply NoDup_snoc; assumption.
  Qed.

  Lemma Inv_move_to_end m k : Inv m -> Inv (od_move_to_end k m).
  Proof.
    intros HI. unfold od_move_to_end. destruct (assoc k m) eqn:E; [|assumption].
    assert (Hin : In k (keys m)).
    { apply assoc_Some_in in E. unfold keys. apply in_map_iff. exists (k, v). auto. }
    apply Inv_snoc.
    - eapply Inv_in_folded; eassumption.
    - intros H. assert (E2 := get_del_same k m (proj2 HI)).
      apply assoc_None_notin in E2. tauto.
    - apply Inv_del. assumption.
  Qed.

  Lemma fold_items_keys_folded e : keys_folded (fold_items fold e).
  Proof.
    unfold keys_folded, keys, fold_items. rewrite map_map. cbn [fst].
    apply Forall_forall. intros x Hx. apply in_map_iff in Hx.
    destruct Hx as (kv & <- & _). apply fold_idem.
  Qed.

  Lemma Inv_setall e m : keys_folded e -> Inv m -> Inv (od_setall e m).
  Proof.
    revert m; induction e as [|[k v] e IH]; intros m He Hm; cbn; [assumption|].
    inversion He as [|? ? Hk He']; subst.
    apply IH; [assumption|]. apply Inv_set; assumption.
  Qed.

  Lemma fold_items_id m : keys_folded m -> fold_items fold m = m.
  Proof.
    induction m as [|[k v] m IH]; intros H; [reflexivity|].
    inversion H as [|? ? Hk H']; subst. cbn [fold_items map fst snd] in *.
    rewrite Hk. f_equal. apply IH. assumption.
  Qed.

  (* od_setall of a duplicate-free list into the empty dict rebuilds it *)
  Lemma setall_snoc_self (pre m : items) :
    NoDup (keys (pre ++ m)) -> od_setall m pre = pre ++ m.
  Proof.
    revert pre; induction m as [|[k v] m IH]; intros pre Hn; cbn [od_setall fold_left fst snd].
    - rewrite app_nil_r. reflexivity.
    - change (fold_left _ m ?d) with (od_setall m d).
      assert (Hk : od_mem k pre = false).
      { destruct (od_mem k pre) eqn:E; [|reflexivity]. apply od_mem_In in E.
        unfold keys in Hn. rewrite map_app in Hn. cbn [map fst] in Hn.
        apply NoDup_remove_2 in Hn. exfalso. apply Hn. apply in_or_app. left. exact E. }
      rewrite (set_new_appends k v pre Hk).
      rewrite IH; rewrite <- app_assoc; [reflexivity|exact Hn].
  Qed.

  Lemma setall_self (m : items) : NoDup (keys m) -> od_setall m [] = m.
  Proof. intros H. apply (setall_snoc_self [] m). exact H. Qed.

  (* ------------------------------------------------ method lemmas *)
  Lemma getitem_present f k m v :
    assoc (fold k) m = Some v -> ci_getitem fold olk f k m = Ok (v, m).
  Proof.
    intros H. unfold ci_getitem, _k. rewrite fold_idem, H. reflexivity.
  Qed.

  Lemma getitem_missing f k m :
    assoc (fold k) m = None ->
    ci_getitem fold olk f k m =
      if f then Ok (fresh_value olk (fold k), od_set (fold k) (fresh_value olk (fold k)) m)
      else Err PyKeyError.
  Proof.
    intros H. unfold ci_getitem, _k. rewrite fold_idem, H.
    unfold ci_missing, ci_setitem, _k, fresh_value. rewrite fold_idem.
    destruct f; [|reflexivity]. destruct (mem_str (fold k) olk); reflexivity.
  Qed.

  Lemma pop_sub_present f k m v :
    fold k = k -> assoc k m = Some v ->
    od_pop_sub fold olk f k None m = Ok (v, od_del k m).
  Proof.
    intros Hk H. unfold od_pop_sub, ci_contains, _k. rewrite Hk.
    rewrite od_mem_assoc, H. rewrite (getitem_present f k m v) by (rewrite Hk; exact H).
    cbn [bind]. unfold ci_delitem, _k. rewrite Hk, od_mem_assoc, H. reflexivity.
  Qed.

  (* _convert_keys pops and re-inserts every key: a full rotation *)
  Lemma convert_keys_rot f (rest done : items) :
    Inv (rest ++ done) ->
    fold_left (convert_keys_step fold olk f) (keys rest) (Ok (rest ++ done)) = Ok (done ++ rest).
  Proof.
    revert done; induction rest as [|[k v] rest IH]; intros done HI;
      cbn [keys map fst fold_left app].
    - rewrite app_nil_r. reflexivity.
    - assert (Hk : fold k = k) by (eapply Inv_in_folded; [exact HI|simpl; auto]).
      unfold convert_keys_step at 2. cbn [bind].
      rewrite (pop_sub_present f k _ v Hk) by (cbn [assoc]; rewrite str_eqb_refl; reflexivity).
      cbn [bind od_del]. rewrite str_eqb_refl.
      destruct HI as [Hf Hn]. cbn [app keys map fst] in Hf, Hn.
      inversion Hn as [|? ? Hnk Hn']; subst. inversion Hf as [|? ? _ Hf']; subst.
      unfold ci_setitem, _k. rewrite Hk.
      rewrite set_new_appends.
      2:{ destruct (od_mem k (rest ++ done)) eqn:E; [|reflexivity].
          apply od_mem_In in E. tauto. }
      rewrite <- app_assoc. change (fold_left _ (map fst rest)) with
          (fold_left (convert_keys_step fold olk f) (keys rest)).
      rewrite IH.
      + rewrite <- app_assoc. reflexivity.
      + split.
        * unfold keys_folded, keys in *. rewrite !map_app in *. cbn [map fst].
          rewrite Forall_app in *. destruct Hf' as [H1 H2]. split; [assumption|].
          apply Forall_app. split; [assumption|]. constructor; [assumption|constructor].
        * unfold keys in *. rewrite !map_app in *. cbn [map fst].
          rewrite app_assoc. apply NoDup_snoc; [assumption|exact Hnk].
  Qed.

  Lemma convert_keys_id f m : Inv m -> ci_convert_keys fold olk f m = Ok m.
  Proof.
    intros HI. unfold ci_convert_keys.
    pose proof (convert_keys_rot f m [] ) as H. rewrite app_nil_r in H.
    rewrite H by assumption. reflexivity.
  Qed.

  Lemma od_init_spec e : od_init fold e = od_setall (fold_items fold e) [].
  Proof.
    unfold od_init, od_setall, fold_items. generalize (@nil (str * value)).
    induction e as [|[k v] e IH]; intros acc; cbn [fold_left map fst snd]; [reflexivity|].
    rewrite IH. reflexivity.
  Qed.

  Lemma ci_new_spec f e :
    ci_new fold olk f e = Ok (mk_cid f (od_setall (fold_items fold e) [])).
  Proof.
    unfold ci_new. rewrite od_init_spec, convert_keys_id; [reflexivity|].
    apply Inv_setall; [apply fold_items_keys_folded|apply Inv_nil].
  Qed.

  Lemma update_from_spec_gen f (full part : items) s :
    Inv full -> (forall k v, In (k, v) part -> assoc k full = Some v) ->
    fold_left (fun acc k =>
                 do m <- acc;
                 do (v, _) <- ci_getitem fold olk f k full;
                 Ok (ci_setitem fold k v m))
              (keys part) (Ok s) = Ok (od_setall part s).
  Proof.
    intros HI. revert s; induction part as [|[k v] part IH]; intros s Hp;
      cbn [keys map fst fold_left od_setall snd]; [reflexivity|].
    assert (Hv : assoc k full = Some v) by (apply Hp; simpl; auto).
    assert (Hk : fold k = k).
    { eapply Inv_in_folded; [exact HI|]. apply assoc_Some_in in Hv.
      unfold keys. apply in_map_iff. exists (k, v). auto. }
    cbn [bind]. rewrite (getitem_present f k full v) by (rewrite Hk; exact Hv).
    cbn [bind]. unfold ci_setitem at 2, _k. rewrite Hk.
    apply IH. intros k2 v2 Hin. apply Hp. simpl. auto.
  Qed.

  Lemma assoc_In_NoDup (m : items) k v : NoDup (keys m) -> In (k, v) m -> assoc k m = Some v.
  Proof.
    induction m as [|[k' v'] m IH]; cbn [keys map fst In assoc]; [tauto|].
    intros Hn [E|Hin]; inversion Hn as [|? ? Hnk Hn']; subst.
    - injection E as -> ->. rewrite str_eqb_refl. reflexivity.
    - destruct (str_eqb_spec k k') as [->|Hne]; [|apply IH; assumption].
      exfalso. apply Hnk. apply in_map_iff. exists (k', v). auto.
  Qed.

  Lemma update_from_spec other s :
    Inv (store other) ->
    od_update_from fold olk other s = Ok (od_setall (store other) s).
  Proof.
    intros HI. unfold od_update_from. apply update_from_spec_gen; [assumption|].
    intros k v Hin. apply assoc_In_NoDup; [apply HI|assumption].
  Qed.

  Lemma ci_update_both_spec e kw s :
    ci_update fold olk (Some e) kw s = Ok (od_setall (fold_items fold kw) (od_setall (fold_items fold e) s)).
  Proof.
    assert (HT : forall x, Inv (od_setall (fold_items fold x) [])).
    { intros x. apply Inv_setall; [apply fold_items_keys_folded|apply Inv_nil]. }
    unfold ci_update. rewrite !ci_new_spec. cbn [bind].
    rewrite update_from_spec by apply HT. cbn [bind store].
    rewrite setall_via_temp. rewrite update_from_spec by apply HT. cbn [store].
    rewrite setall_via_temp. reflexivity.
  Qed.

  Lemma ci_update_spec e s :
    ci_update fold olk (Some e) [] s = Ok (od_setall (fold_items fold e) s) /\
    ci_update fold olk None e s = Ok (od_setall (fold_items fold e) s).
  Proof.
    split; [rewrite ci_update_both_spec; reflexivity|].
    assert (HT : Inv (od_setall (fold_items fold e) [])).
    { apply Inv_setall; [apply fold_items_keys_folded|apply Inv_nil]. }
    unfold ci_update. rewrite !ci_new_spec. cbn [bind].
    rewrite update_from_spec by exact HT. cbn [store]. rewrite setall_via_temp. reflexivity.
  Qed.

  Lemma init_from_mapping_spec f m :
    Inv m -> od_init_from_mapping fold olk f m = Ok m.
  Proof.
    intros HI. unfold od_init_from_mapping.
    rewrite (update_from_spec_gen f m m []); [|assumption|].
    - rewrite setall_self by apply HI. reflexivity.
    - intros k v Hin. apply assoc_In_NoDup; [apply HI|assumption].
  Qed.

  Lemma copy_spec d : Inv (store d) -> ci_copy fold olk d = Ok d.
  Proof.
    intros HI. unfold ci_copy. rewrite init_from_mapping_spec by assumption.
    cbn [bind]. rewrite convert_keys_id by assumption. destruct d; reflexivity.
  Qed.

  Lemma deepcopy_spec d : Inv (store d) -> ci_deepcopy fold olk d = Ok d.
  Proof.
    intros HI. unfold ci_deepcopy. rewrite ci_new_spec.
    rewrite fold_items_id by apply HI. rewrite setall_self by apply HI.
    destruct d; reflexivity.
  Qed.

  Lemma pickle_spec d : Inv (store d) -> ci_pickle_roundtrip fold olk d = Ok d.
  Proof.
    intros HI. unfold ci_pickle_roundtrip. rewrite ci_new_spec.
    cbn [bind fold_items map od_setall fold_left factory store].
    assert (E : fold_left (fun m kv => ci_setitem fold (fst kv) (snd kv) m) (store d) [] =
                od_setall (fold_items fold (store d)) []).
    { rewrite <- od_init_spec. reflexivity. }
    rewrite E, fold_items_id by apply HI. rewrite setall_self by apply HI.
    destruct d; reflexivity.
  Qed.

  (* ------------------------------------------------ one step *)
  Lemma lift_cid_same d : lift_cid d (Ok d) = (d, OutB true).
  Proof.
    unfold lift_cid. rewrite Bool.eqb_reflx, value_eqb_refl. reflexivity.
  Qed.

  Theorem step_refines d o :
    Inv (store d) ->
    step fold olk d o =
      (mk_cid (factory d) (fst (ref_step fold olk (factory d) (store d) o)),
       snd (ref_step fold olk (factory d) (store d) o)).
  Proof.
    intros HI. destruct d as [f s]. cbn [factory store] in *.
    destruct o; cbn [step ref_step factory store fst snd].
    - (* OGet *)
      destruct (assoc (fold k) s) eqn:E.
      + rewrite (getitem_present f k s v E). reflexivity.
      + rewrite (getitem_missing f k s E). destruct f; reflexivity.
    - reflexivity.
    - unfold ci_delitem, _k. destruct (od_mem (fold k) s); reflexivity.
    - reflexivity.
    - reflexivity.
    - reflexivity.
    - (* OPop *)
      unfold ci_pop, od_pop_sub, ci_contains, _k. rewrite fold_idem.
      rewrite od_mem_assoc. destruct (assoc (fold k) s) eqn:E.
      + rewrite (getitem_present f (fold k) s v) by (rewrite fold_idem; exact E).
        cbn [bind]. unfold ci_delitem, _k. rewrite fold_idem, od_mem_assoc, E. reflexivity.
      + destruct dflt; reflexivity.
    - (* OSetDefault *)
      unfold ci_setdefault, ci_contains, _k. rewrite fold_idem, od_mem_assoc.
      destruct (assoc (fold k) s) eqn:E.
      + rewrite (getitem_present f (fold k) s v) by (rewrite fold_idem; exact E). reflexivity.
      + unfold ci_setitem, _k. rewrite fold_idem. reflexivity.
    - destruct (ci_update_spec e s) as [-> _]. reflexivity.
    - destruct (ci_update_spec kw s) as [_ ->]. reflexivity.
    - rewrite ci_update_both_spec. reflexivity.
    - (* ORebuild *)
      rewrite ci_new_spec, fold_items_id by apply HI. rewrite setall_self by apply HI.
      apply lift_cid_same.
    - rewrite copy_spec by assumption. apply lift_cid_same.
    - rewrite deepcopy_spec by assumption. apply lift_cid_same.
    - rewrite pickle_spec by assumption. apply lift_cid_same.
    - destruct (od_mem k s); reflexivity.
  Qed.

  Theorem ref_step_Inv f m o : Inv m -> Inv (fst (ref_step fold olk f m o)).
  Proof.
    intros HI. destruct o; cbn [ref_step]; try exact HI.
    - destruct (assoc (fold k) m); [exact HI|]. destruct f; [|exact HI].
      cbn [fst]. apply Inv_set; [apply fold_idem|exact HI].
    - cbn [fst]. apply Inv_set; [apply fold_idem|exact HI].
    - destruct (od_mem (fold k) m); cbn [fst]; [apply Inv_del|]; exact HI.
    - destruct (assoc (fold k) m), dflt; cbn [fst]; try exact HI; apply Inv_del; exact HI.
    - destruct (assoc (fold k) m); cbn [fst]; [exact HI|].
      apply Inv_set; [apply fold_idem|exact HI].
    - cbn [fst]. apply Inv_setall; [apply fold_items_keys_folded|exact HI].
    - cbn [fst]. apply Inv_setall; [apply fold_items_keys_folded|exact HI].
    - cbn [fst]. apply Inv_setall; [apply fold_items_keys_folded|]. apply Inv_setall; [apply fold_items_keys_folded|exact HI].
    - destruct (od_mem k m); cbn [fst]; [apply Inv_move_to_end|]; exact HI.
  Qed.

  (* ------------------------------------------------ every sequence *)
  Theorem run_refines d ops :
    Inv (store d) ->
    run fold olk d ops =
      (mk_cid (factory d) (fst (ref_run fold olk (factory d) (store d) ops)),
       snd (ref_run fold olk (factory d) (store d) ops)).
  Proof.
    revert d; induction ops as [|o ops IH]; intros d HI; cbn [run ref_run].
    - destruct d; reflexivity.
    - rewrite (step_refines d o HI).
      destruct (ref_step fold olk (factory d) (store d) o) as [m1 r] eqn:E1.
      cbn [fst snd].
      assert (HI1 : Inv m1).
      { pose proof (ref_step_Inv (factory d) (store d) o HI) as H. rewrite E1 in H. exact H. }
      specialize (IH (mk_cid (factory d) m1) HI1). cbn [factory store] in IH.
      rewrite IH.
      destruct (ref_run fold olk (factory d) m1 ops) as [m2 rs]. reflexivity.
  Qed.

  Theorem run_Inv f m ops : Inv m -> Inv (fst (ref_run fold olk f m ops)).
  Proof.
    revert m; induction ops as [|o ops IH]; intros m HI; cbn [ref_run]; [exact HI|].
    pose proof (ref_step_Inv f m o HI) as H1.
    destruct (ref_step fold olk f m o) as [m1 r]. cbn [fst] in H1.
    specialize (IH m1 H1). destruct (ref_run fold olk f m1 ops) as [m2 rs]. exact IH.
  Qed.

  (* construction from arbitrary (mixed-case, duplicated) pairs establishes
     the invariant *)
  Theorem new_Inv f e d : ci_new fold olk f e = Ok d -> Inv (store d) /\ factory d = f.
  Proof.
    rewrite ci_new_spec. intros [= <-]. cbn [store factory]. split; [|reflexivity].
    apply Inv_setall; [apply fold_items_keys_folded|apply Inv_nil].
  Qed.

  (* reading a missing object-list key stores and returns a new empty list *)
  Theorem missing_list_key m k :
    Inv m -> mem_str (fold k) olk = true -> assoc (fold k) m = None ->
    step fold olk (mk_cid true m) (OGet k) =
      (mk_cid true (m ++ [(fold k, VList [])]), OutV (VList [])).
  Proof.
    intros HI Hk Hm. rewrite step_refines by exact HI. cbn [factory store ref_step].
    rewrite Hm. cbn [fst snd]. unfold fresh_value. rewrite Hk.
    rewrite set_new_appends; [reflexivity|]. rewrite od_mem_assoc, Hm. reflexivity.
  Qed.

End Proofs.
