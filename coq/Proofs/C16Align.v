(* C16, clause "with align_values the values of the simple keywords of one
   object all start in one column, the first multiple of indent past the
   longest such keyword". *)
From MF Require Import Lib.Base Lib.PyDict Lib.Json Gen.Tokens Model.Case Model.Quoter Model.PPrint
  Spec.Layout Proofs.PPrintFacts Proofs.C16.
Open Scope nat_scope.

Lemma Forall2_In_l {A B} (R : A -> B -> Prop) l1 l2 a :
  Forall2 R l1 l2 -> In a l1 -> exists b, In b l2 /\ R a b.
Proof.
  induction 1 as [|x y l1 l2 Hxy _ IH]; [contradiction|].
  intros [->|Hin]; [exists y; split; [left; reflexivity|exact Hxy]|].
  destruct (IH Hin) as (b & Hb & Hr). exists b. split; [right; exact Hb|exact Hr].
Qed.

Lemma In_concat_intro {A} (x : A) l ls : In l ls -> In x l -> In x (concat ls).
Proof. intros H1 H2. apply in_concat. exists l. split; assumption. Qed.

(* ------------------------------------------------------------ the keys that count *)
Definition repeated_not_ignored : bool :=
  forallb (fun k => negb (mem_str k ignore_list) && negb (hidden_key k)) REPEATED_KEYS.
Lemma repeated_not_ignored_ok : repeated_not_ignored = true.
Proof. vm_compute. reflexivity. Qed.

Lemma repeated_counts k l : kind_of k (VList l) = KRepeated -> counts_for_alignment k (VList l) = true.
Proof.
  intros K. pose proof (kind_key k (VList l)) as Hk. rewrite K in Hk.
  unfold counts_for_alignment. change (is_metadata k) with (hidden_key k).
  pose proof repeated_not_ignored_ok as W. unfold repeated_not_ignored in W. rewrite forallb_forall in W.
  apply mem_str_In in Hk. specialize (W _ Hk). apply andb_true_iff in W. destruct W as [W1 W2].
  rewrite W1, W2. cbn [andb].
  unfold kind_of in K. apply negb_true_iff in W2. rewrite W2 in K.
  change (is_hidden_container k (VList l)) with (mem_str k OBJECT_LIST_KEYS && is_list (VList l)).
  destruct (mem_str k OBJECT_LIST_KEYS && is_list (VList l)); [discriminate|]. reflexivity.
Qed.

Lemma counts_kind k v :
  counts_for_alignment k v = true -> kind_of k v = KKeyword \/ kind_of k v = KRepeated.
Proof.
  unfold counts_for_alignment, kind_of. rewrite is_composite_has_type.
  change (is_metadata k) with (hidden_key k).
  change (is_hidden_container k v) with (mem_str k OBJECT_LIST_KEYS && is_list v).
  destruct (hidden_key k); [discriminate|].
  destruct (mem_str k OBJECT_LIST_KEYS && is_list v); [rewrite andb_false_r; discriminate|].
  cbn [negb andb]. rewrite andb_true_r.
  destruct (str_eqb_spec k (Str "pattern")) as [->|]; [discriminate|].
  destruct (mem_str k key_value_blocks) eqn:E1.
  { assert (Hig : mem_str k ignore_list = true).
    { unfold ignore_list, key_value_blocks in *. cbn [mem_str] in *. rewrite !orb_false_r in *.
      repeat (apply orb_true_iff in E1; destruct E1 as [E1|E1]); rewrite E1; cbn [orb]; rewrite ?orb_true_r; reflexivity. }
    rewrite Hig. discriminate. }
  destruct (str_eqb_spec k (Str "projection")) as [->|]; [discriminate|].
  destruct (mem_str k REPEATED_KEYS); [tauto|].
  destruct (str_eqb_spec k (Str "points")) as [->|]; [discriminate|].
  destruct (str_eqb_spec k (Str "config")) as [->|]; [discriminate|].
  destruct (has_type v); [rewrite andb_false_r; discriminate|]. tauto.
Qed.

Definition simple_kind (k : str) (v : value) : bool :=
  match kind_of k v with KKeyword | KRepeated => true | _ => false end.

Lemma max_key_length_simple its :
  (forall k v, In (k, v) its -> kind_of k v = KRepeated -> is_list v = true) ->
  compute_max_key_length its = max_length (simple_keys its).
Proof.
  unfold simple_keys. induction its as [|[k v] its IH]; intros Hrep; [reflexivity|].
  cbn [compute_max_key_length filter fst snd].
  rewrite IH by (intros k0 v0 Hin; apply Hrep; right; exact Hin).
  fold (simple_kind k v).
  destruct (counts_for_alignment k v) eqn:Ec.
  - assert (Hs : simple_kind k v = true) by (unfold simple_kind; destruct (counts_kind _ _ Ec) as [-> | ->]; reflexivity).
    rewrite Hs. reflexivity.
  - assert (Hs : simple_kind k v = false).
    { unfold simple_kind. destruct (kind_of k v) eqn:K; try reflexivity.
      - specialize (Hrep k v (or_introl eq_refl) K). destruct v; try discriminate.
        rewrite (repeated_counts _ _ K) in Ec. discriminate.
      - rewrite (keyword_counts _ _ K) in Ec. discriminate. }
    rewrite Hs. reflexivity.
Qed.

(* ------------------------------------------------------------ the aligned lines of one object *)
Section Align.
  Variable o : opts.
  Hypothesis Hquote : quote_ok o = true.
  Hypothesis Halign : align_values o = true.

  Notation kwline := (keyword_line (indent o) (spacer o)).

  (* the simple keyword lines of the object (VDict c its) printed at [level] *)
  Definition aligned_object (lines : list str) (level : nat) (its : list (str * value)) : Prop :=
    exists col,
      first_multiple_past (Nat.max 1 (indent o)) (max_length (simple_keys its)) col
      /\ forall k v, In (k, v) its ->
           match kind_of k v with
           | KKeyword => exists line, In line lines /\ kwline (S level) col (upper k) line
           | KRepeated => forall l x, v = VList l -> In x l ->
                                      exists line, In line lines /\ kwline (S level) col (upper k) line
           | _ => True
           end.

  Lemma spaces_repeat n : spaces n = repeat_str [c_sp] n.
  Proof. reflexivity. Qed.

  Lemma repeated_keys_len k : mem_str k REPEATED_KEYS = true -> length (upper k) <= length k.
  Proof.
    intros H. pose proof repeated_keys_words as W. rewrite forallb_forall in W.
    apply mem_str_In in H. destruct (key_word_ok _ (W _ H)) as (_ & _ & K3). exact K3.
  Qed.

  Lemma format_here level c its lines v' :
    _format o level (VDict c its) = Ok (lines, v') -> layout_doc (VDict c its) = true ->
    aligned_object lines level its.
  Proof.
    intros H Hdoc.
    destruct (_format_inv o level c its lines v' H) as (type_ & head & sorted & rs & Hh & Hty & Hin & HF & -> & _).
    rewrite (comments_of_none c its (doc_no_comments _ _ Hdoc)) in HF.
    assert (Hrep : forall k v, In (k, v) its -> kind_of k v = KRepeated -> is_list v = true).
    { intros k v Hkv K. pose proof (layout_doc_item _ _ _ _ Hdoc Hkv) as G. rewrite K in G. exact G. }
    exists (compute_aligned_max_indent o (compute_max_key_length its)). split.
    { rewrite <- (max_key_length_simple its Hrep). apply compute_aligned_spec. }
    assert (Hal : aligned_of o its = compute_aligned_max_indent o (compute_max_key_length its))
      by (unfold aligned_of; rewrite Halign; reflexivity).
    intros k v Hkv.
    assert (Hs : In (k, v) sorted) by (apply Hin; exact Hkv).
    destruct (Forall2_In_l _ _ _ _ HF Hs) as (r & Hr & Hfi). cbn [fst snd] in Hfi.
    rewrite format_item_kind in Hfi.
    pose proof (layout_doc_item _ _ _ _ Hdoc Hkv) as G.
    assert (Hsub : forall line, In line (fst r) -> In line (head ++ concat (map fst rs) ++ [add_end_line o level 0 type_])).
    { intros line Hl. apply in_or_app. right. apply in_or_app. left.
      apply (In_concat_intro _ (fst r)); [apply in_map; exact Hr|exact Hl]. }
    destruct (kind_of k v) eqn:K; try exact I.
    - (* repeated key *)
      intros l x -> Hx.
      apply bind_Ok in Hfi. destruct Hfi as (ls & Hls & Hfi). injection Hfi as <-. cbn [fst] in Hsub.
      unfold process_repeated_list in Hls. cbn [py_iter bind] in Hls. injection Hls as <-.
      exists (format_line (whitespace o level 1) (upper k) (add_quotes_v (quote o) x) (aligned_of o its)).
      split; [apply Hsub; apply in_map_iff; exists x; split; [reflexivity|exact Hx]|].
      pose proof (kind_key k (VList l)) as Hk. rewrite K in Hk.
      pose proof (repeated_keys_len _ Hk) as Hlen.
      pose proof (aligned_past_keys o its k (VList l) Hkv (repeated_counts _ _ K)) as Hpast.
      rewrite Hal in *.
      destruct (compute_aligned_spec o (compute_max_key_length its)) as (_ & Hpos & _).
      assert (Hlt : length (upper k) < compute_aligned_max_indent o (compute_max_key_length its))
        by (destruct Hpast as [E|E]; lia).
      exists (add_quotes_v (quote o) x). split; [|exact Hlt].
      unfold format_line. rewrite ws1_margin.
      destruct (Nat.eqb_spec (compute_aligned_max_indent o (compute_max_key_length its)) 0) as [E|_]; [lia|].
      reflexivity.
    - (* simple keyword *)
      destruct type_ as [|t0 type_]; [congruence|].
      apply bind_Ok in Hfi. destruct Hfi as (line & Hline & Hfi).
      rewrite attr_comment_none in Hfi. cbn [bind] in Hfi. injection Hfi as <-. cbn [fst] in Hsub.
      exists (line ++ []). split; [apply Hsub; left; reflexivity|]. rewrite app_nil_r.
      unfold process_attribute in Hline.
      apply bind_Ok in Hline. destruct Hline as (props & _ & Hline).
      apply bind_Ok in Hline. destruct Hline as (v1 & _ & Hline). injection Hline as <-.
      destruct (key_word_ok _ G) as (_ & _ & Hlen).
      pose proof (aligned_past_keys o its k v Hkv (keyword_counts _ _ K)) as Hpast.
      rewrite Hal in *.
      destruct (compute_aligned_spec o (compute_max_key_length its)) as (_ & Hpos & _).
      assert (Hlt : length (upper k) < compute_aligned_max_indent o (compute_max_key_length its))
        by (destruct Hpast as [E|E]; lia).
      exists (py_str v1). split; [|exact Hlt].
      unfold format_line. rewrite ws1_margin.
      destruct (Nat.eqb_spec (compute_aligned_max_indent o (compute_max_key_length its)) 0) as [E|_]; [lia|].
      reflexivity.
  Qed.

  Lemma aligned_object_incl lines lines' level its :
    (forall l, In l lines -> In l lines') -> aligned_object lines level its -> aligned_object lines' level its.
  Proof.
    intros Hsub (col & Hc & H). exists col. split; [exact Hc|]. intros k v Hkv. specialize (H k v Hkv).
    destruct (kind_of k v); try exact I.
    - intros l x E Hx. destruct (H l x E Hx) as (line & Hl & Hk). exists line. split; [apply Hsub; exact Hl|exact Hk].
    - destruct H as (line & Hl & Hk). exists line. split; [apply Hsub; exact Hl|exact Hk].
  Qed.

  (* every object of the document, at its depth *)
  Lemma format_objects level v d obj :
    object_in level v d obj ->
    forall lines v', _format o level v = Ok (lines, v') -> layout_doc v = true ->
    match obj with VDict _ its => aligned_object lines d its | _ => True end.
  Proof.
    induction 1 as [d v|d c its k l x d' obj Hin K Hx _ IH|d c its k x d' obj Hin K _ IH]; intros lines v' H Hdoc.
    - destruct v as [| | | | | |c its]; try exact I. eapply format_here; eassumption.
    - destruct (_format_inv o d c its lines v' H) as (type_ & head & sorted & rs & Hh & Hty & Hins & HF & -> & _).
      assert (Hs : In (k, VList l) sorted) by (apply Hins; exact Hin).
      destruct (Forall2_In_l _ _ _ _ HF Hs) as (r & Hr & Hfi). cbn [fst snd] in Hfi.
      rewrite format_item_kind, K in Hfi.
      apply bind_Ok in Hfi. destruct Hfi as (rs' & Hrs' & Hfi). injection Hfi as <-.
      apply mapM_Ok in Hrs'. destruct (Forall2_In_l _ _ _ _ Hrs' Hx) as ([ls w] & Hy & Hfx).
      pose proof (layout_doc_item _ _ _ _ Hdoc Hin) as G. rewrite K in G. rewrite forallb_forall in G.
      specialize (IH ls w Hfx (G _ Hx)).
      destruct obj as [| | | | | |c' its']; try exact I.
      eapply aligned_object_incl; [|exact IH].
      intros line Hl. apply in_or_app. right. apply in_or_app. left.
      apply (In_concat_intro _ (concat (map fst rs'))); [apply (in_map fst) in Hr; exact Hr|].
      apply (In_concat_intro _ ls); [apply (in_map fst) in Hy; exact Hy|exact Hl].
    - destruct (_format_inv o d c its lines v' H) as (type_ & head & sorted & rs & Hh & Hty & Hins & HF & -> & _).
      assert (Hs : In (k, x) sorted) by (apply Hins; exact Hin).
      destruct (Forall2_In_l _ _ _ _ HF Hs) as ([ls w] & Hr & Hfi). cbn [fst snd] in Hfi.
      rewrite format_item_kind, K in Hfi.
      pose proof (layout_doc_item _ _ _ _ Hdoc Hin) as G. rewrite K in G.
      specialize (IH ls w Hfi G).
      destruct obj as [| | | | | |c' its']; try exact I.
      eapply aligned_object_incl; [|exact IH].
      intros line Hl. apply in_or_app. right. apply in_or_app. left.
      apply (In_concat_intro _ ls); [apply (in_map fst) in Hr; exact Hr|exact Hl].
  Qed.

  Lemma pprint_one_objects x lines v' d c its :
    pprint_one o x = Ok (lines, v') -> root_ok x = true -> object_in 0 x d (VDict c its) ->
    aligned_object lines d its.
  Proof.
    unfold pprint_one, root_ok. destruct x as [| | | | | |cx itsx]; try discriminate.
    intros H Hr Hobj. apply andb_true_iff in Hr. destruct Hr as [Hdoc Hr].
    assert (E : kfold_item cx (Str "__type__") = Str "__type__")
      by (destruct cx; cbn [kfold_item]; [reflexivity|apply lower_type_key|apply lower_type_key]).
    rewrite E in H. destruct (assoc (Str "__type__") itsx) as [[| | | |t| |]|]; try discriminate.
    change (mem_str t [Str "metadata"; Str "validation"; Str "connectionoptions"])
      with (mem_str t root_keyvalue_types) in H.
    apply negb_true_iff in Hr. rewrite Hr in H.
    apply (format_objects 0 (VDict cx itsx) d (VDict c its) Hobj lines v' H Hdoc).
  Qed.

  Theorem pprint_lines_aligned v lines v' x d c its :
    pprint_lines o v = Ok (lines, v') -> roots_ok v = true ->
    (x = v \/ exists l, v = VList l /\ In x l) ->
    object_in 0 x d (VDict c its) ->
    aligned_object lines d its.
  Proof.
    unfold pprint_lines. rewrite Hquote. cbn [negb]. intros H Hr Hx Hobj.
    assert (Hxdict : exists cx itsx, x = VDict cx itsx).
    { inversion Hobj; subst; eauto. }
    destruct Hxdict as (cx & itsx & ->).
    destruct Hx as [<-|(l & -> & Hx)].
    - cbn [truthy] in H. destruct itsx as [|kv itsx].
      + unfold roots_ok, root_ok in Hr. cbn in Hr. discriminate.
      + apply bind_Ok in H. destruct H as ([ls w] & Hp & H). injection H as <- <-.
        eapply pprint_one_objects; eassumption.
    - apply bind_Ok in H. destruct H as (rs & Hrs & H). injection H as <- <-.
      apply mapM_Ok in Hrs. destruct (Forall2_In_l _ _ _ _ Hrs Hx) as ([ls w] & Hy & Hp).
      cbn [roots_ok] in Hr. rewrite forallb_forall in Hr.
      eapply aligned_object_incl; [|eapply pprint_one_objects; [exact Hp|apply Hr; exact Hx|exact Hobj]].
      intros line Hl. apply (In_concat_intro _ ls); [apply (in_map fst) in Hy; exact Hy|exact Hl].
  Qed.
End Align.

(* ------------------------------------------------------------ key-value blocks: the counterexample *)
Lemma keyword_line_prefix ind sp depth col key line :
  keyword_line ind sp depth col key line ->
  startswith line (margin ind sp depth ++ key ++ spaces (col - length key)) = true.
Proof.
  intros (value & -> & _). rewrite !app_assoc. rewrite <- !app_assoc.
  replace (margin ind sp depth ++ key ++ spaces (col - length key) ++ value)
    with ((margin ind sp depth ++ key ++ spaces (col - length key)) ++ value)
    by (rewrite <- !app_assoc; reflexivity).
  apply startswith_app.
Qed.

Definition kv_align_doc : value :=
  VDict (DCI true)
    [(Str "__type__", VStr (Str "map"));
     (Str "metadata", VDict (DCI true)
        [(Str "__type__", VStr (Str "metadata")); (Str "projection", VStr (Str "x")); (Str "a", VStr (Str "b"))])].

Definition kv_align_opts : opts := mk_opts 4 (Str " ") 34%N [10%N] false true false.

(* the two entries of the METADATA block have quoted keys of length 12 and 3;
   the first multiple of 4 past 12 is 16, and no printed line has the key
   "projection" followed by its value at column 16 *)
Lemma keyvalue_alignment_counterexample :
  exists lines v',
    roots_ok kv_align_doc = true
    /\ pprint_lines kv_align_opts kv_align_doc = Ok (lines, v')
    /\ first_multiple_past 4 12 16
    /\ ~ exists line, In line lines
                      /\ keyword_line 4 (Str " ") 2 16 (add_quotes 34%N (Str "projection")) line.
Proof.
  eexists _, _. split; [vm_compute; reflexivity|]. split; [vm_compute; reflexivity|].
  split; [unfold first_multiple_past; cbn; lia|].
  intros (line & Hin & Hk). apply keyword_line_prefix in Hk.
  cbn [In] in Hin.
  repeat (destruct Hin as [<-|Hin]; [vm_compute in Hk; discriminate Hk|]).
  exact Hin.
Qed.
