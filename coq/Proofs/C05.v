(* C05: surface syntax does not change meaning - the letter-case clause on the
   regex engine / lexer model, the ignored-token clause, the quote clause. *)
From MF Require Import Lib.Base Lib.Regex Model.GrammarTypes Model.Lexer Model.LR Model.Case Model.Transformer.
Open Scope N_scope.

(* ---------------------------------------------------------------- ASCII case variants *)
Definition is_upper (c : N) : bool := (65 <=? c) && (c <=? 90).
Definition is_lower (c : N) : bool := (97 <=? c) && (c <=? 122).

(* c and c' are the same character up to ASCII letter case *)
Definition eq_ci_c (c c' : N) : bool :=
  (c =? c') || (is_upper c && (c' =? c + 32)) || (is_lower c && (c' =? c - 32)).

Fixpoint eq_ci (v v' : str) : bool :=
  match v, v' with
  | [], [] => true
  | c :: r, c' :: r' => eq_ci_c c c' && eq_ci r r'
  | _, _ => false
  end.

Definition letters_upper : list N := map N.of_nat (seq 65 26).

(* a set of ranges that contains an ASCII letter iff it contains its other case *)
Definition closed_ranges (rg : ranges) : bool :=
  forallb (fun c => Bool.eqb (in_ranges c rg) (in_ranges (c + 32) rg)) letters_upper.

Lemma in_letters_upper c : is_upper c = true -> In c letters_upper.
Proof.
  unfold is_upper. rewrite andb_true_iff, !N.leb_le. intros [H1 H2].
  unfold letters_upper. apply in_map_iff. exists (N.to_nat c). split; [apply N2Nat.id|].
  apply in_seq. lia.
Qed.

Lemma closed_ranges_spec rg c c' :
  closed_ranges rg = true -> eq_ci_c c c' = true -> in_ranges c rg = in_ranges c' rg.
Proof.
  unfold closed_ranges. rewrite forallb_forall. intros Hc H.
  unfold eq_ci_c in H. rewrite !orb_true_iff, !andb_true_iff, !N.eqb_eq in H.
  destruct H as [[->|[Hu ->]]|[Hl ->]]; [reflexivity| |].
  - apply eqb_prop. apply Hc. apply in_letters_upper. exact Hu.
  - assert (Hu : is_upper (c - 32) = true).
    { unfold is_lower in Hl. unfold is_upper. rewrite andb_true_iff, !N.leb_le in *. lia. }
    assert (E : c - 32 + 32 = c).
    { unfold is_lower in Hl. rewrite andb_true_iff, !N.leb_le in Hl. lia. }
    specialize (Hc _ (in_letters_upper _ Hu)). apply eqb_prop in Hc. rewrite E in Hc. symmetry. exact Hc.
Qed.

Fixpoint ci_closed (r : rx) : bool :=
  match r with
  | REps | RBol | REol => true
  | RSet _ rg => closed_ranges rg
  | RSeq a b | RAlt a b => ci_closed a && ci_closed b
  | RRep _ _ _ r1 => ci_closed r1
  | RNotAhead r1 => ci_closed r1
  end.

(* ---------------------------------------------------------------- lock-step matching *)
Definition inp_rel (s s' : inp) : Prop := fst s = fst s' /\ eq_ci (snd s) (snd s') = true.

Definition opt_rel {A} (R : A -> A -> Prop) (o o' : option A) : Prop :=
  match o, o' with
  | Some a, Some a' => R a a'
  | None, None => True
  | _, _ => False
  end.

Definition k_rel {A} (R : A -> A -> Prop) (k k' : inp -> option A) : Prop :=
  forall t t', inp_rel t t' -> opt_rel R (k t) (k' t').

Lemma rep_loop_ci {A} (R : A -> A -> Prop)
      (m m' : inp -> (inp -> option A) -> option A) greedy mn mx :
  (forall s s' k k', inp_rel s s' -> k_rel R k k' -> opt_rel R (m s k) (m' s' k')) ->
  forall fuel cnt s s' k k', inp_rel s s' -> k_rel R k k' ->
    opt_rel R (rep_loop m greedy mn mx fuel cnt s k) (rep_loop m' greedy mn mx fuel cnt s' k').
Proof.
  intros Hm. induction fuel as [|fuel IH]; intros cnt s s' k k' Hs Hk; cbn [rep_loop]; [exact I|].
  set (more := if match mx with Some x => Nat.ltb cnt x | None => true end
               then m s (fun s1 => if (fst s1 =? fst s) && Nat.leb mn cnt then None
                                   else rep_loop m greedy mn mx fuel (S cnt) s1 k)
               else None).
  set (more' := if match mx with Some x => Nat.ltb cnt x | None => true end
                then m' s' (fun s1 => if (fst s1 =? fst s') && Nat.leb mn cnt then None
                                      else rep_loop m' greedy mn mx fuel (S cnt) s1 k')
                else None).
  assert (Hmore : opt_rel R more more').
  { unfold more, more'. destruct (match mx with Some x => Nat.ltb cnt x | None => true end); [|exact I].
    apply Hm; [exact Hs|]. intros t t' Ht. destruct Hs as [Hf _]. destruct Ht as [Htf Hte].
    rewrite Htf, Hf. destruct ((fst t' =? fst s') && Nat.leb mn cnt); [exact I|].
    apply IH; [split; assumption|exact Hk]. }
  pose proof (Hk s s' Hs) as Hks.
  destruct (Nat.ltb cnt mn); [exact Hmore|].
  destruct greedy.
  - destruct more, more'; cbn in Hmore; try contradiction; [exact Hmore|exact Hks].
  - destruct (k s), (k' s'); cbn in Hks; try contradiction; [exact Hks|exact Hmore].
Qed.

Lemma eq_ci_c_10 c : eq_ci_c 10 c = true -> c = 10.
Proof.
  unfold eq_ci_c, is_upper, is_lower.
  rewrite !orb_true_iff, !andb_true_iff, !N.eqb_eq, !N.leb_le. intros [[H|[[H1 H2] H3]]|[[H1 H2] H3]]; lia.
Qed.

Lemma eq_ci_c_to_10 c : eq_ci_c c 10 = true -> c = 10.
Proof.
  unfold eq_ci_c, is_upper, is_lower.
  rewrite !orb_true_iff, !andb_true_iff, !N.eqb_eq, !N.leb_le. intros [[H|[[H1 H2] H3]]|[[H1 H2] H3]]; lia.
Qed.

Theorem rmatch_ci (r : rx) :
  ci_closed r = true ->
  forall A (R : A -> A -> Prop) fuel s s' k k',
    inp_rel s s' -> k_rel R k k' -> opt_rel R (rmatch r fuel s k) (rmatch r fuel s' k').
Proof.
  induction r as [| neg rg | a IHa b IHb | a IHa b IHb | greedy mn mx r1 IH | r1 IH | |];
    intros Hc A R fuel s s' k k' Hs Hk; cbn [rmatch ci_closed] in *.
  - apply Hk. exact Hs.
  - destruct s as [p l], s' as [p' l']. destruct Hs as [Hp He]. cbn [fst snd] in *. subst p'.
    destruct l as [|c l], l' as [|c' l']; cbn [eq_ci] in He; try discriminate; [exact I|].
    apply andb_true_iff in He. destruct He as [Hcc Hl].
    rewrite (closed_ranges_spec rg c c' Hc Hcc).
    destruct (xorb neg (in_ranges c' rg)); [|exact I].
    apply Hk. split; [reflexivity|exact Hl].
  - apply andb_true_iff in Hc. destruct Hc as [Ha Hb].
    apply (IHa Ha); [exact Hs|]. intros t t' Ht. apply (IHb Hb); [exact Ht|exact Hk].
  - apply andb_true_iff in Hc. destruct Hc as [Ha Hb].
    pose proof (IHa Ha A R fuel s s' k k' Hs Hk) as H1.
    destruct (rmatch a fuel s k), (rmatch a fuel s' k'); cbn in H1; try contradiction; [exact H1|].
    apply (IHb Hb); assumption.
  - apply rep_loop_ci; [|exact Hs|exact Hk].
    intros s0 s0' k0 k0' Hs0 Hk0. apply (IH Hc); assumption.
  - pose proof (IH Hc unit (fun _ _ => True) fuel s s' (fun _ => Some tt) (fun _ => Some tt) Hs
                   (fun _ _ _ => I)) as H1.
    destruct (rmatch r1 fuel s (fun _ => Some tt)), (rmatch r1 fuel s' (fun _ => Some tt));
      cbn in H1; try contradiction; [exact I|].
    apply Hk. exact Hs.
  - destruct Hs as [Hp He]. rewrite Hp. destruct (fst s' =? 0); [|exact I]. apply Hk. split; assumption.
  - pose proof Hs as [Hp He]. pose proof (Hk s s' Hs) as Hks.
    destruct (snd s) as [|c l], (snd s') as [|c' l']; cbn [eq_ci] in He; try discriminate.
    + exact Hks.
    + apply andb_true_iff in He. destruct He as [Hcc Hl].
      destruct l as [|c2 l], l' as [|c2' l']; cbn [eq_ci] in Hl; try discriminate.
      * destruct (N.eqb_spec c 10) as [->|Hn].
        -- apply eq_ci_c_10 in Hcc. subst c'. exact Hks.
        -- destruct (N.eqb_spec c' 10) as [->|Hn']; [|exact I].
           apply eq_ci_c_to_10 in Hcc. contradiction.
      * exact I.
Qed.

Lemma eq_ci_length v v' : eq_ci v v' = true -> length v = length v'.
Proof.
  revert v'; induction v as [|c v IH]; intros [|c' v'] H; cbn [eq_ci] in H; try discriminate; [reflexivity|].
  apply andb_true_iff in H. destruct H as [_ H]. cbn [length]. f_equal. apply IH. exact H.
Qed.

(* re.fullmatch with a case-closed pattern does not see ASCII letter case *)
Theorem fullmatch_ci r v v' :
  ci_closed r = true -> eq_ci v v' = true -> rx_fullmatch r v = rx_fullmatch r v'.
Proof.
  intros Hc He. unfold rx_fullmatch. rewrite (eq_ci_length v v' He).
  pose proof (rmatch_ci r Hc unit (fun _ _ => True) (length v') (0, v) (0, v')
                (fun s1 => match snd s1 with [] => Some tt | _ => None end)
                (fun s1 => match snd s1 with [] => Some tt | _ => None end)) as H.
  assert (Hk : k_rel (fun _ _ : unit => True)
                 (fun s1 : inp => match snd s1 with [] => Some tt | _ => None end)
                 (fun s1 : inp => match snd s1 with [] => Some tt | _ => None end)).
  { intros t t' [_ Hte]. destruct (snd t), (snd t'); cbn [eq_ci] in Hte; try discriminate; exact I. }
  specialize (H (conj eq_refl He) Hk).
  destruct (rmatch r (length v') (0, v) _), (rmatch r (length v') (0, v') _); cbn in H; try contradiction; reflexivity.
Qed.

(* keyword retyping (Lark's UnlessCallback) is case-insensitive when every
   keyword pattern is case-closed *)
Definition unless_closed (l : list (rx * N)) : bool := forallb (fun p => ci_closed (fst p)) l.

Theorem unless_retype_ci l v v' :
  unless_closed l = true -> eq_ci v v' = true -> unless_retype l v = unless_retype l v'.
Proof.
  intros Hl He. induction l as [|[r ty] l IH]; cbn [unless_retype]; [reflexivity|].
  cbn [unless_closed forallb fst] in Hl. apply andb_true_iff in Hl. destruct Hl as [Hr Hl].
  rewrite (fullmatch_ci r v v' Hr He). destruct (rx_fullmatch r v'); [reflexivity|apply IH; exact Hl].
Qed.

Definition lexer_keywords_closed (lx : lexer_info) : bool :=
  forallb (fun p => unless_closed (snd p)) (lx_unless lx).

Definition grammar_keywords_closed (g : grammar) : bool :=
  forallb lexer_keywords_closed (g_lexers g) && lexer_keywords_closed (g_root_lexer g).

(* ---------------------------------------------------------------- lower / upper on case variants *)
Lemma lower_cp_ci c c' : eq_ci_c c c' = true -> lower_cp c = lower_cp c'.
Proof.
  unfold eq_ci_c, is_upper, is_lower.
  rewrite !orb_true_iff, !andb_true_iff, !N.eqb_eq, !N.leb_le.
  intros [[->|[[H1 H2] ->]]|[[H1 H2] ->]]; [reflexivity| |];
    unfold lower_cp, case_cp, lower_ascii.
  - assert (E1 : c <? 128 = true) by (apply N.ltb_lt; lia).
    assert (E2 : c + 32 <? 128 = true) by (apply N.ltb_lt; lia).
    rewrite E1, E2.
    assert (E3 : (65 <=? c) && (c <=? 90) = true) by (rewrite andb_true_iff, !N.leb_le; lia).
    assert (E4 : (65 <=? c + 32) && (c + 32 <=? 90) = false).
    { apply andb_false_iff. right. apply N.leb_gt. lia. }
    rewrite E3, E4. reflexivity.
  - assert (E1 : c <? 128 = true) by (apply N.ltb_lt; lia).
    assert (E2 : c - 32 <? 128 = true) by (apply N.ltb_lt; lia).
    rewrite E1, E2.
    assert (E3 : (65 <=? c) && (c <=? 90) = false).
    { apply andb_false_iff. right. apply N.leb_gt. lia. }
    assert (E4 : (65 <=? c - 32) && (c - 32 <=? 90) = true) by (rewrite andb_true_iff, !N.leb_le; lia).
    rewrite E3, E4. f_equal. lia.
Qed.

Theorem lower_ci v v' : eq_ci v v' = true -> lower v = lower v'.
Proof.
  revert v'; induction v as [|c v IH]; intros [|c' v'] H; cbn [eq_ci] in H; try discriminate; [reflexivity|].
  apply andb_true_iff in H. destruct H as [Hc H]. unfold lower. cbn [flat_map].
  rewrite (lower_cp_ci c c' Hc). f_equal. apply IH. exact H.
Qed.

Lemma upper_cp_ci c c' : eq_ci_c c c' = true -> upper_cp c = upper_cp c'.
Proof.
  unfold eq_ci_c, is_upper, is_lower.
  rewrite !orb_true_iff, !andb_true_iff, !N.eqb_eq, !N.leb_le.
  intros [[->|[[H1 H2] ->]]|[[H1 H2] ->]]; [reflexivity| |];
    unfold upper_cp, case_cp, upper_ascii.
  - assert (E1 : c <? 128 = true) by (apply N.ltb_lt; lia).
    assert (E2 : c + 32 <? 128 = true) by (apply N.ltb_lt; lia).
    rewrite E1, E2.
    assert (E3 : (97 <=? c) && (c <=? 122) = false).
    { apply andb_false_iff. left. apply N.leb_gt. lia. }
    assert (E4 : (97 <=? c + 32) && (c + 32 <=? 122) = true) by (rewrite andb_true_iff, !N.leb_le; lia).
    rewrite E3, E4. f_equal. lia.
  - assert (E1 : c <? 128 = true) by (apply N.ltb_lt; lia).
    assert (E2 : c - 32 <? 128 = true) by (apply N.ltb_lt; lia).
    rewrite E1, E2.
    assert (E3 : (97 <=? c) && (c <=? 122) = true) by (rewrite andb_true_iff, !N.leb_le; lia).
    assert (E4 : (97 <=? c - 32) && (c - 32 <=? 122) = false).
    { apply andb_false_iff. left. apply N.leb_gt. lia. }
    rewrite E3, E4. reflexivity.
Qed.

Theorem upper_ci v v' : eq_ci v v' = true -> upper v = upper v'.
Proof.
  revert v'; induction v as [|c v IH]; intros [|c' v'] H; cbn [eq_ci] in H; try discriminate; [reflexivity|].
  apply andb_true_iff in H. destruct H as [Hc H]. unfold upper. cbn [flat_map].
  rewrite (upper_cp_ci c c' Hc). f_equal. apply IH. exact H.
Qed.

(* the hook's decision depends on the previous keyword only through upper *)
Theorem top_is_ci t t' vs s :
  eq_ci (tval t) (tval t') = true ->
  top_is upper (Tok t :: vs) s = top_is upper (Tok t' :: vs) s.
Proof. intros H. cbn [top_is]. rewrite (upper_ci _ _ H). reflexivity. Qed.

(* ---------------------------------------------------------------- ignored tokens *)
(* a token returned by next_token was matched by a terminal that is not ignored:
   white space, line breaks and comments never reach the parser *)
Theorem next_token_not_ignored g wc lx : forall fuel st t st',
  next_token g wc lx fuel st = LTok t st' ->
  exists ty0, memN ty0 (lx_ignore lx) = false /\
              ttype t = match assocN ty0 (lx_unless lx) with
                        | Some l => match unless_retype l (tval t) with Some x => x | None => ty0 end
                        | None => ty0
                        end.
Proof.
  induction fuel as [|fuel IH]; intros st t st' H; cbn [next_token] in H; [discriminate|].
  destruct (ls_rest st) as [|c0 r0] eqn:Er; [discriminate|]. rewrite <- Er in H.
  destruct (scan (lx_terms lx) (S fuel) (lc_pos (ls_lc st), ls_rest st)) as [[ty [endpos rest']]|]; [|discriminate].
  destruct (memN ty (lx_ignore lx)) eqn:Ei.
  - eapply IH. exact H.
  - injection H as <- <-. exists ty. split; [exact Ei|]. cbn [ttype tval]. reflexivity.
Qed.
