(* Universal theorems about the SECOND component of the printer model
   (Model/PPrint.v: pprint o d = Ok (text, d')): what the call leaves in its
   argument (property C12, purity of dumps; property C06, separate_complex_types).

   - separate_complex_types off: d' = d, for every option set and every value;
   - separate_complex_types on : d' = arg_after true d, the argument with, in
     every dict the printer descends into, the keys for which is_complex_type
     answers True moved behind the others as a stable partition
     (Proofs/C06.v move_all / filter form).  The only hypothesis is the Python
     representation invariant that a dict has no duplicate key (uniq_keys).
   - reordered: d' has the same items as d at every level (Permutation), values
     of keys the printer does not descend into untouched.
   - printing twice in a row gives the same text and leaves the same dict. *)
From Coq Require Import Permutation.
From MF Require Import Lib.Base Lib.PyDict Lib.Json Gen.Tokens Model.Case Model.Quoter Model.PPrint
  Proofs.PPrintFacts Proofs.C06.
Open Scope nat_scope.

(* ------------------------------------------------------------ representation invariant *)
Fixpoint nodupb (l : list str) : bool :=
  match l with
  | [] => true
  | x :: l' => negb (mem_str x l') && nodupb l'
  end.

Lemma nodupb_NoDup l : nodupb l = true -> NoDup l.
Proof.
  induction l as [|x l IH]; cbn [nodupb]; intros H; constructor.
  - apply andb_true_iff in H. destruct H as [H1 _]. apply negb_true_iff in H1.
    intros Hin. apply mem_str_In in Hin. congruence.
  - apply IH. apply andb_true_iff in H. tauto.
Qed.

(* every dict inside the value has pairwise different keys (always true of a
   Python dict; the model represents a dict by its item list) *)
Fixpoint uniq_keys (v : value) : bool :=
  match v with
  | VList l => forallb uniq_keys l
  | VDict _ its => nodupb (keys its) && forallb (fun kv => uniq_keys (snd kv)) its
  | _ => true
  end.

(* ------------------------------------------------------------ what the printer leaves behind *)
Definition stable_partition {A} (moved : str -> bool) (its : list (str * A)) : list (str * A) :=
  filter (nm moved) its ++ filter (mv moved) its.

(* the keys separate_complex moves: is_complex_type of the model, read as a bool *)
Definition moved_key (c : dcls) (items : list (str * value)) (level : nat) (k : str) : bool :=
  match is_complex_type c items k level with Ok b => b | Err _ => false end.

(* keys whose value the loop of _format hands to a helper that only reads it *)
Definition no_descend_key (attr : str) : bool :=
  str_eqb attr (Str "pattern") || mem_str attr key_dict_names || str_eqb attr (Str "projection")
  || mem_str attr REPEATED_KEYS || str_eqb attr (Str "points") || str_eqb attr (Str "config").

Definition sep_item (rec : value -> value) (attr : str) (v : value) : value :=
  if is_metadata attr then v
  else if is_hidden_container attr v then
    match v with VList vs => VList (map rec vs) | _ => v end
  else if no_descend_key attr then v
  else if is_composite v then rec v
  else v.

Fixpoint sep_doc (sct : bool) (level : nat) (v : value) {struct v} : value :=
  match v with
  | VDict c items =>
      let items' := map (fun kv => (fst kv, sep_item (sep_doc sct (S level)) (fst kv) (snd kv))) items in
      VDict c (if sct then stable_partition (moved_key c items level) items' else items')
  | _ => v
  end.

(* a root object: the three key-value block types are printed by process_key_dict *)
Definition root_keydict_types : list str := [Str "metadata"; Str "validation"; Str "connectionoptions"].

Definition sep_root (sct : bool) (v : value) : value :=
  match v with
  | VDict c items =>
      match assoc (kfold_item c (Str "__type__")) items with
      | Some (VStr t) => if mem_str t root_keydict_types then v else sep_doc sct 0 v
      | _ => sep_doc sct 0 v
      end
  | _ => v
  end.

(* the argument of pprint after the call *)
Definition arg_after (sct : bool) (d : value) : value :=
  match d with
  | VList l => VList (map (sep_root sct) l)
  | _ => sep_root sct d
  end.

(* ------------------------------------------------------------ sct off: identity *)
Lemma map_id_Forall {A} (f : A -> A) l : Forall (fun x => f x = x) l -> map f l = l.
Proof. induction 1 as [|x l Hx _ IH]; cbn [map]; [reflexivity|]. rewrite Hx, IH. reflexivity. Qed.

Lemma sep_doc_off level v : sep_doc false level v = v.
Proof.
  revert level.
  enough (H : (forall level, sep_doc false level v = v)
              /\ match v with VList l => Forall (fun x => forall level, sep_doc false level x = x) l | _ => True end)
    by apply H.
  induction v as [| | | | |l IH|c items IH] using value_ind'; try (split; [reflexivity|exact I]).
  - split; [reflexivity|]. eapply Forall_impl; [|exact IH]. intros x Hx. apply Hx.
  - split; [|exact I]. intros level. cbn [sep_doc]. f_equal.
    induction IH as [|[k v] items Hv _ IHl]; cbn [map]; [reflexivity|]. rewrite IHl. f_equal. cbn [fst snd] in *.
    f_equal. unfold sep_item. destruct (is_metadata k); [reflexivity|].
    destruct (is_hidden_container k v) eqn:Eh.
    + destruct v as [| | | | |vs|]; try reflexivity. f_equal. destruct Hv as [_ Hv].
      apply map_id_Forall. eapply Forall_impl; [|exact Hv]. intros x Hx. apply Hx.
    + destruct (no_descend_key k); [reflexivity|]. destruct (is_composite v); [|reflexivity]. apply Hv.
Qed.

Lemma sep_root_off v : sep_root false v = v.
Proof.
  unfold sep_root. destruct v as [| | | | | |c items]; try reflexivity.
  destruct (assoc (kfold_item c (Str "__type__")) items) as [[| | | |t| |]|]; try apply sep_doc_off.
  destruct (mem_str t root_keydict_types); [reflexivity|apply sep_doc_off].
Qed.

Lemma arg_after_off d : arg_after false d = d.
Proof.
  unfold arg_after. destruct d as [| | | | |l|]; try apply sep_root_off.
  f_equal. apply map_id_Forall. apply Forall_forall. intros x _. apply sep_root_off.
Qed.

(* ------------------------------------------------------------ move_to_end keeps lookups and uniqueness *)
Lemma assoc_move_to_end {A} k k2 (l : list (str * A)) :
  NoDup (keys l) -> assoc k2 (od_move_to_end k l) = assoc k2 l.
Proof.
  intros Hn. unfold od_move_to_end. destruct (assoc k l) as [v|] eqn:E; [|reflexivity].
  destruct (str_eqb_spec k2 k) as [->|Hne].
  - rewrite assoc_app_notin by (apply get_del_same; exact Hn). cbn [assoc]. rewrite str_eqb_refl.
    symmetry. exact E.
  - destruct (assoc k2 (od_del k l)) as [u|] eqn:E2.
    + rewrite (assoc_app_in _ _ _ _ E2). rewrite <- E2. apply get_del_other. exact Hne.
    + rewrite assoc_app_notin by exact E2. cbn [assoc]. destruct (str_eqb_spec k2 k); [congruence|].
      rewrite <- E2. apply get_del_other. exact Hne.
Qed.

Lemma NoDup_move_to_end {A} k (l : list (str * A)) :
  NoDup (keys l) -> NoDup (keys (od_move_to_end k l)).
Proof.
  intros Hn. unfold od_move_to_end. destruct (assoc k l) as [v|]; [|exact Hn].
  unfold keys. rewrite map_app. cbn [map fst]. apply NoDup_snoc.
  - apply (NoDup_del k l Hn).
  - apply (proj1 (assoc_None_notin k (od_del k l))). apply get_del_same. exact Hn.
Qed.

(* ------------------------------------------------------------ the loop of separate_complex *)
Definition moved_g {A} (valof : A -> value) (c : dcls) (orig : list (str * A)) (level : nat) (k : str) : bool :=
  match is_complex_type_g valof c orig k level with Ok b => b | Err _ => false end.

Lemma is_complex_assoc {A} (valof : A -> value) c (l1 l2 : list (str * A)) k level :
  (forall k, assoc k l1 = assoc k l2) ->
  is_complex_type_g valof c l1 k level = is_complex_type_g valof c l2 k level.
Proof. intros H. unfold is_complex_type_g, dict_getitem_g. rewrite H. reflexivity. Qed.

Lemma separate_loop_move_all {A} (valof : A -> value) c level (orig : list (str * A)) ks :
  forall cur res,
    NoDup (keys cur) -> (forall k, assoc k cur = assoc k orig) ->
    separate_loop valof c level ks cur = Ok res ->
    res = move_all (moved_g valof c orig level) ks cur.
Proof.
  unfold move_all.
  induction ks as [|k ks IH]; intros cur res Hn Ha H; cbn [separate_loop] in H.
  - injection H as <-. reflexivity.
  - cbn [fold_left]. apply bind_Ok in H. destruct H as (b & Hb & H).
    rewrite (is_complex_assoc valof c cur orig k level Ha) in Hb.
    unfold moved_g at 2. rewrite Hb. destruct b.
    + apply bind_Ok in H. destruct H as (it1 & Hm & H).
      assert (E : it1 = od_move_to_end k cur).
      { unfold dict_move_to_end in Hm.
        destruct c; [discriminate| |]; destruct (assoc k cur); try discriminate; injection Hm as <-; reflexivity. }
      subst it1. apply IH; [apply NoDup_move_to_end; exact Hn| |exact H].
      intros k2. rewrite assoc_move_to_end by exact Hn. apply Ha.
    + apply IH; assumption.
Qed.

Lemma separate_complex_g_partition (o : opts) {A} (valof : A -> value) c level (items res : list (str * A)) :
  NoDup (keys items) ->
  separate_complex_g o valof c level items = Ok res ->
  res = if separate_complex_types o then stable_partition (moved_g valof c items level) items else items.
Proof.
  intros Hn H. unfold separate_complex_g in H. destruct (separate_complex_types o).
  - rewrite (separate_loop_move_all valof c level items (keys items) items res Hn (fun _ => eq_refl) H).
    apply move_all_partition. exact Hn.
  - injection H as <-. reflexivity.
Qed.

(* ------------------------------------------------------------ the per-item results *)
Lemma assoc_map_items {A B} (h : str -> A -> B) k (l : list (str * A)) :
  assoc k (map (fun kv => (fst kv, h (fst kv) (snd kv))) l) =
  match assoc k l with Some v => Some (h k v) | None => None end.
Proof.
  induction l as [|[k' v] l IH]; cbn [map assoc fst snd]; [reflexivity|].
  destruct (str_eqb_spec k k') as [->|]; [reflexivity|exact IH].
Qed.

Lemma keys_map_items {A B} (h : str -> A -> B) (l : list (str * A)) :
  keys (map (fun kv => (fst kv, h (fst kv) (snd kv))) l) = keys l.
Proof. unfold keys. rewrite map_map. reflexivity. Qed.

Lemma moved_results {B} (F : str -> value -> B) c items level k :
  moved_g (fun a : value * B => fst a) c
          (map (fun kv => (fst kv, (snd kv, F (fst kv) (snd kv)))) items) level k
  = moved_key c items level k.
Proof.
  unfold moved_g, moved_key, is_complex_type, is_complex_type_g, dict_getitem_g.
  rewrite (assoc_map_items (fun k v => (v, F k v))).
  destruct (assoc (kfold_item c k) items); reflexivity.
Qed.

Lemma filter_ext_in' {A} (f g : A -> bool) l : (forall x, f x = g x) -> filter f l = filter g l.
Proof. intros H. apply filter_ext. exact H. Qed.

Lemma map_filter_keyed {A B} (p : str -> bool) (h : str * A -> str * B) (l : list (str * A)) :
  (forall x, fst (h x) = fst x) ->
  map h (filter (fun x => p (fst x)) l) = filter (fun y => p (fst y)) (map h l).
Proof.
  intros Hh. induction l as [|x l IH]; cbn [filter map]; [reflexivity|].
  rewrite Hh. destruct (p (fst x)); cbn [map]; rewrite IH; reflexivity.
Qed.

(* collect_items: the dictionary part, when the value part of every result is known *)
Lemma collect_items_values (g : str -> value -> value) l ls its :
  collect_items l = Ok (ls, its) ->
  (forall x r, In x l -> snd (snd x) = Ok r -> snd r = g (fst x) (fst (snd x))) ->
  its = map (fun x => (fst x, g (fst x) (fst (snd x)))) l.
Proof.
  revert ls its; induction l as [|[k [v r]] l IH]; intros ls its H Hg; cbn [collect_items] in H.
  - injection H as <- <-. reflexivity.
  - apply bind_Ok in H. destruct H as (lv & Hr & H).
    apply bind_Ok in H. destruct H as ([ls2 its2] & Hrest & H).
    injection H as <- <-. cbn [map fst snd]. f_equal.
    + f_equal. apply (Hg (k, (v, r)) lv); [left; reflexivity|exact Hr].
    + apply (IH _ _ Hrest). intros x r0 Hx. apply Hg. right. exact Hx.
Qed.

Section Arg.
  Variable o : opts.
  Notation sct := (separate_complex_types o).

  (* the claim for one value *)
  Definition arg_claim (v : value) : Prop :=
    forall level lines v',
      _format o level v = Ok (lines, v') -> (sct = true -> uniq_keys v = true) ->
      v' = sep_doc sct level v.

  Lemma mapM_values (f : value -> res (list str * value)) (g : value -> value) vs rs :
    mapM f vs = Ok rs ->
    Forall (fun x => forall r, f x = Ok r -> snd r = g x) vs ->
    map snd rs = map g vs.
  Proof.
    intros H HF. apply mapM_Ok in H. induction H as [|x r vs rs Hx _ IH]; [reflexivity|].
    inversion HF as [|? ? Hgx HF']; subst. cbn [map]. rewrite (Hgx r Hx), (IH HF'). reflexivity.
  Qed.

  Lemma format_item_value type_ comments level aligned k v r :
    format_item o (fun x => _format o (S level) x) type_ comments level aligned k v = Ok r ->
    arg_claim v -> match v with VList l => Forall arg_claim l | _ => True end ->
    (sct = true -> uniq_keys v = true) ->
    snd r = sep_item (sep_doc sct (S level)) k v.
  Proof.
    intros H HQ HL Hu. unfold format_item in H. unfold sep_item.
    destruct (is_metadata k); [injection H as <-; reflexivity|].
    destruct (is_hidden_container k v) eqn:Eh.
    { destruct v as [| | | | |vs|]; try (injection H as <-; reflexivity).
      apply bind_Ok in H. destruct H as (rs & Hrs & H). injection H as <-. cbn [snd]. f_equal.
      apply (mapM_values _ _ _ _ Hrs). rewrite Forall_forall in HL. apply Forall_forall.
      intros x Hx [ls x'] Hr. cbn [snd]. apply (HL x Hx (S level) ls x' Hr).
      intros Hs. specialize (Hu Hs). cbn [uniq_keys] in Hu. rewrite forallb_forall in Hu. apply Hu. exact Hx. }
    unfold no_descend_key.
    destruct (str_eqb k (Str "pattern")).
    { cbn [orb]. apply bind_Ok in H. destruct H as (ls & _ & H). injection H as <-. reflexivity. }
    destruct (mem_str k key_dict_names).
    { cbn [orb]. apply bind_Ok in H. destruct H as (ls & _ & H). injection H as <-. reflexivity. }
    destruct (str_eqb k (Str "projection")).
    { cbn [orb]. apply bind_Ok in H. destruct H as (pc & _ & H).
      apply bind_Ok in H. destruct H as (ls & _ & H). injection H as <-. reflexivity. }
    destruct (mem_str k REPEATED_KEYS).
    { cbn [orb]. apply bind_Ok in H. destruct H as (ls & _ & H). injection H as <-. reflexivity. }
    destruct (str_eqb k (Str "points")).
    { cbn [orb]. apply bind_Ok in H. destruct H as (ls & _ & H). injection H as <-. reflexivity. }
    destruct (str_eqb k (Str "config")).
    { cbn [orb]. apply bind_Ok in H. destruct H as (ls & _ & H). injection H as <-. reflexivity. }
    cbn [orb]. destruct (is_composite v).
    { destruct r as [ls x']. cbn [snd]. apply (HQ (S level) ls x' H Hu). }
    destruct type_ as [|t0 type_]; [discriminate|].
    apply bind_Ok in H. destruct H as (line & _ & H).
    apply bind_Ok in H. destruct H as (cm & _ & H). injection H as <-. reflexivity.
  Qed.

  Lemma uniq_keys_item c items k v :
    uniq_keys (VDict c items) = true -> In (k, v) items -> uniq_keys v = true.
  Proof.
    cbn [uniq_keys]. intros H Hin. apply andb_true_iff in H. destruct H as [_ H].
    rewrite forallb_forall in H. apply (H (k, v) Hin).
  Qed.

  Lemma format_value_after v : arg_claim v /\ match v with VList l => Forall arg_claim l | _ => True end.
  Proof.
    induction v as [| | | | |l IH|c items IH] using value_ind';
      try (split; [intros level lines v' H; discriminate H|exact I]).
    - split; [intros level lines v' H; discriminate H|].
      eapply Forall_impl; [|exact IH]. intros x Hx. apply Hx.
    - split; [|exact I]. intros level lines v' H Hu.
      cbn [_format] in H.
      apply bind_Ok in H. destruct H as ([type_ head] & Hh & H). cbn [fst snd] in H.
      apply bind_Ok in H. destruct H as (sres & Hs & H).
      apply bind_Ok in H. destruct H as ([ls its] & Hc & H).
      destruct type_ as [|t0 type_]; [discriminate|]. injection H as _ <-. cbn [snd sep_doc]. f_equal.
      set (comments := dict_get c (Str "__comments__") items (VDict DPlain [])) in *.
      set (al := if align_values o then compute_aligned_max_indent o (compute_max_key_length items) else 0) in *.
      set (F := fun (k : str) (v : value) =>
                  format_item o (fun x => _format o (S level) x) (t0 :: type_) comments level al k v) in *.
      set (results := map (fun kv => (fst kv, (snd kv, F (fst kv) (snd kv)))) items) in *.
      set (g := fun (k : str) (v : value) => sep_item (sep_doc sct (S level)) k v).
      (* every element of sres is a result of format_item on an item *)
      pose proof (separate_complex_g_In o (fun a : value * res (list str * value) => fst a) c level _ _ Hs) as Hin.
      assert (Hits : its = map (fun x => (fst x, g (fst x) (fst (snd x)))) sres).
      { apply (collect_items_values g sres ls its Hc). intros x r Hx Hr.
        apply Hin in Hx. unfold results in Hx. apply in_map_iff in Hx. destruct Hx as ([k v] & <- & Hkv).
        cbn [fst snd] in *. rewrite Forall_forall in IH. specialize (IH (k, v) Hkv). cbn [snd] in IH.
        destruct IH as [HQ HL]. unfold g. apply (format_item_value (t0 :: type_) comments level al k v r Hr HQ HL).
        intros Hsct. apply (uniq_keys_item c items k v (Hu Hsct) Hkv). }
      destruct sct eqn:Esct.
      + (* reordering *)
        assert (Hn : NoDup (keys results)).
        { unfold results. rewrite (keys_map_items (fun k v => (v, F k v))).
          apply nodupb_NoDup. specialize (Hu eq_refl). cbn [uniq_keys] in Hu.
          apply andb_true_iff in Hu. tauto. }
        pose proof (separate_complex_g_partition o _ c level results sres Hn Hs) as Hp.
        rewrite Esct in Hp. rewrite Hits, Hp. unfold stable_partition.
        rewrite map_app. unfold nm, mv.
        rewrite (map_filter_keyed (fun k => negb (moved_g _ c results level k))) by reflexivity.
        rewrite (map_filter_keyed (fun k => moved_g _ c results level k)) by reflexivity.
        unfold results at 2 4. rewrite !map_map. cbn [fst snd].
        f_equal; apply filter_ext; intros [k v]; cbn [fst]; unfold results;
          rewrite (moved_results F); reflexivity.
      + assert (E : sres = results).
        { unfold separate_complex_g in Hs. rewrite Esct in Hs. injection Hs as <-. reflexivity. }
        rewrite Hits, E. unfold results. rewrite map_map. reflexivity.
  Qed.

  Lemma _format_argument_after level v lines v' :
    _format o level v = Ok (lines, v') -> (sct = true -> uniq_keys v = true) -> v' = sep_doc sct level v.
  Proof. apply (proj1 (format_value_after v)). Qed.

  Lemma pprint_one_after v lines v' :
    pprint_one o v = Ok (lines, v') -> (sct = true -> uniq_keys v = true) -> v' = sep_root sct v.
  Proof.
    intros H Hu. unfold pprint_one in H. unfold sep_root.
    destruct v as [| | | | | |c items]; try discriminate H.
    destruct (assoc (kfold_item c (Str "__type__")) items) as [t|].
    - destruct t as [| | | |t| |]; try (apply (_format_argument_after 0 _ _ _ H Hu)).
      change (mem_str t [Str "metadata"; Str "validation"; Str "connectionoptions"])
        with (mem_str t root_keydict_types) in H.
      destruct (mem_str t root_keydict_types).
      + apply bind_Ok in H. destruct H as (ls & _ & H). injection H as _ <-. reflexivity.
      + apply (_format_argument_after 0 _ _ _ H Hu).
    - destruct (has_factory c); discriminate H.
  Qed.

  Lemma pprint_lines_after d lines d' :
    pprint_lines o d = Ok (lines, d') -> (sct = true -> uniq_keys d = true) -> d' = arg_after sct d.
  Proof.
    intros H Hu. unfold pprint_lines in H. destruct (negb (quote_ok o)); [discriminate|].
    assert (G : forall v, match v with VList _ => False | _ => True end ->
                          (sct = true -> uniq_keys v = true) ->
                          (if truthy v then do r <- pprint_one o v; Ok r
                           else match v with VStr _ | VDict _ _ => Ok ([], v) | _ => Err PyTypeError end)
                          = Ok (lines, d') -> d' = sep_root sct v).
    { intros v Hv Huv Hr. destruct (truthy v) eqn:Et.
      - apply bind_Ok in Hr. destruct Hr as ([ls x] & Hr & E). injection E as <- <-.
        apply (pprint_one_after v ls x Hr Huv).
      - destruct v as [| | | |s| |c items]; try discriminate Hr; injection Hr as _ <-; [reflexivity|].
        cbn [truthy] in Et. destruct items; [|discriminate]. unfold sep_root. cbn [assoc sep_doc map].
        destruct sct; reflexivity. }
    unfold arg_after.
    destruct d as [| | | | |l|];
      try (match goal with |- _ = sep_root _ ?v => exact (G v I Hu H) end).
    apply bind_Ok in H. destruct H as (rs & Hrs & H). injection H as _ <-. f_equal.
    apply (mapM_values _ _ _ _ Hrs). apply Forall_forall. intros x Hx [ls x'] Hr. cbn [snd].
    apply (pprint_one_after x ls x' Hr). intros Hs. specialize (Hu Hs). cbn [uniq_keys] in Hu.
    rewrite forallb_forall in Hu. apply Hu. exact Hx.
  Qed.
End Arg.

(* ------------------------------------------------------------ the theorems *)
(* separate_complex_types on: the argument after the call *)
Theorem pprint_argument_after :
  forall o d s d',
    uniq_keys d = true -> pprint o d = Ok (s, d') -> d' = arg_after (separate_complex_types o) d.
Proof.
  intros o d s d' Hu H. unfold pprint in H. apply bind_Ok in H. destruct H as ([lines x] & Hl & H).
  injection H as _ <-. cbn [snd]. apply (pprint_lines_after o d lines x Hl). intros _. exact Hu.
Qed.

(* separate_complex_types off: the call does not modify its argument *)
Theorem pprint_argument_unchanged :
  forall o d s d', separate_complex_types o = false -> pprint o d = Ok (s, d') -> d' = d.
Proof.
  intros o d s d' Hs H. unfold pprint in H. apply bind_Ok in H. destruct H as ([lines x] & Hl & H).
  injection H as _ <-. cbn [snd].
  rewrite (pprint_lines_after o d lines x Hl) by (rewrite Hs; discriminate).
  rewrite Hs. apply arg_after_off.
Qed.

(* which keys move, in closed form: a key that is present with value v *)
Lemma moved_key_spec c items level k v :
  assoc (kfold_item c k) items = Some v ->
  moved_key c items level k =
    if str_eqb k (Str "symbol") && (0 <? level) then false
    else mem_str k COMPLEX_TYPES || is_hidden_container k v.
Proof.
  intros Ha. unfold moved_key, is_complex_type, is_complex_type_g, dict_getitem_g. rewrite Ha.
  destruct (str_eqb k (Str "symbol") && (0 <? level)); [reflexivity|].
  destruct (mem_str k COMPLEX_TYPES); [reflexivity|]. reflexivity.
Qed.

(* ------------------------------------------------------------ same items at every level *)
Inductive reordered : value -> value -> Prop :=
| Ro_refl : forall v, reordered v v
| Ro_list : forall l l', Forall2 reordered l l' -> reordered (VList l) (VList l')
| Ro_dict : forall c its its1 its',
    Forall2 (fun a b => fst a = fst b /\ reordered (snd a) (snd b)) its its1 ->
    Permutation its1 its' ->
    reordered (VDict c its) (VDict c its').

Lemma partition_Permutation {A} (f : A -> bool) l :
  Permutation l (filter (fun x => negb (f x)) l ++ filter f l).
Proof.
  induction l as [|x l IH]; cbn [filter]; [constructor|].
  destruct (f x); cbn [negb app].
  - apply Permutation_cons_app. exact IH.
  - constructor. exact IH.
Qed.

Lemma Forall2_map_r {A B} (R : A -> B -> Prop) (f : A -> B) l :
  Forall (fun x => R x (f x)) l -> Forall2 R l (map f l).
Proof. induction 1; cbn [map]; constructor; assumption. Qed.

Lemma sep_doc_reordered sct v : forall level, reordered v (sep_doc sct level v).
Proof.
  enough (H : (forall level, reordered v (sep_doc sct level v))
              /\ match v with VList l => Forall (fun x => forall level, reordered x (sep_doc sct level x)) l
                         | _ => True end) by apply H.
  induction v as [| | | | |l IH|c items IH] using value_ind'; try (split; [intros; apply Ro_refl|exact I]).
  - split; [intros; apply Ro_refl|]. eapply Forall_impl; [|exact IH]. intros x Hx. apply Hx.
  - split; [|exact I]. intros level. cbn [sep_doc].
    set (items' := map (fun kv => (fst kv, sep_item (sep_doc sct (S level)) (fst kv) (snd kv))) items).
    apply (Ro_dict c items items').
    + unfold items'. apply Forall2_map_r. eapply Forall_impl; [|exact IH].
      intros [k v] [HQ HL]. cbn [fst snd] in *. split; [reflexivity|].
      unfold sep_item. destruct (is_metadata k); [apply Ro_refl|].
      destruct (is_hidden_container k v).
      * destruct v as [| | | | |vs|]; try apply Ro_refl. apply Ro_list. apply Forall2_map_r.
        eapply Forall_impl; [|exact HL]. intros x Hx. apply Hx.
      * destruct (no_descend_key k); [apply Ro_refl|]. destruct (is_composite v); [apply HQ|apply Ro_refl].
    + destruct sct; [|apply Permutation_refl]. unfold stable_partition, nm, mv.
      apply (partition_Permutation (fun kv => moved_key c items level (fst kv))).
Qed.

Lemma sep_root_reordered sct v : reordered v (sep_root sct v).
Proof.
  unfold sep_root. destruct v as [| | | | | |c items]; try apply Ro_refl.
  destruct (assoc (kfold_item c (Str "__type__")) items) as [[| | | |t| |]|]; try apply sep_doc_reordered.
  destruct (mem_str t root_keydict_types); [apply Ro_refl|apply sep_doc_reordered].
Qed.

(* whatever the options: the dictionary after the call has, at every level, the
   items of the argument (same keys, same values up to the same reordering
   inside nested objects) *)
Theorem pprint_argument_reordered :
  forall o d s d', uniq_keys d = true -> pprint o d = Ok (s, d') -> reordered d d'.
Proof.
  intros o d s d' Hu H. rewrite (pprint_argument_after o d s d' Hu H).
  unfold arg_after. destruct d as [| | | | |l|]; try apply sep_root_reordered.
  apply Ro_list. apply Forall2_map_r. apply Forall_forall. intros x _. apply sep_root_reordered.
Qed.
