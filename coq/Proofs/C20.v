(* Proofs for property C20: UTF-8 codec, newline translation, loaders and
   writers, command decision logic. *)
From MF Require Import Lib.Base Model.Utf8 Model.Cli Spec.Frontends.
From Coq Require Import ZifyBool.
Open Scope N_scope.

(* lia for goals with div/mod by constants *)
Ltac dlia := zify; Z.to_euclidean_division_equations; lia.

(* ================================================================ codec *)
Definition cons_res (c : N) (r : res str) : res str :=
  match r with Ok s => Ok (c :: s) | Err e => Err e end.

Lemma dec_step1 b0 r :
  b0 < 128 -> utf8_decode (b0 :: r) = cons_res b0 (utf8_decode r).
Proof.
  intros H. cbn [utf8_decode]. replace (b0 <? 128) with true by lia. reflexivity.
Qed.

Lemma dec_step2 b0 b1 r :
  192 <= b0 < 224 -> 128 <= b1 < 192 -> 128 <= (b0 - 192) * 64 + (b1 - 128) ->
  utf8_decode (b0 :: b1 :: r) = cons_res ((b0 - 192) * 64 + (b1 - 128)) (utf8_decode r).
Proof.
  intros H0 H1 Hc. cbn [utf8_decode]. unfold is_cont.
  replace (b0 <? 128) with false by lia.
  replace (b0 <? 192) with false by lia.
  replace (b0 <? 224) with true by lia.
  replace (128 <=? b1) with true by lia.
  replace (b1 <? 192) with true by lia.
  replace (128 <=? (b0 - 192) * 64 + (b1 - 128)) with true by lia.
  reflexivity.
Qed.

Lemma dec_step3 b0 b1 b2 r :
  224 <= b0 < 240 -> 128 <= b1 < 192 -> 128 <= b2 < 192 ->
  2048 <= (b0 - 224) * 4096 + (b1 - 128) * 64 + (b2 - 128) ->
  ~ (55296 <= (b0 - 224) * 4096 + (b1 - 128) * 64 + (b2 - 128) <= 57343) ->
  utf8_decode (b0 :: b1 :: b2 :: r)
  = cons_res ((b0 - 224) * 4096 + (b1 - 128) * 64 + (b2 - 128)) (utf8_decode r).
Proof.
  intros H0 H1 H2 Hc Hs. cbn [utf8_decode]. unfold is_cont.
  set (c := (b0 - 224) * 4096 + (b1 - 128) * 64 + (b2 - 128)) in *.
  replace (b0 <? 128) with false by lia.
  replace (b0 <? 192) with false by lia.
  replace (b0 <? 224) with false by lia.
  replace (b0 <? 240) with true by lia.
  replace (128 <=? b1) with true by lia.
  replace (b1 <? 192) with true by lia.
  replace (128 <=? b2) with true by lia.
  replace (b2 <? 192) with true by lia.
  replace (2048 <=? c) with true by lia.
  replace ((55296 <=? c) && (c <=? 57343)) with false by lia.
  reflexivity.
Qed.

Lemma dec_step4 b0 b1 b2 b3 r :
  240 <= b0 < 248 -> 128 <= b1 < 192 -> 128 <= b2 < 192 -> 128 <= b3 < 192 ->
  65536 <= (b0 - 240) * 262144 + (b1 - 128) * 4096 + (b2 - 128) * 64 + (b3 - 128) <= 1114111 ->
  utf8_decode (b0 :: b1 :: b2 :: b3 :: r)
  = cons_res ((b0 - 240) * 262144 + (b1 - 128) * 4096 + (b2 - 128) * 64 + (b3 - 128)) (utf8_decode r).
Proof.
  intros H0 H1 H2 H3 Hc. cbn [utf8_decode]. unfold is_cont.
  set (c := (b0 - 240) * 262144 + (b1 - 128) * 4096 + (b2 - 128) * 64 + (b3 - 128)) in *.
  replace (b0 <? 128) with false by lia.
  replace (b0 <? 192) with false by lia.
  replace (b0 <? 224) with false by lia.
  replace (b0 <? 240) with false by lia.
  replace (b0 <? 248) with true by lia.
  replace (128 <=? b1) with true by lia.
  replace (b1 <? 192) with true by lia.
  replace (128 <=? b2) with true by lia.
  replace (b2 <? 192) with true by lia.
  replace (128 <=? b3) with true by lia.
  replace (b3 <? 192) with true by lia.
  replace (65536 <=? c) with true by lia.
  replace (c <=? 1114111) with true by lia.
  reflexivity.
Qed.

(* the encoder is defined exactly on scalar values *)
Lemma encode_cp_scalar c : is_scalar c = true -> exists b, encode_cp c = Ok b.
Proof.
  unfold is_scalar, encode_cp. intros Hs.
  destruct (c <? 128) eqn:H1; [eexists; reflexivity|].
  destruct (c <? 2048) eqn:H2; [eexists; reflexivity|].
  destruct (c <? 65536) eqn:H3.
  - replace ((55296 <=? c) && (c <=? 57343)) with false by lia. eexists; reflexivity.
  - replace (c <=? 1114111) with true by lia. eexists; reflexivity.
Qed.

Lemma encode_cp_ok_scalar c b : encode_cp c = Ok b -> is_scalar c = true.
Proof.
  unfold is_scalar, encode_cp.
  destruct (c <? 128) eqn:H1; [intros _; lia|].
  destruct (c <? 2048) eqn:H2; [intros _; lia|].
  destruct (c <? 65536) eqn:H3.
  - destruct ((55296 <=? c) && (c <=? 57343)) eqn:H4; [discriminate|intros _; lia].
  - destruct (c <=? 1114111) eqn:H4; [intros _; lia|discriminate].
Qed.

(* one code point: decoding what the encoder produced, in front of any rest *)
Lemma Ok_inj {A} (a b : A) : Ok a = Ok b -> a = b.
Proof. intros H. injection H. auto. Qed.

Lemma decode_encode_cp c b r :
  encode_cp c = Ok b -> utf8_decode (b ++ r) = cons_res c (utf8_decode r).
Proof.
  unfold encode_cp.
  destruct (c <? 128) eqn:H1.
  { intros He; apply Ok_inj in He; subst b. rewrite <- ?app_comm_cons, app_nil_l. apply dec_step1. lia. }
  destruct (c <? 2048) eqn:H2.
  { intros He; apply Ok_inj in He; subst b. rewrite <- ?app_comm_cons, app_nil_l.
    rewrite dec_step2 by dlia. f_equal. dlia. }
  destruct (c <? 65536) eqn:H3.
  { destruct ((55296 <=? c) && (c <=? 57343)) eqn:H4; [discriminate|].
    intros He; apply Ok_inj in He; subst b. rewrite <- ?app_comm_cons, app_nil_l.
    rewrite dec_step3 by dlia. f_equal. dlia. }
  destruct (c <=? 1114111) eqn:H4; [|discriminate].
  intros He; apply Ok_inj in He; subst b. rewrite <- ?app_comm_cons, app_nil_l.
  rewrite dec_step4 by dlia. f_equal. dlia.
Qed.

Lemma utf8_decode_encode s : forall b, utf8_encode s = Ok b -> utf8_decode b = Ok s.
Proof.
  induction s as [|c s IH]; intros b; cbn [utf8_encode].
  - intros [= <-]. reflexivity.
  - destruct (encode_cp c) as [bc|e] eqn:Hc; [|discriminate].
    destruct (utf8_encode s) as [bs|e] eqn:Hs; [|discriminate].
    intros [= <-]. rewrite (decode_encode_cp c bc bs Hc), (IH bs eq_refl). reflexivity.
Qed.

Lemma utf8_encode_total s : all_scalar s = true -> exists b, utf8_encode s = Ok b.
Proof.
  unfold all_scalar. induction s as [|c s IH]; cbn [forallb utf8_encode]; intros H.
  - eexists; reflexivity.
  - apply andb_true_iff in H. destruct H as [Hc Hs].
    destruct (encode_cp_scalar c Hc) as [bc ->]. destruct (IH Hs) as [bs ->].
    eexists; reflexivity.
Qed.

Lemma utf8_encode_ok_scalar s : forall b, utf8_encode s = Ok b -> all_scalar s = true.
Proof.
  unfold all_scalar. induction s as [|c s IH]; intros b; cbn [forallb utf8_encode]; [reflexivity|].
  destruct (encode_cp c) as [bc|e] eqn:Hc; [|discriminate].
  destruct (utf8_encode s) as [bs|e] eqn:Hs; [|discriminate].
  intros _. rewrite (encode_cp_ok_scalar c bc Hc), (IH bs eq_refl). reflexivity.
Qed.

(* [U] utf8_roundtrip *)
Lemma utf8_roundtrip s :
  all_scalar s = true -> exists b, utf8_encode s = Ok b /\ utf8_decode b = Ok s.
Proof.
  intros H. destruct (utf8_encode_total s H) as [b Hb].
  exists b. split; [exact Hb|exact (utf8_decode_encode s b Hb)].
Qed.

Lemma decode_encode_inj s1 s2 b :
  utf8_encode s1 = Ok b -> utf8_encode s2 = Ok b -> s1 = s2.
Proof.
  intros H1 H2. apply utf8_decode_encode in H1. apply utf8_decode_encode in H2. congruence.
Qed.

(* The strict decoder accepts only the canonical encoding of a string of
   scalar values: no overlong form, surrogate, value above U+10FFFF, stray
   continuation byte, truncated sequence or non-byte is accepted. *)
Lemma cons_res_Ok c r s : cons_res c r = Ok s -> exists s', r = Ok s' /\ s = c :: s'.
Proof. destruct r as [s'|e]; cbn; [intros [= <-]; eauto|discriminate]. Qed.

Lemma utf8_decode_canonical_n n : forall b s,
  (length b <= n)%nat -> utf8_decode b = Ok s -> utf8_encode s = Ok b.
Proof.
  induction n as [|n IH]; intros b s Hl.
  { destruct b; [|cbn in Hl; lia]. cbn. intros [= <-]. reflexivity. }
  destruct b as [|b0 r0]; [cbn; intros [= <-]; reflexivity|].
  cbn [utf8_decode]. cbn [length] in Hl.
  destruct (b0 <? 128) eqn:H1.
  { intros H. apply (cons_res_Ok b0) in H. destruct H as [s' [Hs' ->]].
    cbn [utf8_encode]. unfold encode_cp. rewrite H1.
    rewrite (IH r0 s') by (try lia; assumption). reflexivity. }
  destruct (b0 <? 192) eqn:H2; [discriminate|].
  destruct (b0 <? 224) eqn:H3.
  { destruct r0 as [|b1 r1]; [discriminate|]. cbn [length] in Hl.
    set (c := (b0 - 192) * 64 + (b1 - 128)).
    destruct (is_cont b1 && (128 <=? c)) eqn:Hg; [|discriminate].
    intros H. apply (cons_res_Ok c) in H. destruct H as [s' [Hs' ->]].
    unfold is_cont in Hg. cbn [utf8_encode]. unfold encode_cp.
    replace (c <? 128) with false by (subst c; dlia).
    replace (c <? 2048) with true by (subst c; dlia).
    rewrite (IH r1 s') by (try lia; assumption). cbn [app].
    replace (192 + c / 64) with b0 by (subst c; dlia).
    replace (128 + c mod 64) with b1 by (subst c; dlia).
    reflexivity. }
  destruct (b0 <? 240) eqn:H4.
  { destruct r0 as [|b1 [|b2 r2]]; [discriminate|discriminate|]. cbn [length] in Hl.
    set (c := (b0 - 224) * 4096 + (b1 - 128) * 64 + (b2 - 128)).
    destruct (is_cont b1 && is_cont b2 && (2048 <=? c) && negb ((55296 <=? c) && (c <=? 57343))) eqn:Hg;
      [|discriminate].
    intros H. apply (cons_res_Ok c) in H. destruct H as [s' [Hs' ->]].
    unfold is_cont in Hg. cbn [utf8_encode]. unfold encode_cp.
    replace (c <? 128) with false by (subst c; dlia).
    replace (c <? 2048) with false by (subst c; dlia).
    replace (c <? 65536) with true by (subst c; dlia).
    replace ((55296 <=? c) && (c <=? 57343)) with false by dlia.
    rewrite (IH r2 s') by (try lia; assumption). cbn [app].
    replace (224 + c / 4096) with b0 by (subst c; dlia).
    replace (128 + (c / 64) mod 64) with b1 by (subst c; dlia).
    replace (128 + c mod 64) with b2 by (subst c; dlia).
    reflexivity. }
  destruct (b0 <? 248) eqn:H5; [|discriminate].
  destruct r0 as [|b1 [|b2 [|b3 r3]]]; [discriminate|discriminate|discriminate|]. cbn [length] in Hl.
  set (c := (b0 - 240) * 262144 + (b1 - 128) * 4096 + (b2 - 128) * 64 + (b3 - 128)).
  destruct (is_cont b1 && is_cont b2 && is_cont b3 && (65536 <=? c) && (c <=? 1114111)) eqn:Hg;
    [|discriminate].
  intros H. apply (cons_res_Ok c) in H. destruct H as [s' [Hs' ->]].
  unfold is_cont in Hg. cbn [utf8_encode]. unfold encode_cp.
  replace (c <? 128) with false by (subst c; dlia).
  replace (c <? 2048) with false by (subst c; dlia).
  replace (c <? 65536) with false by (subst c; dlia).
  replace (c <=? 1114111) with true by dlia.
  rewrite (IH r3 s') by (try lia; assumption). cbn [app].
  replace (240 + c / 262144) with b0 by (subst c; dlia).
  replace (128 + (c / 4096) mod 64) with b1 by (subst c; dlia).
  replace (128 + (c / 64) mod 64) with b2 by (subst c; dlia).
  replace (128 + c mod 64) with b3 by (subst c; dlia).
  reflexivity.
Qed.

Lemma utf8_decode_canonical b s :
  utf8_decode b = Ok s -> utf8_encode s = Ok b /\ all_scalar s = true.
Proof.
  intros H. assert (He := utf8_decode_canonical_n (length b) b s (le_n _) H).
  split; [exact He|exact (utf8_encode_ok_scalar s b He)].
Qed.

(* ==================================================== newline translation *)
Lemma un_cons c s :
  universal_newlines (c :: s) =
  if c =? 13 then
    10 :: match s with
          | c2 :: s'' => if c2 =? 10 then universal_newlines s'' else universal_newlines s
          | [] => []
          end
  else c :: universal_newlines s.
Proof. reflexivity. Qed.

Lemma newline_translation_identity s : has_cr s = false -> universal_newlines s = s.
Proof.
  unfold has_cr. induction s as [|c s IH]; [reflexivity|].
  cbn [existsb]. intros H. apply orb_false_iff in H. destruct H as [Hc Hs].
  rewrite un_cons, Hc, (IH Hs). reflexivity.
Qed.

(* the translated text never contains a CR *)
Lemma universal_newlines_no_cr_n n : forall s,
  (length s <= n)%nat -> has_cr (universal_newlines s) = false.
Proof.
  unfold has_cr. induction n as [|n IH]; intros s Hl.
  { destruct s; [reflexivity|cbn in Hl; lia]. }
  destruct s as [|c s]; [reflexivity|]. cbn [length] in Hl. rewrite un_cons.
  destruct (c =? 13) eqn:Hc.
  - cbn [existsb]. replace (10 =? 13) with false by reflexivity. cbn [orb].
    destruct s as [|c2 s2]; [reflexivity|]. cbn [length] in Hl.
    destruct (c2 =? 10); apply IH; cbn [length]; lia.
  - cbn [existsb]. rewrite Hc. cbn [orb]. apply IH. lia.
Qed.

Lemma universal_newlines_no_cr s : has_cr (universal_newlines s) = false.
Proof. exact (universal_newlines_no_cr_n (length s) s (le_n _)). Qed.

(* identity exactly on texts without CR *)
Lemma newline_translation_identity_iff s : universal_newlines s = s <-> has_cr s = false.
Proof.
  split; [|apply newline_translation_identity].
  intros H. rewrite <- H. apply universal_newlines_no_cr.
Qed.

(* translation is idempotent (reading twice changes nothing more) *)
Lemma universal_newlines_idem s : universal_newlines (universal_newlines s) = universal_newlines s.
Proof. apply newline_translation_identity, universal_newlines_no_cr. Qed.

(* ============================================== text of a file: save, open *)
Lemma file_roundtrip_spec s :
  all_scalar s = true -> file_roundtrip s = Ok (universal_newlines s).
Proof.
  intros H. destruct (utf8_roundtrip s H) as [b [He Hd]].
  unfold file_roundtrip, write_text, read_text. rewrite He, Hd. reflexivity.
Qed.

Lemma file_roundtrip_identity s :
  all_scalar s = true -> has_cr s = false -> file_roundtrip s = Ok s.
Proof.
  intros H Hc. rewrite (file_roundtrip_spec s H), (newline_translation_identity s Hc). reflexivity.
Qed.

Lemma file_roundtrip_identity_iff s :
  all_scalar s = true -> (file_roundtrip s = Ok s <-> has_cr s = false).
Proof.
  intros H. rewrite (file_roundtrip_spec s H). split.
  - intros E. apply newline_translation_identity_iff. congruence.
  - intros Hc. rewrite (newline_translation_identity s Hc). reflexivity.
Qed.

(* [R] a string value containing CR does not survive: "a CR b" comes back as "a LF b" *)
Lemma file_roundtrip_refuted :
  exists s, all_scalar s = true /\ file_roundtrip s = Ok [97; 10; 98] /\ s <> [97; 10; 98].
Proof. exists [97; 13; 98]. split; [reflexivity|split; [reflexivity|discriminate]]. Qed.

(* a string that is not made of scalar values cannot be saved at all *)
Lemma write_text_defined_iff s : (exists b, write_text s = Ok b) <-> all_scalar s = true.
Proof.
  unfold write_text. split.
  - intros [b H]. exact (utf8_encode_ok_scalar s b H).
  - apply utf8_encode_total.
Qed.

(* ======================================================= loaders, writers *)
Section FrontEndProofs.
  Variable D : Type.
  Variable parse_transform : filesys -> load_opts -> str -> option path -> res D.
  Variable pprint : print_opts -> D -> res str.

  Notation loads := (loads D parse_transform).
  Notation load := (load D parse_transform).
  Notation open := (open D parse_transform).
  Notation dumps := (dumps D pprint).
  Notation dump := (dump D pprint).
  Notation save := (save D pprint).

  (* open(path) is load(the text stream of that path): same text, same fn *)
  Lemma open_is_load_of_text_stream fs o fn :
    open fs o fn = match text_stream_of_file fs fn with
                   | Ok fp => load fs o fp
                   | Err e => Err e
                   end.
  Proof.
    unfold Cli.open, Cli.load, text_stream_of_file.
    destruct (open_file fs fn) as [t|e]; reflexivity.
  Qed.

  (* [U] three_loaders_agree: for the same UTF-8 content (without CR) the three
     front ends are the same function of the decoded text; load takes fn from
     the stream, loads has none *)
  Lemma three_loaders_agree fs o fn b text :
    fs fn = Some b -> utf8_decode b = Ok text -> has_cr text = false ->
    open fs o fn = parse_transform fs o text (Some fn) /\
    load fs o (mk_stream text (Some fn) []) = parse_transform fs o text (Some fn) /\
    load fs o (mk_stream text None []) = loads fs o text /\
    (parse_transform fs o text (Some fn) = parse_transform fs o text None ->
     open fs o fn = loads fs o text /\ load fs o (mk_stream text (Some fn) []) = loads fs o text).
  Proof.
    intros Hf Hd Hc.
    assert (Ho : open fs o fn = parse_transform fs o text (Some fn)).
    { unfold Cli.open, open_file, read_text. rewrite Hf, Hd, (newline_translation_identity text Hc). reflexivity. }
    split; [exact Ho|]. split; [reflexivity|]. split; [reflexivity|].
    intros Hfn. unfold Cli.loads, Cli.load. cbn [st_text st_name]. rewrite Ho. split; exact Hfn.
  Qed.

  (* without the CR guard: open parses the translated text *)
  Lemma open_spec fs o fn b text :
    fs fn = Some b -> utf8_decode b = Ok text ->
    open fs o fn = parse_transform fs o (universal_newlines text) (Some fn).
  Proof.
    intros Hf Hd. unfold Cli.open, open_file, read_text. rewrite Hf, Hd. reflexivity.
  Qed.

  Lemma open_undecodable fs o fn b e :
    fs fn = Some b -> utf8_decode b = Err e -> open fs o fn = Err e.
  Proof.
    intros Hf Hd. unfold Cli.open, open_file, read_text. rewrite Hf, Hd. reflexivity.
  Qed.

  Lemma fs_write_same fs fn b : fs_write fs fn b fn = Some b.
  Proof. unfold fs_write. rewrite str_eqb_refl. reflexivity. Qed.

  Lemma fs_write_other fs fn b p : p <> fn -> fs_write fs fn b p = fs p.
  Proof.
    intros H. unfold fs_write. destruct (str_eqb_spec p fn); [contradiction|reflexivity].
  Qed.

  (* [U] three_writers_agree: dump writes the characters of dumps to the
     stream, save writes their UTF-8 to the file and touches nothing else *)
  Lemma three_writers_agree fs po d fp fn s :
    dumps po d = Ok s -> all_scalar s = true ->
    dump po d fp = Ok (mk_stream (st_text fp) (st_name fp) (st_written fp ++ s)) /\
    exists b, utf8_encode s = Ok b /\
              save fs po d fn = Ok (fs_write fs fn b) /\
              fs_write fs fn b fn = Some b /\ utf8_decode b = Ok s /\
              (forall p, p <> fn -> fs_write fs fn b p = fs p).
  Proof.
    unfold Cli.dumps, Cli.dump, Cli.save, Cli._pprint. intros Hp Hs. rewrite Hp.
    split; [reflexivity|].
    destruct (utf8_roundtrip s Hs) as [b [He Hd]]. exists b.
    split; [exact He|]. unfold _save, write_text. rewrite He.
    split; [reflexivity|]. split; [apply fs_write_same|]. split; [exact Hd|].
    intros p Hne. apply fs_write_other. exact Hne.
  Qed.

  Lemma writers_fail_together fs po d fp fn e :
    dumps po d = Err e -> dump po d fp = Err e /\ save fs po d fn = Err e.
  Proof.
    unfold Cli.dumps, Cli.dump, Cli.save, Cli._pprint. intros ->. split; reflexivity.
  Qed.

  (* save then open = parse of the translated printed text; = parse of the
     printed text itself when it has no CR *)
  Lemma save_open_cycle fs po d fn o s :
    dumps po d = Ok s -> all_scalar s = true ->
    exists fs', save fs po d fn = Ok fs' /\
                open fs' o fn = parse_transform fs' o (universal_newlines s) (Some fn) /\
                (has_cr s = false -> open fs' o fn = parse_transform fs' o s (Some fn)).
  Proof.
    intros Hp Hs.
    destruct (three_writers_agree fs po d (mk_stream [] None []) fn s Hp Hs) as [_ [b [He [Hsv [Hsame [Hd _]]]]]].
    exists (fs_write fs fn b). split; [exact Hsv|].
    assert (Ho := open_spec (fs_write fs fn b) o fn b s Hsame Hd).
    split; [exact Ho|]. intros Hc. rewrite Ho, (newline_translation_identity s Hc). reflexivity.
  Qed.

  (* ---- format command *)
  Lemma format_is_save_open fs a q sp nl :
    unicode_escape_decode (f_quote a) = Some q ->
    unicode_escape_decode (f_spacer a) = Some sp ->
    unicode_escape_decode (f_newlinechar a) = Some nl ->
    format_cmd D parse_transform pprint fs a =
    Some (match open fs (mk_lopts (f_expand a) (f_comments a) true) (f_input a) with
          | Ok d =>
              match save fs (mk_popts (f_indent a) sp q nl false false false) d (f_output a) with
              | Ok fs' => Ok (fs', 0)
              | Err e => Err e
              end
          | Err e => Err e
          end).
  Proof. intros Hq Hs Hn. unfold format_cmd. rewrite Hq, Hs, Hn. reflexivity. Qed.

  (* ---- schema command *)
  Variable J : Type.
  Variable version : Type.
  Variable get_versioned_schema : option version -> J.
  Variable json_dumps_sorted_indent4 : J -> str.

  Lemma schema_cmd_spec fs out v :
    all_scalar (json_dumps_sorted_indent4 (get_versioned_schema v)) = true ->
    exists b, schema_cmd J version get_versioned_schema json_dumps_sorted_indent4 fs out v
              = Ok (fs_write fs out b, 0) /\
              utf8_decode b = Ok (json_dumps_sorted_indent4 (get_versioned_schema v)).
  Proof.
    intros Hs. destruct (utf8_roundtrip _ Hs) as [b [He Hd]]. exists b.
    unfold schema_cmd, _save, write_text. rewrite He. split; [reflexivity|exact Hd].
  Qed.
End FrontEndProofs.

(* option decoding: plain ASCII without backslash is unchanged *)
Lemma unicode_escape_plain s :
  forallb (fun c => (c <? 128) && negb (c =? 92)) s = true -> unicode_escape_decode s = Some s.
Proof.
  induction s as [|c s IH]; [reflexivity|]. cbn [forallb]. intros H.
  apply andb_true_iff in H. destruct H as [Hc Hs]. apply andb_true_iff in Hc. destruct Hc as [H1 H2].
  cbn [unicode_escape_decode].
  replace (128 <=? c) with false by lia.
  replace (c =? 92) with false by (destruct (c =? 92); [discriminate|reflexivity]).
  rewrite (IH Hs). reflexivity.
Qed.

(* ========================================================== validate command *)
Lemma echo_messages_spec fn msgs : forall st,
  echo_messages fn msgs st =
  mk_vstate (echoed st ++ map (message_line fn) msgs) (validation_count st) (errors st + length msgs).
Proof.
  induction msgs as [|v msgs IH]; intros st; cbn [echo_messages map length].
  - rewrite app_nil_r, Nat.add_0_r. destruct st; reflexivity.
  - rewrite IH. cbn [echoed validation_count errors]. rewrite <- app_assoc. cbn [app].
    f_equal. lia.
Qed.

(* problems contributed by one file: its messages, or 1 when it failed to parse *)
Definition file_problems (o : outcome) : nat :=
  (n_messages o + (if is_parse_failure o then 1 else 0))%nat.

Lemma validate_file_spec st f :
  validate_file st f =
  mk_vstate (echoed st ++ file_lines f)
            (validation_count st + (if file_ok (snd f) then 1 else 0))
            (errors st + file_problems (snd f)).
Proof.
  destruct f as [fn o]. unfold validate_file, file_lines, file_problems. cbn [fst snd].
  destruct o as [|msgs].
  - cbn [file_ok n_messages is_parse_failure]. rewrite Nat.add_0_r. f_equal. lia.
  - destruct msgs as [|v msgs].
    + cbn [file_ok n_messages is_parse_failure length]. rewrite !Nat.add_0_r. f_equal. lia.
    + rewrite echo_messages_spec. cbn [file_ok n_messages is_parse_failure]. rewrite !Nat.add_0_r. reflexivity.
Qed.

Lemma fold_validate_spec files : forall st,
  fold_left validate_file files st =
  mk_vstate (echoed st ++ flat_map file_lines files)
            (validation_count st + count_ok files)
            (errors st + problems files).
Proof.
  unfold problems.
  induction files as [|f files IH]; intros st; cbn [fold_left flat_map count_ok total_messages parse_failures].
  - rewrite app_nil_r, !Nat.add_0_r. destruct st; reflexivity.
  - rewrite IH, validate_file_spec. cbn [echoed validation_count errors]. unfold file_problems.
    rewrite <- app_assoc. f_equal; lia.
Qed.

(* the errors counter is the number of problems: every validation message and
   every file that failed to parse *)
Lemma validate_loop_spec files :
  validate_loop files = mk_vstate (flat_map file_lines files) (count_ok files) (problems files).
Proof. unfold validate_loop. rewrite fold_validate_spec. reflexivity. Qed.

(* what the command prints: one line per message (or the one-line verdict)
   per file, in order, then the summary *)
Lemma validate_lines_spec files :
  files <> [] -> validate_lines files = expected_lines files.
Proof.
  intros Hne. unfold validate_lines, validate_cmd, expected_lines.
  destruct files as [|f files]; [contradiction|].
  rewrite validate_loop_spec. reflexivity.
Qed.

(* the exit status is the number of problems capped at 255 *)
Lemma validate_status_exact files :
  validate_status files = N.min (N.of_nat (problems files)) 255.
Proof.
  unfold validate_status, validate_cmd. destruct files as [|f files]; [reflexivity|].
  rewrite validate_loop_spec. cbn [snd]. unfold validate_exit_arg, exit_status. cbn [errors].
  apply N.mod_small. lia.
Qed.

Lemma all_ok_no_problems files : all_ok files = true -> problems files = O.
Proof.
  unfold all_ok, problems.
  induction files as [|[fn o] files IH]; cbn [forallb total_messages parse_failures snd]; [auto|].
  intros H. apply andb_true_iff in H. destruct H as [Ho Hr]. specialize (IH Hr).
  destruct o as [|[|v msgs]]; try discriminate. cbn [n_messages is_parse_failure length]. lia.
Qed.

Lemma no_problems_all_ok files : problems files = O -> all_ok files = true.
Proof.
  unfold all_ok, problems.
  induction files as [|[fn o] files IH]; cbn [forallb total_messages parse_failures snd]; [auto|].
  intros H. destruct o as [|[|v msgs]]; cbn [n_messages is_parse_failure length] in H; try lia.
  cbn [file_ok andb]. apply IH. lia.
Qed.

Lemma all_ok_iff_no_problems files : all_ok files = true <-> problems files = O.
Proof. split; [apply all_ok_no_problems|apply no_problems_all_ok]. Qed.

(* [U] status = 0 exactly when every matched file parsed and validated *)
Lemma validate_exit_status files : validate_status files = 0 <-> all_ok files = true.
Proof. rewrite validate_status_exact, all_ok_iff_no_problems. lia. Qed.

(* [U] status = number of problems whenever that fits an exit status *)
Lemma status_equals_count_when_small files :
  (problems files < 256)%nat -> validate_status files = N.of_nat (problems files).
Proof. intros H. rewrite validate_status_exact. lia. Qed.

(* [U] the status meets the property's reading in full, for every file list *)
Lemma validate_status_meets_property files :
  status_meets_property files (validate_status files).
Proof.
  split; [exact (validate_exit_status files)|exact (status_equals_count_when_small files)].
Qed.

(* beyond the cap the status is 255 (never 0 because the count wrapped) *)
Lemma validate_status_capped files :
  (255 <= problems files)%nat -> validate_status files = 255.
Proof. intros H. rewrite validate_status_exact. lia. Qed.

(* the former counterexamples now give a non-zero status *)
Lemma validate_unparseable_only_status : validate_status [([117], ParseFailed)] = 1.
Proof. reflexivity. Qed.

Lemma validate_256_messages_status :
  validate_status [([98], Validated (repeat (mk_vmsg (Some 1%Z) (Some 1%Z) [109] [101]) 256))] = 255.
Proof. vm_compute. reflexivity. Qed.

(* number of echoed lines: one per message, one per file without messages, one summary *)
Lemma file_lines_length f :
  length (file_lines f) = (n_messages (snd f) + (if file_ok (snd f) then 1 else 0) + (if is_parse_failure (snd f) then 1 else 0))%nat.
Proof.
  destruct f as [fn [|[|v msgs]]]; unfold file_lines; cbn [snd fst file_ok is_parse_failure n_messages length]; try reflexivity.
  rewrite map_length. cbn [length]. lia.
Qed.

Lemma validate_lines_count files :
  files <> [] ->
  length (validate_lines files) = (total_messages files + count_ok files + parse_failures files + 1)%nat.
Proof.
  intros Hne. rewrite (validate_lines_spec files Hne). unfold expected_lines.
  rewrite app_length. cbn [length].
  assert (H : length (flat_map file_lines files) = (total_messages files + count_ok files + parse_failures files)%nat).
  { clear Hne. induction files as [|f files IH]; [reflexivity|].
    cbn [flat_map total_messages count_ok parse_failures]. rewrite app_length, IH, file_lines_length. lia. }
  rewrite H. lia.
Qed.

Lemma get_mapfiles_spec glob isdir mapfiles mf :
  In mf (get_mapfiles glob isdir mapfiles) <->
  exists p, In p mapfiles /\ In mf (glob p) /\ isdir mf = false.
Proof.
  unfold get_mapfiles. rewrite in_flat_map. split.
  - intros [p [Hp Hm]]. apply filter_In in Hm. destruct Hm as [Hm Hd].
    exists p. split; [exact Hp|]. split; [exact Hm|]. destruct (isdir mf); [discriminate|reflexivity].
  - intros [p [Hp [Hm Hd]]]. exists p. split; [exact Hp|]. apply filter_In. split; [exact Hm|].
    rewrite Hd. reflexivity.
Qed.
