(* C11: which exceptions can escape loads (on the model). *)
From MF Require Import Lib.Base Lib.PyDict Lib.PyNum Lib.Regex Model.GrammarTypes Model.Lexer Model.LR
  Model.Case Model.Transformer Model.Api Gen.Tokens Gen.Grammar.
Open Scope N_scope.

(* ---------------------------------------------------------------- the hook is total *)
Lemma top_is_total up vs s : exists b, top_is up vs s = Ok b.
Proof. destruct vs as [|[t|d cs m] vs]; eexists; reflexivity. Qed.

Theorem hook_total h t vs : exists t', hook h t vs = Ok t'.
Proof.
  unfold hook.
  destruct (ttype t =? h_unquoted h).
  - destruct (top_is_total (h_upper h) vs str_SYMBOL) as [b ->]. cbn [bind].
    destruct (b && _); eexists; reflexivity.
  - destruct (ttype t =? h_grid h).
    + destruct (top_is_total (h_upper h) vs str_NAME) as [b ->]. cbn [bind]. destruct b; eexists; reflexivity.
    + eexists; reflexivity.
Qed.

(* ---------------------------------------------------------------- transformer errors *)
(* [only_visit r]: if r fails, it fails with VisitError *)
Definition only_visit {A} (r : res A) : Prop := forall e, r = Err e -> e = LarkVisitError.

Lemma ov_ok {A} (a : A) : only_visit (Ok a).
Proof. intros e H. discriminate. Qed.

Lemma ov_vfail {A} : only_visit (@vfail A).
Proof. intros e [= <-]. reflexivity. Qed.

Lemma ov_bind {A B} (r : res A) (f : A -> res B) :
  only_visit r -> (forall a, only_visit (f a)) -> only_visit (bind r f).
Proof.
  intros Hr Hf e H. destruct r as [a|e0]; cbn [bind] in H.
  - eapply Hf. exact H.
  - injection H as <-. apply (Hr e0 eq_refl).
Qed.

Lemma ov_mapM {A B} (f : A -> res B) l : (forall a, only_visit (f a)) -> only_visit (mapM f l).
Proof.
  intros Hf. induction l as [|x l IH]; cbn [mapM]; [apply ov_ok|].
  apply ov_bind; [apply Hf|]. intros y. apply ov_bind; [exact IH|]. intros ys. apply ov_ok.
Qed.

Ltac ov :=
  repeat first
    [ apply ov_ok | apply ov_vfail
    | apply ov_bind; [|intros ?]
    | apply ov_mapM; intros ?
    | match goal with
      | |- only_visit (match ?x with _ => _ end) => destruct x
      | |- only_visit (if ?x then _ else _) => destruct x
      | |- only_visit (let '(_, _) := ?x in _) => destruct x
      end ].

Lemma ov_tok_of x : only_visit (tok_of x).
Proof. unfold tok_of. ov. Qed.
Lemma ov_tok_str t : only_visit (tok_str t).
Proof. unfold tok_str. ov. Qed.
Lemma ov_key_name t : only_visit (key_name t).
Proof. unfold key_name. ov. apply ov_tok_str. Qed.
Lemma ov_tv_dot_value x : only_visit (tv_dot_value x).
Proof. unfold tv_dot_value. ov. Qed.
Lemma ov_nth_tv l n : only_visit (nth_tv l n).
Proof. unfold nth_tv. ov. Qed.
Lemma ov_seq_item_value x i : only_visit (seq_item_value x i).
Proof. unfold seq_item_value. ov; [apply ov_nth_tv|apply ov_tv_dot_value]. Qed.
Lemma ov_value_as_str v : only_visit (value_as_str v).
Proof. unfold value_as_str. ov. Qed.
Lemma ov_pos_pair x : only_visit (pos_pair x).
Proof. unfold pos_pair. ov. Qed.

Lemma ov_flatten vs : only_visit (flatten vs).
Proof.
  induction vs as [|v vs IH]; cbn [flatten]; [apply ov_ok|].
  apply ov_bind; [exact IH|]. intros rest. ov.
Qed.

Lemma ov_create_position_dict k vs : only_visit (create_position_dict k vs).
Proof.
  unfold create_position_dict. destruct vs as [[|v vs]|]; try apply ov_ok.
  apply ov_bind; [apply ov_flatten|]. intros flat.
  apply ov_bind; [apply ov_mapM; intros; apply ov_pos_pair|]. intros ps. apply ov_ok.
Qed.

Lemma ov_tok_pystr x : only_visit (tok_pystr x).
Proof.
  unfold tok_pystr. apply ov_bind; [apply ov_tv_dot_value|]. intros v.
  destruct (py_str v); [apply ov_ok|apply ov_vfail].
Qed.

Lemma ov_set_first t s : only_visit (set_first t s).
Proof. unfold set_first. ov. Qed.

Lemma ov_cb_attr tokens : only_visit (cb_attr tokens).
Proof.
  unfold cb_attr. destruct tokens as [|k0 vt0]; [apply ov_vfail|].
  apply ov_bind.
  { destruct k0 as [v|t|l|c items]; try apply ov_vfail; try apply ov_ok.
    destruct l as [|[v|t|l2|c items] l]; try apply ov_vfail.
    apply ov_bind; [apply ov_key_name|]. intros kn. destruct (_ || _); [apply ov_ok|apply ov_vfail]. }
  intros key_token. apply ov_bind; [apply ov_key_name|]. intros kn.
  apply ov_bind.
  { destruct vt0 as [|[v|t|l|c items] rest]; try apply ov_vfail; try apply ov_ok.
    destruct rest; [apply ov_ok|apply ov_vfail]. }
  intros value_tokens. apply ov_bind; [apply ov_create_position_dict|]. intros pd.
  destruct value_tokens as [|a [|b rest]]; [apply ov_vfail| |].
  - apply ov_bind; [apply ov_tok_of|]. intros t. apply ov_ok.
  - destruct (str_eqb kn s_config).
    + destruct rest; [|apply ov_vfail].
      apply ov_bind; [apply ov_tok_of|]. intros ta.
      apply ov_bind; [apply ov_tok_of|]. intros tb.
      apply ov_bind; [destruct (pk_val ta); try apply ov_vfail; apply ov_ok|]. intros ka. apply ov_ok.
    + apply ov_bind; [apply ov_mapM; intros; apply ov_tv_dot_value|]. intros vals. apply ov_ok.
Qed.

Lemma ov_check_composite_tokens name tokens : only_visit (check_composite_tokens name tokens).
Proof.
  unfold check_composite_tokens. destruct tokens as [|k [|r0 rest]]; try apply ov_vfail.
  apply ov_bind; [apply ov_tok_of|]. intros key.
  apply ov_bind; [apply ov_tok_str|]. intros ks.
  apply ov_bind; [destruct (last_opt _); [apply ov_tok_of|apply ov_vfail]|]. intros lastt.
  apply ov_bind; [apply ov_tok_str|]. intros ls.
  destruct (_ && _); [|apply ov_vfail].
  apply ov_bind; [|intros; apply ov_ok].
  apply ov_mapM. intros t. destruct t as [v|t|l|c items]; try apply ov_ok.
  destruct (assoc s_tokens items); [apply ov_ok|apply ov_vfail].
Qed.

Lemma ov_fold_res {A B} (f : res A -> B -> res A) (l : list B) (init : res A) :
  only_visit init -> (forall acc b, only_visit acc -> only_visit (f acc b)) ->
  only_visit (fold_left f l init).
Proof.
  revert init; induction l as [|b l IH]; intros init Hi Hf; cbn [fold_left]; [exact Hi|].
  apply IH; [apply Hf; exact Hi|exact Hf].
Qed.

Lemma ov_process_value_pairs ip tokens ty : only_visit (process_value_pairs ip tokens ty).
Proof.
  unfold process_value_pairs.
  apply ov_bind; [apply ov_check_composite_tokens|]. intros [key body].
  apply ov_bind; [apply ov_key_name|]. intros kn.
  apply ov_bind.
  { apply ov_fold_res; [apply ov_ok|]. intros acc t Hacc.
    apply ov_bind; [exact Hacc|]. intros d.
    apply ov_bind; [apply ov_seq_item_value|]. intros kv.
    apply ov_bind; [apply ov_seq_item_value|]. intros vv.
    apply ov_bind; [apply ov_value_as_str|]. intros ks. apply ov_ok. }
  intros d. apply ov_bind; [|intros; apply ov_ok].
  destruct ip; [|apply ov_ok].
  apply ov_bind; [apply ov_create_position_dict|]. intros; apply ov_ok.
Qed.

Lemma ov_cb_config t : only_visit (cb_config t).
Proof.
  unfold cb_config. destruct t as [|k [|a [|b [|c r]]]]; try apply ov_vfail.
  apply ov_bind; [apply ov_tok_of|]. intros ta.
  apply ov_bind; [apply ov_tok_of|]. intros tb.
  apply ov_bind; [apply ov_tok_str|]. intros ks. apply ov_cb_attr.
Qed.

Lemma ov_cb_projection t : only_visit (cb_projection t).
Proof.
  unfold cb_projection. apply ov_bind; [apply ov_check_composite_tokens|]. intros [k body].
  apply ov_bind; [apply ov_mapM; intros v; apply ov_bind; [apply ov_tv_dot_value|intros; apply ov_ok]|].
  intros strs. destruct t as [|k0 [|v1 r]]; try apply ov_vfail.
  apply ov_bind; [apply ov_tok_of|]. intros vt. apply ov_cb_attr.
Qed.

Lemma ov_process_pair_lists name t : only_visit (process_pair_lists name t).
Proof.
  unfold process_pair_lists. apply ov_bind; [apply ov_check_composite_tokens|]. intros [k body].
  apply ov_bind.
  { apply ov_mapM. intros v. apply ov_bind; [apply ov_seq_item_value|]. intros a.
    apply ov_bind; [apply ov_seq_item_value|]. intros b. apply ov_ok. }
  intros pairs. destruct t as [|k0 [|[v|tk|[|[v|vt|l2|c2 i2] l]|c items] r]]; try apply ov_vfail.
  apply ov_cb_attr.
Qed.

Lemma ov_cb_binary t a b c : only_visit (cb_binary t a b c).
Proof.
  unfold cb_binary. destruct t as [|x [|y [|z r]]]; try apply ov_vfail.
  apply ov_bind; [apply ov_tok_pystr|]. intros sa.
  apply ov_bind; [apply ov_tok_pystr|]. intros sb. apply ov_set_first.
Qed.

Lemma ov_cb_comparison t : only_visit (cb_comparison t).
Proof.
  unfold cb_comparison. destruct t as [|x [|y [|z [|w r]]]]; try apply ov_vfail.
  apply ov_bind; [apply ov_tok_pystr|]. intros sa.
  apply ov_bind; [apply ov_tok_pystr|]. intros sb.
  apply ov_bind; [apply ov_tok_pystr|]. intros sc. apply ov_set_first.
Qed.

Lemma ov_cb_expression t : only_visit (cb_expression t).
Proof.
  unfold cb_expression. apply ov_bind; [apply ov_mapM; intros; apply ov_tok_pystr|]. intros parts.
  destruct t as [|[v|a|l|c i] r]; try apply ov_vfail. destruct (in_parenthesis _); apply ov_ok.
Qed.

Lemma ov_cb_prefix t p b : only_visit (cb_prefix t p b).
Proof.
  unfold cb_prefix. destruct t as [|a r]; [apply ov_vfail|].
  destruct (_ && _); [apply ov_vfail|].
  apply ov_bind; [apply ov_tok_pystr|]. intros sa. apply ov_set_first.
Qed.

Lemma ov_cb_func_call t : only_visit (cb_func_call t).
Proof.
  unfold cb_func_call.
  repeat match goal with
         | |- only_visit (match ?x with _ => _ end) => destruct x
         end; try apply ov_vfail.
  apply ov_bind; [destruct (py_str _); [apply ov_ok|apply ov_vfail]|]. intros fs. apply ov_ok.
Qed.

Lemma ov_cb_func_params t : only_visit (cb_func_params t).
Proof.
  unfold cb_func_params. apply ov_bind; [apply ov_mapM; intros; apply ov_tok_pystr|]. intros; apply ov_ok.
Qed.

Lemma ov_cb_attr_bind t : only_visit (cb_attr_bind t).
Proof.
  unfold cb_attr_bind. destruct t as [|[v|a|l|c i] [|y r]]; try apply ov_vfail.
  apply ov_bind; [destruct (py_str _); [apply ov_ok|apply ov_vfail]|]. intros; apply ov_ok.
Qed.

Lemma ov_cb_list t : only_visit (cb_list t).
Proof.
  unfold cb_list. destruct t as [|[v|a|l|c i] r]; try apply ov_vfail.
  apply ov_bind; [|intros; apply ov_ok].
  apply ov_mapM. intros x. destruct x; try apply ov_vfail. apply ov_ok.
Qed.

Lemma ov_first_tok t : only_visit (first_tok t).
Proof. unfold first_tok. destruct t as [|[v|a|l|c i] r]; try apply ov_vfail. apply ov_ok. Qed.

Lemma ov_cb_first t : only_visit (cb_first t).
Proof. unfold cb_first. destruct t; [apply ov_vfail|apply ov_ok]. Qed.

Lemma ov_cb_int t : only_visit (cb_int t).
Proof.
  unfold cb_int. apply ov_bind; [apply ov_first_tok|]. intros a.
  apply ov_bind; [apply ov_tok_str|]. intros s. destruct (parse_int s); [apply ov_ok|apply ov_vfail].
Qed.

Lemma ov_cb_float t : only_visit (cb_float t).
Proof.
  unfold cb_float. apply ov_bind; [apply ov_first_tok|]. intros a.
  apply ov_bind; [apply ov_tok_str|]. intros s. destruct (parse_float s) as [[m e]|]; [apply ov_ok|apply ov_vfail].
Qed.

Lemma ov_cb_bool b t : only_visit (cb_bool b t).
Proof. unfold cb_bool. apply ov_bind; [apply ov_first_tok|]. intros; apply ov_ok. Qed.

Lemma ov_cb_hexcolor t : only_visit (cb_hexcolor t).
Proof.
  unfold cb_hexcolor. apply ov_bind; [apply ov_first_tok|]. intros a.
  apply ov_bind; [apply ov_tok_str|]. intros; apply ov_ok.
Qed.

Lemma ov_cb_len n t : only_visit (cb_len n t).
Proof. unfold cb_len. destruct (Nat.eqb _ _); [apply ov_ok|apply ov_vfail]. Qed.

Lemma ov_depth_fuel fuel : forall v, only_visit (depth_fuel fuel v).
Proof.
  induction fuel as [|f IH]; intros v; cbn [depth_fuel]; [apply ov_vfail|].
  destruct v as [| | | | |l|]; try apply ov_ok. destruct l as [|x l]; [apply ov_vfail|].
  apply ov_bind; [apply ov_mapM; exact IH|]. intros; apply ov_ok.
Qed.

Lemma ov_tv_list_append x e : only_visit (tv_list_append x e).
Proof.
  unfold tv_list_append. destruct x as [[| | | | |l|]|t|l|c i]; try apply ov_vfail; try apply ov_ok.
  destruct e; apply ov_ok.
Qed.

Lemma ov_process_config st items pos : only_visit (process_config st items pos).
Proof.
  unfold process_config. destruct (assoc s_config items) as [[[| | | | | |c cfg]|t|l|c i]|]; try apply ov_vfail.
  apply ov_bind; [|intros; apply ov_ok].
  destruct (cs_pos st); [|apply ov_ok]. destruct cfg as [|[sub v] [|x r]]; try apply ov_vfail. apply ov_ok.
Qed.

Lemma ov_process_points st items pos : only_visit (process_points st items pos).
Proof.
  unfold process_points. destruct (assoc s_points items) as [[newv|t|l|c i]|]; try apply ov_vfail.
  apply ov_bind; [|intros; apply ov_ok].
  destruct (ci_get s_points (cs_dict st)) as [[existing|t|l|c i]|]; try apply ov_vfail; [|apply ov_ok].
  apply ov_bind; [apply ov_depth_fuel|]. intros dep.
  destruct (if (dep =? 2)%Z then VList [existing] else existing); try apply ov_vfail. apply ov_ok.
Qed.

Lemma ov_composite_item ic st d : only_visit (composite_item ic st d).
Proof.
  unfold composite_item. destruct d as [v|t|l|c items]; try apply ov_vfail.
  destruct (assoc s_type items) as [ty|].
  - apply ov_bind; [destruct ty as [[| | | |k| |]|t|l|c2 i2]; try apply ov_vfail; apply ov_ok|]. intros k.
    destruct (mem_str k SINGLETON_COMPOSITE_NAMES); [apply ov_ok|].
    apply ov_bind; [apply ov_tv_list_append|]. intros; apply ov_ok.
  - apply ov_bind; [destruct (assoc s_position items) as [[p|t|l|c2 i2]|]; try apply ov_vfail; apply ov_ok|].
    intros pos.
    destruct (od_del s_comments (od_del s_tokens (od_del s_position items))) as [|[kn v] [|x r]]; try apply ov_vfail.
    destruct (str_eqb kn s_config); [apply ov_process_config|].
    destruct (str_eqb kn s_points); [apply ov_process_points|].
    destruct (mem_str kn REPEATED_KEYS).
    + apply ov_bind; [apply ov_tv_list_append|]. intros; apply ov_ok.
    + apply ov_ok.
Qed.

Lemma ov_cb_composite ip ic t : only_visit (cb_composite ip ic t).
Proof.
  unfold cb_composite.
  repeat match goal with
         | |- only_visit (match ?x with _ => _ end) => destruct x
         end; try apply ov_vfail; try apply ov_ok.
  all: apply ov_bind; [apply ov_key_name|]; intros kn.
  all: apply ov_bind;
    [destruct ip; [|apply ov_ok]; apply ov_bind; [apply ov_create_position_dict|]; intros; apply ov_ok|].
  all: intros pd; apply ov_bind;
    [apply ov_fold_res; [apply ov_ok|]; intros acc d Hacc; apply ov_bind; [exact Hacc|]; intros st;
     apply ov_composite_item|].
  all: intros st; destruct (cs_dict st); [apply ov_vfail|apply ov_ok].
Qed.

Lemma ov_callback ip ic d t : only_visit (callback ip ic d t).
Proof.
  unfold callback.
  repeat match goal with
         | |- only_visit (if ?c then _ else _) => destruct c
         end;
    first [ apply ov_ok | apply ov_vfail | apply ov_cb_composite | apply ov_cb_attr | apply ov_cb_projection
          | apply ov_cb_config | apply ov_process_pair_lists | apply ov_process_value_pairs
          | apply ov_cb_comparison | apply ov_cb_binary | apply ov_cb_first | apply ov_cb_prefix
          | apply ov_cb_expression | apply ov_cb_func_call | apply ov_cb_func_params | apply ov_cb_attr_bind
          | apply ov_cb_len | apply ov_cb_bool | apply ov_cb_int | apply ov_cb_float | apply ov_cb_hexcolor
          | apply ov_cb_list | (unfold cb_start; destruct t as [|? [|? ?]]; apply ov_ok) ].
Qed.

Theorem ov_tr_main ip ic : forall g, only_visit (tr_main ip ic g).
Proof.
  fix IH 1. intros g. destruct g as [t|d cs m|v]; cbn [tr_main]; try apply ov_ok.
  apply ov_bind; [|intros; apply ov_callback].
  induction cs as [|c cs IHcs]; [apply ov_ok|].
  apply ov_bind; [apply IH|]. intros x. apply ov_bind; [exact IHcs|]. intros; apply ov_ok.
Qed.

(* ---------------------------------------------------------------- comments pipeline *)
Lemma ov_metadata_comment_key sp0 : only_visit (metadata_comment_key sp0).
Proof.
  unfold metadata_comment_key.
  repeat match goal with
         | |- only_visit (match ?x with _ => _ end) => destruct x
         | |- only_visit (if ?x then _ else _) => destruct x
         end; try apply ov_vfail;
    (apply ov_bind; [apply ov_tok_str|]; intros; apply ov_ok).
Qed.

Lemma ov_add_metadata_comments items cm md : only_visit (add_metadata_comments items cm md).
Proof.
  unfold add_metadata_comments.
  destruct md as [|x [|y [|z r]]]; try apply ov_ok.
  apply ov_fold_res; [apply ov_ok|]. intros acc sp0 Hacc.
  apply ov_bind; [exact Hacc|]. intros c.
  apply ov_bind; [apply ov_metadata_comment_key|]. intros [key m].
  destruct (assoc key items); [apply ov_ok|apply ov_vfail].
Qed.

Lemma ov_comments_callback ip g : only_visit (comments_callback ip g).
Proof.
  unfold comments_callback. destruct g as [t|d cs m|v]; try apply ov_ok.
  destruct (d =? CB_attr).
  { apply ov_bind; [apply ov_tr_main|]. intros r. destruct r; try apply ov_vfail. apply ov_ok. }
  destruct (d =? CB_projection).
  { apply ov_bind; [apply ov_tr_main|]. intros r. destruct r; try apply ov_vfail.
    destruct (has_comments m); apply ov_ok. }
  destruct (d =? CB_composite); [|apply ov_ok].
  apply ov_bind; [apply ov_tr_main|]. intros r. destruct r as [v|t|l|c items]; try apply ov_vfail.
  assert (Hdict : forall cm1,
            only_visit (do cm2 <- match assoc s_type items with
                                  | Some (TVal (VStr ty)) =>
                                      if str_eqb ty s_metadata then
                                        match cs with
                                        | GNode _ mdkids _ :: _ => add_metadata_comments items cm1 mdkids
                                        | _ => vfail
                                        end
                                      else Ok cm1
                                  | _ => vfail
                                  end;
                        Ok (GVal (TDict c ((match c with DCI _ | DDef _ => ci_set | DPlain => od_set end)
                                             s_comments (TVal (VDict DPlain cm2)) items))))).
  { intros cm1. apply ov_bind; [|intros; apply ov_ok].
    destruct (assoc s_type items) as [[[| | | |ty| |]|t|l|c2 i2]|]; try apply ov_vfail.
    destruct (str_eqb ty s_metadata); [|apply ov_ok].
    destruct cs as [|[t|d2 mdkids m2|v2] cs']; try apply ov_vfail.
    apply ov_add_metadata_comments. }
  assert (Hother : only_visit (if has_comments m then vfail
                               else match assoc s_type items with
                                    | Some (TVal (VStr ty)) =>
                                        if str_eqb ty s_metadata then
                                          match cs with
                                          | GNode _ (_ :: _ :: _ :: _) _ :: _ => vfail
                                          | GNode _ _ _ :: _ => Ok (GVal (TDict c items))
                                          | _ => vfail
                                          end
                                        else Ok (GVal (TDict c items))
                                    | _ => vfail
                                    end)).
  { destruct (has_comments m); [apply ov_vfail|].
    destruct (assoc s_type items) as [[[| | | |ty| |]|t|l|c2 i2]|]; try apply ov_vfail.
    destruct (str_eqb ty s_metadata); [|apply ov_ok].
    destruct cs as [|[t|d2 [|k1 [|k2 [|k3 ks]]] m2|v2] cs']; try apply ov_vfail; apply ov_ok. }
  destruct (match c with DPlain => assoc s_comments items | _ => ci_get s_comments items end)
    as [[[| | | | | |dc di]|et|el|ec ei]|]; first [apply Hdict | exact Hother].
Qed.

Theorem ov_ctr ip : forall t, only_visit (ctr ip t).
Proof.
  fix IH 1. intros t. destruct t as [tk|d cs m|v]; cbn [ctr]; try apply ov_ok.
  apply ov_bind; [|intros; apply ov_ok].
  induction cs as [|c cs IHcs]; [apply ov_ok|].
  apply ov_bind; [apply IH|]. intros c1.
  apply ov_bind; [apply ov_comments_callback|]. intros c2.
  apply ov_bind; [exact IHcs|]. intros; apply ov_ok.
Qed.

Theorem ov_transform ip ic t : only_visit (transform ip ic t).
Proof.
  unfold transform. destruct ic; [|apply ov_tr_main].
  apply ov_bind; [apply ov_ctr|]. intros g1.
  apply ov_bind; [apply ov_comments_callback|]. intros g2. apply ov_tr_main.
Qed.

Lemma tv_to_value_total : forall x, exists v, tv_to_value x = Ok v.
Proof.
  fix IH 1. intros x. destruct x as [v|t|l|c items]; cbn [tv_to_value]; try (eexists; reflexivity).
  - assert (H : exists vs, (fix go (l : list tv) : res (list value) :=
                              match l with
                              | [] => Ok []
                              | y :: l' => do v <- tv_to_value y; do r <- go l'; Ok (v :: r)
                              end) l = Ok vs).
    { induction l as [|y l IHl]; [eexists; reflexivity|].
      destruct (IH y) as [v ->]. destruct IHl as [vs ->]. eexists; reflexivity. }
    destruct H as [vs ->]. eexists; reflexivity.
  - assert (H : exists vs, (fix go (l : list (str * tv)) : res (list (str * value)) :=
                              match l with
                              | [] => Ok []
                              | (k, y) :: l' => do v <- tv_to_value y; do r <- go l'; Ok ((k, v) :: r)
                              end) items = Ok vs).
    { induction items as [|[k y] l IHl]; [eexists; reflexivity|].
      destruct (IH y) as [v ->]. destruct IHl as [vs ->]. eexists; reflexivity. }
    destruct H as [vs ->]. eexists; reflexivity.
Qed.

(* ---------------------------------------------------------------- the parse stage *)
(* errors the LR driver could only produce on a malformed table / exhausted fuel *)
Definition driver_internal (e : exn) : Prop :=
  e = PyIndexError \/ e = PyKeyError \/ e = PyAssertionError \/ e = PyAttributeError \/ e = OutOfFuel.

Definition lark_syntax_error (e : exn) : Prop :=
  (exists l c, e = LarkUnexpectedCharacters l c) \/ (exists l c, e = LarkUnexpectedToken l c).

Lemma apply_filter_errors inc cs e : apply_filter inc cs = Err e -> driver_internal e.
Proof.
  revert e; induction inc as [|[i ex] inc IH]; intros e H; cbn [apply_filter] in H; [discriminate|].
  destruct (nth_error cs i) as [c|]; [|injection H as <-; left; reflexivity].
  destruct (apply_filter inc cs) as [rest|e0]; cbn [bind] in H; [|injection H as <-; apply IH; reflexivity].
  destruct ex; [|discriminate]. destruct c; [|discriminate]. injection H as <-.
  right; right; right; left; reflexivity.
Qed.

Lemma build_errors pp r cs e : build pp r cs = Err e -> driver_internal e.
Proof.
  unfold build. intros H.
  destruct (r_filter r) as [inc|].
  - destruct (apply_filter inc cs) as [f|e0] eqn:E; cbn [bind] in H; [discriminate|].
    injection H as <-. eapply apply_filter_errors. exact E.
  - discriminate.
Qed.

Lemma feed_errors g pp tok is_end : forall fuel ss vs e,
  feed g pp fuel tok is_end ss vs = FErr e ->
  e = LarkUnexpectedToken (tline tok) (tcol tok) \/ driver_internal e.
Proof.
  induction fuel as [|fuel IH]; intros ss vs e H; cbn [feed] in H.
  - injection H as <-. right. repeat right. reflexivity.
  - destruct ss as [|state ss']; [injection H as <-; right; left; reflexivity|].
    destruct (lookup_action g state (ttype tok)) as [[ns|ri]|]; [| |injection H as <-; left; reflexivity].
    + destruct is_end; [injection H as <-; right; right; right; left; reflexivity|discriminate].
    + destruct (nth_N (g_rules g) ri) as [r|]; [|injection H as <-; right; right; left; reflexivity].
      destruct (pop_n _ (state :: ss')) as [[p1 ss1]|]; [|injection H as <-; right; left; reflexivity].
      destruct (pop_n _ vs) as [[popped vs1]|]; [|injection H as <-; right; left; reflexivity].
      destruct (build pp r (rev popped)) as [value|e0] eqn:Eb.
      * destruct ss1 as [|top ss1']; [injection H as <-; right; left; reflexivity|].
        destruct (lookup_action g top (r_origin r)) as [[ns|?]|];
          try (injection H as <-; right; right; left; reflexivity).
        destruct (is_end && (ns =? g_end g)); [discriminate|]. eapply IH. exact H.
      * injection H as <-. right. eapply build_errors. exact Eb.
Qed.

Theorem parse_loop_errors g h wc : forall fuel st ss vs acc e,
  snd (parse_loop g h wc fuel st ss vs acc) = Err e ->
  lark_syntax_error e \/ driver_internal e.
Proof.
  induction fuel as [|fuel IH]; intros st ss vs acc e H; cbn [parse_loop] in H.
  - injection H as <-. right. repeat right. reflexivity.
  - destruct ss as [|state ss']; [injection H as <-; right; left; reflexivity|].
    destruct (ctx_next g wc state (S fuel) st) as [t st'|st'|l c|t].
    + destruct (hook_total h t vs) as [t' Eh]. rewrite Eh in H.
      destruct (feed g wc (reduce_fuel g (state :: ss')) t' false (state :: ss') vs) as [ss2 vs2|v|e0] eqn:Ef.
      * eapply IH. exact H.
      * injection H as <-. right; right; right; left; reflexivity.
      * injection H as <-. destruct (feed_errors _ _ _ _ _ _ _ _ Ef) as [->|Hd]; [|right; exact Hd].
        left. right. eexists; eexists; reflexivity.
    + match type of H with context [feed g wc ?F ?T true ?SS vs] =>
        destruct (feed g wc F T true SS vs) as [ss2 vs2|v|e0] eqn:Ef end.
      * injection H as <-. right; right; right; left; reflexivity.
      * discriminate.
      * injection H as <-. destruct (feed_errors _ _ _ _ _ _ _ _ Ef) as [->|Hd]; [|right; exact Hd].
        left. right. eexists; eexists; reflexivity.
    + injection H as <-. left. left. eexists; eexists; reflexivity.
    + injection H as <-. left. right. eexists; eexists; reflexivity.
Qed.

(* every way loads can fail on the model *)
Theorem loads_errors ip ic text e :
  loads ip ic text = Err e ->
  e = LarkVisitError \/ lark_syntax_error e \/ driver_internal e.
Proof.
  unfold loads, parse_tree, parse_text, parse_text_tr. intros H.
  destruct (snd (parse_loop the_grammar the_hook ic (S (length text)) (ls0 text) [g_start the_grammar] [] []))
    as [po|e0] eqn:Ep; cbn [bind] in H.
  - destruct (transform ip ic _) as [r|e1] eqn:Et; cbn [bind] in H.
    + destruct (tv_to_value_total r) as [v Ev]. rewrite Ev in H. discriminate.
    + injection H as <-. left. eapply ov_transform. exact Et.
  - injection H as <-. right. eapply parse_loop_errors. exact Ep.
Qed.

(* ---------------------------------------------------------------- with the table validator: no internal driver error *)
From MF Require Import Proofs.LRFacts Proofs.GrammarFacts.

Theorem loads_errors_strong ip ic text e :
  loads ip ic text = Err e ->
  e = LarkVisitError \/ lark_syntax_error e \/ e = OutOfFuel.
Proof.
  unfold loads, parse_tree, parse_text, parse_text_tr. intros H.
  destruct (snd (parse_loop the_grammar the_hook ic (S (length text)) (ls0 text) [g_start the_grammar] [] []))
    as [po|e0] eqn:Ep; cbn [bind] in H.
  - destruct (transform ip ic _) as [r|e1] eqn:Et; cbn [bind] in H.
    + destruct (tv_to_value_total r) as [v Ev]. rewrite Ev in H. discriminate.
    + injection H as <-. left. eapply ov_transform. exact Et.
  - injection H as <-. right.
    destruct (parse_loop_safe the_grammar the_hook ic the_grammar_table_ok the_grammar_types_ok
                              _ _ _ _ _ e0 (wf_start the_grammar) Ep) as [Hc|[Ht|Hf]].
    + left. left. exact Hc.
    + left. right. exact Ht.
    + right. exact Hf.
Qed.
