(* A validator for the LALR table Lark built, and the theorem it licenses: on a
   table that passes [table_ok] the LR driver never fails with one of its
   internal errors (missing rule, stack underflow, missing goto, a shift of the
   end marker, an inlined child that is a token) - only UnexpectedToken or
   fuel exhaustion remain.  [table_ok the_grammar] is discharged by vm_compute
   against the generated table (Proofs/GrammarFacts.v). *)
From MF Require Import Lib.Base Lib.Regex Model.GrammarTypes Model.Lexer Model.LR.
Open Scope N_scope.

(* ---------------------------------------------------------------- the automaton seen as a graph *)
Definition n_states (g : grammar) : list N := map N.of_nat (seq 0 (length (g_table g))).

Definition goto (g : grammar) (s x : N) : option N :=
  match lookup_action g s x with Some (Shift s') => Some s' | _ => None end.

(* predecessors of a state together with the edge symbol *)
Definition preds (g : grammar) (s' : N) : list (N * N) :=
  flat_map (fun s => match nth_N (g_table g) s with
                     | Some row => flat_map (fun e => match snd e with
                                                      | Shift t => if t =? s' then [(s, fst e)] else []
                                                      | Reduce _ => []
                                                      end) row
                     | None => []
                     end) (n_states g).

Definition memNb := memN.

Fixpoint dedup (l : list N) : list N :=
  match l with [] => [] | x :: l' => if memN x l' then dedup l' else x :: dedup l' end.

(* states from which the set [ss] is reached by one edge *)
Definition back1 (g : grammar) (ss : list N) : list N := dedup (flat_map (fun s => map fst (preds g s)) ss).

(* every edge into s carries the symbol x *)
Definition label_is (g : grammar) (s x : N) : bool := forallb (fun p => snd p =? x) (preds g s).

Definition is_term (g : grammar) (x : N) : bool := x <? N.of_nat (length (g_term_names g)).

(* a non-terminal all of whose rules build a Node (no ?rule collapsing to a child) *)
Definition always_node (g : grammar) (x : N) : bool :=
  forallb (fun r => negb (r_origin r =? x) || negb (r_expand1 r)) (g_rules g).

(* check one reduce action found in state s: walking back over the right-hand
   side, every state met is labelled by the expected symbol, the start state is
   never met early, and every state reached after popping has a goto on the
   rule's origin *)
Fixpoint walk_back (g : grammar) (rhs_rev : list N) (cur : list N) : option (list N) :=
  match rhs_rev with
  | [] => Some cur
  | x :: rest =>
      if forallb (fun s => label_is g s x && negb (s =? g_start g)) cur
      then walk_back g rest (back1 g cur)
      else None
  end.

Definition filter_ok (g : grammar) (r : rule_info) : bool :=
  match r_filter r with
  | None => true
  | Some inc =>
      forallb (fun p => match nth_error (r_expansion r) (fst p) with
                        | Some x => negb (snd p) || (negb (is_term g x) && always_node g x)
                        | None => false
                        end) inc
  end.

Definition reduce_ok (g : grammar) (s ri : N) : bool :=
  match nth_N (g_rules g) ri with
  | None => false
  | Some r =>
      filter_ok g r &&
      match walk_back g (rev (r_expansion r)) [s] with
      | Some tops =>
          forallb (fun u => match goto g u (r_origin r) with Some _ => true | None => false end) tops
      | None => false
      end
  end.

Definition reduce_rules (row : list (N * action)) : list N :=
  flat_map (fun e => match snd e with Reduce ri => [ri] | Shift _ => [] end) row.

(* each distinct rule reduced in a state is checked once (LALR rows repeat the
   same rule under many look-ahead symbols) *)
Definition row_ok (g : grammar) (s : N) (row : list (N * action)) : bool :=
  forallb (fun e => match snd e with
                    | Reduce _ => true
                    | Shift t => negb (fst e =? g_end_term g) && (t <? N.of_nat (length (g_table g)))
                    end) row
  && forallb (reduce_ok g s) (dedup (reduce_rules row)).

Definition table_ok (g : grammar) : bool :=
  forallb (fun s => match nth_N (g_table g) s with Some row => row_ok g s row | None => false end) (n_states g)
  && (match preds g (g_start g) with [] => true | _ => false end)
  && (g_start g <? N.of_nat (length (g_table g))).

(* ---------------------------------------------------------------- stack invariant *)
Definition is_node (v : tree) : Prop := match v with Node _ _ _ => True | Tok _ => False end.

(* what the driver needs to know about the value sitting above an edge labelled x *)
Definition val_ok (g : grammar) (x : N) (v : tree) : Prop :=
  is_term g x = false -> always_node g x = true -> is_node v.

Inductive wf (g : grammar) : list N -> list tree -> Prop :=
| wf_start : wf g [g_start g] []
| wf_push s ss vs x s' v :
    wf g (s :: ss) vs -> goto g s x = Some s' -> val_ok g x v -> wf g (s' :: s :: ss) (v :: vs).

Lemma in_n_states g s : s < N.of_nat (length (g_table g)) -> In s (n_states g).
Proof.
  intros H. unfold n_states. apply in_map_iff. exists (N.to_nat s). split; [apply N2Nat.id|].
  apply in_seq. lia.
Qed.

Lemma nth_N_lt {A} (l : list A) n x : nth_N l n = Some x -> n < N.of_nat (length l).
Proof.
  unfold nth_N. intros H. assert (N.to_nat n < length l)%nat by (apply nth_error_Some; congruence). lia.
Qed.

Lemma assocN_In {A} k (l : list (N * A)) v : assocN k l = Some v -> In (k, v) l.
Proof.
  induction l as [|[k' v'] l IH]; cbn [assocN]; [discriminate|].
  destruct (N.eqb_spec k k') as [->|Hne]; [intros [= ->]; left; reflexivity|intros H; right; auto].
Qed.

Lemma goto_in_preds g s x s' : goto g s x = Some s' -> In (s, x) (preds g s').
Proof.
  unfold goto, lookup_action. intros H.
  destruct (nth_N (g_table g) s) as [row|] eqn:Er; [|discriminate].
  destruct (assocN x row) as [[t|r]|] eqn:Ea; try discriminate. injection H as ->.
  unfold preds. apply in_flat_map. exists s. split; [apply in_n_states; eapply nth_N_lt; exact Er|].
  rewrite Er. apply in_flat_map. exists (x, Shift s'). split; [apply assocN_In; exact Ea|].
  cbn [snd fst]. rewrite N.eqb_refl. left. reflexivity.
Qed.

Lemma label_unique g s x y s' : goto g s x = Some s' -> label_is g s' y = true -> x = y.
Proof.
  intros Hg Hl. apply goto_in_preds in Hg. unfold label_is in Hl. rewrite forallb_forall in Hl.
  specialize (Hl _ Hg). cbn [snd] in Hl. apply N.eqb_eq in Hl. exact Hl.
Qed.

Lemma memN_In k l : memN k l = true <-> In k l.
Proof.
  induction l as [|x l IH]; cbn [memN In]; [split; [discriminate|tauto]|].
  rewrite orb_true_iff, IH, N.eqb_eq. split; intros [H|H]; auto.
Qed.

Lemma In_dedup x l : In x l -> In x (dedup l).
Proof.
  induction l as [|y l IH]; cbn [dedup In]; [tauto|].
  intros [->|H].
  - destruct (memN x l) eqn:E; [apply IH; apply memN_In; exact E|left; reflexivity].
  - destruct (memN y l); [apply IH; exact H|right; apply IH; exact H].
Qed.

Lemma pred_in_back1 g s x s' cur : goto g s x = Some s' -> In s' cur -> In s (back1 g cur).
Proof.
  intros Hg Hin. unfold back1. apply In_dedup. apply in_flat_map. exists s'. split; [exact Hin|].
  apply in_map_iff. exists (s, x). split; [reflexivity|apply goto_in_preds; exact Hg].
Qed.

(* popping the right-hand side of a checked reduce action *)
Lemma walk_back_pops g : forall rhs_rev cur tops s ss vs,
  walk_back g rhs_rev cur = Some tops -> In s cur -> wf g (s :: ss) vs ->
  exists ps pv top ss1 vs1,
    pop_n (length rhs_rev) (s :: ss) = Some (ps, top :: ss1) /\
    pop_n (length rhs_rev) vs = Some (pv, vs1) /\
    In top tops /\ wf g (top :: ss1) vs1 /\
    Forall2 (val_ok g) rhs_rev pv.
Proof.
  induction rhs_rev as [|x rest IH]; intros cur tops s ss vs Hw Hin Hwf; cbn [walk_back] in Hw.
  - injection Hw as <-. exists [], [], s, ss, vs. cbn [pop_n length]. repeat split; auto.
  - destruct (forallb (fun s0 => label_is g s0 x && negb (s0 =? g_start g)) cur) eqn:Ef; [|discriminate].
    rewrite forallb_forall in Ef. specialize (Ef s Hin). apply andb_true_iff in Ef. destruct Ef as [Hl Hns].
    apply negb_true_iff, N.eqb_neq in Hns.
    inversion Hwf as [|s0 ss0 vs0 x' s' v Hwf0 Hg Hv]; subst; [congruence|].
    assert (x' = x) by (eapply label_unique; eassumption). subst x'.
    destruct (IH (back1 g cur) tops s0 ss0 vs0 Hw (pred_in_back1 g s0 x s cur Hg Hin) Hwf0)
      as (ps & pv & top & ss1 & vs1 & P1 & P2 & P3 & P4 & P5).
    exists (s :: ps), (v :: pv), top, ss1, vs1. cbn [pop_n length]. rewrite P1, P2.
    split; [reflexivity|]. split; [reflexivity|]. split; [exact P3|]. split; [exact P4|].
    constructor; assumption.
Qed.

(* ---------------------------------------------------------------- building the value never fails *)
Lemma Forall2_nth {A B} (R : A -> B -> Prop) l l' i a :
  Forall2 R l l' -> nth_error l i = Some a -> exists b, nth_error l' i = Some b /\ R a b.
Proof.
  intros H. revert i; induction H as [|x y l l' Hxy _ IH]; intros [|i] E; cbn in E; try discriminate.
  - injection E as <-. exists y. split; [reflexivity|exact Hxy].
  - apply IH. exact E.
Qed.

Lemma apply_filter_ok g (rhs : list N) (children : list tree) : forall inc,
  Forall2 (val_ok g) rhs children ->
  forallb (fun p => match nth_error rhs (fst p) with
                    | Some x => negb (snd p) || (negb (is_term g x) && always_node g x)
                    | None => false
                    end) inc = true ->
  exists out, apply_filter inc children = Ok out.
Proof.
  intros inc Hc. induction inc as [|[i ex] inc IH]; intros Hf; cbn [apply_filter forallb] in *.
  - eexists; reflexivity.
  - apply andb_true_iff in Hf. destruct Hf as [Hi Hrest]. cbn [fst snd] in Hi.
    destruct (nth_error rhs i) as [x|] eqn:Ex; [|discriminate].
    destruct (Forall2_nth _ _ _ _ _ Hc Ex) as (c & Ec & Hv). rewrite Ec.
    destruct (IH Hrest) as [rest ->]. cbn [bind].
    destruct ex; [|eexists; reflexivity].
    cbn [negb orb] in Hi. apply andb_true_iff in Hi. destruct Hi as [Ht Ha].
    apply negb_true_iff in Ht. specialize (Hv Ht Ha). destruct c; [contradiction|]. eexists; reflexivity.
Qed.

Lemma Forall2_rev {A B} (R : A -> B -> Prop) l l' : Forall2 R l l' -> Forall2 R (rev l) (rev l').
Proof.
  induction 1 as [|x y l l' Hxy H IH]; cbn [rev]; [constructor|].
  apply Forall2_app; [exact IH|constructor; [exact Hxy|constructor]].
Qed.

Lemma propagate_is_node cs v : is_node v -> is_node (propagate cs v).
Proof. destruct v; [auto|]. intros _. cbn [propagate]. exact I. Qed.

Lemma build_ok g pp r (children : list tree) :
  filter_ok g r = true -> Forall2 (val_ok g) (r_expansion r) children ->
  exists v, build pp r children = Ok v /\ (r_expand1 r = false -> is_node v).
Proof.
  intros Hf Hc. unfold build, filter_ok in *.
  assert (E : exists f, match r_filter r with Some inc => apply_filter inc children | None => Ok children end = Ok f).
  { destruct (r_filter r) as [inc|]; [eapply apply_filter_ok; eassumption|eexists; reflexivity]. }
  destruct E as [f ->]. cbn [bind]. eexists. split; [reflexivity|].
  intros He. rewrite He. destruct pp; [apply propagate_is_node|]; exact I.
Qed.

Lemma always_node_rule g r : In r (g_rules g) -> always_node g (r_origin r) = true -> r_expand1 r = false.
Proof.
  intros Hin Ha. unfold always_node in Ha. rewrite forallb_forall in Ha. specialize (Ha r Hin).
  rewrite N.eqb_refl in Ha. cbn [negb orb] in Ha. apply negb_true_iff in Ha. exact Ha.
Qed.

(* ---------------------------------------------------------------- the driver is safe *)
Definition benign (tok : token) (e : exn) : Prop :=
  e = LarkUnexpectedToken (tline tok) (tcol tok) \/ e = OutOfFuel.

Lemma table_row g s row : table_ok g = true -> nth_N (g_table g) s = Some row -> row_ok g s row = true.
Proof.
  intros Ht Hr. unfold table_ok in Ht. apply andb_true_iff in Ht. destruct Ht as [Ht _].
  apply andb_true_iff in Ht. destruct Ht as [Ht _]. rewrite forallb_forall in Ht.
  specialize (Ht s (in_n_states g s (nth_N_lt _ _ _ Hr))). rewrite Hr in Ht. exact Ht.
Qed.

Lemma nth_N_In' {A} (l : list A) n x : nth_N l n = Some x -> In x l.
Proof. unfold nth_N. apply nth_error_In. Qed.

Theorem feed_safe g pp tok is_end :
  table_ok g = true ->
  is_term g (ttype tok) = true ->
  (is_end = true -> ttype tok = g_end_term g) ->
  forall fuel ss vs,
    wf g ss vs ->
    match feed g pp fuel tok is_end ss vs with
    | FShift ss' vs' => wf g ss' vs'
    | FDone _ => True
    | FErr e => benign tok e
    end.
Proof.
  intros Htab Hterm Hend. induction fuel as [|fuel IH]; intros ss vs Hwf; cbn [feed]; [right; reflexivity|].
  destruct ss as [|state ss']; [inversion Hwf|].
  destruct (lookup_action g state (ttype tok)) as [[ns|ri]|] eqn:Ela; [| |left; reflexivity].
  - (* shift *)
    unfold lookup_action in Ela. destruct (nth_N (g_table g) state) as [row|] eqn:Er; [|discriminate].
    pose proof (table_row g state row Htab Er) as Hrow. unfold row_ok in Hrow.
    apply andb_true_iff in Hrow. destruct Hrow as [Hrow _]. rewrite forallb_forall in Hrow.
    specialize (Hrow _ (assocN_In _ _ _ Ela)). cbn [snd fst] in Hrow.
    apply andb_true_iff in Hrow. destruct Hrow as [Hne _]. apply negb_true_iff, N.eqb_neq in Hne.
    destruct is_end; [exfalso; apply Hne; apply Hend; reflexivity|].
    eapply wf_push; [exact Hwf| |].
    + unfold goto, lookup_action. rewrite Er, Ela. reflexivity.
    + intros Hnt. rewrite Hterm in Hnt. discriminate.
  - (* reduce *)
    unfold lookup_action in Ela. destruct (nth_N (g_table g) state) as [row|] eqn:Er; [|discriminate].
    pose proof (table_row g state row Htab Er) as Hrow. unfold row_ok in Hrow.
    apply andb_true_iff in Hrow. destruct Hrow as [_ Hrow]. rewrite forallb_forall in Hrow.
    assert (Hri : In ri (dedup (reduce_rules row))).
    { apply In_dedup. unfold reduce_rules. apply in_flat_map. exists (ttype tok, Reduce ri).
      split; [apply assocN_In; exact Ela|left; reflexivity]. }
    specialize (Hrow _ Hri). unfold reduce_ok in Hrow.
    destruct (nth_N (g_rules g) ri) as [r|] eqn:Erule; [|discriminate].
    apply andb_true_iff in Hrow. destruct Hrow as [Hfilt Hwalk].
    destruct (walk_back g (rev (r_expansion r)) [state]) as [tops|] eqn:Ew; [|discriminate].
    rewrite forallb_forall in Hwalk.
    destruct (walk_back_pops g _ _ _ state ss' vs Ew (or_introl eq_refl) Hwf)
      as (ps & pv & top & ss1 & vs1 & P1 & P2 & P3 & P4 & P5).
    rewrite rev_length in P1, P2. rewrite P1, P2.
    assert (Hch : Forall2 (val_ok g) (r_expansion r) (rev pv)).
    { apply Forall2_rev in P5. rewrite rev_involutive in P5. exact P5. }
    destruct (build_ok g pp r (rev pv) Hfilt Hch) as (value & Eb & Hnode). rewrite Eb.
    specialize (Hwalk top P3). unfold goto in Hwalk.
    destruct (lookup_action g top (r_origin r)) as [[ns|?]|] eqn:Eg; try discriminate.
    destruct (is_end && (ns =? g_end g)); [exact I|].
    apply IH. eapply wf_push; [exact P4| |].
    + unfold goto. rewrite Eg. reflexivity.
    + intros _ Ha. apply Hnode. eapply always_node_rule; [eapply nth_N_In'; exact Erule|exact Ha].
Qed.

(* ---------------------------------------------------------------- token types handed to the driver *)
Definition lexer_types (lx : lexer_info) : list N :=
  map fst (lx_terms lx) ++ flat_map (fun p => map snd (snd p)) (lx_unless lx).

Definition types_ok (g : grammar) (h : hook_conf) : bool :=
  forallb (fun lx => forallb (is_term g) (lexer_types lx)) (g_root_lexer g :: g_lexers g)
  && is_term g (h_value h) && is_term g (g_end_term g).

Lemma scan_type terms fuel s ty s' : scan terms fuel s = Some (ty, s') -> In ty (map fst terms).
Proof.
  induction terms as [|[ty0 r0] terms IH]; cbn [scan]; [discriminate|].
  destruct (rx_match r0 fuel s); [intros [= <- _]; left; reflexivity|intros H; right; apply IH; exact H].
Qed.

Lemma unless_retype_in l v t : unless_retype l v = Some t -> In t (map snd l).
Proof.
  induction l as [|[r ty] l IH]; cbn [unless_retype]; [discriminate|].
  destruct (rx_fullmatch r v); [intros [= <-]; left; reflexivity|intros H; right; apply IH; exact H].
Qed.

Lemma assocN_In2 {A} k (l : list (N * A)) v : assocN k l = Some v -> In (k, v) l.
Proof. apply assocN_In. Qed.

Lemma next_token_type g wc lx : forall fuel st t st',
  next_token g wc lx fuel st = LTok t st' -> In (ttype t) (lexer_types lx).
Proof.
  induction fuel as [|fuel IH]; intros st t st' H; cbn [next_token] in H; [discriminate|].
  destruct (ls_rest st) as [|c0 r0] eqn:Er; [discriminate|]. rewrite <- Er in H.
  destruct (scan (lx_terms lx) (S fuel) (lc_pos (ls_lc st), ls_rest st)) as [[ty [endpos rest']]|] eqn:Es; [|discriminate].
  destruct (memN ty (lx_ignore lx)).
  - eapply IH. exact H.
  - injection H as <- <-. cbn [ttype]. unfold lexer_types. apply in_or_app.
    destruct (assocN ty (lx_unless lx)) as [l|] eqn:Eu.
    + destruct (unless_retype l _) as [t2|] eqn:Et.
      * right. apply in_flat_map. exists (ty, l). split; [apply assocN_In; exact Eu|].
        cbn [snd]. eapply unless_retype_in. exact Et.
      * left. eapply scan_type. exact Es.
    + left. eapply scan_type. exact Es.
Qed.

Lemma hook_type h t vs t' : hook h t vs = Ok t' -> ttype t' = ttype t \/ ttype t' = h_value h.
Proof.
  unfold hook. intros H.
  destruct (ttype t =? h_unquoted h).
  - destruct (top_is (h_upper h) vs str_SYMBOL) as [b|e]; cbn [bind] in H; [|discriminate].
    destruct (b && _); injection H as <-; [right|left]; reflexivity.
  - destruct (ttype t =? h_grid h).
    + destruct (top_is (h_upper h) vs str_NAME) as [b|e]; cbn [bind] in H; [|discriminate].
      destruct b; injection H as <-; [right|left]; reflexivity.
    + injection H as <-. left. reflexivity.
Qed.

Lemma C11_hook_total_local h t vs : exists t', hook h t vs = Ok t'.
Proof.
  unfold hook.
  assert (T : forall s, exists b, top_is (h_upper h) vs s = Ok b)
    by (intros s; destruct vs as [|[tk|d cs m] vs']; eexists; reflexivity).
  destruct (ttype t =? h_unquoted h).
  - destruct (T str_SYMBOL) as [b ->]. cbn [bind]. destruct (b && _); eexists; reflexivity.
  - destruct (ttype t =? h_grid h).
    + destruct (T str_NAME) as [b ->]. cbn [bind]. destruct b; eexists; reflexivity.
    + eexists; reflexivity.
Qed.

Definition loop_benign (e : exn) : Prop :=
  (exists l c, e = LarkUnexpectedCharacters l c) \/ (exists l c, e = LarkUnexpectedToken l c) \/ e = OutOfFuel.

Lemma feed_not_done g pp tok : forall fuel ss vs v, feed g pp fuel tok false ss vs <> FDone v.
Proof.
  induction fuel as [|fuel IH]; intros ss vs v Ef; cbn [feed] in Ef; [discriminate|].
  destruct ss as [|s0 l]; [discriminate|].
  destruct (lookup_action g s0 (ttype tok)) as [[ns|ri]|]; try discriminate.
  destruct (nth_N (g_rules g) ri) as [r|]; [|discriminate].
  destruct (pop_n _ (s0 :: l)) as [[p1 ss1]|]; [|discriminate].
  destruct (pop_n _ vs) as [[popped vs1]|]; [|discriminate].
  destruct (build pp r (rev popped)); [|discriminate].
  destruct ss1 as [|top ss1']; [discriminate|].
  destruct (lookup_action g top (r_origin r)) as [[ns|?]|]; try discriminate.
  cbn [andb] in Ef. eapply IH. exact Ef.
Qed.

Lemma feed_end_not_shift g pp tok : forall fuel ss vs ss' vs', feed g pp fuel tok true ss vs <> FShift ss' vs'.
Proof.
  induction fuel as [|fuel IH]; intros ss vs ss2 vs2 Ef; cbn [feed] in Ef; [discriminate|].
  destruct ss as [|s0 l]; [discriminate|].
  destruct (lookup_action g s0 (ttype tok)) as [[ns|ri]|]; try discriminate.
  destruct (nth_N (g_rules g) ri) as [r|]; [|discriminate].
  destruct (pop_n _ (s0 :: l)) as [[p1 ss1]|]; [|discriminate].
  destruct (pop_n _ vs) as [[popped vs1]|]; [|discriminate].
  destruct (build pp r (rev popped)); [|discriminate].
  destruct ss1 as [|top ss1']; [discriminate|].
  destruct (lookup_action g top (r_origin r)) as [[ns|?]|]; try discriminate.
  destruct (true && (ns =? g_end g)); [discriminate|]. eapply IH. exact Ef.
Qed.

Theorem parse_loop_safe g h wc :
  table_ok g = true -> types_ok g h = true ->
  forall fuel st ss vs acc e,
    wf g ss vs ->
    snd (parse_loop g h wc fuel st ss vs acc) = Err e -> loop_benign e.
Proof.
  intros Htab Hty. unfold types_ok in Hty. apply andb_true_iff in Hty. destruct Hty as [Hty Hend].
  apply andb_true_iff in Hty. destruct Hty as [Hlex Hval]. rewrite forallb_forall in Hlex.
  induction fuel as [|fuel IH]; intros st ss vs acc e Hwf H; cbn [parse_loop] in H.
  - injection H as <-. right; right; reflexivity.
  - destruct ss as [|state ss']; [inversion Hwf|].
    unfold ctx_next in H.
    destruct (nth_N (g_lexer_of_state g) state) as [li|];
      [|injection H as <-; left; eexists; eexists; reflexivity].
    destruct (nth_N (g_lexers g) li) as [lx|] eqn:Elx;
      [|injection H as <-; left; eexists; eexists; reflexivity].
    destruct (next_token g wc lx (S fuel) st) as [t st'|st'|stb] eqn:Ent.
    + destruct (hook h t vs) as [t'|e0] eqn:Eh.
      2:{ destruct (C11_hook_total_local h t vs) as [x Hx]. congruence. }
      assert (Hterm : is_term g (ttype t') = true).
      { destruct (hook_type h t vs t' Eh) as [-> | ->]; [|exact Hval].
        specialize (Hlex lx (or_intror (nth_N_In' _ _ _ Elx))). rewrite forallb_forall in Hlex.
        apply Hlex. eapply next_token_type. exact Ent. }
      pose proof (feed_safe g wc t' false Htab Hterm (fun F => ltac:(discriminate))
                            (reduce_fuel g (state :: ss')) (state :: ss') vs Hwf) as Hf.
      destruct (feed g wc (reduce_fuel g (state :: ss')) t' false (state :: ss') vs) as [ss2 vs2|v|e0] eqn:Ef.
      * eapply IH; [exact Hf|exact H].
      * exfalso. eapply feed_not_done. exact Ef.
      * injection H as <-. destruct Hf as [-> | ->]; [right; left; eexists; eexists; reflexivity|right; right; reflexivity].
    + match type of H with context [feed g wc ?F ?T true ?SS vs] =>
        assert (Hterm : is_term g (ttype T) = true) by (destruct (ls_last st'); exact Hend);
        assert (Hisend : true = true -> ttype T = g_end_term g) by (intros _; destruct (ls_last st'); reflexivity);
        pose proof (feed_safe g wc T true Htab Hterm Hisend F SS vs Hwf) as Hf;
        destruct (feed g wc F T true SS vs) as [ss2 vs2|v|e0] eqn:Ef
      end.
      * exfalso. eapply feed_end_not_shift. exact Ef.
      * discriminate.
      * injection H as <-. destruct Hf as [-> | ->]; [right; left; eexists; eexists; reflexivity|right; right; reflexivity].
    + destruct (next_token g wc (g_root_lexer g) (S fuel) stb);
        injection H as <-; [right; left|left|left]; eexists; eexists; reflexivity.
Qed.
