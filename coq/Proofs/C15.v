(* C15: INCLUDE expansion equals textual substitution, bounded at five levels.
   Lemmas and theorems about Model/Includes.v against Spec/Subst.v. *)
From MF Require Import Lib.Base Gen.Unicode Model.Case Model.Includes Spec.Subst.
Open Scope N_scope.

(* ================================================================== *)
(* A. strings and lists                                               *)
(* ================================================================== *)

Lemma split_char_nonnil c s : split_char c s <> [].
Proof.
  destruct s as [|x s]; cbn [split_char]; [discriminate|].
  destruct (x =? c); [discriminate|]. destruct (split_char c s); discriminate.
Qed.

Lemma split_char_cons_sep c s : split_char c (c :: s) = [] :: split_char c s.
Proof. cbn [split_char]. rewrite N.eqb_refl. reflexivity. Qed.

Lemma split_char_cons_other c x s :
  x <> c -> split_char c (x :: s) = (x :: hd [] (split_char c s)) :: tl (split_char c s).
Proof.
  intros Hx. cbn [split_char]. destruct (N.eqb_spec x c) as [E|_]; [contradiction|].
  destruct (split_char c s) eqn:E; [exfalso; eapply split_char_nonnil; eassumption|reflexivity].
Qed.

(* splitting a text around one separator *)
Lemma split_char_app_sep c a b :
  split_char c (a ++ c :: b) =
    removelast (split_char c a) ++ [last (split_char c a) []] ++ split_char c b.
Proof.
  induction a as [|x a IH].
  - cbn [app]. rewrite split_char_cons_sep. reflexivity.
  - cbn [app]. destruct (N.eqb_spec x c) as [->|Hx].
    + rewrite !split_char_cons_sep, IH.
      assert (Hn := split_char_nonnil c a).
      destruct (split_char c a) as [|h t] eqn:E; [contradiction|]. reflexivity.
    + rewrite !(split_char_cons_other c x) by assumption. rewrite IH.
      assert (Hn := split_char_nonnil c a).
      destruct (split_char c a) as [|h t] eqn:E; [contradiction|].
      destruct t as [|h2 t]; reflexivity.
Qed.

Lemma removelast_last_id {A} (l : list A) d : l <> [] -> removelast l ++ [last l d] = l.
Proof. intros H. symmetry. apply app_removelast_last. exact H. Qed.

Lemma split_char_app_sep' c a b :
  split_char c (a ++ c :: b) = split_char c a ++ split_char c b.
Proof.
  rewrite split_char_app_sep, app_assoc, removelast_last_id by apply split_char_nonnil.
  reflexivity.
Qed.

Lemma split_char_no_sep c s : contains_char c s = false -> split_char c s = [s].
Proof.
  induction s as [|x s IH]; [reflexivity|]. unfold contains_char. cbn [existsb].
  intros H. apply orb_false_iff in H. destruct H as [Hx Hs].
  rewrite split_char_cons_other by (intros ->; rewrite N.eqb_refl in Hx; discriminate).
  rewrite (IH Hs). reflexivity.
Qed.

Lemma split_char_pieces_nosep c s :
  Forall (fun p => contains_char c p = false) (split_char c s).
Proof.
  induction s as [|x s IH]; [repeat constructor|].
  destruct (N.eqb_spec x c) as [->|Hx].
  - rewrite split_char_cons_sep. constructor; [reflexivity|exact IH].
  - rewrite split_char_cons_other by assumption.
    assert (Hn := split_char_nonnil c s).
    destruct (split_char c s) as [|h t]; [contradiction|]. inversion IH; subst.
    constructor; [|assumption]. unfold contains_char in *. cbn [hd existsb].
    apply orb_false_iff. split; [|assumption]. apply N.eqb_neq. congruence.
Qed.

Lemma join_cons sep x y r : join sep (x :: y :: r) = x ++ sep ++ join sep (y :: r).
Proof. reflexivity. Qed.

Lemma join_split_char c s : join [c] (split_char c s) = s.
Proof.
  induction s as [|x s IH]; [reflexivity|].
  assert (Hn := split_char_nonnil c s).
  destruct (N.eqb_spec x c) as [->|Hx].
  - rewrite split_char_cons_sep. destruct (split_char c s) as [|h t] eqn:E; [contradiction|].
    rewrite join_cons, IH. reflexivity.
  - rewrite split_char_cons_other by assumption.
    destruct (split_char c s) as [|h t] eqn:E; [contradiction|]. cbn [hd tl].
    destruct t as [|h2 t].
    + cbn [join] in *. rewrite IH. reflexivity.
    + rewrite join_cons in *. rewrite <- IH. reflexivity.
Qed.

(* splitting a joined list of texts = splitting every text *)
Lemma split_char_join c (l : list str) :
  l <> [] -> split_char c (join [c] l) = flat_map (split_char c) l.
Proof.
  induction l as [|x l IH]; [congruence|]. intros _.
  destruct l as [|y l].
  - cbn [join flat_map]. rewrite app_nil_r. reflexivity.
  - rewrite join_cons. cbn [app]. rewrite split_char_app_sep', IH by discriminate. reflexivity.
Qed.

(* Spec.pieces is Python's split *)
Lemma pieces_split_char c s : pieces c s = split_char c s.
Proof.
  unfold pieces. induction s as [|x s IH]; [reflexivity|].
  cbn [fold_right split_char].
  destruct (fold_right _ _ s) as [cur done] eqn:E.
  rewrite <- IH. destruct (x =? c); reflexivity.
Qed.

Lemma lines_of_split s : lines_of s = split_char c_nl s.
Proof. apply pieces_split_char. Qed.

Lemma unlines_join ls : unlines ls = join [c_nl] ls.
Proof.
  destruct ls as [|x r]; [reflexivity|]. cbn [unlines]. revert x.
  induction r as [|y r IH]; intros x; [cbn; apply app_nil_r|].
  rewrite join_cons. cbn [flat_map app]. rewrite (IH y). reflexivity.
Qed.

(* mapM *)
Lemma mapM_ext {A B} (f g : A -> res B) l :
  (forall x, In x l -> f x = g x) -> mapM f l = mapM g l.
Proof.
  induction l as [|x l IH]; intros H; [reflexivity|]. cbn [mapM].
  rewrite (H x (or_introl eq_refl)), IH by (intros; apply H; right; assumption). reflexivity.
Qed.

Lemma mapM_id_on {A} (f : A -> res A) l :
  (forall x, In x l -> f x = Ok x) -> mapM f l = Ok l.
Proof.
  induction l as [|x l IH]; intros H; [reflexivity|]. cbn [mapM bind].
  rewrite (H x (or_introl eq_refl)). cbn [bind].
  rewrite IH by (intros; apply H; right; assumption). reflexivity.
Qed.

Lemma mapM_length {A B} (f : A -> res B) l r : mapM f l = Ok r -> length r = length l.
Proof.
  revert r; induction l as [|x l IH]; intros r; cbn [mapM bind]; [intros [= <-]; reflexivity|].
  destruct (f x); [|discriminate]. cbn [bind]. destruct (mapM f l); [|discriminate].
  cbn [bind]. intros [= <-]. cbn [length]. f_equal. apply IH. reflexivity.
Qed.

(* ================================================================== *)
(* B. the includes dict + pop/insert loop is a map over the lines      *)
(* ================================================================== *)

Lemma list_pop_app {A} (pre : list A) x post : list_pop (length pre) (pre ++ x :: post) = Some (pre ++ post).
Proof. induction pre as [|y pre IH]; [reflexivity|]. cbn [length app list_pop]. rewrite IH. reflexivity. Qed.

Lemma list_insert_app {A} (pre : list A) x post : list_insert (length pre) x (pre ++ post) = pre ++ x :: post.
Proof.
  induction pre as [|y pre IH]; [destruct post; reflexivity|]. cbn [length app list_insert].
  rewrite IH. reflexivity.
Qed.

Section Scan.
  Variable fs : fsys.
  Variable cwd fn : str.

  (* what happens to one line *)
  Definition expand_line (rec : str -> res str) (nested : nat) (l : str) : res str :=
    if starts_include l then
      if Nat.eqb nested 5 then Err PyValueError
      else
        do inc_file_path <- get_include_filename l;
        do include_text <- open_file fs cwd (include_path cwd fn inc_file_path);
        rec include_text
    else Ok l.

  Lemma scan_lines_spec rec nested lines :
    forall idx acc,
      match mapM (expand_line rec nested) lines with
      | Err e => scan_lines fs cwd fn rec nested idx lines acc = Err e
      | Ok ls =>
          exists incs,
            scan_lines fs cwd fn rec nested idx lines acc = Ok (acc ++ incs) /\
            forall pre : list str, length pre = idx -> apply_includes incs (pre ++ lines) = Ok (pre ++ ls)
      end.
  Proof.
    induction lines as [|l rest IH]; intros idx acc.
    - cbn [mapM scan_lines]. exists []. rewrite app_nil_r. split; [reflexivity|]. intros; reflexivity.
    - cbn [mapM scan_lines]. unfold expand_line at 1.
      destruct (starts_include l) eqn:Hs.
      + destruct (Nat.eqb nested 5) eqn:Hn; [reflexivity|].
        destruct (get_include_filename l) as [inc|e]; cbn [bind]; [|reflexivity].
        destruct (open_file fs cwd (include_path cwd fn inc)) as [t|e]; cbn [bind]; [|reflexivity].
        destruct (rec t) as [txt|e]; cbn [bind]; [|reflexivity].
        specialize (IH (S idx) (acc ++ [(idx, txt)])).
        destruct (mapM (expand_line rec nested) rest) as [ls|e]; cbn [bind]; [|exact IH].
        destruct IH as (incs & Hscan & Happ).
        exists ((idx, txt) :: incs). split.
        * rewrite Hscan, <- app_assoc. reflexivity.
        * intros pre Hlen. cbn [apply_includes]. subst idx.
          rewrite list_pop_app, list_insert_app.
          specialize (Happ (pre ++ [txt])). rewrite <- !app_assoc in Happ. cbn [app] in Happ.
          apply Happ. rewrite app_length. cbn [length]. lia.
      + cbn [bind]. specialize (IH (S idx) acc).
        destruct (mapM (expand_line rec nested) rest) as [ls|e]; cbn [bind]; [|exact IH].
        destruct IH as (incs & Hscan & Happ).
        exists incs. split; [exact Hscan|].
        intros pre Hlen. specialize (Happ (pre ++ [l])). rewrite <- !app_assoc in Happ.
        cbn [app] in Happ. apply Happ. rewrite app_length. cbn [length]. lia.
  Qed.

  (* one level of load_includes: split, expand every line, join *)
  Lemma load_includes_fuel_step fuel text nested :
    load_includes_fuel fs cwd fn (S fuel) text nested =
      do ls <- mapM (expand_line (fun t => load_includes_fuel fs cwd fn fuel t (S nested)) nested)
                    (split_char c_nl text);
      Ok (join [c_nl] ls).
  Proof.
    cbn [load_includes_fuel].
    pose proof (scan_lines_spec (fun t => load_includes_fuel fs cwd fn fuel t (S nested)) nested
                                (split_char c_nl text) 0%nat []) as H.
    destruct (mapM _ (split_char c_nl text)) as [ls|e]; cbn [bind].
    - destruct H as (incs & -> & Happ). cbn [bind app].
      pose proof (Happ [] eq_refl) as Ha. cbn [app] in Ha. rewrite Ha. reflexivity.
    - rewrite H. reflexivity.
  Qed.
End Scan.

(* ================================================================== *)
(* C. paths: posixpath on strings against the walk over locations      *)
(* ================================================================== *)

Definition keep_comp (c : str) : bool := negb (is_nil c) && negb (str_eqb c [c_dot]).

Lemma os_comps_def p : os_comps p = filter keep_comp (split_char c_slash p).
Proof. reflexivity. Qed.

Lemma is_nil_eqb (c : str) : str_eqb c [] = is_nil c.
Proof. destruct c; reflexivity. Qed.

Lemma steps_os_comps p : steps p = os_comps p.
Proof.
  unfold steps, os_comps. rewrite pieces_split_char. apply filter_ext.
  intros c. rewrite is_nil_eqb. reflexivity.
Qed.

Lemma startswith_nil s : startswith s [] = true.
Proof. destruct s; reflexivity. Qed.

Lemma absolute_isabs p : absolute p = isabs p.
Proof.
  destruct p as [|c p]; [reflexivity|]. unfold absolute, isabs. cbn [startswith].
  change 47 with c_slash. destruct (c =? c_slash); destruct p; reflexivity.
Qed.

Lemma removelast_rev {A} (l : list A) : removelast (rev l) = rev (tl l).
Proof.
  destruct l as [|x l]; [reflexivity|]. cbn [rev tl]. apply removelast_last.
Qed.

Lemma go_walk cs : forall st, go (rev st) cs = rev (walk st cs).
Proof.
  induction cs as [|c r IH]; intros st; [reflexivity|]. cbn [go walk].
  change [46; 46] with dotdot. destruct (str_eqb c dotdot).
  - rewrite removelast_rev. apply IH.
  - change (rev st ++ [c]) with (rev (c :: st)). apply IH.
Qed.

Lemma go_walk' here cs : go here cs = rev (walk (rev here) cs).
Proof. rewrite <- go_walk, rev_involutive. reflexivity. Qed.

Lemma walk_app a b : forall st, walk st (a ++ b) = walk (walk st a) b.
Proof.
  induction a as [|c a IH]; intros st; [reflexivity|]. cbn [app walk].
  destruct (str_eqb c dotdot); apply IH.
Qed.

Lemma locate_walk base name :
  locate base name = rev (walk (if isabs name then [] else rev base) (os_comps name)).
Proof.
  unfold locate. rewrite go_walk', steps_os_comps, absolute_isabs.
  destruct (isabs name); reflexivity.
Qed.

Lemma os_comps_nil : os_comps [] = [].
Proof. reflexivity. Qed.

Lemma os_comps_app_slash a b : os_comps (a ++ c_slash :: b) = os_comps a ++ os_comps b.
Proof. unfold os_comps. rewrite split_char_app_sep', filter_app. reflexivity. Qed.

Lemma os_comps_snoc_slash a : os_comps (a ++ [c_slash]) = os_comps a.
Proof. rewrite os_comps_app_slash, os_comps_nil, app_nil_r. reflexivity. Qed.

Lemma os_comps_cons_slash a : os_comps (c_slash :: a) = os_comps a.
Proof. apply (os_comps_app_slash [] a). Qed.

Lemma endswith_slash a : endswith a [c_slash] = true -> exists a', a = a' ++ [c_slash].
Proof.
  unfold endswith. cbn [rev app]. destruct (rev a) as [|x r] eqn:E; cbn [startswith]; [discriminate|].
  rewrite startswith_nil, andb_true_r. intros H. apply N.eqb_eq in H. subst x.
  exists (rev r). rewrite <- (rev_involutive a), E. reflexivity.
Qed.

Lemma os_comps_path_join a b :
  isabs b = false -> os_comps (path_join a b) = os_comps a ++ os_comps b.
Proof.
  intros Hb. unfold path_join. unfold isabs in Hb. rewrite Hb.
  destruct a as [|x a]; [reflexivity|]. cbn [is_nil orb].
  destruct (endswith (x :: a) [c_slash]) eqn:E.
  - apply endswith_slash in E. destruct E as (a' & ->).
    rewrite <- app_assoc. cbn [app]. rewrite os_comps_app_slash, os_comps_snoc_slash. reflexivity.
  - cbn [app]. change (x :: a ++ c_slash :: b) with ((x :: a) ++ c_slash :: b).
    apply os_comps_app_slash.
Qed.

Lemma isabs_path_join a b : isabs b = false -> isabs (path_join a b) = isabs a.
Proof.
  intros Hb. unfold path_join. unfold isabs in Hb. rewrite Hb.
  destruct a as [|x a]; [exact Hb|]. cbn [is_nil orb].
  destruct (endswith (x :: a) [c_slash]); unfold isabs; cbn [app startswith];
    rewrite !startswith_nil; reflexivity.
Qed.

(* head_upto_slash is the specification's folder_text *)
Lemma drop_until_slash_snoc a c :
  drop_until_slash (a ++ [c]) =
    if existsb (N.eqb c_slash) a then drop_until_slash a ++ [c]
    else if c =? c_slash then [c] else [].
Proof.
  induction a as [|x a IH]; [cbn; destruct (c =? c_slash); reflexivity|].
  cbn [app drop_until_slash existsb]. rewrite (N.eqb_sym c_slash x).
  destruct (x =? c_slash); [reflexivity|]. cbn [orb]. exact IH.
Qed.

Lemma existsb_rev {A} (f : A -> bool) l : existsb f (rev l) = existsb f l.
Proof.
  induction l as [|x l IH]; [reflexivity|]. cbn [rev existsb].
  rewrite existsb_app, IH. cbn [existsb]. rewrite orb_false_r. apply orb_comm.
Qed.

Lemma head_upto_slash_folder_text fn : head_upto_slash fn = folder_text fn.
Proof.
  unfold head_upto_slash. induction fn as [|c r IH]; [reflexivity|].
  cbn [rev folder_text]. rewrite drop_until_slash_snoc, existsb_rev.
  change 47 with c_slash.
  destruct (existsb (N.eqb c_slash) r).
  - rewrite rev_app_distr. cbn [rev app]. rewrite IH. reflexivity.
  - destruct (c =? c_slash); reflexivity.
Qed.

(* right-stripping only removes a tail of stripped characters *)
Lemma lstrip_by_rev_split f r : exists t, rev r = rev (lstrip_by f r) ++ t /\ forallb f t = true.
Proof.
  induction r as [|c r IH]; [exists []; split; reflexivity|].
  cbn [lstrip_by]. destruct (f c) eqn:Hc.
  - destruct IH as (t & Ht & Hf). exists (t ++ [c]). split.
    + cbn [rev]. rewrite Ht at 1. rewrite app_assoc. reflexivity.
    + rewrite forallb_app, Hf. cbn. rewrite Hc. reflexivity.
  - exists []. rewrite app_nil_r. split; reflexivity.
Qed.

Lemma rstrip_by_split f h : exists t, h = rstrip_by f h ++ t /\ forallb f t = true.
Proof.
  unfold rstrip_by. destruct (lstrip_by_rev_split f (rev h)) as (t & Ht & Hf).
  rewrite rev_involutive in Ht. exists t. split; assumption.
Qed.

Lemma forallb_slash_repeat t : forallb (N.eqb c_slash) t = true -> t = repeat c_slash (length t).
Proof.
  induction t as [|c t IH]; [reflexivity|]. cbn [forallb length repeat]. intros H.
  apply andb_true_iff in H. destruct H as [Hc Ht]. apply N.eqb_eq in Hc. subst c.
  rewrite <- IH by assumption. reflexivity.
Qed.

Lemma os_comps_slashes n : os_comps (repeat c_slash n) = [].
Proof.
  induction n as [|n IH]; [reflexivity|]. cbn [repeat]. rewrite os_comps_cons_slash. exact IH.
Qed.

Lemma os_comps_app_slashes a n : os_comps (a ++ repeat c_slash n) = os_comps a.
Proof.
  destruct n as [|n]; [rewrite app_nil_r; reflexivity|].
  cbn [repeat]. rewrite os_comps_app_slash, os_comps_slashes, app_nil_r. reflexivity.
Qed.

Lemma os_comps_rstrip h : os_comps (rstrip_by (N.eqb c_slash) h) = os_comps h.
Proof.
  destruct (rstrip_by_split (N.eqb c_slash) h) as (t & Ht & Hf).
  rewrite Ht at 2. rewrite (forallb_slash_repeat t Hf), os_comps_app_slashes. reflexivity.
Qed.

Lemma os_comps_dirname fn : os_comps (dirname fn) = os_comps (folder_text fn).
Proof.
  unfold dirname. rewrite head_upto_slash_folder_text.
  destruct (negb (is_nil (folder_text fn)) && negb (forallb (N.eqb c_slash) (folder_text fn)));
    [apply os_comps_rstrip|reflexivity].
Qed.

Lemma isabs_dirname fn : isabs (dirname fn) = isabs (folder_text fn).
Proof.
  unfold dirname. rewrite head_upto_slash_folder_text. set (h := folder_text fn).
  destruct (negb (is_nil h) && negb (forallb (N.eqb c_slash) h)) eqn:E; [|reflexivity].
  apply andb_true_iff in E. destruct E as [_ E]. apply negb_true_iff in E.
  destruct (rstrip_by_split (N.eqb c_slash) h) as (t & Ht & Hf).
  destruct (rstrip_by (N.eqb c_slash) h) as [|y r] eqn:Er.
  - cbn [app] in Ht. rewrite Ht in E. rewrite Hf in E. discriminate.
  - rewrite Ht. unfold isabs. cbn [app startswith]. rewrite !startswith_nil. reflexivity.
Qed.

(* ---- normpath of an absolute path denotes the same location ---- *)
Definition good_comp (c : str) : Prop :=
  is_nil c = false /\ str_eqb c [c_dot] = false /\ str_eqb c dotdot = false /\ contains_char c_slash c = false.

Lemma last_In {A} (l : list A) d : l <> [] -> In (last l d) l.
Proof.
  induction l as [|x l IH]; [congruence|]. intros _. destruct l as [|y l]; [left; reflexivity|].
  right. apply IH. discriminate.
Qed.

Lemma Forall_removelast {A} (P : A -> Prop) l : Forall P l -> Forall P (removelast l).
Proof.
  induction l as [|x l IH]; intros H; [constructor|]. inversion H; subst.
  destruct l as [|y l]; [constructor|]. cbn [removelast]. constructor; [assumption|].
  apply IH. assumption.
Qed.

Lemma rev_removelast {A} (l : list A) : rev (removelast l) = tl (rev l).
Proof.
  rewrite <- (rev_involutive l) at 1. rewrite removelast_rev, rev_involutive. reflexivity.
Qed.

Lemma normpath_loop n comps :
  n <> 0%nat ->
  forall acc,
    Forall good_comp acc ->
    Forall (fun p => contains_char c_slash p = false) comps ->
    Forall good_comp (fold_left (normpath_step n) comps acc) /\
    rev (fold_left (normpath_step n) comps acc) = walk (rev acc) (filter keep_comp comps).
Proof.
  intros Hn. induction comps as [|c comps IH]; intros acc Hacc Hc; [split; [assumption|reflexivity]|].
  inversion Hc as [|? ? Hc1 Hc2]; subst. cbn [fold_left filter].
  unfold normpath_step at 2 4. unfold keep_comp at 1 3.
  destruct (is_nil c) eqn:E1; cbn [orb negb andb]; [apply IH; assumption|].
  destruct (str_eqb c [c_dot]) eqn:E2; cbn [orb negb andb]; [apply IH; assumption|].
  cbn [walk]. destruct (str_eqb c dotdot) eqn:E3; cbn [negb orb].
  - assert (Hn0 : Nat.eqb n 0 = false) by (apply Nat.eqb_neq; exact Hn).
    rewrite Hn0. cbn [andb orb].
    assert (Hlast : negb (is_nil acc) && str_eqb (last acc []) dotdot = false).
    { destruct acc as [|a acc']; [reflexivity|]. cbn [is_nil negb andb].
      assert (Hin : In (last (a :: acc') []) (a :: acc')) by (apply last_In; discriminate).
      rewrite Forall_forall in Hacc. destruct (Hacc _ Hin) as (_ & _ & H3 & _). exact H3. }
    rewrite Hlast.
    destruct (is_nil acc) eqn:Ea; cbn [negb].
    + destruct acc; [|discriminate]. cbn [rev tl]. apply IH; assumption.
    + specialize (IH (removelast acc) (Forall_removelast _ _ Hacc) Hc2).
      rewrite rev_removelast in IH. exact IH.
  - specialize (IH (acc ++ [c])). rewrite rev_app_distr in IH. cbn [rev app] in IH.
    apply IH; [|assumption]. apply Forall_app. split; [assumption|].
    constructor; [|constructor]. repeat split; assumption.
Qed.

Lemma os_comps_good x : good_comp x -> os_comps x = [x].
Proof.
  intros (H1 & H2 & _ & H4). unfold os_comps. rewrite split_char_no_sep by assumption.
  cbn [filter]. rewrite H1, H2. reflexivity.
Qed.

Lemma os_comps_join r : Forall good_comp r -> os_comps (join [c_slash] r) = r.
Proof.
  induction r as [|x r IH]; intros H; [reflexivity|]. inversion H as [|? ? Hx Hr]; subst.
  destruct r as [|y r]; [apply os_comps_good; assumption|].
  rewrite join_cons. cbn [app]. rewrite os_comps_app_slash, os_comps_good, IH by assumption.
  reflexivity.
Qed.

Lemma os_comps_repeat_slash n s : os_comps (repeat c_slash n ++ s) = os_comps s.
Proof.
  induction n as [|n IH]; [reflexivity|]. cbn [repeat app]. rewrite os_comps_cons_slash. exact IH.
Qed.

Lemma walk_no_dotdot cs : Forall good_comp cs -> forall st, walk st cs = rev cs ++ st.
Proof.
  induction cs as [|c cs IH]; intros H st; [reflexivity|]. inversion H as [|? ? Hc Hcs]; subst.
  cbn [walk rev]. destruct Hc as (_ & _ & H3 & _). rewrite H3, IH by assumption.
  rewrite <- app_assoc. reflexivity.
Qed.

Lemma normpath_abs q :
  isabs q = true ->
  isabs (normpath q) = true /\ walk [] (os_comps (normpath q)) = walk [] (os_comps q).
Proof.
  intros Hq. unfold normpath. destruct q as [|c q]; [discriminate|]. cbn [is_nil].
  unfold isabs in Hq. rewrite Hq.
  set (n := if startswith (c :: q) [c_slash; c_slash] && negb (startswith (c :: q) [c_slash; c_slash; c_slash])
            then 2%nat else 1%nat).
  assert (Hn : n <> 0%nat) by (unfold n; destruct (_ && _); discriminate).
  destruct (normpath_loop n (split_char c_slash (c :: q)) Hn [] (Forall_nil _)
                          (split_char_pieces_nosep c_slash (c :: q))) as [Hgood Hrev].
  set (r := fold_left (normpath_step n) (split_char c_slash (c :: q)) []) in *.
  assert (Hne : is_nil (repeat c_slash n ++ join [c_slash] r) = false).
  { destruct n as [|n']; [congruence|]. reflexivity. }
  rewrite Hne. split.
  - destruct n as [|n']; [congruence|]. unfold isabs. cbn [repeat app startswith].
    rewrite N.eqb_refl, startswith_nil. reflexivity.
  - rewrite os_comps_repeat_slash, os_comps_join by assumption.
    rewrite walk_no_dotdot by assumption. rewrite app_nil_r, Hrev. reflexivity.
Qed.

(* ---- the path handed to open_file denotes the specification's location ---- *)
Lemma isabs_nonnil_join cwd p : isabs cwd = true -> isabs p = false -> isabs (path_join cwd p) = true.
Proof. intros Hc Hp. rewrite isabs_path_join by assumption. exact Hc. Qed.

Lemma include_path_location cwd fn inc :
  isabs cwd = true ->
  os_resolve cwd (include_path cwd fn inc) = locate (locate (locate [] cwd) (folder_text fn)) inc.
Proof.
  intros Hcwd. unfold include_path. rewrite (locate_walk _ inc).
  destruct (isabs inc) eqn:Hi.
  - unfold os_resolve. rewrite Hi. reflexivity.
  - set (P := path_join (dirname fn) inc).
    assert (HP : isabs P = isabs (folder_text fn)).
    { unfold P. rewrite isabs_path_join, isabs_dirname by assumption. reflexivity. }
    assert (HcP : os_comps P = os_comps (folder_text fn) ++ os_comps inc).
    { unfold P. rewrite os_comps_path_join, os_comps_dirname by assumption. reflexivity. }
    unfold abspath. set (Q := if isabs P then P else path_join cwd P).
    assert (HQ : isabs Q = true).
    { unfold Q. destruct (isabs P) eqn:E; [exact E|]. apply isabs_nonnil_join; assumption. }
    destruct (normpath_abs Q HQ) as [Habs Hw].
    unfold os_resolve. rewrite Habs, Hw. f_equal.
    rewrite (locate_walk _ (folder_text fn)), (locate_walk [] cwd), Hcwd, rev_involutive.
    unfold Q. rewrite <- HP. destruct (isabs P) eqn:E.
    + rewrite HcP, walk_app. reflexivity.
    + rewrite os_comps_path_join, HcP, !walk_app by assumption. rewrite ?rev_involutive. reflexivity.
Qed.

Lemma folder_text_snoc_slash s : folder_text (s ++ [c_slash]) = s ++ [c_slash].
Proof.
  induction s as [|c s IH]; [reflexivity|]. cbn [app folder_text].
  rewrite existsb_app. cbn [existsb]. change 47 with c_slash. rewrite N.eqb_refl, orb_true_r.
  rewrite IH. reflexivity.
Qed.

Lemma root_folder_default cwd fn :
  isabs cwd = true ->
  root_folder cwd fn = locate (locate [] cwd) (folder_text (default_fn cwd fn)).
Proof.
  intros Hcwd. destruct fn as [f|]; [reflexivity|]. cbn [root_folder default_fn].
  rewrite folder_text_snoc_slash, !locate_walk.
  assert (Ha : isabs (cwd ++ [c_slash]) = true).
  { destruct cwd as [|x cwd]; [discriminate|]. unfold isabs in *. cbn [app startswith] in *.
    rewrite startswith_nil in *. exact Hcwd. }
  rewrite Ha, Hcwd, os_comps_snoc_slash. reflexivity.
Qed.

(* ================================================================== *)
(* D. the model is textual substitution with the code's line reader    *)
(* ================================================================== *)

(* how the code reads a line: which lines it takes for INCLUDE lines and the
   name (or IndexError) it extracts *)
Definition code_reader (l : str) : option (res str) :=
  if starts_include l then Some (get_include_filename l) else None.

(* one line of Spec.subst_by *)
Definition subst_line (read : place -> option str) (reader : str -> option (res str)) (base : place)
           (budget : nat) (l : str) : res str :=
  match reader l with
  | None => Ok l
  | Some r =>
      match budget with
      | O => Err PyValueError
      | S b =>
          do name <- r;
          match read (locate base name) with
          | None => Err PyIOError
          | Some t => subst_by read reader base b t
          end
      end
  end.

Lemma subst_by_eq read reader base budget text :
  subst_by read reader base budget text =
    do ls <- mapM (subst_line read reader base budget) (lines_of text); Ok (unlines ls).
Proof. destruct budget; reflexivity. Qed.

Section Main.
  Variable fs : fsys.
  Variable cwd fn : str.
  Hypothesis Hcwd : isabs cwd = true.

  Lemma model_is_subst_by :
    forall budget text, (budget <= 5)%nat ->
      load_includes_fuel fs cwd fn (S budget) text (5 - budget) =
        subst_by (text_of fs) code_reader (locate (locate [] cwd) (folder_text fn)) budget text.
  Proof.
    induction budget as [|b IH]; intros text Hb;
      rewrite load_includes_fuel_step, subst_by_eq, lines_of_split.
    - rewrite (mapM_ext _ (subst_line (text_of fs) code_reader (locate (locate [] cwd) (folder_text fn)) 0)).
      + destruct (mapM _ _); cbn [bind]; [rewrite unlines_join|]; reflexivity.
      + intros l _. unfold expand_line, subst_line, code_reader.
        destruct (starts_include l); reflexivity.
    - rewrite (mapM_ext _ (subst_line (text_of fs) code_reader (locate (locate [] cwd) (folder_text fn)) (S b))).
      + destruct (mapM _ _); cbn [bind]; [rewrite unlines_join|]; reflexivity.
      + intros l _. unfold expand_line, subst_line, code_reader.
        destruct (starts_include l); [|reflexivity].
        destruct (Nat.eqb_spec (5 - S b) 5) as [E|_]; [lia|].
        destruct (get_include_filename l) as [inc|e]; cbn [bind]; [|reflexivity].
        unfold open_file. rewrite include_path_location by exact Hcwd.
        destruct (text_of fs _) as [t|]; cbn [bind]; [|reflexivity].
        replace (S (5 - S b)) with (5 - b)%nat by lia. apply IH. lia.
  Qed.
End Main.

Theorem includes_are_substitution_by_code_reader fs cwd text fn :
  isabs cwd = true ->
  load_includes fs cwd text fn =
    subst_by (text_of fs) code_reader (root_folder cwd fn) 5 text.
Proof.
  intros Hcwd. unfold load_includes. rewrite root_folder_default by exact Hcwd.
  apply (model_is_subst_by fs cwd (default_fn cwd fn) Hcwd 5%nat text). lia.
Qed.

(* at every nesting level the same base folder is used *)
Theorem root_relative_at_every_depth fs cwd fn nested text :
  isabs cwd = true -> (nested <= 5)%nat ->
  load_includes_fuel fs cwd (default_fn cwd fn) (6 - nested) text nested =
    subst_by (text_of fs) code_reader (root_folder cwd fn) (5 - nested) text.
Proof.
  intros Hcwd Hn. rewrite root_folder_default by exact Hcwd.
  replace (6 - nested)%nat with (S (5 - nested)) by lia.
  replace nested with (5 - (5 - nested))%nat at 2 by lia.
  apply model_is_subst_by; [exact Hcwd|lia].
Qed.

(* ================================================================== *)
(* E. totality, the depth bound, error kinds                           *)
(* ================================================================== *)

Lemma mapM_Err {A B} (f : A -> res B) l e :
  mapM f l = Err e -> exists x, In x l /\ f x = Err e.
Proof.
  induction l as [|x l IH]; cbn [mapM bind]; [discriminate|].
  destruct (f x) as [y|e'] eqn:E; cbn [bind].
  - destruct (mapM f l) as [ys|e'']; cbn [bind]; [discriminate|].
    intros [= ->]. destruct (IH eq_refl) as (x' & Hin & Hx). exists x'. split; [right|]; assumption.
  - intros [= ->]. exists x. split; [left; reflexivity|exact E].
Qed.

Lemma mapM_Ok_iff {A B} (f : A -> res B) l :
  (exists r, mapM f l = Ok r) <-> Forall (fun x => exists y, f x = Ok y) l.
Proof.
  induction l as [|x l IH]; cbn [mapM bind].
  - split; [constructor|exists []; reflexivity].
  - split.
    + intros (r & H). destruct (f x) as [y|e] eqn:E; cbn [bind] in H; [|discriminate].
      destruct (mapM f l) as [ys|e]; cbn [bind] in H; [|discriminate].
      constructor; [exists y; exact E|]. apply IH. exists ys. reflexivity.
    + intros H. inversion H as [|? ? (y & Hy) Hl]; subst. apply IH in Hl. destruct Hl as (ys & Hys).
      exists (y :: ys). rewrite Hy. cbn [bind]. rewrite Hys. reflexivity.
Qed.

Lemma mapM_Forall2 {A B} (f : A -> res B) l r :
  mapM f l = Ok r -> Forall2 (fun x y => f x = Ok y) l r.
Proof.
  revert r; induction l as [|x l IH]; intros r; cbn [mapM bind]; [intros [= <-]; constructor|].
  destruct (f x) as [y|e] eqn:E; cbn [bind]; [|discriminate].
  destruct (mapM f l) as [ys|e]; cbn [bind]; [|discriminate].
  intros [= <-]. constructor; [exact E|]. apply IH. reflexivity.
Qed.

(* the first failing line decides *)
Lemma mapM_first_Err {A B} (f : A -> res B) pre x post e :
  Forall (fun z => exists y, f z = Ok y) pre -> f x = Err e -> mapM f (pre ++ x :: post) = Err e.
Proof.
  induction pre as [|z pre IH]; intros Hpre Hx; cbn [app mapM bind].
  - rewrite Hx. reflexivity.
  - inversion Hpre as [|? ? (y & Hy) Hp]; subst. rewrite Hy. cbn [bind]. rewrite IH by assumption.
    reflexivity.
Qed.

Lemma Forall2_flat_map {A B C} (R : A -> B -> Prop) (P : C -> Prop) (g : B -> list C) xs ys :
  Forall2 R xs ys -> (forall x y, In x xs -> R x y -> Forall P (g y)) -> Forall P (flat_map g ys).
Proof.
  induction 1 as [|x y xs ys Hxy _ IH]; intros H; cbn [flat_map]; [constructor|].
  apply Forall_app. split.
  - apply (H x y); [left; reflexivity|exact Hxy].
  - apply IH. intros x' y' Hin. apply H. right. exact Hin.
Qed.

Lemma get_include_filename_Err l e : get_include_filename l = Err e -> e = PyIndexError.
Proof.
  unfold get_include_filename. destruct (nth_error _ 1); [discriminate|]. intros [= <-]. reflexivity.
Qed.

(* the fuel of the model is never exhausted, and the only exceptions are the
   three the code can raise *)
Lemma load_includes_fuel_errors fs cwd fn :
  forall fuel text nested e,
    (6 <= fuel + nested)%nat -> (nested <= 5)%nat ->
    load_includes_fuel fs cwd fn fuel text nested = Err e ->
    e = PyValueError \/ e = PyIOError \/ e = PyIndexError.
Proof.
  induction fuel as [|fuel IH]; intros text nested e H6 H5; [lia|].
  rewrite load_includes_fuel_step.
  destruct (mapM _ _) as [ls|e'] eqn:E; cbn [bind]; [discriminate|]. intros [= ->].
  apply mapM_Err in E. destruct E as (l & _ & Hl). unfold expand_line in Hl.
  destruct (starts_include l); [|discriminate].
  destruct (Nat.eqb_spec nested 5) as [->|Hn]; [left; congruence|].
  destruct (get_include_filename l) as [inc|e'] eqn:Eg; cbn [bind] in Hl.
  - unfold open_file in Hl. destruct (text_of fs _) as [t|]; cbn [bind] in Hl.
    + apply (IH t (S nested) e); [lia|lia|exact Hl].
    + right; left. congruence.
  - right; right. apply get_include_filename_Err in Eg. congruence.
Qed.

Theorem load_includes_never_out_of_fuel fs cwd text fn e :
  load_includes fs cwd text fn = Err e ->
  e = PyValueError \/ e = PyIOError \/ e = PyIndexError.
Proof. apply load_includes_fuel_errors; lia. Qed.

Section Depth.
  Variable read : place -> option str.
  Variable reader : str -> option (res str).
  Variable base : place.
  Notation sline := (subst_line read reader base).
  Notation sby := (subst_by read reader base).

  (* "the include tree below [text] is complete and at most [budget] files deep" *)
  Fixpoint depth_le (budget : nat) (text : str) {struct budget} : Prop :=
    Forall (fun l =>
              match reader l with
              | None => True
              | Some r =>
                  match budget with
                  | O => False
                  | S b => exists name t, r = Ok name /\ read (locate base name) = Some t /\ depth_le b t
                  end
              end) (lines_of text).

  Lemma depth_le_eq budget text :
    depth_le budget text =
    Forall (fun l =>
              match reader l with
              | None => True
              | Some r =>
                  match budget with
                  | O => False
                  | S b => exists name t, r = Ok name /\ read (locate base name) = Some t /\ depth_le b t
                  end
              end) (lines_of text).
  Proof. destruct budget; reflexivity. Qed.

  (* expansion succeeds exactly on complete include trees of depth <= budget *)
  Theorem subst_by_Ok_iff : forall budget text, (exists out, sby budget text = Ok out) <-> depth_le budget text.
  Proof.
    induction budget as [|b IH]; intros text; rewrite subst_by_eq, depth_le_eq.
    - split.
      + intros (out & H). destruct (mapM _ _) as [ls|e] eqn:E; cbn [bind] in H; [|discriminate].
        assert (HF : exists r, mapM (sline 0) (lines_of text) = Ok r) by (exists ls; exact E).
        apply mapM_Ok_iff in HF. eapply Forall_impl; [|exact HF].
        intros l (y & Hy). unfold subst_line in Hy. destruct (reader l); [discriminate|exact I].
      + intros H. assert (HF : exists r, mapM (sline 0) (lines_of text) = Ok r).
        { apply mapM_Ok_iff. eapply Forall_impl; [|exact H]. intros l. unfold subst_line.
          destruct (reader l); intros Hl; [contradiction|]. exists l. reflexivity. }
        destruct HF as (r & Hr). rewrite Hr. cbn [bind]. eexists. reflexivity.
    - split.
      + intros (out & H). destruct (mapM _ _) as [ls|e] eqn:E; cbn [bind] in H; [|discriminate].
        assert (HF : exists r, mapM (sline (S b)) (lines_of text) = Ok r) by (exists ls; exact E).
        apply mapM_Ok_iff in HF. eapply Forall_impl; [|exact HF].
        intros l (y & Hy). unfold subst_line in Hy. destruct (reader l) as [r|]; [|exact I].
        destruct r as [name|e]; cbn [bind] in Hy; [|discriminate].
        destruct (read (locate base name)) as [t|] eqn:Er; [|discriminate].
        exists name, t. split; [reflexivity|]. split; [exact Er|]. apply IH. exists y. exact Hy.
      + intros H. assert (HF : exists r, mapM (sline (S b)) (lines_of text) = Ok r).
        { apply mapM_Ok_iff. eapply Forall_impl; [|exact H]. intros l. unfold subst_line.
          destruct (reader l) as [r|]; intros Hl; [|exists l; reflexivity].
          destruct Hl as (name & t & -> & Hr & Hd). cbn [bind]. rewrite Hr. apply IH. exact Hd. }
        destruct HF as (r & Hr). rewrite Hr. cbn [bind]. eexists. reflexivity.
  Qed.

  (* which errors there are *)
  Theorem subst_by_errors : forall budget text e,
      sby budget text = Err e ->
      e = PyValueError \/ e = PyIOError \/ exists l, reader l = Some (Err e).
  Proof.
    induction budget as [|b IH]; intros text e; rewrite subst_by_eq;
      destruct (mapM _ _) as [ls|e'] eqn:E; cbn [bind]; try discriminate; intros [= ->];
      apply mapM_Err in E; destruct E as (l & _ & Hl); unfold subst_line in Hl;
      destruct (reader l) as [r|] eqn:Er; try discriminate.
    - left. congruence.
    - destruct r as [name|e']; cbn [bind] in Hl.
      + destruct (read (locate base name)) as [t|]; [apply (IH t e Hl)|]. right; left. congruence.
      + right; right. exists l. congruence.
  Qed.

  (* an I/O error means some directive named a location without a file *)
  Theorem subst_by_IOError : forall budget text,
      sby budget text = Err PyIOError ->
      (exists name, read (locate base name) = None) \/ exists l, reader l = Some (Err PyIOError).
  Proof.
    induction budget as [|b IH]; intros text; rewrite subst_by_eq;
      destruct (mapM _ _) as [ls|e'] eqn:E; cbn [bind]; try discriminate; intros [= ->];
      apply mapM_Err in E; destruct E as (l & _ & Hl); unfold subst_line in Hl;
      destruct (reader l) as [r|] eqn:Er; try discriminate.
    destruct r as [name|e']; cbn [bind] in Hl.
    - destruct (read (locate base name)) as [t|] eqn:Et; [apply (IH t Hl)|]. left. exists name. exact Et.
    - right. exists l. congruence.
  Qed.

  (* how each error arises: the first line that fails decides *)
  Definition line_fine (budget : nat) (l : str) : Prop := exists y, sline budget l = Ok y.

  Theorem directive_below_budget_is_ValueError text pre l post r :
    lines_of text = pre ++ l :: post -> Forall (line_fine 0) pre -> reader l = Some r ->
    sby 0 text = Err PyValueError.
  Proof.
    intros Hl Hpre Hr. rewrite subst_by_eq, Hl.
    rewrite (mapM_first_Err _ pre l post PyValueError); [reflexivity|exact Hpre|].
    unfold subst_line. rewrite Hr. reflexivity.
  Qed.

  Theorem missing_file_is_IOError b text pre l post name :
    lines_of text = pre ++ l :: post -> Forall (line_fine (S b)) pre ->
    reader l = Some (Ok name) -> read (locate base name) = None ->
    sby (S b) text = Err PyIOError.
  Proof.
    intros Hl Hpre Hr Hm. rewrite subst_by_eq, Hl.
    rewrite (mapM_first_Err _ pre l post PyIOError); [reflexivity|exact Hpre|].
    unfold subst_line. rewrite Hr. cbn [bind]. rewrite Hm. reflexivity.
  Qed.

  Theorem nested_error_propagates b text pre l post name t e :
    lines_of text = pre ++ l :: post -> Forall (line_fine (S b)) pre ->
    reader l = Some (Ok name) -> read (locate base name) = Some t -> sby b t = Err e ->
    sby (S b) text = Err e.
  Proof.
    intros Hl Hpre Hr Ht He. rewrite subst_by_eq, Hl.
    rewrite (mapM_first_Err _ pre l post e); [reflexivity|exact Hpre|].
    unfold subst_line. rewrite Hr. cbn [bind]. rewrite Ht. exact He.
  Qed.

  (* chains of directives: [has_chain k text] = some directive of text names a
     file that has a chain of k - 1, ... *)
  Fixpoint has_chain (k : nat) (text : str) {struct k} : Prop :=
    match k with
    | O => True
    | S k' => exists l r, In l (lines_of text) /\ reader l = Some r /\
                          forall name t, r = Ok name -> read (locate base name) = Some t -> has_chain k' t
    end.

  Theorem chain_exceeds_budget : forall budget text,
      has_chain (S budget) text -> forall out, sby budget text <> Ok out.
  Proof.
    induction budget as [|b IH]; intros text (l & r & Hin & Hr & Hnext) out Hout.
    - assert (Hd : depth_le 0 text) by (apply subst_by_Ok_iff; exists out; exact Hout).
      rewrite depth_le_eq, Forall_forall in Hd. specialize (Hd l Hin). rewrite Hr in Hd. exact Hd.
    - assert (Hd : depth_le (S b) text) by (apply subst_by_Ok_iff; exists out; exact Hout).
      rewrite depth_le_eq, Forall_forall in Hd. specialize (Hd l Hin). rewrite Hr in Hd.
      destruct Hd as (name & t & -> & Ht & Hdt).
      apply subst_by_Ok_iff in Hdt. destruct Hdt as (o & Ho).
      exact (IH t (Hnext name t eq_refl Ht) o Ho).
  Qed.

  (* cyclic inclusion: chains of every length *)
  Definition cyclic (text : str) : Prop := forall k, has_chain k text.

  Theorem cyclic_never_expands text : cyclic text -> forall budget out, sby budget text <> Ok out.
  Proof. intros Hc budget. apply chain_exceeds_budget. apply Hc. Qed.

  (* a file that includes itself is cyclic *)
  Theorem self_include_cyclic text l name :
    In l (lines_of text) -> reader l = Some (Ok name) -> read (locate base name) = Some text ->
    cyclic text.
  Proof.
    intros Hin Hr Ht k. induction k as [|k IH]; [exact I|].
    exists l, (Ok name). split; [exact Hin|]. split; [exact Hr|].
    intros name' t' [= <-] Ht'. rewrite Ht in Ht'. injection Ht' as <-. exact IH.
  Qed.

  (* two files that include each other are cyclic *)
  Theorem mutual_include_cyclic ta tb la lb na nb :
    In la (lines_of ta) -> reader la = Some (Ok nb) -> read (locate base nb) = Some tb ->
    In lb (lines_of tb) -> reader lb = Some (Ok na) -> read (locate base na) = Some ta ->
    cyclic ta.
  Proof.
    intros Ha Hra Htb Hb Hrb Hta.
    assert (H : forall k, has_chain k ta /\ has_chain k tb).
    { induction k as [|k [IHa IHb]]; [split; exact I|]. split.
      - exists la, (Ok nb). split; [exact Ha|]. split; [exact Hra|].
        intros n t [= <-] Ht. rewrite Htb in Ht. injection Ht as <-. exact IHb.
      - exists lb, (Ok na). split; [exact Hb|]. split; [exact Hrb|].
        intros n t [= <-] Ht. rewrite Hta in Ht. injection Ht as <-. exact IHa. }
    intros k. apply H.
  Qed.

  (* ---------------------------------------------------------------- *)
  (* F. the expansion contains no directive: expanding again changes    *)
  (*    nothing                                                         *)
  (* ---------------------------------------------------------------- *)
  Lemma mapM_lines_nonnil {B} (f : str -> res B) text ls : mapM f (lines_of text) = Ok ls -> ls <> [].
  Proof.
    intros E Hn. apply mapM_length in E. rewrite lines_of_split, Hn in E.
    destruct (split_char c_nl text) eqn:E2; [eapply split_char_nonnil; eassumption|discriminate].
  Qed.

  Lemma line_in_text_no_nl text x : In x (lines_of text) -> contains_char c_nl x = false.
  Proof.
    rewrite lines_of_split. intros Hin.
    pose proof (split_char_pieces_nosep c_nl text) as H. rewrite Forall_forall in H. exact (H x Hin).
  Qed.

  Theorem subst_by_output_directive_free : forall budget text out,
      sby budget text = Ok out -> Forall (fun l => reader l = None) (lines_of out).
  Proof.
    induction budget as [|b IH]; intros text out; rewrite subst_by_eq;
      destruct (mapM _ _) as [ls|e] eqn:E; cbn [bind]; try discriminate; intros [= <-];
      rewrite unlines_join, lines_of_split;
      rewrite split_char_join by exact (mapM_lines_nonnil _ _ _ E);
      apply mapM_Forall2 in E;
      (eapply Forall2_flat_map; [exact E|]); intros x y Hin Hxy; cbn beta in Hxy;
      apply line_in_text_no_nl in Hin; unfold subst_line in Hxy;
      destruct (reader x) as [r|] eqn:Er.
    - discriminate.
    - injection Hxy as <-. rewrite split_char_no_sep by exact Hin. constructor; [exact Er|constructor].
    - destruct r as [name|e]; cbn [bind] in Hxy; [|discriminate].
      destruct (read (locate base name)) as [t|]; [|discriminate].
      rewrite <- lines_of_split. exact (IH t y Hxy).
    - injection Hxy as <-. rewrite split_char_no_sep by exact Hin. constructor; [exact Er|constructor].
  Qed.

  Theorem subst_by_identity_on_directive_free budget text :
    Forall (fun l => reader l = None) (lines_of text) -> sby budget text = Ok text.
  Proof.
    intros H. rewrite subst_by_eq. rewrite mapM_id_on.
    - cbn [bind]. rewrite unlines_join, lines_of_split, join_split_char. reflexivity.
    - intros l Hl. rewrite Forall_forall in H. unfold subst_line. rewrite (H l Hl). reflexivity.
  Qed.
End Depth.

(* the model on a text without lines that start with include: untouched,
   whatever the file system, working directory and file name *)
Theorem load_includes_identity_on_directive_free fs cwd text fn :
  Forall (fun l => starts_include l = false) (split_char c_nl text) ->
  load_includes fs cwd text fn = Ok text.
Proof.
  intros H. unfold load_includes. rewrite load_includes_fuel_step, mapM_id_on.
  - cbn [bind]. rewrite join_split_char. reflexivity.
  - intros l Hl. rewrite Forall_forall in H. unfold expand_line. rewrite (H l Hl). reflexivity.
Qed.

Lemma code_reader_None l : code_reader l = None <-> starts_include l = false.
Proof. unfold code_reader. destruct (starts_include l); split; congruence. Qed.

(* open(root) and loads(flattened): the LALR parser receives the same text *)
Theorem expansion_is_fixed_point fs cwd text fn flat :
  isabs cwd = true ->
  load_includes fs cwd text fn = Ok flat ->
  forall fs' cwd' fn', load_includes fs' cwd' flat fn' = Ok flat.
Proof.
  intros Hcwd H fs' cwd' fn'. rewrite includes_are_substitution_by_code_reader in H by exact Hcwd.
  apply subst_by_output_directive_free in H. rewrite lines_of_split in H.
  apply load_includes_identity_on_directive_free.
  eapply Forall_impl; [|exact H]. intros l. apply code_reader_None.
Qed.

(* ================================================================== *)
(* G. the code's line reader against the specification's directive     *)
(* ================================================================== *)

(* ---- strip ---- *)
Lemma skip_lstrip f s : skip f s = lstrip_by f s.
Proof. induction s as [|c s IH]; [reflexivity|]. cbn [skip lstrip_by]. rewrite IH. reflexivity. Qed.

Lemma lstrip_by_snoc f a x :
  lstrip_by f (a ++ [x]) =
    if is_nil (lstrip_by f a) then (if f x then [] else [x]) else lstrip_by f a ++ [x].
Proof.
  induction a as [|c a IH]; [reflexivity|]. cbn [app lstrip_by].
  destruct (f c); [exact IH|reflexivity].
Qed.

Lemma rstrip_by_cons f x s :
  rstrip_by f (x :: s) = if is_nil (rstrip_by f s) && f x then [] else x :: rstrip_by f s.
Proof.
  unfold rstrip_by. cbn [rev]. rewrite lstrip_by_snoc.
  destruct (lstrip_by f (rev s)) as [|y r] eqn:E; cbn [is_nil rev andb].
  - destruct (f x); reflexivity.
  - rewrite rev_app_distr. cbn [rev app]. destruct (rev r); reflexivity.
Qed.

Lemma rstrip_by_cons_keep f x s : f x = false -> rstrip_by f (x :: s) = x :: rstrip_by f s.
Proof. intros H. rewrite rstrip_by_cons, H, andb_false_r. reflexivity. Qed.

Lemma rstrip_by_app_keep f w s :
  Forall (fun c => f c = false) w -> rstrip_by f (w ++ s) = w ++ rstrip_by f s.
Proof.
  induction w as [|c w IH]; intros H; [reflexivity|]. inversion H; subst.
  cbn [app]. rewrite rstrip_by_cons_keep, IH by assumption. reflexivity.
Qed.

Lemma rstrip_by_all f b : forallb f b = true -> rstrip_by f b = [].
Proof.
  induction b as [|c b IH]; [reflexivity|]. cbn [forallb]. intros H.
  apply andb_true_iff in H. destruct H as [Hc Hb]. rewrite rstrip_by_cons, IH, Hc by assumption. reflexivity.
Qed.

Lemma rstrip_by_snoc_keep f s y : f y = false -> rstrip_by f (s ++ [y]) = s ++ [y].
Proof.
  intros H. unfold rstrip_by. rewrite rev_app_distr. cbn [rev app lstrip_by]. rewrite H.
  cbn [rev]. rewrite rev_involutive. reflexivity.
Qed.

Lemma lstrip_by_all f b s : forallb f b = true -> lstrip_by f (b ++ s) = lstrip_by f s.
Proof.
  induction b as [|c b IH]; [reflexivity|]. cbn [forallb app lstrip_by]. intros H.
  apply andb_true_iff in H. destruct H as [Hc Hb]. rewrite Hc. apply IH. exact Hb.
Qed.

Lemma forallb_rev {A} (f : A -> bool) l : forallb f (rev l) = forallb f l.
Proof.
  induction l as [|x l IH]; [reflexivity|]. cbn [rev forallb].
  rewrite forallb_app, IH. cbn [forallb]. rewrite andb_true_r. apply andb_comm.
Qed.

Lemma rstrip_by_app_keep_last f m y b :
  f y = false -> forallb f b = true -> rstrip_by f (m ++ y :: b) = m ++ [y].
Proof.
  intros Hy Hb. unfold rstrip_by. rewrite rev_app_distr. cbn [rev]. rewrite <- app_assoc. cbn [app].
  rewrite lstrip_by_all by (rewrite forallb_rev; exact Hb).
  cbn [lstrip_by]. rewrite Hy. cbn [rev]. rewrite rev_involutive. reflexivity.
Qed.

(* stripping a string whose first and last characters stay *)
Lemma strip_by_noop f s :
  match s with [] => True | x :: _ => f x = false /\ f (last s 0) = false end -> strip_by f s = s.
Proof.
  destruct s as [|x s]; [reflexivity|]. intros [Hx Hl]. unfold strip_by. cbn [lstrip_by]. rewrite Hx.
  assert (Hne : x :: s <> []) by discriminate.
  pose proof (app_removelast_last 0 Hne) as Hs.
  set (m := removelast (x :: s)) in *. set (y := last (x :: s) 0) in *.
  rewrite Hs. apply rstrip_by_snoc_keep. exact Hl.
Qed.

(* stripping the enclosing pair of quotes *)
Lemma strip_by_enclosed f q n :
  f q = true ->
  match n with [] => True | x :: _ => f x = false /\ f (last n 0) = false end ->
  strip_by f (q :: n ++ [q]) = n.
Proof.
  intros Hq Hn. unfold strip_by. cbn [lstrip_by]. rewrite Hq.
  destruct n as [|x n]; [cbn; rewrite Hq; reflexivity|]. destruct Hn as [Hx Hl].
  cbn [app lstrip_by]. rewrite Hx.
  change (x :: n ++ [q]) with ((x :: n) ++ [q]).
  assert (Hne : x :: n <> []) by discriminate.
  pose proof (app_removelast_last 0 Hne) as Hs.
  set (m := removelast (x :: n)) in *. set (y := last (x :: n) 0) in *.
  rewrite Hs, <- app_assoc. cbn [app].
  apply rstrip_by_app_keep_last; [exact Hl|cbn; rewrite Hq; reflexivity].
Qed.

(* ---- split() ---- *)
Definition all_blank (b : str) : Prop := forallb isspace b = true.
Definition is_word (u : str) : Prop := u <> [] /\ Forall (fun c => isspace c = false) u.
Definition starts_blank_or_nil (s : str) : Prop :=
  match s with [] => True | c :: _ => isspace c = true end.

Lemma split_ws_blank b s : all_blank b -> split_ws (b ++ s) = split_ws s.
Proof.
  unfold all_blank. induction b as [|c b IH]; [reflexivity|]. cbn [forallb app split_ws]. intros H.
  apply andb_true_iff in H. destruct H as [Hc Hb]. rewrite Hc. apply IH. exact Hb.
Qed.

Lemma split_ws_all_blank b : all_blank b -> split_ws b = [].
Proof. intros H. rewrite <- (app_nil_r b), split_ws_blank by exact H. reflexivity. Qed.

Lemma split_ws_word u s :
  is_word u -> starts_blank_or_nil s -> split_ws (u ++ s) = u :: split_ws s.
Proof.
  intros [Hne Hu] Hs. induction u as [|c u IH]; [congruence|]. clear Hne.
  inversion Hu as [|? ? Hc Hu']; subst. cbn [app]. destruct u as [|c2 u].
  - cbn [app]. destruct s as [|c' s'].
    + cbn [split_ws]. rewrite Hc. reflexivity.
    + cbn [starts_blank_or_nil] in Hs. cbn [split_ws]. rewrite Hc, Hs. reflexivity.
  - specialize (IH ltac:(discriminate) Hu'). cbn [app] in *.
    inversion Hu' as [|? ? Hc2 _]; subst.
    change (split_ws (c :: c2 :: u ++ s)) with
      (if isspace c then split_ws (c2 :: u ++ s)
       else if isspace c2 then [c] :: split_ws (c2 :: u ++ s)
            else match split_ws (c2 :: u ++ s) with w :: r => (c :: w) :: r | [] => [[c]] end).
    rewrite Hc, Hc2, IH. reflexivity.
Qed.

(* ---- the part of a line before the first hash sign ---- *)
Definition before_hash (line : str) : str :=
  if contains_char c_hash line then hd [] (split_char c_hash line) else line.

Lemma contains_char_app c a b : contains_char c (a ++ b) = contains_char c a || contains_char c b.
Proof. unfold contains_char. apply existsb_app. Qed.

Lemma before_hash_no_hash p : contains_char c_hash p = false -> before_hash p = p.
Proof. intros H. unfold before_hash. rewrite H. reflexivity. Qed.

Lemma before_hash_app_hash p c : contains_char c_hash p = false -> before_hash (p ++ c_hash :: c) = p.
Proof.
  intros H. unfold before_hash. rewrite contains_char_app. unfold contains_char at 2. cbn [existsb].
  rewrite N.eqb_refl, orb_true_r. rewrite split_char_app_sep', split_char_no_sep by exact H.
  reflexivity.
Qed.

Lemma get_include_filename_eq l :
  get_include_filename l =
    match nth_error (split_ws (before_hash l)) 1 with
    | None => Err PyIndexError
    | Some p => Ok (strip_char c_dquote (strip_char c_squote p))
    end.
Proof. reflexivity. Qed.

Definition no_hash (s : str) : Prop := contains_char c_hash s = false.

Lemma no_hash_app a b : no_hash a -> no_hash b -> no_hash (a ++ b).
Proof. unfold no_hash. intros Ha Hb. rewrite contains_char_app, Ha, Hb. reflexivity. Qed.

Lemma all_blank_no_hash b : all_blank b -> no_hash b.
Proof.
  unfold all_blank, no_hash, contains_char. induction b as [|c b IH]; [reflexivity|].
  cbn [forallb existsb]. intros H. apply andb_true_iff in H. destruct H as [Hc Hb].
  rewrite IH by exact Hb. rewrite orb_false_r.
  destruct (N.eqb_spec c_hash c) as [<-|]; [discriminate Hc|reflexivity].
Qed.

(* the shape of a well-formed INCLUDE line and what the code extracts from it:
   blanks, keyword, blanks, one token, blanks, optionally a comment *)
Lemma extraction_on_shape b1 w b2 tok b3 tail :
  all_blank b1 -> is_word w -> no_hash w -> all_blank b2 -> b2 <> [] ->
  is_word tok -> no_hash tok -> all_blank b3 ->
  (tail = [] \/ exists c, tail = c_hash :: c) ->
  get_include_filename (b1 ++ w ++ b2 ++ tok ++ b3 ++ tail) =
    Ok (strip_char c_dquote (strip_char c_squote tok)).
Proof.
  intros Hb1 Hw Hwh Hb2 Hb2n Htok Htokh Hb3 Htail.
  rewrite get_include_filename_eq.
  assert (Hpre : before_hash (b1 ++ w ++ b2 ++ tok ++ b3 ++ tail) = b1 ++ w ++ b2 ++ tok ++ b3).
  { assert (Hnh : no_hash (b1 ++ w ++ b2 ++ tok ++ b3)).
    { repeat apply no_hash_app; auto using all_blank_no_hash. }
    destruct Htail as [->|(c & ->)].
    - rewrite app_nil_r. apply before_hash_no_hash. exact Hnh.
    - replace (b1 ++ w ++ b2 ++ tok ++ b3 ++ c_hash :: c)
        with ((b1 ++ w ++ b2 ++ tok ++ b3) ++ c_hash :: c) by (rewrite <- !app_assoc; reflexivity).
      apply before_hash_app_hash. exact Hnh. }
  rewrite Hpre. rewrite split_ws_blank by exact Hb1.
  rewrite split_ws_word; [|exact Hw|].
  2:{ destruct b2 as [|c b2]; [congruence|]. cbn [app starts_blank_or_nil].
      unfold all_blank in Hb2. cbn [forallb] in Hb2. apply andb_true_iff in Hb2. tauto. }
  rewrite split_ws_blank by exact Hb2.
  rewrite split_ws_word; [|exact Htok|].
  2:{ destruct b3 as [|c b3]; [exact I|]. cbn [starts_blank_or_nil].
      unfold all_blank in Hb3. cbn [forallb] in Hb3. apply andb_true_iff in Hb3. tauto. }
  reflexivity.
Qed.

(* ---- names for which quoting does not matter ---- *)
Definition plain_char (c : N) : bool := negb (isspace c) && negb (c =? c_hash).
Definition ends_ok (n : str) : bool :=
  match n with
  | [] => true
  | x :: _ => negb (is_quote x) && negb (is_quote (last n 0))
  end.
Definition name_ok (n : str) : bool := forallb plain_char n && ends_ok n.

Lemma forallb_plain_word n : forallb plain_char n = true -> Forall (fun c => isspace c = false) n /\ no_hash n.
Proof.
  unfold no_hash, contains_char. induction n as [|c n IH]; [split; [constructor|reflexivity]|].
  cbn [forallb existsb]. intros H. apply andb_true_iff in H. destruct H as [Hc Hn].
  unfold plain_char in Hc. apply andb_true_iff in Hc. destruct Hc as [H1 H2].
  apply negb_true_iff in H1, H2. destruct (IH Hn) as [IH1 IH2]. split.
  - constructor; assumption.
  - rewrite IH2, orb_false_r, N.eqb_sym. exact H2.
Qed.

Lemma ends_ok_quote n q :
  ends_ok n = true -> is_quote q = true ->
  match n with [] => True | x :: _ => N.eqb q x = false /\ N.eqb q (last n 0) = false end.
Proof.
  destruct n as [|x n]; [intros; exact I|]. unfold ends_ok. intros H Hq.
  apply andb_true_iff in H. destruct H as [H1 H2]. apply negb_true_iff in H1, H2.
  split.
  - destruct (N.eqb_spec q x) as [<-|]; [congruence|reflexivity].
  - destruct (N.eqb_spec q (last (x :: n) 0)) as [E|]; [rewrite <- E in H2; congruence|reflexivity].
Qed.

Lemma strip_quotes_bare n : ends_ok n = true ->
  strip_char c_dquote (strip_char c_squote n) = n.
Proof.
  intros H. unfold strip_char.
  rewrite (strip_by_noop (N.eqb c_squote) n) by (apply ends_ok_quote; [exact H|reflexivity]).
  apply strip_by_noop. apply ends_ok_quote; [exact H|reflexivity].
Qed.

Lemma last_enclosed (q : N) n : last (q :: n ++ [q]) 0 = q.
Proof. change (q :: n ++ [q]) with ((q :: n) ++ [q]). apply last_last. Qed.

Lemma strip_quotes_dquoted n : ends_ok n = true ->
  strip_char c_dquote (strip_char c_squote (c_dquote :: n ++ [c_dquote])) = n.
Proof.
  intros H. unfold strip_char.
  rewrite (strip_by_noop (N.eqb c_squote)).
  - apply strip_by_enclosed; [reflexivity|]. apply ends_ok_quote; [exact H|reflexivity].
  - rewrite last_enclosed. split; reflexivity.
Qed.

Lemma strip_quotes_squoted n : ends_ok n = true ->
  strip_char c_dquote (strip_char c_squote (c_squote :: n ++ [c_squote])) = n.
Proof.
  intros H. unfold strip_char.
  rewrite (strip_by_enclosed (N.eqb c_squote)); [|reflexivity|apply ends_ok_quote; [exact H|reflexivity]].
  apply strip_by_noop. apply ends_ok_quote; [exact H|reflexivity].
Qed.

(* how a name is written on the line *)
Inductive quoting := Bare | DQuoted | SQuoted.
Definition written (q : quoting) (n : str) : str :=
  match q with
  | Bare => n
  | DQuoted => c_dquote :: n ++ [c_dquote]
  | SQuoted => c_squote :: n ++ [c_squote]
  end.

(* neither the kind of quotes nor a trailing comment nor the amount of white
   space matters for the extracted name *)
Theorem filename_extraction b1 w b2 q n b3 tail :
  all_blank b1 -> is_word w -> no_hash w -> all_blank b2 -> b2 <> [] -> all_blank b3 ->
  (tail = [] \/ exists c, tail = c_hash :: c) ->
  name_ok n = true -> (q = Bare -> n <> []) ->
  get_include_filename (b1 ++ w ++ b2 ++ written q n ++ b3 ++ tail) = Ok n.
Proof.
  intros Hb1 Hw Hwh Hb2 Hb2n Hb3 Htail Hn Hbare.
  unfold name_ok in Hn. apply andb_true_iff in Hn. destruct Hn as [Hplain Hends].
  destruct (forallb_plain_word n Hplain) as [Hword Hnh].
  assert (Htok : is_word (written q n) /\ no_hash (written q n)).
  { destruct q; cbn [written].
    - split; [split; [apply Hbare; reflexivity|exact Hword]|exact Hnh].
    - split.
      + split; [discriminate|]. constructor; [reflexivity|]. apply Forall_app. split; [exact Hword|].
        constructor; [reflexivity|constructor].
      + change (c_dquote :: n ++ [c_dquote]) with ([c_dquote] ++ n ++ [c_dquote]).
        repeat apply no_hash_app; try exact Hnh; reflexivity.
    - split.
      + split; [discriminate|]. constructor; [reflexivity|]. apply Forall_app. split; [exact Hword|].
        constructor; [reflexivity|constructor].
      + change (c_squote :: n ++ [c_squote]) with ([c_squote] ++ n ++ [c_squote]).
        repeat apply no_hash_app; try exact Hnh; reflexivity. }
  destruct Htok as [Htok Htokh].
  rewrite extraction_on_shape by assumption. f_equal.
  destruct q; cbn [written].
  - apply strip_quotes_bare. exact Hends.
  - apply strip_quotes_dquoted. exact Hends.
  - apply strip_quotes_squoted. exact Hends.
Qed.

(* ---- reading the specification's directive function ---- *)
Lemma skip_spec s :
  exists b, s = b ++ skip isspace s /\ all_blank b /\
            match skip isspace s with [] => True | c :: _ => isspace c = false end.
Proof.
  unfold all_blank. induction s as [|c s IH]; [exists []; repeat split|].
  cbn [skip]. destruct (isspace c) eqn:E.
  - destruct IH as (b & Hs & Hb & Hh). exists (c :: b). repeat split.
    + cbn [app]. rewrite <- Hs. reflexivity.
    + cbn [forallb]. rewrite E, Hb. reflexivity.
    + exact Hh.
  - exists []. repeat split. exact E.
Qed.

Lemma until_spec stop s a b :
  until stop s = (a, b) ->
  s = a ++ b /\ Forall (fun c => stop c = false) a /\
  match b with [] => True | c :: _ => stop c = true end.
Proof.
  revert a b; induction s as [|c s IH]; intros a b; cbn [until].
  - intros [= <- <-]. repeat split. constructor.
  - destruct (stop c) eqn:E.
    + intros [= <- <-]. repeat split; [constructor|exact E].
    + destruct (until stop s) as [a' b'] eqn:Eu. intros [= <- <-].
      destruct (IH a' b' eq_refl) as (Hs & Ha & Hb). repeat split.
      * cbn [app]. rewrite <- Hs. reflexivity.
      * constructor; assumption.
      * exact Hb.
Qed.

Lemma isspace_printable c : 33 <= c <= 126 -> isspace c = false.
Proof.
  intros H. unfold isspace, py_whitespace. cbn [existsb].
  repeat match goal with
         | |- context [c =? ?k] => replace (c =? k) with false by (symmetry; apply N.eqb_neq; lia)
         end.
  reflexivity.
Qed.

Lemma lower_cp_letter c x :
  97 <= x <= 122 -> (c =? x) || (c + 32 =? x) = true -> lower_cp c = [x] /\ 65 <= c <= 122.
Proof.
  intros Hx H. apply orb_true_iff in H. unfold lower_cp, case_cp, lower_ascii.
  destruct H as [H|H]; apply N.eqb_eq in H.
  - subst c. assert (E1 : x <? 128 = true) by (apply N.ltb_lt; lia). rewrite E1.
    assert (E2 : x <=? 90 = false) by (apply N.leb_gt; lia). rewrite E2, andb_false_r.
    split; [reflexivity|lia].
  - assert (E1 : c <? 128 = true) by (apply N.ltb_lt; lia). rewrite E1.
    assert (E2 : 65 <=? c = true) by (apply N.leb_le; lia).
    assert (E3 : c <=? 90 = true) by (apply N.leb_le; lia). rewrite E2, E3. cbn [andb].
    split; [rewrite H; reflexivity|lia].
Qed.

Lemma after_word_spec w :
  Forall (fun x => 97 <= x <= 122) w ->
  forall s after, after_word w s = Some after ->
    exists p, s = p ++ after /\ lower p = w /\ Forall (fun c => isspace c = false) p /\
              no_hash p /\ length p = length w.
Proof.
  unfold no_hash, contains_char.
  induction 1 as [|x w Hx Hw IH]; intros s after; cbn [after_word].
  - intros [= <-]. exists []. repeat split. constructor.
  - destruct s as [|c s]; [discriminate|].
    destruct ((c =? x) || (c + 32 =? x)) eqn:E; [|discriminate]. intros Ha.
    destruct (IH s after Ha) as (p & Hs & Hl & Hsp & Hh & Hlen).
    destruct (lower_cp_letter c x Hx E) as [Hlc Hc].
    exists (c :: p). repeat split.
    + cbn [app]. rewrite <- Hs. reflexivity.
    + unfold lower in *. cbn [flat_map]. rewrite Hlc, Hl. reflexivity.
    + constructor; [apply isspace_printable; lia|exact Hsp].
    + cbn [existsb]. rewrite Hh, orb_false_r. apply N.eqb_neq. unfold c_hash. lia.
    + cbn [length]. rewrite Hlen. reflexivity.
Qed.

Lemma word_include_letters : Forall (fun x => 97 <= x <= 122) word_include.
Proof. unfold word_include. repeat constructor; lia. Qed.

Lemma word_include_kw : word_include = kw_include.
Proof. reflexivity. Qed.

Lemma kw_include_Str : kw_include = Str "include".
Proof. reflexivity. Qed.

Lemma comment_or_end_shape rest :
  comment_or_end isspace rest = true ->
  exists b3 tail, rest = b3 ++ tail /\ all_blank b3 /\ (tail = [] \/ exists c, tail = c_hash :: c).
Proof.
  unfold comment_or_end. destruct (skip_spec rest) as (b & Hs & Hb & _).
  destruct (skip isspace rest) as [|c r] eqn:E; intros H.
  - exists b, []. repeat split; [exact Hs|exact Hb|left; reflexivity].
  - exists b, (c :: r). repeat split; [exact Hs|exact Hb|]. right.
    unfold is_hash in H. apply N.eqb_eq in H. subst c. exists r. reflexivity.
Qed.

(* a directive line has the shape of [filename_extraction] *)
Lemma directive_shape l n :
  directive isspace l = Some n ->
  exists b1 w b2 q b3 tail,
    l = b1 ++ w ++ b2 ++ written q n ++ b3 ++ tail /\
    all_blank b1 /\ is_word w /\ no_hash w /\ lower w = kw_include /\
    all_blank b2 /\ b2 <> [] /\ all_blank b3 /\
    (tail = [] \/ exists c, tail = c_hash :: c) /\
    (q = Bare -> n <> [] /\ forallb plain_char n = true /\
                 match n with x :: _ => is_quote x = false | [] => True end).
Proof.
  unfold directive. destruct (skip_spec l) as (b1 & Hl & Hb1 & _).
  destruct (after_word word_include (skip isspace l)) as [after|] eqn:Ea; [|discriminate].
  destruct (after_word_spec _ word_include_letters _ _ Ea) as (w & Hw & Hlow & Hwsp & Hwh & Hwlen).
  destruct after as [|b after']; [discriminate|].
  destruct (isspace b) eqn:Eb; cbn [negb]; [|discriminate].
  destruct (skip_spec (b :: after')) as (b2 & H2 & Hb2 & Hq).
  destruct (skip isspace (b :: after')) as [|q r] eqn:Es; [discriminate|].
  assert (Hb2n : b2 <> []).
  { intros ->. cbn [app] in H2. injection H2 as -> _. rewrite Hq in Eb. discriminate. }
  assert (Hwword : is_word w).
  { split; [|exact Hwsp]. intros ->. discriminate Hwlen. }
  destruct (is_quote q) eqn:Equote.
  - destruct (until (N.eqb q) r) as [name rest] eqn:Eu.
    destruct (until_spec _ _ _ _ Eu) as (Hr & Hname & Hrest).
    destruct rest as [|q' rest']; [discriminate|].
    destruct (comment_or_end isspace rest') eqn:Ec; [|discriminate]. intros [= <-].
    apply N.eqb_eq in Hrest. subst q'.
    destruct (comment_or_end_shape rest' Ec) as (b3 & tail & Hrest' & Hb3 & Htail).
    assert (Hqq : q = c_dquote \/ q = c_squote).
    { unfold is_quote in Equote. apply orb_true_iff in Equote.
      destruct Equote as [E|E]; apply N.eqb_eq in E; [left|right]; exact E. }
    assert (Hlow' : lower w = kw_include) by (rewrite <- word_include_kw; exact Hlow).
    exists b1, w, b2, (if q =? c_dquote then DQuoted else SQuoted), b3, tail.
    split; [|split; [exact Hb1|split; [exact Hwword|split; [exact Hwh|split; [exact Hlow'|
      split; [exact Hb2|split; [exact Hb2n|split; [exact Hb3|split; [exact Htail|]]]]]]]]].
    + rewrite Hl at 1. rewrite Hw, H2, Hr, Hrest'. rewrite <- ?app_assoc.
      destruct Hqq as [-> | ->];
        [change (c_dquote =? c_dquote) with true|change (c_squote =? c_dquote) with false];
        cbn [written app]; rewrite <- ?app_assoc; reflexivity.
    + destruct Hqq as [-> | ->];
        [change (c_dquote =? c_dquote) with true|change (c_squote =? c_dquote) with false];
        discriminate.
  - destruct (is_hash q) eqn:Ehash; [discriminate|].
    destruct (until (fun c => isspace c || is_hash c) (q :: r)) as [name rest] eqn:Eu.
    destruct (until_spec _ _ _ _ Eu) as (Hr & Hname & Hrest).
    destruct (comment_or_end isspace rest) eqn:Ec; [|discriminate]. intros [= <-].
    destruct (comment_or_end_shape rest Ec) as (b3 & tail & Hrest' & Hb3 & Htail).
    assert (Hn0 : exists name', name = q :: name').
    { cbn [until] in Eu. rewrite Hq, Ehash in Eu. cbn [orb] in Eu.
      destruct (until _ r) as [a' b']. injection Eu as <- _. eexists. reflexivity. }
    destruct Hn0 as (name' & ->).
    assert (Hlow' : lower w = kw_include) by (rewrite <- word_include_kw; exact Hlow).
    exists b1, w, b2, Bare, b3, tail.
    split; [|split; [exact Hb1|split; [exact Hwword|split; [exact Hwh|split; [exact Hlow'|
      split; [exact Hb2|split; [exact Hb2n|split; [exact Hb3|split; [exact Htail|]]]]]]]]].
    + rewrite Hl at 1. rewrite Hw, H2, Hr, Hrest'. rewrite <- ?app_assoc. reflexivity.
    + intros _. split; [discriminate|]. split; [|exact Equote].
      apply forallb_forall. intros c Hc. rewrite Forall_forall in Hname. specialize (Hname c Hc).
      apply orb_false_iff in Hname. destruct Hname as [H1 H2']. unfold plain_char.
      unfold is_hash in H2'. change 35 with c_hash in H2'. rewrite H1, H2'. reflexivity.
Qed.

Lemma startswith_app_self p y : startswith (p ++ y) p = true.
Proof.
  induction p as [|c p IH]; [apply startswith_nil|]. cbn [app startswith].
  rewrite N.eqb_refl, IH. reflexivity.
Qed.

Lemma lower_app a b : lower (a ++ b) = lower a ++ lower b.
Proof. unfold lower. apply flat_map_app. Qed.

Lemma starts_include_on_shape b1 w rest :
  all_blank b1 -> is_word w -> lower w = kw_include -> starts_include (b1 ++ w ++ rest) = true.
Proof.
  intros Hb1 [Hne Hw] Hlow. unfold starts_include, strip, strip_by.
  rewrite lstrip_by_all by exact Hb1.
  assert (Hl : lstrip_by isspace (w ++ rest) = w ++ rest).
  { destruct w as [|c w]; [congruence|]. inversion Hw; subst. cbn [app lstrip_by].
    replace (isspace c) with false by (symmetry; assumption). reflexivity. }
  rewrite Hl, rstrip_by_app_keep by exact Hw. rewrite lower_app, Hlow. apply startswith_app_self.
Qed.

(* every directive of the specification is taken for an INCLUDE line by the code *)
Theorem directive_starts_include l n : directive isspace l = Some n -> starts_include l = true.
Proof.
  intros H. destruct (directive_shape l n H) as (b1 & w & b2 & q & b3 & tail & -> & Hb1 & Hw & _ & Hlow & _).
  apply starts_include_on_shape; assumption.
Qed.

(* ... and for a plain name the code extracts the directive's name *)
Theorem directive_name_extracted l n :
  directive isspace l = Some n -> name_ok n = true -> get_include_filename l = Ok n.
Proof.
  intros H Hn.
  destruct (directive_shape l n H)
    as (b1 & w & b2 & q & b3 & tail & -> & Hb1 & Hw & Hwh & _ & Hb2 & Hb2n & Hb3 & Htail & Hbare).
  apply filename_extraction; try assumption. intros Hq. apply (Hbare Hq).
Qed.

(* the guard: every line the code takes for an INCLUDE line is a directive
   with a plain name *)
Definition line_ok (l : str) : bool :=
  if starts_include l then
    match directive isspace l with
    | Some n => name_ok n
    | None => false
    end
  else true.

Definition text_ok (t : str) : bool := forallb line_ok (split_char c_nl t).
Definition fs_ok (fs : fsys) : bool := forallb (fun e => text_ok (universal_newlines (snd e))) fs.

Theorem reader_agreement l : line_ok l = true -> code_reader l = spec_reader isspace l.
Proof.
  unfold line_ok, code_reader, spec_reader. destruct (starts_include l) eqn:Es.
  - destruct (directive isspace l) as [n|] eqn:Ed; [|discriminate]. intros Hn.
    rewrite (directive_name_extracted l n Ed Hn). reflexivity.
  - intros _. destruct (directive isspace l) as [n|] eqn:Ed; [|reflexivity].
    apply directive_starts_include in Ed. congruence.
Qed.

Lemma subst_by_reader_ext read r1 r2 base (ok : str -> bool) :
  (forall l, ok l = true -> r1 l = r2 l) ->
  (forall p t, read p = Some t -> forallb ok (lines_of t) = true) ->
  forall budget text, forallb ok (lines_of text) = true ->
    subst_by read r1 base budget text = subst_by read r2 base budget text.
Proof.
  intros Hr Hfs. induction budget as [|b IH]; intros text Hok; rewrite !subst_by_eq.
  - rewrite (mapM_ext _ (subst_line read r2 base 0)); [reflexivity|].
    intros l Hin. rewrite forallb_forall in Hok. specialize (Hok l Hin).
    unfold subst_line. rewrite (Hr l Hok). reflexivity.
  - rewrite (mapM_ext _ (subst_line read r2 base (S b))); [reflexivity|].
    intros l Hin. rewrite forallb_forall in Hok. specialize (Hok l Hin).
    unfold subst_line. rewrite (Hr l Hok).
    destruct (r2 l) as [[name|e]|]; try reflexivity. cbn [bind].
    destruct (read (locate base name)) as [t|] eqn:Et; [|reflexivity].
    apply IH. exact (Hfs _ _ Et).
Qed.

Lemma fs_lookup_In p fs raw : fs_lookup p fs = Some raw -> exists q, In (q, raw) fs.
Proof.
  induction fs as [|[q t] fs IH]; cbn [fs_lookup]; [discriminate|].
  destruct (loc_eqb p q).
  - intros [= ->]. exists q. left. reflexivity.
  - intros H. destruct (IH H) as (q' & Hq). exists q'. right. exact Hq.
Qed.

Lemma fs_ok_text_of fs p t : fs_ok fs = true -> text_of fs p = Some t -> text_ok t = true.
Proof.
  unfold fs_ok, text_of. intros Hok. destruct (fs_lookup p fs) as [raw|] eqn:E; [|discriminate].
  intros [= <-]. destruct (fs_lookup_In _ _ _ E) as (q & Hin).
  rewrite forallb_forall in Hok. exact (Hok _ Hin).
Qed.

(* the property's first clause, under the guard *)
Theorem includes_are_substitution_guarded fs cwd text fn :
  isabs cwd = true -> text_ok text = true -> fs_ok fs = true ->
  load_includes fs cwd text fn = expanded isspace (text_of fs) cwd fn text.
Proof.
  intros Hcwd Ht Hfs. rewrite includes_are_substitution_by_code_reader by exact Hcwd.
  unfold expanded, subst.
  apply (subst_by_reader_ext (text_of fs) code_reader (spec_reader isspace) _ line_ok).
  - exact reader_agreement.
  - intros p t Hp. rewrite lines_of_split. exact (fs_ok_text_of fs p t Hfs Hp).
  - rewrite lines_of_split. exact Ht.
Qed.

(* ---- the unguarded statement is false: three witnesses ---- *)
Definition wit_fs : fsys :=
  [([Str "r"; Str "has space.map"], Str "NAME 'x'");
   ([Str "r"; Str "has"], Str "NAME 'wrong'");
   ([Str "r"; Str "x.map"], Str "NAME 'y'")].

(* a quoted name with a blank: the code opens the file named by the first word *)
Lemma refute_quoted_blank :
  load_includes wit_fs (Str "/r") (Str "INCLUDE ""has space.map""") (Some (Str "/r/root.map")) = Ok (Str "NAME 'wrong'") /\
  expanded isspace (text_of wit_fs) (Str "/r") (Some (Str "/r/root.map")) (Str "INCLUDE ""has space.map""") = Ok (Str "NAME 'x'").
Proof. split; vm_compute; reflexivity. Qed.

Lemma refute_quoted_blank_missing :
  load_includes [([Str "r"; Str "has space.map"], Str "NAME 'x'")] (Str "/r") (Str "INCLUDE ""has space.map""") (Some (Str "/r/root.map")) = Err PyIOError.
Proof. vm_compute. reflexivity. Qed.

(* a quoted name with a hash sign *)
Lemma refute_quoted_hash :
  load_includes [([Str "r"; Str "a#b.map"], Str "NAME 'x'")] (Str "/r") (Str "INCLUDE ""a#b.map""") None = Err PyIOError /\
  expanded isspace (text_of [([Str "r"; Str "a#b.map"], Str "NAME 'x'")]) (Str "/r") None (Str "INCLUDE ""a#b.map""") = Ok (Str "NAME 'x'").
Proof. split; vm_compute; reflexivity. Qed.

(* INCLUDE without a name: IndexError instead of a text for the Mapfile parser to reject *)
Lemma refute_bare_include :
  load_includes wit_fs (Str "/r") (Str "INCLUDE") None = Err PyIndexError /\
  expanded isspace (text_of wit_fs) (Str "/r") None (Str "INCLUDE") = Ok (Str "INCLUDE").
Proof. split; vm_compute; reflexivity. Qed.

(* a line that merely starts with the letters include is treated as a directive *)
Lemma refute_prefix_keyword :
  load_includes wit_fs (Str "/r") (Str "INCLUDES x.map") None = Ok (Str "NAME 'y'") /\
  expanded isspace (text_of wit_fs) (Str "/r") None (Str "INCLUDES x.map") = Ok (Str "INCLUDES x.map").
Proof. split; vm_compute; reflexivity. Qed.

(* a name that itself consists of quote characters inside the other quotes *)
Lemma refute_nested_quotes :
  get_include_filename (Str "INCLUDE '""a.map""'") = Ok (Str "a.map") /\
  directive isspace (Str "INCLUDE '""a.map""'") = Some (Str """a.map""").
Proof. split; vm_compute; reflexivity. Qed.

Theorem includes_are_substitution_refuted :
  exists fs cwd text fn,
    isabs cwd = true /\ load_includes fs cwd text fn <> expanded isspace (text_of fs) cwd fn text.
Proof.
  exists wit_fs, (Str "/r"), (Str "INCLUDE ""has space.map"""), (Some (Str "/r/root.map")).
  split; [reflexivity|]. destruct refute_quoted_blank as [-> ->]. discriminate.
Qed.

Theorem filename_extraction_refuted :
  exists l n, directive isspace l = Some n /\ get_include_filename l <> Ok n.
Proof.
  exists (Str "INCLUDE ""has space.map"""), (Str "has space.map"). split; vm_compute; [reflexivity|discriminate].
Qed.

(* ================================================================== *)
(* H. working directory, expand_includes = False, front ends          *)
(* ================================================================== *)

Lemma isabs_folder_text fn : isabs fn = true -> isabs (folder_text fn) = true.
Proof.
  destruct fn as [|c r]; [discriminate|]. unfold isabs. cbn [startswith folder_text].
  rewrite startswith_nil, andb_true_r. intros H. apply N.eqb_eq in H. subst c.
  change 47 with c_slash. rewrite N.eqb_refl.
  destruct (existsb (N.eqb c_slash) r); cbn [startswith]; rewrite N.eqb_refl; [rewrite startswith_nil|]; reflexivity.
Qed.

Lemma root_folder_abs cwd cwd' fn : isabs fn = true -> root_folder cwd (Some fn) = root_folder cwd' (Some fn).
Proof.
  intros H. cbn [root_folder]. rewrite !(locate_walk _ (folder_text fn)), isabs_folder_text by exact H.
  reflexivity.
Qed.

Theorem cwd_irrelevant fs cwd cwd' text fn :
  isabs fn = true -> isabs cwd = true -> isabs cwd' = true ->
  load_includes fs cwd text (Some fn) = load_includes fs cwd' text (Some fn).
Proof.
  intros Hfn Hc Hc'. rewrite !includes_are_substitution_by_code_reader by assumption.
  rewrite (root_folder_abs cwd cwd' fn Hfn). reflexivity.
Qed.

Theorem no_expand_stage fs cwd text fn : parse_text false fs cwd text fn = Ok text.
Proof. reflexivity. Qed.

Section FrontEnds.
  Context {A : Type}.
  Variable k : str -> res A.

  (* with expand_includes = False nothing is read and the downstream parser sees the text itself *)
  Theorem no_expand_front_ends fs cwd text name :
    api_loads k false fs cwd text = k text /\ api_load k false fs cwd text name = k text.
  Proof. split; reflexivity. Qed.

  (* open(root) = loads(flattened text), whatever the working directory of the second call *)
  Theorem open_equals_loads_of_flattened fs cwd fn root_text flat :
    isabs cwd = true ->
    open_file fs cwd fn = Ok root_text ->
    load_includes fs cwd root_text (Some fn) = Ok flat ->
    forall fs' cwd', api_open k true fs cwd fn = api_loads k true fs' cwd' flat.
  Proof.
    intros Hcwd Hopen Hflat fs' cwd'. unfold api_open, api_loads, parse_file, parse_text.
    rewrite Hopen. cbn [bind]. rewrite Hflat. cbn [bind].
    rewrite (expansion_is_fixed_point fs cwd root_text (Some fn) flat Hcwd Hflat fs' cwd' None).
    reflexivity.
  Qed.

  (* load(fp) with a name behaves like open on the same text; loads uses the working directory *)
  Theorem load_is_open_on_text fs cwd fn root_text :
    open_file fs cwd fn = Ok root_text ->
    api_open k true fs cwd fn = api_load k true fs cwd root_text (Some fn).
  Proof. intros H. unfold api_open, api_load, parse_file, parser_load. rewrite H. reflexivity. Qed.
End FrontEnds.

(* ================================================================== *)
(* I. the depth bound, stated for the model                            *)
(* ================================================================== *)

Theorem load_includes_Ok_iff fs cwd text fn :
  isabs cwd = true ->
  ((exists out, load_includes fs cwd text fn = Ok out) <->
   depth_le (text_of fs) code_reader (root_folder cwd fn) 5 text).
Proof.
  intros Hcwd. rewrite includes_are_substitution_by_code_reader by exact Hcwd.
  apply subst_by_Ok_iff.
Qed.

Lemma code_reader_Err l e : code_reader l = Some (Err e) -> e = PyIndexError.
Proof.
  unfold code_reader. destruct (starts_include l); [|discriminate]. intros [= H].
  exact (get_include_filename_Err l e H).
Qed.

(* what an error of the model means *)
Theorem load_includes_error_cause fs cwd text fn e :
  isabs cwd = true ->
  load_includes fs cwd text fn = Err e ->
  e = PyValueError \/
  (e = PyIOError /\ exists name, text_of fs (locate (root_folder cwd fn) name) = None) \/
  (e = PyIndexError /\ exists l, starts_include l = true /\ get_include_filename l = Err PyIndexError).
Proof.
  intros Hcwd. rewrite includes_are_substitution_by_code_reader by exact Hcwd. intros H.
  destruct (subst_by_errors _ _ _ _ _ _ H) as [->|[->|(l & Hl)]].
  - left. reflexivity.
  - right; left. split; [reflexivity|].
    destruct (subst_by_IOError _ _ _ _ _ H) as [Hm|(l & Hl)]; [exact Hm|].
    apply code_reader_Err in Hl. discriminate.
  - right; right. pose proof (code_reader_Err l e Hl) as ->. split; [reflexivity|].
    exists l. unfold code_reader in Hl. destruct (starts_include l); [|discriminate].
    injection Hl as Hl. split; [reflexivity|exact Hl].
Qed.

(* deeper than five files, or cyclic: never a result, never out of fuel *)
Theorem load_includes_too_deep fs cwd text fn :
  isabs cwd = true ->
  has_chain (text_of fs) code_reader (root_folder cwd fn) 6 text ->
  exists e, load_includes fs cwd text fn = Err e /\
            (e = PyValueError \/ e = PyIOError \/ e = PyIndexError).
Proof.
  intros Hcwd Hc. destruct (load_includes fs cwd text fn) as [out|e] eqn:E.
  - exfalso. rewrite includes_are_substitution_by_code_reader in E by exact Hcwd.
    exact (chain_exceeds_budget _ _ _ 5%nat text Hc out E).
  - exists e. split; [reflexivity|]. exact (load_includes_never_out_of_fuel fs cwd text fn e E).
Qed.

Theorem load_includes_cyclic fs cwd text fn :
  isabs cwd = true ->
  cyclic (text_of fs) code_reader (root_folder cwd fn) text ->
  exists e, load_includes fs cwd text fn = Err e /\
            (e = PyValueError \/ e = PyIOError \/ e = PyIndexError).
Proof. intros Hcwd Hc. apply load_includes_too_deep; [exact Hcwd|apply Hc]. Qed.

(* when every named file exists and every name can be extracted, the error is ValueError *)
Theorem load_includes_too_deep_ValueError fs cwd text fn :
  isabs cwd = true ->
  (forall name, text_of fs (locate (root_folder cwd fn) name) <> None) ->
  (forall l, starts_include l = true -> get_include_filename l <> Err PyIndexError) ->
  has_chain (text_of fs) code_reader (root_folder cwd fn) 6 text ->
  load_includes fs cwd text fn = Err PyValueError.
Proof.
  intros Hcwd Hall Hnames Hc.
  destruct (load_includes_too_deep fs cwd text fn Hcwd Hc) as (e & He & _).
  destruct (load_includes_error_cause fs cwd text fn e Hcwd He) as [->|[(-> & name & Hn)|(-> & l & Hs & Hl)]].
  - exact He.
  - exfalso. exact (Hall name Hn).
  - exfalso. exact (Hnames l Hs Hl).
Qed.

Lemma no_expand_open {A} (k : str -> res A) fs cwd fn :
  api_open k false fs cwd fn = (do t <- open_file fs cwd fn; k t).
Proof.
  unfold api_open, parse_file, parse_text. destruct (open_file fs cwd fn); reflexivity.
Qed.
