(* C15: INCLUDE expansion equals textual substitution, bounded at five levels.
   Lemmas and theorems about Model/Includes.v against Spec/Subst.v. *)
From MF Require Import Lib.Base Gen.Unicode Model.Case Model.Includes Spec.Subst.
Open Scope N_scope.

(* ================================================================== *)
(* A. strings and lists                                               *)
(* ================================================================== *)

Lemma split_char_nonnil c s : split_char c s <> [].
Proof.
  destruct s as [|x s]; cbn [split_char]; [discriminate|].
  destruct (x =? c); [discriminate|]. destruct (split_char c s); discriminate.
Qed.

Lemma split_char_cons_sep c s : split_char c (c :: s) = [] :: split_char c s.
Proof. cbn [split_char]. rewrite N.eqb_refl. reflexivity. Qed.

Lemma split_char_cons_other c x s :
  x <> c -> split_char c (x :: s) = (x :: hd [] (split_char c s)) :: tl (split_char c s).
Proof.
  intros Hx. cbn [split_char]. destruct (N.eqb_spec x c) as [E|_]; [contradiction|].
  destruct (split_char c s) eqn:E; [exfalso; eapply split_char_nonnil; eassumption|reflexivity].
Qed.

(* splitting a text around one separator *)
Lemma split_char_app_sep c a b :
  split_char c (a ++ c :: b) =
    removelast (split_char c a) ++ [last (split_char c a) []] ++ split_char c b.
Proof.
  induction a as [|x a IH].
  - cbn [app]. rewrite split_char_cons_sep. reflexivity.
  - cbn [app]. destruct (N.eqb_spec x c) as [->|Hx].
    + rewrite !split_char_cons_sep, IH.
      assert (Hn := split_char_nonnil c a).
      destruct (split_char c a) as [|h t] eqn:E; [contradiction|]. reflexivity.
    + rewrite !(split_char_cons_other c x) by assumption. rewrite IH.
      assert (Hn := split_char_nonnil c a).
      destruct (split_char c a) as [|h t] eqn:E; [contradiction|].
      destruct t as [|h2 t]; reflexivity.
Qed.

Lemma removelast_last_id {A} (l : list A) d : l <> [] -> removelast l ++ [last l d] = l.
Proof. intros H. symmetry. apply app_removelast_last. exact H. Qed.

Lemma split_char_app_sep' c a b :
  split_char c (a ++ c :: b) = split_char c a ++ split_char c b.
Proof.
  rewrite split_char_app_sep, app_assoc, removelast_last_id by apply split_char_nonnil.
  reflexivity.
Qed.

Lemma split_char_no_sep c s : contains_char c s = false -> split_char c s = [s].
Proof.
  induction s as [|x s IH]; [reflexivity|]. unfold contains_char. cbn [existsb].
  intros H. apply orb_false_iff in H. destruct H as [Hx Hs].
  rewrite split_char_cons_other by (intros ->; rewrite N.eqb_refl in Hx; discriminate).
  rewrite (IH Hs). reflexivity.
Qed.

Lemma split_char_pieces_nosep c s :
  Forall (fun p => contains_char c p = false) (split_char c s).
Proof.
  induction s as [|x s IH]; [repeat constructor|].
  destruct (N.eqb_spec x c) as [->|Hx].
  - rewrite split_char_cons_sep. constructor; [reflexivity|exact IH].
  - rewrite split_char_cons_other by assumption.
    assert (Hn := split_char_nonnil c s).
    destruct (split_char c s) as [|h t]; [contradiction|]. inversion IH; subst.
    constructor; [|assumption]. unfold contains_char in *. cbn [hd existsb].
    apply orb_false_iff. split; [|assumption]. apply N.eqb_neq. congruence.
Qed.

Lemma join_cons sep x y r : join sep (x :: y :: r) = x ++ sep ++ join sep (y :: r).
Proof. reflexivity. Qed.

Lemma join_split_char c s : join [c] (split_char c s) = s.
Proof.
  induction s as [|x s IH]; [reflexivity|].
  assert (Hn := split_char_nonnil c s).
  destruct (N.eqb_spec x c) as [->|Hx].
  - rewrite split_char_cons_sep. destruct (split_char c s) as [|h t] eqn:E; [contradiction|].
    rewrite join_cons, IH. reflexivity.
  - rewrite split_char_cons_other by assumption.
    destruct (split_char c s) as [|h t] eqn:E; [contradiction|]. cbn [hd tl].
    destruct t as [|h2 t].
    + cbn [join] in *. rewrite IH. reflexivity.
    + rewrite join_cons in *. rewrite <- IH. reflexivity.
Qed.

(* splitting a joined list of texts = splitting every text *)
Lemma split_char_join c (l : list str) :
  l <> [] -> split_char c (join [c] l) = flat_map (split_char c) l.
Proof.
  induction l as [|x l IH]; [congruence|]. intros _.
  destruct l as [|y l].
  - cbn [join flat_map]. rewrite app_nil_r. reflexivity.
  - rewrite join_cons. cbn [app]. rewrite split_char_app_sep', IH by discriminate. reflexivity.
Qed.

(* Spec.pieces is Python's split *)
Lemma pieces_split_char c s : pieces c s = split_char c s.
Proof.
  unfold pieces. induction s as [|x s IH]; [reflexivity|].
  cbn [fold_right split_char].
  destruct (fold_right _ _ s) as [cur done] eqn:E.
  rewrite <- IH. destruct (x =? c); reflexivity.
Qed.

Lemma lines_of_split s : lines_of s = split_char c_nl s.
Proof. apply pieces_split_char. Qed.

Lemma unlines_join ls : unlines ls = join [c_nl] ls.
Proof.
  destruct ls as [|x r]; [reflexivity|]. cbn [unlines]. revert x.
  induction r as [|y r IH]; intros x; [cbn; apply app_nil_r|].
  rewrite join_cons. cbn [flat_map app]. rewrite (IH y). reflexivity.
Qed.

(* mapM *)
Lemma mapM_ext {A B} (f g : A -> res B) l :
  (forall x, In x l -> f x = g x) -> mapM f l = mapM g l.
Proof.
  induction l as [|x l IH]; intros H; [reflexivity|]. cbn [mapM].
  rewrite (H x (or_introl eq_refl)), IH by (intros; apply H; right; assumption). reflexivity.
Qed.

Lemma mapM_id_on {A} (f : A -> res A) l :
  (forall x, In x l -> f x = Ok x) -> mapM f l = Ok l.
Proof.
  induction l as [|x l IH]; intros H; [reflexivity|]. cbn [mapM bind].
  rewrite (H x (or_introl eq_refl)). cbn [bind].
  rewrite IH by (intros; apply H; right; assumption). reflexivity.
Qed.

Lemma mapM_length {A B} (f : A -> res B) l r : mapM f l = Ok r -> length r = length l.
Proof.
  revert r; induction l as [|x l IH]; intros r; cbn [mapM bind]; [intros [= <-]; reflexivity|].
  destruct (f x); [|discriminate]. cbn [bind]. destruct (mapM f l); [|discriminate].
  cbn [bind]. intros [= <-]. cbn [length]. f_equal. apply IH. reflexivity.
Qed.

(* ================================================================== *)
(* B. the includes dict + pop/insert loop is a map over the lines      *)
(* ================================================================== *)

Lemma list_pop_app {A} (pre : list A) x post : list_pop (length pre) (pre ++ x :: post) = Some (pre ++ post).
Proof. induction pre as [|y pre IH]; [reflexivity|]. cbn [length app list_pop]. rewrite IH. reflexivity. Qed.

Lemma list_insert_app {A} (pre : list A) x post : list_insert (length pre) x (pre ++ post) = pre ++ x :: post.
Proof.
  induction pre as [|y pre IH]; [destruct post; reflexivity|]. cbn [length app list_insert].
  rewrite IH. reflexivity.
Qed.

Section Scan.
  Variable fs : fsys.
  Variable cwd fn : str.

  (* what happens to one line *)
  Definition expand_line (rec : str -> res str) (nested : nat) (l : str) : res str :=
    if starts_include l then
      if Nat.eqb nested 5 then Err PyValueError
      else
        do inc_file_path <- get_include_filename l;
        do include_text <- open_file fs cwd (include_path cwd fn inc_file_path);
        rec include_text
    else Ok l.

  Lemma scan_lines_spec rec nested lines :
    forall idx acc,
      match mapM (expand_line rec nested) lines with
      | Err e => scan_lines fs cwd fn rec nested idx lines acc = Err e
      | Ok ls =>
          exists incs,
            scan_lines fs cwd fn rec nested idx lines acc = Ok (acc ++ incs) /\
            forall pre : list str, length pre = idx -> apply_includes incs (pre ++ lines) = Ok (pre ++ ls)
      end.
  Proof.
    induction lines as [|l rest IH]; intros idx acc.
    - cbn [mapM scan_lines]. exists []. rewrite app_nil_r. split; [reflexivity|]. intros; reflexivity.
    - cbn [mapM scan_lines]. unfold expand_line at 1.
      destruct (starts_include l) eqn:Hs.
      + destruct (Nat.eqb nested 5) eqn:Hn; [reflexivity|].
        destruct (get_include_filename l) as [inc|e]; cbn [bind]; [|reflexivity].
        destruct (open_file fs cwd (include_path cwd fn inc)) as [t|e]; cbn [bind]; [|reflexivity].
        destruct (rec t) as [txt|e]; cbn [bind]; [|reflexivity].
        specialize (IH (S idx) (acc ++ [(idx, txt)])).
        destruct (mapM (expand_line rec nested) rest) as [ls|e]; cbn [bind]; [|exact IH].
        destruct IH as (incs & Hscan & Happ).
        exists ((idx, txt) :: incs). split.
        * rewrite Hscan, <- app_assoc. reflexivity.
        * intros pre Hlen. cbn [apply_includes]. subst idx.
          rewrite list_pop_app, list_insert_app.
          specialize (Happ (pre ++ [txt])). rewrite <- !app_assoc in Happ. cbn [app] in Happ.
          apply Happ. rewrite app_length. cbn [length]. lia.
      + cbn [bind]. specialize (IH (S idx) acc).
        destruct (mapM (expand_line rec nested) rest) as [ls|e]; cbn [bind]; [|exact IH].
        destruct IH as (incs & Hscan & Happ).
        exists incs. split; [exact Hscan|].
        intros pre Hlen. specialize (Happ (pre ++ [l])). rewrite <- !app_assoc in Happ.
        cbn [app] in Happ. apply Happ. rewrite app_length. cbn [length]. lia.
  Qed.

  (* one level of load_includes: split, expand every line, join *)
  Lemma load_includes_fuel_step fuel text nested :
    load_includes_fuel fs cwd fn (S fuel) text nested =
      do ls <- mapM (expand_line (fun t => load_includes_fuel fs cwd fn fuel t (S nested)) nested)
                    (split_char c_nl text);
      Ok (join [c_nl] ls).
  Proof.
    cbn [load_includes_fuel].
    pose proof (scan_lines_spec (fun t => load_includes_fuel fs cwd fn fuel t (S nested)) nested
                                (split_char c_nl text) 0%nat []) as H.
    destruct (mapM _ (split_char c_nl text)) as [ls|e]; cbn [bind].
    - destruct H as (incs & -> & Happ). cbn [bind app].
      pose proof (Happ [] eq_refl) as Ha. cbn [app] in Ha. rewrite Ha. reflexivity.
    - rewrite H. reflexivity.
  Qed.
End Scan.

(* ================================================================== *)
(* C. paths: posixpath on strings against the walk over locations      *)
(* ================================================================== *)

Definition keep_comp (c : str) : bool := negb (is_nil c) && negb (str_eqb c [c_dot]).

Lemma os_comps_def p : os_comps p = filter keep_comp (split_char c_slash p).
Proof. reflexivity. Qed.

Lemma is_nil_eqb (c : str) : str_eqb c [] = is_nil c.
Proof. destruct c; reflexivity. Qed.

Lemma steps_os_comps p : steps p = os_comps p.
Proof.
  unfold steps, os_comps. rewrite pieces_split_char. apply filter_ext.
  intros c. rewrite is_nil_eqb. reflexivity.
Qed.

Lemma startswith_nil s : startswith s [] = true.
Proof. destruct s; reflexivity. Qed.

Lemma absolute_isabs p : absolute p = isabs p.
Proof.
  destruct p as [|c p]; [reflexivity|]. unfold absolute, isabs. cbn [startswith].
  change 47 with c_slash. destruct (c =? c_slash); destruct p; reflexivity.
Qed.

Lemma removelast_rev {A} (l : list A) : removelast (rev l) = rev (tl l).
Proof.
  destruct l as [|x l]; [reflexivity|]. cbn [rev tl]. apply removelast_last.
Qed.

Lemma go_walk cs : forall st, go (rev st) cs = rev (walk st cs).
Proof.
  induction cs as [|c r IH]; intros st; [reflexivity|]. cbn [go walk].
  change [46; 46] with dotdot. destruct (str_eqb c dotdot).
  - rewrite removelast_rev. apply IH.
  - change (rev st ++ [c]) with (rev (c :: st)). apply IH.
Qed.

Lemma go_walk' here cs : go here cs = rev (walk (rev here) cs).
Proof. rewrite <- go_walk, rev_involutive. reflexivity. Qed.

Lemma walk_app a b : forall st, walk st (a ++ b) = walk (walk st a) b.
Proof.
  induction a as [|c a IH]; intros st; [reflexivity|]. cbn [app walk].
  destruct (str_eqb c dotdot); apply IH.
Qed.

Lemma locate_walk base name :
  locate base name = rev (walk (if isabs name then [] else rev base) (os_comps name)).
Proof.
  unfold locate. rewrite go_walk', steps_os_comps, absolute_isabs.
  destruct (isabs name); reflexivity.
Qed.

Lemma os_comps_nil : os_comps [] = [].
Proof. reflexivity. Qed.

Lemma os_comps_app_slash a b : os_comps (a ++ c_slash :: b) = os_comps a ++ os_comps b.
Proof. unfold os_comps. rewrite split_char_app_sep', filter_app. reflexivity. Qed.

Lemma os_comps_snoc_slash a : os_comps (a ++ [c_slash]) = os_comps a.
Proof. rewrite os_comps_app_slash, os_comps_nil, app_nil_r. reflexivity. Qed.

Lemma os_comps_cons_slash a : os_comps (c_slash :: a) = os_comps a.
Proof. apply (os_comps_app_slash [] a). Qed.

Lemma endswith_slash a : endswith a [c_slash] = true -> exists a', a = a' ++ [c_slash].
Proof.
  unfold endswith. cbn [rev app]. destruct (rev a) as [|x r] eqn:E; cbn [startswith]; [discriminate|].
  rewrite startswith_nil, andb_true_r. intros H. apply N.eqb_eq in H. subst x.
  exists (rev r). rewrite <- (rev_involutive a), E. reflexivity.
Qed.

Lemma os_comps_path_join a b :
  isabs b = false -> os_comps (path_join a b) = os_comps a ++ os_comps b.
Proof.
  intros Hb. unfold path_join. unfold isabs in Hb. rewrite Hb.
  destruct a as [|x a]; [reflexivity|]. cbn [is_nil orb].
  destruct (endswith (x :: a) [c_slash]) eqn:E.
  - apply endswith_slash in E. destruct E as (a' & ->).
    rewrite <- app_assoc. cbn [app]. rewrite os_comps_app_slash, os_comps_snoc_slash. reflexivity.
  - cbn [app]. change (x :: a ++ c_slash :: b) with ((x :: a) ++ c_slash :: b).
    apply os_comps_app_slash.
Qed.

Lemma isabs_path_join a b : isabs b = false -> isabs (path_join a b) = isabs a.
Proof.
  intros Hb. unfold path_join. unfold isabs in Hb. rewrite Hb.
  destruct a as [|x a]; [exact Hb|]. cbn [is_nil orb].
  destruct (endswith (x :: a) [c_slash]); unfold isabs; cbn [app startswith];
    rewrite !startswith_nil; reflexivity.
Qed.

(* head_upto_slash is the specification's folder_text *)
Lemma drop_until_slash_snoc a c :
  drop_until_slash (a ++ [c]) =
    if existsb (N.eqb c_slash) a then drop_until_slash a ++ [c]
    else if c =? c_slash then [c] else [].
Proof.
  induction a as [|x a IH]; [cbn; destruct (c =? c_slash); reflexivity|].
  cbn [app drop_until_slash existsb]. rewrite (N.eqb_sym c_slash x).
  destruct (x =? c_slash); [reflexivity|]. cbn [orb]. exact IH.
Qed.

Lemma existsb_rev {A} (f : A -> bool) l : existsb f (rev l) = existsb f l.
Proof.
  induction l as [|x l IH]; [reflexivity|]. cbn [rev existsb].
  rewrite existsb_app, IH. cbn [existsb]. rewrite orb_false_r. apply orb_comm.
Qed.

Lemma head_upto_slash_folder_text fn : head_upto_slash fn = folder_text fn.
Proof.
  unfold head_upto_slash. induction fn as [|c r IH]; [reflexivity|].
  cbn [rev folder_text]. rewrite drop_until_slash_snoc, existsb_rev.
  change 47 with c_slash.
  destruct (existsb (N.eqb c_slash) r).
  - rewrite rev_app_distr. cbn [rev app]. rewrite IH. reflexivity.
  - destruct (c =? c_slash); reflexivity.
Qed.

(* right-stripping only removes a tail of stripped characters *)
Lemma lstrip_by_rev_split f r : exists t, rev r = rev (lstrip_by f r) ++ t /\ forallb f t = true.
Proof.
  induction r as [|c r IH]; [exists []; split; reflexivity|].
  cbn [lstrip_by]. destruct (f c) eqn:Hc.
  - destruct IH as (t & Ht & Hf). exists (t ++ [c]). split.
    + cbn [rev]. rewrite Ht at 1. rewrite app_assoc. reflexivity.
    + rewrite forallb_app, Hf. cbn. rewrite Hc. reflexivity.
  - exists []. rewrite app_nil_r. split; reflexivity.
Qed.

Lemma rstrip_by_split f h : exists t, h = rstrip_by f h ++ t /\ forallb f t = true.
Proof.
  unfold rstrip_by. destruct (lstrip_by_rev_split f (rev h)) as (t & Ht & Hf).
  rewrite rev_involutive in Ht. exists t. split; assumption.
Qed.

Lemma forallb_slash_repeat t : forallb (N.eqb c_slash) t = true -> t = repeat c_slash (length t).
Proof.
  induction t as [|c t IH]; [reflexivity|]. cbn [forallb length repeat]. intros H.
  apply andb_true_iff in H. destruct H as [Hc Ht]. apply N.eqb_eq in Hc. subst c.
  rewrite <- IH by assumption. reflexivity.
Qed.

Lemma os_comps_slashes n : os_comps (repeat c_slash n) = [].
Proof.
  induction n as [|n IH]; [reflexivity|]. cbn [repeat]. rewrite os_comps_cons_slash. exact IH.
Qed.

Lemma os_comps_app_slashes a n : os_comps (a ++ repeat c_slash n) = os_comps a.
Proof.
  destruct n as [|n]; [rewrite app_nil_r; reflexivity|].
  cbn [repeat]. rewrite os_comps_app_slash, os_comps_slashes, app_nil_r. reflexivity.
Qed.

Lemma os_comps_rstrip h : os_comps (rstrip_by (N.eqb c_slash) h) = os_comps h.
Proof.
  destruct (rstrip_by_split (N.eqb c_slash) h) as (t & Ht & Hf).
  rewrite Ht at 2. rewrite (forallb_slash_repeat t Hf), os_comps_app_slashes. reflexivity.
Qed.

Lemma os_comps_dirname fn : os_comps (dirname fn) = os_comps (folder_text fn).
Proof.
  unfold dirname. rewrite head_upto_slash_folder_text.
  destruct (negb (is_nil (folder_text fn)) && negb (forallb (N.eqb c_slash) (folder_text fn)));
    [apply os_comps_rstrip|reflexivity].
Qed.

Lemma isabs_dirname fn : isabs (dirname fn) = isabs (folder_text fn).
Proof.
  unfold dirname. rewrite head_upto_slash_folder_text. set (h := folder_text fn).
  destruct (negb (is_nil h) && negb (forallb (N.eqb c_slash) h)) eqn:E; [|reflexivity].
  apply andb_true_iff in E. destruct E as [_ E]. apply negb_true_iff in E.
  destruct (rstrip_by_split (N.eqb c_slash) h) as (t & Ht & Hf).
  destruct (rstrip_by (N.eqb c_slash) h) as [|y r] eqn:Er.
  - cbn [app] in Ht. rewrite Ht in E. rewrite Hf in E. discriminate.
  - rewrite Ht. unfold isabs. cbn [app startswith]. rewrite !startswith_nil. reflexivity.
Qed.

(* ---- normpath of an absolute path denotes the same location ---- *)
Definition good_comp (c : str) : Prop :=
  is_nil c = false /\ str_eqb c [c_dot] = false /\ str_eqb c dotdot = false /\ contains_char c_slash c = false.

Lemma last_In {A} (l : list A) d : l <> [] -> In (last l d) l.
Proof.
  induction l as [|x l IH]; [congruence|]. intros _. destruct l as [|y l]; [left; reflexivity|].
  right. apply IH. discriminate.
Qed.

Lemma Forall_removelast {A} (P : A -> Prop) l : Forall P l -> Forall P (removelast l).
Proof.
  induction l as [|x l IH]; intros H; [constructor|]. inversion H; subst.
  destruct l as [|y l]; [constructor|]. cbn [removelast]. constructor; [assumption|].
  apply IH. assumption.
Qed.

Lemma rev_removelast {A} (l : list A) : rev (removelast l) = tl (rev l).
Proof.
  rewrite <- (rev_involutive l) at 1. rewrite removelast_rev, rev_involutive. reflexivity.
Qed.

Lemma normpath_loop n comps :
  n <> 0%nat ->
  forall acc,
    Forall good_comp acc ->
    Forall (fun p => contains_char c_slash p = false) comps ->
    Forall good_comp (fold_left (normpath_step n) comps acc) /\
    rev (fold_left (normpath_step n) comps acc) = walk (rev acc) (filter keep_comp comps).
Proof.
  intros Hn. induction comps as [|c comps IH]; intros acc Hacc Hc; [split; [assumption|reflexivity]|].
  inversion Hc as [|? ? Hc1 Hc2]; subst. cbn [fold_left filter].
  unfold normpath_step at 2 4. unfold keep_comp at 1 3.
  destruct (is_nil c) eqn:E1; cbn [orb negb andb]; [apply IH; assumption|].
  destruct (str_eqb c [c_dot]) eqn:E2; cbn [orb negb andb]; [apply IH; assumption|].
  cbn [walk]. destruct (str_eqb c dotdot) eqn:E3; cbn [negb orb].
  - assert (Hn0 : Nat.eqb n 0 = false) by (apply Nat.eqb_neq; exact Hn).
    rewrite Hn0. cbn [andb orb].
    assert (Hlast : negb (is_nil acc) && str_eqb (last acc []) dotdot = false).
    { destruct acc as [|a acc']; [reflexivity|]. cbn [is_nil negb andb].
      assert (Hin : In (last (a :: acc') []) (a :: acc')) by (apply last_In; discriminate).
      rewrite Forall_forall in Hacc. destruct (Hacc _ Hin) as (_ & _ & H3 & _). exact H3. }
    rewrite Hlast.
    destruct (is_nil acc) eqn:Ea; cbn [negb].
    + destruct acc; [|discriminate]. cbn [rev tl]. apply IH; assumption.
    + specialize (IH (removelast acc) (Forall_removelast _ _ Hacc) Hc2).
      rewrite rev_removelast in IH. exact IH.
  - specialize (IH (acc ++ [c])). rewrite rev_app_distr in IH. cbn [rev app] in IH.
    apply IH; [|assumption]. apply Forall_app. split; [assumption|].
    constructor; [|constructor]. repeat split; assumption.
Qed.

Lemma os_comps_good x : good_comp x -> os_comps x = [x].
Proof.
  intros (H1 & H2 & _ & H4). unfold os_comps. rewrite split_char_no_sep by assumption.
  cbn [filter]. rewrite H1, H2. reflexivity.
Qed.

Lemma os_comps_join r : Forall good_comp r -> os_comps (join [c_slash] r) = r.
Proof.
  induction r as [|x r IH]; intros H; [reflexivity|]. inversion H as [|? ? Hx Hr]; subst.
  destruct r as [|y r]; [apply os_comps_good; assumption|].
  rewrite join_cons. cbn [app]. rewrite os_comps_app_slash, os_comps_good, IH by assumption.
  reflexivity.
Qed.

Lemma os_comps_repeat_slash n s : os_comps (repeat c_slash n ++ s) = os_comps s.
Proof.
  induction n as [|n IH]; [reflexivity|]. cbn [repeat app]. rewrite os_comps_cons_slash. exact IH.
Qed.

Lemma walk_no_dotdot cs : Forall good_comp cs -> forall st, walk st cs = rev cs ++ st.
Proof.
  induction cs as [|c cs IH]; intros H st; [reflexivity|]. inversion H as [|? ? Hc Hcs]; subst.
  cbn [walk rev]. destruct Hc as (_ & _ & H3 & _). rewrite H3, IH by assumption.
  rewrite <- app_assoc. reflexivity.
Qed.

Lemma normpath_abs q :
  isabs q = true ->
  isabs (normpath q) = true /\ walk [] (os_comps (normpath q)) = walk [] (os_comps q).
Proof.
  intros Hq. unfold normpath. destruct q as [|c q]; [discriminate|]. cbn [is_nil].
  unfold isabs in Hq. rewrite Hq.
  set (n := if startswith (c :: q) [c_slash; c_slash] && negb (startswith (c :: q) [c_slash; c_slash; c_slash])
            then 2%nat else 1%nat).
  assert (Hn : n <> 0%nat) by (unfold n; destruct (_ && _); discriminate).
  destruct (normpath_loop n (split_char c_slash (c :: q)) Hn [] (Forall_nil _)
                          (split_char_pieces_nosep c_slash (c :: q))) as [Hgood Hrev].
  set (r := fold_left (normpath_step n) (split_char c_slash (c :: q)) []) in *.
  assert (Hne : is_nil (repeat c_slash n ++ join [c_slash] r) = false).
  { destruct n as [|n']; [congruence|]. reflexivity. }
  rewrite Hne. split.
  - destruct n as [|n']; [congruence|]. unfold isabs. cbn [repeat app startswith].
    rewrite N.eqb_refl, startswith_nil. reflexivity.
  - rewrite os_comps_repeat_slash, os_comps_join by assumption.
    rewrite walk_no_dotdot by assumption. rewrite app_nil_r, Hrev. reflexivity.
Qed.

(* ---- the path handed to open_file denotes the specification's location ---- *)
Lemma isabs_nonnil_join cwd p : isabs cwd = true -> isabs p = false -> isabs (path_join cwd p) = true.
Proof. intros Hc Hp. rewrite isabs_path_join by assumption. exact Hc. Qed.

Lemma include_path_location cwd fn inc :
  isabs cwd = true ->
  os_resolve cwd (include_path cwd fn inc) = locate (locate (locate [] cwd) (folder_text fn)) inc.
Proof.
  intros Hcwd. unfold include_path. rewrite (locate_walk _ inc).
  destruct (isabs inc) eqn:Hi.
  - unfold os_resolve. rewrite Hi. reflexivity.
  - set (P := path_join (dirname fn) inc).
    assert (HP : isabs P = isabs (folder_text fn)).
    { unfold P. rewrite isabs_path_join, isabs_dirname by assumption. reflexivity. }
    assert (HcP : os_comps P = os_comps (folder_text fn) ++ os_comps inc).
    { unfold P. rewrite os_comps_path_join, os_comps_dirname by assumption. reflexivity. }
    unfold abspath. set (Q := if isabs P then P else path_join cwd P).
    assert (HQ : isabs Q = true).
    { unfold Q. destruct (isabs P) eqn:E; [exact E|]. apply isabs_nonnil_join; assumption. }
    destruct (normpath_abs Q HQ) as [Habs Hw].
    unfold os_resolve. rewrite Habs, Hw. f_equal.
    rewrite (locate_walk _ (folder_text fn)), (locate_walk [] cwd), Hcwd, rev_involutive.
    unfold Q. rewrite <- HP. destruct (isabs P) eqn:E.
    + rewrite HcP, walk_app. reflexivity.
    + rewrite os_comps_path_join, HcP, !walk_app by assumption. rewrite ?rev_involutive. reflexivity.
Qed.

Lemma folder_text_snoc_slash s : folder_text (s ++ [c_slash]) = s ++ [c_slash].
Proof.
  induction s as [|c s IH]; [reflexivity|]. cbn [app folder_text].
  rewrite existsb_app. cbn [existsb]. change 47 with c_slash. rewrite N.eqb_refl, orb_true_r.
  rewrite IH. reflexivity.
Qed.

Lemma root_folder_default cwd fn :
  isabs cwd = true ->
  root_folder cwd fn = locate (locate [] cwd) (folder_text (default_fn cwd fn)).
Proof.
  intros Hcwd. destruct fn as [f|]; [reflexivity|]. cbn [root_folder default_fn].
  rewrite folder_text_snoc_slash, !locate_walk.
  assert (Ha : isabs (cwd ++ [c_slash]) = true).
  { destruct cwd as [|x cwd]; [discriminate|]. unfold isabs in *. cbn [app startswith] in *.
    rewrite startswith_nil in *. exact Hcwd. }
  rewrite Ha, Hcwd, os_comps_snoc_slash. reflexivity.
Qed.
