(* C18: laws of update / find / findall / findunique / findkey, proved of the
   model in Model/DictUtils.v against the vocabulary of Spec/UpdateSpec.v. *)
From MF Require Import Lib.Base Lib.PyDict Model.OrderedDict Model.DictUtils Spec.UpdateSpec.

Lemma DELETE_eq : DELETE = Str "__delete__".
Proof. reflexivity. Qed.

(* ------------------------------------------------------------------ *)
(* generic list / association-list facts *)

Lemma keys_del_filter {A} k (l : list (str * A)) :
  NoDup (keys l) -> keys (od_del k l) = filter (fun k0 => negb (str_eqb k0 k)) (keys l).
Proof.
  induction l as [|[k' v] l IH]; cbn [od_del keys map fst filter]; [reflexivity|].
  intros Hn. inversion Hn as [|? ? Hk Hd]; subst.
  rewrite (str_eqb_sym k' k).
  destruct (str_eqb_spec k k') as [->|Hne]; cbn [negb].
  - symmetry. clear IH Hn Hd. induction l as [|[k2 v2] l IH]; [reflexivity|].
    cbn [keys map fst filter In] in *.
    destruct (str_eqb_spec k2 k') as [->|Hne]; [tauto|]. cbn [negb]. f_equal. apply IH. tauto.
  - cbn [keys map fst]. f_equal. apply IH. assumption.
Qed.

Lemma od_mem_del_other {A} k k2 (l : list (str * A)) :
  k2 <> k -> od_mem k2 (od_del k l) = od_mem k2 l.
Proof. intros H. rewrite !od_mem_assoc, get_del_other by assumption. reflexivity. Qed.

Lemma od_mem_del_same {A} k (l : list (str * A)) :
  NoDup (keys l) -> od_mem k (od_del k l) = false.
Proof. intros H. rewrite od_mem_assoc, get_del_same by assumption. reflexivity. Qed.

Lemma od_replace_same {A} k (v : A) l : assoc k l = Some v -> od_replace k v l = l.
Proof.
  induction l as [|[k' v'] l IH]; cbn [assoc od_replace]; [reflexivity|].
  destruct (str_eqb_spec k k') as [->|Hne]; [intros [= ->]; reflexivity|].
  intros H. rewrite IH by assumption. reflexivity.
Qed.

Lemma filter_ext_in' {A} (f g : A -> bool) l :
  (forall x, In x l -> f x = g x) -> filter f l = filter g l.
Proof.
  induction l as [|x l IH]; intros H; [reflexivity|]. cbn [filter].
  rewrite (H x) by (simpl; auto). rewrite IH by (intros; apply H; simpl; auto). reflexivity.
Qed.

Lemma filter_filter_comm {A} (f g : A -> bool) l :
  filter f (filter g l) = filter g (filter f l).
Proof.
  induction l as [|x l IH]; [reflexivity|]. cbn [filter].
  destruct (f x) eqn:F, (g x) eqn:G; cbn [filter]; rewrite ?F, ?G, IH; reflexivity.
Qed.

Lemma filter_all_true {A} (f : A -> bool) l :
  (forall x, In x l -> f x = true) -> filter f l = l.
Proof.
  induction l as [|x l IH]; intros H; [reflexivity|]. cbn [filter].
  rewrite (H x) by (simpl; auto). rewrite IH by (intros; apply H; simpl; auto). reflexivity.
Qed.

Section Proofs.
  Variable fold : str -> str.
  Variable olk : list str.
  Hypothesis fold_idem : forall k, fold (fold k) = fold k.
  Notation items := (list (str * value)).
  Notation nk := (nk fold).
  Notation key_of := (key_of fold).
  Notation lookup := (lookup fold).
  Notation wf_items := (wf_items fold).
  Notation carries_delete := (carries_delete fold).
  Notation mentions := (mentions fold).
  Notation patch_keys_distinct := (patch_keys_distinct fold).

  (* the model's helpers are the spec's notions *)
  Lemma nk_key_of c k : nk c k = key_of c k.
  Proof. reflexivity. Qed.

  Lemma delete_flag_carries v : delete_flag fold v = carries_delete v.
  Proof.
    destruct v as [| | | | | |c s]; try reflexivity.
    unfold delete_flag, UpdateSpec.carries_delete, d_get, UpdateSpec.lookup.
    change (DictUtils.nk fold c DELETE) with (key_of c (Str "__delete__")).
    destruct (assoc _ s); reflexivity.
  Qed.

  Lemma is_objlist_object_list lv : is_objlist lv = object_list (VList lv).
  Proof. reflexivity. Qed.

  Lemma key_of_folded c k : match c with DCI _ => fold (key_of c k) = key_of c k | _ => True end.
  Proof. destruct c; cbn; auto. Qed.

  (* ---------------------------------------------------------------- *)
  (* representation invariant *)
  Lemma wf_set c s k v : wf_items c s -> wf_items c (od_set (key_of c k) v s).
  Proof.
    intros [Hn Hf]. split; [apply NoDup_set; assumption|].
    destruct c as [|f|f]; auto.
    rewrite keys_set. destruct (od_mem _ s); [assumption|].
    apply Forall_app. split; [assumption|]. constructor; [apply fold_idem|constructor].
  Qed.

  Lemma wf_del c s k : wf_items c s -> wf_items c (od_del k s).
  Proof.
    intros [Hn Hf]. split; [apply NoDup_del; assumption|].
    destruct c as [|f|f]; auto.
    rewrite Forall_forall in *. intros x Hx. apply Hf. eapply In_keys_del; eassumption.
  Qed.

  Lemma wf_nil c : wf_items c [].
  Proof. split; [constructor|destruct c; auto; constructor]. Qed.

  (* ================================================================ *)
  (* update *)
  Section WithRec.
    Variable rec : value -> value -> res value.
    Variable ow : bool.
    Notation update_entry := (update_entry fold rec ow).
    Notation update_loop := (update_loop fold rec ow).
    Notation update_scalar := (update_scalar fold ow).
    Notation merge_lists := (merge_lists fold rec).

    (* what one iteration can do to a dictionary *)
    Inductive entry_out (c : dcls) (s : items) (k : str) : value -> Prop :=
    | EO_same : entry_out c s k (VDict c s)
    | EO_set x : entry_out c s k (VDict c (od_set (key_of c k) x s))
    | EO_del : od_mem (key_of c k) s = true -> entry_out c s k (VDict c (od_del (key_of c k) s)).

    Lemma delitem_shape c s k d' :
      py_delitem fold (VDict c s) k = Ok d' ->
      od_mem (key_of c k) s = true /\ d' = VDict c (od_del (key_of c k) s).
    Proof.
      unfold py_delitem, d_del. change (DictUtils.nk fold c k) with (key_of c k).
      destruct (od_mem (key_of c k) s); cbn [bind]; [intros [= <-]; auto|discriminate].
    Qed.

    Lemma scalar_shape c s k v d' :
      update_scalar (VDict c s) k v = Ok d' -> entry_out c s k d'.
    Proof.
      unfold DictUtils.update_scalar. cbn [py_contains bind]. unfold d_contains.
      change (DictUtils.nk fold c k) with (key_of c k).
      destruct (od_mem (key_of c k) s) eqn:M; cbn [andb negb orb].
      - destruct (py_eqb v (VStr DELETE)).
        + intros H. apply delitem_shape in H. destruct H as [_ ->]. constructor. exact M.
        + rewrite orb_false_r. destruct ow; [intros [= <-]; constructor|intros [= <-]; constructor].
      - rewrite orb_true_r. intros [= <-]. constructor.
    Qed.

    Lemma entry_shape c s k v d' :
      update_entry (VDict c s) k v = Ok d' -> entry_out c s k d'.
    Proof.
      destruct v as [| | | | |lv|cv sv]; cbn [DictUtils.update_entry]; try apply scalar_shape.
      - destruct (is_objlist lv); [|apply scalar_shape].
        cbn [py_get bind].
        destruct (py_iter _) as [origs|e]; cbn [bind]; [|discriminate].
        destruct (merge_lists origs lv) as [nl|e]; cbn [bind]; [|discriminate].
        intros [= <-]. constructor.
      - destruct (delete_flag fold (VDict cv sv)).
        + intros H. apply delitem_shape in H. destruct H as [M ->]. constructor. exact M.
        + cbn [py_get bind]. destruct (rec _ _) as [r|e]; cbn [bind]; [|discriminate].
          intros [= <-]. constructor.
    Qed.

    Lemma entry_out_wf c s k d' :
      entry_out c s k d' -> wf_items c s -> exists s', d' = VDict c s' /\ wf_items c s'.
    Proof.
      intros [|x|M] Hw; eexists; (split; [reflexivity|]); auto using wf_set, wf_del.
    Qed.

    Lemma entry_out_frame c s k s' k0 :
      entry_out c s k (VDict c s') -> k0 <> key_of c k -> assoc k0 s' = assoc k0 s.
    Proof.
      intros H Hne. inversion H; subst.
      - reflexivity.
      - apply get_set_other. assumption.
      - apply get_del_other. assumption.
    Qed.

    (* the keys other than the entry's own keep their relative order *)
    Lemma entry_out_keys c s k s' (P : str -> bool) :
      entry_out c s k (VDict c s') -> NoDup (keys s) -> P (key_of c k) = false ->
      filter P (keys s') = filter P (keys s).
    Proof.
      intros H Hn HP. inversion H; subst.
      - reflexivity.
      - rewrite keys_set. destruct (od_mem _ s); [reflexivity|].
        rewrite filter_app. cbn [filter]. rewrite HP, app_nil_r. reflexivity.
      - rewrite keys_del_filter by assumption. rewrite filter_filter_comm.
        apply filter_all_true. intros x Hx.
        apply filter_In in Hx. destruct Hx as [_ Hx].
        destruct (str_eqb_spec x (key_of c k)) as [->|]; [congruence|reflexivity].
    Qed.

    (* ------------------------------------------------ the loop *)
    Lemma loop_dict c s l r :
      update_loop l (VDict c s) = Ok r -> wf_items c s -> exists s', r = VDict c s' /\ wf_items c s'.
    Proof.
      revert s; induction l as [|[k v] l IH]; intros s H Hw; cbn [DictUtils.update_loop] in H.
      - injection H as <-. eauto.
      - destruct (update_entry (VDict c s) k v) as [d1|e] eqn:E; cbn [bind] in H; [|discriminate].
        apply entry_shape in E. destruct (entry_out_wf _ _ _ _ E Hw) as (s1 & -> & Hw1). eauto.
    Qed.

    Lemma loop_frame c s l s' k0 :
      update_loop l (VDict c s) = Ok (VDict c s') -> wf_items c s ->
      mentions c l k0 = false -> assoc k0 s' = assoc k0 s.
    Proof.
      revert s; induction l as [|[k v] l IH]; intros s H Hw Hm; cbn [DictUtils.update_loop] in H.
      - injection H as <-. reflexivity.
      - destruct (update_entry (VDict c s) k v) as [d1|e] eqn:E; cbn [bind] in H; [|discriminate].
        apply entry_shape in E. destruct (entry_out_wf _ _ _ _ E Hw) as (s1 & -> & Hw1).
        unfold UpdateSpec.mentions in Hm. cbn [keys map fst mem_str] in Hm.
        apply orb_false_iff in Hm. destruct Hm as [Hk Hm].
        rewrite (IH s1 H Hw1 Hm). eapply entry_out_frame; [eassumption|].
        apply str_eqb_neq. exact Hk.
    Qed.

    Lemma loop_keys_unmentioned c s l s' :
      update_loop l (VDict c s) = Ok (VDict c s') -> wf_items c s ->
      filter (fun k0 => negb (mentions c l k0)) (keys s') =
      filter (fun k0 => negb (mentions c l k0)) (keys s).
    Proof.
      intros H Hw.
      assert (G : forall P, (forall k, In k (keys l) -> P (key_of c k) = false) ->
                            filter P (keys s') = filter P (keys s)).
      { clear - H Hw fold_idem. revert s H Hw; induction l as [|[k v] l IH]; intros s H Hw P HP;
          cbn [DictUtils.update_loop] in H.
        - injection H as <-. reflexivity.
        - destruct (update_entry (VDict c s) k v) as [d1|e] eqn:E; cbn [bind] in H; [|discriminate].
          apply entry_shape in E. destruct (entry_out_wf _ _ _ _ E Hw) as (s1 & -> & Hw1).
          rewrite (IH s1 H Hw1 P) by (intros; apply HP; simpl; auto).
          eapply entry_out_keys; [eassumption|apply Hw|apply HP; simpl; auto]. }
      apply G. intros k Hk. apply negb_false_iff. unfold UpdateSpec.mentions.
      apply mem_str_In. apply in_map. exact Hk.
    Qed.

    (* ------------------------------------------------ the law of one entry *)
    (* what the entry (k, v) of the patch does to the value held under k:
       [old] before, the last index after *)
    Inductive entry_law (v : value) (old : option value) : option value -> Prop :=
    | EL_delobj : is_dict v = true -> carries_delete v = true -> old <> None -> entry_law v old None
    | EL_dict r : is_dict v = true -> carries_delete v = false ->
                  rec v (old_or old (VDict DPlain [])) = Ok r -> entry_law v old (Some r)
    | EL_list lv origs newl :
        v = VList lv -> object_list v = true ->
        py_iter (old_or old (VList [])) = Ok origs -> merge_lists origs lv = Ok newl ->
        entry_law v old (Some (VList newl))
    | EL_delkey : plain_value v = true -> py_eqb v marker = true -> old <> None -> entry_law v old None
    | EL_set : plain_value v = true -> (py_eqb v marker = false \/ old = None) ->
               (ow = true \/ old = None) -> entry_law v old (Some v)
    | EL_keep : plain_value v = true -> py_eqb v marker = false -> ow = false -> old <> None ->
                entry_law v old old.

    Lemma scalar_key_law c s k v s' :
      plain_value v = true ->
      update_scalar (VDict c s) k v = Ok (VDict c s') -> NoDup (keys s) ->
      entry_law v (assoc (key_of c k) s) (assoc (key_of c k) s').
    Proof.
      intros Hp H Hn. unfold DictUtils.update_scalar in H. cbn [py_contains bind] in H.
      unfold d_contains, py_setitem, d_set in H. change (DictUtils.nk fold c k) with (key_of c k) in H.
      rewrite od_mem_assoc in H.
      destruct (assoc (key_of c k) s) as [x|] eqn:A; cbn [andb negb orb] in H.
      - destruct (py_eqb v (VStr DELETE)) eqn:Pm.
        + apply delitem_shape in H. destruct H as [_ [= ->]].
          rewrite get_del_same by assumption. apply EL_delkey; [assumption|exact Pm|discriminate].
        + rewrite orb_false_r in H. destruct ow eqn:Ow.
          * injection H as <-. rewrite get_set_same. apply EL_set; auto.
          * injection H as <-. rewrite A. apply EL_keep; auto. discriminate.
      - rewrite orb_true_r in H. injection H as <-. rewrite get_set_same. apply EL_set; auto.
    Qed.

    Lemma entry_key_law c s k v s' :
      update_entry (VDict c s) k v = Ok (VDict c s') -> NoDup (keys s) ->
      entry_law v (assoc (key_of c k) s) (assoc (key_of c k) s').
    Proof.
      intros H Hn.
      destruct v as [| | | | |lv|cv sv]; cbn [DictUtils.update_entry] in H;
        try (apply scalar_key_law; [reflexivity|assumption|assumption]).
      - destruct (is_objlist lv) eqn:Ol.
        + cbn [py_get bind] in H. unfold d_get, py_setitem, d_set in H.
          change (DictUtils.nk fold c k) with (key_of c k) in H.
          destruct (py_iter _) as [origs|e] eqn:It; cbn [bind] in H; [|discriminate].
          destruct (merge_lists origs lv) as [nl|e] eqn:Ml; cbn [bind] in H; [|discriminate].
          injection H as <-. rewrite get_set_same.
          eapply EL_list; [reflexivity|exact Ol| |exact Ml].
          unfold old_or. exact It.
        + apply scalar_key_law; [|assumption|assumption].
          unfold plain_value. cbn [is_dict negb andb]. rewrite <- is_objlist_object_list, Ol. reflexivity.
      - rewrite delete_flag_carries in H. destruct (carries_delete (VDict cv sv)) eqn:Cd.
        + apply delitem_shape in H. destruct H as [M [= ->]].
          rewrite get_del_same by assumption. apply EL_delobj; [reflexivity|exact Cd|].
          rewrite od_mem_assoc in M. destruct (assoc (key_of c k) s); [discriminate|discriminate].
        + cbn [py_get bind] in H. unfold d_get, py_setitem, d_set in H.
          change (DictUtils.nk fold c k) with (key_of c k) in H.
          destruct (rec _ _) as [r|e] eqn:R; cbn [bind] in H; [|discriminate].
          injection H as <-. rewrite get_set_same.
          apply EL_dict; [reflexivity|exact Cd|]. unfold old_or. exact R.
    Qed.

    Lemma not_mentions_tail c k v l k0 :
      mentions c ((k, v) :: l) k0 = false -> k0 <> key_of c k /\ mentions c l k0 = false.
    Proof.
      unfold UpdateSpec.mentions. cbn [keys map fst mem_str]. intros H.
      apply orb_false_iff in H. destruct H as [Hk Hm]. split; [apply str_eqb_neq; exact Hk|exact Hm].
    Qed.

    Lemma distinct_tail c k v l :
      patch_keys_distinct c ((k, v) :: l) -> mentions c l (key_of c k) = false /\ patch_keys_distinct c l.
    Proof.
      unfold UpdateSpec.patch_keys_distinct, UpdateSpec.mentions. cbn [keys map fst]. intros H.
      inversion H as [|? ? Hk Hd]; subst. split; [|exact Hd].
      destruct (mem_str _ _) eqn:M; [|reflexivity]. apply mem_str_In in M. contradiction.
    Qed.

    Lemma mentions_In c l k v : In (k, v) l -> mentions c l (key_of c k) = true.
    Proof.
      intros H. unfold UpdateSpec.mentions. apply mem_str_In. apply in_map.
      unfold keys. change k with (fst (k, v)). apply in_map. exact H.
    Qed.

    (* every entry of the patch acts on its own key exactly as the law says,
       whatever the other entries do *)
    Lemma loop_key_law c s l s' k v :
      update_loop l (VDict c s) = Ok (VDict c s') -> wf_items c s -> patch_keys_distinct c l ->
      In (k, v) l ->
      entry_law v (assoc (key_of c k) s) (assoc (key_of c k) s').
    Proof.
      revert s; induction l as [|[k1 v1] l IH]; intros s H Hw Hd Hin; [destruct Hin|].
      cbn [DictUtils.update_loop] in H.
      destruct (update_entry (VDict c s) k1 v1) as [d1|e] eqn:E; cbn [bind] in H; [|discriminate].
      pose proof (entry_shape _ _ _ _ _ E) as Es.
      destruct (entry_out_wf _ _ _ _ Es Hw) as (s1 & -> & Hw1).
      destruct (distinct_tail _ _ _ _ Hd) as [Hm Hd'].
      destruct Hin as [[= -> ->]|Hin].
      - rewrite (loop_frame _ _ _ _ _ H Hw1 Hm).
        apply entry_key_law; [exact E|apply Hw].
      - assert (Hne : key_of c k <> key_of c k1).
        { intros Heq. rewrite <- Heq in Hm. rewrite (mentions_In _ _ _ _ Hin) in Hm. discriminate. }
        rewrite <- (entry_out_frame _ _ _ _ _ Es Hne).
        apply IH; assumption.
    Qed.

    (* position: the keys that survive keep their order, the new keys follow in
       patch order *)
    Lemma loop_keys c s l s' :
      update_loop l (VDict c s) = Ok (VDict c s') -> wf_items c s -> patch_keys_distinct c l ->
      keys s' = filter (fun k0 => od_mem k0 s') (keys s)
                ++ filter (fun k0 => negb (od_mem k0 s) && od_mem k0 s') (map (key_of c) (keys l)).
    Proof.
      revert s; induction l as [|[k v] l IH]; intros s H Hw Hd; cbn [DictUtils.update_loop] in H.
      - injection H as <-. cbn [keys map filter]. rewrite app_nil_r. symmetry.
        apply filter_all_true. intros x Hx. apply od_mem_In. exact Hx.
      - destruct (update_entry (VDict c s) k v) as [d1|e] eqn:E; cbn [bind] in H; [|discriminate].
        apply entry_shape in E. destruct (entry_out_wf _ _ _ _ E Hw) as (s1 & -> & Hw1).
        destruct (distinct_tail _ _ _ _ Hd) as [Hm Hd'].
        assert (Hkk : od_mem (key_of c k) s' = od_mem (key_of c k) s1).
        { rewrite !od_mem_assoc, (loop_frame _ _ _ _ _ H Hw1 Hm). reflexivity. }
        rewrite (IH s1 H Hw1 Hd'). clear IH.
        assert (Hrest : filter (fun k0 => negb (od_mem k0 s1) && od_mem k0 s') (map (key_of c) (keys l))
                        = filter (fun k0 => negb (od_mem k0 s) && od_mem k0 s') (map (key_of c) (keys l))).
        { apply filter_ext_in'. intros x Hx. f_equal. f_equal.
          assert (Hne : x <> (key_of c k)).
          { intros ->. unfold UpdateSpec.mentions in Hm. apply mem_str_In in Hx. congruence. }
          rewrite !od_mem_assoc. rewrite (entry_out_frame _ _ _ _ _ E Hne). reflexivity. }
        rewrite Hrest. clear Hrest.
        cbn [keys map fst filter].
        inversion E as [Hs|x Hs|M Hs]; subst s1.
        + rewrite Hkk. destruct (od_mem (key_of c k) s); reflexivity.
        + destruct (od_mem (key_of c k) s) eqn:M.
          * cbn [negb andb]. rewrite keys_set, M. reflexivity.
          * assert (Hin : od_mem (key_of c k) s' = true).
            { rewrite Hkk, od_mem_set, str_eqb_refl. reflexivity. }
            rewrite Hin. cbn [negb andb]. rewrite keys_set, M, filter_app. cbn [filter].
            rewrite Hin, <- app_assoc. reflexivity.
        + rewrite M. cbn [negb andb].
          assert (Hout : od_mem (key_of c k) s' = false).
          { rewrite Hkk. apply od_mem_del_same. apply Hw. }
          f_equal. rewrite keys_del_filter by apply Hw. rewrite filter_filter_comm.
          apply filter_all_true. intros x Hx. apply filter_In in Hx. destruct Hx as [_ Hx].
          destruct (str_eqb_spec x (key_of c k)) as [->|]; [congruence|reflexivity].
    Qed.

  End WithRec.

  (* ---------------------------------------------------------------- *)
  (* the list merge against the index-based specification *)
  Lemma zip_item_shift merge origs n news i :
    zip_item fold merge origs (n :: news) (S i) = zip_item fold merge (tl origs) news i.
  Proof.
    unfold zip_item. cbn [nth_error].
    destruct origs as [|o origs]; cbn [tl nth_error]; [destruct i; reflexivity|reflexivity].
  Qed.

  Lemma zip_spec_nil merge origs : zip_spec fold merge origs [] = Some (map none_to_empty origs).
  Proof.
    unfold zip_spec. cbn [length]. rewrite Nat.max_0_r.
    induction origs as [|o origs IH]; [reflexivity|].
    cbn [length seq map]. rewrite <- seq_shift, map_map.
    rewrite (map_ext _ (zip_item fold merge origs [])).
    - cbn [concat_opt]. unfold zip_item at 1. cbn [nth_error]. rewrite IH.
      destruct o; reflexivity.
    - intros i. unfold zip_item. cbn [nth_error]. destruct i; reflexivity.
  Qed.

  Lemma zip_spec_cons merge origs n news :
    zip_spec fold merge origs (n :: news) =
    match zip_item fold merge origs (n :: news) 0 with
    | Some x => match zip_spec fold merge (tl origs) news with Some r => Some (x ++ r) | None => None end
    | None => None
    end.
  Proof.
    unfold zip_spec.
    assert (E : Nat.max (length origs) (length (n :: news)) = S (Nat.max (length (tl origs)) (length news))).
    { destruct origs; reflexivity. }
    rewrite E. cbn [seq map concat_opt]. rewrite <- seq_shift, map_map.
    rewrite (map_ext _ (zip_item fold merge (tl origs) news)) by (intros i; apply zip_item_shift).
    reflexivity.
  Qed.

  Lemma hd_none_to_empty origs :
    match nth_error origs 0 with Some VNone | None => VDict DPlain [] | Some o => o end
    = none_to_empty (hd VNone origs).
  Proof. destruct origs as [|o origs]; [reflexivity|]. destruct o; reflexivity. Qed.

  Lemma merge_zip rec origs news newl :
    merge_lists fold rec origs news = Ok newl ->
    zip_spec fold (fun n o => ok_of (rec n o)) origs news = Some newl.
  Proof.
    revert origs newl; induction news as [|n news IH]; intros origs newl H.
    - cbn [merge_lists] in H. injection H as <-. apply zip_spec_nil.
    - rewrite zip_spec_cons. unfold zip_item. rewrite hd_none_to_empty. cbn [nth_error].
      cbn [merge_lists] in H.
      assert (G : forall (Hn : n <> VNone),
                 (if delete_flag fold n then merge_lists fold rec (tl origs) news
                  else do d <- rec n (none_to_empty (hd VNone origs));
                       do rest <- merge_lists fold rec (tl origs) news; Ok (d :: rest)) = Ok newl ->
                 match (if carries_delete n then Some []
                        else match ok_of (rec n (none_to_empty (hd VNone origs))) with
                             | Some d => Some [d] | None => None end) with
                 | Some x => match zip_spec fold (fun n o => ok_of (rec n o)) (tl origs) news with
                             | Some r => Some (x ++ r) | None => None end
                 | None => None
                 end = Some newl).
      { intros _ H'. rewrite delete_flag_carries in H'. destruct (carries_delete n).
        - rewrite (IH _ _ H'). reflexivity.
        - destruct (rec n _) as [d|e]; cbn [bind ok_of] in *; [|discriminate].
          destruct (merge_lists fold rec (tl origs) news) as [rest|e] eqn:M; cbn [bind] in H'; [|discriminate].
          injection H' as <-. rewrite (IH _ _ M). reflexivity. }
      destruct n; try (apply G; [discriminate|exact H]).
      destruct (merge_lists fold rec (tl origs) news) as [rest|e] eqn:M; cbn [bind] in H; [|discriminate].
      injection H as <-. rewrite (IH _ _ M). reflexivity.
  Qed.

  (* deleting item i: a patch of i placeholders and one flagged dict *)
  Lemma merge_delete_item rec (origs : list value) (i : nat) n :
    carries_delete n = true -> n <> VNone -> Forall (fun o => o <> VNone) origs -> (i < length origs)%nat ->
    merge_lists fold rec origs (repeat VNone i ++ [n]) = Ok (firstn i origs ++ skipn (S i) origs).
  Proof.
    intros Hc Hn. revert origs; induction i as [|i IH]; intros origs Hf Hl.
    - destruct origs as [|o origs]; [inversion Hl|].
      cbn [repeat app merge_lists hd tl firstn skipn].
      rewrite delete_flag_carries, Hc.
      inversion Hf as [|? ? _ Hf']; subst.
      assert (E : map none_to_empty origs = origs).
      { clear - Hf'. induction Hf' as [|o origs Ho _ IH]; [reflexivity|]. cbn [map]. rewrite IH.
        destruct o; try reflexivity. congruence. }
      destruct n; try congruence; cbn [merge_lists]; rewrite E; reflexivity.
    - destruct origs as [|o origs]; [inversion Hl|].
      inversion Hf as [|? ? Ho Hf']; subst.
      cbn [repeat app merge_lists hd tl firstn skipn].
      rewrite IH by (auto; simpl in Hl; lia). cbn [bind].
      destruct o; try reflexivity. congruence.
  Qed.

  (* appending: placeholders for every existing item, then new objects *)
  Lemma merge_append rec (origs extras : list value) :
    Forall (fun o => o <> VNone) origs ->
    Forall (fun n => n <> VNone /\ carries_delete n = false) extras ->
    merge_lists fold rec origs (repeat VNone (length origs) ++ extras) =
    do news <- each_new rec extras; Ok (origs ++ news).
  Proof.
    intros Hf He. induction Hf as [|o origs Ho Hf IH].
    - cbn [length repeat app]. induction He as [|n extras [Hn Hc] He IH]; [reflexivity|].
      cbn [merge_lists hd tl none_to_empty each_new]. rewrite delete_flag_carries, Hc.
      cbn [hd tl] in IH. rewrite IH.
      destruct n; try congruence; destruct (rec _ _); cbn [bind]; try reflexivity;
        destruct (each_new rec extras); reflexivity.
    - cbn [length repeat app merge_lists hd tl]. rewrite IH.
      destruct (each_new rec extras); cbn [bind]; [|reflexivity].
      destruct o; try reflexivity. congruence.
  Qed.

  (* ================================================================ *)
  (* update itself *)
  Lemma update_unfold ow c2 p d1 :
    carries_delete (VDict c2 p) = false ->
    update fold ow (VDict c2 p) d1 = update_loop fold (update fold ow) ow p d1.
  Proof. intros H. cbn [update]. rewrite delete_flag_carries, H. reflexivity. Qed.

  Lemma update_root_delete ow d2 d1 :
    carries_delete d2 = true -> update fold ow d2 d1 = Ok (VDict DPlain []).
  Proof.
    intros H. rewrite <- delete_flag_carries in H.
    destruct d2; cbn [delete_flag] in H; try discriminate.
    cbn [update]. cbn [delete_flag]. rewrite H. reflexivity.
  Qed.

  (* update(d1, {}) is d1 (justifies the None placeholder shortcut of merge_lists) *)
  Lemma update_empty_patch ow c d1 : update fold ow (VDict c []) d1 = Ok d1.
  Proof. reflexivity. Qed.

  Lemma py_eqb_marker v : py_eqb v marker = true <-> v = marker.
  Proof.
    unfold marker. split; [|intros ->; reflexivity].
    destruct v; cbn [py_eqb num_of]; try discriminate.
    intros H. apply str_eqb_eq in H. subst. reflexivity.
  Qed.

  Lemma py_eqb_marker_false v : py_eqb v marker = false <-> v <> marker.
  Proof.
    split.
    - intros H E. apply py_eqb_marker in E. congruence.
    - intros H. destruct (py_eqb v marker) eqn:E; [|reflexivity]. apply py_eqb_marker in E. contradiction.
  Qed.

  Section Update.
    Variable ow : bool.
    Variables (c1 c2 : dcls) (m p : items).
    Hypothesis Hw : wf_items c1 m.
    Hypothesis Hc : carries_delete (VDict c2 p) = false.

    (* the result is d1's own kind of dictionary and keeps its invariant *)
    Lemma update_inv r :
      update fold ow (VDict c2 p) (VDict c1 m) = Ok r ->
      exists m', r = VDict c1 m' /\ wf_items c1 m' /\
                 update_loop fold (update fold ow) ow p (VDict c1 m) = Ok (VDict c1 m').
    Proof.
      intros HU. rewrite update_unfold in HU by exact Hc.
      destruct (loop_dict _ _ _ _ _ _ HU Hw) as (m' & -> & Hw'). eauto.
    Qed.

    Lemma update_result_dict r :
      update fold ow (VDict c2 p) (VDict c1 m) = Ok r -> exists m', r = VDict c1 m' /\ wf_items c1 m'.
    Proof. intros HU. destruct (update_inv r HU) as (m' & -> & Hw' & _). eauto. Qed.

    (* frame: keys the patch does not mention keep their value ... *)
    Lemma update_frame r k :
      update fold ow (VDict c2 p) (VDict c1 m) = Ok r ->
      mentions c1 p (key_of c1 k) = false -> lookup r k = lookup (VDict c1 m) k.
    Proof.
      intros HU Hm. destruct (update_inv r HU) as (m' & -> & _ & HL).
      cbn [UpdateSpec.lookup]. eapply loop_frame; [exact HL|exact Hw|exact Hm].
    Qed.

    (* ... and their relative position *)
    Lemma update_frame_order m' :
      update fold ow (VDict c2 p) (VDict c1 m) = Ok (VDict c1 m') ->
      filter (fun k0 => negb (mentions c1 p k0)) (keys m') =
      filter (fun k0 => negb (mentions c1 p k0)) (keys m).
    Proof.
      intros HU. destruct (update_inv _ HU) as (m2 & [= <-] & _ & HL).
      eapply loop_keys_unmentioned; [exact HL|exact Hw].
    Qed.

    Hypothesis Hd : patch_keys_distinct c1 p.

    (* full description of the key order of the result *)
    Lemma update_key_order m' :
      update fold ow (VDict c2 p) (VDict c1 m) = Ok (VDict c1 m') ->
      keys m' = filter (fun k0 => od_mem k0 m') (keys m)
                ++ filter (fun k0 => negb (od_mem k0 m) && od_mem k0 m') (map (key_of c1) (keys p)).
    Proof.
      intros HU. destruct (update_inv _ HU) as (m2 & [= <-] & _ & HL).
      eapply loop_keys; [exact HL|exact Hw|exact Hd].
    Qed.

    Lemma update_key_law r k v :
      update fold ow (VDict c2 p) (VDict c1 m) = Ok r ->
      In (k, v) p ->
      entry_law (update fold ow) ow v (lookup (VDict c1 m) k) (lookup r k).
    Proof.
      intros HU Hin. destruct (update_inv r HU) as (m' & -> & _ & HL).
      cbn [UpdateSpec.lookup]. eapply loop_key_law; [exact HL|exact Hw|exact Hd|exact Hin].
    Qed.

    Lemma plain_not_dict v : plain_value v = true -> is_dict v = false.
    Proof. unfold plain_value. destruct (is_dict v); [discriminate|reflexivity]. Qed.

    Lemma plain_not_objlist v : plain_value v = true -> object_list v = false.
    Proof. unfold plain_value. destruct (is_dict v), (object_list v); cbn; congruence. Qed.

    Ltac law_inv H :=
      inversion H as [Hi Hcd Ho|r0 Hi Hcd Hr|lv origs newl Hv Hol Hit Hml|Hp Hm Ho|Hp Hm Ho|Hp Hm Ho1 Ho2];
      subst.

    (* scalar and non-object-list values of d2 replace those of d1 *)
    Lemma update_scalar_replace r k v :
      update fold ow (VDict c2 p) (VDict c1 m) = Ok r ->
      In (k, v) p -> plain_value v = true -> v <> marker -> ow = true -> lookup r k = Some v.
    Proof.
      intros HU Hin Hpv Hnm How. pose proof (update_key_law r k v HU Hin) as L.
      pose proof (plain_not_dict _ Hpv) as Hnd. pose proof (plain_not_objlist _ Hpv) as Hno.
      apply py_eqb_marker_false in Hnm.
      law_inv L; try congruence.
    Qed.

    (* a new key is added with the value of d2, in both overwrite modes *)
    Lemma update_new_key r k v :
      update fold ow (VDict c2 p) (VDict c1 m) = Ok r ->
      In (k, v) p -> plain_value v = true -> lookup (VDict c1 m) k = None -> lookup r k = Some v.
    Proof.
      intros HU Hin Hpv Hab. pose proof (update_key_law r k v HU Hin) as L.
      pose proof (plain_not_dict _ Hpv) as Hnd. pose proof (plain_not_objlist _ Hpv) as Hno.
      law_inv L; try congruence.
    Qed.

    (* never when overwrite=False and the key exists *)
    Lemma update_no_overwrite r k v old :
      update fold ow (VDict c2 p) (VDict c1 m) = Ok r ->
      In (k, v) p -> plain_value v = true -> v <> marker -> ow = false ->
      lookup (VDict c1 m) k = Some old -> lookup r k = Some old.
    Proof.
      intros HU Hin Hpv Hnm How Hold. pose proof (update_key_law r k v HU Hin) as L.
      pose proof (plain_not_dict _ Hpv) as Hnd. pose proof (plain_not_objlist _ Hpv) as Hno.
      apply py_eqb_marker_false in Hnm.
      law_inv L; try congruence.
      - destruct Ho as [?|?]; congruence.
      - exact Hold.
    Qed.

    (* a value '__delete__' removes the key *)
    Lemma update_delete_key r k :
      update fold ow (VDict c2 p) (VDict c1 m) = Ok r ->
      In (k, marker) p -> lookup (VDict c1 m) k <> None -> lookup r k = None.
    Proof.
      intros HU Hin Hpr. pose proof (update_key_law r k marker HU Hin) as L.
      law_inv L; try discriminate; try reflexivity;
        try (destruct Hm as [Hm|Hm]; [discriminate|contradiction]).
    Qed.

    (* a dict carrying __delete__ removes the object *)
    Lemma update_delete_object r k v :
      update fold ow (VDict c2 p) (VDict c1 m) = Ok r ->
      In (k, v) p -> is_dict v = true -> carries_delete v = true -> lookup r k = None.
    Proof.
      intros HU Hin Hi' Hc'. pose proof (update_key_law r k v HU Hin) as L.
      law_inv L; try congruence; try reflexivity;
        try (pose proof (plain_not_dict _ Hp); congruence).
      discriminate.
    Qed.

    (* nested dicts merge recursively *)
    Lemma update_dict_merge r k v :
      update fold ow (VDict c2 p) (VDict c1 m) = Ok r ->
      In (k, v) p -> is_dict v = true -> carries_delete v = false ->
      exists sub', update fold ow v (old_or (lookup (VDict c1 m) k) (VDict DPlain [])) = Ok sub' /\
                   lookup r k = Some sub'.
    Proof.
      intros HU Hin Hi' Hc'. pose proof (update_key_law r k v HU Hin) as L.
      law_inv L; try congruence;
        try (pose proof (plain_not_dict _ Hp); congruence).
      - eauto.
      - discriminate.
    Qed.

    (* lists of dicts merge index by index *)
    Lemma update_list_zip r k pl orig :
      update fold ow (VDict c2 p) (VDict c1 m) = Ok r ->
      In (k, VList pl) p -> object_list (VList pl) = true ->
      old_or (lookup (VDict c1 m) k) (VList []) = VList orig ->
      exists newl, lookup r k = Some (VList newl) /\
                   zip_spec fold (fun n o => ok_of (update fold ow n o)) orig pl = Some newl.
    Proof.
      intros HU Hin Hol' Hor. pose proof (update_key_law r k (VList pl) HU Hin) as L.
      law_inv L; try discriminate;
        try (pose proof (plain_not_objlist _ Hp); congruence).
      injection Hv as <-. rewrite Hor in Hit. cbn [py_iter] in Hit. injection Hit as <-.
      eexists. split; [reflexivity|]. apply merge_zip. exact Hml.
    Qed.

  End Update.

  (* frame at every depth: a key path of d1 about which the patch is silent
     leads to the same value afterwards *)
  Lemma update_frame_deep ow ks : forall d2 d1 r,
    silent fold d2 d1 ks -> update fold ow d2 d1 = Ok r -> dict_path fold r ks = dict_path fold d1 ks.
  Proof.
    induction ks as [|k ks IH]; intros d2 d1 r Hs HU; [destruct Hs|].
    cbn [silent] in Hs.
    destruct d1 as [| | | | | |c1 m]; try contradiction.
    destruct d2 as [| | | | | |c2 p]; try contradiction.
    destruct Hs as (Hw & Hd & Hc & Hcase).
    cbn [dict_path].
    destruct Hcase as [Hm|(k' & v & sub & Hin & Hk & Hi & Hcv & Hl & Hs')].
    - rewrite (update_frame ow c1 c2 m p Hw Hc r k HU Hm). reflexivity.
    - destruct (update_dict_merge ow c1 c2 m p Hw Hc Hd r k' v HU Hin Hi Hcv) as (sub' & Hu & Hr).
      assert (E : lookup (VDict c1 m) k' = lookup (VDict c1 m) k).
      { cbn [UpdateSpec.lookup]. rewrite Hk. reflexivity. }
      rewrite E, Hl in Hu. cbn [old_or] in Hu.
      destruct (update_result_dict ow c1 c2 m p Hw Hc r HU) as (m' & -> & _).
      assert (E2 : lookup (VDict c1 m') k = Some sub').
      { cbn [UpdateSpec.lookup] in *. rewrite <- Hk. exact Hr. }
      rewrite E2, Hl. apply (IH v sub sub' Hs' Hu).
  Qed.

  (* update never returns None for a d1 that is not None (so "if d is not
     None" in the list loop filters exactly the deleted items) *)
  Lemma entry_result_shape rec ow d1 k v d' :
    update_entry fold rec ow d1 k v = Ok d' -> d' = d1 \/ exists c s, d' = VDict c s.
  Proof.
    assert (Hset : forall x d'', py_setitem fold d1 k x = Ok d'' -> exists c s, d'' = VDict c s).
    { intros x d''. destruct d1; cbn [py_setitem]; try discriminate. intros [= <-]. eauto. }
    assert (Hdel : forall d'', py_delitem fold d1 k = Ok d'' -> exists c s, d'' = VDict c s).
    { intros d''. destruct d1; cbn [py_delitem]; try discriminate.
      destruct (d_del _ _ _ _); cbn [bind]; [intros [= <-]; eauto|discriminate]. }
    assert (Hsc : update_scalar fold ow d1 k v = Ok d' -> d' = d1 \/ exists c s, d' = VDict c s).
    { unfold update_scalar. destruct (py_contains fold d1 k) as [b|e]; cbn [bind]; [|discriminate].
      destruct (b && py_eqb v (VStr DELETE)); [intros H; right; eauto|].
      destruct (ow || negb b); [intros H; right; eauto|intros [= <-]; auto]. }
    destruct v; cbn [update_entry]; try exact Hsc.
    - destruct (is_objlist l); [|exact Hsc].
      destruct (py_get _ _ _ _); cbn [bind]; [|discriminate].
      destruct (py_iter _); cbn [bind]; [|discriminate].
      destruct (merge_lists _ _ _ _); cbn [bind]; [|discriminate]. intros H; right; eauto.
    - destruct (delete_flag _ _); [intros H; right; eauto|].
      destruct (py_get _ _ _ _); cbn [bind]; [|discriminate].
      destruct (rec _ _); cbn [bind]; [|discriminate]. intros H; right; eauto.
  Qed.

  Lemma update_not_none ow d2 d1 r :
    update fold ow d2 d1 = Ok r -> d1 <> VNone -> r <> VNone.
  Proof.
    destruct d2 as [| | | | | |c2 p]; cbn [update]; try discriminate.
    destruct (delete_flag _ _); [intros [= <-]; discriminate|].
    revert d1. induction p as [|[k v] p IH]; intros d1 H Hn; cbn [update_loop] in H.
    - injection H as <-. exact Hn.
    - destruct (update_entry _ _ _ _ _ _) as [d'|e] eqn:E; cbn [bind] in H; [|discriminate].
      apply (IH d' H). apply entry_result_shape in E.
      destruct E as [->|(c & s & ->)]; [exact Hn|discriminate].
  Qed.

  (* ================================================================ *)
  (* find / findall *)
  Notation item_value := (item_value fold).
  Notation py_getitem := (py_getitem fold olk).
  Notation find_loop := (find_loop fold olk).
  Notation findall_loop := (findall_loop fold olk).

  Notation fresh := (fresh olk).

  Lemma truthy_fresh k : truthy (fresh k) = false.
  Proof. unfold UpdateSpec.fresh. destruct (mem_str k olk); reflexivity. Qed.

  (* an item that has the key is read without being changed *)
  Lemma getitem_present item key v :
    lookup item (fold key) = Some v -> py_getitem item (fold key) = Ok (v, item).
  Proof.
    destruct item as [| | | | | |c s]; cbn [UpdateSpec.lookup]; try discriminate.
    intros H. cbn [DictUtils.py_getitem].
    destruct c as [|f|f]; cbn [UpdateSpec.key_of d_getitem] in *.
    - rewrite H. reflexivity.
    - rewrite fold_idem, H. reflexivity.
    - unfold ci_getitem, _k. rewrite !fold_idem. rewrite fold_idem in H. rewrite H. reflexivity.
  Qed.

  (* an item lacking the key: KeyError unless the dict has a default factory,
     in which case the key is inserted with a fresh empty value *)
  Lemma getitem_lacking_keyerror c s key :
    no_factory c = true -> lookup (VDict c s) (fold key) = None ->
    py_getitem (VDict c s) (fold key) = Err PyKeyError.
  Proof.
    cbn [UpdateSpec.lookup DictUtils.py_getitem]. intros Hc H.
    destruct c as [|[|]|[|]]; try discriminate; cbn [UpdateSpec.key_of d_getitem] in *.
    - rewrite H. reflexivity.
    - rewrite fold_idem, H. reflexivity.
    - unfold ci_getitem, _k. rewrite !fold_idem. rewrite fold_idem in H. rewrite H. reflexivity.
  Qed.

  Lemma getitem_lacking_factory c s key :
    no_factory c = false -> lookup (VDict c s) (fold key) = None ->
    py_getitem (VDict c s) (fold key) =
      Ok (fresh (fold key), VDict c (s ++ [(fold key, fresh (fold key))])).
  Proof.
    cbn [UpdateSpec.lookup DictUtils.py_getitem]. intros Hc H.
    assert (M : od_mem (fold key) s = false).
    { destruct c as [|[|]|[|]]; try discriminate; cbn [UpdateSpec.key_of] in H;
        rewrite ?fold_idem in H; rewrite od_mem_assoc, H; reflexivity. }
    destruct c as [|[|]|[|]]; try discriminate; cbn [UpdateSpec.key_of d_getitem] in *.
    - rewrite fold_idem, H. unfold dd_missing, UpdateSpec.fresh.
      destruct (mem_str (fold key) olk); cbn [bind]; rewrite set_new_appends by exact M; reflexivity.
    - unfold ci_getitem, _k. rewrite !fold_idem. rewrite fold_idem in H. rewrite H.
      unfold ci_missing, ci_setitem, _k, UpdateSpec.fresh. rewrite fold_idem.
      destruct (mem_str (fold key) olk); cbn [bind]; rewrite set_new_appends by exact M; reflexivity.
  Qed.

  (* find: the first item whose key equals the value, list unchanged *)
  Lemma find_loop_present key want lst :
    Forall (fun it => item_value key it <> None) lst ->
    find_loop (fold key) want lst = (lst, Ok (spec_find fold lst key want)).
  Proof.
    intros H. induction H as [|it lst Hit _ IH]; [reflexivity|].
    cbn [DictUtils.find_loop]. unfold UpdateSpec.item_value in Hit.
    destruct (lookup it (fold key)) as [v|] eqn:L; [|contradiction].
    rewrite (getitem_present _ _ _ L).
    unfold spec_find. cbn [List.find]. unfold holds at 1, UpdateSpec.item_value. rewrite L.
    destruct (py_eqb v want); [reflexivity|].
    rewrite IH. reflexivity.
  Qed.

  (* find stops at the first match: what follows is not even read *)
  Lemma find_loop_first key want pre it post v :
    Forall (fun x => exists u, item_value key x = Some u /\ py_eqb u want = false) pre ->
    item_value key it = Some v -> py_eqb v want = true ->
    find_loop (fold key) want (pre ++ it :: post) = (pre ++ it :: post, Ok it).
  Proof.
    intros Hpre Hv He. induction Hpre as [|x pre (u & Hu & Hne) _ IH]; cbn [app DictUtils.find_loop].
    - rewrite (getitem_present _ _ _ Hv), He. reflexivity.
    - rewrite (getitem_present _ _ _ Hu), Hne, IH. reflexivity.
  Qed.

  (* items lacking the key: not skipped-and-unchanged *)
  Lemma find_loop_lacking_keyerror key want c s rest :
    no_factory c = true -> item_value key (VDict c s) = None ->
    find_loop (fold key) want (VDict c s :: rest) = (VDict c s :: rest, Err PyKeyError).
  Proof.
    intros Hc H. cbn [DictUtils.find_loop]. rewrite (getitem_lacking_keyerror _ _ _ Hc H). reflexivity.
  Qed.

  Lemma find_loop_lacking_factory key want c s rest :
    no_factory c = false -> item_value key (VDict c s) = None -> py_eqb (fresh (fold key)) want = false ->
    find_loop (fold key) want (VDict c s :: rest) =
      (VDict c (s ++ [(fold key, fresh (fold key))]) :: fst (find_loop (fold key) want rest),
       snd (find_loop (fold key) want rest)).
  Proof.
    intros Hc H Hne. cbn [DictUtils.find_loop]. rewrite (getitem_lacking_factory _ _ _ Hc H), Hne.
    destruct (find_loop (fold key) want rest). reflexivity.
  Qed.

  Lemma py_in_in_domain want v :
    findall_in_domain want v = true -> py_in fold v want = Ok (asked want v).
  Proof.
    unfold findall_in_domain. intros H. apply andb_true_iff in H. destruct H as [_ H].
    destruct want; try discriminate; cbn [py_in asked].
    - destruct v; try discriminate. apply eqb_prop in H. cbn [py_eqb]. rewrite H. reflexivity.
    - reflexivity.
  Qed.

  (* findall: the items, in list order, whose key equals / is one of the
     values asked for; list unchanged *)
  Lemma findall_loop_in_domain key want lst :
    Forall (fun it => exists v, item_value key it = Some v /\ findall_in_domain want v = true) lst ->
    findall_loop (fold key) want lst = (lst, Ok (spec_findall fold lst key want)).
  Proof.
    intros H. induction H as [|it lst (v & Hv & Hg) _ IH]; [reflexivity|].
    cbn [DictUtils.findall_loop]. rewrite (getitem_present _ _ _ Hv).
    assert (Ht : truthy v = true).
    { unfold findall_in_domain in Hg. apply andb_true_iff in Hg. tauto. }
    rewrite Ht, (getitem_present _ _ _ Hv), (py_in_in_domain _ _ Hg), IH.
    unfold spec_findall. cbn [filter]. rewrite Hv. reflexivity.
  Qed.

  Lemma findall_loop_lacking_keyerror key want c s rest :
    no_factory c = true -> item_value key (VDict c s) = None ->
    findall_loop (fold key) want (VDict c s :: rest) = (VDict c s :: rest, Err PyKeyError).
  Proof.
    intros Hc H. cbn [DictUtils.findall_loop]. rewrite (getitem_lacking_keyerror _ _ _ Hc H). reflexivity.
  Qed.

  (* a Mapfile dict lacking the key is skipped in the result but gets the key *)
  Lemma findall_loop_lacking_factory key want c s rest :
    no_factory c = false -> item_value key (VDict c s) = None ->
    findall_loop (fold key) want (VDict c s :: rest) =
      (VDict c (s ++ [(fold key, fresh (fold key))]) :: fst (findall_loop (fold key) want rest),
       snd (findall_loop (fold key) want rest)).
  Proof.
    intros Hc H. cbn [DictUtils.findall_loop]. rewrite (getitem_lacking_factory _ _ _ Hc H), truthy_fresh.
    destruct (findall_loop (fold key) want rest). reflexivity.
  Qed.

  (* ================================================================ *)
  (* findunique *)

  (* string order facts *)
  Lemma str_leb_total a b : str_leb a b = false -> str_leb b a = true.
  Proof.
    revert b; induction a as [|x a IH]; intros [|y b]; cbn [str_leb]; try discriminate; try reflexivity.
    destruct (N.ltb_spec x y) as [Hlt|Hge]; [discriminate|].
    destruct (N.eqb_spec x y) as [->|Hne].
    - rewrite N.ltb_irrefl, N.eqb_refl. apply IH.
    - intros _. destruct (N.ltb_spec y x) as [_|Hge2]; [reflexivity|].
      exfalso. apply Hne. apply N.le_antisymm; assumption.
  Qed.

  Fixpoint insert_str (x : str) (l : list str) : list str :=
    match l with
    | [] => [x]
    | y :: l' => if str_leb x y then x :: y :: l' else y :: insert_str x l'
    end.

  Definition sort_str (l : list str) : list str := fold_right insert_str [] l.

  Lemma sort_values_strs ss : sort_values (map VStr ss) = map VStr (sort_str ss).
  Proof.
    unfold sort_values, sort_str. induction ss as [|x ss IH]; [reflexivity|].
    cbn [map fold_right]. rewrite IH. generalize (fold_right insert_str [] ss). intros l.
    induction l as [|y l IHl]; [reflexivity|].
    cbn [map insert_sorted insert_str val_leb]. destruct (str_leb x y); [reflexivity|].
    cbn [map]. rewrite IHl. reflexivity.
  Qed.

  Lemma In_insert_str x y l : In y (insert_str x l) <-> y = x \/ In y l.
  Proof.
    induction l as [|z l IH]; cbn [insert_str In]; [intuition congruence|].
    destruct (str_leb x z); cbn [In]; [intuition congruence|]. rewrite IH. intuition congruence.
  Qed.

  Lemma In_sort_str y l : In y (sort_str l) <-> In y l.
  Proof.
    induction l as [|x l IH]; cbn [sort_str fold_right In]; [tauto|].
    fold (sort_str l). rewrite In_insert_str, IH. intuition congruence.
  Qed.

  Lemma NoDup_insert_str x l : ~ In x l -> NoDup l -> NoDup (insert_str x l).
  Proof.
    induction l as [|z l IH]; cbn [insert_str]; intros Hn Hd.
    - constructor; [simpl; tauto|constructor].
    - destruct (str_leb x z); [constructor; assumption|].
      inversion Hd as [|? ? Hz Hd']; subst. constructor.
      + rewrite In_insert_str. cbn [In] in Hn. intuition congruence.
      + apply IH; [cbn [In] in Hn; tauto|assumption].
  Qed.

  Lemma NoDup_sort_str l : NoDup l -> NoDup (sort_str l).
  Proof.
    induction l as [|x l IH]; intros Hd; [constructor|].
    inversion Hd as [|? ? Hx Hd']; subst. cbn [sort_str fold_right]. fold (sort_str l).
    apply NoDup_insert_str; [rewrite In_sort_str; assumption|auto].
  Qed.

  (* adjacent elements in order *)
  Fixpoint sorted_leb (l : list str) : Prop :=
    match l with
    | [] => True
    | x :: l' => match l' with [] => True | y :: _ => str_leb x y = true end /\ sorted_leb l'
    end.

  Lemma sorted_insert_str x l : sorted_leb l -> sorted_leb (insert_str x l).
  Proof.
    induction l as [|z l IH]; cbn [insert_str]; intros Hs; [cbn; auto|].
    destruct (str_leb x z) eqn:E; [cbn [sorted_leb]; auto|].
    cbn [sorted_leb] in Hs. destruct Hs as [Hz Hs]. specialize (IH Hs).
    cbn [sorted_leb]. split; [|exact IH].
    destruct l as [|w l]; cbn [insert_str].
    - apply str_leb_total. exact E.
    - destruct (str_leb x w); [apply str_leb_total; exact E|exact Hz].
  Qed.

  Lemma sorted_sort_str l : sorted_leb (sort_str l).
  Proof.
    induction l as [|x l IH]; [cbn; auto|]. cbn [sort_str fold_right]. fold (sort_str l).
    apply sorted_insert_str. exact IH.
  Qed.

  Lemma increasing_of_sorted l : sorted_leb l -> NoDup l -> increasing l.
  Proof.
    induction l as [|x l IH]; intros Hs Hd; [cbn; auto|].
    cbn [sorted_leb] in Hs. destruct Hs as [Hx Hs]. inversion Hd as [|? ? Hn Hd']; subst.
    cbn [increasing]. split; [|auto].
    destruct l as [|y l]; [auto|]. split; [exact Hx|]. intros ->. apply Hn. simpl. auto.
  Qed.

  Lemma py_eqb_simple a b : simple a -> simple b -> (py_eqb a b = true <-> a = b).
  Proof.
    intros [->|(s & ->)] [->|(t & ->)]; cbn [py_eqb]; split; try discriminate; try reflexivity.
    - intros H. apply str_eqb_eq in H. congruence.
    - intros [= ->]. apply str_eqb_refl.
  Qed.

  Lemma In_dedupe x l : In x (dedupe l) -> In x l.
  Proof.
    revert x; induction l as [|y l IH]; intros x; cbn [dedupe In]; [tauto|].
    intros [->|H]; [auto|]. apply filter_In in H. right. apply IH. tauto.
  Qed.

  Lemma dedupe_simple l :
    Forall simple l -> NoDup (dedupe l) /\ (forall y, In y (dedupe l) <-> In y l).
  Proof.
    intros Hs. induction Hs as [|x l Hx Hs IH]; [split; [constructor|tauto]|].
    destruct IH as [Hd Hi]. cbn [dedupe]. split.
    - constructor; [|apply NoDup_filter; exact Hd].
      intros H. apply filter_In in H. destruct H as [_ H].
      assert (E : py_eqb x x = true) by (apply py_eqb_simple; auto). rewrite E in H. discriminate.
    - intros y. cbn [In]. rewrite filter_In, Hi. split.
      + intros [->|[H _]]; auto.
      + intros [->|H]; [auto|].
        destruct (py_eqb x y) eqn:E.
        * left. apply py_eqb_simple in E; auto. rewrite Forall_forall in Hs. auto.
        * right. auto.
  Qed.

  Notation findunique_item_ok := (findunique_item_ok fold).

  Lemma collect_simple key lst :
    Forall (findunique_item_ok key) lst ->
    collect fold (fold key) lst = Ok (map (fun it => old_or (item_value key it) VNone) lst).
  Proof.
    intros H. induction H as [|it lst [Hd Hv] _ IH]; [reflexivity|].
    cbn [collect map]. destruct it as [| | | | | |c s]; try discriminate.
    cbn [py_get bind]. unfold d_get. change (DictUtils.nk fold c (fold key)) with (key_of c (fold key)).
    unfold UpdateSpec.item_value in *. cbn [UpdateSpec.lookup] in *.
    destruct (assoc (key_of c (fold key)) s) as [v|]; cbn [old_or].
    - destruct Hv as [->|(t & ->)]; cbn [hashable]; rewrite IH; reflexivity.
    - cbn [hashable]. rewrite IH. reflexivity.
  Qed.

  Lemma strs_of_values (us : list value) :
    Forall (fun v => exists s, v = VStr s) us -> exists ss, us = map VStr ss.
  Proof.
    intros H. induction H as [|v us (s & ->) _ (ss & ->)]; [exists []; reflexivity|].
    exists (s :: ss). reflexivity.
  Qed.

  Lemma py_sorted_strs ss : py_sorted (map VStr ss) = Ok (map VStr (sort_str ss)).
  Proof.
    destruct ss as [|a [|b ss]]; try reflexivity.
    unfold py_sorted. cbn [map].
    assert (E : forallb is_str (VStr a :: VStr b :: map VStr ss) = true).
    { cbn [forallb is_str andb]. induction ss; [reflexivity|assumption]. }
    rewrite E. cbn [orb]. rewrite <- sort_values_strs. reflexivity.
  Qed.

  (* findunique: the distinct string values present, in increasing order;
     items lacking the key (or holding None) contribute nothing *)
  Lemma findunique_strings lst key :
    Forall (findunique_item_ok key) lst ->
    exists rs, findunique fold lst key = Ok (map VStr rs) /\ increasing rs /\
               forall s, In s rs <-> exists it, In it lst /\ item_value key it = Some (VStr s).
  Proof.
    intros H. unfold findunique. rewrite (collect_simple _ _ H). cbn [bind].
    set (vs := map (fun it => old_or (item_value key it) VNone) lst).
    assert (Hvs : Forall simple vs).
    { unfold vs. apply Forall_forall. intros v Hv. apply in_map_iff in Hv.
      destruct Hv as (it & <- & Hit). rewrite Forall_forall in H. destruct (H it Hit) as [_ Hs].
      destruct (item_value key it); [exact Hs|left; reflexivity]. }
    destruct (dedupe_simple vs Hvs) as [Hnd Hin].
    set (us := filter (fun v => negb (is_none v)) (dedupe vs)).
    assert (Hus : Forall (fun v => exists s, v = VStr s) us).
    { apply Forall_forall. intros v Hv. apply filter_In in Hv. destruct Hv as [Hv Hn].
      apply Hin in Hv. rewrite Forall_forall in Hvs. destruct (Hvs v Hv) as [->|E]; [discriminate|exact E]. }
    destruct (strs_of_values us Hus) as (ss & Hss). rewrite Hss, py_sorted_strs.
    exists (sort_str ss). split; [reflexivity|].
    assert (Hdss : NoDup ss).
    { apply (NoDup_map_inv VStr). rewrite <- Hss. apply NoDup_filter. exact Hnd. }
    split; [apply increasing_of_sorted; [apply sorted_sort_str|apply NoDup_sort_str; exact Hdss]|].
    intros s. rewrite In_sort_str.
    assert (E : In s ss <-> In (VStr s) us).
    { rewrite Hss. split; [apply in_map|]. intros Hm. apply in_map_iff in Hm.
      destruct Hm as (t & [= ->] & Ht). exact Ht. }
    rewrite E. unfold us. rewrite filter_In, Hin. unfold vs. rewrite in_map_iff. split.
    - intros [(it & Hv & Hit) _]. exists it. split; [exact Hit|].
      destruct (item_value key it); cbn [old_or] in Hv; [congruence|discriminate].
    - intros (it & Hit & Hv). split; [|reflexivity]. exists it. rewrite Hv. auto.
  Qed.

  (* an item lacking the key is skipped: the result is that of the list without it *)
  Lemma nn_dedupe l :
    filter (fun v => negb (is_none v)) (dedupe l) = dedupe (filter (fun v => negb (is_none v)) l).
  Proof.
    induction l as [|x l IH]; [reflexivity|]. cbn [dedupe filter].
    destruct (is_none x) eqn:Nx; cbn [negb].
    - destruct x; try discriminate. rewrite filter_filter_comm, IH.
      apply filter_all_true. intros y Hy. apply In_dedupe in Hy. apply filter_In in Hy.
      destruct Hy as [_ Hy]. destruct y; try discriminate; reflexivity.
    - cbn [dedupe]. f_equal. rewrite filter_filter_comm, IH. reflexivity.
  Qed.

  Lemma collect_app key l1 l2 :
    collect fold key (l1 ++ l2) = do a <- collect fold key l1; do b <- collect fold key l2; Ok (a ++ b).
  Proof.
    induction l1 as [|x l1 IH]; cbn [app collect bind].
    - destruct (collect fold key l2); reflexivity.
    - destruct (py_get fold x key VNone) as [v|e]; cbn [bind]; [|reflexivity].
      destruct (hashable v); [|reflexivity]. rewrite IH.
      destruct (collect fold key l1); cbn [bind]; [|reflexivity].
      destruct (collect fold key l2); reflexivity.
  Qed.

  Lemma findunique_lacking_skipped pre it post key :
    is_dict it = true -> item_value key it = None ->
    findunique fold (pre ++ it :: post) key = findunique fold (pre ++ post) key.
  Proof.
    intros Hd Hn. unfold findunique. rewrite !collect_app. cbn [collect].
    destruct it as [| | | | | |c s]; try discriminate.
    cbn [py_get bind]. unfold d_get. change (DictUtils.nk fold c (fold key)) with (key_of c (fold key)).
    unfold UpdateSpec.item_value in Hn. cbn [UpdateSpec.lookup] in Hn. rewrite Hn. cbn [hashable].
    destruct (collect fold (fold key) pre) as [a|e]; cbn [bind]; [|reflexivity].
    destruct (collect fold (fold key) post) as [b|e]; cbn [bind]; [|reflexivity].
    rewrite !nn_dedupe, !filter_app. reflexivity.
  Qed.

  (* ================================================================ *)
  (* findkey *)
  Lemma replace_nth_same n x l : nth_error l n = Some x -> replace_nth n x l = l.
  Proof.
    revert n; induction l as [|y l IH]; intros [|n]; cbn [nth_error replace_nth]; try discriminate.
    - intros [= ->]. reflexivity.
    - intros H. rewrite IH by exact H. reflexivity.
  Qed.

  Lemma norm_index_of i n k : index_of i n = Some k -> norm_index i n = Some k.
  Proof.
    unfold index_of, norm_index.
    destruct (Z.leb_spec 0 i) as [Hp|Hn].
    - destruct (Z.ltb_spec i (Z.of_nat n)) as [Hl|]; [|discriminate].
      destruct (Z.ltb_spec i 0); [lia|].
      destruct (Z.leb_spec 0 i); [|lia]. destruct (Z.ltb_spec i (Z.of_nat n)); [|lia]. auto.
    - destruct (Z.leb_spec (- Z.of_nat n) i) as [Hl|]; [|discriminate].
      destruct (Z.ltb_spec i 0); [|lia].
      destruct (Z.leb_spec 0 (i + Z.of_nat n)); [|lia].
      destruct (Z.ltb_spec (i + Z.of_nat n) (Z.of_nat n)); [|lia]. auto.
  Qed.

  Lemma findkey_path path : forall d v,
    get_path fold d path = Some v -> findkey fold olk d path = (d, Ok v).
  Proof.
    induction path as [|pe path IH]; intros d v H; cbn [get_path] in H.
    - injection H as <-. reflexivity.
    - cbn [findkey]. destruct pe as [k|i].
      + destruct d as [| | | | | |c s]; try discriminate.
        destruct (lookup (VDict c s) k) as [x|] eqn:L; [|destruct c; discriminate].
        assert (G : py_index fold olk (VDict c s) (PKey k) = Ok (x, VDict c s)
                    /\ assoc (stored_key fold c k) s = Some x).
        { destruct c as [|f|f]; [|discriminate|]; cbn [py_index DictUtils.py_getitem d_getitem stored_key];
            cbn [UpdateSpec.lookup UpdateSpec.key_of] in L.
          - rewrite L. auto.
          - unfold ci_getitem, _k. rewrite !fold_idem, L. auto. }
        destruct G as [G1 G2]. rewrite G1.
        assert (Hx : get_path fold x path = Some v) by (destruct c; [exact H|discriminate|exact H]).
        rewrite (IH x v Hx). cbn [write_back]. rewrite od_replace_same by exact G2. reflexivity.
      + destruct d as [| | | | |l|]; try discriminate.
        destruct (index_of i (length l)) as [n|] eqn:I; [|discriminate].
        destruct (nth_error l n) as [x|] eqn:N; [|discriminate].
        cbn [py_index]. rewrite (norm_index_of _ _ _ I), N.
        rewrite (IH x v H). cbn [write_back]. rewrite (norm_index_of _ _ _ I).
        rewrite replace_nth_same by exact N. reflexivity.
  Qed.

  (* ================================================================ *)
  (* deleting / appending list items, at the level of update *)
  Lemma carries_is_dict v : carries_delete v = true -> is_dict v = true.
  Proof. destruct v; cbn; congruence. Qed.

  Lemma object_list_placeholders i l :
    object_list (VList l) = true -> object_list (VList (repeat VNone i ++ l)) = true.
  Proof. intros H. induction i as [|i IH]; [exact H|exact IH]. Qed.

  Lemma object_list_dicts l :
    Forall (fun n => is_dict n = true) l -> object_list (VList l) = true.
  Proof.
    intros H. induction H as [|n l Hn _ IH]; [reflexivity|].
    cbn [object_list forallb] in *. rewrite IH. destruct n; try discriminate. reflexivity.
  Qed.

  Lemma list_entry_inv rec ow lv old new :
    entry_law rec ow (VList lv) old new -> object_list (VList lv) = true ->
    exists origs newl, py_iter (old_or old (VList [])) = Ok origs /\
                       merge_lists fold rec origs lv = Ok newl /\ new = Some (VList newl).
  Proof.
    intros L Hol.
    inversion L as [Hi Hcd Ho|r0 Hi Hcd Hr|lv' origs newl Hv Hol' Hit Hml|Hp Hm Ho|Hp Hm Ho|Hp Hm Ho1 Ho2];
      subst; try discriminate;
      try (unfold plain_value in Hp; rewrite Hol in Hp; cbn in Hp; discriminate).
    injection Hv as <-. eauto.
  Qed.

  Lemma update_delete_item ow c1 c2 m p r k i n orig :
    wf_items c1 m -> carries_delete (VDict c2 p) = false -> patch_keys_distinct c1 p ->
    update fold ow (VDict c2 p) (VDict c1 m) = Ok r ->
    In (k, VList (repeat VNone i ++ [n])) p -> carries_delete n = true ->
    lookup (VDict c1 m) k = Some (VList orig) -> Forall (fun o => o <> VNone) orig ->
    (i < length orig)%nat ->
    lookup r k = Some (VList (firstn i orig ++ skipn (S i) orig)).
  Proof.
    intros Hw Hc Hd HU Hin Hcn Hl Hf Hi.
    pose proof (update_key_law ow c1 c2 m p Hw Hc Hd r k _ HU Hin) as L.
    assert (Hol : object_list (VList (repeat VNone i ++ [n])) = true).
    { apply object_list_placeholders. apply object_list_dicts. constructor; [|constructor].
      apply carries_is_dict. exact Hcn. }
    destruct (list_entry_inv _ _ _ _ _ L Hol) as (origs & newl & Hit & Hml & ->).
    rewrite Hl in Hit. cbn [old_or py_iter] in Hit. injection Hit as <-.
    rewrite merge_delete_item in Hml; auto.
    - injection Hml as <-. reflexivity.
    - intros ->. discriminate.
  Qed.

  Lemma update_list_append ow c1 c2 m p r k extras orig :
    wf_items c1 m -> carries_delete (VDict c2 p) = false -> patch_keys_distinct c1 p ->
    update fold ow (VDict c2 p) (VDict c1 m) = Ok r ->
    In (k, VList (repeat VNone (length orig) ++ extras)) p ->
    Forall (fun n => is_dict n = true /\ carries_delete n = false) extras ->
    lookup (VDict c1 m) k = Some (VList orig) -> Forall (fun o => o <> VNone) orig ->
    exists news, each_new (update fold ow) extras = Ok news /\ lookup r k = Some (VList (orig ++ news)).
  Proof.
    intros Hw Hc Hd HU Hin He Hl Hf.
    pose proof (update_key_law ow c1 c2 m p Hw Hc Hd r k _ HU Hin) as L.
    assert (Hol : object_list (VList (repeat VNone (length orig) ++ extras)) = true).
    { apply object_list_placeholders. apply object_list_dicts.
      eapply Forall_impl; [|exact He]. cbn. tauto. }
    destruct (list_entry_inv _ _ _ _ _ L Hol) as (origs & newl & Hit & Hml & ->).
    rewrite Hl in Hit. cbn [old_or py_iter] in Hit. injection Hit as <-.
    rewrite merge_append in Hml; auto.
    - destruct (each_new (update fold ow) extras) as [news|e]; cbn [bind] in Hml; [|discriminate].
      injection Hml as <-. eauto.
    - eapply Forall_impl; [|exact He]. cbn. intros n [Hn Hcn]. split; [|exact Hcn].
      intros ->. discriminate.
  Qed.

  (* ================================================================ *)
  (* totality: within shape compatibility update raises nothing *)
  Section Total.
    Variable rec : value -> value -> res value.
    Variable ow : bool.
    Variable comp : value -> value -> Prop.

    Lemma merge_total lv : forall lo,
      Forall (fun n => forall o, comp n o -> exists r, rec n o = Ok r) lv ->
      compat_items fold comp lv lo -> exists newl, merge_lists fold rec lo lv = Ok newl.
    Proof.
      induction lv as [|n lv IH]; intros lo Hrec Hc; cbn [merge_lists]; [eauto|].
      inversion Hrec as [|? ? Hn Hrec']; subst.
      cbn [compat_items] in Hc. destruct Hc as [Hc Hcs].
      destruct (IH (tl lo) Hrec' Hcs) as (rest & Hrest).
      assert (G : n <> VNone ->
                  exists newl,
                    (if delete_flag fold n then merge_lists fold rec (tl lo) lv
                     else do d <- rec n (none_to_empty (hd VNone lo));
                          do rest <- merge_lists fold rec (tl lo) lv; Ok (d :: rest)) = Ok newl).
      { intros Hnn. rewrite delete_flag_carries. destruct (carries_delete n) eqn:Cd; [eauto|].
        destruct Hc as [->|[Hc|Hc]]; [congruence|congruence|].
        destruct (Hn _ Hc) as (d & ->). cbn [bind]. rewrite Hrest. cbn [bind]. eauto. }
      destruct n; try (apply G; discriminate).
      rewrite Hrest. cbn [bind]. eauto.
    Qed.

    Lemma entry_total c s k v :
      (match v with
       | VDict _ _ => forall o, comp v o -> exists r, rec v o = Ok r
       | VList lv => Forall (fun n => forall o, comp n o -> exists r, rec n o = Ok r) lv
       | _ => True
       end) ->
      compat_entry fold comp (VDict c s) k v ->
      exists d', update_entry fold rec ow (VDict c s) k v = Ok d'.
    Proof.
      assert (Hsc : exists d', update_scalar fold ow (VDict c s) k v = Ok d').
      { unfold update_scalar. cbn [py_contains bind]. destruct (d_contains fold c k s) eqn:M; cbn [andb].
        - destruct (py_eqb v (VStr DELETE)).
          + unfold py_delitem, d_del. unfold d_contains in M. rewrite M. cbn [bind]. eauto.
          + destruct (ow || negb true); cbn [py_setitem]; eauto.
        - rewrite orb_true_r. cbn [py_setitem]. eauto. }
      intros Hrec Hc. destruct v as [| | | | |lv|cv sv]; cbn [update_entry]; try exact Hsc.
      - rewrite is_objlist_object_list. cbn [compat_entry] in Hc.
        destruct (object_list (VList lv)); [|exact Hsc].
        destruct Hc as (lo & Hlo & Hci). cbn [py_get bind]. unfold d_get.
        change (DictUtils.nk fold c k) with (key_of c k). cbn [UpdateSpec.lookup] in Hlo.
        rewrite Hlo. cbn [py_iter bind].
        destruct (merge_total lv lo Hrec Hci) as (newl & ->). cbn [bind py_setitem]. eauto.
      - rewrite delete_flag_carries. cbn [compat_entry] in Hc.
        destruct (carries_delete (VDict cv sv)).
        + unfold py_delitem, d_del. change (DictUtils.nk fold c k) with (key_of c k).
          cbn [UpdateSpec.lookup] in Hc. rewrite od_mem_assoc.
          destruct (assoc (key_of c k) s); [cbn [bind]; eauto|contradiction].
        + cbn [py_get bind]. unfold d_get. change (DictUtils.nk fold c k) with (key_of c k).
          cbn [UpdateSpec.lookup] in Hc.
          destruct (Hrec _ Hc) as (r & Hr).
          destruct (assoc (key_of c k) s); rewrite Hr; cbn [bind py_setitem]; eauto.
    Qed.

    Lemma compat_entry_frame c s s1 k v :
      assoc (key_of c k) s1 = assoc (key_of c k) s ->
      compat_entry fold comp (VDict c s) k v -> compat_entry fold comp (VDict c s1) k v.
    Proof.
      intros E. unfold compat_entry. cbn [UpdateSpec.lookup]. rewrite E. tauto.
    Qed.

    Lemma loop_total c : forall l s,
      wf_items c s -> patch_keys_distinct c l ->
      Forall (fun kv => match snd kv with
                        | VDict _ _ => forall o, comp (snd kv) o -> exists r, rec (snd kv) o = Ok r
                        | VList lv => Forall (fun n => forall o, comp n o -> exists r, rec n o = Ok r) lv
                        | _ => True
                        end) l ->
      compat_entries fold comp (VDict c s) l ->
      exists r, update_loop fold rec ow l (VDict c s) = Ok r.
    Proof.
      induction l as [|[k v] l IH]; intros s Hw Hd Hrec Hc; cbn [update_loop]; [eauto|].
      inversion Hrec as [|? ? Hv Hrec']; subst. cbn [snd] in Hv.
      cbn [compat_entries] in Hc. destruct Hc as [Hce Hcs].
      destruct (entry_total c s k v Hv Hce) as (d' & E). rewrite E. cbn [bind].
      pose proof (entry_shape _ _ _ _ _ _ _ E) as Es.
      destruct (entry_out_wf _ _ _ _ Es Hw) as (s1 & -> & Hw1).
      destruct (distinct_tail _ _ _ _ Hd) as [Hm Hd'].
      apply IH; auto.
      clear IH Hrec Hrec' Hd Hd' Hv Hce E. induction l as [|[k2 v2] l IHl]; [exact I|].
      cbn [compat_entries] in *. destruct Hcs as [H2 Hcs].
      apply not_mentions_tail in Hm. destruct Hm as [Hne Hm].
      split; [|apply IHl; assumption].
      eapply compat_entry_frame; [|exact H2].
      eapply entry_out_frame; [exact Es|]. congruence.
    Qed.
  End Total.

  Definition total_at (ow : bool) (v : value) : Prop :=
    forall d1, compatible fold v d1 -> exists r, update fold ow v d1 = Ok r.

  Lemma update_total_strong ow d2 :
    total_at ow d2 /\ match d2 with VList lv => Forall (total_at ow) lv | _ => True end.
  Proof.
    induction d2 as [| | | | |lv IH|c2 p IH] using value_ind';
      try solve [split; [intros d1 H; destruct H|exact I]].
    - split; [intros d1 H; destruct H|].
      eapply Forall_impl; [|exact IH]. cbn. tauto.
    - split; [|exact I]. intros d1 Hc. cbn [compatible] in Hc.
      destruct (carries_delete (VDict c2 p)) eqn:Cd.
      + rewrite update_root_delete by exact Cd. eauto.
      + destruct Hc as [Hc|Hc]; [discriminate|].
        rewrite update_unfold by exact Cd.
        destruct d1 as [| | | | | |c1 m]; try (subst p; cbn [update_loop]; eauto).
        destruct Hc as (Hw & Hd & Hce).
        eapply loop_total; [exact Hw|exact Hd| |exact Hce].
        eapply Forall_impl; [|exact IH]. intros [k v] [Ht Hl]. cbn [snd] in *.
        destruct v; try exact I; [exact Hl|exact Ht].
  Qed.

  Lemma update_total ow d2 d1 : compatible fold d2 d1 -> exists r, update fold ow d2 d1 = Ok r.
  Proof. exact (proj1 (update_total_strong ow d2) d1). Qed.

End Proofs.
