(* C14 (printer half), universal: which comments the printer writes.

   Proofs/PrintU_Abs.v factors pprint through an abstract document (a_pprint).
   This file refines that document once more: [t_pprint] is the same printer
   whose lines also say WHICH comment items (values read out of a __comments__
   dict) they contain:

     TL a              a line without any comment
     TC d items        the comment lines written above a block: one line per item
     TKV d L k v cm    an attribute line; cm = Some items: the end-of-line comment made of these items
     TP d items        the comment line written inside a PROJECTION block

   Theorems
     t_pprint_factors       a_pprint q sct d = the erasure of t_pprint q sct d (no hypothesis; same exception)
     pprint_traced          pprint o d = Ok (s, d') -> s = render o (untrace T) for the traced document T
     written_sub_stored     the comment items written are a sub-multiset of the comment items stored in the
                            printed value (each stored item written at most once), under the guard [pguard]:
                            in the dicts the printer visits the printed keys are pairwise different (true
                            of every Python dict) and a dict-valued __comments__ entry is a plain dict of
                            lists of strings (what the transformer builds: Proofs/C14U_Guard.v)
     pguard_items_are_strings   under the guard every comment item the printer can read is a string *)
From Coq Require Import Permutation.
From MF Require Import Lib.Base Lib.PyDict Lib.Json Gen.Tokens Gen.Schemas Model.Case Model.SchemaStore
  Model.Quoter Model.PPrint Proofs.PPrintFacts Proofs.PrintU_Pure Proofs.PrintU_Abs Proofs.C14U_Multiset.
Open Scope nat_scope.

(* ================================================================ what is read out of a comments object *)
Definition citems (w : value) : list value := match w with VList l => l | _ => [w] end.

Definition is_vstr (e : value) : bool := match e with VStr _ => true | _ => false end.
Definition all_str (l : list value) : bool := forallb is_vstr l.

(* the items _add_type_comment / process_composite_comment print, one per line *)
Definition ccomment (comments : value) (key : str) : res (option (list value)) :=
  do present <- val_contains comments key;
  if negb present then Ok None
  else do value <- val_getitem comments key; Ok (Some (citems value)).

(* the items process_attribute_comment prints on one line (a list must hold strings only) *)
Definition acomment (comments : value) (key : str) : res (option (list value)) :=
  do present <- val_contains comments key;
  if negb present then Ok None
  else
    do value <- val_getitem comments key;
    match value with
    | VList l => if all_str l then Ok (Some l) else Err PyTypeError
    | _ => Ok (Some [value])
    end.

(* the text of an end-of-line comment *)
Definition attr_text (o : option (list value)) : str :=
  match o with
  | None => []
  | Some items => [c_sp] ++ join [c_sp] (map py_str items)
  end.

Lemma join_values_all_str sep l : all_str l = true -> join_values sep l = Ok (join sep (map py_str l)).
Proof.
  induction l as [|e l IH]; [reflexivity|]. cbn [all_str forallb]. intros H. apply andb_true_iff in H.
  destruct H as [He Hl]. destruct e as [| | | |s| |]; try discriminate He.
  destruct l as [|e2 l]; [reflexivity|].
  change (join_values sep (VStr s :: e2 :: l)) with (do r <- join_values sep (e2 :: l); Ok (s ++ sep ++ r)).
  rewrite (IH Hl). reflexivity.
Qed.

Lemma join_values_not_all_str sep l : all_str l = false -> join_values sep l = Err PyTypeError.
Proof.
  induction l as [|e l IH]; [discriminate|]. cbn [all_str forallb]. intros H.
  destruct e as [| | | |s| |]; try (destruct l; reflexivity).
  cbn [is_vstr andb] in H. destruct l as [|e2 l]; [discriminate H|].
  change (join_values sep (VStr s :: e2 :: l)) with (do r <- join_values sep (e2 :: l); Ok (s ++ sep ++ r)).
  rewrite (IH H). reflexivity.
Qed.

Lemma pac_factor comments key :
  process_attribute_comment comments key = rmap attr_text (acomment comments key).
Proof.
  unfold process_attribute_comment, acomment.
  destruct (val_contains comments key) as [present|e]; cbn [bind rmap]; [|reflexivity].
  destruct present; cbn [negb]; [|reflexivity].
  destruct (val_getitem comments key) as [value|e]; cbn [bind rmap]; [|reflexivity].
  destruct value as [| | | | |l|]; try reflexivity.
  destruct (all_str l) eqn:E.
  - rewrite (join_values_all_str _ _ E). reflexivity.
  - rewrite (join_values_not_all_str _ _ E). reflexivity.
Qed.

(* ================================================================ traced lines *)
Inductive tline :=
| TL (a : aline)
| TC (depth : nat) (items : list value)
| TKV (depth : nat) (L : option nat) (key vtext : str) (cm : option (list value))
| TP (depth : nat) (items : list value).

Definition untrace1 (t : tline) : aline :=
  match t with
  | TL a => a
  | TC d items => AComments d (map py_str items)
  | TKV d L k v cm => AKV d L k (v ++ attr_text cm)
  | TP d items => ALine d (py_strip (attr_text (Some items)))
  end.

Definition untrace (T : list tline) : list aline := map untrace1 T.

(* the comment items a traced document writes *)
Definition written1 (t : tline) : list value :=
  match t with
  | TL _ => []
  | TC _ items => items
  | TKV _ _ _ _ (Some items) => items
  | TKV _ _ _ _ None => []
  | TP _ items => items
  end.

Definition written (T : list tline) : list value := flat_map written1 T.

Lemma untrace_app A B : untrace (A ++ B) = untrace A ++ untrace B.
Proof. apply map_app. Qed.

Lemma untrace_TL A : untrace (map TL A) = A.
Proof. unfold untrace. rewrite map_map. apply map_id. Qed.

Lemma written_app A B : written (A ++ B) = written A ++ written B.
Proof. apply flat_map_app. Qed.

Lemma written_TL A : written (map TL A) = [].
Proof. induction A as [|a A IH]; [reflexivity|exact IH]. Qed.

Lemma written_TL1 a : written [TL a] = [].
Proof. reflexivity. Qed.

Lemma written_cons_TL a T : written (TL a :: T) = written T.
Proof. reflexivity. Qed.

Ltac wsimp :=
  repeat first [rewrite written_cons_TL | rewrite written_app | rewrite written_TL1
               | rewrite written_TL | rewrite app_nil_r]; cbn [app].

Lemma written_TC1 d items : written [TC d items] = items.
Proof. cbn. apply app_nil_r. Qed.

Lemma written_TP1 d items : written [TP d items] = items.
Proof. cbn. apply app_nil_r. Qed.

Lemma untrace_concat Ls : untrace (concat Ls) = concat (map untrace Ls).
Proof. unfold untrace. apply concat_map. Qed.

Definition unt (r : res (list tline)) : res (list aline) := rmap untrace r.

Definition unt2 (r : res (list tline * value)) : res (list aline * value) :=
  match r with Ok Tv => Ok (untrace (fst Tv), snd Tv) | Err e => Err e end.

(* ================================================================ the traced printer *)
Section Traced.
  Variables (q : N) (sct : bool).

  Definition t_type_comment (level : nat) (comments : value) : res (list tline) :=
    do o <- ccomment comments (Str "__type__");
    Ok (match o with None => [] | Some items => [TC (level + 0) items] end).

  Fixpoint t_process_dict_lines (level : nat) (L : option nat) (comments : value)
           (l : list (str * value)) : res (list tline) :=
    match l with
    | [] => Ok []
    | (k, v) :: l' =>
        if is_metadata k then t_process_dict_lines level L comments l'
        else
          do cm <- acomment comments k;
          do rest <- t_process_dict_lines level L comments l';
          Ok (TKV (level + 2) L (add_quotes q k) (add_quotes_v q v) cm :: rest)
    end.

  Definition t_process_key_dict (key : str) (d : value) (level : nat) : res (list tline) :=
    match d with
    | VDict c items =>
        let comments := dict_get c (Str "__comments__") items (VDict DPlain []) in
        do tc <- t_type_comment level comments;
        do body <- t_process_dict_lines level (Some (compute_max_key_length items + 2)) comments items;
        Ok (tc ++ [TL (ALine (level + 1) (upper key))] ++ body ++ [TL (AEnd (level + 1) (upper key))])
    | _ => Err PyAttributeError
    end.

  (* the block is laid out without comment; the comment line goes right after the first line *)
  Definition t_process_projection (key : str) (lst : value) (level : nat) (o : option (list value))
    : res (list tline) :=
    do A <- a_process_projection q key lst level [];
    Ok (match A with
        | x :: r => TL x :: match o with Some items => [TP (level + 2) items] | None => [] end ++ map TL r
        | [] => []
        end).

  Definition t_format_header (c : dcls) (items : list (str * value)) (comments : value) (level : nat)
    : res (str * list tline) :=
    if dict_in c (Str "__type__") items then
      do t <- dict_getitem c (Str "__type__") items;
      match t with
      | VStr type_ =>
          if mem_str type_ all_composite_names then
            do tc <- t_type_comment level comments;
            Ok (type_, tc ++ [TL (ALine (level + 0) (upper type_))])
          else Err PyAssertionError
      | VList _ | VDict _ _ => Err PyTypeError
      | _ => Err PyAssertionError
      end
    else Ok ([], []).

  Definition t_format_item (rec : value -> res (list tline * value))
             (type_ : str) (comments : value) (level L : nat)
             (attr : str) (value_ : value) : res (list tline * value) :=
    if is_metadata attr then Ok ([], value_)
    else if is_hidden_container attr value_ then
      match value_ with
      | VList vs =>
          do rs <- mapM rec vs;
          Ok (concat (map fst rs), VList (map snd rs))
      | _ => Ok ([], value_)
      end
    else if str_eqb attr (Str "pattern") then
      do ls <- a_format_pair_list attr value_ level; Ok (map TL ls, value_)
    else if mem_str attr key_dict_names then
      do ls <- t_process_key_dict attr value_ level; Ok (ls, value_)
    else if str_eqb attr (Str "projection") then
      do o <- acomment comments attr;
      do ls <- t_process_projection attr value_ level o; Ok (ls, value_)
    else if mem_str attr REPEATED_KEYS then
      do ls <- a_process_repeated_list q attr value_ level L; Ok (map TL ls, value_)
    else if str_eqb attr (Str "points") then
      do ls <- a_format_repeated_pair_list attr value_ level; Ok (map TL ls, value_)
    else if str_eqb attr (Str "config") then
      do ls <- a_process_config_dict q value_ level; Ok (map TL ls, value_)
    else if is_composite value_ then rec value_
    else
      match type_ with
      | [] => Err PyUnboundLocalError
      | _ =>
          do line <- a_process_attribute q sct type_ attr value_ level L;
          do cm <- acomment comments attr;
          Ok ([match line with
               | AKV d L' k v => TKV d L' k v cm
               | other => TL other
               end], value_)
      end.

  Fixpoint t_collect_items (l : list (str * (value * res (list tline * value))))
    : res (list tline * list (str * value)) :=
    match l with
    | [] => Ok ([], [])
    | (k, (_, r)) :: l' =>
        do lv <- r;
        do rest <- t_collect_items l';
        Ok (fst lv ++ fst rest, (k, snd lv) :: snd rest)
    end.

  Fixpoint t_format (level : nat) (composite : value) {struct composite} : res (list tline * value) :=
    match composite with
    | VDict c items =>
        let comments := dict_get c (Str "__comments__") items (VDict DPlain []) in
        do hd <- t_format_header c items comments level;
        let type_ := fst hd in
        let L := compute_max_key_length items in
        let results :=
          map (fun kv => (fst kv, (snd kv, t_format_item (fun x => t_format (S level) x) type_ comments level
                                                         L (fst kv) (snd kv)))) items in
        do sorted <- separate_complex_g (oc q sct) (fun a => fst a) c level results;
        do body <- t_collect_items sorted;
        match type_ with
        | [] => Err PyUnboundLocalError
        | _ => Ok (snd hd ++ fst body ++ [TL (AEnd (level + 0) (upper type_))], VDict c (snd body))
        end
    | _ => Err PyAttributeError
    end.

  Definition t_pprint_one (composite : value) : res (list tline * value) :=
    match composite with
    | VDict c items =>
        match assoc (kfold_item c (Str "__type__")) items with
        | None => if has_factory c then Err PyTypeError else Err PyKeyError
        | Some t =>
            match t with
            | VStr type_ =>
                if mem_str type_ [Str "metadata"; Str "validation"; Str "connectionoptions"]
                then do ls <- t_process_key_dict type_ composite 0; Ok (ls, composite)
                else t_format 0 composite
            | _ => t_format 0 composite
            end
        end
    | _ => Err PyTypeError
    end.

  Definition t_pprint (composites : value) : res (list tline * value) :=
    if negb (N.eqb q c_sq || N.eqb q c_dq) then Err PyAssertionError
    else
      match composites with
      | VList l =>
          do rs <- mapM t_pprint_one l;
          Ok (concat (map fst rs), VList (map snd rs))
      | _ =>
          if truthy composites then
            do r <- t_pprint_one composites; Ok r
          else
            match composites with
            | VStr _ | VDict _ _ => Ok ([], composites)
            | _ => Err PyTypeError
            end
      end.

  (* ---------------------------------------------------------- erasing the trace gives the abstract printer *)
  Lemma type_comment_unt level comments :
    a_type_comment level comments = unt (t_type_comment level comments).
  Proof.
    unfold a_type_comment, t_type_comment, ccomment, unt.
    destruct (val_contains comments (Str "__type__")) as [present|e]; cbn [bind rmap]; [|reflexivity].
    destruct present; cbn [negb bind rmap]; [|reflexivity].
    destruct (val_getitem comments (Str "__type__")) as [value|e]; cbn [bind rmap]; [|reflexivity].
    destruct value; reflexivity.
  Qed.

  Lemma process_dict_lines_unt level L comments l :
    a_process_dict_lines q level L comments l = unt (t_process_dict_lines level L comments l).
  Proof.
    induction l as [|[k v] l IH]; cbn [a_process_dict_lines t_process_dict_lines]; [reflexivity|].
    destruct (is_metadata k); [exact IH|].
    rewrite pac_factor. destruct (acomment comments k) as [cm|e]; cbn [rmap bind unt]; [|reflexivity].
    rewrite IH. destruct (t_process_dict_lines level L comments l) as [rest|e]; cbn [unt rmap bind]; reflexivity.
  Qed.

  Lemma process_key_dict_unt key d level :
    a_process_key_dict q key d level = unt (t_process_key_dict key d level).
  Proof.
    unfold a_process_key_dict, t_process_key_dict. destruct d as [| | | | | |c items]; try reflexivity.
    rewrite type_comment_unt.
    destruct (t_type_comment level _) as [tc|e]; cbn [unt rmap bind]; [|reflexivity].
    rewrite process_dict_lines_unt.
    destruct (t_process_dict_lines level _ _ items) as [body|e]; cbn [unt rmap bind]; [|reflexivity].
    rewrite !untrace_app. reflexivity.
  Qed.

  Lemma process_projection_unt key lst level o :
    a_process_projection q key lst level (attr_text o) = unt (t_process_projection key lst level o).
  Proof.
    unfold t_process_projection, a_process_projection.
    match goal with |- bind ?B _ = _ => destruct B as [body|e] end; cbn [bind unt rmap]; [|reflexivity].
    cbn [app]. unfold untrace. cbn [map untrace1]. rewrite map_app.
    fold (untrace (map TL (body ++ [AEnd (level + 1) (upper key)]))). rewrite untrace_TL.
    destruct o as [items|]; reflexivity.
  Qed.

  Lemma format_header_unt c items comments level :
    a_format_header c items comments level
    = match t_format_header c items comments level with
      | Ok (t, T) => Ok (t, untrace T)
      | Err e => Err e
      end.
  Proof.
    unfold a_format_header, t_format_header.
    destruct (dict_in c (Str "__type__") items); [|reflexivity].
    destruct (dict_getitem c (Str "__type__") items) as [t|e]; cbn [bind]; [|reflexivity].
    destruct t as [| | | |type_| |]; try reflexivity.
    destruct (mem_str type_ all_composite_names); [|reflexivity].
    rewrite type_comment_unt. destruct (t_type_comment level comments) as [tc|e]; cbn [unt rmap bind]; [|reflexivity].
    rewrite untrace_app. reflexivity.
  Qed.

  Definition unt_result (a : value * res (list tline * value)) : value * res (list aline * value) :=
    (fst a, unt2 (snd a)).

  Lemma mapM_rec_unt (arec : value -> res (list aline * value)) (trec : value -> res (list tline * value)) vs :
    Forall (fun x => arec x = unt2 (trec x)) vs ->
    mapM arec vs = rmap (map (fun r => (untrace (fst r), snd r))) (mapM trec vs).
  Proof.
    induction 1 as [|x vs Hx _ IH]; cbn [mapM]; [reflexivity|].
    rewrite Hx. destruct (trec x) as [[A v]|e]; cbn [bind unt2 rmap fst snd]; [|reflexivity].
    rewrite IH. destruct (mapM trec vs) as [rs|e]; cbn [bind rmap]; reflexivity.
  Qed.

  Lemma bind_TL (r : res (list aline)) (v : value) :
    (do ls <- r; Ok (ls, v)) = unt2 (do ls <- r; Ok (map TL ls, v)).
  Proof. destruct r; cbn [bind unt2 fst snd]; [rewrite untrace_TL|]; reflexivity. Qed.

  Lemma bind_unt (r : res (list tline)) (v : value) :
    (do ls <- unt r; Ok (ls, v)) = unt2 (do ls <- r; Ok (ls, v)).
  Proof. destruct r; reflexivity. Qed.

  Lemma format_item_unt (arec : value -> res (list aline * value)) (trec : value -> res (list tline * value))
        type_ comments level L attr v :
    (is_composite v = true -> arec v = unt2 (trec v)) ->
    (forall vs, v = VList vs -> Forall (fun x => arec x = unt2 (trec x)) vs) ->
    a_format_item q sct arec type_ comments level L attr v
    = unt2 (t_format_item trec type_ comments level L attr v).
  Proof.
    intros Hc Hl. unfold a_format_item, t_format_item.
    destruct (is_metadata attr); [reflexivity|].
    destruct (is_hidden_container attr v).
    { destruct v as [| | | | |vs|]; try reflexivity.
      rewrite (mapM_rec_unt arec trec vs (Hl vs eq_refl)).
      destruct (mapM trec vs) as [rs|e]; cbn [bind rmap unt2 fst snd]; [|reflexivity].
      rewrite untrace_concat, !map_map. cbn [fst snd]. reflexivity. }
    destruct (str_eqb attr (Str "pattern")); [apply bind_TL|].
    destruct (mem_str attr key_dict_names).
    { rewrite process_key_dict_unt. apply bind_unt. }
    destruct (str_eqb attr (Str "projection")).
    { rewrite pac_factor. destruct (acomment comments attr) as [o|e]; cbn [rmap bind]; [|reflexivity].
      rewrite process_projection_unt. apply bind_unt. }
    destruct (mem_str attr REPEATED_KEYS); [apply bind_TL|].
    destruct (str_eqb attr (Str "points")); [apply bind_TL|].
    destruct (str_eqb attr (Str "config")); [apply bind_TL|].
    destruct (is_composite v); [apply Hc; reflexivity|].
    destruct type_ as [|t0 type_]; [reflexivity|].
    destruct (a_process_attribute q sct (t0 :: type_) attr v level L) as [al|e]; cbn [bind]; [|reflexivity].
    rewrite pac_factor. destruct (acomment comments attr) as [cm|e]; cbn [rmap bind unt2 fst snd]; [|reflexivity].
    destruct al; reflexivity.
  Qed.

  Lemma collect_items_unt l :
    a_collect_items (mapv unt_result l)
    = match t_collect_items l with
      | Ok (T, its) => Ok (untrace T, its)
      | Err e => Err e
      end.
  Proof.
    induction l as [|[k [v r]] l IH]; [reflexivity|].
    cbn [mapv map fst snd unt_result a_collect_items t_collect_items]. fold (mapv unt_result l).
    destruct r as [[A v']|e]; cbn [unt2 bind fst snd]; [|reflexivity].
    rewrite IH. destruct (t_collect_items l) as [[A2 its]|e]; cbn [bind fst snd]; [|reflexivity].
    rewrite untrace_app. reflexivity.
  Qed.

  Lemma format_unt v :
    (forall level, a_format q sct level v = unt2 (t_format level v))
    /\ match v with
       | VList l => Forall (fun x => forall level, a_format q sct level x = unt2 (t_format level x)) l
       | _ => True
       end.
  Proof.
    induction v as [| | | | |l IH|c items IH] using value_ind'; try (split; [reflexivity|exact I]).
    - split; [reflexivity|]. eapply Forall_impl; [|exact IH]. intros x Hx. apply Hx.
    - split; [|exact I]. intros level. cbn [a_format t_format].
      set (comments := dict_get c (Str "__comments__") items (VDict DPlain [])).
      rewrite format_header_unt.
      destruct (t_format_header c items comments level) as [[type_ thead]|e]; cbn [bind fst snd]; [|reflexivity].
      set (L := compute_max_key_length items).
      set (tresults := map (fun kv => (fst kv, (snd kv, t_format_item (fun x => t_format (S level) x)
                                                             type_ comments level L (fst kv) (snd kv)))) items).
      assert (Hres : map (fun kv => (fst kv, (snd kv, a_format_item q sct (fun x => a_format q sct (S level) x) type_ comments
                                                           level L (fst kv) (snd kv)))) items
                     = mapv unt_result tresults).
      { unfold tresults, mapv. rewrite map_map. cbn [fst snd]. unfold unt_result. cbn [fst snd].
        clear tresults. clearbody L comments. induction IH as [|[k v] items [HQ HL] _ IHl]; [reflexivity|].
        cbn [map fst snd]. rewrite IHl. f_equal. f_equal. f_equal.
        apply format_item_unt.
        - intros _. apply HQ.
        - intros vs ->. eapply Forall_impl; [|exact HL]. intros x Hx. apply Hx. }
      rewrite Hres.
      rewrite (separate_complex_g_mapv (oc q sct) unt_result (fun a => fst a)).
      change (fun a : value * res (list tline * value) => fst (unt_result a))
        with (fun a : value * res (list tline * value) => fst a).
      destruct (separate_complex_g (oc q sct) (fun a : value * res (list tline * value) => fst a) c level tresults)
        as [sorted|e]; cbn [rmap bind]; [|reflexivity].
      rewrite collect_items_unt.
      destruct (t_collect_items sorted) as [[A its]|e]; cbn [bind fst snd]; [|reflexivity].
      destruct type_ as [|t0 type_]; [reflexivity|]. cbn [unt2 fst snd].
      rewrite !untrace_app. reflexivity.
  Qed.

  Lemma pprint_one_unt v : a_pprint_one q sct v = unt2 (t_pprint_one v).
  Proof.
    unfold a_pprint_one, t_pprint_one. destruct v as [| | | | | |c items]; try reflexivity.
    destruct (assoc (kfold_item c (Str "__type__")) items) as [t|]; [|destruct (has_factory c); reflexivity].
    destruct t as [| | | |type_| |]; try apply (proj1 (format_unt _)).
    destruct (mem_str type_ [Str "metadata"; Str "validation"; Str "connectionoptions"]).
    - rewrite process_key_dict_unt. apply bind_unt.
    - apply (proj1 (format_unt _)).
  Qed.

  Theorem t_pprint_factors d : a_pprint q sct d = unt2 (t_pprint d).
  Proof.
    unfold a_pprint, t_pprint.
    destruct (negb (N.eqb q c_sq || N.eqb q c_dq)); [reflexivity|].
    assert (G : forall v,
               (if truthy v then do r <- a_pprint_one q sct v; Ok r
                else match v with VStr _ | VDict _ _ => Ok ([], v) | _ => Err PyTypeError end)
               = unt2 (if truthy v then do r <- t_pprint_one v; Ok r
                       else match v with VStr _ | VDict _ _ => Ok ([], v) | _ => Err PyTypeError end)).
    { intros v. destruct (truthy v).
      - rewrite pprint_one_unt. destruct (t_pprint_one v) as [[A x]|e]; reflexivity.
      - destruct v; reflexivity. }
    destruct d as [| | | | |l|]; try apply G.
    rewrite (mapM_rec_unt (a_pprint_one q sct) t_pprint_one l)
      by (apply Forall_forall; intros x _; apply pprint_one_unt).
    destruct (mapM t_pprint_one l) as [rs|e]; cbn [bind rmap unt2 fst snd]; [|reflexivity].
    rewrite untrace_concat, !map_map. cbn [fst snd]. reflexivity.
  Qed.
End Traced.

(* the text pprint returns is the rendering of the traced document *)
Theorem pprint_traced :
  forall o d,
    pprint o d =
    match t_pprint (quote o) (separate_complex_types o) d with
    | Ok (T, d') => Ok (render o (untrace T), d')
    | Err e => Err e
    end.
Proof.
  intros o d. rewrite pprint_factors, t_pprint_factors.
  destruct (t_pprint (quote o) (separate_complex_types o) d) as [[T d']|e]; reflexivity.
Qed.

(* ================================================================ the comment items stored in a value *)
Definition k_comments : str := Str "__comments__".
Definition k_type : str := Str "__type__".

(* a comments dict: key -> items *)
Definition pcd (cm : list (str * value)) : list value := flat_map (fun kv => citems (snd kv)) cm.

Definition pcentry (v : value) : list value := match v with VDict _ cm => pcd cm | _ => [] end.

(* the comment items stored where the printer can see them: the printer never
   looks below a key of the form __xxx__ (other than reading __comments__) *)
Fixpoint pstored (v : value) : list value :=
  match v with
  | VList l => flat_map pstored l
  | VDict _ items =>
      flat_map (fun kv => if str_eqb (fst kv) k_comments then pcentry (snd kv)
                          else if is_metadata (fst kv) then [] else pstored (snd kv)) items
  | _ => []
  end.

(* a comments dict the transformer builds: a plain dict of lists of strings *)
Definition strlist (v : value) : bool := match v with VList l => all_str l | _ => false end.

Definition cmgood (w : value) : bool :=
  match w with
  | VDict DPlain cm => forallb (fun kv => strlist (snd kv)) cm
  | VDict _ _ => false
  | _ => true
  end.

(* every dict-valued __comments__ entry is a plain dict (what the transformer builds) *)
Definition plainc (comments : value) : bool :=
  match comments with VDict DPlain _ => true | VDict _ _ => false | _ => true end.

Definition nonmeta (k : str) : bool := negb (is_metadata k).

(* what the printer relies on, in the dicts it visits (it never looks below a
   __xxx__ key): the keys it prints are pairwise different (true of every Python
   dict) and a __comments__ entry that is a dict is a plain dict of lists of strings *)
Fixpoint pguard (v : value) : bool :=
  match v with
  | VList l => forallb pguard l
  | VDict _ items =>
      nodupb (filter nonmeta (keys items))
      && forallb (fun kv => if is_metadata (fst kv)
                            then (if str_eqb (fst kv) k_comments then cmgood (snd kv) else true)
                            else pguard (snd kv)) items
  | _ => true
  end.

Lemma cmgood_plainc w : cmgood w = true -> plainc w = true.
Proof. destruct w as [| | | | | |c cm]; try reflexivity. destruct c; [reflexivity|discriminate|discriminate]. Qed.

Lemma meta_comments : is_metadata k_comments = true. Proof. vm_compute. reflexivity. Qed.
Lemma meta_type : is_metadata k_type = true. Proof. vm_compute. reflexivity. Qed.
Lemma lower_k_comments : lower k_comments = k_comments. Proof. vm_compute. reflexivity. Qed.

Lemma nonmeta_not_comments k : is_metadata k = false -> str_eqb k k_comments = false.
Proof.
  intros H. destruct (str_eqb_spec k k_comments) as [->|]; [|reflexivity]. rewrite meta_comments in H. discriminate.
Qed.

(* ---------------------------------------------------------- lookups *)
Definition opt_items (o : option (list value)) : list value := match o with Some i => i | None => [] end.

Definition own (comments : value) (key : str) : list value :=
  match comments with
  | VDict _ cm => match assoc key cm with Some w => citems w | None => [] end
  | _ => []
  end.

Lemma ccomment_own comments key o :
  plainc comments = true -> ccomment comments key = Ok o -> sub (opt_items o) (own comments key).
Proof.
  unfold ccomment. intros Hp H.
  destruct (val_contains comments key) as [present|e] eqn:Ec; cbn [bind] in H; [|discriminate].
  destruct present; cbn [negb] in H; [|injection H as <-; apply sub_nil_l].
  destruct (val_getitem comments key) as [value|e] eqn:Eg; cbn [bind] in H; [|discriminate].
  injection H as <-. destruct comments as [| | | | | |c cm]; try discriminate Eg.
  destruct c; try discriminate Hp. cbn [val_getitem] in Eg. unfold dict_getitem, dict_getitem_g in Eg.
  cbn [kfold_item has_factory] in Eg. cbn [own opt_items].
  destruct (assoc key cm) as [a|]; [|discriminate]. injection Eg as <-. apply sub_refl.
Qed.

Lemma acomment_own comments key o :
  plainc comments = true -> acomment comments key = Ok o -> sub (opt_items o) (own comments key).
Proof.
  unfold acomment. intros Hp H.
  destruct (val_contains comments key) as [present|e] eqn:Ec; cbn [bind] in H; [|discriminate].
  destruct present; cbn [negb] in H; [|injection H as <-; apply sub_nil_l].
  destruct (val_getitem comments key) as [value|e] eqn:Eg; cbn [bind] in H; [|discriminate].
  destruct comments as [| | | | | |c cm]; try discriminate Eg.
  destruct c; try discriminate Hp. cbn [val_getitem] in Eg. unfold dict_getitem, dict_getitem_g in Eg.
  cbn [kfold_item has_factory] in Eg. cbn [own].
  destruct (assoc key cm) as [a|]; [|discriminate]. injection Eg as <-.
  destruct a as [| | | | |l|]; try (injection H as <-; apply sub_refl).
  destruct (all_str l); [|discriminate]. injection H as <-. apply sub_refl.
Qed.

(* distinct keys read distinct entries of a plain comments dict *)
Lemma lookup_sub (cm : list (str * value)) : forall ks,
  NoDup ks ->
  sub (flat_map (fun k => match assoc k cm with Some w => citems w | None => [] end) ks) (pcd cm).
Proof.
  induction cm as [|[k0 w0] cm IH]; intros ks Hn.
  - apply sub_l_nil. induction ks as [|k ks IHk]; [reflexivity|]. cbn [flat_map assoc app].
    apply IHk. inversion Hn; assumption.
  - set (f := fun k => match assoc k ((k0, w0) :: cm) with Some w => citems w | None => [] end).
    set (f' := fun k => match assoc k cm with Some w => citems w | None => [] end).
    assert (Hext : forall l, ~ In k0 l -> flat_map f l = flat_map f' l).
    { intros l Hl. induction l as [|k l IHl]; [reflexivity|]. cbn [flat_map]. rewrite IHl by (cbn [In] in Hl; tauto).
      f_equal. unfold f, f'. cbn [assoc]. destruct (str_eqb_spec k k0) as [->|Hne]; [|reflexivity].
      exfalso. apply Hl. left. reflexivity. }
    cbn [pcd flat_map snd]. fold (pcd cm).
    destruct (in_dec str_dec k0 ks) as [Hin|Hnin].
    + apply in_split in Hin. destruct Hin as (l1 & l2 & ->).
      pose proof (NoDup_remove_1 _ _ _ Hn) as Hn'. pose proof (NoDup_remove_2 _ _ _ Hn) as Hk.
      rewrite flat_map_app. cbn [flat_map].
      assert (E0 : f k0 = citems w0) by (unfold f; cbn [assoc]; rewrite str_eqb_refl; reflexivity).
      rewrite E0, (Hext l1), (Hext l2) by (intros Hx; apply Hk; apply in_or_app; tauto).
      eapply sub_trans; [apply sub_perm, Permutation_app_swap_app|].
      apply sub_app; [apply sub_refl|]. rewrite <- flat_map_app. apply IH. exact Hn'.
    + rewrite (Hext ks Hnin). eapply sub_trans; [apply IH; exact Hn|apply sub_app_r].
Qed.

Lemma flat_map_all_nil {A B} (f : A -> list B) l : (forall x, f x = []) -> flat_map f l = [].
Proof. intros H. induction l as [|x l IH]; [reflexivity|]. cbn [flat_map]. rewrite H, IH. reflexivity. Qed.

Lemma own_lookup_sub comments ks : NoDup ks -> sub (flat_map (own comments) ks) (pcentry comments).
Proof.
  intros Hn. destruct comments as [| | | | | |c cm];
    try (apply sub_l_nil; apply flat_map_all_nil; intros x; reflexivity).
  cbn [pcentry]. exact (lookup_sub cm ks Hn).
Qed.

(* ---------------------------------------------------------- one dict: its own comments and its children *)
Definition gsub (kv : str * value) : list value := if is_metadata (fst kv) then [] else pstored (snd kv).

Lemma dict_get_comments c items :
  dict_get c (Str "__comments__") items (VDict DPlain [])
  = match assoc k_comments items with Some w => w | None => VDict DPlain [] end.
Proof.
  unfold dict_get. assert (E : kfold_in c (Str "__comments__") = k_comments).
  { destruct c; cbn [kfold_in]; [reflexivity|reflexivity|apply lower_k_comments]. }
  rewrite E. reflexivity.
Qed.

Definition pcontrib (kv : str * value) : list value :=
  if str_eqb (fst kv) k_comments then pcentry (snd kv) else if is_metadata (fst kv) then [] else pstored (snd kv).

Lemma pstored_dict c items : pstored (VDict c items) = flat_map pcontrib items.
Proof. reflexivity. Qed.

Lemma gsub_le kv : sub (gsub kv) (pcontrib kv).
Proof.
  unfold gsub, pcontrib. destruct (is_metadata (fst kv)) eqn:Em; [apply sub_nil_l|].
  rewrite (nonmeta_not_comments _ Em). apply sub_refl.
Qed.

Lemma comments_and_children c items :
  sub (pcentry (dict_get c (Str "__comments__") items (VDict DPlain [])) ++ flat_map gsub items)
      (pstored (VDict c items)).
Proof.
  rewrite dict_get_comments, pstored_dict.
  induction items as [|[k w] items IH].
  - cbn. apply sub_refl.
  - cbn [assoc flat_map fst snd]. destruct (str_eqb_spec k_comments k) as [<-|Hne].
    + unfold gsub at 1, pcontrib at 1. cbn [fst snd]. rewrite meta_comments, str_eqb_refl. cbn [app].
      apply sub_app; [apply sub_refl|]. apply sub_flat_map. apply Forall_forall. intros kv _. apply gsub_le.
    + eapply sub_trans; [apply sub_perm, Permutation_app_swap_app|].
      apply sub_app; [|exact IH]. apply gsub_le.
Qed.

Lemma own_bound c items ks :
  NoDup ks ->
  sub (flat_map (own (dict_get c (Str "__comments__") items (VDict DPlain []))) ks ++ flat_map gsub items)
      (pstored (VDict c items)).
Proof.
  intros Hn. eapply sub_trans; [|apply comments_and_children].
  apply sub_app; [|apply sub_refl]. apply own_lookup_sub. exact Hn.
Qed.

Lemma pguard_dict c items :
  pguard (VDict c items) = true ->
  NoDup (filter nonmeta (keys items))
  /\ (forall w, In (k_comments, w) items -> cmgood w = true)
  /\ (forall kv, In kv items -> is_metadata (fst kv) = false -> pguard (snd kv) = true).
Proof.
  cbn [pguard]. intros H. apply andb_true_iff in H. destruct H as [H1 H2].
  rewrite forallb_forall in H2. split; [apply nodupb_NoDup; exact H1|]. split.
  - intros w Hin. specialize (H2 _ Hin). cbn [fst snd] in H2.
    rewrite meta_comments, str_eqb_refl in H2. exact H2.
  - intros kv Hin Hm. specialize (H2 kv Hin). rewrite Hm in H2. exact H2.
Qed.

Lemma plainc_dict_get c items :
  pguard (VDict c items) = true -> plainc (dict_get c (Str "__comments__") items (VDict DPlain [])) = true.
Proof.
  rewrite dict_get_comments. intros H. destruct (pguard_dict c items H) as (_ & Hp & _).
  destruct (assoc k_comments items) as [w|] eqn:Ea; [|reflexivity].
  apply cmgood_plainc. apply Hp. apply assoc_Some_in. exact Ea.
Qed.

(* under the guard every comment item the printer can read is a string *)
Lemma all_str_Forall l : all_str l = true -> Forall (fun e => is_vstr e = true) l.
Proof. unfold all_str. rewrite forallb_forall. intros H. apply Forall_forall. exact H. Qed.

Lemma cmgood_items w : cmgood w = true -> Forall (fun e => is_vstr e = true) (pcentry w).
Proof.
  destruct w as [| | | | | |c cm]; try (intros _; constructor). destruct c; try discriminate.
  cbn [cmgood pcentry]. intros H. unfold pcd. rewrite forallb_forall in H.
  apply Forall_forall. intros e He. apply in_flat_map in He. destruct He as ([k w] & Hin & He).
  specialize (H _ Hin). cbn [snd] in *. destruct w as [| | | | |l|]; try discriminate H.
  cbn [strlist citems] in *. pose proof (all_str_Forall l H) as HF. rewrite Forall_forall in HF. apply HF. exact He.
Qed.

Theorem pguard_items_are_strings : forall v, pguard v = true -> Forall (fun e => is_vstr e = true) (pstored v).
Proof.
  induction v as [| | | | |l IH|c items IH] using value_ind'; try (intros _; constructor).
  - cbn [pguard pstored]. intros H. rewrite forallb_forall in H. apply Forall_forall. intros e He.
    apply in_flat_map in He. destruct He as (x & Hx & He). rewrite Forall_forall in IH.
    pose proof (IH x Hx (H x Hx)) as HF. rewrite Forall_forall in HF. apply HF. exact He.
  - intros H. destruct (pguard_dict c items H) as (_ & Hc & Hs). rewrite pstored_dict.
    apply Forall_forall. intros e He. apply in_flat_map in He. destruct He as ([k w] & Hin & He).
    unfold pcontrib in He. cbn [fst snd] in He. destruct (str_eqb_spec k k_comments) as [->|Hne].
    + pose proof (cmgood_items w (Hc w Hin)) as HF. rewrite Forall_forall in HF. apply HF. exact He.
    + destruct (is_metadata k) eqn:Em; [destruct He|].
      rewrite Forall_forall in IH. pose proof (IH _ Hin (Hs _ Hin Em)) as HF. cbn [snd] in HF.
      rewrite Forall_forall in HF. apply HF. exact He.
Qed.

Lemma flat_map_split {A B} (f h : A -> list B) l :
  Permutation (flat_map (fun x => f x ++ h x) l) (flat_map f l ++ flat_map h l).
Proof.
  induction l as [|x l IH]; [reflexivity|]. cbn [flat_map].
  eapply perm_trans; [apply Permutation_app_head; exact IH|].
  rewrite <- !app_assoc. apply Permutation_app_head. apply Permutation_app_swap_app.
Qed.

Lemma ownx_keys comments (items : list (str * value)) :
  flat_map (fun kv => if is_metadata (fst kv) then [] else own comments (fst kv)) items
  = flat_map (own comments) (filter nonmeta (keys items)).
Proof.
  induction items as [|[k w] items IH]; [reflexivity|]. cbn [flat_map keys map fst filter]. unfold nonmeta at 1.
  destruct (is_metadata k); cbn [negb app flat_map]; rewrite IH; reflexivity.
Qed.

Lemma NoDup_type_nonmeta ks : NoDup ks -> NoDup (k_type :: filter nonmeta ks).
Proof.
  intros H. constructor; [|apply NoDup_filter; exact H].
  intros Hin. apply filter_In in Hin. destruct Hin as [_ Hm]. unfold nonmeta in Hm. rewrite meta_type in Hm. discriminate.
Qed.

Lemma NoDup_type_nonmeta' ks : NoDup (filter nonmeta ks) -> NoDup (k_type :: filter nonmeta ks).
Proof.
  intros H. constructor; [|exact H].
  intros Hin. apply filter_In in Hin. destruct Hin as [_ Hm]. unfold nonmeta in Hm. rewrite meta_type in Hm. discriminate.
Qed.

Lemma del_perm {A} k (l : list (str * A)) v : assoc k l = Some v -> Permutation l ((k, v) :: od_del k l).
Proof.
  induction l as [|[k' v'] l IH]; cbn [assoc od_del]; [discriminate|].
  destruct (str_eqb_spec k k') as [->|Hne].
  - intros [= ->]. reflexivity.
  - intros H. eapply perm_trans; [apply perm_skip; apply IH; exact H|apply perm_swap].
Qed.

Lemma move_to_end_perm {A} k (l : list (str * A)) : Permutation l (od_move_to_end k l).
Proof.
  unfold od_move_to_end. destruct (assoc k l) as [v|] eqn:Ea; [|reflexivity].
  eapply perm_trans; [apply del_perm; exact Ea|]. apply Permutation_cons_append.
Qed.

Lemma separate_loop_perm {A} (valof : A -> value) c level ks : forall (items res : list (str * A)),
  separate_loop valof c level ks items = Ok res -> Permutation items res.
Proof.
  induction ks as [|k ks IH]; intros items res H; cbn [separate_loop] in H.
  - injection H as <-. reflexivity.
  - destruct (is_complex_type_g valof c items k level) as [b|e]; cbn [bind] in H; [|discriminate].
    destruct b; [|apply IH; exact H].
    destruct (dict_move_to_end c k items) as [items'|e] eqn:Em; cbn [bind] in H; [|discriminate].
    eapply perm_trans; [|apply IH; exact H].
    unfold dict_move_to_end in Em. destruct c; [discriminate| |];
      (destruct (assoc k items); [|discriminate]; injection Em as <-; apply move_to_end_perm).
Qed.

Section Written.
  Variables (q : N) (sct : bool).

  Lemma type_comment_written level comments tc :
    plainc comments = true -> t_type_comment level comments = Ok tc -> sub (written tc) (own comments k_type).
  Proof.
    unfold t_type_comment. intros Hp H.
    destruct (ccomment comments (Str "__type__")) as [o|e] eqn:Ec; cbn [bind] in H; [|discriminate].
    injection H as <-. pose proof (ccomment_own _ _ _ Hp Ec) as Ho.
    destruct o as [items|]; [|apply sub_nil_l]. rewrite written_TC1. exact Ho.
  Qed.

  Lemma process_dict_lines_written level L comments l : forall body,
    plainc comments = true -> t_process_dict_lines q level L comments l = Ok body ->
    sub (written body) (flat_map (own comments) (filter nonmeta (keys l))).
  Proof.
    induction l as [|[k v] l IH]; intros body Hp H; cbn [t_process_dict_lines] in H.
    - injection H as <-. apply sub_refl.
    - cbn [keys map fst filter]. unfold nonmeta at 1. destruct (is_metadata k); cbn [negb]; [apply IH; assumption|].
      destruct (acomment comments k) as [cm|e] eqn:Ea; cbn [bind] in H; [|discriminate].
      destruct (t_process_dict_lines q level L comments l) as [rest|e]; cbn [bind] in H; [|discriminate].
      injection H as <-. cbn [flat_map written].
      apply sub_app; [|apply IH; [exact Hp|reflexivity]].
      pose proof (acomment_own _ _ _ Hp Ea) as Ho. destruct cm; exact Ho.
  Qed.

  Lemma key_dict_written key d level T :
    pguard d = true -> t_process_key_dict q key d level = Ok T ->
    sub (written T) (pstored d).
  Proof.
    intros Hc H. unfold t_process_key_dict in H. destruct d as [| | | | | |c items]; try discriminate.
    pose proof (plainc_dict_get c items Hc) as Hp.
    set (comments := dict_get c (Str "__comments__") items (VDict DPlain [])) in *.
    destruct (t_type_comment level comments) as [tc|e] eqn:Et; cbn [bind] in H; [|discriminate].
    destruct (t_process_dict_lines q level _ comments items) as [body|e] eqn:Eb; cbn [bind] in H; [|discriminate].
    injection H as <-. wsimp.
    eapply sub_trans; [apply sub_app; [eapply type_comment_written; eassumption
                                      |eapply process_dict_lines_written; eassumption]|].
    change (own comments k_type ++ flat_map (own comments) (filter nonmeta (keys items)))
      with (flat_map (own comments) (k_type :: filter nonmeta (keys items))).
    eapply sub_trans; [apply sub_app_l|]. apply own_bound.
    apply NoDup_type_nonmeta'. apply (pguard_dict c items Hc).
  Qed.

  Lemma format_header_written c items comments level type_ thead :
    plainc comments = true -> t_format_header c items comments level = Ok (type_, thead) ->
    sub (written thead) (own comments k_type).
  Proof.
    unfold t_format_header. intros Hp H.
    destruct (dict_in c (Str "__type__") items); [|injection H as <- <-; apply sub_nil_l].
    destruct (dict_getitem c (Str "__type__") items) as [t|e]; cbn [bind] in H; [|discriminate].
    destruct t as [| | | |ty| |]; try discriminate.
    destruct (mem_str ty all_composite_names); [|discriminate].
    destruct (t_type_comment level comments) as [tc|e] eqn:Et; cbn [bind] in H; [|discriminate].
    injection H as <- <-. wsimp.
    eapply type_comment_written; eassumption.
  Qed.

  Lemma mapM_written (rec : value -> res (list tline * value)) vs : forall rs,
    Forall (fun x => forall T v', rec x = Ok (T, v') -> sub (written T) (pstored x)) vs ->
    mapM rec vs = Ok rs -> sub (written (concat (map fst rs))) (flat_map pstored vs).
  Proof.
    induction vs as [|x vs IH]; intros rs HF H; cbn [mapM] in H.
    - injection H as <-. apply sub_refl.
    - destruct (rec x) as [[T v']|e] eqn:Ex; cbn [bind] in H; [|discriminate].
      destruct (mapM rec vs) as [rs'|e]; cbn [bind] in H; [|discriminate]. injection H as <-.
      cbn [map concat fst flat_map]. rewrite written_app.
      apply sub_app; [exact (Forall_inv HF T v' Ex)|apply IH; [exact (Forall_inv_tail HF)|reflexivity]].
  Qed.

  Definition ownx (comments : value) (kv : str * value) : list value :=
    if is_metadata (fst kv) then [] else own comments (fst kv).

  Lemma bind_TL_written (r : res (list aline)) (v : value) (Ti : list tline) (vi : value) (X : list value) :
    (do ls <- r; Ok (map TL ls, v)) = Ok (Ti, vi) -> sub (written Ti) X.
  Proof.
    destruct r as [ls|e]; cbn [bind]; [|discriminate]. intros [= <- <-]. rewrite written_TL. apply sub_nil_l.
  Qed.

  Lemma format_item_written (rec : value -> res (list tline * value)) type_ comments level L attr v Ti vi :
    plainc comments = true -> (is_metadata attr = false -> pguard v = true) ->
    (forall T v', rec v = Ok (T, v') -> sub (written T) (pstored v)) ->
    (forall vs, v = VList vs -> Forall (fun x => forall T v', rec x = Ok (T, v') -> sub (written T) (pstored x)) vs) ->
    t_format_item q sct rec type_ comments level L attr v = Ok (Ti, vi) ->
    sub (written Ti) (ownx comments (attr, v) ++ gsub (attr, v)).
  Proof.
    intros Hp Hc0 Hrec Hlist H. unfold t_format_item in H. unfold ownx, gsub. cbn [fst snd].
    destruct (is_metadata attr); [injection H as <- _; apply sub_nil_l|].
    pose proof (Hc0 eq_refl) as Hc.
    destruct (is_hidden_container attr v).
    { destruct v as [| | | | |vs|]; try (injection H as <- _; apply sub_nil_l).
      destruct (mapM rec vs) as [rs|e] eqn:Em; cbn [bind] in H; [|discriminate]. injection H as <- _.
      eapply sub_trans; [|apply sub_app_r]. cbn [pstored]. eapply mapM_written; [apply Hlist; reflexivity|exact Em]. }
    destruct (str_eqb attr (Str "pattern")); [eapply bind_TL_written; exact H|].
    destruct (mem_str attr key_dict_names).
    { destruct (t_process_key_dict q attr v level) as [ls|e] eqn:Ek; cbn [bind] in H; [|discriminate].
      injection H as <- _. eapply sub_trans; [|apply sub_app_r]. eapply key_dict_written; eassumption. }
    destruct (str_eqb attr (Str "projection")).
    { destruct (acomment comments attr) as [o|e] eqn:Ea; cbn [bind] in H; [|discriminate].
      destruct (t_process_projection q attr v level o) as [ls|e] eqn:Epj; cbn [bind] in H; [|discriminate].
      injection H as <- _. eapply sub_trans; [|apply sub_app_l].
      unfold t_process_projection in Epj.
      destruct (a_process_projection q attr v level []) as [A|e]; cbn [bind] in Epj; [|discriminate].
      injection Epj as <-. destruct A as [|x r]; [apply sub_nil_l|].
      wsimp.
      pose proof (acomment_own _ _ _ Hp Ea) as Ho.
      destruct o as [items|]; [|apply sub_nil_l]. rewrite written_TP1. exact Ho. }
    destruct (mem_str attr REPEATED_KEYS); [eapply bind_TL_written; exact H|].
    destruct (str_eqb attr (Str "points")); [eapply bind_TL_written; exact H|].
    destruct (str_eqb attr (Str "config")); [eapply bind_TL_written; exact H|].
    destruct (is_composite v).
    { eapply sub_trans; [|apply sub_app_r]. eapply Hrec. exact H. }
    destruct type_ as [|t0 type_]; [discriminate|].
    destruct (a_process_attribute q sct (t0 :: type_) attr v level L) as [al|e]; cbn [bind] in H; [|discriminate].
    destruct (acomment comments attr) as [cm|e] eqn:Ea; cbn [bind] in H; [|discriminate].
    injection H as <- _. eapply sub_trans; [|apply sub_app_l].
    pose proof (acomment_own _ _ _ Hp Ea) as Ho.
    destruct al; try apply sub_nil_l.
    destruct cm as [items|]; [|apply sub_nil_l]. cbn [written flat_map written1]. rewrite app_nil_r. exact Ho.
  Qed.

  (* what one per-item result writes *)
  Definition wr (e : str * (value * res (list tline * value))) : list value :=
    match snd (snd e) with Ok lv => written (fst lv) | Err _ => [] end.

  Lemma collect_items_written l : forall A its, t_collect_items l = Ok (A, its) -> written A = flat_map wr l.
  Proof.
    induction l as [|[k [v r]] l IH]; intros A its H; cbn [t_collect_items] in H.
    - injection H as <- _. reflexivity.
    - destruct r as [lv|e]; cbn [bind] in H; [|discriminate].
      destruct (t_collect_items l) as [[A2 its2]|e] eqn:Ec; cbn [bind] in H; [|discriminate].
      injection H as <- _. cbn [flat_map fst]. rewrite written_app. unfold wr at 1. cbn [snd fst].
      f_equal. eapply IH. reflexivity.
  Qed.

  Lemma sorted_perm {A} (valof : A -> value) c level (results sorted : list (str * A)) :
    separate_complex_g (oc q sct) valof c level results = Ok sorted -> Permutation results sorted.
  Proof.
    unfold separate_complex_g. destruct (separate_complex_types (oc q sct)); [|intros [= <-]; reflexivity].
    apply separate_loop_perm.
  Qed.

  Lemma format_written v :
    (forall level T v', pguard v = true ->
                        t_format q sct level v = Ok (T, v') -> sub (written T) (pstored v))
    /\ match v with
       | VList l => Forall (fun x => forall level T v', pguard x = true ->
                                      t_format q sct level x = Ok (T, v') -> sub (written T) (pstored x)) l
       | _ => True
       end.
  Proof.
    induction v as [| | | | |l IH|c items IH] using value_ind'; try (split; [intros; discriminate|exact I]).
    - split; [intros; discriminate|]. eapply Forall_impl; [|exact IH]. intros x Hx. apply Hx.
    - split; [|exact I]. intros level T v' Hc H. cbn [t_format] in H.
      pose proof (plainc_dict_get c items Hc) as Hp.
      set (comments := dict_get c (Str "__comments__") items (VDict DPlain [])) in *.
      destruct (t_format_header c items comments level) as [[type_ thead]|e] eqn:Eh; cbn [bind fst snd] in H; [|discriminate].
      set (L := compute_max_key_length items) in *.
      set (results := map (fun kv => (fst kv, (snd kv, t_format_item q sct (fun x => t_format q sct (S level) x)
                                                             type_ comments level L (fst kv) (snd kv)))) items) in *.
      destruct (separate_complex_g (oc q sct) (fun a : value * res (list tline * value) => fst a) c level results)
        as [sorted|e] eqn:Es; cbn [bind] in H; [|discriminate].
      destruct (t_collect_items sorted) as [[A its]|e] eqn:Ec; cbn [bind fst snd] in H; [|discriminate].
      destruct type_ as [|t0 type_]; [discriminate|]. injection H as <- _.
      destruct (pguard_dict c items Hc) as (Hnd & _ & Hsub).
      assert (Hperm : Permutation results sorted).
      { eapply sorted_perm; exact Es. }
      wsimp.
      rewrite (collect_items_written sorted A its Ec).
      eapply sub_trans; [apply sub_app; [eapply format_header_written; eassumption
                                        |apply sub_perm, Permutation_sym, Permutation_flat_map; exact Hperm]|].
      assert (Hitems : sub (flat_map wr results) (flat_map (fun kv => ownx comments kv ++ gsub kv) items)).
      { unfold results. rewrite flat_map_map. apply sub_flat_map.
        rewrite Forall_forall in IH. apply Forall_forall. intros [k w] Hin. unfold wr. cbn [fst snd].
        match goal with |- sub (match ?R with Ok _ => _ | Err _ => _ end) _ => destruct R as [[Ti vi]|e] eqn:Ei end;
          [|apply sub_nil_l].
        cbn [fst]. destruct (IH _ Hin) as [HQ HL]. cbn [snd] in HQ, HL.
        pose proof (Hsub _ Hin) as Hcw. cbn [fst snd] in Hcw.
        destruct (is_metadata k) eqn:Emk.
        { unfold t_format_item in Ei. rewrite Emk in Ei. injection Ei as <- _. apply sub_nil_l. }
        specialize (Hcw eq_refl).
        eapply format_item_written; [exact Hp|intros _; exact Hcw| | |exact Ei].
        - intros T0 v0 E0. eapply HQ; eassumption.
        - intros vs ->. cbn [pguard] in Hcw. rewrite forallb_forall in Hcw.
          rewrite Forall_forall in HL. apply Forall_forall. intros x Hx T0 v0 E0.
          eapply HL; [exact Hx|apply Hcw; exact Hx|exact E0]. }
      eapply sub_trans; [apply sub_app; [apply sub_refl|exact Hitems]|].
      eapply sub_trans; [apply sub_app; [apply sub_refl|apply sub_perm, flat_map_split]|].
      rewrite app_assoc. unfold ownx at 1. rewrite ownx_keys.
      change (own comments k_type ++ flat_map (own comments) (filter nonmeta (keys items)))
        with (flat_map (own comments) (k_type :: filter nonmeta (keys items))).
      apply own_bound. apply NoDup_type_nonmeta'. exact Hnd.
  Qed.

  Lemma pprint_one_written v T v' :
    pguard v = true -> t_pprint_one q sct v = Ok (T, v') -> sub (written T) (pstored v).
  Proof.
    intros Hc H. unfold t_pprint_one in H. destruct v as [| | | | | |c items]; try discriminate.
    destruct (assoc (kfold_item c (Str "__type__")) items) as [t|]; [|destruct (has_factory c); discriminate].
    destruct t as [| | | |type_| |]; try (eapply (proj1 (format_written _)); eassumption).
    destruct (mem_str type_ [Str "metadata"; Str "validation"; Str "connectionoptions"]).
    - destruct (t_process_key_dict q type_ (VDict c items) 0) as [ls|e] eqn:Ek; cbn [bind] in H; [|discriminate].
      injection H as <- _. eapply key_dict_written; eassumption.
    - eapply (proj1 (format_written _)); eassumption.
  Qed.

  (* every comment item the printer writes is an item stored in a __comments__
     dict of its argument, and no stored item is written twice *)
  Theorem written_sub_stored d T d' :
    pguard d = true -> t_pprint q sct d = Ok (T, d') -> sub (written T) (pstored d).
  Proof.
    intros Hc H. unfold t_pprint in H.
    destruct (negb (N.eqb q c_sq || N.eqb q c_dq)); [discriminate|].
    assert (G : forall v, pguard v = true ->
               (if truthy v then do r <- t_pprint_one q sct v; Ok r
                else match v with VStr _ | VDict _ _ => Ok ([], v) | _ => Err PyTypeError end) = Ok (T, d') ->
               sub (written T) (pstored v)).
    { intros v Hc' H'. destruct (truthy v).
      - destruct (t_pprint_one q sct v) as [[T0 v0]|e] eqn:E1; cbn [bind] in H'; [|discriminate].
        injection H' as <- _. eapply pprint_one_written; eassumption.
      - destruct v; try discriminate; injection H' as <- _; apply sub_nil_l. }
    destruct d as [| | | | |l|]; try (apply G; assumption).
    destruct (mapM (t_pprint_one q sct) l) as [rs|e] eqn:Em; cbn [bind] in H; [|discriminate].
    injection H as <- _. cbn [pstored]. eapply mapM_written; [|exact Em].
    cbn [pguard] in Hc. rewrite forallb_forall in Hc.
    apply Forall_forall. intros x Hx T0 v0 E0. eapply pprint_one_written; [apply Hc; exact Hx|exact E0].
  Qed.
End Written.

(* ================================================================ pprint *)
Theorem pprint_writes_stored_comments :
  forall o d s d',
    pguard d = true -> pprint o d = Ok (s, d') ->
    exists T, t_pprint (quote o) (separate_complex_types o) d = Ok (T, d')
              /\ s = render o (untrace T)
              /\ exists rest, Permutation (written T ++ rest) (pstored d).
Proof.
  intros o d s d' Hc H. rewrite pprint_traced in H.
  destruct (t_pprint (quote o) (separate_complex_types o) d) as [[T d1]|e] eqn:Et; [|discriminate].
  injection H as <- <-. exists T. split; [reflexivity|split; [reflexivity|]].
  exact (written_sub_stored _ _ d T d1 Hc Et).
Qed.
